import HyperModel.Model.Indexer
/-! Lemmas for C31 (indexer window): the canonical state after consecutive notifications. -/
namespace HyperModel.IndexerProofs
open HyperModel.Indexer

/-- The accepted chain: one block per height, ids identify blocks, every transaction occurs once. -/
structure Chain (c : Nat → Block) : Prop where
  height : ∀ h, (c h).height = h
  idInj : ∀ h h', (c h).id = (c h').id → h = h'
  txNodup : ∀ h, (c h).txs.Nodup
  txDisj : ∀ h h' tx, tx ∈ (c h).txs → tx ∈ (c h').txs → h = h'

/-- `h` is one of the last `w` of the `n` heights `a, a+1, …, a+n-1` -/
abbrev InWin (w a n h : Nat) : Prop := a ≤ h ∧ h < a + n ∧ a + n ≤ h + w

/-- the caches after `n` consecutive notifications starting at height `a` -/
structure CacheCanon (c : Nat → Block) (w a n : Nat) (s : St) : Prop where
  hw : s.w = w
  last : s.lastHeight = if n = 0 then maxU64 else a + n - 1
  htb : ∀ h, s.heightToBlock h = if InWin w a n h then some (c h) else none
  ith : ∀ id h, s.idToHeight id = some h ↔ InWin w a n h ∧ id = (c h).id
  txc : ∀ tx p, s.txCache tx = some p ↔ InWin w a n p.1 ∧ (c p.1).txs[p.2]? = some tx

theorem uncacheTxs_apply (txs : List Nat) (f : Nat → Option (Nat × Nat)) (x : Nat) :
    uncacheTxs txs f x = if x ∈ txs then none else f x := by
  induction txs generalizing f with
  | nil => simp [uncacheTxs]
  | cons t r ih =>
    simp only [uncacheTxs, ih, setFn, List.mem_cons]
    by_cases h1 : x ∈ r
    · simp [h1]
    · by_cases h2 : x = t <;> simp [h1, h2]

theorem cacheTxs_iff (h : Nat) (txs : List Nat) (hn : txs.Nodup) (i0 : Nat)
    (f : Nat → Option (Nat × Nat)) (x : Nat) (p : Nat × Nat) :
    cacheTxs h txs i0 f x = some p ↔
      (p.1 = h ∧ i0 ≤ p.2 ∧ txs[p.2 - i0]? = some x) ∨ (x ∉ txs ∧ f x = some p) := by
  induction txs generalizing i0 f with
  | nil => simp [cacheTxs]
  | cons t r ih =>
    have hn' := List.nodup_cons.mp hn
    simp only [cacheTxs]
    rw [ih hn'.2]
    obtain ⟨p1, p2⟩ := p
    simp only [setFn, List.mem_cons, not_or]
    constructor
    · rintro (⟨e1, e2, e3⟩ | ⟨e1, e2⟩)
      · left
        refine ⟨e1, by omega, ?_⟩
        have : p2 - i0 = (p2 - (i0 + 1)) + 1 := by omega
        rw [this, List.getElem?_cons_succ]; exact e3
      · by_cases hx : x = t
        · subst hx
          simp only [if_true, Option.some.injEq, Prod.mk.injEq] at e2
          left
          refine ⟨e2.1.symm, by omega, ?_⟩
          have : p2 - i0 = 0 := by omega
          rw [this]; simp
        · simp only [hx, if_false] at e2
          right; exact ⟨⟨hx, e1⟩, e2⟩
    · rintro (⟨e1, e2, e3⟩ | ⟨⟨e1, e1'⟩, e2⟩)
      · by_cases hi : p2 = i0
        · subst hi
          simp only [Nat.sub_self, List.getElem?_cons_zero, Option.some.injEq] at e3
          subst e3
          right
          refine ⟨hn'.1, ?_⟩
          simp [e1]
        · left
          refine ⟨e1, by omega, ?_⟩
          have : p2 - i0 = (p2 - (i0 + 1)) + 1 := by omega
          rw [this, List.getElem?_cons_succ] at e3; exact e3
      · right
        refine ⟨e1', ?_⟩
        simp [e1, e2]

/-- one insertion, described field by field (`E` = a block was evicted, `e` = its height) -/
theorem canon_step_core {c : Nat → Block} (hc : Chain c) {w a n : Nat} (hw : 0 < w)
    (E : Prop) [Decidable E] (e : Nat)
    (hE : E ↔ (w ≤ a + n ∧ a ≤ a + n - w)) (he : E → e = a + n - w)
    {s s' : St} (hs : CacheCanon c w a n s)
    (h1 : s'.w = s.w) (h2 : s'.lastHeight = a + n)
    (h3 : ∀ h, s'.heightToBlock h =
      if h = a + n then some (c (a + n)) else if h = e ∧ E then none else s.heightToBlock h)
    (h4 : ∀ id, s'.idToHeight id =
      if id = (c (a + n)).id then some (a + n) else if id = (c e).id ∧ E then none else s.idToHeight id)
    (h5 : ∀ tx p, s'.txCache tx = some p ↔
      (p.1 = a + n ∧ (c (a + n)).txs[p.2]? = some tx) ∨
      (tx ∉ (c (a + n)).txs ∧ ¬ (tx ∈ (c e).txs ∧ E) ∧ s.txCache tx = some p)) :
    CacheCanon c w a (n + 1) s' := by
  -- the window moves by one
  have win : ∀ h, InWin w a (n + 1) h ↔ h = a + n ∨ (InWin w a n h ∧ ¬ (h = e ∧ E)) := by
    intro h
    by_cases hEE : E
    · have := he hEE
      have := hE.mp hEE
      simp only [InWin, hEE, and_true]
      omega
    · have : ¬ (w ≤ a + n ∧ a ≤ a + n - w) := fun x => hEE (hE.mpr x)
      simp only [InWin, hEE, and_false, not_false_eq_true, and_true]
      omega
  refine ⟨by rw [h1, hs.hw], by rw [h2]; simp, ?_, ?_, ?_⟩
  · intro h
    rw [h3]
    by_cases e1 : h = a + n
    · have : InWin w a (n + 1) h := (win h).mpr (Or.inl e1)
      rw [if_pos e1, if_pos this, e1]
    · rw [if_neg e1]
      by_cases e2 : h = e ∧ E
      · have : ¬ InWin w a (n + 1) h := fun x => by
          rcases (win h).mp x with y | y
          · exact e1 y
          · exact y.2 e2
        rw [if_pos e2, if_neg this]
      · rw [if_neg e2, hs.htb]
        by_cases e3 : InWin w a n h
        · have : InWin w a (n + 1) h := (win h).mpr (Or.inr ⟨e3, e2⟩)
          rw [if_pos e3, if_pos this]
        · have : ¬ InWin w a (n + 1) h := fun x => by
            rcases (win h).mp x with y | y
            · exact e1 y
            · exact e3 y.1
          rw [if_neg e3, if_neg this]
  · intro id h
    rw [h4]
    by_cases e1 : id = (c (a + n)).id
    · rw [if_pos e1]
      constructor
      · intro hh
        have : h = a + n := by simpa using hh.symm
        subst this
        exact ⟨(win _).mpr (Or.inl rfl), e1⟩
      · rintro ⟨_, hid⟩
        have := hc.idInj _ _ (e1.symm.trans hid)
        rw [this]
    · rw [if_neg e1]
      by_cases e2 : id = (c e).id ∧ E
      · rw [if_pos e2]
        constructor
        · intro hh; cases hh
        · rintro ⟨hwin, hid⟩
          have hhe : h = e := (hc.idInj _ _ (e2.1.symm.trans hid)).symm
          rcases (win h).mp hwin with y | y
          · exact absurd (y ▸ hid) e1
          · exact absurd ⟨hhe, e2.2⟩ y.2
      · rw [if_neg e2, hs.ith]
        constructor
        · rintro ⟨hwin, hid⟩
          refine ⟨(win h).mpr (Or.inr ⟨hwin, ?_⟩), hid⟩
          rintro ⟨x, y⟩
          exact e2 ⟨x ▸ hid, y⟩
        · rintro ⟨hwin, hid⟩
          rcases (win h).mp hwin with y | y
          · exact absurd (y ▸ hid) e1
          · exact ⟨y.1, hid⟩
  · intro tx p
    rw [h5]
    constructor
    · rintro (⟨x, y⟩ | ⟨_, y, z⟩)
      · exact ⟨(win _).mpr (Or.inl x), x ▸ y⟩
      · have zz := (hs.txc tx p).mp z
        refine ⟨(win _).mpr (Or.inr ⟨zz.1, ?_⟩), zz.2⟩
        rintro ⟨x1, x2⟩
        exact y ⟨x1 ▸ List.mem_iff_getElem?.mpr ⟨_, zz.2⟩, x2⟩
    · rintro ⟨hwin, htx⟩
      have hmem : tx ∈ (c p.1).txs := List.mem_iff_getElem?.mpr ⟨_, htx⟩
      rcases (win _).mp hwin with y | y
      · left; exact ⟨y, y ▸ htx⟩
      · right
        refine ⟨?_, ?_, (hs.txc tx p).mpr ⟨y.1, htx⟩⟩
        · intro hm
          have := hc.txDisj _ _ _ hmem hm
          have := y.1
          simp only [InWin] at this
          omega
        · rintro ⟨hm, hEE⟩
          exact y.2 ⟨hc.txDisj _ _ _ hmem hm, hEE⟩

theorem sub64_cases {H w : Nat} (hH : H < two64) (hw : w < two64) :
    sub64 H w = if w ≤ H then H - w else H + two64 - w := by
  simp only [sub64, two64] at *
  split <;> omega

theorem insert_evict (s : St) (b ev : Block) (h : s.heightToBlock (sub64 b.height s.w) = some ev) :
    insertBlockIntoCache s b =
      { w := s.w, db := s.db,
        idToHeight := setFn (setFn s.idToHeight ev.id none) b.id (some b.height),
        heightToBlock := setFn (setFn s.heightToBlock ev.height none) b.height (some b),
        txCache := cacheTxs b.height b.txs 0 (uncacheTxs ev.txs s.txCache),
        lastHeight := b.height } := by
  simp [insertBlockIntoCache, h]

theorem insert_noevict (s : St) (b : Block) (h : s.heightToBlock (sub64 b.height s.w) = none) :
    insertBlockIntoCache s b =
      { w := s.w, db := s.db,
        idToHeight := setFn s.idToHeight b.id (some b.height),
        heightToBlock := setFn s.heightToBlock b.height (some b),
        txCache := cacheTxs b.height b.txs 0 s.txCache,
        lastHeight := b.height } := by
  simp [insertBlockIntoCache, h]

theorem insert_db (s : St) (b : Block) : (insertBlockIntoCache s b).db = s.db := by
  cases h : s.heightToBlock (sub64 b.height s.w) with
  | none => rw [insert_noevict _ _ h]
  | some ev => rw [insert_evict _ _ _ h]

/-- inserting the next block of the chain keeps the caches canonical -/
theorem canon_insert {c : Nat → Block} (hc : Chain c) {w a n : Nat} (hw : 0 < w) (hw2 : w < two64)
    (hH : a + n < two64) {s : St} (hs : CacheCanon c w a n s) :
    CacheCanon c w a (n + 1) (insertBlockIntoCache s (c (a + n))) := by
  have hh := hc.height (a + n)
  have hsub := sub64_cases hH hw2
  by_cases hE : w ≤ a + n ∧ a ≤ a + n - w
  · -- the block at height a+n-w is evicted
    have hev : s.heightToBlock (sub64 (c (a + n)).height s.w) = some (c (a + n - w)) := by
      rw [hh, hs.hw, hsub, if_pos hE.1, hs.htb]
      have : InWin w a n (a + n - w) := by simp only [InWin]; omega
      rw [if_pos this]
    rw [insert_evict _ _ _ hev]
    refine canon_step_core hc hw True (a + n - w) (by simp [hE]) (fun _ => rfl) hs rfl (by simp [hh]) ?_ ?_ ?_
    · intro h
      simp only [setFn, hh, hc.height (a + n - w), and_true]
    · intro id
      simp only [setFn, hh, and_true]
    · intro tx p
      simp only [hh]
      rw [cacheTxs_iff _ _ (hc.txNodup _), uncacheTxs_apply]
      simp only [Nat.zero_le, Nat.sub_zero, true_and, and_true]
      constructor
      · rintro (x | ⟨x, y⟩)
        · exact Or.inl x
        · by_cases hm : tx ∈ (c (a + n - w)).txs
          · simp [hm] at y
          · right; simp only [hm, if_false] at y; exact ⟨x, hm, y⟩
      · rintro (x | ⟨x, y, z⟩)
        · exact Or.inl x
        · right; simp only [y, if_false]; exact ⟨x, z⟩
  · -- nothing to evict
    have hev : s.heightToBlock (sub64 (c (a + n)).height s.w) = none := by
      rw [hh, hs.hw, hsub, hs.htb]
      have : ¬ InWin w a n (if w ≤ a + n then a + n - w else a + n + two64 - w) := by
        simp only [InWin, two64] at *
        split <;> omega
      rw [if_neg this]
    rw [insert_noevict _ _ hev]
    refine canon_step_core hc hw False 0 (by simp [hE]) (fun x => x.elim) hs rfl (by simp [hh]) ?_ ?_ ?_
    · intro h
      simp only [setFn, hh, and_false, if_false]
    · intro id
      simp only [setFn, hh, and_false, if_false]
    · intro tx p
      simp only [hh]
      rw [cacheTxs_iff _ _ (hc.txNodup _)]
      simp only [Nat.zero_le, Nat.sub_zero, true_and, and_false, not_false_eq_true]


/-! ## the store -/

/-- `m` consecutive blocks of the chain from height `lo`, in iterator order -/
def dbOf (c : Nat → Block) : Nat → Nat → Store
  | _, 0 => []
  | lo, m + 1 => (lo, c lo) :: dbOf c (lo + 1) m

theorem dbOf_snoc (c : Nat → Block) (lo m : Nat) :
    dbOf c lo (m + 1) = dbOf c lo m ++ [(lo + m, c (lo + m))] := by
  induction m generalizing lo with
  | zero => simp [dbOf]
  | succ m ih =>
    have e : lo + 1 + m = lo + (m + 1) := by omega
    rw [dbOf, ih (lo + 1), e]
    simp [dbOf]

theorem keys_dbOf (c : Nat → Block) (lo m : Nat) : ∀ p ∈ dbOf c lo m, lo ≤ p.1 ∧ p.1 < lo + m := by
  induction m generalizing lo with
  | zero => intro p hp; simp [dbOf] at hp
  | succ m ih =>
    intro p hp
    simp only [dbOf, List.mem_cons] at hp
    rcases hp with hp | hp
    · subst hp; simp
    · have := ih (lo + 1) p hp; omega

theorem dbPut_append (h : Nat) (b : Block) (l : Store) (hl : ∀ p ∈ l, p.1 < h) :
    dbPut h b l = l ++ [(h, b)] := by
  induction l with
  | nil => rfl
  | cons p r ih =>
    obtain ⟨k, v⟩ := p
    have hk : k < h := hl (k, v) List.mem_cons_self
    have h1 : ¬ h < k := by omega
    have h2 : ¬ h = k := by omega
    simp only [dbPut, h1, h2, if_false, List.cons_append]
    rw [ih (fun p hp => hl p (List.mem_cons_of_mem _ hp))]

theorem dbDel_notin (k : Nat) (l : Store) (hl : ∀ p ∈ l, p.1 ≠ k) : dbDel k l = l := by
  induction l with
  | nil => rfl
  | cons p r ih =>
    obtain ⟨k', v⟩ := p
    have : ¬ k' = k := hl (k', v) List.mem_cons_self
    simp only [dbDel, this, if_false]
    rw [ih (fun p hp => hl p (List.mem_cons_of_mem _ hp))]

theorem dbDel_head (c : Nat → Block) (lo m : Nat) : dbDel lo (dbOf c lo (m + 1)) = dbOf c (lo + 1) m := by
  simp only [dbOf, dbDel, if_true]
  apply dbDel_notin
  intro p hp
  have := keys_dbOf c (lo + 1) m p hp
  omega

theorem dbDeleteRange_noop (lo hi : Nat) (l : Store) (hl : ∀ p ∈ l, ¬ (lo ≤ p.1 ∧ p.1 < hi)) :
    dbDeleteRange lo hi l = l := by
  unfold dbDeleteRange
  rw [List.filter_eq_self]
  intro p hp
  have := hl p hp
  simp
  omega

/-- first retained height after `n` consecutive notifications from `a` -/
def loOf (w a n : Nat) : Nat := if a + n ≤ a + w then a else a + n - w

/-- the whole indexer state after `n` consecutive notifications from `a` (and any restarts) -/
structure Canon (c : Nat → Block) (w a n : Nat) (s : St) : Prop where
  cache : CacheCanon c w a n s
  db : s.db = dbOf c (loOf w a n) (a + n - loOf w a n)

theorem cacheCanon_setDb {c : Nat → Block} {w a n : Nat} {s : St} (hs : CacheCanon c w a n s) (d : Store) :
    CacheCanon c w a n { s with db := d } :=
  ⟨hs.hw, hs.last, hs.htb, hs.ith, hs.txc⟩

theorem canon_notify {c : Nat → Block} (hc : Chain c) {w a n : Nat} (hw : 0 < w) (hw2 : w < two64)
    (hH : a + n < two64) {s : St} (hs : Canon c w a n s) :
    Canon c w a (n + 1) (notify s (c (a + n))) := by
  have hci := canon_insert hc hw hw2 hH hs.cache
  have hh := hc.height (a + n)
  refine ⟨cacheCanon_setDb hci _, ?_⟩
  simp only [notify, storeBlock]
  rw [insert_db, hci.hw, hh, hs.db, sub64_cases hH hw2]
  have hput : dbPut (a + n) (c (a + n)) (dbOf c (loOf w a n) (a + n - loOf w a n))
      = dbOf c (loOf w a n) (a + n - loOf w a n + 1) := by
    rw [dbPut_append, dbOf_snoc]
    · have : loOf w a n + (a + n - loOf w a n) = a + n := by unfold loOf; split <;> omega
      rw [this]
    · intro p hp
      have := keys_dbOf _ _ _ p hp
      unfold loOf at this
      split at this <;> omega
  rw [hput]
  by_cases hE : w ≤ a + n ∧ a ≤ a + n - w
  · have e1 : loOf w a n = a + n - w := by unfold loOf; split <;> omega
    have e2 : loOf w a (n + 1) = a + n - w + 1 := by unfold loOf; split <;> omega
    rw [if_pos hE.1, e1, e2]
    have e3 : a + n - (a + n - w) + 1 = w + 1 := by omega
    have e4 : a + (n + 1) - (a + n - w + 1) = w := by omega
    rw [e3, e4, dbDel_head]
  · have e1 : loOf w a (n + 1) = loOf w a n := by unfold loOf; split <;> split <;> omega
    have e2 : a + (n + 1) - loOf w a n = a + n - loOf w a n + 1 := by unfold loOf; split <;> omega
    rw [e1, e2]
    apply dbDel_notin
    intro p hp
    have := keys_dbOf _ _ _ p hp
    unfold loOf at this
    simp only [two64] at *
    split <;> split at this <;> omega

/-! ## reload on start -/

theorem canon_fold {c : Nat → Block} (hc : Chain c) {w lo : Nat} (hw : 0 < w) (hw2 : w < two64)
    (m : Nat) : ∀ (k : Nat) (st : St), CacheCanon c w lo k st → lo + k + m ≤ two64 →
      CacheCanon c w lo (k + m)
        ((dbOf c (lo + k) m).foldl (fun acc kv => insertBlockIntoCache acc kv.2) st) ∧
      ((dbOf c (lo + k) m).foldl (fun acc kv => insertBlockIntoCache acc kv.2) st).db = st.db := by
  induction m with
  | zero => intro k st hst _; exact ⟨hst, rfl⟩
  | succ m ih =>
    intro k st hst hb
    simp only [dbOf, List.foldl_cons]
    have h1 := canon_insert hc hw hw2 (by omega) hst
    obtain ⟨h2, h3⟩ := ih (k + 1) _ h1 (by omega)
    have e : k + 1 + m = k + (m + 1) := by omega
    rw [e] at h2
    exact ⟨h2, by have h4 := h3; rw [insert_db] at h4; exact h4⟩

theorem cacheCanon_shift {c : Nat → Block} {w a n lo m : Nat} {s : St}
    (hwin : ∀ h, InWin w lo m h ↔ InWin w a n h) (hz : m = 0 ↔ n = 0) (hsum : lo + m = a + n)
    (hs : CacheCanon c w lo m s) : CacheCanon c w a n s := by
  have hwin' : ∀ h, InWin w lo m h = InWin w a n h := fun h => propext (hwin h)
  refine ⟨hs.hw, ?_, ?_, ?_, ?_⟩
  · rw [hs.last]
    by_cases h0 : n = 0
    · simp [h0, hz.mpr h0]
    · have : ¬ m = 0 := fun x => h0 (hz.mp x)
      simp only [h0, this, if_false]; omega
  · intro h; rw [hs.htb]; simp only [hwin']
  · intro id h; rw [hs.ith]; simp only [hwin']
  · intro tx p; rw [hs.txc]; simp only [hwin']

/-- the empty caches `NewIndexer` starts from -/
def blank (w : Nat) (db : Store) : St :=
  { w := w, db := db, idToHeight := fun _ => none, heightToBlock := fun _ => none,
    txCache := fun _ => none, lastHeight := maxU64 }

theorem cacheCanon_blank (c : Nat → Block) (w lo : Nat) (db : Store) : CacheCanon c w lo 0 (blank w db) := by
  refine ⟨rfl, rfl, ?_, ?_, ?_⟩
  · intro h
    have : ¬ InWin w lo 0 h := by simp only [InWin]; omega
    rw [if_neg this]; rfl
  · intro id h
    have : ¬ InWin w lo 0 h := by simp only [InWin]; omega
    simp [blank, this]
  · intro tx p
    have : ¬ InWin w lo 0 p.1 := by simp only [InWin]; omega
    simp [blank, this]

theorem canon_restart {c : Nat → Block} (hc : Chain c) {w a n : Nat} (hw : 0 < w)
    (hw2 : w ≤ maxBlockWindow) (hH : a + n < two64) {s : St} (hs : Canon c w a n s) :
    ∃ s', newIndexer w s.db = some s' ∧ Canon c w a n s' := by
  have hw3 : w < two64 := by simp only [maxBlockWindow, two64] at *; omega
  have h1 : ¬ w > maxBlockWindow := by omega
  have h2 : ¬ w = 0 := by omega
  simp only [newIndexer, h1, h2, if_false]
  refine ⟨_, rfl, ?_⟩
  have hsum : loOf w a n + (a + n - loOf w a n) = a + n := by unfold loOf; split <;> omega
  obtain ⟨f1, f2⟩ := canon_fold (lo := loOf w a n) hc hw hw3 (a + n - loOf w a n) 0 (blank w s.db)
    (cacheCanon_blank c w (loOf w a n) _) (by omega)
  simp only [Nat.add_zero, Nat.zero_add] at f1 f2
  rw [← hs.db] at f1 f2
  have f3 : CacheCanon c w a n (s.db.foldl (fun acc kv => insertBlockIntoCache acc kv.2) (blank w s.db)) := by
    refine cacheCanon_shift ?_ ?_ hsum f1
    · intro h
      simp only [InWin, loOf]
      split <;> omega
    · unfold loOf; split <;> omega
  have hdb : (s.db.foldl (fun acc kv => insertBlockIntoCache acc kv.2) (blank w s.db)).db = s.db := f2
  have key : ∀ S : St, CacheCanon c w a n S → S.db = s.db →
      Canon c w a n (if S.lastHeight > S.w then
        { S with db := dbDeleteRange 0 (S.lastHeight - S.w) S.db } else S) := by
    intro S f3 hdb
    by_cases hgt : S.lastHeight > S.w
    · rw [if_pos hgt]
      refine ⟨cacheCanon_setDb f3 _, ?_⟩
      show dbDeleteRange 0 (S.lastHeight - S.w) S.db = _
      rw [hdb, dbDeleteRange_noop, hs.db]
      intro p hp
      rw [hs.db] at hp
      have hk := keys_dbOf _ _ _ p hp
      rw [f3.last, f3.hw]
      by_cases h0 : n = 0
      · subst h0
        have : a + 0 - loOf w a 0 = 0 := by unfold loOf; split <;> omega
        rw [this] at hk; omega
      · simp only [h0, if_false]
        unfold loOf at hk
        split at hk <;> omega
    · rw [if_neg hgt]
      exact ⟨f3, by rw [hdb, hs.db]⟩
  exact key _ f3 hdb

theorem canon_fresh (c : Nat → Block) (w a : Nat) : Canon c w a 0 (blank w []) := by
  refine ⟨cacheCanon_blank c w a [], ?_⟩
  have : a + 0 - loOf w a 0 = 0 := by unfold loOf; split <;> omega
  rw [this]; rfl

/-- two canonical states answer every cache lookup alike -/
theorem canon_caches_eq {c : Nat → Block} {w a n : Nat} {s s' : St}
    (h : CacheCanon c w a n s) (h' : CacheCanon c w a n s') :
    (∀ x, s.heightToBlock x = s'.heightToBlock x) ∧ (∀ x, s.idToHeight x = s'.idToHeight x) ∧
    (∀ x, s.txCache x = s'.txCache x) ∧ s.lastHeight = s'.lastHeight := by
  refine ⟨fun x => by rw [h.htb, h'.htb], ?_, ?_, by rw [h.last, h'.last]⟩
  · intro x
    apply Option.ext
    intro v
    rw [h.ith, h'.ith]
  · intro x
    apply Option.ext
    intro v
    rw [h.txc, h'.txc]

end HyperModel.IndexerProofs
