import HyperModel.Model.ValidityWindow
/-! Lemmas for C09 (block tree, abstract `seen` set, marking loop, ancestor walk, populate). -/
namespace HyperModel.Proofs.ValidityWindow
open HyperModel.ValidityWindow

/-- The tree of all valid blocks (every block that passed `Processor.Execute` somewhere),
by id. Chain indexes of nodes are partial views of it. -/
abbrev Universe := Nat → Option Block

def InU (U : Universe) (b : Block) : Prop := U b.id = some b

/-- Well-formedness of the block tree for window `W`: ids identify content; a parent link
implies height+1 and a non-decreasing timestamp (C11); timestamps are non-negative; every tx
was valid at its block (C10: `ts ≤ expiry ≤ ts + W`) and has a non-zero expiry (follows from
C10 when only genesis may have timestamp 0 and genesis has no txs); a tx id determines the
expiry (the id is a hash of the tx content). -/
structure WF (U : Universe) (W : Int) : Prop where
  id_eq : ∀ i b, U i = some b → b.id = i
  link : ∀ b p, InU U b → U b.parent = some p → p.height + 1 = b.height ∧ p.ts ≤ b.ts
  ts_nonneg : ∀ b, InU U b → 0 ≤ b.ts
  txs_valid : ∀ b, InU U b → ∀ t ∈ b.txs, b.ts ≤ t.expiry ∧ t.expiry ≤ b.ts + W ∧ t.expiry ≠ 0
  id_expiry : ∀ b c, InU U b → InU U c → ∀ t ∈ b.txs, ∀ t' ∈ c.txs, t.id = t'.id →
    t.expiry = t'.expiry

/-- `Anc U a b`: `a` is `b` or an ancestor of `b` through parent links inside `U`. -/
inductive Anc (U : Universe) : Block → Block → Prop
  | refl (b : Block) : Anc U b b
  | step {a p b : Block} : U b.parent = some p → Anc U a p → Anc U a b

variable {U : Universe} {W : Int}

theorem inU_of_lookup (h : WF U W) {i : Nat} {p : Block} (hp : U i = some p) : InU U p := by
  have := h.id_eq i p hp
  unfold InU; rw [this]; exact hp

theorem Anc.inU (h : WF U W) {a b : Block} (hab : Anc U a b) (hb : InU U b) : InU U a := by
  induction hab with
  | refl => exact hb
  | step hp _ ih => exact ih (inU_of_lookup h hp)

theorem Anc.le (h : WF U W) {a b : Block} (hab : Anc U a b) (hb : InU U b) :
    a.height ≤ b.height ∧ a.ts ≤ b.ts := by
  induction hab with
  | refl => exact ⟨Nat.le_refl _, Int.le_refl _⟩
  | step hp _ ih =>
    have h1 := h.link _ _ hb hp
    have h2 := ih (inU_of_lookup h hp)
    omega

theorem Anc.trans {a b c : Block} (hab : Anc U a b) (hbc : Anc U b c) : Anc U a c := by
  induction hbc with
  | refl => exact hab
  | step hp _ ih => exact Anc.step hp ih

/-- A proper descendant has its parent on the path. -/
theorem Anc.parent_of_ne {a b : Block} (hab : Anc U a b) (hne : a.height ≠ b.height) :
    ∃ p, U b.parent = some p ∧ Anc U a p := by
  cases hab with
  | refl => exact absurd rfl hne
  | step hp hap => exact ⟨_, hp, hap⟩

theorem Anc.eq_of_height (h : WF U W) {a b : Block} (hab : Anc U a b) (hb : InU U b)
    (hh : b.height ≤ a.height) : a = b := by
  cases hab with
  | refl => rfl
  | step hp hap =>
    have h1 := h.link _ _ hb hp
    have h2 := (Anc.le h hap (inU_of_lookup h hp)).1
    omega

/-! ### the abstract `seen` set -/

theorem add_get_of_some {s : Seen} {i j : Nat} {e e' : Int} (hg : s.get j = some e) :
    (s.add i e').get j = some e := by
  unfold Seen.add
  split
  · exact hg
  · split
    · exact hg
    · next hn =>
      by_cases hji : j = i
      · subst hji; rw [hg] at hn; cases hn
      · simp [hji, hg]

theorem add_get_self {s : Seen} {i : Nat} {e : Int} (he : e ≠ 0) :
    ∃ e', (s.add i e).get i = some e' := by
  unfold Seen.add
  rw [if_neg he]
  split
  · next x hx => exact ⟨x, hx⟩
  · exact ⟨e, by simp⟩

theorem add_get_cases {s : Seen} {i j : Nat} {e e' : Int} (hg : (s.add i e').get j = some e) :
    s.get j = some e ∨ (j = i ∧ e = e') := by
  unfold Seen.add at hg
  split at hg
  · exact Or.inl hg
  · split at hg
    · exact Or.inl hg
    · by_cases hji : j = i
      · simp [hji] at hg; exact Or.inr ⟨hji, hg.symm⟩
      · simp [hji] at hg; exact Or.inl hg

theorem addAll_get_of_some {txs : List Tx} : ∀ {s : Seen} {j : Nat} {e : Int},
    s.get j = some e → (s.addAll txs).get j = some e := by
  induction txs with
  | nil => intro s j e h; exact h
  | cons t rest ih => intro s j e h; exact ih (add_get_of_some h)

theorem addAll_get_of_mem {txs : List Tx} : ∀ {s : Seen} {t : Tx}, t ∈ txs → t.expiry ≠ 0 →
    ∃ e, (s.addAll txs).get t.id = some e := by
  induction txs with
  | nil => intro s t h; cases h
  | cons t0 rest ih =>
    intro s t hm he
    cases hm with
    | head =>
      obtain ⟨e', he'⟩ := @add_get_self s t0.id t0.expiry he
      exact ⟨e', addAll_get_of_some (s := s.add t0.id t0.expiry) he'⟩
    | tail _ hm' => exact ih hm' he

theorem addAll_get_cases {txs : List Tx} : ∀ {s : Seen} {j : Nat} {e : Int},
    (s.addAll txs).get j = some e → s.get j = some e ∨ ∃ t ∈ txs, t.id = j ∧ t.expiry = e := by
  induction txs with
  | nil => intro s j e h; exact Or.inl h
  | cons t0 rest ih =>
    intro s j e h
    rcases ih h with h1 | ⟨t, ht, h2⟩
    · rcases add_get_cases h1 with h3 | ⟨h3, h4⟩
      · exact Or.inl h3
      · exact Or.inr ⟨t0, List.mem_cons_self, h3.symm, h4.symm⟩
    · exact Or.inr ⟨t, List.mem_cons_of_mem _ ht, h2⟩

theorem setMin_get {s : Seen} {T : Int} {j : Nat} {e : Int} :
    (s.setMin T).get j = some e ↔ s.get j = some e ∧ ¬ e < T := by
  unfold Seen.setMin
  show (match s.get j with | some e' => if e' < T then none else some e' | none => none) = some e ↔ _
  cases hx : s.get j with
  | none => simp
  | some x =>
    constructor
    · intro h
      by_cases hlt : x < T
      · simp [hlt] at h
      · simp [hlt] at h; subst h; exact ⟨rfl, hlt⟩
    · intro ⟨h1, h2⟩
      have : x = e := Option.some.inj h1
      subst this; simp [h2]

/-- Provenance: every stored (id, expiry) is a tx of some block of the tree. -/
def Prov (U : Universe) (s : Seen) : Prop :=
  ∀ j e, s.get j = some e → ∃ A, InU U A ∧ ∃ t ∈ A.txs, t.id = j ∧ t.expiry = e

theorem prov_empty : Prov U Seen.empty := by intro j e h; cases h

theorem prov_addAll {s : Seen} {b : Block} (hp : Prov U s) (hb : InU U b) :
    Prov U (s.addAll b.txs) := by
  intro j e h
  rcases addAll_get_cases h with h1 | ⟨t, ht, h2, h3⟩
  · exact hp j e h1
  · exact ⟨b, hb, t, ht, h2, h3⟩

theorem prov_setMin {s : Seen} {T : Int} (hp : Prov U s) : Prov U (s.setMin T) := by
  intro j e h; exact hp j e (setMin_get.mp h).1

theorem prov_accept {v : VW} {b : Block} (hp : Prov U v.seen) (hb : InU U b) :
    Prov U (accept v b).seen := prov_addAll (prov_setMin hp) hb

/-- With provenance, what is stored for the id of a tree tx is that tx's expiry. -/
theorem stored_eq (h : WF U W) {s : Seen} (hp : Prov U s) {A : Block} (hA : InU U A) {t : Tx}
    (ht : t ∈ A.txs) {e : Int} (hg : s.get t.id = some e) : e = t.expiry := by
  obtain ⟨B, hB, t', ht', hid, hexp⟩ := hp _ _ hg
  rw [← hexp]; exact h.id_expiry B A hB hA t' ht' t ht hid

/-! ### the marking loop -/

theorem markFrom_spec (has : Nat → Bool) (stop : Bool) : ∀ (txs : List Tx) (i0 : Nat) (m : List Nat),
    ((markFrom has stop i0 txs m).2 = true → stop = true ∧ (markFrom has stop i0 txs m).1 ≠ []) ∧
    ((markFrom has stop i0 txs m).2 = false →
      (∀ x ∈ m, x ∈ (markFrom has stop i0 txs m).1) ∧
      ∀ j tx, txs[j]? = some tx → has tx.id = true → (i0 + j) ∈ (markFrom has stop i0 txs m).1) := by
  intro txs
  induction txs with
  | nil =>
    intro i0 m
    simp [markFrom]
  | cons t rest ih =>
    intro i0 m
    unfold markFrom
    by_cases hc : m.contains i0 = true
    · rw [if_pos hc]
      obtain ⟨ih1, ih2⟩ := ih (i0 + 1) m
      refine ⟨ih1, fun hf => ?_⟩
      obtain ⟨hm, hj⟩ := ih2 hf
      refine ⟨hm, fun j tx hget hhas => ?_⟩
      cases j with
      | zero => exact hm _ (by simpa using hc)
      | succ j =>
        have := hj j tx (by simpa using hget) hhas
        have e : i0 + (j + 1) = i0 + 1 + j := by omega
        rw [e]; exact this
    · rw [if_neg hc]
      by_cases hh : has t.id = true
      · rw [if_pos hh]
        cases stop with
        | true => simp
        | false =>
          simp only [Bool.false_eq_true, if_false]
          obtain ⟨ih1, ih2⟩ := ih (i0 + 1) (i0 :: m)
          refine ⟨fun hx => by have := ih1 hx; simp at this, fun hf => ?_⟩
          obtain ⟨hm, hj⟩ := ih2 hf
          refine ⟨fun x hx => hm x (List.mem_cons_of_mem _ hx), fun j tx hget hhas => ?_⟩
          cases j with
          | zero => exact hm _ List.mem_cons_self
          | succ j =>
            have := hj j tx (by simpa using hget) hhas
            have e : i0 + (j + 1) = i0 + 1 + j := by omega
            rw [e]; exact this
      · rw [if_neg hh]
        obtain ⟨ih1, ih2⟩ := ih (i0 + 1) m
        refine ⟨ih1, fun hf => ?_⟩
        obtain ⟨hm, hj⟩ := ih2 hf
        refine ⟨hm, fun j tx hget hhas => ?_⟩
        cases j with
        | zero =>
          have : tx = t := by simpa using hget.symm
          subst this; exact absurd hhas hh
        | succ j =>
          have := hj j tx (by simpa using hget) hhas
          have e : i0 + (j + 1) = i0 + 1 + j := by omega
          rw [e]; exact this

/-! ### the ancestor walk -/

/-- What `seen` must hold relative to the last accepted block `la` (the invariant of C09):
`lastAcceptedBlockHeight` is `la`'s height, every tx of `la` or of an ancestor of `la` that has
not expired at `la.ts` is present, and everything present comes from the tree. -/
structure SeenInv (U : Universe) (v : VW) (la : Block) : Prop where
  height : v.lastAccepted = la.height
  complete : ∀ A, Anc U A la → ∀ t ∈ A.txs, la.ts ≤ t.expiry → v.seen.contains t.id = true
  prov : Prov U v.seen

/-- `tx` (position irrelevant) collides with block `A`. -/
def Hits (A : Block) (id : Nat) : Prop := blockContains A id = true

theorem hits_iff {A : Block} {id : Nat} : Hits A id ↔ ∃ t ∈ A.txs, t.id = id := by
  unfold Hits blockContains
  simp [List.any_eq_true]

/-- The walk is complete: when it returns `ok m'`, either it stopped early with a non-empty
marker (`stop` mode), or every index whose tx occurs in a block `A` that is the start block
or one of its ancestors with `oldest ≤ A.ts` — and whose expiry is still relevant for the
accepted set — is marked. -/
theorem walk_complete (h : WF U W) {idx : Index} (hidx : ∀ i b, idx i = some b → U i = some b)
    {v : VW} {la : Block} (hinv : SeenInv U v la)
    (oldest : Int) (txs : List Tx) (stop : Bool)
    (hfun : ∀ tx ∈ txs, ∀ A, InU U A → ∀ t ∈ A.txs, t.id = tx.id → t.expiry = tx.expiry) :
    ∀ (fuel : Nat) (a : Block) (m m' : List Nat), InU U a → Anc U la a →
      isRepeat idx v oldest txs stop fuel a m = .ok m' →
      (stop = true ∧ m' ≠ []) ∨
      ((∀ x ∈ m, x ∈ m') ∧
        ∀ j tx, txs[j]? = some tx → la.ts ≤ tx.expiry →
          ∀ A, Anc U A a → oldest ≤ A.ts → Hits A tx.id → j ∈ m') := by
  intro fuel
  induction fuel with
  | zero => intro a m m' _ _ hr; simp [isRepeat] at hr
  | succ fuel ih =>
    intro a m m' ha hlaa hr
    unfold isRepeat at hr
    by_cases h1 : a.ts < oldest
    · -- exit 1: everything at or below `a` is older than `oldest`
      rw [if_pos h1] at hr
      cases hr
      refine Or.inr ⟨fun x hx => hx, fun j tx _ _ A hA hold _ => ?_⟩
      have := (Anc.le h hA ha).2
      omega
    · rw [if_neg h1] at hr
      by_cases h2 : a.height ≤ v.lastAccepted ∨ a.height = 0
      · -- exit 2: `a` is the last accepted block itself; consult `seen`
        rw [if_pos h2] at hr
        cases hr
        have hle : a.height ≤ la.height := by
          rcases h2 with h2 | h2
          · rw [hinv.height] at h2; exact h2
          · omega
        have hal : la = a := Anc.eq_of_height h hlaa ha hle
        subst hal
        obtain ⟨s1, s2⟩ := markFrom_spec v.seen.contains stop txs 0 m
        cases hs : (markFrom v.seen.contains stop 0 txs m).2 with
        | true => exact Or.inl (s1 hs)
        | false =>
          obtain ⟨hm, hj⟩ := s2 hs
          refine Or.inr ⟨hm, fun j tx hget hexp A hA _ hhit => ?_⟩
          obtain ⟨t, ht, hid⟩ := hits_iff.mp hhit
          have hAU := Anc.inU h hA ha
          have he : t.expiry = tx.expiry := hfun tx (List.mem_of_getElem? hget) A hAU t ht hid
          have hc := hinv.complete A hA t ht (by omega)
          rw [hid] at hc
          have := hj j tx hget hc
          simpa using this
      · rw [if_neg h2] at hr
        obtain ⟨s1, s2⟩ := markFrom_spec (blockContains a) stop txs 0 m
        cases hs : (markFrom (blockContains a) stop 0 txs m).2 with
        | true =>
          simp only [hs, if_true] at hr
          cases hr
          exact Or.inl (s1 hs)
        | false =>
          simp only [hs, Bool.false_eq_true, if_false] at hr
          obtain ⟨hm, hj⟩ := s2 hs
          -- the next block is the tree parent, still at or above `la`
          have hne : la.height ≠ a.height := by
            intro heq; apply h2; left; rw [hinv.height]; omega
          obtain ⟨p, hp, hlap⟩ := Anc.parent_of_ne hlaa hne
          cases hi : idx a.parent with
          | none => simp [hi] at hr
          | some p' =>
            have : p' = p := by
              have := hidx _ _ hi; rw [hp] at this; exact (Option.some.inj this).symm
            subst this
            simp only [hi] at hr
            have hpU := inU_of_lookup h hp
            rcases ih p' _ m' hpU hlap hr with hstop | ⟨hsub, hrest⟩
            · exact Or.inl hstop
            · refine Or.inr ⟨fun x hx => hsub x (hm x hx), fun j tx hget hexp A hA hold hhit => ?_⟩
              cases hA with
              | refl =>
                have := hj j tx hget hhit
                exact hsub j (by simpa using this)
              | step hp2 hA2 =>
                rw [hp] at hp2; cases hp2
                exact hrest j tx hget hexp A hA2 hold hhit

/-! ### `Accept` folds, `populate`, and the invariant over histories -/

theorem contains_of_get {s : Seen} {j : Nat} {e : Int} (hg : s.get j = some e) :
    s.contains j = true := by simp [Seen.contains, hg]

theorem get_of_contains {s : Seen} {j : Nat} (hc : s.contains j = true) : ∃ e, s.get j = some e := by
  unfold Seen.contains at hc
  cases hg : s.get j with
  | none => simp [hg] at hc
  | some e => exact ⟨e, rfl⟩

/-- Ancestor within reach (core of C09): a tx that is valid in block `A` and whose expiry is
at least `ts` forces `A.ts ≥ oldestAllowed ts`: the walk from a block at time `ts` cannot stop
(exit 1) before reaching `A`, and `populate` from a head at time `ts` covers `A`. -/
theorem oldest_le_of_valid (h : WF U W) {A : Block} (hA : InU U A) {t : Tx} (ht : t ∈ A.txs)
    {ts : Int} (hts : ts ≤ t.expiry) : oldestAllowed W ts ≤ A.ts := by
  have h1 := h.txs_valid A hA t ht
  have h2 := h.ts_nonneg A hA
  unfold oldestAllowed
  omega

theorem fold_accept (h : WF U W) (T : Int) : ∀ (L : List Block) (v : VW), Prov U v.seen →
    (∀ b ∈ L, InU U b ∧ b.ts ≤ T) →
    Prov U (L.foldl accept v).seen ∧
    (∀ j e, v.seen.get j = some e → T ≤ e → (L.foldl accept v).seen.get j = some e) ∧
    (∀ A ∈ L, ∀ t ∈ A.txs, T ≤ t.expiry → (L.foldl accept v).seen.contains t.id = true) := by
  intro L
  induction L with
  | nil => intro v hp _; exact ⟨hp, fun _ _ hg _ => hg, fun A hA => nomatch hA⟩
  | cons b rest ih =>
    intro v hp hL
    have hb := hL b List.mem_cons_self
    have hp1 : Prov U (accept v b).seen := prov_accept hp hb.1
    obtain ⟨P, S, C⟩ := ih (accept v b) hp1 (fun x hx => hL x (List.mem_cons_of_mem _ hx))
    have keep : ∀ j e, v.seen.get j = some e → T ≤ e → (accept v b).seen.get j = some e := by
      intro j e hg hTe
      exact addAll_get_of_some (setMin_get.mpr ⟨hg, by omega⟩)
    refine ⟨P, fun j e hg hTe => S j e (keep j e hg hTe) hTe, fun A hA t ht hTe => ?_⟩
    cases hA with
    | head =>
      have hne := (h.txs_valid b hb.1 t ht).2.2
      obtain ⟨e, hg⟩ := addAll_get_of_mem (s := v.seen.setMin b.ts) ht hne
      have he : e = t.expiry := stored_eq h hp1 hb.1 ht hg
      exact contains_of_get (S _ _ hg (by omega))
    | tail _ hA' => exact C A hA' t ht hTe

theorem fold_accept_last (L : List Block) (H : Block) (v : VW) :
    ((L ++ [H]).foldl accept v).lastAccepted = H.height := by
  simp [List.foldl_append, accept]

theorem fold_hist : ∀ (L : List Block) (v : VW), Prov U v.seen → (∀ b ∈ L, InU U b) →
    Prov U (L.foldl acceptHistorical v).seen ∧
    (L.foldl acceptHistorical v).lastAccepted = v.lastAccepted ∧
    (∀ j e, v.seen.get j = some e → (L.foldl acceptHistorical v).seen.get j = some e) ∧
    (∀ A ∈ L, ∀ t ∈ A.txs, t.expiry ≠ 0 →
      (L.foldl acceptHistorical v).seen.contains t.id = true) := by
  intro L
  induction L with
  | nil => intro v hp _; exact ⟨hp, rfl, fun _ _ hg => hg, fun A hA => nomatch hA⟩
  | cons b rest ih =>
    intro v hp hL
    have hb := hL b List.mem_cons_self
    have hp1 : Prov U (acceptHistorical v b).seen := prov_addAll hp hb
    obtain ⟨P, Hh, S, C⟩ := ih (acceptHistorical v b) hp1 (fun x hx => hL x (List.mem_cons_of_mem _ hx))
    refine ⟨P, Hh, fun j e hg => S j e (addAll_get_of_some hg), fun A hA t ht hne => ?_⟩
    cases hA with
    | head =>
      obtain ⟨e, hg⟩ := addAll_get_of_mem (s := v.seen) ht hne
      exact contains_of_get (S _ _ hg)
    | tail _ hA' => exact C A hA' t ht hne

theorem populateWalk_spec (h : WF U W) {idx : Index}
    (hidx : ∀ i b, idx i = some b → U i = some b) (oldest : Int) :
    ∀ (fuel : Nat) (cur : Block) (acc chron : List Block) (full : Bool), InU U cur →
      populateWalk idx oldest fuel cur acc = (chron, full) →
      ∃ pre, chron = pre ++ acc ∧ (∀ b ∈ pre, Anc U b cur) ∧
        (full = true → ∀ A, Anc U A cur → oldest ≤ A.ts → A = cur ∨ A ∈ pre) := by
  intro fuel
  induction fuel with
  | zero =>
    intro cur acc chron full _ hr
    simp [populateWalk] at hr
    obtain ⟨rfl, rfl⟩ := hr
    exact ⟨[], rfl, fun b hb => by simp at hb, fun hf => by simp at hf⟩
  | succ fuel ih =>
    intro cur acc chron full hcur hr
    unfold populateWalk at hr
    by_cases h0 : cur.height = 0
    · rw [if_pos h0] at hr
      obtain ⟨rfl, rfl⟩ := Prod.mk.inj hr
      refine ⟨[], rfl, fun b hb => by simp at hb, fun _ A hA _ => Or.inl ?_⟩
      exact Anc.eq_of_height h hA hcur (by omega)
    · rw [if_neg h0] at hr
      cases hi : idx cur.parent with
      | none =>
        simp only [hi] at hr
        obtain ⟨rfl, rfl⟩ := Prod.mk.inj hr
        exact ⟨[], rfl, fun b hb => by simp at hb, fun hf => by simp at hf⟩
      | some p =>
        simp only [hi] at hr
        have hp := hidx _ _ hi
        have hpU := inU_of_lookup h hp
        by_cases hold : p.ts < oldest
        · rw [if_pos hold] at hr
          obtain ⟨rfl, rfl⟩ := Prod.mk.inj hr
          refine ⟨[p], rfl, fun b hb => ?_, fun _ A hA hle => ?_⟩
          · have : b = p := by simpa using hb
            subst this; exact Anc.step hp (Anc.refl _)
          · cases hA with
            | refl => exact Or.inl rfl
            | step hp2 hA2 =>
              rw [hp] at hp2; cases hp2
              have := (Anc.le h hA2 hpU).2
              omega
        · rw [if_neg hold] at hr
          obtain ⟨pre, hch, hanc, hcov⟩ := ih p (p :: acc) chron full hpU hr
          refine ⟨pre ++ [p], by simp [hch], fun b hb => ?_, fun hf A hA hle => ?_⟩
          · rcases List.mem_append.mp hb with hb | hb
            · exact Anc.trans (hanc b hb) (Anc.step hp (Anc.refl _))
            · have : b = p := by simpa using hb
              subst this; exact Anc.step hp (Anc.refl _)
          · cases hA with
            | refl => exact Or.inl rfl
            | step hp2 hA2 =>
              rw [hp] at hp2; cases hp2
              rcases hcov hf A hA2 hle with rfl | hm
              · exact Or.inr (List.mem_append.mpr (Or.inr (by simp)))
              · exact Or.inr (List.mem_append.mpr (Or.inl hm))

/-- The blocks collected by the `populate` walk are a gap-free stretch of the chain: every
ancestor-or-self of the head is the head, collected, or at/below the oldest collected block. -/
theorem populateWalk_chain (h : WF U W) {idx : Index}
    (hidx : ∀ i b, idx i = some b → U i = some b) (oldest : Int) :
    ∀ (fuel : Nat) (cur : Block) (acc chron : List Block) (full : Bool), InU U cur →
      populateWalk idx oldest fuel cur acc = (chron, full) →
      ∃ pre, chron = pre ++ acc ∧ (∀ b ∈ pre, Anc U b cur) ∧
        Anc U (pre.head?.getD cur) cur ∧
        (∀ A, Anc U A cur → A = cur ∨ A ∈ pre ∨ Anc U A (pre.head?.getD cur)) := by
  intro fuel
  induction fuel with
  | zero =>
    intro cur acc chron full _ hr
    simp [populateWalk] at hr
    obtain ⟨rfl, rfl⟩ := hr
    exact ⟨[], rfl, fun b hb => by simp at hb, Anc.refl _, fun A hA => Or.inr (Or.inr hA)⟩
  | succ fuel ih =>
    intro cur acc chron full hcur hr
    unfold populateWalk at hr
    by_cases h0 : cur.height = 0
    · rw [if_pos h0] at hr
      obtain ⟨rfl, rfl⟩ := Prod.mk.inj hr
      exact ⟨[], rfl, fun b hb => by simp at hb, Anc.refl _, fun A hA => Or.inr (Or.inr hA)⟩
    · rw [if_neg h0] at hr
      cases hi : idx cur.parent with
      | none =>
        simp only [hi] at hr
        obtain ⟨rfl, rfl⟩ := Prod.mk.inj hr
        exact ⟨[], rfl, fun b hb => by simp at hb, Anc.refl _, fun A hA => Or.inr (Or.inr hA)⟩
      | some p =>
        simp only [hi] at hr
        have hp := hidx _ _ hi
        have hpU := inU_of_lookup h hp
        have hpc : Anc U p cur := Anc.step hp (Anc.refl _)
        by_cases hold : p.ts < oldest
        · rw [if_pos hold] at hr
          obtain ⟨rfl, rfl⟩ := Prod.mk.inj hr
          refine ⟨[p], rfl, fun b hb => ?_, by simpa using hpc, fun A hA => ?_⟩
          · have : b = p := by simpa using hb
            subst this; exact hpc
          · cases hA with
            | refl => exact Or.inl rfl
            | step hp2 hA2 =>
              rw [hp] at hp2; cases hp2
              exact Or.inr (Or.inr (by simpa using hA2))
        · rw [if_neg hold] at hr
          obtain ⟨pre, hch, hanc, hlow, hcov⟩ := ih p (p :: acc) chron full hpU hr
          have hhead : (pre ++ [p]).head?.getD cur = pre.head?.getD p := by
            cases pre <;> simp
          refine ⟨pre ++ [p], by simp [hch], fun b hb => ?_, ?_, fun A hA => ?_⟩
          · rcases List.mem_append.mp hb with hb | hb
            · exact Anc.trans (hanc b hb) hpc
            · have : b = p := by simpa using hb
              subst this; exact hpc
          · rw [hhead]; exact Anc.trans hlow hpc
          · rw [hhead]
            cases hA with
            | refl => exact Or.inl rfl
            | step hp2 hA2 =>
              rw [hp] at hp2; cases hp2
              rcases hcov A hA2 with rfl | hm | hlo
              · exact Or.inr (Or.inl (List.mem_append.mpr (Or.inr (by simp))))
              · exact Or.inr (Or.inl (List.mem_append.mpr (Or.inl hm)))
              · exact Or.inr (Or.inr hlo)

/-- `populate` (with or without a full window) followed by `AcceptHistorical` of `hist`
establishes the invariant at head `H`, provided the two block lists together cover every
ancestor-or-self of `H` whose timestamp is at least `oldestAllowed H.ts`. -/
theorem restart_inv (h : WF U W) {idx : Index} (hidx : ∀ i b, idx i = some b → U i = some b)
    {v0 v : VW} {H : Block} {fuel : Nat} {chron hist : List Block} {full : Bool}
    (hH : InU U H) (hp0 : Prov U v0.seen)
    (hpop : populate idx W v0 fuel H = (v, chron, full))
    (hhist : ∀ b ∈ hist, Anc U b H)
    (hcov : ∀ A, Anc U A H → oldestAllowed W H.ts ≤ A.ts → A ∈ chron ∨ A ∈ hist) :
    SeenInv U (hist.foldl acceptHistorical v) H := by
  unfold populate at hpop
  obtain ⟨hv, hchron, -⟩ : _ ∧ _ ∧ _ := by
    have := Prod.mk.inj hpop
    exact ⟨this.1, (Prod.mk.inj this.2).1, (Prod.mk.inj this.2).2⟩
  obtain ⟨pre, hch, hanc, -⟩ := populateWalk_spec h hidx (oldestAllowed W H.ts) fuel H [H] _ _ hH
    (rfl : populateWalk idx (oldestAllowed W H.ts) fuel H [H] = (_, _))
  rw [hchron] at hch
  have hall : ∀ b ∈ chron, InU U b ∧ b.ts ≤ H.ts := by
    intro b hb
    rw [hch] at hb
    rcases List.mem_append.mp hb with hb | hb
    · exact ⟨Anc.inU h (hanc b hb) hH, (Anc.le h (hanc b hb) hH).2⟩
    · have : b = H := by simpa using hb
      subst this; exact ⟨hH, Int.le_refl _⟩
  rw [hchron] at hv
  obtain ⟨P, _, C⟩ := fold_accept h H.ts chron v0 hp0 hall
  rw [hv] at P C
  have hlast : v.lastAccepted = H.height := by
    rw [← hv, hch]; exact fold_accept_last pre H v0
  obtain ⟨P2, H2, S2, C2⟩ := fold_hist hist v P (fun b hb => Anc.inU h (hhist b hb) hH)
  refine ⟨by rw [H2, hlast], fun A hA t ht hexp => ?_, P2⟩
  have hAU := Anc.inU h hA hH
  rcases hcov A hA (oldest_le_of_valid h hAU ht hexp) with hc | hc
  · obtain ⟨e, hg⟩ := get_of_contains (C A hc t ht hexp)
    exact contains_of_get (S2 _ _ hg)
  · exact C2 A hc t ht (h.txs_valid A hAU t ht).2.2

/-- Histories of one node's validity window over the block tree `U`:
* `restart`: a fresh `TimeValidityWindow` (`NewTimeValidityWindow(head)`) over any chain index
  that is a partial view of `U`, optionally followed by the syncer's `AcceptHistorical` calls;
  the node enters normal operation only when the populated blocks and the backfilled blocks
  cover the validity window of `head` (`Complete` returned true, or the backfill ran past the
  window / to genesis — C22);
* `complete`: `Complete(head)` / `Syncer.Start` on an existing instance, same coverage rule;
* `accept`: `Accept(b)` where `b` extends the last accepted block (snowman);
* `historical`: `AcceptHistorical(a)` for an accepted ancestor `a`.
Verification does not change the state. -/
inductive Reachable (U : Universe) (W : Int) : VW → Block → Prop
  | restart {idx : Index} {fuel : Nat} {H : Block} {v : VW} {chron hist : List Block} {full : Bool} :
      (∀ i b, idx i = some b → U i = some b) → InU U H →
      populate idx W VW.fresh fuel H = (v, chron, full) →
      (∀ b ∈ hist, Anc U b H) →
      (∀ A, Anc U A H → oldestAllowed W H.ts ≤ A.ts → A ∈ chron ∨ A ∈ hist) →
      Reachable U W (hist.foldl acceptHistorical v) H
  | complete {idx : Index} {fuel : Nat} {H la0 : Block} {v0 v : VW} {chron hist : List Block}
      {full : Bool} :
      Reachable U W v0 la0 →
      (∀ i b, idx i = some b → U i = some b) → InU U H →
      populate idx W v0 fuel H = (v, chron, full) →
      (∀ b ∈ hist, Anc U b H) →
      (∀ A, Anc U A H → oldestAllowed W H.ts ≤ A.ts → A ∈ chron ∨ A ∈ hist) →
      Reachable U W (hist.foldl acceptHistorical v) H
  | accept {v : VW} {la b : Block} :
      Reachable U W v la → InU U b → U b.parent = some la → Reachable U W (accept v b) b
  | historical {v : VW} {la a : Block} :
      Reachable U W v la → Anc U a la → Reachable U W (acceptHistorical v a) la

theorem reachable_inv (h : WF U W) {v : VW} {la : Block} (hr : Reachable U W v la) :
    SeenInv U v la ∧ InU U la := by
  induction hr with
  | restart hidx hH hpop hhist hcov =>
    exact ⟨restart_inv h hidx hH prov_empty hpop hhist hcov, hH⟩
  | complete _ hidx hH hpop hhist hcov ih =>
    exact ⟨restart_inv h hidx hH ih.1.prov hpop hhist hcov, hH⟩
  | @accept v la b _ hb hpar ih =>
    obtain ⟨hinv, hla⟩ := ih
    have hlk := h.link b la hb hpar
    refine ⟨⟨rfl, fun A hA t ht hexp => ?_, prov_accept hinv.prov hb⟩, hb⟩
    cases hA with
    | refl =>
      obtain ⟨e, hg⟩ := addAll_get_of_mem (s := v.seen.setMin b.ts) ht (h.txs_valid b hb t ht).2.2
      exact contains_of_get hg
    | step hp2 hA2 =>
      rw [hpar] at hp2; cases hp2
      have hAU := Anc.inU h hA2 hla
      obtain ⟨e, hg⟩ := get_of_contains (hinv.complete A hA2 t ht (by omega))
      have he : e = t.expiry := stored_eq h hinv.prov hAU ht hg
      exact contains_of_get (addAll_get_of_some (setMin_get.mpr ⟨hg, by omega⟩))
  | @historical v la a _ ha ih =>
    obtain ⟨hinv, hla⟩ := ih
    refine ⟨⟨hinv.height, fun A hA t ht hexp => ?_, prov_addAll hinv.prov (Anc.inU h ha hla)⟩, hla⟩
    obtain ⟨e, hg⟩ := get_of_contains (hinv.complete A hA t ht hexp)
    exact contains_of_get (addAll_get_of_some hg)

end HyperModel.Proofs.ValidityWindow
