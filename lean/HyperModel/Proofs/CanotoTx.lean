import HyperModel.Proofs.CanotoTyped
import HyperModel.Proofs.Estimate
/-! Lemmas for the value-level round trip of transactions (C15 `decode_encode`). -/
namespace HyperModel.Canoto

theorem eq_zeros_of_allZero : ∀ b : Bytes, allZero b = true → b = zeros b.length := by
  intro b
  induction b with
  | nil => intro _; rfl
  | cons x xs ih =>
    intro h
    simp only [allZero, List.all_cons, Bool.and_eq_true, beq_iff_eq] at h
    have := ih (by simpa [allZero] using h.2)
    simp only [zeros, List.length_cons, List.replicate_succ] at this ⊢
    rw [h.1, ← this]

theorem serializeTxMsg_valid (bb : Bytes) (acts : List Bytes) (au : Bytes) (h1 : bb.length < 2 ^ 64)
    (h2 : ∀ e ∈ acts, e.length < 2 ^ 64) (h3 : au.length < 2 ^ 64) :
    validMsg txSpec 0 (serializeTxMsg bb acts au) = true := by
  unfold serializeTxMsg optBytes optList
  split <;> split <;> split <;> simp_all [validMsg, txSpec, okVal]

theorem serializeTxMsg_get (bb : Bytes) (acts : List Bytes) (au : Bytes) :
    getBytes (serializeTxMsg bb acts au) 1 = bb ∧ getList (serializeTxMsg bb acts au) 2 = acts ∧
    getBytes (serializeTxMsg bb acts au) 3 = au := by
  by_cases h1 : bb = [] <;> by_cases h2 : acts = [] <;> by_cases h3 : au = [] <;>
    simp [serializeTxMsg, optBytes, optList, getBytes, getList, List.lookup, h1, h2, h3]

theorem baseMsg_valid (b : Base) (hz : zigzag b.timestamp < 2 ^ 64) (hc : b.chainID.length = 32)
    (hf : b.maxFee.length = 8) : validMsg baseSpec 0 b.toMsg = true := by
  unfold Base.toMsg optNum optFixed
  split <;> split <;> split <;> simp_all [validMsg, baseSpec, okVal] <;> omega

theorem baseMsg_get (b : Base) (hc : b.chainID.length = 32) (hf : b.maxFee.length = 8) :
    getNum b.toMsg 1 = zigzag b.timestamp ∧ getFixed b.toMsg 2 32 = b.chainID ∧
    getFixed b.toMsg 3 8 = b.maxFee := by
  have z1 : allZero b.chainID = true → zeros 32 = b.chainID := by
    intro h; have := eq_zeros_of_allZero _ h; rw [hc] at this; exact this.symm
  have z2 : allZero b.maxFee = true → zeros 8 = b.maxFee := by
    intro h; have := eq_zeros_of_allZero _ h; rw [hf] at this; exact this.symm
  by_cases h1 : zigzag b.timestamp = 0 <;> by_cases h2 : allZero b.chainID = true <;>
    by_cases h3 : allZero b.maxFee = true <;>
    simp [Base.toMsg, optNum, optFixed, getNum, getFixed, List.lookup, h1, h2, h3, z1, z2]


theorem base_decode_encode (b : Base) (hts : -(2 ^ 63 : Int) ≤ b.timestamp ∧ b.timestamp < 2 ^ 63)
    (hc : b.chainID.length = 32) (hf : b.maxFee.length = 8) : decodeBase (encodeBase b) = some b := by
  unfold decodeBase encodeBase
  rw [decode_complete baseSpec_ok (baseMsg_valid b (zigzag_lt hts.1 hts.2) hc hf)]
  obtain ⟨g1, g2, g3⟩ := baseMsg_get b hc hf
  simp only [g1, g2, g3, unzigzag_zigzag]


end HyperModel.Canoto
