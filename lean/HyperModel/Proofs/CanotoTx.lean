import HyperModel.Proofs.CanotoTyped
import HyperModel.Proofs.Estimate
/-! Lemmas for the value-level round trip of transactions (C15 `decode_encode`). -/
namespace HyperModel.Canoto

theorem eq_zeros_of_allZero : ∀ b : Bytes, allZero b = true → b = zeros b.length := by
  intro b
  induction b with
  | nil => intro _; rfl
  | cons x xs ih =>
    intro h
    simp only [allZero, List.all_cons, Bool.and_eq_true, beq_iff_eq] at h
    have := ih (by simpa [allZero] using h.2)
    simp only [zeros, List.length_cons, List.replicate_succ] at this ⊢
    rw [h.1, ← this]

theorem serializeTxMsg_valid (bb : Bytes) (acts : List Bytes) (au : Bytes) (h1 : bb.length < 2 ^ 64)
    (h2 : ∀ e ∈ acts, e.length < 2 ^ 64) (h3 : au.length < 2 ^ 64) :
    validMsg txSpec 0 (serializeTxMsg bb acts au) = true := by
  unfold serializeTxMsg optBytes optList
  split <;> split <;> split <;> simp_all [validMsg, txSpec, okVal]

theorem serializeTxMsg_get (bb : Bytes) (acts : List Bytes) (au : Bytes) :
    getBytes (serializeTxMsg bb acts au) 1 = bb ∧ getList (serializeTxMsg bb acts au) 2 = acts ∧
    getBytes (serializeTxMsg bb acts au) 3 = au := by
  by_cases h1 : bb = [] <;> by_cases h2 : acts = [] <;> by_cases h3 : au = [] <;>
    simp [serializeTxMsg, optBytes, optList, getBytes, getList, List.lookup, h1, h2, h3]

theorem baseMsg_valid (b : Base) (hz : zigzag b.timestamp < 2 ^ 64) (hc : b.chainID.length = 32)
    (hf : b.maxFee.length = 8) : validMsg baseSpec 0 b.toMsg = true := by
  unfold Base.toMsg optNum optFixed
  split <;> split <;> split <;> simp_all [validMsg, baseSpec, okVal] <;> omega

theorem baseMsg_get (b : Base) (hc : b.chainID.length = 32) (hf : b.maxFee.length = 8) :
    getNum b.toMsg 1 = zigzag b.timestamp ∧ getFixed b.toMsg 2 32 = b.chainID ∧
    getFixed b.toMsg 3 8 = b.maxFee := by
  have z1 : allZero b.chainID = true → zeros 32 = b.chainID := by
    intro h; have := eq_zeros_of_allZero _ h; rw [hc] at this; exact this.symm
  have z2 : allZero b.maxFee = true → zeros 8 = b.maxFee := by
    intro h; have := eq_zeros_of_allZero _ h; rw [hf] at this; exact this.symm
  by_cases h1 : zigzag b.timestamp = 0 <;> by_cases h2 : allZero b.chainID = true <;>
    by_cases h3 : allZero b.maxFee = true <;>
    simp [Base.toMsg, optNum, optFixed, getNum, getFixed, List.lookup, h1, h2, h3, z1, z2]


theorem base_decode_encode (b : Base) (hts : -(2 ^ 63 : Int) ≤ b.timestamp ∧ b.timestamp < 2 ^ 63)
    (hc : b.chainID.length = 32) (hf : b.maxFee.length = 8) : decodeBase (encodeBase b) = some b := by
  unfold decodeBase encodeBase
  rw [decode_complete baseSpec_ok (baseMsg_valid b (zigzag_lt hts.1 hts.2) hc hf)]
  obtain ⟨g1, g2, g3⟩ := baseMsg_get b hc hf
  simp only [g1, g2, g3, unzigzag_zigzag]


/-! ## value-level converses for results, batches and blocks -/

theorem resultMsg_valid (r : Result) (he : r.error.length < 2 ^ 64) (ho : ∀ e ∈ r.outputs, e.length < 2 ^ 64)
    (hu : r.units.length = 40) (hf : r.fee.length = 8) : validMsg resultSpec 0 r.toMsg = true := by
  by_cases h1 : r.success = true <;> by_cases h2 : r.error = [] <;> by_cases h3 : r.outputs = [] <;>
    by_cases h4 : allZero r.units = true <;> by_cases h5 : allZero r.fee = true <;>
    simp_all [Result.toMsg, optNum, optBytes, optList, optFixed, validMsg, resultSpec, okVal]

theorem resultMsg_get (r : Result) (hu : r.units.length = 40) (hf : r.fee.length = 8) :
    (getNum r.toMsg 1 == 1) = r.success ∧ getBytes r.toMsg 2 = r.error ∧ getList r.toMsg 3 = r.outputs ∧
    getFixed r.toMsg 4 40 = r.units ∧ getFixed r.toMsg 5 8 = r.fee := by
  have z1 : allZero r.units = true → zeros 40 = r.units := by
    intro h; have := eq_zeros_of_allZero _ h; rw [hu] at this; exact this.symm
  have z2 : allZero r.fee = true → zeros 8 = r.fee := by
    intro h; have := eq_zeros_of_allZero _ h; rw [hf] at this; exact this.symm
  by_cases h1 : r.success = true <;> by_cases h2 : r.error = [] <;> by_cases h3 : r.outputs = [] <;>
    by_cases h4 : allZero r.units = true <;> by_cases h5 : allZero r.fee = true <;>
    simp [Result.toMsg, optNum, optBytes, optList, optFixed, getNum, getBytes, getList, getFixed,
      List.lookup, h1, h2, h3, h4, h5, z1, z2]

theorem result_dec (r : Result) (he : r.error.length < 2 ^ 64)
    (ho : ∀ e ∈ r.outputs, e.length < 2 ^ 64) (hu : r.units.length = 40) (hf : r.fee.length = 8) :
    decodeResult (encodeResult r) = some r := by
  unfold decodeResult encodeResult
  rw [decode_complete resultSpec_ok (resultMsg_valid r he ho hu hf)]
  obtain ⟨g1, g2, g3, g4, g5⟩ := resultMsg_get r hu hf
  simp only [g1, g2, g3, g4, g5]


theorem mapM?_map_mem {α β} {f : α → Option β} {g : β → α} : ∀ (r : List β),
    (∀ y ∈ r, f (g y) = some y) → mapM? f (r.map g) = some r := by
  intro r
  induction r with
  | nil => intro _; rfl
  | cons b bs ih =>
    intro h
    simp [mapM?, h b (by simp), ih (fun y hy => h y (List.mem_cons_of_mem _ hy))]

/-- a transaction value `decode_encode` applies to, whose encoding is a non-nil block entry -/
structure TxOK {A Au : Type} (pa : Parser A) (pu : Parser Au) (t : Tx A Au) : Prop where
  ts : -(2 ^ 63 : Int) ≤ t.base.timestamp ∧ t.base.timestamp < 2 ^ 63
  chainID : t.base.chainID.length = 32
  maxFee : t.base.maxFee.length = 8
  actions : ∀ a ∈ t.actions, (pa.bytes a).length < 2 ^ 64
  auth : (pu.bytes t.auth).length < 2 ^ 64
  nonempty : encodeTx pa pu t ≠ []
  size : (encodeTx pa pu t).length < 2 ^ 64

theorem listMsg_valid (spec : Spec) {f : Nat} (hk : spec f = some .repBytes) (l : List Bytes)
    (hl : ∀ e ∈ l, e.length < 2 ^ 64) : validMsg spec 0 (optList f l) = true := by
  by_cases h : l = [] <;> simp_all [optList, validMsg, okVal]

theorem listMsg_get (f : Nat) (l : List Bytes) : getList (optList f l) f = l := by
  by_cases h : l = [] <;> simp [optList, getList, List.lookup, h]

theorem blockMsg_valid (p t h c : Bytes) (txs : List Bytes) (root : Bytes) (hp : p.length = 32) (ht : t.length = 8)
    (hh : h.length = 8) (hc : c.length < 2 ^ 64) (htx : ∀ e ∈ txs, e.length < 2 ^ 64) (hr : root.length = 32) :
    validMsg blockSpec 0 (blockMsg p t h c txs root) = true := by
  by_cases h1 : allZero p = true <;> by_cases h2 : allZero t = true <;> by_cases h3 : allZero h = true <;>
    by_cases h4 : c = [] <;> by_cases h5 : txs = [] <;> by_cases h6 : allZero root = true <;>
    simp_all [blockMsg, optBytes, optList, optFixed, validMsg, blockSpec, okVal]

theorem blockMsg_get (p t h c : Bytes) (txs : List Bytes) (root : Bytes) (hp : p.length = 32) (ht : t.length = 8)
    (hh : h.length = 8) (hr : root.length = 32) :
    getFixed (blockMsg p t h c txs root) 1 32 = p ∧ getFixed (blockMsg p t h c txs root) 2 8 = t ∧
    getFixed (blockMsg p t h c txs root) 3 8 = h ∧ getBytes (blockMsg p t h c txs root) 4 = c ∧
    getList (blockMsg p t h c txs root) 5 = txs ∧ getFixed (blockMsg p t h c txs root) 6 32 = root := by
  have z1 : allZero p = true → p = zeros 32 := by
    intro h; have := eq_zeros_of_allZero _ h; rw [hp] at this; exact this
  have z2 : allZero t = true → t = zeros 8 := by
    intro h; have := eq_zeros_of_allZero _ h; rw [ht] at this; exact this
  have z3 : allZero h = true → h = zeros 8 := by
    intro h'; have := eq_zeros_of_allZero _ h'; rw [hh] at this; exact this
  have z6 : allZero root = true → root = zeros 32 := by
    intro h; have := eq_zeros_of_allZero _ h; rw [hr] at this; exact this
  by_cases h1 : allZero p = true <;> by_cases h2 : allZero t = true <;> by_cases h3 : allZero h = true <;>
    by_cases h4 : c = [] <;> by_cases h5 : txs = [] <;> by_cases h6 : allZero root = true <;>
    simp_all [blockMsg, optBytes, optList, optFixed, getBytes, getList, getFixed, List.lookup]

theorem ctx_decode_encode {h : Nat} (hh : h < 2 ^ 64) :
    decode ctxSpec (encodeCtx h) = some (optNum 1 h) ∧ getNum (optNum 1 h) 1 = h ∧
    (encodeCtx h).length < 2 ^ 64 := by
  have hv : validMsg ctxSpec 0 (optNum 1 h) = true := by
    by_cases h0 : h = 0 <;> simp_all [optNum, validMsg, ctxSpec, okVal] <;> omega
  refine ⟨decode_complete ctxSpec_ok hv, ?_, ?_⟩
  · by_cases h0 : h = 0 <;> simp [optNum, getNum, List.lookup, h0]
  · have := HyperModel.Estimate.length_enc_optNum_uvar ctxSpec (f := 1) rfl h
    have := HyperModel.Estimate.sizeUint_le_ten hh
    unfold encodeCtx; omega


theorem execResultsMsg_valid (l : List Bytes) (p c : Bytes) (hl : ∀ e ∈ l, e.length < 2 ^ 64)
    (hp : p.length = 40) (hc : c.length = 40) :
    validMsg execResultsSpec 0 (optList 1 l ++ optFixed 2 p ++ optFixed 3 c) = true := by
  by_cases h1 : l = [] <;> by_cases h2 : allZero p = true <;> by_cases h3 : allZero c = true <;>
    simp_all [optList, optFixed, validMsg, execResultsSpec, okVal]

theorem execResultsMsg_get (l : List Bytes) (p c : Bytes) (hp : p.length = 40) (hc : c.length = 40) :
    getList (optList 1 l ++ optFixed 2 p ++ optFixed 3 c) 1 = l ∧
    getFixed (optList 1 l ++ optFixed 2 p ++ optFixed 3 c) 2 40 = p ∧
    getFixed (optList 1 l ++ optFixed 2 p ++ optFixed 3 c) 3 40 = c := by
  have z1 : allZero p = true → p = zeros 40 := by
    intro h; have := eq_zeros_of_allZero _ h; rw [hp] at this; exact this
  have z2 : allZero c = true → c = zeros 40 := by
    intro h; have := eq_zeros_of_allZero _ h; rw [hc] at this; exact this
  by_cases h1 : l = [] <;> by_cases h2 : allZero p = true <;> by_cases h3 : allZero c = true <;>
    simp_all [optList, optFixed, getList, getFixed, List.lookup]

/-- a `Result` value with well-formed fixed-size fields -/
structure ResultOK (r : Result) : Prop where
  error : r.error.length < 2 ^ 64
  outputs : ∀ e ∈ r.outputs, e.length < 2 ^ 64
  units : r.units.length = 40
  fee : r.fee.length = 8
  size : (encodeResult r).length < 2 ^ 64


end HyperModel.Canoto
