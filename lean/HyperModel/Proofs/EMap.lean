import HyperModel.Proofs.Heap
import HyperModel.Model.EMap
/-!
Invariant and refinement facts for `Model/EMap.lean`. The abstract value of an `EMap` is the
relation `Tr e id t` ("`id` is tracked with expiry `t`"): a finite partial map ID → non-zero expiry.
Core Lean only.
-/
namespace HyperModel.EMap
open HyperModel.Heap
set_option linter.unusedSectionVars false

/-- `id` is tracked with expiry `t` (it is listed in the bucket of `t`) -/
def Tr (e : EMap) (id : ID) (t : Int) : Prop := ∃ l, e.times t = some l ∧ id ∈ l

/-- Representation invariant of `EMap`: `seen` ↔ buckets ↔ bucket heap are consistent. -/
structure EMInv (e : EMap) : Prop where
  heap : Inv e.bh
  isMin : e.bh.isMin = true
  /-- a heap entry points to the bucket of its `Val`, and its ID is listed in that bucket -/
  ent : ∀ c, c ∈ cores e.bh.items → c.item = c.val ∧ Tr e c.id c.val
  /-- every bucket has a heap entry -/
  bucket : ∀ t l, e.times t = some l → ∃ c, c ∈ cores e.bh.items ∧ c.val = t
  /-- one heap entry per bucket -/
  vals : ((cores e.bh.items).map (·.val)).Nodup
  seen : ∀ id, e.seen id = true ↔ ∃ t, Tr e id t
  nodup : ∀ t l, e.times t = some l → l.Nodup ∧ t ≠ 0
  disj : ∀ id t1 t2, Tr e id t1 → Tr e id t2 → t1 = t2

theorem EMInv.new : EMInv EMap.new where
  heap := Inv.new true
  isMin := rfl
  ent := by intro c hc; simp [EMap.new, Heap.new, cores] at hc
  bucket := by intro t l h; simp [EMap.new] at h
  vals := by simp [EMap.new, Heap.new, cores]
  seen := by intro id; simp [EMap.new, Tr]
  nodup := by intro t l h; simp [EMap.new] at h
  disj := by intro id t1 t2 h; obtain ⟨l, h, _⟩ := h; simp [EMap.new] at h

theorem add1_noop (e : EMap) (id : ID) (t : Int) (h : t = 0 ∨ e.seen id = true) : e.add1 id t = e := by
  rcases h with h | h
  · simp [EMap.add1, h]
  · by_cases ht : t = 0
    · simp [EMap.add1, ht]
    · simp [EMap.add1, ht, h]

theorem add1_inv (e : EMap) (hI : EMInv e) (id : ID) (t : Int) :
    EMInv (e.add1 id t) ∧
    (∀ j u, Tr (e.add1 id t) j u ↔ Tr e j u ∨ (j = id ∧ u = t ∧ t ≠ 0 ∧ e.seen id = false)) := by
  by_cases h0 : t = 0 ∨ e.seen id = true
  · rw [add1_noop e id t h0]
    refine ⟨hI, fun j u => ⟨Or.inl, ?_⟩⟩
    rintro (h | ⟨_, _, h1, h2⟩)
    · exact h
    · rcases h0 with h0 | h0
      · exact absurd h0 h1
      · rw [h0] at h2; cases h2
  · have ht : t ≠ 0 := fun h => h0 (Or.inl h)
    have hs : e.seen id = false := by
      cases h : e.seen id
      · rfl
      · exact absurd (Or.inr h) h0
    have hnot : ∀ u, ¬ Tr e id u := fun u h => by
      have := (hI.seen id).2 ⟨u, h⟩; rw [hs] at this; cases this
    cases hb : e.times t with
    | some items =>
      have hadd : e.add1 id t = { e with seen := (fun j => if j = id then true else e.seen j), times := (fun u => if u = t then some (items ++ [id]) else e.times u) } := by
        simp [EMap.add1, ht, hs, hb]
      rw [hadd]
      have htr : ∀ j u, Tr { e with seen := (fun j => if j = id then true else e.seen j), times := (fun u => if u = t then some (items ++ [id]) else e.times u) } j u ↔
          Tr e j u ∨ (j = id ∧ u = t) := by
        intro j u
        simp only [Tr]
        by_cases hu : u = t
        · subst hu
          simp only [if_true, Option.some.injEq, exists_eq_left', hb]
          simp [List.mem_append]
        · simp only [hu, if_false, and_false, or_false]
      refine ⟨⟨hI.heap, hI.isMin, ?_, ?_, hI.vals, ?_, ?_, ?_⟩, ?_⟩
      · intro c hc
        obtain ⟨h1, h2⟩ := hI.ent c hc
        exact ⟨h1, (htr _ _).2 (Or.inl h2)⟩
      · intro u l hl
        by_cases hu : u = t
        · subst hu; exact hI.bucket u items hb
        · simp only [hu, if_false] at hl; exact hI.bucket u l hl
      · intro j
        simp only
        by_cases hj : j = id
        · subst hj; simp only [if_true, true_iff]; exact ⟨t, (htr _ _).2 (Or.inr ⟨rfl, rfl⟩)⟩
        · simp only [hj, if_false, hI.seen j]
          constructor
          · rintro ⟨u, h⟩; exact ⟨u, (htr _ _).2 (Or.inl h)⟩
          · rintro ⟨u, h⟩
            rcases (htr _ _).1 h with h | ⟨h, _⟩
            · exact ⟨u, h⟩
            · exact absurd h hj
      · intro u l hl
        by_cases hu : u = t
        · subst hu
          simp only [if_true, Option.some.injEq] at hl
          subst hl
          refine ⟨?_, ht⟩
          have hnd := (hI.nodup u items hb).1
          refine List.nodup_append.2 ⟨hnd, by simp, ?_⟩
          intro a ha b hb' hab
          simp at hb'; subst hb'; subst hab
          exact hnot u ⟨items, hb, ha⟩
        · simp only [hu, if_false] at hl; exact hI.nodup u l hl
      · intro j t1 t2 h1 h2
        rcases (htr _ _).1 h1 with g1 | ⟨hj1, ht1⟩ <;> rcases (htr _ _).1 h2 with g2 | ⟨hj2, ht2⟩
        · exact hI.disj j t1 t2 g1 g2
        · rw [hj2] at g1; exact absurd g1 (hnot _)
        · rw [hj1] at g2; exact absurd g2 (hnot _)
        · rw [ht1, ht2]
      · intro j u
        rw [htr]
        constructor
        · rintro (h | ⟨h1, h2⟩)
          · exact Or.inl h
          · exact Or.inr ⟨h1, h2, ht, hs⟩
        · rintro (h | ⟨h1, h2, _, _⟩)
          · exact Or.inl h
          · exact Or.inr ⟨h1, h2⟩
    | none =>
      have hlook : e.bh.lookup id = false := by
        cases hl : e.bh.lookup id
        · rfl
        · have := (hI.heap.lookup id).1 hl
          simp only [ids, List.mem_map] at this
          obtain ⟨c, hc, hcid⟩ := this
          have := (hI.ent c hc).2
          rw [hcid] at this
          exact absurd this (hnot _)
      obtain ⟨pinv, pmin, pperm, _⟩ := push_new e.bh hI.heap
        { id := id, val := t, item := t, index := e.bh.len } hlook rfl
      have hadd : e.add1 id t = { bh := e.bh.push { id := id, val := t, item := t, index := e.bh.len }, seen := (fun j => if j = id then true else e.seen j), times := (fun u => if u = t then some [id] else e.times u) } := by
        simp [EMap.add1, ht, hs, hb]
      rw [hadd]
      have htr : ∀ j u, Tr { bh := e.bh.push { id := id, val := t, item := t, index := e.bh.len }, seen := (fun j => if j = id then true else e.seen j), times := (fun u => if u = t then some [id] else e.times u) } j u ↔
          Tr e j u ∨ (j = id ∧ u = t) := by
        intro j u
        simp only [Tr]
        by_cases hu : u = t
        · subst hu
          simp [hb]
        · simp only [hu, if_false, and_false, or_false]
      have hmem : ∀ c, c ∈ cores (e.bh.push { id := id, val := t, item := t, index := e.bh.len }).items ↔
          c = Entry.core { id := id, val := t, item := t, index := e.bh.len } ∨ c ∈ cores e.bh.items := by
        intro c; rw [pperm.mem_iff, List.mem_cons]
      refine ⟨⟨pinv, pmin.trans hI.isMin, ?_, ?_, ?_, ?_, ?_, ?_⟩, ?_⟩
      · intro c hc
        rcases (hmem c).1 hc with rfl | hc
        · exact ⟨rfl, (htr _ _).2 (Or.inr ⟨rfl, rfl⟩)⟩
        · obtain ⟨h1, h2⟩ := hI.ent c hc
          exact ⟨h1, (htr _ _).2 (Or.inl h2)⟩
      · intro u l hl
        by_cases hu : u = t
        · subst hu; exact ⟨_, (hmem _).2 (Or.inl rfl), rfl⟩
        · simp only [hu, if_false] at hl
          obtain ⟨c, hc, hcv⟩ := hI.bucket u l hl
          exact ⟨c, (hmem c).2 (Or.inr hc), hcv⟩
      · have := (pperm.map (·.val)).nodup_iff.2
        apply this
        simp only [List.map_cons, List.nodup_cons, Entry.core_val]
        refine ⟨?_, hI.vals⟩
        intro hm
        obtain ⟨c, hc, hcv⟩ := List.mem_map.1 hm
        obtain ⟨l, hl, _⟩ := (hI.ent c hc).2
        rw [hcv, hb] at hl; cases hl
      · intro j
        simp only
        by_cases hj : j = id
        · subst hj; simp only [if_true, true_iff]; exact ⟨t, (htr _ _).2 (Or.inr ⟨rfl, rfl⟩)⟩
        · simp only [hj, if_false, hI.seen j]
          constructor
          · rintro ⟨u, h⟩; exact ⟨u, (htr _ _).2 (Or.inl h)⟩
          · rintro ⟨u, h⟩
            rcases (htr _ _).1 h with h | ⟨h, _⟩
            · exact ⟨u, h⟩
            · exact absurd h hj
      · intro u l hl
        by_cases hu : u = t
        · subst hu
          simp only [if_true, Option.some.injEq] at hl
          subst hl
          exact ⟨by simp, ht⟩
        · simp only [hu, if_false] at hl; exact hI.nodup u l hl
      · intro j t1 t2 h1 h2
        rcases (htr _ _).1 h1 with g1 | ⟨hj1, ht1⟩ <;> rcases (htr _ _).1 h2 with g2 | ⟨hj2, ht2⟩
        · exact hI.disj j t1 t2 g1 g2
        · rw [hj2] at g1; exact absurd g1 (hnot _)
        · rw [hj1] at g2; exact absurd g2 (hnot _)
        · rw [ht1, ht2]
      · intro j u
        rw [htr]
        constructor
        · rintro (h | ⟨h1, h2⟩)
          · exact Or.inl h
          · exact Or.inr ⟨h1, h2, ht, hs⟩
        · rintro (h | ⟨h1, h2, _, _⟩)
          · exact Or.inl h
          · exact Or.inr ⟨h1, h2⟩

theorem add_inv (e : EMap) (hI : EMInv e) (items : List (ID × Int)) : EMInv (e.add items) := by
  induction items generalizing e with
  | nil => exact hI
  | cons x rest ih =>
    simp only [EMap.add, List.foldl_cons]
    exact ih _ (add1_inv e hI x.1 x.2).1

theorem removeSeen_iff (l : List ID) : ∀ (seen : ID → Bool) (j : ID),
    removeSeen seen l j = true ↔ seen j = true ∧ j ∉ l := by
  induction l with
  | nil => intro seen j; simp [removeSeen]
  | cons a rest ih =>
    intro seen j
    simp only [removeSeen, List.foldl_cons] at ih ⊢
    rw [ih]
    by_cases hj : j = a
    · subst hj; simp
    · simp [hj]

/-- one iteration of `SetMin`'s loop that evicts the root bucket -/
def evictRoot (e : EMap) (b : Entry Int) : EMap :=
  { bh := (e.bh.pop).1, seen := removeSeen e.seen ((e.times b.item).getD []),
    times := fun u => if u = b.val then none else e.times u }

theorem root_facts (e : EMap) (hI : EMInv e) (h0 : 0 < e.bh.items.size) :
    e.bh.first = some e.bh.items[0]! ∧ e.bh.items[0]!.item = e.bh.items[0]!.val ∧
    (∃ l, e.times e.bh.items[0]!.val = some l) ∧
    (∀ t l, e.times t = some l → e.bh.items[0]!.val ≤ t) := by
  obtain ⟨hf, hmin⟩ := (first_spec e.bh hI.heap).2 h0
  have hmem : e.bh.items[0]!.core ∈ cores e.bh.items := (mem_cores_iff _ _).2 ⟨0, h0, rfl⟩
  obtain ⟨h1, l, hl, _⟩ := hI.ent _ hmem
  refine ⟨hf, h1, ⟨l, hl⟩, ?_⟩
  intro t l' hl'
  obtain ⟨c, hc, hcv⟩ := hI.bucket t l' hl'
  obtain ⟨k, hk, rfl⟩ := (mem_cores_iff _ _).1 hc
  have := hmin k hk
  rw [hI.isMin] at this
  simp only [K, key, if_true] at this
  rw [← hcv]; exact this

theorem evictRoot_inv (e : EMap) (hI : EMInv e) (h0 : 0 < e.bh.items.size) :
    let b := e.bh.items[0]!
    EMInv (evictRoot e b) ∧ (evictRoot e b).bh.items.size + 1 = e.bh.items.size ∧
    (∀ j u, Tr (evictRoot e b) j u ↔ Tr e j u ∧ u ≠ b.val) := by
  intro b
  obtain ⟨_, hbi, ⟨l, hl⟩, _⟩ := root_facts e hI h0
  obtain ⟨r, hr, hrc, pinv, pmin, pperm⟩ := pop_spec e.bh hI.heap h0
  have hgetD : (e.times b.item).getD [] = l := by rw [hbi, hl]; rfl
  have htr : ∀ j u, Tr (evictRoot e b) j u ↔ Tr e j u ∧ u ≠ b.val := by
    intro j u
    simp only [Tr, evictRoot]
    by_cases hu : u = b.val
    · simp [hu]
    · simp [hu]
  have hvals := (pperm.map (·.val)).nodup_iff.1 hI.vals
  simp only [List.map_cons, List.nodup_cons, Entry.core_val] at hvals
  have hsub : ∀ c, c ∈ cores (e.bh.pop).1.items → c ∈ cores e.bh.items ∧ c.val ≠ b.val := by
    intro c hc
    refine ⟨pperm.mem_iff.2 (List.mem_cons_of_mem _ hc), ?_⟩
    intro hv
    exact hvals.1 (List.mem_map.2 ⟨c, hc, hv⟩)
  refine ⟨⟨pinv, pmin.trans hI.isMin, ?_, ?_, hvals.2, ?_, ?_, ?_⟩, ?_, htr⟩
  · intro c hc
    obtain ⟨hc1, hc2⟩ := hsub c hc
    obtain ⟨h1, h2⟩ := hI.ent c hc1
    exact ⟨h1, (htr _ _).2 ⟨h2, hc2⟩⟩
  · intro u l' hl'
    simp only [evictRoot] at hl'
    by_cases hu : u = b.val
    · simp [hu] at hl'
    · simp only [hu, if_false] at hl'
      obtain ⟨c, hc, hcv⟩ := hI.bucket u l' hl'
      have := pperm.mem_iff.1 hc
      rcases List.mem_cons.1 this with rfl | h
      · exact absurd hcv.symm hu
      · exact ⟨c, h, hcv⟩
  · intro j
    simp only [evictRoot, hgetD]
    rw [removeSeen_iff, hI.seen j]
    constructor
    · rintro ⟨⟨u, hu⟩, hj⟩
      refine ⟨u, (htr _ _).2 ⟨hu, ?_⟩⟩
      intro e'; subst e'
      obtain ⟨l', hl', hj'⟩ := hu
      rw [hl] at hl'; cases hl'; exact hj hj'
    · rintro ⟨u, hu⟩
      obtain ⟨h1, h2⟩ := (htr _ _).1 hu
      refine ⟨⟨u, h1⟩, ?_⟩
      intro hj
      exact h2 (hI.disj j u b.val h1 ⟨l, hl, hj⟩)
  · intro u l' hl'
    simp only [evictRoot] at hl'
    by_cases hu : u = b.val
    · simp [hu] at hl'
    · simp only [hu, if_false] at hl'; exact hI.nodup u l' hl'
  · intro j t1 t2 h1 h2
    exact hI.disj j t1 t2 ((htr _ _).1 h1).1 ((htr _ _).1 h2).1
  · have := pperm.length_eq
    simp only [cores, List.length_map, Array.length_toList, List.length_cons] at this
    simp only [evictRoot]; omega

theorem setMinLoop_spec (t0 : Int) (fuel : Nat) : ∀ (e : EMap) (ev : List ID), EMInv e →
    e.bh.items.size ≤ fuel →
    ∃ out, (EMap.setMinLoop t0 fuel e ev).2 = ev ++ out ∧ EMInv (EMap.setMinLoop t0 fuel e ev).1 ∧
      (∀ id, id ∈ out ↔ ∃ t, t < t0 ∧ Tr e id t) ∧ out.Nodup ∧
      (∀ id t, Tr (EMap.setMinLoop t0 fuel e ev).1 id t ↔ Tr e id t ∧ t0 ≤ t) := by
  -- the loop stops: nothing below `t0` is tracked
  have stop : ∀ (e : EMap) (ev : List ID), EMInv e → (∀ t l, e.times t = some l → t0 ≤ t) →
      ∃ out, (e, ev).2 = ev ++ out ∧ EMInv (e, ev).1 ∧
        (∀ id, id ∈ out ↔ ∃ t, t < t0 ∧ Tr e id t) ∧ out.Nodup ∧
        (∀ id t, Tr (e, ev).1 id t ↔ Tr e id t ∧ t0 ≤ t) := by
    intro e ev hI hall
    refine ⟨[], by simp, hI, ?_, by simp, ?_⟩
    · intro id
      simp only [List.not_mem_nil, false_iff]
      rintro ⟨t, ht, l, hl, _⟩
      have := hall t l hl; omega
    · intro id t
      constructor
      · intro h; obtain ⟨l, hl, _⟩ := h; exact ⟨⟨l, hl, by assumption⟩, hall t l hl⟩
      · intro h; exact h.1
  induction fuel with
  | zero =>
    intro e ev hI hf
    have h0 : e.bh.items.size = 0 := by omega
    have : EMap.setMinLoop t0 0 e ev = (e, ev) := rfl
    rw [this]
    apply stop e ev hI
    intro t l hl
    obtain ⟨c, hc, _⟩ := hI.bucket t l hl
    obtain ⟨k, hk, _⟩ := (mem_cores_iff _ _).1 hc
    omega
  | succ fuel ih =>
    intro e ev hI hf
    by_cases h0 : e.bh.items.size = 0
    · have hfirst := (first_spec e.bh hI.heap).1 h0
      have : EMap.setMinLoop t0 (fuel + 1) e ev = (e, ev) := by simp [EMap.setMinLoop, hfirst]
      rw [this]
      apply stop e ev hI
      intro t l hl
      obtain ⟨c, hc, _⟩ := hI.bucket t l hl
      obtain ⟨k, hk, _⟩ := (mem_cores_iff _ _).1 hc
      omega
    · have hpos : 0 < e.bh.items.size := by omega
      obtain ⟨hfirst, hbi, ⟨l, hl⟩, hmin⟩ := root_facts e hI hpos
      by_cases hge : e.bh.items[0]!.val ≥ t0
      · have : EMap.setMinLoop t0 (fuel + 1) e ev = (e, ev) := by
          simp [EMap.setMinLoop, hfirst, hge]
        rw [this]
        apply stop e ev hI
        intro t l' hl'
        have := hmin t l' hl'; omega
      · obtain ⟨einv, esz, etr⟩ := evictRoot_inv e hI hpos
        have hstep : EMap.setMinLoop t0 (fuel + 1) e ev =
            EMap.setMinLoop t0 fuel (evictRoot e e.bh.items[0]!) (ev ++ (e.times e.bh.items[0]!.item).getD []) := by
          simp [EMap.setMinLoop, hfirst, hge, evictRoot]
        have hgetD : (e.times e.bh.items[0]!.item).getD [] = l := by rw [hbi, hl]; rfl
        rw [hstep, hgetD]
        obtain ⟨out, o1, o2, o3, o4, o5⟩ := ih (evictRoot e e.bh.items[0]!) (ev ++ l) einv (by omega)
        have hlt : e.bh.items[0]!.val < t0 := by omega
        refine ⟨l ++ out, by rw [o1]; simp, o2, ?_, ?_, ?_⟩
        · intro id
          rw [List.mem_append, o3]
          constructor
          · rintro (h | ⟨t, ht, h⟩)
            · exact ⟨_, hlt, l, hl, h⟩
            · exact ⟨t, ht, ((etr _ _).1 h).1⟩
          · rintro ⟨t, ht, h⟩
            by_cases htb : t = e.bh.items[0]!.val
            · subst htb
              obtain ⟨l', hl', hid⟩ := h
              rw [hl] at hl'; cases hl'; exact Or.inl hid
            · exact Or.inr ⟨t, ht, (etr _ _).2 ⟨h, htb⟩⟩
        · refine List.nodup_append.2 ⟨(hI.nodup _ l hl).1, o4, ?_⟩
          intro a ha b hb hab
          subst hab
          obtain ⟨t, _, h⟩ := (o3 a).1 hb
          obtain ⟨h1, h2⟩ := (etr _ _).1 h
          exact h2 (hI.disj a t _ h1 ⟨l, hl, ha⟩)
        · intro id t
          rw [o5, etr]
          constructor
          · rintro ⟨⟨h1, _⟩, h2⟩; exact ⟨h1, h2⟩
          · rintro ⟨h1, h2⟩
            refine ⟨⟨h1, ?_⟩, h2⟩
            intro e'; omega

theorem setMin_spec (e : EMap) (hI : EMInv e) (t0 : Int) :
    EMInv (e.setMin t0).1 ∧
    (∀ id, id ∈ (e.setMin t0).2 ↔ ∃ t, t < t0 ∧ Tr e id t) ∧ (e.setMin t0).2.Nodup ∧
    (∀ id t, Tr (e.setMin t0).1 id t ↔ Tr e id t ∧ t0 ≤ t) := by
  obtain ⟨out, h1, h2, h3, h4, h5⟩ := setMinLoop_spec t0 e.bh.len e [] hI (Nat.le_refl _)
  simp only [EMap.setMin]
  rw [h1]
  simp only [List.nil_append]
  exact ⟨h2, h3, h4, h5⟩

/-- `Contains`: the resulting marker, as a set of positions. Without `stop`: the initial marker
plus every position whose ID is seen. With `stop`: the initial marker plus the *first* unmarked
position whose ID is seen (if any). Positions are `i, i+1, …` for the IDs of the list. -/
theorem containsLoop_spec (seen : ID → Bool) (stop : Bool) : ∀ (ids : List ID) (i : Nat) (marker : List Nat) (j : Nat),
    j ∈ containsLoop seen stop i ids marker ↔
      j ∈ marker ∨
      (i ≤ j ∧ (∃ id, ids[j - i]? = some id ∧ seen id = true) ∧
        (stop = true → ∀ j', i ≤ j' → j' < j →
          j' ∈ marker ∨ ∀ id, ids[j' - i]? = some id → seen id = false)) := by
  intro ids
  induction ids with
  | nil => intro i marker j; simp [containsLoop]
  | cons a rest ih =>
    intro i marker j
    have hshift : ∀ k, i + 1 ≤ k → (a :: rest)[k - i]? = rest[k - (i + 1)]? := by
      intro k hk
      have : k - i = (k - (i + 1)) + 1 := by omega
      rw [this, List.getElem?_cons_succ]
    have hhead : (a :: rest)[i - i]? = some a := by simp
    -- the three ways the loop continues with the same marker
    have skip : (marker.contains i = true ∨ seen a = false) →
        (j ∈ containsLoop seen stop (i + 1) rest marker ↔
          j ∈ marker ∨
          (i ≤ j ∧ (∃ id, (a :: rest)[j - i]? = some id ∧ seen id = true) ∧
            (stop = true → ∀ j', i ≤ j' → j' < j →
              j' ∈ marker ∨ ∀ id, (a :: rest)[j' - i]? = some id → seen id = false))) := by
      intro hsk
      rw [ih]
      constructor
      · rintro (h | ⟨h1, ⟨id, h2, h3⟩, h4⟩)
        · exact Or.inl h
        · refine Or.inr ⟨by omega, ⟨id, by rw [hshift j h1]; exact h2, h3⟩, ?_⟩
          intro hs j' hj1 hj2
          by_cases hj' : j' = i
          · subst hj'
            rcases hsk with hsk | hsk
            · exact Or.inl (by simpa using hsk)
            · right; intro id hid; rw [hhead] at hid; cases hid; exact hsk
          · have := h4 hs j' (by omega) hj2
            rw [hshift j' (by omega)]; exact this
      · rintro (h | ⟨h1, ⟨id, h2, h3⟩, h4⟩)
        · exact Or.inl h
        · by_cases hji : j = i
          · subst hji
            rw [hhead] at h2; cases h2
            rcases hsk with hsk | hsk
            · exact Or.inl (by simpa using hsk)
            · rw [hsk] at h3; cases h3
          · refine Or.inr ⟨by omega, ⟨id, by rw [← hshift j (by omega)]; exact h2, h3⟩, ?_⟩
            intro hs j' hj1 hj2
            have := h4 hs j' (by omega) hj2
            rw [hshift j' hj1] at this; exact this
    unfold containsLoop
    by_cases hm : marker.contains i = true
    · rw [if_pos hm]; exact skip (Or.inl hm)
    · rw [if_neg hm]
      by_cases hsa : seen a = true
      · rw [if_pos hsa]
        have hmi : i ∉ marker := by simpa using hm
        cases stop with
        | true =>
          simp only [if_true, List.mem_append, List.mem_singleton]
          constructor
          · rintro (h | h)
            · exact Or.inl h
            · subst h
              exact Or.inr ⟨Nat.le_refl _, ⟨a, hhead, hsa⟩, fun _ j' h1 h2 => by omega⟩
          · rintro (h | ⟨h1, _, h4⟩)
            · exact Or.inl h
            · by_cases hji : j = i
              · exact Or.inr hji
              · have := h4 trivial i (Nat.le_refl _) (by omega)
                rcases this with h | h
                · exact absurd h hmi
                · have := h a hhead; rw [hsa] at this; cases this
        | false =>
          simp only [Bool.false_eq_true, if_false]
          rw [ih]
          simp only [List.mem_append, List.mem_singleton, Bool.false_eq_true, false_implies, and_true]
          constructor
          · rintro ((h | h) | ⟨h1, ⟨id, h2, h3⟩⟩)
            · exact Or.inl h
            · subst h; exact Or.inr ⟨Nat.le_refl _, a, hhead, hsa⟩
            · exact Or.inr ⟨by omega, id, by rw [hshift j h1]; exact h2, h3⟩
          · rintro (h | ⟨h1, id, h2, h3⟩)
            · exact Or.inl (Or.inl h)
            · by_cases hji : j = i
              · exact Or.inl (Or.inr hji)
              · exact Or.inr ⟨by omega, id, by rw [← hshift j (by omega)]; exact h2, h3⟩
      · rw [if_neg hsa]
        exact skip (Or.inr (by simpa using hsa))

end HyperModel.EMap
