import HyperModel.Model.Units
import HyperModel.Proofs.Fees
/-! Lemmas for C12: checked accumulators = exact sums with an overflow test; `Consume`. -/
namespace HyperModel.UnitsProofs
open HyperModel.Window HyperModel.Fees HyperModel.Units HyperModel.FeesProofs

/-! ### checked accumulators -/

theorem foldl_opAdd_none (xs : List Nat) : xs.foldl opAdd none = none := by
  induction xs with
  | nil => rfl
  | cons x xs ih => simpa [List.foldl, opAdd] using ih

theorem foldl_opAdd (xs : List Nat) (v : Nat) (hv : v < two64) :
    xs.foldl opAdd (some v) = if v + xs.sum < two64 then some (v + xs.sum) else none := by
  induction xs generalizing v with
  | nil => simp [hv]
  | cons x xs ih =>
    rw [List.foldl_cons, List.sum_cons]
    by_cases h : v + x < two64
    · have e : opAdd (some v) x = some (v + x) := by simp [opAdd, checkedAdd, h]
      rw [e, ih _ h, Nat.add_assoc]
    · have e : opAdd (some v) x = none := by simp [opAdd, checkedAdd, h]
      rw [e, foldl_opAdd_none]
      have : ¬ v + (x + xs.sum) < two64 := by omega
      simp [this]

/-- exact compute units -/
def exactCompute (base : Nat) (actionCUs : List Nat) (authCU : Nat) : Nat :=
  base + actionCUs.sum + authCU

theorem computeUnits_eq (base : Nat) (acus : List Nat) (auth : Nat) (hb : base < two64) :
    computeUnits base acus auth =
      if exactCompute base acus auth < two64 then some (exactCompute base acus auth) else none := by
  unfold computeUnits exactCompute
  rw [foldl_opAdd _ _ hb]
  by_cases h : base + acus.sum < two64
  · simp only [h, if_true, opAdd, checkedAdd]
  · simp only [h, if_false, opAdd]
    have : ¬ base + acus.sum + auth < two64 := by omega
    simp [this]

/-- declared chunk count of a (valid) key -/
def chunks (k : Key) : Nat := (maxChunks k).getD 0

/-- exact storage units of one kind over a key list -/
def exactStorage (keyCost valCost : Nat) (ks : List Key) : Nat :=
  (ks.map fun k => keyCost + chunks k * valCost).sum

theorem storageStep_none (kc vc : Nat) (k : Key) : storageStep kc vc none k = none := by
  simp [storageStep, opAdd, opMulAdd]

theorem storageStep_some (kc vc v : Nat) (k : Key) :
    storageStep kc vc (some v) k =
      if v + (kc + chunks k * vc) < two64 then some (v + (kc + chunks k * vc)) else none := by
  unfold storageStep opAdd opMulAdd checkedMul checkedAdd chunks
  by_cases h1 : v + kc < two64
  · simp only [h1, if_true]
    by_cases h2 : (maxChunks k).getD 0 * vc < two64
    · simp only [h2, if_true, Nat.add_assoc]
    · simp only [h2, if_false]
      have : ¬ v + (kc + (maxChunks k).getD 0 * vc) < two64 := by omega
      simp [this]
  · simp only [h1, if_false]
    have : ¬ v + (kc + (maxChunks k).getD 0 * vc) < two64 := by omega
    simp [this]

theorem storage_fold_none (kc vc : Nat) (ks : List Key) :
    ks.foldl (storageStep kc vc) none = none := by
  induction ks with
  | nil => rfl
  | cons k ks ih => rw [List.foldl_cons, storageStep_none, ih]

theorem storage_fold (kc vc : Nat) (ks : List Key) (v : Nat) (hv : v < two64) :
    ks.foldl (storageStep kc vc) (some v) =
      if v + exactStorage kc vc ks < two64 then some (v + exactStorage kc vc ks) else none := by
  induction ks generalizing v with
  | nil => simp [exactStorage, hv]
  | cons k ks ih =>
    have hes : exactStorage kc vc (k :: ks) = (kc + chunks k * vc) + exactStorage kc vc ks := by
      simp [exactStorage]
    rw [hes, List.foldl_cons, storageStep_some]
    by_cases h : v + (kc + chunks k * vc) < two64
    · simp only [h, if_true]
      rw [ih _ h, Nat.add_assoc]
    · simp only [h, if_false, storage_fold_none]
      have : ¬ v + (kc + chunks k * vc + exactStorage kc vc ks) < two64 := by omega
      simp [this]

theorem storageUnits_eq (kc vc : Nat) (ks : List Key) :
    storageUnits kc vc ks =
      if exactStorage kc vc ks < two64 then some (exactStorage kc vc ks) else none := by
  unfold storageUnits
  rw [storage_fold _ _ _ _ two64_pos]
  simp

/-! ### the key set -/

theorem mem_dedup (l : List Key) (k : Key) : k ∈ dedup l ↔ k ∈ l := by
  induction l with
  | nil => simp [dedup]
  | cons x xs ih =>
    simp only [dedup, List.mem_cons, List.mem_filter, ih]
    constructor
    · rintro (h | ⟨h, _⟩)
      · exact Or.inl h
      · exact Or.inr h
    · rintro (h | h)
      · exact Or.inl h
      · by_cases hk : k = x
        · exact Or.inl hk
        · exact Or.inr ⟨h, by simpa using hk⟩

theorem dedup_nodup (l : List Key) : (dedup l).Nodup := by
  induction l with
  | nil => simp [dedup]
  | cons x xs ih =>
    simp only [dedup, List.nodup_cons, List.mem_filter]
    refine ⟨fun h => by simpa using h.2, ih.filter _⟩

/-! ### Consume -/

/-- `lastConsumed(k) + d[k]` neither overflows nor exceeds the limit -/
def Fits (r : Raw) (d l : Dims) (i : Nat) : Prop :=
  lastConsumed r i + dget d i < two64 ∧ lastConsumed r i + dget d i ≤ dget l i

theorem consumeCheck_none (r : Raw) (d l : Dims) (is : List Nat) :
    consumeCheck r d l is = none ↔ ∀ i ∈ is, Fits r d l i := by
  induction is with
  | nil => simp [consumeCheck]
  | cons i rest ih =>
    unfold consumeCheck checkedAdd
    by_cases h1 : lastConsumed r i + dget d i < two64
    · simp only [h1, if_true]
      by_cases h2 : lastConsumed r i + dget d i > dget l i
      · simp only [h2, if_true]
        constructor
        · intro h; cases h
        · intro h; have := (h i (List.mem_cons_self ..)).2; omega
      · simp only [h2, if_false, ih]
        constructor
        · intro h j hj
          rcases List.mem_cons.mp hj with rfl | hj
          · exact ⟨h1, by omega⟩
          · exact h j hj
        · intro h j hj; exact h j (List.mem_cons_of_mem _ hj)
    · simp only [h1, if_false]
      constructor
      · intro h; cases h
      · intro h; exact absurd (h i (List.mem_cons_self ..)).1 h1

theorem consumeCheck_some (r : Raw) (d l : Dims) (is : List Nat) (i : Nat)
    (h : consumeCheck r d l is = some i) :
    ∃ pre post, is = pre ++ i :: post ∧ (∀ j ∈ pre, Fits r d l j) ∧ ¬ Fits r d l i := by
  induction is with
  | nil => simp [consumeCheck] at h
  | cons x rest ih =>
    unfold consumeCheck checkedAdd at h
    by_cases h1 : lastConsumed r x + dget d x < two64
    · simp only [h1, if_true] at h
      by_cases h2 : lastConsumed r x + dget d x > dget l x
      · simp only [h2, if_true] at h
        injection h with h; subst h
        exact ⟨[], rest, rfl, by simp, fun hf => by have := hf.2; omega⟩
      · simp only [h2, if_false] at h
        obtain ⟨pre, post, hs, hp, hn⟩ := ih h
        refine ⟨x :: pre, post, by simp [hs], ?_, hn⟩
        intro j hj
        rcases List.mem_cons.mp hj with rfl | hj
        · exact ⟨h1, by omega⟩
        · exact hp j hj
    · simp only [h1, if_false] at h
      injection h with h; subst h
      exact ⟨[], rest, rfl, by simp, fun hf => h1 hf.1⟩

theorem consumedIdx_lt {k : Nat} (hk : k < feeDimensions) : consumedIdx k < rawWords := by
  simp only [consumedIdx, rawWords, dimWords, windowSize, feeDimensions] at *; omega

theorem consumedIdx_inj {a b : Nat} (h : consumedIdx a = consumedIdx b) : a = b := by
  simp only [consumedIdx, dimWords, windowSize] at h; omega

theorem lastConsumed_set (r : Raw) (hr : r.length = rawWords) (i v k : Nat) (hi : i < feeDimensions) :
    lastConsumed (setLastConsumed r i v) k = if k = i then v else lastConsumed r k := by
  unfold lastConsumed setLastConsumed
  rw [getWord_set _ _ _ _ (by rw [hr]; exact consumedIdx_lt hi)]
  by_cases h : k = i
  · subst h; simp
  · have : ¬ consumedIdx i = consumedIdx k := fun e => h (consumedIdx_inj e).symm
    simp [h, this]

theorem getWord_setLastConsumed (r : Raw) (hr : r.length = rawWords) (i v j : Nat)
    (hi : i < feeDimensions) (hj : j ≠ consumedIdx i) :
    getWord (setLastConsumed r i v) j = getWord r j := by
  unfold setLastConsumed
  rw [getWord_set _ _ _ _ (by rw [hr]; exact consumedIdx_lt hi)]
  have : ¬ consumedIdx i = j := fun e => hj e.symm
  simp [this]

/-- the commit loop, when no addition overflows, adds `d` to exactly the listed dimensions -/
theorem consumeCommit_spec (d : Dims) (is : List Nat) (r : Raw) (hnd : is.Nodup)
    (his : ∀ i ∈ is, i < feeDimensions) (hr : r.length = rawWords)
    (hno : ∀ i ∈ is, lastConsumed r i + dget d i < two64) :
    ∃ r', consumeCommit d is r = (none, r') ∧ r'.length = rawWords ∧
      (∀ k, lastConsumed r' k = if k ∈ is then lastConsumed r k + dget d k else lastConsumed r k) ∧
      (∀ j, (∀ i ∈ is, j ≠ consumedIdx i) → getWord r' j = getWord r j) := by
  induction is generalizing r with
  | nil => exact ⟨r, rfl, hr, by simp, by simp⟩
  | cons i rest ih =>
    have hi := his i (List.mem_cons_self ..)
    have hnd' := (List.nodup_cons.mp hnd).2
    have hni : i ∉ rest := (List.nodup_cons.mp hnd).1
    have h1 := hno i (List.mem_cons_self ..)
    let r1 := setLastConsumed r i (lastConsumed r i + dget d i)
    have hr1 : r1.length = rawWords := by simp [r1, setLastConsumed, hr]
    have hno1 : ∀ j ∈ rest, lastConsumed r1 j + dget d j < two64 := by
      intro j hj
      have hne : j ≠ i := fun e => hni (e ▸ hj)
      simp only [r1, lastConsumed_set r hr i _ j hi, hne, if_false]
      exact hno j (List.mem_cons_of_mem _ hj)
    obtain ⟨r', hc, hlen, hk, hw⟩ := ih r1 hnd' (fun j hj => his j (List.mem_cons_of_mem _ hj)) hr1 hno1
    refine ⟨r', ?_, hlen, ?_, ?_⟩
    · simp only [consumeCommit, checkedAdd, h1, if_true]
      exact hc
    · intro k
      rw [hk k]
      simp only [r1, lastConsumed_set r hr i _ k hi, List.mem_cons]
      by_cases hki : k = i
      · subst hki; simp [hni]
      · simp [hki]
    · intro j hj
      rw [hw j (fun i' hi' => hj i' (List.mem_cons_of_mem _ hi'))]
      exact getWord_setLastConsumed r hr i _ j hi (hj i (List.mem_cons_self ..))

theorem range_fee_lt : ∀ i ∈ List.range feeDimensions, i < feeDimensions :=
  fun _ h => List.mem_range.mp h

/-- complete description of `Consume` on a well-sized manager -/
theorem consume_spec (r : Raw) (d l : Dims) (hr : r.length = rawWords) :
    ((∀ k, k < feeDimensions → Fits r d l k) ∧
      ∃ r', consume r d l = ((true, 0), r') ∧ r'.length = rawWords ∧
        (∀ k, k < feeDimensions → lastConsumed r' k = lastConsumed r k + dget d k) ∧
        (∀ j, (∀ k, k < feeDimensions → j ≠ consumedIdx k) → getWord r' j = getWord r j)) ∨
    (∃ i, i < feeDimensions ∧ ¬ Fits r d l i ∧ (∀ j, j < i → Fits r d l j) ∧
      consume r d l = ((false, i), r)) := by
  unfold consume
  cases hchk : consumeCheck r d l (List.range feeDimensions) with
  | none =>
    left
    have hfit := (consumeCheck_none r d l _).mp hchk
    refine ⟨fun k hk => hfit k (List.mem_range.mpr hk), ?_⟩
    obtain ⟨r', hc, hlen, hk, hw⟩ := consumeCommit_spec d (List.range feeDimensions) r
      List.nodup_range range_fee_lt hr (fun i hi => (hfit i hi).1)
    refine ⟨r', by simp [hc], hlen, ?_, ?_⟩
    · intro k hk'
      rw [hk k]; simp [List.mem_range.mpr hk']
    · intro j hj
      exact hw j (fun i hi => hj i (List.mem_range.mp hi))
  | some i =>
    right
    obtain ⟨pre, post, hs, hp, hn⟩ := consumeCheck_some r d l _ i hchk
    have hmem : i ∈ List.range feeDimensions := by rw [hs]; simp
    refine ⟨i, List.mem_range.mp hmem, hn, ?_, rfl⟩
    intro j hj
    apply hp
    -- the elements of `range n` before `i` are exactly the `j < i`
    have hsorted : (List.range feeDimensions).Pairwise (· < ·) := List.pairwise_lt_range
    rw [hs] at hsorted
    have hjmem : j ∈ pre ++ i :: post := by
      rw [← hs]; exact List.mem_range.mpr (Nat.lt_trans hj (List.mem_range.mp hmem))
    rcases List.mem_append.mp hjmem with h | h
    · exact h
    · exfalso
      have hpw := (List.pairwise_append.mp hsorted).2.1
      rcases List.mem_cons.mp h with rfl | h
      · omega
      · have := (List.pairwise_cons.mp hpw).1 j h
        omega

/-- exact sum, in dimension `k`, of the units of the transactions that were accepted -/
def acceptedSum (ds : List Dims) (oks : List Bool) (k : Nat) : Nat :=
  (((ds.zip oks).filter (·.2)).map fun p => dget p.1 k).sum

theorem acceptedSum_cons (d : Dims) (ds : List Dims) (ok : Bool) (oks : List Bool) (k : Nat) :
    acceptedSum (d :: ds) (ok :: oks) k = (if ok then dget d k else 0) + acceptedSum ds oks k := by
  cases ok <;> simp [acceptedSum]

theorem consumeAll_cons (l : Dims) (r : Raw) (d : Dims) (ds : List Dims) :
    consumeAll l r (d :: ds) =
      ((consumeAll l (consume r d l).2 ds).1, (consume r d l).1.1 :: (consumeAll l (consume r d l).2 ds).2) := by
  rfl

/-- a block: offering transactions one by one to a well-sized manager -/
theorem consumeAll_spec (l : Dims) (ds : List Dims) (r : Raw) (hr : r.length = rawWords) :
    (consumeAll l r ds).1.length = rawWords ∧ (consumeAll l r ds).2.length = ds.length ∧
    (∀ k, k < feeDimensions →
      lastConsumed (consumeAll l r ds).1 k = lastConsumed r k + acceptedSum ds (consumeAll l r ds).2 k) ∧
    ((∀ k, k < feeDimensions → lastConsumed r k ≤ dget l k) →
      ∀ k, k < feeDimensions → lastConsumed (consumeAll l r ds).1 k ≤ dget l k) ∧
    (∀ j, (∀ k, k < feeDimensions → j ≠ consumedIdx k) →
      getWord (consumeAll l r ds).1 j = getWord r j) := by
  induction ds generalizing r with
  | nil => simp [consumeAll, hr, acceptedSum]
  | cons d ds ih =>
    rw [consumeAll_cons]
    rcases consume_spec r d l hr with ⟨hfit, r', hc, hlen, hk, hw⟩ | ⟨i, _, _, _, hc⟩
    · obtain ⟨h1, h2, h3, h4, h5⟩ := ih r' hlen
      simp only [hc]
      refine ⟨h1, by simp [h2], ?_, ?_, ?_⟩
      · intro k hk'
        rw [h3 k hk', acceptedSum_cons, hk k hk']
        simp only [if_true]; omega
      · intro _ k hk'
        apply h4 _ k hk'
        intro k hk''
        rw [hk k hk'']
        exact (hfit k hk'').2
      · intro j hj
        rw [h5 j hj, hw j hj]
    · obtain ⟨h1, h2, h3, h4, h5⟩ := ih r hr
      simp only [hc]
      refine ⟨h1, by simp [h2], ?_, h4, h5⟩
      intro k hk'
      rw [h3 k hk', acceptedSum_cons]
      simp

/-- exact sum of component `k` over a list of unit vectors -/
def sumDims (ds : List Dims) (k : Nat) : Nat := (ds.map fun d => dget d k).sum

theorem sumDims_cons (d : Dims) (ds : List Dims) (k : Nat) :
    sumDims (d :: ds) k = dget d k + sumDims ds k := by simp [sumDims]

/-- a block that the processor's metering loop accepts -/
theorem processTxs_ok (l : Dims) (us : List (Except UnitsErr Dims)) (r r' : Raw)
    (hr : r.length = rawWords) (h : processTxs l r us = .ok r') :
    ∃ ds, us = ds.map Except.ok ∧ r'.length = rawWords ∧
      (∀ k, k < feeDimensions → lastConsumed r' k = lastConsumed r k + sumDims ds k) ∧
      ((∀ k, k < feeDimensions → lastConsumed r k ≤ dget l k) →
        ∀ k, k < feeDimensions → lastConsumed r' k ≤ dget l k) ∧
      (∀ j, (∀ k, k < feeDimensions → j ≠ consumedIdx k) → getWord r' j = getWord r j) := by
  induction us generalizing r with
  | nil =>
    simp only [processTxs] at h
    injection h with h; subst h
    exact ⟨[], rfl, hr, by simp [sumDims], fun h0 => h0, fun _ _ => rfl⟩
  | cons u rest ih =>
    cases u with
    | error e => simp [processTxs] at h
    | ok d =>
      unfold processTxs at h
      rcases consume_spec r d l hr with ⟨hfit, r1, hc, hlen, hk, hw⟩ | ⟨i, _, _, _, hc⟩
      · rw [hc] at h
        simp only at h
        obtain ⟨ds, hds, hl', hs, hle, hoth⟩ := ih r1 hlen h
        refine ⟨d :: ds, by simp [hds], hl', ?_, ?_, ?_⟩
        · intro k hk'
          rw [hs k hk', hk k hk', sumDims_cons]; omega
        · intro _ k hk'
          apply hle _ k hk'
          intro k hk''
          rw [hk k hk'']
          exact (hfit k hk'').2
        · intro j hj
          rw [hoth j hj, hw j hj]
      · rw [hc] at h
        simp at h

/-- the processor accepts a block of metered transactions exactly when, in every dimension,
consumption at the start plus the exact sum of all its transactions' units is within the
maximum; otherwise it is rejected with `ErrInvalidUnitsConsumed` for some dimension -/
theorem processTxs_accepts_iff (l : Dims) (ds : List Dims) (r : Raw) (hr : r.length = rawWords)
    (hl : ∀ k, k < feeDimensions → dget l k < two64)
    (h0 : ∀ k, k < feeDimensions → lastConsumed r k ≤ dget l k) :
    ((∃ r', processTxs l r (ds.map Except.ok) = .ok r') ↔
      ∀ k, k < feeDimensions → lastConsumed r k + sumDims ds k ≤ dget l k) ∧
    (∀ e, processTxs l r (ds.map Except.ok) = .error e → ∃ i, i < feeDimensions ∧ e = .tooLarge i) := by
  induction ds generalizing r with
  | nil =>
    refine ⟨?_, ?_⟩
    · simp only [List.map_nil, processTxs, sumDims, List.sum_nil, Nat.add_zero]
      exact ⟨fun _ => h0, fun _ => ⟨r, rfl⟩⟩
    · intro e he; simp [processTxs] at he
  | cons d ds ih =>
    simp only [List.map_cons]
    unfold processTxs
    rcases consume_spec r d l hr with ⟨hfit, r1, hc, hlen, hk, _⟩ | ⟨i, hi, hnf, _, hc⟩
    · rw [hc]
      simp only
      have h1 : ∀ k, k < feeDimensions → lastConsumed r1 k ≤ dget l k := by
        intro k hk'; rw [hk k hk']; exact (hfit k hk').2
      obtain ⟨ih1, ih2⟩ := ih r1 hlen h1
      refine ⟨?_, ih2⟩
      rw [ih1]
      constructor
      · intro h k hk'
        have := h k hk'
        rw [hk k hk'] at this
        rw [sumDims_cons]; omega
      · intro h k hk'
        have := h k hk'
        rw [sumDims_cons] at this
        rw [hk k hk']; omega
    · rw [hc]
      simp only
      refine ⟨?_, ?_⟩
      · constructor
        · rintro ⟨r', h⟩; cases h
        · intro h
          exfalso
          apply hnf
          have := h i hi
          rw [sumDims_cons] at this
          have hli := hl i hi
          exact ⟨by omega, by omega⟩
      · intro e he
        injection he with he
        exact ⟨i, hi, he.symm⟩

theorem acceptedSum_all_false (ds : List Dims) (k : Nat) :
    acceptedSum ds (ds.map fun _ => false) k = 0 := by
  induction ds with
  | nil => simp [acceptedSum]
  | cons d ds ih => rw [List.map_cons, acceptedSum_cons]; simp [ih]

/-- the builder's metering loop -/
theorem buildAll_spec (l target : Dims) (ds : List Dims) (r : Raw) (hr : r.length = rawWords) :
    (buildAll l target r ds).1.length = rawWords ∧ (buildAll l target r ds).2.length = ds.length ∧
    (∀ k, k < feeDimensions →
      lastConsumed (buildAll l target r ds).1 k
        = lastConsumed r k + acceptedSum ds (buildAll l target r ds).2 k) ∧
    ((∀ k, k < feeDimensions → lastConsumed r k ≤ dget l k) →
      ∀ k, k < feeDimensions → lastConsumed (buildAll l target r ds).1 k ≤ dget l k) ∧
    (∀ j, (∀ k, k < feeDimensions → j ≠ consumedIdx k) →
      getWord (buildAll l target r ds).1 j = getWord r j) := by
  induction ds generalizing r with
  | nil => simp [buildAll, hr, acceptedSum]
  | cons d ds ih =>
    unfold buildAll
    rcases consume_spec r d l hr with ⟨hfit, r1, hc, hlen, hk, hw⟩ | ⟨i, _, _, _, hc⟩
    · rw [hc]
      simp only
      obtain ⟨h1, h2, h3, h4, h5⟩ := ih r1 hlen
      refine ⟨h1, by simp [h2], ?_, ?_, ?_⟩
      · intro k hk'
        rw [h3 k hk', acceptedSum_cons, hk k hk']
        simp only [if_true]; omega
      · intro _ k hk'
        apply h4 _ k hk'
        intro k hk''
        rw [hk k hk'']
        exact (hfit k hk'').2
      · intro j hj
        rw [h5 j hj, hw j hj]
    · rw [hc]
      simp only
      split
      · refine ⟨hr, by simp, ?_, fun h0 => h0, fun _ _ => rfl⟩
        intro k _
        rw [acceptedSum_cons, acceptedSum_all_false]
        simp
      · obtain ⟨h1, h2, h3, h4, h5⟩ := ih r hr
        refine ⟨h1, by simp [h2], ?_, h4, h5⟩
        intro k hk'
        rw [h3 k hk', acceptedSum_cons]
        simp

/-! ### the manager a block starts from -/

theorem computeNextDims_shape (r : Raw) (targets denoms mins : Dims) (since : Nat) (ds : List Nat) (out : Raw)
    (h : computeNextDims r targets denoms mins since ds = some out) :
    ∃ sts : List DimState, out = encodeDims sts ∧ sts.length = ds.length ∧ ∀ s ∈ sts, s.consumed = 0 := by
  induction ds generalizing out with
  | nil =>
    simp only [computeNextDims] at h
    injection h with h; subst h
    exact ⟨[], rfl, rfl, by simp⟩
  | cons d rest ih =>
    unfold computeNextDims at h
    split at h
    · cases h
    · rename_i p nw _
      split at h
      · cases h
      · rename_i tail htail
        injection h with h; subst h
        obtain ⟨sts, h1, h2, h3⟩ := ih tail htail
        refine ⟨{ price := p, window := nw, consumed := 0 } :: sts, by simp [encodeDims, h1], by simp [h2], ?_⟩
        intro s hs
        rcases List.mem_cons.mp hs with rfl | hs
        · rfl
        · exact h3 s hs

theorem computeNext_consumed_zero (r : Raw) (t : Int) (targets denoms mins : Dims) (r' : Raw)
    (h : computeNext r t targets denoms mins = some r') :
    r'.length = rawWords ∧ ∀ k, k < feeDimensions → lastConsumed r' k = 0 := by
  unfold computeNext at h
  simp only at h
  split at h
  · cases h
  · rename_i ds hds
    injection h with h; subst h
    obtain ⟨sts, h1, h2, h3⟩ := computeNextDims_shape _ _ _ _ _ _ _ hds
    subst h1
    match sts, h2, h3 with
    | [s0, s1, s2, s3, s4], _, h3 =>
      have e0 := h3 s0 (by simp); have e1 := h3 s1 (by simp); have e2 := h3 s2 (by simp)
      have e3 := h3 s3 (by simp); have e4 := h3 s4 (by simp)
      refine ⟨by simp [encodeDims, encodeDim, rawWords, feeDimensions, dimWords, windowSize], ?_⟩
      intro k hk
      have hk' : k = 0 ∨ k = 1 ∨ k = 2 ∨ k = 3 ∨ k = 4 := by simp only [feeDimensions] at hk; omega
      rcases hk' with rfl | rfl | rfl | rfl | rfl
      · exact e0
      · exact e1
      · exact e2
      · exact e3
      · exact e4

end HyperModel.UnitsProofs
