import HyperModel.Model.ChainIndex
/-! Lemmas for C19 (block index window). -/
namespace HyperModel.ChainIndexProofs
open HyperModel.ChainIndex

/-! ## association lists -/
section alist
variable {α β : Type} [DecidableEq α]

@[simp] theorem aget_adel_self (k : α) (m : AList α β) : aget k (adel k m) = none := by
  induction m with
  | nil => rfl
  | cons p r ih =>
    obtain ⟨k', v⟩ := p
    by_cases h : k' = k <;> simp [adel, aget, h, ih]

theorem aget_adel_ne {j k : α} (h : j ≠ k) (m : AList α β) : aget j (adel k m) = aget j m := by
  induction m with
  | nil => rfl
  | cons p r ih =>
    obtain ⟨k', v⟩ := p
    by_cases h1 : k' = k
    · subst h1
      have : ¬ k' = j := fun e => h e.symm
      simp [adel, aget, ih, this]
    · by_cases h2 : k' = j
      · subst h2; simp [adel, aget, h1]
      · simp [adel, aget, h1, h2, ih]

@[simp] theorem aget_aput_self (k : α) (v : β) (m : AList α β) : aget k (aput k v m) = some v := by
  simp [aput, aget]

theorem aget_aput_ne {j k : α} (h : j ≠ k) (v : β) (m : AList α β) :
    aget j (aput k v m) = aget j m := by
  have : ¬ k = j := fun e => h e.symm
  simp [aput, aget, this, aget_adel_ne h]

theorem aget_aput (j k : α) (v : β) (m : AList α β) :
    aget j (aput k v m) = if j = k then some v else aget j m := by
  by_cases h : j = k
  · subst h; simp
  · simp [h, aget_aput_ne h]

theorem aget_adel (j k : α) (m : AList α β) :
    aget j (adel k m) = if j = k then none else aget j m := by
  by_cases h : j = k
  · subst h; simp
  · simp [h, aget_adel_ne h]

theorem mem_akeys_iff (k : α) (m : AList α β) : k ∈ akeys m ↔ aget k m ≠ none := by
  induction m with
  | nil => simp [akeys, aget]
  | cons p r ih =>
    obtain ⟨k', v⟩ := p
    by_cases h : k' = k
    · simp [akeys, aget, h]
    · have h' : ¬ k = k' := fun e => h e.symm
      simp only [akeys] at ih
      simp [akeys, aget, h, h', ih]

theorem akeys_adel (k : α) (m : AList α β) : akeys (adel k m) = (akeys m).filter (· ≠ k) := by
  induction m with
  | nil => rfl
  | cons p r ih =>
    obtain ⟨k', v⟩ := p
    simp only [akeys] at ih
    by_cases h : k' = k <;> simp [adel, akeys, h, ih]

theorem nodup_akeys_adel (k : α) (m : AList α β) (h : (akeys m).Nodup) : (akeys (adel k m)).Nodup := by
  rw [akeys_adel]; exact h.sublist List.filter_sublist

theorem nodup_akeys_aput (k : α) (v : β) (m : AList α β) (h : (akeys m).Nodup) :
    (akeys (aput k v m)).Nodup := by
  have h1 := nodup_akeys_adel k m h
  have h2 : k ∉ akeys (adel k m) := by rw [mem_akeys_iff]; simp
  simp only [aput, akeys, List.map_cons] at *
  exact List.nodup_cons.mpr ⟨h2, h1⟩

end alist

/-! ## uint64 subtraction -/

theorem prune_cond {h w : Nat} (hh : h < two64) (hw : w < two64) :
    ¬ (w = 0 ∨ sub64 h w = 0 ∨ sub64 h w ≥ h) ↔ (0 < w ∧ w < h) := by
  simp only [sub64, two64] at *
  omega

theorem sub64_eq {h w : Nat} (hh : h < two64) (hw : w ≤ h) : sub64 h w = h - w := by
  simp only [sub64, two64] at *
  omega


/-! ## the chain, the consistency invariant -/

/-- The accepted chain: one block per height, ids identify blocks (hash injectivity). -/
structure Chain (chain : Nat → Block) : Prop where
  height : ∀ h, (chain h).height = h
  idInj : ∀ h h', (chain h).id = (chain h').id → h = h'

/-- The three tables describe the same set of blocks of the chain. -/
structure Inv (chain : Nat → Block) (db : DB) : Prop where
  i1 : ∀ h id, aget h db.hId = some id → id = (chain h).id
  i2 : ∀ h, aget h db.blk = (aget h db.hId).map (fun _ => (chain h).bytes)
  i3 : ∀ id h, aget id db.idH = some h ↔ aget h db.hId = some id

/-- `writeBlock` applied -/
def wr (db : DB) (b : Block) : DB :=
  { db with idH := aput b.id b.height db.idH, hId := aput b.height b.id db.hId,
            blk := aput b.height b.bytes db.blk }

/-- the three deletions applied -/
def dl (db : DB) (e : Nat) (did : Bytes) : DB :=
  { db with blk := adel e db.blk, idH := adel did db.idH, hId := adel e db.hId }

theorem applyBatch_append (db : DB) (a b : List BOp) :
    applyBatch db (a ++ b) = applyBatch (applyBatch db a) b := by
  simp [applyBatch, List.foldl_append]

theorem applyBatch_writeBlock (db : DB) (b : Block) : applyBatch db (writeBlock b) = wr db b := rfl

theorem applyBatch_delBlock (db : DB) (e : Nat) (did : Bytes) :
    applyBatch db (delBlock e did) = dl db e did := rfl

theorem applyBatch_putLast_writeBlock (db : DB) (h : Nat) (b : Block) :
    applyBatch db (BOp.putLast h :: writeBlock b) = wr { db with last := some h } b := rfl

theorem inv_setLast {chain db} (l : Option Nat) (h : Inv chain db) : Inv chain { db with last := l } :=
  ⟨h.i1, h.i2, h.i3⟩

theorem inv_wr {chain : Nat → Block} (hc : Chain chain) {db : DB} (hi : Inv chain db) (h : Nat) :
    Inv chain (wr db (chain h)) := by
  have hh := hc.height h
  refine ⟨?_, ?_, ?_⟩
  · intro h' id
    simp only [wr, hh, aget_aput]
    by_cases e : h' = h
    · subst e; simp; intro e; exact e.symm
    · simp [e]; exact hi.i1 h' id
  · intro h'
    simp only [wr, hh, aget_aput]
    by_cases e : h' = h
    · subst e; simp
    · simp [e]; exact hi.i2 h'
  · intro id h'
    simp only [wr, hh, aget_aput]
    by_cases e1 : id = (chain h).id
    · subst e1
      by_cases e2 : h' = h
      · subst e2; simp
      · have e2' : ¬ h = h' := fun e => e2 e.symm
        simp [e2, e2']
        intro hx
        exact e2 (hc.idInj _ _ (hi.i1 _ _ hx)).symm
    · by_cases e2 : h' = h
      · subst e2
        have e1' : ¬ (chain h').id = id := fun e => e1 e.symm
        simp [e1, e1']
        intro hx
        exact e1 (hi.i1 _ _ ((hi.i3 _ _).mp hx))
      · simp [e1, e2]; exact hi.i3 id h'

theorem inv_dl {chain : Nat → Block} (hc : Chain chain) {db : DB} (hi : Inv chain db) (e : Nat) :
    Inv chain (dl db e (chain e).id) := by
  refine ⟨?_, ?_, ?_⟩
  · intro h' id
    simp only [dl, aget_adel]
    by_cases e1 : h' = e
    · simp [e1]
    · simp [e1]; exact hi.i1 h' id
  · intro h'
    simp only [dl, aget_adel]
    by_cases e1 : h' = e
    · simp [e1]
    · simp [e1]; exact hi.i2 h'
  · intro id h'
    simp only [dl, aget_adel]
    by_cases e1 : id = (chain e).id
    · subst e1
      by_cases e2 : h' = e
      · simp [e2]
      · simp [e2]
        intro hx
        exact e2 (hc.idInj _ _ (hi.i1 _ _ hx)).symm
    · by_cases e2 : h' = e
      · subst e2
        simp [e1]
        intro hx
        exact e1 (hi.i1 _ _ ((hi.i3 _ _).mp hx))
      · simp [e1, e2]; exact hi.i3 id h'

/-- a height is stored -/
def Stored (db : DB) (h : Nat) : Prop := aget h db.hId ≠ none

theorem stored_wr (db : DB) (b : Block) (x : Nat) : Stored (wr db b) x ↔ x = b.height ∨ Stored db x := by
  simp only [Stored, wr, aget_aput]
  by_cases e : x = b.height <;> simp [e]

theorem stored_dl (db : DB) (e : Nat) (did : Bytes) (x : Nat) :
    Stored (dl db e did) x ↔ x ≠ e ∧ Stored db x := by
  simp only [Stored, dl, aget_adel]
  by_cases h : x = e <;> simp [h]

theorem stored_setLast (db : DB) (l : Option Nat) (x : Nat) :
    Stored { db with last := l } x ↔ Stored db x := Iff.rfl

/-- everything the getters return about a stored height -/
theorem getters_of_stored {chain : Nat → Block} {c : CI} (hi : Inv chain c.db) {h : Nat}
    (hs : Stored c.db h) :
    getBlockByHeight c h = some (chain h).bytes ∧ getBlockIDAtHeight c h = some (chain h).id ∧
    getBlockIDHeight c (chain h).id = some h ∧ getBlock c (chain h).id = some (chain h).bytes := by
  unfold Stored at hs
  obtain ⟨id, hid⟩ := Option.ne_none_iff_exists'.mp hs
  have e := hi.i1 h id hid
  subst e
  have h2 := hi.i2 h
  rw [hid] at h2
  have h3 := (hi.i3 _ _).mpr hid
  refine ⟨h2, hid, h3, ?_⟩
  simp only [getBlock, getBlockIDHeight, h3, getBlockByHeight]
  exact h2


/-! ## the cleanup loop -/

/-- heights deleted by the cleanup loop over the iterator's heights `hs` -/
def victims (thr : Nat) (hs : List Nat) : List Nat := (hs.takeWhile (· < thr)).filter (· ≠ 0)

/-- deleting a list of blocks of the chain -/
def dls (chain : Nat → Block) (db : DB) (vs : List Nat) : DB :=
  vs.foldl (fun d h => dl d h (chain h).id) db

theorem applyBatch_dls (chain : Nat → Block) (db : DB) (vs : List Nat) :
    applyBatch db (vs.flatMap fun h => delBlock h (chain h).id) = dls chain db vs := by
  induction vs generalizing db with
  | nil => rfl
  | cons v r ih =>
    simp only [List.flatMap_cons, applyBatch_append, applyBatch_delBlock, dls, List.foldl_cons]
    exact ih _

theorem inv_dls {chain : Nat → Block} (hc : Chain chain) {db : DB} (hi : Inv chain db) (vs : List Nat) :
    Inv chain (dls chain db vs) := by
  induction vs generalizing db with
  | nil => exact hi
  | cons v r ih => exact ih (inv_dl hc hi v)

theorem stored_dls (chain : Nat → Block) (db : DB) (vs : List Nat) (x : Nat) :
    Stored (dls chain db vs) x ↔ x ∉ vs ∧ Stored db x := by
  induction vs generalizing db with
  | nil => simp [dls]
  | cons v r ih =>
    simp only [dls, List.foldl_cons] at *
    rw [ih, stored_dl]
    simp only [List.mem_cons, not_or]
    constructor
    · rintro ⟨a, b, c⟩; exact ⟨⟨b, a⟩, c⟩
    · rintro ⟨⟨a, b⟩, c⟩; exact ⟨b, a, c⟩

theorem last_dls (chain : Nat → Block) (db : DB) (vs : List Nat) : (dls chain db vs).last = db.last := by
  induction vs generalizing db with
  | nil => rfl
  | cons v r ih => simp only [dls, List.foldl_cons] at *; rw [ih]; rfl

theorem cleanupLoop_eq {chain : Nat → Block} {db : DB} (hi : Inv chain db) (thr : Nat)
    (hs : List Nat) (hst : ∀ h ∈ hs, Stored db h) (acc : List BOp) :
    cleanupLoop db thr hs acc
      = some (acc ++ (victims thr hs).flatMap fun h => delBlock h (chain h).id) := by
  induction hs generalizing acc with
  | nil => simp [cleanupLoop, victims]
  | cons h r ih =>
    have ihr := ih (fun x hx => hst x (List.mem_cons_of_mem _ hx))
    unfold cleanupLoop
    by_cases h1 : h ≥ thr
    · have : ¬ h < thr := by omega
      simp [h1, victims, List.takeWhile_cons, this]
    · have h1' : h < thr := by omega
      by_cases h2 : h = 0
      · simp only [h1, h2, if_true, if_false]
        rw [ihr]
        subst h2
        have : thr ≠ 0 := by omega
        simp [victims, h1', this]
      · have hs := hst h List.mem_cons_self
        unfold Stored at hs
        obtain ⟨id, hid⟩ := Option.ne_none_iff_exists'.mp hs
        have e := hi.i1 h id hid
        simp only [h1, h2, if_false, hid]
        rw [ihr]
        simp [victims, List.takeWhile_cons, h1', h2, List.filter_cons, e, List.append_assoc]

theorem mem_takeWhile {p : Nat → Bool} {l : List Nat} {x : Nat} (h : x ∈ l.takeWhile p) :
    p x = true ∧ x ∈ l := by
  induction l with
  | nil => simp at h
  | cons a r ih =>
    rw [List.takeWhile_cons] at h
    by_cases hp : p a = true
    · simp only [hp, if_true, List.mem_cons] at h
      rcases h with h | h
      · subst h; exact ⟨hp, List.mem_cons_self⟩
      · exact ⟨(ih h).1, List.mem_cons_of_mem _ (ih h).2⟩
    · simp [hp] at h

theorem mem_victims {thr : Nat} {hs : List Nat} {x : Nat} (h : x ∈ victims thr hs) :
    x < thr ∧ x ≠ 0 ∧ x ∈ hs := by
  simp only [victims, List.mem_filter] at h
  obtain ⟨h1, h2⟩ := h
  have := mem_takeWhile h1
  exact ⟨by simpa using this.1, by simpa using h2, this.2⟩

theorem mem_insertSorted (x a : Nat) (l : List Nat) : x ∈ insertSorted a l ↔ x = a ∨ x ∈ l := by
  induction l with
  | nil => simp [insertSorted]
  | cons b r ih =>
    unfold insertSorted
    by_cases h : a ≤ b
    · simp [h]
    · simp [h, ih]; constructor
      · rintro (h | h | h) <;> simp [h]
      · rintro (h | h | h) <;> simp [h]

theorem mem_sortNat (x : Nat) (l : List Nat) : x ∈ sortNat l ↔ x ∈ l := by
  induction l with
  | nil => simp [sortNat]
  | cons a r ih => simp [sortNat, mem_insertSorted, ih]

/-! ## histories -/

/-- one step of a history over the chain -/
inductive HOp
  | accept (h : Nat)
  | save (h : Nat)
  | restart (w : Nat)
deriving DecidableEq, Repr

/-- heights and windows are uint64 values -/
def HOp.ok64 : HOp → Prop
  | .accept h => h < two64
  | .save h => h < two64
  | .restart w => w < two64

/-- the repaired code (`fixed = true`) -/
def stepH (chain : Nat → Block) (c : CI) : HOp → CI × Res
  | .accept h => updateLastAccepted true c (chain h)
  | .save h => saveHistorical c (chain h)
  | .restart w => new w c.db

def runH (chain : Nat → Block) (c : CI) (ops : List HOp) : CI :=
  ops.foldl (fun c op => (stepH chain c op).1) c

/-- the results of all operations of a history -/
def outsH (chain : Nat → Block) : CI → List HOp → List Res
  | _, [] => []
  | c, op :: r => (stepH chain c op).2 :: outsH chain (stepH chain c op).1 r

/-- `New` on an empty database -/
def init (w : Nat) : CI := { w := w, db := {} }

theorem inv_init (chain : Nat → Block) (w : Nat) : Inv chain (init w).db :=
  ⟨by intro h id; simp [init, aget], by intro h; simp [init, aget], by intro id h; simp [init, aget]⟩

theorem ula_noprune (f : Bool) (c : CI) (b : Block)
    (hp : c.w = 0 ∨ sub64 b.height c.w = 0 ∨ sub64 b.height c.w ≥ b.height) :
    updateLastAccepted f c b = ({ c with db := wr { c.db with last := some b.height } b }, .ok) := by
  unfold updateLastAccepted
  simp only [hp, if_true, applyBatch_putLast_writeBlock]

theorem ula_prune_none (c : CI) (b : Block)
    (hp : ¬ (c.w = 0 ∨ sub64 b.height c.w = 0 ∨ sub64 b.height c.w ≥ b.height))
    (hg : aget (sub64 b.height c.w) c.db.hId = none) :
    updateLastAccepted true c b = ({ c with db := wr { c.db with last := some b.height } b }, .ok) := by
  unfold updateLastAccepted
  simp only [hp, if_false, getBlockIDAtHeight, hg, if_true, applyBatch_putLast_writeBlock]

theorem ula_prune_none_orig (c : CI) (b : Block)
    (hp : ¬ (c.w = 0 ∨ sub64 b.height c.w = 0 ∨ sub64 b.height c.w ≥ b.height))
    (hg : aget (sub64 b.height c.w) c.db.hId = none) :
    updateLastAccepted false c b = (c, .notfound) := by
  unfold updateLastAccepted
  simp [hp, getBlockIDAtHeight, hg]

theorem ula_prune_some (f : Bool) (c : CI) (b : Block) (did : Bytes)
    (hp : ¬ (c.w = 0 ∨ sub64 b.height c.w = 0 ∨ sub64 b.height c.w ≥ b.height))
    (hg : aget (sub64 b.height c.w) c.db.hId = some did) :
    updateLastAccepted f c b =
      ({ c with db := dl (wr { c.db with last := some b.height } b) (sub64 b.height c.w) did }, .ok) := by
  unfold updateLastAccepted
  simp only [hp, if_false, getBlockIDAtHeight, hg, applyBatch_append, applyBatch_putLast_writeBlock,
    applyBatch_delBlock]

theorem accept_spec {chain : Nat → Block} (hc : Chain chain) (c : CI) (hi : Inv chain c.db)
    (hw : c.w < two64) (h : Nat) (hh : h < two64) :
    (updateLastAccepted true c (chain h)).2 = .ok ∧
    (updateLastAccepted true c (chain h)).1.w = c.w ∧
    Inv chain (updateLastAccepted true c (chain h)).1.db ∧
    (updateLastAccepted true c (chain h)).1.db.last = some h ∧
    (∀ x, Stored (updateLastAccepted true c (chain h)).1.db x ↔
      (x = h ∨ Stored c.db x) ∧ ¬ (0 < c.w ∧ c.w < h ∧ x = h - c.w)) := by
  have hh' := hc.height h
  have hwr : Inv chain (wr { c.db with last := some h } (chain h)) := inv_wr hc (inv_setLast _ hi) h
  have hst : ∀ x, Stored (wr { c.db with last := some h } (chain h)) x ↔ (x = h ∨ Stored c.db x) := by
    intro x; rw [stored_wr, hh']; exact Iff.rfl
  by_cases hp : (c.w = 0 ∨ sub64 (chain h).height c.w = 0 ∨ sub64 (chain h).height c.w ≥ (chain h).height)
  · rw [ula_noprune _ _ _ hp]
    rw [hh'] at hp
    have hnp : ¬ (0 < c.w ∧ c.w < h) := fun x => ((prune_cond hh hw).mpr x) hp
    rw [hh']
    refine ⟨rfl, rfl, hwr, rfl, ?_⟩
    intro x; rw [hst]
    constructor
    · intro hx; exact ⟨hx, fun ⟨a, b, _⟩ => hnp ⟨a, b⟩⟩
    · intro hx; exact hx.1
  · have hp' := hp
    rw [hh'] at hp'
    have hpr := (prune_cond hh hw).mp hp'
    have hsub : sub64 (chain h).height c.w = h - c.w := by rw [hh']; exact sub64_eq hh (by omega)
    cases hg : aget (sub64 (chain h).height c.w) c.db.hId with
    | none =>
      rw [ula_prune_none _ _ hp hg]
      rw [hh']
      refine ⟨rfl, rfl, hwr, rfl, ?_⟩
      intro x; rw [hst]
      constructor
      · intro hx
        refine ⟨hx, fun ⟨_, _, e⟩ => ?_⟩
        subst e
        rcases hx with hx | hx
        · omega
        · rw [hsub] at hg; exact hx hg
      · intro hx; exact hx.1
    | some did =>
      rw [ula_prune_some _ _ _ _ hp hg]
      rw [hsub] at hg
      have e := hi.i1 _ _ hg
      subst e
      rw [hsub, hh']
      refine ⟨rfl, rfl, inv_dl hc hwr _, rfl, ?_⟩
      intro x; rw [stored_dl, hst]
      constructor
      · rintro ⟨a, b⟩; exact ⟨b, fun ⟨_, _, e⟩ => a e⟩
      · rintro ⟨a, b⟩; exact ⟨fun e => b ⟨hpr.1, hpr.2, e⟩, a⟩

theorem save_spec {chain : Nat → Block} (hc : Chain chain) (c : CI) (hi : Inv chain c.db) (h : Nat) :
    (saveHistorical c (chain h)).2 = .ok ∧ (saveHistorical c (chain h)).1.w = c.w ∧
    Inv chain (saveHistorical c (chain h)).1.db ∧
    (saveHistorical c (chain h)).1.db.last = c.db.last ∧
    (∀ x, Stored (saveHistorical c (chain h)).1.db x ↔ (x = h ∨ Stored c.db x)) := by
  unfold saveHistorical
  simp only [applyBatch_writeBlock]
  refine ⟨by trivial, by trivial, inv_wr hc hi h, by trivial, ?_⟩
  intro x; rw [stored_wr, hc.height h]

/-- the threshold below which `cleanupOnStartup` deletes; `none` = nothing to clean -/
def cleanupThr (w : Nat) (last : Option Nat) : Option Nat :=
  if w = 0 ∨ last.getD 0 ≤ w then none else some (last.getD 0 - w)

theorem restart_spec {chain : Nat → Block} (hc : Chain chain) (c : CI) (hi : Inv chain c.db) (w : Nat) :
    (new w c.db).2 = .ok ∧ (new w c.db).1.w = w ∧ Inv chain (new w c.db).1.db ∧
    (new w c.db).1.db.last = c.db.last ∧
    (∀ x, Stored (new w c.db).1.db x ↔
      Stored c.db x ∧ ∀ thr, cleanupThr w c.db.last = some thr →
        x ∉ victims thr (sortNat (akeys c.db.hId))) := by
  unfold new cleanupOnStartup
  simp only [getLast]
  by_cases hp : (w = 0 ∨ c.db.last.getD 0 ≤ w)
  · simp only [hp, if_true]
    refine ⟨by trivial, by trivial, hi, by trivial, ?_⟩
    intro x
    simp [cleanupThr, hp]
  · simp only [hp, if_false]
    have hst : ∀ h ∈ sortNat (akeys c.db.hId), Stored c.db h := by
      intro h hm
      rw [mem_sortNat, mem_akeys_iff] at hm
      exact hm
    rw [cleanupLoop_eq hi _ _ hst []]
    simp only [List.nil_append, applyBatch_dls]
    refine ⟨by trivial, by trivial, inv_dls hc hi _, last_dls _ _ _, ?_⟩
    intro x
    rw [stored_dls]
    simp only [cleanupThr, hp, if_false, Option.some.injEq]
    constructor
    · rintro ⟨a, b⟩; exact ⟨b, fun thr e => e ▸ a⟩
    · rintro ⟨a, b⟩; exact ⟨b _ rfl, a⟩


/-! ## the startup iterator is sorted: everything below the threshold is deleted -/

theorem pairwise_insertSorted (a : Nat) (l : List Nat) (h : l.Pairwise (· ≤ ·)) :
    (insertSorted a l).Pairwise (· ≤ ·) := by
  induction l with
  | nil => simp [insertSorted]
  | cons b r ih =>
    have hb := List.pairwise_cons.mp h
    unfold insertSorted
    by_cases hab : a ≤ b
    · simp only [hab, if_true]
      refine List.pairwise_cons.mpr ⟨?_, h⟩
      intro x hx
      simp only [List.mem_cons] at hx
      rcases hx with hx | hx
      · omega
      · have := hb.1 x hx; omega
    · simp only [hab, if_false]
      refine List.pairwise_cons.mpr ⟨?_, ih hb.2⟩
      intro x hx
      rw [mem_insertSorted] at hx
      rcases hx with hx | hx
      · omega
      · exact hb.1 x hx

theorem pairwise_sortNat (l : List Nat) : (sortNat l).Pairwise (· ≤ ·) := by
  induction l with
  | nil => simp [sortNat]
  | cons a r ih => exact pairwise_insertSorted a _ ih

theorem mem_takeWhile_of_sorted {l : List Nat} (hl : l.Pairwise (· ≤ ·)) {x thr : Nat}
    (hx : x ∈ l) (hlt : x < thr) : x ∈ l.takeWhile (· < thr) := by
  induction l with
  | nil => simp at hx
  | cons a r ih =>
    have ha := List.pairwise_cons.mp hl
    simp only [List.mem_cons] at hx
    have hathr : a < thr := by
      rcases hx with hx | hx
      · omega
      · have := ha.1 x hx; omega
    rw [List.takeWhile_cons]
    simp only [hathr, decide_true, if_true, List.mem_cons]
    rcases hx with hx | hx
    · exact Or.inl hx
    · exact Or.inr (ih ha.2 hx)

theorem mem_victims_iff {thr : Nat} {hs : List Nat} (hsorted : hs.Pairwise (· ≤ ·)) {x : Nat} :
    x ∈ victims thr hs ↔ x < thr ∧ x ≠ 0 ∧ x ∈ hs := by
  constructor
  · exact mem_victims
  · rintro ⟨a, b, c⟩
    simp only [victims, List.mem_filter]
    exact ⟨mem_takeWhile_of_sorted hsorted c a, by simpa using b⟩

/-- exact effect of a restart on the set of stored heights -/
theorem restart_stored {chain : Nat → Block} (hc : Chain chain) (c : CI) (hi : Inv chain c.db) (w : Nat)
    (x : Nat) :
    Stored (new w c.db).1.db x ↔
      Stored c.db x ∧ ∀ thr, cleanupThr w c.db.last = some thr → ¬ (x < thr ∧ x ≠ 0) := by
  rw [(restart_spec hc c hi w).2.2.2.2 x]
  constructor
  · rintro ⟨a, b⟩
    refine ⟨a, fun thr ht hx => b thr ht ?_⟩
    rw [mem_victims_iff (pairwise_sortNat _)]
    refine ⟨hx.1, hx.2, ?_⟩
    rw [mem_sortNat, mem_akeys_iff]; exact a
  · rintro ⟨a, b⟩
    refine ⟨a, fun thr ht hv => b thr ht ?_⟩
    have := mem_victims hv
    exact ⟨this.1, this.2.1⟩

/-! ## keys stay duplicate free; counting -/

def NodupKeys (db : DB) : Prop := (akeys db.hId).Nodup

theorem nodup_applyOp (db : DB) (op : BOp) (h : NodupKeys db) : NodupKeys (applyOp db op) := by
  cases op <;> simp only [applyOp, NodupKeys] at * <;> first
    | exact h
    | exact nodup_akeys_aput _ _ _ h
    | exact nodup_akeys_adel _ _ h

theorem nodup_applyBatch (db : DB) (ops : List BOp) (h : NodupKeys db) : NodupKeys (applyBatch db ops) := by
  induction ops generalizing db with
  | nil => exact h
  | cons op r ih => exact ih _ (nodup_applyOp db op h)

theorem nodup_step (chain : Nat → Block) (c : CI) (op : HOp) (h : NodupKeys c.db) :
    NodupKeys (stepH chain c op).1.db := by
  cases op with
  | accept x =>
    simp only [stepH, updateLastAccepted]
    split
    · exact nodup_applyBatch _ _ h
    · split
      · simp only [if_true]; exact nodup_applyBatch _ _ h
      · exact nodup_applyBatch _ _ h
  | save x => exact nodup_applyBatch _ _ h
  | restart w =>
    simp only [stepH, new, cleanupOnStartup]
    split
    · exact h
    · split
      · exact h
      · exact nodup_applyBatch _ _ h

theorem length_filter_ne_of_nodup (l : List Nat) (v : Nat) (h : l.Nodup) :
    l.length ≤ (l.filter (· ≠ v)).length + 1 := by
  induction l with
  | nil => simp
  | cons a r ih =>
    have ha := List.nodup_cons.mp h
    have ihr := ih ha.2
    rw [List.filter_cons]
    by_cases e : a = v
    · have hd : decide (a ≠ v) = false := by simp [e]
      rw [hd]
      simp only [Bool.false_eq_true, if_false, List.length_cons]
      have : r.filter (fun x => decide (x ≠ v)) = r := by
        apply List.filter_eq_self.mpr
        intro x hx
        have : x ≠ v := fun e' => ha.1 (e ▸ e' ▸ hx)
        exact decide_eq_true this
      rw [this]
      omega
    · have hd : decide (a ≠ v) = true := decide_eq_true e
      rw [hd]
      simp only [if_true, List.length_cons]
      omega

/-- pigeonhole: a duplicate-free list of naturals inside `[lo, lo+n)` has at most `n` elements -/
theorem length_le_of_nodup_range (n : Nat) : ∀ (lo : Nat) (l : List Nat), l.Nodup →
    (∀ x ∈ l, lo ≤ x ∧ x < lo + n) → l.length ≤ n := by
  induction n with
  | zero =>
    intro lo l _ hb
    cases l with
    | nil => simp
    | cons a r => have := hb a List.mem_cons_self; omega
  | succ n ih =>
    intro lo l hn hb
    have h1 := length_filter_ne_of_nodup l (lo + n) hn
    have h2 : (l.filter (· ≠ lo + n)).length ≤ n := by
      apply ih lo _ (hn.sublist List.filter_sublist)
      intro x hx
      simp only [List.mem_filter, ne_eq, decide_not, Bool.not_eq_eq_eq_not, Bool.not_true,
        decide_eq_false_iff_not] at hx
      have := hb x hx.1
      omega
    omega

end HyperModel.ChainIndexProofs
