import HyperModel.Model.BlockExec
/-!
Lemmas for C01/C02: access confinement of the tx interpreter, the indexed form of the
sequential execution (`sd`, `cons`, `resultAt`), and the inductive invariant of the parallel
step relation.
-/
namespace HyperModel.BlockExecProofs
open HyperModel.BlockExec

/-! ## permissions -/

theorem hasPerm_zero_read : hasPerm 0 pRead = false := by decide
theorem hasPerm_zero_write : hasPerm 0 pWrite = false := by decide
theorem hasPerm_read_write : hasPerm pRead pWrite = false := by decide

/-- keys for which some scope check of the view can pass -/
def Acc (t : Tx) (k : Key) : Prop :=
  hasPerm (t.perm k) pRead = true ∨ hasPerm (t.perm k) pWrite = true

theorem declared_of_perm_ne_zero {t : Tx} {k : Key} (h : t.perm k ≠ 0) : t.declared k = true := by
  unfold Tx.perm at h
  unfold Tx.declared
  cases hl : t.keys.lookup k with
  | none => simp [hl] at h
  | some p => simp

theorem declared_of_acc {t : Tx} {k : Key} (h : Acc t k) : t.declared k = true := by
  apply declared_of_perm_ne_zero
  intro h0
  rcases h with h | h
  · rw [h0, hasPerm_zero_read] at h; cases h
  · rw [h0, hasPerm_zero_write] at h; cases h

theorem write_not_read {t : Tx} {k : Key} (h : hasPerm (t.perm k) pWrite = true) : t.perm k ≠ pRead := by
  intro h1
  rw [h1, hasPerm_read_write] at h; cases h

/-- a tx that may write `k` conflicts with every tx that can access `k` -/
theorem conflict_of_write_acc {a b : Tx} {k : Key}
    (ha : hasPerm (a.perm k) pWrite = true) (hb : Acc b k) : conflict a b ∧ conflict b a := by
  have da := declared_of_acc (Or.inr ha : Acc a k)
  have db := declared_of_acc hb
  exact ⟨⟨k, da, db, fun h => write_not_read ha h.1⟩, ⟨k, db, da, fun h => write_not_read ha h.2⟩⟩

/-! ## read confinement: a step depends on the base only at accessible keys -/

theorem vget_congr {base base' : Key → Option Val} {pend : Diff} {k : Key} (h : base k = base' k) :
    vget base pend k = vget base' pend k := by
  unfold vget; rw [h]

theorem vInsert_congr {pf : Key → Perm} {base base' : Key → Option Val} {pend : Diff} {k : Key} {v : Val}
    (h : hasPerm (pf k) pWrite = true → base k = base' k) :
    vInsert pf base pend k v = vInsert pf base' pend k v := by
  unfold vInsert
  by_cases hp : hasPerm (pf k) pWrite = true
  · rw [vget_congr (h hp), h hp]
  · simp [hp]

theorem vRemove_congr {pf : Key → Perm} {base base' : Key → Option Val} {pend : Diff} {k : Key}
    (h : hasPerm (pf k) pWrite = true → base k = base' k) :
    vRemove pf base pend k = vRemove pf base' pend k := by
  unfold vRemove
  by_cases hp : hasPerm (pf k) pWrite = true
  · rw [vget_congr (h hp), h hp]
  · simp [hp]

theorem stepInstr_congr {t : Tx} {prices : Dims} {base base' : Key → Option Val} {ls : Local}
    (h : ∀ k, Acc t k → base k = base' k) (ins : Instr) :
    stepInstr t prices base ls ins = stepInstr t prices base' ls ins := by
  cases ins with
  | pre =>
    simp only [stepInstr]
    by_cases hp : hasPerm (t.perm t.sponsor) pRead = true
    · rw [vget_congr (h _ (Or.inl hp))]
    · simp [hp]
  | deduct =>
    simp only [stepInstr]
    by_cases hp : hasPerm (t.perm t.sponsor) pRead = true
    · rw [vget_congr (h _ (Or.inl hp))]
      have : ∀ v, vInsert t.perm base ls.pend t.sponsor v = vInsert t.perm base' ls.pend t.sponsor v :=
        fun v => vInsert_congr (fun hw => h _ (Or.inr hw))
      simp only [this]
    · simp [hp]
  | mark => rfl
  | endAct => rfl
  | op o =>
    cases o with
    | get k =>
      simp only [stepInstr]
      by_cases hp : hasPerm (t.perm k) pRead = true
      · rw [vget_congr (h _ (Or.inl hp))]
      · simp [hp]
    | put k v =>
      simp only [stepInstr]
      rw [vInsert_congr (fun hw => h _ (Or.inr hw))]
    | del k =>
      simp only [stepInstr]
      rw [vRemove_congr (fun hw => h _ (Or.inr hw))]
    | fail => rfl
    | putBig k => rfl

/-! ## write confinement: pending changes only at keys with Write permission -/

def WC (t : Tx) (d : Diff) : Prop := ∀ k, d k ≠ none → hasPerm (t.perm k) pWrite = true

theorem WC_empty (t : Tx) : WC t emptyDiff := fun _ h => absurd rfl h

theorem WC_upd {t : Tx} {d : Diff} {k : Key} {x : Option (Option Val)}
    (h : WC t d) (hk : hasPerm (t.perm k) pWrite = true) : WC t (upd d k x) := by
  intro j hj
  unfold upd at hj
  by_cases e : j = k
  · rw [e]; exact hk
  · simp [e] at hj; exact h j hj

theorem vInsert_wc {t : Tx} {base : Key → Option Val} {pend p : Diff} {k : Key} {v : Val}
    (h : WC t pend) (e : vInsert t.perm base pend k v = some p) : WC t p := by
  unfold vInsert at e
  by_cases hp : hasPerm (t.perm k) pWrite = true
  · simp only [hp, Bool.not_true, Bool.false_eq_true, if_false] at e
    split at e
    · split at e
      · cases e; exact h
      · cases e
        split
        · exact WC_upd (WC_upd h hp) hp
        · exact WC_upd h hp
    · split at e
      · cases e
      · cases e
        split
        · exact WC_upd (WC_upd h hp) hp
        · exact WC_upd h hp
  · simp [hp] at e

theorem vRemove_wc {t : Tx} {base : Key → Option Val} {pend p : Diff} {k : Key}
    (h : WC t pend) (e : vRemove t.perm base pend k = some p) : WC t p := by
  unfold vRemove at e
  by_cases hp : hasPerm (t.perm k) pWrite = true
  · simp only [hp, Bool.not_true, Bool.false_eq_true, if_false] at e
    split at e
    · cases e; exact h
    · cases e
      split
      · exact WC_upd (WC_upd h hp) hp
      · exact WC_upd h hp
  · simp [hp] at e

def LWC (t : Tx) (ls : Local) : Prop := WC t ls.pend ∧ WC t ls.saved

theorem stepInstr_wc {t : Tx} {prices : Dims} {base : Key → Option Val} {ls ls' : Local} {ins : Instr}
    (h : LWC t ls)
    (e : stepInstr t prices base ls ins = .cont ls' ∨ stepInstr t prices base ls ins = .failTx ls') :
    LWC t ls' := by
  obtain ⟨hp, hs⟩ := h
  cases ins with
  | pre =>
    simp only [stepInstr] at e
    rcases e with e | e <;> (repeat' split at e) <;> first | cases e | skip
    all_goals first | exact ⟨hp, hs⟩ | skip
  | deduct =>
    simp only [stepInstr] at e
    rcases e with e | e
    · repeat' split at e
      all_goals first | cases e | skip
      rename_i _ _ _ _ _ _ p hv
      exact ⟨vInsert_wc hp hv, hs⟩
    · repeat' split at e
      all_goals cases e
  | mark =>
    simp only [stepInstr] at e
    rcases e with e | e
    · cases e; exact ⟨hp, hp⟩
    · cases e
  | endAct =>
    simp only [stepInstr] at e
    rcases e with e | e
    · cases e; exact ⟨hp, hs⟩
    · cases e
  | op o =>
    cases o with
    | get k =>
      simp only [stepInstr, failWith] at e
      rcases e with e | e <;> split at e <;> cases e
      · exact ⟨hp, hs⟩
      · exact ⟨hs, hs⟩
    | put k v =>
      simp only [stepInstr, failWith] at e
      rcases e with e | e <;> split at e <;> cases e
      · rename_i p hv; exact ⟨vInsert_wc hp hv, hs⟩
      · exact ⟨hs, hs⟩
    | del k =>
      simp only [stepInstr, failWith] at e
      rcases e with e | e <;> split at e <;> cases e
      · rename_i p hv; exact ⟨vRemove_wc hp hv, hs⟩
      · exact ⟨hs, hs⟩
    | fail =>
      simp only [stepInstr, failWith] at e
      rcases e with e | e <;> cases e
      exact ⟨hs, hs⟩
    | putBig k =>
      simp only [stepInstr, failWith] at e
      rcases e with e | e <;> split at e <;> cases e
      · exact ⟨hs, hs⟩
      · exact ⟨hs, hs⟩

theorem runFrom_wc {t : Tx} {prices : Dims} {base : Key → Option Val} :
    ∀ (rem : List Instr) (ls ls' : Local), LWC t ls → runFrom t prices base ls rem = .ok ls' → LWC t ls'
  | [], ls, ls', h, e => by
    unfold runFrom at e; cases e; exact h
  | ins :: rem, ls, ls', h, e => by
    unfold runFrom at e
    split at e
    · rename_i l2 hs
      exact runFrom_wc rem l2 ls' (stepInstr_wc h (Or.inl hs)) e
    · cases e
    · rename_i l2 hs
      cases e
      exact stepInstr_wc h (Or.inr hs)

theorem runTx_wc {c : Ctx} {t : Tx} {d : Diff} {ls : Local} (e : runTx c t d = .ok ls) : WC t ls.pend :=
  (runFrom_wc _ _ _ ⟨WC_empty t, WC_empty t⟩ e).1

/-! ## the sequential execution, indexed -/

/-- pending changes committed by tx `n` when it runs on block diff `d` -/
def ch (c : Ctx) (d : Diff) (n : Nat) : Diff :=
  match c.txs[n]? with
  | some t => pendOf (runTx c t d)
  | none => emptyDiff

/-- block diff after the first `n` txs in block order -/
def sd (c : Ctx) : Nat → Diff
  | 0 => emptyDiff
  | n + 1 => merge (sd c n) (ch c (sd c n) n)

abbrev chn (c : Ctx) (n : Nat) : Diff := ch c (sd c n) n

/-- block diff obtained by committing, in block order, the txs selected by `F` -/
def diffOf (c : Ctx) (F : Nat → Bool) : Nat → Diff
  | 0 => emptyDiff
  | n + 1 => if F n then merge (diffOf c F n) (chn c n) else diffOf c F n

/-- `lastConsumed` after the first `n` txs; `none` once a limit is exceeded -/
def cons (c : Ctx) : Nat → Option Dims
  | 0 => some (zeros c.maxUnits)
  | n + 1 =>
    match cons c n with
    | none => none
    | some u =>
      match c.txs[n]? with
      | none => none
      | some t => consume u t.units c.maxUnits

def resultAt (c : Ctx) (i : Nat) : Option Result :=
  match c.txs[i]? with
  | none => none
  | some t =>
    match runTx c t (sd c i) with
    | .ok ls => some (mkResult t ls)
    | .abort _ => none

def AbortAt (c : Ctx) (i : Nat) : Prop := ∃ t a, c.txs[i]? = some t ∧ runTx c t (sd c i) = .abort a

def SeqFails (c : Ctx) : Prop :=
  cons c c.txs.length = none ∨ ∃ i, i < c.txs.length ∧ AbortAt c i

theorem cons_none_mono (c : Ctx) {n : Nat} (h : cons c n = none) : ∀ m, n ≤ m → cons c m = none := by
  intro m hm
  induction m with
  | zero => have : n = 0 := by omega
            subst this; exact h
  | succ m ih =>
    by_cases e : n = m + 1
    · subst e; exact h
    · have : cons c m = none := ih (by omega)
      unfold cons; rw [this]

theorem chn_write {c : Ctx} {n : Nat} {k : Key} (h : chn c n k ≠ none) :
    ∃ t, c.txs[n]? = some t ∧ hasPerm (t.perm k) pWrite = true := by
  unfold chn ch at h
  cases ht : c.txs[n]? with
  | none => simp [ht, emptyDiff] at h
  | some t =>
    simp only [ht] at h
    refine ⟨t, rfl, ?_⟩
    cases hr : runTx c t (sd c n) with
    | ok ls => rw [hr] at h; exact runTx_wc hr k h
    | abort a => rw [hr] at h; exact absurd rfl h

theorem seqAt_some (c : Ctx) : ∀ (n : Nat) (d : Diff) (rs : List Result) (u : Dims),
    seqAt c n = some (d, rs, u) →
      n ≤ c.txs.length ∧ d = sd c n ∧ cons c n = some u ∧
      rs.map some = (List.range n).map (resultAt c) ∧ ∀ i, i < n → ¬ AbortAt c i
  | 0, d, rs, u, e => by
    unfold seqAt at e
    cases e
    exact ⟨Nat.zero_le _, rfl, rfl, rfl, fun i hi => absurd hi (Nat.not_lt_zero i)⟩
  | n + 1, d, rs, u, e => by
    unfold seqAt at e
    cases h0 : seqAt c n with
    | none => rw [h0] at e; cases e
    | some x =>
      obtain ⟨d0, rs0, u0⟩ := x
      rw [h0] at e
      obtain ⟨hle, hd, hc, hr, hab⟩ := seqAt_some c n d0 rs0 u0 h0
      simp only at e
      cases ht : c.txs[n]? with
      | none => rw [ht] at e; cases e
      | some t =>
        rw [ht] at e; simp only at e
        cases hcs : consume u0 t.units c.maxUnits with
        | none => rw [hcs] at e; cases e
        | some u' =>
          rw [hcs] at e; simp only at e
          cases hrun : runTx c t d0 with
          | abort a => rw [hrun] at e; cases e
          | ok ls =>
            rw [hrun] at e
            cases e
            have hlt : n < c.txs.length := by
              rcases List.getElem?_eq_some_iff.mp ht with ⟨h, _⟩; exact h
            subst hd
            refine ⟨hlt, ?_, ?_, ?_, ?_⟩
            · show merge (sd c n) ls.pend = merge (sd c n) (ch c (sd c n) n)
              simp only [ch, ht, hrun, pendOf]
            · unfold cons; rw [hc, ht]; exact hcs
            · rw [List.range_succ, List.map_append, List.map_append, hr]
              simp only [List.map_cons, List.map_nil]
              simp only [resultAt, ht, hrun]
            · intro i hi
              by_cases e : i = n
              · subst e
                rintro ⟨t', a, ht', ha⟩
                rw [ht] at ht'; cases ht'
                rw [hrun] at ha; cases ha
              · exact hab i (by omega)

theorem seqAt_none (c : Ctx) : ∀ (n : Nat), seqAt c n = none → n ≤ c.txs.length →
    cons c n = none ∨ ∃ i, i < n ∧ AbortAt c i
  | 0, e, _ => by unfold seqAt at e; cases e
  | n + 1, e, hle => by
    unfold seqAt at e
    cases h0 : seqAt c n with
    | none =>
      rcases seqAt_none c n h0 (by omega) with h | ⟨i, hi, ha⟩
      · exact Or.inl (cons_none_mono c h _ (by omega))
      · exact Or.inr ⟨i, by omega, ha⟩
    | some x =>
      obtain ⟨d0, rs0, u0⟩ := x
      rw [h0] at e
      obtain ⟨_, hd, hc, _, _⟩ := seqAt_some c n d0 rs0 u0 h0
      simp only at e
      cases ht : c.txs[n]? with
      | none =>
        have := List.getElem?_eq_none_iff.mp ht
        omega
      | some t =>
        rw [ht] at e; simp only at e
        cases hcs : consume u0 t.units c.maxUnits with
        | none =>
          left; unfold cons; rw [hc, ht]; exact hcs
        | some u' =>
          rw [hcs] at e; simp only at e
          cases hrun : runTx c t d0 with
          | ok ls => rw [hrun] at e; cases e
          | abort a =>
            right
            exact ⟨n, by omega, t, a, ht, by rw [← hd]; exact hrun⟩

/-! ## `diffOf` -/

theorem merge_none {d p : Diff} {k : Key} (h : p k = none) : merge d p k = d k := by
  unfold merge; rw [h]

theorem merge_some {d p : Diff} {k : Key} {x : Option Val} (h : p k = some x) : merge d p k = some x := by
  unfold merge; rw [h]

theorem diffOf_false (c : Ctx) (F : Nat → Bool) (h : ∀ j, F j = false) : ∀ n, diffOf c F n = emptyDiff
  | 0 => rfl
  | n + 1 => by unfold diffOf; rw [h n]; simp [diffOf_false c F h n]

theorem diffOf_all (c : Ctx) (F : Nat → Bool) : ∀ n, (∀ j, j < n → F j = true) → diffOf c F n = sd c n
  | 0, _ => rfl
  | n + 1, h => by
    unfold diffOf sd
    rw [h n (by omega), diffOf_all c F n (fun j hj => h j (by omega))]
    simp

/-- the selected set is, at key `k`, exactly the txs before `i` that change `k` -/
theorem diffOf_eq_sd (c : Ctx) (F : Nat → Bool) (i : Nat) (k : Key) : ∀ n,
    (∀ j, j < n → j < i → chn c j k ≠ none → F j = true) →
    (∀ j, j < n → i ≤ j → F j = true → chn c j k = none) →
    diffOf c F n k = sd c (min n i) k
  | 0, _, _ => by simp [diffOf, sd]
  | n + 1, h1, h2 => by
    have ih := diffOf_eq_sd c F i k n (fun j hj => h1 j (by omega)) (fun j hj => h2 j (by omega))
    unfold diffOf
    by_cases hni : n < i
    · have e1 : min (n + 1) i = n + 1 := by omega
      have e2 : min n i = n := by omega
      rw [e1]; rw [e2] at ih
      show (if F n = true then merge (diffOf c F n) (chn c n) else diffOf c F n) k = merge (sd c n) (ch c (sd c n) n) k
      by_cases hf : F n = true
      · simp only [hf, if_true]
        unfold merge; rw [ih]
      · simp only [hf]
        have : chn c n k = none := by
          cases hx : chn c n k with
          | none => rfl
          | some x => exact absurd (h1 n (by omega) hni (by rw [hx]; simp)) hf
        rw [merge_none this]; simpa using ih
    · have e1 : min (n + 1) i = min n i := by omega
      rw [e1]
      by_cases hf : F n = true
      · simp only [hf, if_true]
        rw [merge_none (h2 n (by omega) (by omega) hf)]; exact ih
      · simpa [hf] using ih

def setB (F : Nat → Bool) (i : Nat) : Nat → Bool := fun j => if j = i then true else F j

theorem diffOf_set_none (c : Ctx) (F : Nat → Bool) (i : Nat) (k : Key) (h : chn c i k = none) :
    ∀ n, diffOf c (setB F i) n k = diffOf c F n k
  | 0 => rfl
  | n + 1 => by
    have ih := diffOf_set_none c F i k h n
    unfold diffOf
    by_cases e : n = i
    · subst e
      have : setB F n n = true := by simp [setB]
      rw [this]; simp only [if_true]
      rw [merge_none h, ih]
      by_cases hf : F n = true
      · simp only [hf, if_true]; rw [merge_none h]
      · simp [hf]
    · have : setB F i n = F n := by simp [setB, e]
      rw [this]
      by_cases hf : F n = true
      · simp only [hf, if_true]; unfold merge; rw [ih]
      · simpa [hf] using ih

theorem diffOf_set_some (c : Ctx) (F : Nat → Bool) (i : Nat) (k : Key) (x : Option Val)
    (h : chn c i k = some x) : ∀ n, i < n →
    (∀ j, i < j → j < n → F j = true → chn c j k = none) →
    diffOf c (setB F i) n k = some x
  | 0, hi, _ => absurd hi (Nat.not_lt_zero _)
  | n + 1, hi, h2 => by
    unfold diffOf
    by_cases e : n = i
    · subst e
      have : setB F n n = true := by simp [setB]
      rw [this]; simp only [if_true]
      exact merge_some h
    · have hin : i < n := by omega
      have ih := diffOf_set_some c F i k x h n hin (fun j h1 h3 => h2 j h1 (by omega))
      have : setB F i n = F n := by simp [setB, e]
      rw [this]
      by_cases hf : F n = true
      · simp only [hf, if_true]
        rw [merge_none (h2 n hin (by omega) hf)]; exact ih
      · simpa [hf] using ih

end HyperModel.BlockExecProofs
