import HyperModel.Model.Balance
/-! Lemmas for C34: decimal digit strings, `fmtUint`, `cut`, `accumulate`. -/
namespace HyperModel.Proofs.Balance
open HyperModel.Balance
open HyperModel.Generated.C34 (decimals)

/-- every character is an ASCII digit -/
def AllDigits (s : Str) : Prop := ∀ c ∈ s, 48 ≤ c ∧ c ≤ 57

/-- Horner evaluation of a digit string on top of an accumulator `v` -/
def digitsVal : Str → Nat → Nat
  | [], v => v
  | c :: r, v => digitsVal r (v * 10 + (c - 48))

/-- the number a decimal digit string denotes (`"" ↦ 0`) -/
def decVal (s : Str) : Nat := digitsVal s 0

theorem maxUint64_eq : maxUint64 = 18446744073709551615 := by decide

theorem allDigits_nil : AllDigits [] := by intro c h; cases h

theorem allDigits_cons {c : Nat} {r : Str} :
    AllDigits (c :: r) ↔ (48 ≤ c ∧ c ≤ 57) ∧ AllDigits r := by
  constructor
  · intro h
    exact ⟨h c (List.mem_cons_self ..), fun x hx => h x (List.mem_cons_of_mem _ hx)⟩
  · rintro ⟨h1, h2⟩ x hx
    rcases List.mem_cons.mp hx with hx | hx
    · subst hx; exact h1
    · exact h2 x hx

theorem allDigits_append {a b : Str} : AllDigits (a ++ b) ↔ AllDigits a ∧ AllDigits b := by
  constructor
  · intro h
    exact ⟨fun x hx => h x (List.mem_append_left _ hx), fun x hx => h x (List.mem_append_right _ hx)⟩
  · rintro ⟨h1, h2⟩ x hx
    rcases List.mem_append.mp hx with hx | hx
    · exact h1 x hx
    · exact h2 x hx

theorem allDigits_replicate (k : Nat) : AllDigits (List.replicate k 48) := by
  intro c hc
  have := (List.mem_replicate.mp hc).2
  omega

theorem digitsVal_append (a b : Str) (v : Nat) :
    digitsVal (a ++ b) v = digitsVal b (digitsVal a v) := by
  induction a generalizing v with
  | nil => rfl
  | cons c r ih => simp only [List.cons_append, digitsVal, ih]

theorem digitsVal_eq (s : Str) (v : Nat) :
    digitsVal s v = v * 10 ^ s.length + digitsVal s 0 := by
  induction s generalizing v with
  | nil => simp [digitsVal]
  | cons c r ih =>
    simp only [digitsVal, List.length_cons]
    rw [ih (v * 10 + (c - 48)), ih (0 * 10 + (c - 48))]
    rw [Nat.pow_succ, Nat.add_mul, Nat.add_mul]
    simp only [Nat.zero_mul, Nat.zero_add, Nat.mul_assoc]
    rw [Nat.mul_comm 10 (10 ^ r.length)]
    omega

theorem digitsVal_replicate (k v : Nat) : digitsVal (List.replicate k 48) v = v * 10 ^ k := by
  induction k generalizing v with
  | zero => simp [digitsVal]
  | succ k ih =>
    simp only [List.replicate_succ, digitsVal, ih]
    rw [Nat.pow_succ, Nat.mul_comm (10 ^ k) 10, ← Nat.mul_assoc]
    simp

theorem le_digitsVal (s : Str) (v : Nat) : v ≤ digitsVal s v := by
  induction s generalizing v with
  | nil => exact Nat.le_refl _
  | cons c r ih =>
    simp only [digitsVal]
    have := ih (v * 10 + (c - 48))
    omega

/-! ### `accumulate` -/

theorem accumulate_ok (s : Str) (v : Nat) (hd : AllDigits s) (hfit : digitsVal s v ≤ maxUint64) :
    accumulate s v = .ok (digitsVal s v) := by
  induction s generalizing v with
  | nil => rfl
  | cons c r ih =>
    obtain ⟨hc, hr⟩ := allDigits_cons.mp hd
    simp only [digitsVal] at hfit ⊢
    have hle := le_digitsVal r (v * 10 + (c - 48))
    rw [maxUint64_eq] at hfit
    unfold accumulate
    have h1 : ¬ (c < 48 ∨ c > 57) := by omega
    have h2 : ¬ (v > (maxUint64 - (c - 48)) / 10) := by rw [maxUint64_eq]; omega
    simp only [h1, h2, if_false]
    exact ih _ hr (by rw [maxUint64_eq]; exact hfit)

theorem accumulate_range (s : Str) (v : Nat) (hv : v ≤ maxUint64) (hd : AllDigits s)
    (hbig : maxUint64 < digitsVal s v) : accumulate s v = .error .range := by
  induction s generalizing v with
  | nil => simp only [digitsVal] at hbig; omega
  | cons c r ih =>
    obtain ⟨hc, hr⟩ := allDigits_cons.mp hd
    simp only [digitsVal] at hbig
    unfold accumulate
    have h1 : ¬ (c < 48 ∨ c > 57) := by omega
    simp only [h1, if_false]
    by_cases h2 : v > (maxUint64 - (c - 48)) / 10
    · simp [h2]
    · simp only [h2, if_false]
      apply ih _ _ hr hbig
      rw [maxUint64_eq] at h2 ⊢
      omega

/-- soundness: the loop succeeds only on digit strings, with the Horner value, which fits -/
theorem accumulate_sound (s : Str) (v x : Nat) (hv : v ≤ maxUint64) (h : accumulate s v = .ok x) :
    AllDigits s ∧ x = digitsVal s v ∧ x ≤ maxUint64 := by
  induction s generalizing v with
  | nil =>
    simp only [accumulate] at h
    injection h with h
    subst h
    exact ⟨allDigits_nil, rfl, hv⟩
  | cons c r ih =>
    unfold accumulate at h
    by_cases h1 : c < 48 ∨ c > 57
    · simp [h1] at h
    · simp only [h1, if_false] at h
      by_cases h2 : v > (maxUint64 - (c - 48)) / 10
      · simp [h2] at h
      · simp only [h2, if_false] at h
        have hv' : v * 10 + (c - 48) ≤ maxUint64 := by
          rw [maxUint64_eq] at h2 ⊢
          omega
        obtain ⟨a1, a2, a3⟩ := ih _ hv' h
        exact ⟨allDigits_cons.mpr ⟨by omega, a1⟩, by simpa [digitsVal] using a2, a3⟩

/-! ### `fmtUint` (= `strconv.FormatUint(·, 10)`) -/

theorem fmtUint_digits (n : Nat) : AllDigits (fmtUint n) := by
  induction n using fmtUint.induct with
  | case1 n h =>
    rw [fmtUint, if_pos h]
    intro c hc
    simp only [List.mem_singleton] at hc
    omega
  | case2 n h ih =>
    rw [fmtUint, if_neg h]
    apply allDigits_append.mpr
    refine ⟨ih, ?_⟩
    intro c hc
    simp only [List.mem_singleton] at hc
    omega

theorem fmtUint_val (n : Nat) : decVal (fmtUint n) = n := by
  unfold decVal
  induction n using fmtUint.induct with
  | case1 n h =>
    rw [fmtUint, if_pos h]
    simp only [digitsVal]
    omega
  | case2 n h ih =>
    rw [fmtUint, if_neg h, digitsVal_append, ih]
    simp only [digitsVal]
    omega

theorem fmtUint_length_pos (n : Nat) : 0 < (fmtUint n).length := by
  rw [fmtUint]
  split <;> simp

theorem fmtUint_length_le (n k : Nat) (hk : 0 < k) (h : n < 10 ^ k) : (fmtUint n).length ≤ k := by
  induction n using fmtUint.induct generalizing k with
  | case1 n hn =>
    rw [fmtUint, if_pos hn]
    simp only [List.length_singleton]; omega
  | case2 n hn ih =>
    rw [fmtUint, if_neg hn]
    simp only [List.length_append, List.length_singleton]
    cases k with
    | zero => omega
    | succ k =>
      have hk1 : 0 < k := by
        cases k with
        | zero => simp at h; omega
        | succ k => omega
      have : n / 10 < 10 ^ k := by
        rw [Nat.pow_succ] at h
        exact Nat.div_lt_of_lt_mul (by rw [Nat.mul_comm]; exact h)
      have := ih k hk1 this
      omega

theorem not_dot_of_digits {s : Str} (h : AllDigits s) : 46 ∉ s := by
  intro hm
  have := h 46 hm
  omega

/-! ### `cut` (= `strings.Cut(·, ".")`) -/

theorem cut_no_dot (a : Str) (h : 46 ∉ a) : cut a = (a, []) := by
  induction a with
  | nil => rfl
  | cons c r ih =>
    have hc : c ≠ 46 := fun e => h (e ▸ List.mem_cons_self ..)
    have hr : 46 ∉ r := fun e => h (List.mem_cons_of_mem _ e)
    simp [cut, hc, ih hr]

theorem cut_dot (a b : Str) (h : 46 ∉ a) : cut (a ++ 46 :: b) = (a, b) := by
  induction a with
  | nil => simp [cut]
  | cons c r ih =>
    have hc : c ≠ 46 := fun e => h (e ▸ List.mem_cons_self ..)
    have hr : 46 ∉ r := fun e => h (List.mem_cons_of_mem _ e)
    simp [cut, hc, ih hr]

/-- what `cut` returns determines the input -/
theorem cut_spec (s a b : Str) (h : cut s = (a, b)) :
    46 ∉ a ∧ ((s = a ∧ b = []) ∨ s = a ++ 46 :: b) := by
  induction s generalizing a b with
  | nil =>
    simp only [cut, Prod.mk.injEq] at h
    obtain ⟨rfl, rfl⟩ := h
    simp
  | cons c r ih =>
    unfold cut at h
    by_cases hc : c = 46
    · simp only [hc, if_true, Prod.mk.injEq] at h
      obtain ⟨rfl, rfl⟩ := h
      simp [hc]
    · simp only [hc, if_false] at h
      cases hr : cut r with
      | mk a' b' =>
        rw [hr] at h
        simp only [Prod.mk.injEq] at h
        obtain ⟨rfl, rfl⟩ := h
        obtain ⟨h1, h2⟩ := ih a' b' hr
        refine ⟨?_, ?_⟩
        · intro hm
          rcases List.mem_cons.mp hm with hm | hm
          · exact hc hm.symm
          · exact h1 hm
        · rcases h2 with ⟨rfl, rfl⟩ | h2
          · left; exact ⟨rfl, rfl⟩
          · right; rw [h2]; rfl

end HyperModel.Proofs.Balance
