import HyperModel.Proofs.Mempool
/-!
History-level statement of "no item is handed out twice within one stream": a ghost list `handed`
records the IDs *returned by `Stream`* since the last successful `StartStreaming` (cleared by
`FinishStreaming`). Protocol assumption (`Proto`): `PrepareStream` is only called inside a stream, as
`chain/builder.go` does. Core Lean only.
-/
namespace HyperModel.Mempool
open HyperModel.Heap HyperModel.EHeap
set_option linter.unusedSectionVars false

/-- stream bookkeeping untouched -/
def F (m m' : State) : Prop :=
  m'.streamLocked = m.streamLocked ∧ m'.streamed = m.streamed ∧ m'.nextStream = m.nextStream ∧
  m'.nextStreamFetched = m.nextStreamFetched

theorem F.refl (m : State) : F m m := ⟨rfl, rfl, rfl, rfl⟩
theorem F.trans {a b c : State} (h1 : F a b) (h2 : F b c) : F a c :=
  ⟨h2.1.trans h1.1, h2.2.1.trans h1.2.1, h2.2.2.1.trans h1.2.2.1, h2.2.2.2.trans h1.2.2.2⟩

theorem addAll_F (m : State) (front : Bool) (items : List Item) : F m (m.addAll front items) :=
  let h := addAll_fields m front items
  ⟨h.2.2.2.1, h.1, h.2.1, h.2.2.1⟩

theorem popNext_F (m : State) : F m (m.popNext).1 := by
  unfold State.popNext; split <;> exact F.refl _

theorem remove_F (m : State) (items : List Item) : F m (m.remove items) := by
  induction items generalizing m with
  | nil => exact F.refl m
  | cons x rest ih =>
    have h1 : F m (m.remove1 x) := by unfold State.remove1; split <;> exact F.refl _
    exact h1.trans (ih (m.remove1 x))

theorem dropAll_F (m : State) (out : List Item) : F m (dropAll m out) := by
  induction out generalizing m with
  | nil => exact F.refl m
  | cons x rest ih => exact (show F m (dropQ m x) from F.refl _).trans (ih (dropQ m x))

theorem topLoop_F (fuel : Nat) (m : State) (ans : List Answer) (vis res : List Item) :
    F m (State.topLoop fuel m ans vis res).1 := by
  induction fuel generalizing m ans vis res with
  | zero => exact F.refl m
  | succ fuel ih =>
    unfold State.topLoop
    have hp := popNext_F m
    split
    · exact F.refl m
    · split
      · rename_i m1 heq; rw [heq] at hp; exact hp
      · rename_i m1 next heq
        rw [heq] at hp
        simp only
        split
        · exact hp
        · exact hp.trans (ih _ _ _ _)

/-- the operations that do not touch the stream bookkeeping -/
def Op.plain : Op → Bool
  | .startStreaming | .prepareStream _ | .stream _ | .finishStreaming _ => false
  | _ => true

theorem step_F (m : State) (op : Op) (hp : op.plain = true) : F m (m.step op).1 := by
  cases op with
  | add items => exact addAll_F m false items
  | remove items => exact remove_F m items
  | setMin t =>
    simp only [State.step, setMinTimestamp_eq]
    exact (show F m { m with eh := (m.eh.setMin t).1 } from F.refl _).trans (dropAll_F _ _)
  | popNext => exact popNext_F m
  | peekNext => exact F.refl m
  | has id => exact F.refl m
  | len => exact F.refl m
  | size => exact F.refl m
  | top ans =>
    simp only [State.step, State.top]
    exact (topLoop_F _ m ans [] []).trans (addAll_F _ true _)
  | startStreaming => cases hp
  | prepareStream n => cases hp
  | stream n => cases hp
  | finishStreaming r => cases hp

/-- Protocol assumption: `PrepareStream` only while a stream is open. -/
def Proto (m : State) : Op → Prop
  | .prepareStream _ => m.streamLocked = true
  | _ => True

/-- ghost step: `handed` = IDs returned by `Stream` since the last successful `StartStreaming` -/
def gstep (g : State × List ID) (op : Op) : State × List ID :=
  let m' := (g.1.step op).1
  match op with
  | .startStreaming => (m', if g.1.streamLocked then g.2 else [])
  | .finishStreaming _ => (m', if g.1.streamLocked then [] else g.2)
  | .stream n => (m', if g.1.streamLocked then g.2 ++ (g.1.stream n).2.map (·.id) else g.2)
  | _ => (m', g.2)

theorem gstep_fst (g : State × List ID) (op : Op) : (gstep g op).1 = (g.1.step op).1 := by
  cases op <;> rfl

/-- prefetched, not yet returned -/
def pend (m : State) : List ID := if m.nextStreamFetched then m.nextStream.map (·.id) else []

/-- ghost invariant -/
structure GInv (g : State × List ID) : Prop where
  idle : g.1.streamLocked = false → g.2 = [] ∧ g.1.nextStreamFetched = false
  busy : g.1.streamLocked = true → ∃ l, g.1.streamed = some l ∧ (g.2 ++ pend g.1).Nodup ∧
    ∀ id, id ∈ g.2 ++ pend g.1 → id ∈ l

theorem GInv.of_F {m m' : State} {h : List ID} (hg : GInv (m, h)) (hf : F m m') : GInv (m', h) := by
  obtain ⟨f1, f2, f3, f4⟩ := hf
  have hp : pend m' = pend m := by simp only [pend, f3, f4]
  constructor
  · intro hl
    simp only at hl ⊢
    rw [f1] at hl; rw [f4]; exact hg.idle hl
  · intro hl
    simp only at hl ⊢
    rw [f1] at hl; rw [f2, hp]; exact hg.busy hl

theorem finishStreaming_fields (m : State) (r : List Item) (m' : State) (k : Nat)
    (hf : m.finishStreaming r = some (m', k)) :
    m.streamLocked = true ∧ m'.streamLocked = false ∧ m'.nextStreamFetched = false := by
  unfold State.finishStreaming at hf
  split at hf
  · cases hf
  · rename_i hl
    simp only at hf
    have f := addAll_fields ({ m with streamed := none } : State) true r
    split at hf
    · cases hf; exact ⟨by simpa using hl, rfl, rfl⟩
    · rename_i hfe
      cases hf
      exact ⟨by simpa using hl, rfl, by simpa using hfe⟩

/-- taking a batch from the queue while a stream is open keeps the ghost invariant's lists good -/
theorem batch_ok {u m} (h : MInv u m) (l : List ID) (hl : m.streamed = some l) (hd : List ID) (n : Nat)
    (hnd : hd.Nodup) (hsub : ∀ id, id ∈ hd → id ∈ l) :
    (hd ++ (m.queue.take n).map (·.id)).Nodup ∧
    ∀ id, id ∈ hd ++ (m.queue.take n).map (·.id) →
      id ∈ (if m.queue.take n = [] then l else l ++ (m.queue.take n).map (·.id)) := by
  have htk : ((m.queue.take n).map (·.id)).Nodup :=
    List.Nodup.sublist ((List.take_sublist n m.queue).map _) h.nodup
  constructor
  · refine List.nodup_append.2 ⟨hnd, htk, ?_⟩
    intro a ha b hb hab
    subst hab
    obtain ⟨x, hx, rfl⟩ := List.mem_map.1 hb
    exact h.sDisj l hl x (List.mem_of_mem_take hx) (hsub _ ha)
  · intro id hid
    rcases List.mem_append.1 hid with h1 | h1
    · split
      · exact hsub id h1
      · exact List.mem_append.2 (Or.inl (hsub id h1))
    · split
      · rename_i he; rw [he] at h1; simp at h1
      · exact List.mem_append.2 (Or.inr h1)

theorem gstep_inv {u} (g : State × List ID) (hm : MInv u g.1) (hg : GInv g) (op : Op) (hp : Proto g.1 op) :
    GInv (gstep g op) := by
  obtain ⟨m, hd⟩ := g
  by_cases hplain : op.plain = true
  · have : gstep (m, hd) op = ((m.step op).1, hd) := by cases op <;> first | rfl | cases hplain
    rw [this]; exact hg.of_F (step_F m op hplain)
  cases op with
  | add _ => exact absurd rfl hplain
  | remove _ => exact absurd rfl hplain
  | setMin _ => exact absurd rfl hplain
  | popNext => exact absurd rfl hplain
  | peekNext => exact absurd rfl hplain
  | has _ => exact absurd rfl hplain
  | len => exact absurd rfl hplain
  | size => exact absurd rfl hplain
  | top _ => exact absurd rfl hplain
  | startStreaming =>
    simp only [gstep, State.step, State.startStreaming]
    cases hl : m.streamLocked with
    | true => simpa [hl] using hg
    | false =>
      obtain ⟨_, hf⟩ := hg.idle hl
      have hf : m.nextStreamFetched = false := hf
      simp only [Bool.false_eq_true, if_false]
      constructor
      · intro h; cases h
      · intro _; exact ⟨[], rfl, by simp [pend, hf], by simp [pend, hf]⟩
  | finishStreaming r =>
    simp only [gstep, State.step]
    cases hf : m.finishStreaming r with
    | none =>
      have hl : m.streamLocked = false := by
        unfold State.finishStreaming at hf
        split at hf
        · rename_i h; simpa using h
        · simp only at hf; split at hf <;> cases hf
      simpa [hl] using hg
    | some r' =>
      obtain ⟨m', k⟩ := r'
      obtain ⟨h1, h2, h3⟩ := finishStreaming_fields m r m' k hf
      simp only [h1, if_true]
      constructor
      · intro _; exact ⟨rfl, h3⟩
      · intro h; simp only at h; rw [h2] at h; cases h
  | prepareStream n =>
    have hl : m.streamLocked = true := hp
    obtain ⟨l, hs, hnd, hsub⟩ := hg.busy hl
    obtain ⟨i1, _, _, i4, _, _, i7, _⟩ := streamItems_spec (u := u) n m [] hm
    have hdn : hd.Nodup := (List.nodup_append.1 hnd).1
    have hds : ∀ id, id ∈ hd → id ∈ l := fun id h => hsub id (List.mem_append.2 (Or.inl h))
    obtain ⟨b1, b2⟩ := batch_ok hm l hs hd n hdn hds
    have htx : (State.streamItems n m []).2 = m.queue.take n := by simpa using i1
    constructor
    · intro h
      simp only [gstep, State.step, State.prepareStream] at h
      rw [i7, hl] at h; cases h
    · intro _
      simp only [gstep, State.step, State.prepareStream, pend, if_true, htx]
      exact ⟨if m.queue.take n = [] then l else l ++ (m.queue.take n).map (·.id),
        by rw [i4, hs]; split <;> simp, b1, b2⟩
  | stream n =>
    cases hl : m.streamLocked with
    | false =>
      obtain ⟨hd0, hf⟩ := hg.idle hl
      have hd0 : hd = [] := hd0
      have hf : m.nextStreamFetched = false := hf
      have hst : m.stream n = State.streamItems n m [] := by simp [State.stream, hf]
      obtain ⟨_, _, _, _, _, i6, i7, _⟩ := streamItems_spec (u := u) n m [] hm
      simp only [gstep, State.step, hl, Bool.false_eq_true, if_false, hst]
      constructor
      · intro _; exact ⟨hd0, by rw [i6]; exact hf⟩
      · intro h; simp only at h; rw [i7, hl] at h; cases h
    | true =>
      obtain ⟨l, hs, hnd, hsub⟩ := hg.busy hl
      simp only [gstep, State.step, hl, if_true]
      cases hfe : m.nextStreamFetched with
      | true =>
        have hst : m.stream n = ({ m with nextStream := [], nextStreamFetched := false }, m.nextStream) := by
          simp [State.stream, hfe]
        rw [hst]
        have hp' : pend m = m.nextStream.map (·.id) := by simp [pend, hfe]
        rw [hp'] at hnd hsub
        constructor
        · intro h; simp only at h; rw [hl] at h; cases h
        · intro _
          exact ⟨l, hs, by simpa [pend] using hnd, by simpa [pend] using hsub⟩
      | false =>
        have hst : m.stream n = State.streamItems n m [] := by simp [State.stream, hfe]
        rw [hst]
        obtain ⟨i1, _, _, i4, _, i6, i7, _⟩ := streamItems_spec (u := u) n m [] hm
        have hp' : pend m = [] := by simp [pend, hfe]
        rw [hp', List.append_nil] at hnd hsub
        obtain ⟨b1, b2⟩ := batch_ok hm l hs hd n hnd hsub
        have htx : (State.streamItems n m []).2 = m.queue.take n := by simpa using i1
        constructor
        · intro h; simp only at h; rw [i7, hl] at h; cases h
        · intro _
          have hpn : pend (State.streamItems n m []).1 = [] := by simp [pend, i6, hfe]
          simp only [hpn, List.append_nil, htx]
          exact ⟨if m.queue.take n = [] then l else l ++ (m.queue.take n).map (·.id),
            by rw [i4, hs]; split <;> simp, b1, b2⟩

/-- run with the ghost, from the initial state -/
def grun (g : State × List ID) (ops : List Op) : State × List ID := ops.foldl gstep g

/-- every op respects `Proto` in the state it is applied to -/
def ProtoOps : State → List Op → Prop
  | _, [] => True
  | m, op :: rest => Proto m op ∧ ProtoOps (m.step op).1 rest

theorem grun_inv {u} (ops : List Op) : ∀ (g : State × List ID), MInv u g.1 → GInv g →
    (∀ op, op ∈ ops → op.WF u) → ProtoOps g.1 ops →
    GInv (grun g ops) ∧ (grun g ops).1 = g.1.run ops := by
  induction ops with
  | nil => intro g _ hg _ _; exact ⟨hg, rfl⟩
  | cons op rest ih =>
    intro g hm hg hw hp
    have hm' : MInv u (gstep g op).1 := by rw [gstep_fst]; exact step_inv hm op (hw op (by simp))
    have hp' : ProtoOps (gstep g op).1 rest := by rw [gstep_fst]; exact hp.2
    obtain ⟨i1, i2⟩ := ih (gstep g op) hm' (gstep_inv g hm hg op hp.1) (fun o ho => hw o (by simp [ho])) hp'
    refine ⟨i1, ?_⟩
    show (grun (gstep g op) rest).1 = _
    rw [i2, gstep_fst]; rfl
end HyperModel.Mempool
