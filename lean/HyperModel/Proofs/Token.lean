import HyperModel.Model.Token
import HyperModel.Proofs.Tx
/-! Lemmas about the reference token VM model used by the C06 theorems. -/
namespace HyperModel.Proofs.Token
open HyperModel.Tx HyperModel.Token HyperModel.Proofs.Tx

theorem bkey_inj (a b : Addr) (h : bkey a = bkey b) : a = b := by
  simpa [bkey, Handler.key] using h

theorem balOf_eq_balance (m : Store) (a : Addr) : balOf m a = balance .morpheus m a := by
  unfold balOf balance readBal bkey
  cases m (Handler.morpheus.key a) <;> simp

theorem balOf_upd_other (m : Store) (a b : Addr) (x : Option Val) (h : b ≠ a) :
    balOf (upd m (bkey a) x) b = balOf m b := by
  have : bkey b ≠ bkey a := fun e => h (bkey_inj _ _ e)
  simp [balOf, upd, this]

theorem balOf_upd_some (m : Store) (a : Addr) (n : Nat) (h : n < u64) :
    balOf (upd m (bkey a) (some (encU64 n))) a = n := by
  simp [balOf, upd, decU64_encU64 n h]

theorem balOf_upd_none (m : Store) (a : Addr) : balOf (upd m (bkey a) none) a = 0 := by
  simp [balOf, upd]

theorem balOf_lt (m : Store) (a : Addr) : balOf m a < u64 := by
  unfold balOf
  cases h : m (bkey a) with
  | none => simp [u64]
  | some v =>
    cases hd : decU64 v with
    | none => simp [u64, hd]
    | some n => simpa [hd] using decU64_lt v n hd

/-- changing one account of a duplicate-free list changes the total by exactly that change -/
theorem sum_map_update (l : List Addr) (a : Addr) (f g : Addr → Nat) (hnd : l.Nodup) (ha : a ∈ l)
    (hfg : ∀ b, b ≠ a → g b = f b) : (l.map g).sum + f a = (l.map f).sum + g a := by
  induction l with
  | nil => simp at ha
  | cons x xs ih =>
    simp only [List.map_cons, List.sum_cons]
    have hnd' := List.nodup_cons.1 hnd
    by_cases hx : x = a
    · subst hx
      have : xs.map g = xs.map f :=
        List.map_congr_left (fun b hb => hfg b (by intro h; subst h; exact hnd'.1 hb))
      rw [this]; omega
    · have ha' : a ∈ xs := by
        rcases List.mem_cons.1 ha with h | h
        · exact absurd h.symm hx
        · exact h
      have := ih hnd'.2 ha'
      rw [hfg x hx]; omega

/-- `storage.SubBalance` succeeded: the record existed, parsed, covered the amount; the state
changes only at that record (deleted at zero) and the continuation runs on it. -/
theorem mSub_run (a : Addr) (amt : Nat) (cont : Nat → Prog) (v v' : View) (o : Val)
    (hr : (mSub (bkey a) amt cont).run v = (v', .ok o)) :
    ∃ bal v1, readBal .morpheus v.cur a = some bal ∧ amt ≤ bal ∧
      v1.cur = charge .morpheus v.cur a bal amt ∧ (cont (bal - amt)).run v1 = (v', .ok o) := by
  simp only [mSub, Prog.run] at hr
  generalize hg : v.get (bkey a) = g at hr
  cases g with
  | error e => cases e <;> simp [mInner, Prog.run] at hr
  | ok x =>
    have hx := get_ok _ _ _ hg
    simp only [mInner] at hr
    cases hd : decU64 x with
    | none => simp [hd, Prog.run] at hr
    | some bal =>
      simp only [hd, subU64] at hr
      by_cases hle : amt ≤ bal
      · simp only [hle, if_true] at hr
        have hrb : readBal .morpheus v.cur a = some bal := by
          have : v.cur (Handler.morpheus.key a) = some x := hx
          simp [readBal, this, hd]
        by_cases h0 : bal - amt = 0
        · simp only [h0, if_true, Prog.run] at hr
          rcases remove_cases v (bkey a) with ⟨h2, h1⟩ | ⟨e, h2, _⟩
          · simp only [h2] at hr
            refine ⟨bal, (v.remove (bkey a)).1, hrb, hle, ?_, by rw [h0]; exact hr⟩
            rw [h1]; simp [charge, h0, bkey]
          · simp [h2, Prog.run] at hr
        · simp only [h0, if_false, Prog.run] at hr
          rcases insert_cases v (bkey a) (encU64 (bal - amt)) with ⟨h2, h1⟩ | ⟨e, h2, _⟩
          · simp only [h2] at hr
            refine ⟨bal, (v.insert (bkey a) (encU64 (bal - amt))).1, hrb, hle, ?_, hr⟩
            rw [h1]; simp [charge, h0, bkey]
          · simp [h2, Prog.run] at hr
      · simp [hle, Prog.run] at hr

/-- `storage.AddBalance` succeeded: no overflow, the record becomes `balance + amount`. -/
theorem mAdd_run (a : Addr) (amt : Nat) (cont : Nat → Prog) (v v' : View) (o : Val)
    (hr : (mAdd (bkey a) amt cont).run v = (v', .ok o)) :
    ∃ v1, balOf v.cur a + amt < u64 ∧
      v1.cur = upd v.cur (bkey a) (some (encU64 (balOf v.cur a + amt))) ∧
      (cont (balOf v.cur a + amt)).run v1 = (v', .ok o) := by
  simp only [mAdd, Prog.run] at hr
  generalize hg : v.get (bkey a) = g at hr
  -- the balance the handler computes is `balOf`
  have key : ∀ bal ok, mInner g = .ok (bal, ok) → bal = balOf v.cur a := by
    intro bal ok hm
    cases g with
    | error e =>
      cases e <;> simp [mInner] at hm
      -- notfound: the record is absent
      unfold View.get at hg
      split at hg
      · simp at hg
      · split at hg
        · rename_i hnone; simp [balOf, hnone, hm.1]
        · simp at hg
    | ok x =>
      have hx := get_ok _ _ _ hg
      simp only [mInner] at hm
      cases hd : decU64 x with
      | none => simp [hd] at hm
      | some n => simp [hd] at hm; simp [balOf, hx, hd, hm.1]
  cases hm : mInner g with
  | error e => simp [hm, Prog.run] at hr
  | ok p =>
    obtain ⟨bal, ok⟩ := p
    have hb := key bal ok hm
    subst hb
    simp only [hm, addU64] at hr
    by_cases hlt : balOf v.cur a + amt < u64
    · simp only [hlt, if_true, Prog.run] at hr
      rcases insert_cases v (bkey a) (encU64 (balOf v.cur a + amt)) with ⟨h2, h1⟩ | ⟨e, h2, _⟩
      · simp only [h2] at hr
        exact ⟨_, hlt, h1, hr⟩
      · simp [h2, Prog.run] at hr
    · simp [hlt, Prog.run] at hr

end HyperModel.Proofs.Token
