import HyperModel.Proofs.BlockExec
/-!
The inductive invariant of the parallel step relation `Step` (C01): as long as no error has been
raised, (1) started tasks have all earlier conflicting tasks finished, (2) the shared diff is the
block-order merge of the sequential changes of the committed tasks, (3) every running task is on
the trajectory of its sequential execution, (4) committed tasks recorded their sequential result.
-/
namespace HyperModel.BlockExecProofs
open HyperModel.BlockExec

theorem setAt_same {α} (f : Nat → α) (i : Nat) (x : α) : setAt f i x i = x := by simp [setAt]
theorem setAt_ne {α} (f : Nat → α) {i j : Nat} (x : α) (h : j ≠ i) : setAt f i x j = f j := by simp [setAt, h]

structure Good (c : Ctx) (s : PState) : Prop where
  order : ∀ i j, i < j → s.st j ≠ .idle → Conflict c i j → s.st i = .done
  diff_eq : s.diff = diffOf c (fun i => (s.st i).isCommitted) c.txs.length
  run_ok : ∀ i ls rem t, s.st i = .running ls rem → c.txs[i]? = some t →
    runFrom t c.prices (baseGet c.parent (sd c i)) ls rem = runTx c t (sd c i) ∧ LWC t ls
  comm_ok : ∀ i, (s.st i).isCommitted = true →
    ¬ AbortAt c i ∧ s.results i = resultAt c i

structure Inv (c : Ctx) (s : PState) : Prop where
  enq_le : s.enq ≤ c.txs.length
  started : ∀ i, s.st i ≠ .idle → i < s.enq
  cons_ok : s.stopped = false → cons c s.enq = some s.consumed
  stopped_err : s.stopped = true → s.err = true
  err_seq : s.err = true → SeqFails c
  good : s.err = false → Good c s

theorem inv_init (c : Ctx) : Inv c (PState.init c) where
  enq_le := Nat.zero_le _
  started := fun i h => absurd rfl h
  cons_ok := fun _ => rfl
  stopped_err := fun h => by cases h
  err_seq := fun h => by cases h
  good := fun _ =>
    { order := fun i j _ h _ => absurd rfl h
      diff_eq := by
        show emptyDiff = _
        rw [diffOf_false]; intro j; rfl
      run_ok := fun i ls rem t h _ => by cases h
      comm_ok := fun i h => by cases h }

/-- while task `i` runs, the shared diff shows it, at every key it can access, exactly the
sequential pre-state of tx `i` -/
theorem base_agree {c : Ctx} {s : PState} (hinv : Inv c s) (g : Good c s) {i : Nat} {ls : Local}
    {rem : List Instr} {t : Tx} (hr : s.st i = .running ls rem) (ht : c.txs[i]? = some t)
    (k : Key) (hk : Acc t k) :
    baseGet c.parent s.diff k = baseGet c.parent (sd c i) k := by
  have hiN : i < c.txs.length := by
    have := hinv.started i (by rw [hr]; intro h; cases h)
    have := hinv.enq_le
    omega
  have : s.diff k = sd c i k := by
    rw [g.diff_eq]
    have := diffOf_eq_sd c (fun i => (s.st i).isCommitted) i k c.txs.length ?_ ?_
    · rw [this]; congr 1; omega
    · intro j _ hji hch
      obtain ⟨tj, htj, hw⟩ := chn_write hch
      have hc : Conflict c j i := ⟨tj, t, htj, ht, (conflict_of_write_acc hw hk).1⟩
      have := g.order j i hji (by rw [hr]; intro h; cases h) hc
      simp [this, TxSt.isCommitted]
    · intro j _ hij hF
      cases hx : chn c j k with
      | none => rfl
      | some x =>
        exfalso
        have hne : j ≠ i := by
          intro e; subst e; rw [hr] at hF; cases hF
        obtain ⟨tj, htj, hw⟩ := chn_write (by rw [hx]; simp : chn c j k ≠ none)
        have hc : Conflict c i j := ⟨t, tj, ht, htj, (conflict_of_write_acc hw hk).2⟩
        have hjs : s.st j ≠ .idle := by
          intro e; rw [e] at hF; cases hF
        have := g.order i j (by omega) hjs hc
        rw [hr] at this; cases this
  unfold baseGet; rw [this]

/-- facts about a running task that every state change at index `i` needs -/
theorem step_on_seq {c : Ctx} {s : PState} (hinv : Inv c s) (g : Good c s) {i : Nat} {ls : Local}
    {ins : Instr} {rem : List Instr} {t : Tx} (hr : s.st i = .running ls (ins :: rem)) (ht : c.txs[i]? = some t) :
    stepInstr t c.prices (baseGet c.parent s.diff) ls ins =
      stepInstr t c.prices (baseGet c.parent (sd c i)) ls ins :=
  stepInstr_congr (fun k hk => base_agree hinv g hr ht k hk) ins

/-- changing the state of a task that stays non-committed and non-idle keeps `Good`'s
order and diff clauses -/
theorem good_of_same_flags {c : Ctx} {s s' : PState} (g : Good c s)
    (hdiff : s'.diff = s.diff)
    (hidle : ∀ j, s'.st j ≠ .idle → s.st j ≠ .idle ∨ (∀ a, a < j → Conflict c a j → s.st a = .done))
    (hdone : ∀ j, s.st j = .done → s'.st j = .done)
    (hcomm : ∀ j, (s'.st j).isCommitted = (s.st j).isCommitted)
    (hrun : ∀ i ls rem t, s'.st i = .running ls rem → c.txs[i]? = some t →
      runFrom t c.prices (baseGet c.parent (sd c i)) ls rem = runTx c t (sd c i) ∧ LWC t ls)
    (hres : ∀ i, (s.st i).isCommitted = true → s'.results i = s.results i) : Good c s' where
  order := by
    intro a b hab hb hc
    rcases hidle b hb with h | h
    · exact hdone a (g.order a b hab h hc)
    · exact hdone a (h a hab hc)
  diff_eq := by
    rw [hdiff, g.diff_eq]
    congr 1; funext j; exact (hcomm j).symm
  run_ok := hrun
  comm_ok := by
    intro i hi
    rw [hcomm i] at hi
    have := g.comm_ok i hi
    exact ⟨this.1, by rw [hres i hi]; exact this.2⟩

theorem inv_step {c : Ctx} {s s' : PState} (hinv : Inv c s) (hs : Step c s s') : Inv c s' := by
  cases hs with
  | @enqueueOk t u' hst ht hc =>
    have hlt : s.enq < c.txs.length := (List.getElem?_eq_some_iff.mp ht).1
    exact
      { enq_le := hlt
        started := fun i h => Nat.lt_succ_of_lt (hinv.started i h)
        cons_ok := fun _ => by
          show cons c (s.enq + 1) = some u'
          unfold cons; rw [hinv.cons_ok hst, ht]; exact hc
        stopped_err := hinv.stopped_err
        err_seq := hinv.err_seq
        good := fun he =>
          let g := hinv.good he
          ⟨g.order, g.diff_eq, g.run_ok, g.comm_ok⟩ }
  | @enqueueFail t hst ht hc =>
    have hlt : s.enq < c.txs.length := (List.getElem?_eq_some_iff.mp ht).1
    exact
      { enq_le := hinv.enq_le
        started := hinv.started
        cons_ok := fun h => by cases h
        stopped_err := fun _ => rfl
        err_seq := fun _ => by
          left
          apply cons_none_mono c (n := s.enq + 1) _ _ hlt
          unfold cons; rw [hinv.cons_ok hst, ht]; exact hc
        good := fun h => by cases h }
  | @start i t hi hidle ht hdeps herr =>
    have hne : ∀ j, j ≠ i → setAt s.st i (TxSt.running Local.init (compile t)) j = s.st j :=
      fun j h => setAt_ne _ _ h
    exact
      { enq_le := hinv.enq_le
        started := fun j h => by
          by_cases e : j = i
          · subst e; exact hi
          · exact hinv.started j (by rw [← hne j e]; exact h)
        cons_ok := hinv.cons_ok
        stopped_err := hinv.stopped_err
        err_seq := hinv.err_seq
        good := fun he => by
          have g := hinv.good he
          refine good_of_same_flags g rfl ?_ ?_ ?_ ?_ (fun _ _ => rfl)
          · intro j hj
            by_cases e : j = i
            · subst e; exact Or.inr hdeps
            · left; rw [← hne j e]; exact hj
          · intro j hj
            by_cases e : j = i
            · subst e; rw [hidle] at hj; cases hj
            · show setAt s.st i _ j = _
              rw [hne j e]; exact hj
          · intro j
            by_cases e : j = i
            · subst e; show (setAt s.st j _ j).isCommitted = _
              rw [setAt_same, hidle]; rfl
            · show (setAt s.st i _ j).isCommitted = _
              rw [hne j e]
          · intro j ls rem t' hj ht'
            by_cases e : j = i
            · subst e
              have hj' : setAt s.st j (TxSt.running Local.init (compile t)) j = .running ls rem := hj
              rw [setAt_same] at hj'
              rw [ht] at ht'; cases ht'
              cases hj'
              exact ⟨rfl, WC_empty _, WC_empty _⟩
            · have hj' : setAt s.st i (TxSt.running Local.init (compile t)) j = .running ls rem := hj
              rw [hne j e] at hj'
              exact g.run_ok j ls rem t' hj' ht' }
  | @skip i hi hidle hdeps herr =>
    exact
      { enq_le := hinv.enq_le
        started := fun j h => by
          by_cases e : j = i
          · subst e; exact hi
          · exact hinv.started j (by rw [← setAt_ne s.st TxSt.done e]; exact h)
        cons_ok := hinv.cons_ok
        stopped_err := hinv.stopped_err
        err_seq := hinv.err_seq
        good := fun he => by rw [herr] at he; cases he }
  | @stepCont i t ls ins rem ls' hr ht hstep =>
    have hne : ∀ j, j ≠ i → setAt s.st i (TxSt.running ls' rem) j = s.st j := fun j h => setAt_ne _ _ h
    exact
      { enq_le := hinv.enq_le
        started := fun j h => by
          by_cases e : j = i
          · subst e; exact hinv.started j (by rw [hr]; intro h; cases h)
          · exact hinv.started j (by rw [← hne j e]; exact h)
        cons_ok := hinv.cons_ok
        stopped_err := hinv.stopped_err
        err_seq := hinv.err_seq
        good := fun he => by
          have g := hinv.good he
          refine good_of_same_flags g rfl ?_ ?_ ?_ ?_ (fun _ _ => rfl)
          · intro j hj
            by_cases e : j = i
            · subst e; left; rw [hr]; intro h; cases h
            · left; rw [← hne j e]; exact hj
          · intro j hj
            by_cases e : j = i
            · subst e; rw [hr] at hj; cases hj
            · show setAt s.st i _ j = _
              rw [hne j e]; exact hj
          · intro j
            by_cases e : j = i
            · subst e; show (setAt s.st j _ j).isCommitted = _
              rw [setAt_same, hr]; rfl
            · show (setAt s.st i _ j).isCommitted = _
              rw [hne j e]
          · intro j l2 r2 t' hj ht'
            by_cases e : j = i
            · subst e
              have hj' : setAt s.st j (TxSt.running ls' rem) j = .running l2 r2 := hj
              rw [setAt_same] at hj'
              rw [ht] at ht'; cases ht'
              cases hj'
              have old := g.run_ok j ls (ins :: rem) t hr ht
              have hstep' := hstep
              rw [step_on_seq hinv g hr ht] at hstep'
              refine ⟨?_, stepInstr_wc old.2 (Or.inl hstep')⟩
              rw [← old.1]
              conv => rhs; unfold runFrom
              rw [hstep']
            · have hj' : setAt s.st i (TxSt.running ls' rem) j = .running l2 r2 := hj
              rw [hne j e] at hj'
              exact g.run_ok j l2 r2 t' hj' ht' }
  | @stepFail i t ls ins rem ls' hr ht hstep =>
    have hne : ∀ j, j ≠ i → setAt s.st i (TxSt.running ls' []) j = s.st j := fun j h => setAt_ne _ _ h
    exact
      { enq_le := hinv.enq_le
        started := fun j h => by
          by_cases e : j = i
          · subst e; exact hinv.started j (by rw [hr]; intro h; cases h)
          · exact hinv.started j (by rw [← hne j e]; exact h)
        cons_ok := hinv.cons_ok
        stopped_err := hinv.stopped_err
        err_seq := hinv.err_seq
        good := fun he => by
          have g := hinv.good he
          refine good_of_same_flags g rfl ?_ ?_ ?_ ?_ (fun _ _ => rfl)
          · intro j hj
            by_cases e : j = i
            · subst e; left; rw [hr]; intro h; cases h
            · left; rw [← hne j e]; exact hj
          · intro j hj
            by_cases e : j = i
            · subst e; rw [hr] at hj; cases hj
            · show setAt s.st i _ j = _
              rw [hne j e]; exact hj
          · intro j
            by_cases e : j = i
            · subst e; show (setAt s.st j _ j).isCommitted = _
              rw [setAt_same, hr]; rfl
            · show (setAt s.st i _ j).isCommitted = _
              rw [hne j e]
          · intro j l2 r2 t' hj ht'
            by_cases e : j = i
            · subst e
              have hj' : setAt s.st j (TxSt.running ls' []) j = .running l2 r2 := hj
              rw [setAt_same] at hj'
              rw [ht] at ht'; cases ht'
              cases hj'
              have old := g.run_ok j ls (ins :: rem) t hr ht
              have hstep' := hstep
              rw [step_on_seq hinv g hr ht] at hstep'
              refine ⟨?_, stepInstr_wc old.2 (Or.inr hstep')⟩
              rw [← old.1]
              conv => rhs; unfold runFrom
              rw [hstep']
              unfold runFrom; rfl
            · have hj' : setAt s.st i (TxSt.running ls' []) j = .running l2 r2 := hj
              rw [hne j e] at hj'
              exact g.run_ok j l2 r2 t' hj' ht' }
  | @stepAbort i t ls ins rem a hr ht hstep =>
    exact
      { enq_le := hinv.enq_le
        started := fun j h => by
          by_cases e : j = i
          · subst e; exact hinv.started j (by rw [hr]; intro h; cases h)
          · exact hinv.started j (by rw [← setAt_ne s.st TxSt.done e]; exact h)
        cons_ok := hinv.cons_ok
        stopped_err := fun _ => rfl
        err_seq := fun _ => by
          by_cases he : s.err = true
          · exact hinv.err_seq he
          · have he' : s.err = false := by simpa using he
            have g := hinv.good he'
            have old := g.run_ok i ls (ins :: rem) t hr ht
            have hstep' := hstep
            rw [step_on_seq hinv g hr ht] at hstep'
            right
            have hiN : i < c.txs.length := (List.getElem?_eq_some_iff.mp ht).1
            refine ⟨i, hiN, t, a, ht, ?_⟩
            rw [← old.1]
            unfold runFrom
            rw [hstep']
        good := fun h => by cases h }
  | @commit i t ls hr ht =>
    have hne : ∀ j, j ≠ i → setAt s.st i TxSt.committed j = s.st j := fun j h => setAt_ne _ _ h
    exact
      { enq_le := hinv.enq_le
        started := fun j h => by
          by_cases e : j = i
          · subst e; exact hinv.started j (by rw [hr]; intro h; cases h)
          · exact hinv.started j (by rw [← hne j e]; exact h)
        cons_ok := hinv.cons_ok
        stopped_err := hinv.stopped_err
        err_seq := hinv.err_seq
        good := fun he => by
          have g := hinv.good he
          have old := g.run_ok i ls [] t hr ht
          have hrun : runTx c t (sd c i) = .ok ls := by rw [← old.1]; unfold runFrom; rfl
          have hch : chn c i = ls.pend := by
            simp only [chn, ch, ht, hrun, pendOf]
          have hres : resultAt c i = some (mkResult t ls) := by
            simp only [resultAt, ht, hrun]
          exact
            { order := by
                intro a b hab hb hc
                have hb' : s.st b ≠ .idle := by
                  by_cases e : b = i
                  · subst e; rw [hr]; intro h; cases h
                  · rw [← hne b e]; exact hb
                have := g.order a b hab hb' hc
                have hai : a ≠ i := by
                  intro e; subst e; rw [hr] at this; cases this
                show setAt s.st i _ a = _
                rw [hne a hai]; exact this
              diff_eq := by
                show merge s.diff ls.pend = _
                have hF : (fun j => (setAt s.st i TxSt.committed j).isCommitted) =
                    setB (fun j => (s.st j).isCommitted) i := by
                  funext j
                  by_cases e : j = i
                  · subst e; simp [setAt_same, setB, TxSt.isCommitted]
                  · simp [hne j e, setB, e]
                have hiN : i < c.txs.length := (List.getElem?_eq_some_iff.mp ht).1
                show merge s.diff ls.pend = diffOf c (fun j => (setAt s.st i TxSt.committed j).isCommitted) c.txs.length
                rw [hF]
                funext k
                cases hx : ls.pend k with
                | none =>
                  rw [merge_none hx, diffOf_set_none c _ i k (by rw [hch]; exact hx), g.diff_eq]
                | some x =>
                  rw [merge_some hx]
                  symm
                  apply diffOf_set_some c _ i k x (by rw [hch]; exact hx) _ hiN
                  intro j hij _ hF
                  cases hy : chn c j k with
                  | none => rfl
                  | some y =>
                    exfalso
                    obtain ⟨tj, htj, hw⟩ := chn_write (by rw [hy]; simp : chn c j k ≠ none)
                    have hwi : hasPerm (t.perm k) pWrite = true :=
                      old.2.1 k (by rw [hx]; simp)
                    have hc : Conflict c i j := ⟨t, tj, ht, htj, (conflict_of_write_acc hw (Or.inr hwi)).2⟩
                    have hjs : s.st j ≠ .idle := by
                      intro e; rw [e] at hF; cases hF
                    have := g.order i j hij hjs hc
                    rw [hr] at this; cases this
              run_ok := by
                intro j l2 r2 t' hj ht'
                have hji : j ≠ i := by
                  intro e; subst e
                  have hj' : setAt s.st j TxSt.committed j = .running l2 r2 := hj
                  rw [setAt_same] at hj'; cases hj'
                have hj' : setAt s.st i TxSt.committed j = .running l2 r2 := hj
                rw [hne j hji] at hj'
                exact g.run_ok j l2 r2 t' hj' ht'
              comm_ok := by
                intro j hj
                by_cases e : j = i
                · subst e
                  refine ⟨?_, ?_⟩
                  · rintro ⟨t', a, ht', ha⟩
                    rw [ht] at ht'; cases ht'
                    rw [hrun] at ha; cases ha
                  · show setAt s.results j _ j = _
                    rw [setAt_same, hres]
                · have hj' : (setAt s.st i TxSt.committed j).isCommitted = true := hj
                  rw [hne j e] at hj'
                  have := g.comm_ok j hj'
                  refine ⟨this.1, ?_⟩
                  show setAt s.results i _ j = _
                  rw [setAt_ne _ _ e]; exact this.2 } }
  | @finish i hcm =>
    have hne : ∀ j, j ≠ i → setAt s.st i TxSt.done j = s.st j := fun j h => setAt_ne _ _ h
    exact
      { enq_le := hinv.enq_le
        started := fun j h => by
          by_cases e : j = i
          · subst e; exact hinv.started j (by rw [hcm]; intro h; cases h)
          · exact hinv.started j (by rw [← hne j e]; exact h)
        cons_ok := hinv.cons_ok
        stopped_err := hinv.stopped_err
        err_seq := hinv.err_seq
        good := fun he => by
          have g := hinv.good he
          refine good_of_same_flags g rfl ?_ ?_ ?_ ?_ (fun _ _ => rfl)
          · intro j hj
            by_cases e : j = i
            · subst e; left; rw [hcm]; intro h; cases h
            · left; rw [← hne j e]; exact hj
          · intro j hj
            by_cases e : j = i
            · subst e; show setAt s.st j _ j = _
              rw [setAt_same]
            · show setAt s.st i _ j = _
              rw [hne j e]; exact hj
          · intro j
            by_cases e : j = i
            · subst e; show (setAt s.st j _ j).isCommitted = _
              rw [setAt_same, hcm]; rfl
            · show (setAt s.st i _ j).isCommitted = _
              rw [hne j e]
          · intro j l2 r2 t' hj ht'
            have hji : j ≠ i := by
              intro e; subst e
              have hj' : setAt s.st j TxSt.done j = .running l2 r2 := hj
              rw [setAt_same] at hj'; cases hj'
            have hj' : setAt s.st i TxSt.done j = .running l2 r2 := hj
            rw [hne j hji] at hj'
            exact g.run_ok j l2 r2 t' hj' ht' }

theorem inv_reachable {c : Ctx} {s : PState} (h : Reachable c s) : Inv c s := by
  induction h with
  | init => exact inv_init c
  | step _ hs ih => exact inv_step ih hs

/-- a final state without error: the main loop is through and every task has finished -/
theorem terminal_done {c : Ctx} {s : PState} (hinv : Inv c s) (hterm : Terminal c s)
    (he : s.err = false) : s.enq = c.txs.length ∧ ∀ i, i < c.txs.length → s.st i = .done := by
  have hst : s.stopped = false := by
    cases h : s.stopped with
    | false => rfl
    | true => have := hinv.stopped_err h; rw [he] at this; cases this
  have henq : s.enq = c.txs.length := by
    by_cases h : s.enq < c.txs.length
    · exfalso
      have ht : c.txs[s.enq]? = some c.txs[s.enq] := List.getElem?_eq_getElem h
      cases hc : consume s.consumed (c.txs[s.enq]).units c.maxUnits with
      | none => exact hterm ⟨_, Step.enqueueFail hst ht hc⟩
      | some u => exact hterm ⟨_, Step.enqueueOk hst ht hc⟩
    · have := hinv.enq_le; omega
  refine ⟨henq, ?_⟩
  intro i
  induction i using Nat.strongRecOn with
  | _ i ih =>
    intro hi
    have ht : c.txs[i]? = some c.txs[i] := List.getElem?_eq_getElem hi
    cases hsi : s.st i with
    | done => rfl
    | idle =>
      exfalso
      refine hterm ⟨_, Step.start (by omega) hsi ht ?_ he⟩
      intro j hj _
      exact ih j hj (by omega)
    | committed => exact absurd ⟨_, Step.finish hsi⟩ hterm
    | running ls rem =>
      exfalso
      cases rem with
      | nil => exact hterm ⟨_, Step.commit hsi ht⟩
      | cons ins rem =>
        cases hstep : stepInstr c.txs[i] c.prices (baseGet c.parent s.diff) ls ins with
        | cont l2 => exact hterm ⟨_, Step.stepCont hsi ht hstep⟩
        | failTx l2 => exact hterm ⟨_, Step.stepFail hsi ht hstep⟩
        | abort a => exact hterm ⟨_, Step.stepAbort hsi ht hstep⟩

end HyperModel.BlockExecProofs
