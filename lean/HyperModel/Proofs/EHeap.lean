import HyperModel.Proofs.Heap
import HyperModel.Model.EHeap
/-!
Facts about `Model/EHeap.lean` for every state satisfying `EInv` (which every reachable state
does: `EInv.new`, and each operation preserves it). The abstract reading of an `EHeap` is the list
`eh.items` up to permutation, i.e. a finite set of items with pairwise distinct IDs.
Core Lean only.
-/
namespace HyperModel.EHeap
open HyperModel.Heap
set_option linter.unusedSectionVars false
variable {α : Type} [Inhabited α] [ExpItem α]

theorem nodup_map_inj {α β} (f : α → β) : ∀ (l : List α), (l.map f).Nodup →
    ∀ x, x ∈ l → ∀ y, y ∈ l → f x = f y → x = y := by
  intro l
  induction l with
  | nil => intro _ x hx; cases hx
  | cons a l ih =>
    intro hnd x hx y hy hxy
    simp only [List.map_cons, List.nodup_cons, List.mem_map, not_exists, not_and] at hnd
    rcases List.mem_cons.1 hx with rfl | hx' <;> rcases List.mem_cons.1 hy with rfl | hy'
    · rfl
    · exact absurd hxy.symm (hnd.1 y hy')
    · exact absurd hxy (hnd.1 x hx')
    · exact ih hnd.2 x hx' y hy' hxy

/-- the position-free entry that `Add` builds for an item -/
def mkC (x : α) : Entry α := { id := ExpItem.id x, item := x, val := ExpItem.expiry x, index := 0 }

/-- Representation invariant of `ExpiryHeap`. -/
structure EInv (eh : EHeap α) : Prop where
  heap : Inv eh.minHeap
  isMin : eh.minHeap.isMin = true
  ent : ∀ c, c ∈ cores eh.minHeap.items → c = mkC c.item

theorem items_eq (eh : EHeap α) : eh.items = (cores eh.minHeap.items).map (·.item) := by
  simp [EHeap.items, cores, Function.comp_def]

theorem EInv.cores_eq {eh : EHeap α} (hI : EInv eh) : cores eh.minHeap.items = eh.items.map mkC := by
  rw [items_eq, List.map_map]
  conv => lhs; rw [← List.map_id (cores eh.minHeap.items)]
  apply List.map_congr_left
  intro c hc
  exact hI.ent c hc

theorem EInv.ids_eq {eh : EHeap α} (hI : EInv eh) : ids eh.minHeap.items = eh.items.map ExpItem.id := by
  rw [ids, hI.cores_eq, List.map_map]; rfl

theorem EInv.new : EInv (EHeap.new : EHeap α) where
  heap := Inv.new true
  isMin := rfl
  ent := by intro c hc; simp [EHeap.new, Heap.new, cores] at hc

theorem len_eq (eh : EHeap α) : eh.len = eh.items.length := by
  simp [EHeap.len, Heap.len, EHeap.items]

theorem EInv.has_iff {eh : EHeap α} (hI : EInv eh) (id : ID) :
    eh.has id = true ↔ ∃ x, x ∈ eh.items ∧ ExpItem.id x = id := by
  simp only [EHeap.has, Heap.has]
  rw [hI.heap.lookup, hI.ids_eq]
  simp

theorem EInv.ids_nodup {eh : EHeap α} (hI : EInv eh) : (eh.items.map ExpItem.id).Nodup := by
  rw [← hI.ids_eq]; exact hI.heap.nodup

/-- transfer a permutation of cores to a permutation of items -/
theorem items_perm_of_cores {eh eh' : EHeap α} {c : Entry α}
    (h : (cores eh.minHeap.items).Perm (c :: cores eh'.minHeap.items)) :
    eh.items.Perm (c.item :: eh'.items) := by
  rw [items_eq, items_eq]
  simpa using h.map (·.item)

theorem add_spec (eh : EHeap α) (hI : EInv eh) (x : α) :
    EInv (eh.add x) ∧
    (eh.has (ExpItem.id x) = true → eh.add x = eh) ∧
    (eh.has (ExpItem.id x) = false → (eh.add x).items.Perm (x :: eh.items)) := by
  by_cases hh : eh.has (ExpItem.id x) = true
  · have : eh.add x = eh := by
      simp only [EHeap.add]
      rw [push_dup _ hI.heap _ (by simpa [EHeap.has, Heap.has] using hh)]
    rw [this]
    exact ⟨hI, fun _ => rfl, fun h => by rw [h] at hh; cases hh⟩
  · have hh' : eh.minHeap.lookup (ExpItem.id x) = false := by
      simpa [EHeap.has, Heap.has] using hh
    obtain ⟨hinv, hmin, hperm, _⟩ := push_new eh.minHeap hI.heap
      { id := ExpItem.id x, val := ExpItem.expiry x, item := x, index := eh.minHeap.len } hh' rfl
    refine ⟨⟨hinv, by simpa [EHeap.add] using hmin.trans hI.isMin, ?_⟩, fun h => absurd h hh, fun _ => ?_⟩
    · intro c hc
      have := hperm.mem_iff.1 hc
      rw [List.mem_cons] at this
      rcases this with rfl | h
      · rfl
      · exact hI.ent c h
    · have := hperm.map (·.item)
      rw [items_eq, items_eq]
      simpa [EHeap.add] using this

theorem remove_spec (eh : EHeap α) (hI : EInv eh) (id : ID) :
    (eh.has id = false → eh.remove id = (eh, none)) ∧
    (eh.has id = true → ∃ x, (eh.remove id).2 = some x ∧ ExpItem.id x = id ∧ x ∈ eh.items ∧
      EInv (eh.remove id).1 ∧ eh.items.Perm (x :: (eh.remove id).1.items)) := by
  obtain ⟨hg0, hg1⟩ := get_spec eh.minHeap hI.heap id
  constructor
  · intro hh
    simp only [EHeap.remove, hg0 (by simpa [EHeap.has, Heap.has] using hh)]
  · intro hh
    obtain ⟨k, hk, hget, hkid, hkidx⟩ := hg1 (by simpa [EHeap.has, Heap.has] using hh)
    obtain ⟨e, hre, hec, hinv, hmin, hperm⟩ := Heap.remove_spec eh.minHeap hI.heap k hk
    have hmem : eh.minHeap.items[k]!.core ∈ cores eh.minHeap.items :=
      (mem_cores_iff _ _).2 ⟨k, hk, rfl⟩
    have hent := hI.ent _ hmem
    have hrm : eh.remove id = (⟨(eh.minHeap.remove k).1⟩, some eh.minHeap.items[k]!.item) := by
      simp only [EHeap.remove, hget, hkidx]
    rw [hrm]
    refine ⟨_, rfl, ?_, ?_, ⟨hinv, hmin.trans hI.isMin, ?_⟩, ?_⟩
    · have := congrArg Entry.id hent
      simp only [Entry.core_id, Entry.core_item, mkC] at this
      rw [← this, hkid]
    · rw [items_eq]
      exact List.mem_map.2 ⟨_, hmem, rfl⟩
    · intro c hc
      exact hI.ent c (hperm.mem_iff.2 (List.mem_cons_of_mem _ hc))
    · simpa using items_perm_of_cores (eh' := ⟨(eh.minHeap.remove k).1⟩) (c := eh.minHeap.items[k]!.core) hperm

theorem peekMin_spec (eh : EHeap α) (hI : EInv eh) :
    (eh.items = [] → eh.peekMin = none) ∧
    (eh.items ≠ [] → ∃ x, eh.peekMin = some x ∧ x ∈ eh.items ∧
      ∀ y, y ∈ eh.items → ExpItem.expiry x ≤ ExpItem.expiry y) := by
  obtain ⟨hf0, hf1⟩ := first_spec eh.minHeap hI.heap
  have hlen : eh.items.length = eh.minHeap.items.size := by simp [EHeap.items]
  constructor
  · intro he
    have : eh.minHeap.items.size = 0 := by rw [← hlen, he]; rfl
    simp [EHeap.peekMin, hf0 this]
  · intro hne
    have h0 : 0 < eh.minHeap.items.size := by
      rw [← hlen]; exact List.length_pos_iff.2 hne
    obtain ⟨hf, hmin⟩ := hf1 h0
    have hval : ∀ k, k < eh.minHeap.items.size →
        eh.minHeap.items[k]!.item ∈ eh.items ∧
        K true eh.minHeap.items k = ExpItem.expiry eh.minHeap.items[k]!.item := by
      intro k hk
      have hmem : eh.minHeap.items[k]!.core ∈ cores eh.minHeap.items := (mem_cores_iff _ _).2 ⟨k, hk, rfl⟩
      have hent := congrArg Entry.val (hI.ent _ hmem)
      simp only [Entry.core_val, Entry.core_item, mkC] at hent
      refine ⟨?_, by simp [K, key, hent]⟩
      rw [items_eq]; exact List.mem_map.2 ⟨_, hmem, rfl⟩
    refine ⟨eh.minHeap.items[0]!.item, by simp [EHeap.peekMin, hf], (hval 0 h0).1, ?_⟩
    intro y hy
    rw [items_eq, List.mem_map] at hy
    obtain ⟨c, hc, rfl⟩ := hy
    obtain ⟨k, hk, rfl⟩ := (mem_cores_iff _ _).1 hc
    have := hmin k hk
    rw [hI.isMin, (hval 0 h0).2, (hval k hk).2] at this
    exact this

theorem popMin_spec (eh : EHeap α) (hI : EInv eh) (x : α) (hx : eh.peekMin = some x) :
    (eh.popMin).2 = some x ∧ EInv (eh.popMin).1 ∧ eh.items.Perm (x :: (eh.popMin).1.items) := by
  have hne : eh.items ≠ [] := by
    intro he; rw [(peekMin_spec eh hI).1 he] at hx; cases hx
  obtain ⟨x', hx', hmem, _⟩ := (peekMin_spec eh hI).2 hne
  rw [hx] at hx'; cases hx'
  have hfirst : ∃ e, eh.minHeap.first = some e ∧ e.item = x := by
    simp only [EHeap.peekMin] at hx
    split at hx
    · cases hx
    · rename_i e he; exact ⟨e, he, by simpa using hx⟩
  obtain ⟨e, he, rfl⟩ := hfirst
  have hhas : eh.has (ExpItem.id e.item) = true := (hI.has_iff _).2 ⟨_, hmem, rfl⟩
  obtain ⟨y, hy, hyid, hymem, hinv, hperm⟩ := (remove_spec eh hI (ExpItem.id e.item)).2 hhas
  -- distinct IDs: the removed item is the minimum itself
  have hyx : y = e.item :=
    nodup_map_inj ExpItem.id _ hI.ids_nodup y hymem e.item hmem hyid
  subst hyx
  simp only [EHeap.popMin, he]
  exact ⟨trivial, hinv, hperm⟩

theorem setMinLoop_spec (t : Int) (fuel : Nat) (eh : EHeap α) (acc : List α) (hI : EInv eh)
    (hf : eh.items.length ≤ fuel) :
    ∃ out, (EHeap.setMinLoop t fuel eh acc).2 = acc ++ out ∧
      EInv (EHeap.setMinLoop t fuel eh acc).1 ∧
      eh.items.Perm (out ++ (EHeap.setMinLoop t fuel eh acc).1.items) ∧
      (∀ x, x ∈ out → ExpItem.expiry x < t) ∧
      (∀ y, y ∈ (EHeap.setMinLoop t fuel eh acc).1.items → t ≤ ExpItem.expiry y) := by
  induction fuel generalizing eh acc with
  | zero =>
    have he : eh.items = [] := List.length_eq_zero_iff.1 (by omega)
    refine ⟨[], by simp [EHeap.setMinLoop], hI, by simp [EHeap.setMinLoop], by simp, ?_⟩
    simp [EHeap.setMinLoop, he]
  | succ fuel ih =>
    by_cases he : eh.items = []
    · have := (peekMin_spec eh hI).1 he
      refine ⟨[], by simp [EHeap.setMinLoop, this], by simpa [EHeap.setMinLoop, this] using hI,
        by simp [EHeap.setMinLoop, this], by simp, ?_⟩
      simp [EHeap.setMinLoop, this, he]
    · obtain ⟨x, hx, hmem, hmin⟩ := (peekMin_spec eh hI).2 he
      by_cases hlt : ExpItem.expiry x < t
      · obtain ⟨_, hinv, hperm⟩ := popMin_spec eh hI x hx
        have hlen : (eh.popMin).1.items.length ≤ fuel := by
          have := hperm.length_eq; simp at this; omega
        obtain ⟨out, ho1, ho2, ho3, ho4, ho5⟩ := ih (eh.popMin).1 (acc ++ [x]) hinv hlen
        have hstep : EHeap.setMinLoop t (fuel + 1) eh acc = EHeap.setMinLoop t fuel (eh.popMin).1 (acc ++ [x]) := by
          simp [EHeap.setMinLoop, hx, hlt]
        rw [hstep]
        refine ⟨x :: out, by rw [ho1]; simp, ho2, ?_, ?_, ho5⟩
        · exact hperm.trans (by simpa using List.Perm.cons x ho3)
        · intro y hy
          rcases List.mem_cons.1 hy with rfl | h
          · exact hlt
          · exact ho4 y h
      · have hstep : EHeap.setMinLoop t (fuel + 1) eh acc = (eh, acc) := by
          simp [EHeap.setMinLoop, hx, hlt]
        rw [hstep]
        refine ⟨[], by simp, hI, by simp, by simp, ?_⟩
        intro y hy
        have := hmin y hy
        omega

theorem setMin_spec (eh : EHeap α) (hI : EInv eh) (t : Int) :
    EInv (eh.setMin t).1 ∧
    eh.items.Perm ((eh.setMin t).2 ++ (eh.setMin t).1.items) ∧
    (∀ x, x ∈ (eh.setMin t).2 → ExpItem.expiry x < t) ∧
    (∀ y, y ∈ (eh.setMin t).1.items → t ≤ ExpItem.expiry y) := by
  obtain ⟨out, h1, h2, h3, h4, h5⟩ := setMinLoop_spec t eh.minHeap.len eh [] hI (by rw [← len_eq]; exact Nat.le_refl _)
  simp only [EHeap.setMin]
  rw [h1]
  simp only [List.nil_append]
  exact ⟨h2, h3, h4, h5⟩

end HyperModel.EHeap
