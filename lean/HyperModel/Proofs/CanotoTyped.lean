import HyperModel.Proofs.Canoto
/-! Lemmas connecting the typed layer of `Model/Canoto.lean` to the flat decode loop (C15, C14). -/
namespace HyperModel.Canoto

/-! ## the specs have one-byte tags -/

theorem baseSpec_ok : SpecOK baseSpec := by
  intro f k h; unfold baseSpec at h; split at h <;> first | omega | cases h
theorem txSpec_ok : SpecOK txSpec := by
  intro f k h; unfold txSpec at h; split at h <;> first | omega | cases h
theorem blockSpec_ok : SpecOK blockSpec := by
  intro f k h; unfold blockSpec at h; split at h <;> first | omega | cases h
theorem ctxSpec_ok : SpecOK ctxSpec := by
  intro f k h; unfold ctxSpec at h; split at h <;> first | omega | cases h
theorem resultSpec_ok : SpecOK resultSpec := by
  intro f k h; unfold resultSpec at h; split at h <;> first | omega | cases h
theorem execResultsSpec_ok : SpecOK execResultsSpec := by
  intro f k h; unfold execResultsSpec at h; split at h <;> first | omega | cases h
theorem executedBlockSpec_ok : SpecOK executedBlockSpec := by
  intro f k h; unfold executedBlockSpec at h; split at h <;> first | omega | cases h
theorem batchSpec_ok : SpecOK batchSpec := by
  intro f k h; unfold batchSpec at h; split at h <;> first | omega | cases h

/-! ## entries of a valid message, by kind -/

theorem allZero_zeros (n : Nat) : allZero (zeros n) = true := by
  simp [allZero, zeros]
theorem zeros_length (n : Nat) : (zeros n).length = n := by simp [zeros]

section ent
variable {spec : Spec} {lo : Nat} {m : Msg} (hv : validMsg spec lo m = true)
include hv

theorem ent_bytes {f : Nat} (hk : spec f = some .bytes) :
    ent m f = optBytes f (getBytes m f) ∧ (getBytes m f).length < 2 ^ 64 := by
  cases hl : m.lookup f with
  | none => simp [ent, getBytes, optBytes, hl]
  | some v =>
    obtain ⟨k, hk', hok⟩ := lookup_okVal spec m lo f v hv hl
    rw [hk] at hk'; cases hk'
    cases v with
    | bytes b =>
      simp only [okVal, Bool.and_eq_true, Bool.not_eq_true', decide_eq_true_eq] at hok
      simp [ent, getBytes, optBytes, hl, hok.1, hok.2]
    | num _ => simp [okVal] at hok
    | list _ => simp [okVal] at hok

theorem ent_list {f : Nat} (hk : spec f = some .repBytes) :
    ent m f = optList f (getList m f) ∧ (∀ e ∈ getList m f, e.length < 2 ^ 64) := by
  cases hl : m.lookup f with
  | none => simp [ent, getList, optList, hl]
  | some v =>
    obtain ⟨k, hk', hok⟩ := lookup_okVal spec m lo f v hv hl
    rw [hk] at hk'; cases hk'
    cases v with
    | list l =>
      simp only [okVal, Bool.and_eq_true, Bool.not_eq_true', List.all_eq_true, decide_eq_true_eq] at hok
      simp only [ent, getList, optList, hl, hok.1]
      exact ⟨by simp, hok.2⟩
    | num _ => simp [okVal] at hok
    | bytes _ => simp [okVal] at hok

theorem ent_fixed {f n : Nat} (hk : spec f = some (.fixedBytes n)) :
    ent m f = optFixed f (getFixed m f n) ∧ (getFixed m f n).length = n := by
  cases hl : m.lookup f with
  | none => simp [ent, getFixed, optFixed, hl, allZero_zeros, zeros_length]
  | some v =>
    obtain ⟨k, hk', hok⟩ := lookup_okVal spec m lo f v hv hl
    rw [hk] at hk'; cases hk'
    cases v with
    | bytes b =>
      simp only [okVal, Bool.and_eq_true, beq_iff_eq, Bool.not_eq_true', decide_eq_true_eq] at hok
      simp [ent, getFixed, optFixed, hl, hok.1.1, hok.1.2]
    | num _ => simp [okVal] at hok
    | list _ => simp [okVal] at hok

theorem ent_fixed64 {f : Nat} (hk : spec f = some .fixed64) :
    ent m f = optFixed f (getFixed m f 8) ∧ (getFixed m f 8).length = 8 := by
  cases hl : m.lookup f with
  | none => simp [ent, getFixed, optFixed, hl, allZero_zeros, zeros_length]
  | some v =>
    obtain ⟨k, hk', hok⟩ := lookup_okVal spec m lo f v hv hl
    rw [hk] at hk'; cases hk'
    cases v with
    | bytes b =>
      simp only [okVal, Bool.and_eq_true, beq_iff_eq, Bool.not_eq_true'] at hok
      simp [ent, getFixed, optFixed, hl, hok.1, hok.2]
    | num _ => simp [okVal] at hok
    | list _ => simp [okVal] at hok

theorem ent_uvar {f : Nat} (hk : spec f = some .uvar) :
    ent m f = optNum f (getNum m f) ∧ getNum m f < 2 ^ 64 := by
  cases hl : m.lookup f with
  | none => simp [ent, getNum, optNum, hl]
  | some v =>
    obtain ⟨k, hk', hok⟩ := lookup_okVal spec m lo f v hv hl
    rw [hk] at hk'; cases hk'
    cases v with
    | num n =>
      simp only [okVal, Bool.and_eq_true, decide_eq_true_eq] at hok
      have : ¬ n = 0 := by omega
      simp [ent, getNum, optNum, hl, this, hok.2]
    | bytes _ => simp [okVal] at hok
    | list _ => simp [okVal] at hok

theorem ent_bool {f : Nat} (hk : spec f = some .bool) :
    ent m f = optNum f (if getNum m f == 1 then 1 else 0) := by
  cases hl : m.lookup f with
  | none => simp [ent, getNum, optNum, hl]
  | some v =>
    obtain ⟨k, hk', hok⟩ := lookup_okVal spec m lo f v hv hl
    rw [hk] at hk'; cases hk'
    cases v with
    | num n =>
      simp only [okVal, beq_iff_eq] at hok
      subst hok
      simp [ent, getNum, optNum, hl]
    | bytes _ => simp [okVal] at hok
    | list _ => simp [okVal] at hok

end ent

/-! ## zig-zag -/

theorem zigzag_unzigzag (n : Nat) : zigzag (unzigzag n) = n := by
  unfold zigzag unzigzag
  split <;> split <;> omega

theorem unzigzag_zigzag (i : Int) : unzigzag (zigzag i) = i := by
  unfold zigzag unzigzag
  split <;> split <;> omega

theorem zigzag_lt {i : Int} (h1 : -(2 ^ 63 : Int) ≤ i) (h2 : i < 2 ^ 63) : zigzag i < 2 ^ 64 := by
  unfold zigzag
  split <;> omega

/-! ## mapM? -/

theorem mapM?_map {α β} {f : α → Option β} {g : β → α} (hfg : ∀ x y, f x = some y → g y = x) :
    ∀ (l : List α) (r : List β), mapM? f l = some r → r.map g = l := by
  intro l
  induction l with
  | nil => intro r h; simp only [mapM?, Option.some.injEq] at h; subst h; rfl
  | cons a as ih =>
    intro r h
    simp only [mapM?] at h
    cases ha : f a with
    | none => simp [ha] at h
    | some b =>
      simp only [ha] at h
      cases hr : mapM? f as with
      | none => simp [hr] at h
      | some bs =>
        simp only [hr, Option.some.injEq] at h
        subst h
        simp [hfg a b ha, ih bs hr]

theorem mapM?_of_map {α β} {f : α → Option β} {g : β → α} (hgf : ∀ y, f (g y) = some y) :
    ∀ (r : List β), mapM? f (r.map g) = some r := by
  intro r
  induction r with
  | nil => rfl
  | cons b bs ih => simp [mapM?, hgf b, ih]

theorem encode_append (spec : Spec) (m1 m2 : Msg) :
    encode spec (m1 ++ m2) = encode spec m1 ++ encode spec m2 := by
  simp [encode, List.flatMap_append]

/-! ## canonical forms of the chain messages -/

theorem base_canon {m : Msg} (hv : validMsg baseSpec 0 m = true) :
    m = optNum 1 (getNum m 1) ++ optFixed 2 (getFixed m 2 32) ++ optFixed 3 (getFixed m 3 8) := by
  have hc := canon baseSpec [1, 2, 3] 0 m hv
    (by intro g _ h; unfold baseSpec at h; split at h <;> simp_all)
    (by decide) (by intro g hg; omega)
  rw [(ent_uvar hv (f := 1) rfl).1.symm, (ent_fixed hv (f := 2) (n := 32) rfl).1.symm,
    (ent_fixed64 hv (f := 3) rfl).1.symm]
  simpa [List.flatMap_cons] using hc

theorem tx_canon {m : Msg} (hv : validMsg txSpec 0 m = true) :
    m = optBytes 1 (getBytes m 1) ++ optList 2 (getList m 2) ++ optBytes 3 (getBytes m 3) := by
  have hc := canon txSpec [1, 2, 3] 0 m hv
    (by intro g _ h; unfold txSpec at h; split at h <;> simp_all)
    (by decide) (by intro g hg; omega)
  rw [(ent_bytes hv (f := 1) rfl).1.symm, (ent_list hv (f := 2) rfl).1.symm,
    (ent_bytes hv (f := 3) rfl).1.symm]
  simpa [List.flatMap_cons] using hc

theorem block_canon {m : Msg} (hv : validMsg blockSpec 0 m = true) :
    m = blockMsg (getFixed m 1 32) (getFixed m 2 8) (getFixed m 3 8) (getBytes m 4) (getList m 5)
      (getFixed m 6 32) := by
  have hc := canon blockSpec [1, 2, 3, 4, 5, 6] 0 m hv
    (by intro g _ h; unfold blockSpec at h; split at h <;> simp_all)
    (by decide) (by intro g hg; omega)
  unfold blockMsg
  rw [(ent_fixed hv (f := 1) (n := 32) rfl).1.symm, (ent_fixed64 hv (f := 2) rfl).1.symm,
    (ent_fixed64 hv (f := 3) rfl).1.symm, (ent_bytes hv (f := 4) rfl).1.symm,
    (ent_list hv (f := 5) rfl).1.symm, (ent_fixed hv (f := 6) (n := 32) rfl).1.symm]
  simpa [List.flatMap_cons] using hc

theorem ctx_canon {m : Msg} (hv : validMsg ctxSpec 0 m = true) : m = optNum 1 (getNum m 1) := by
  have hc := canon ctxSpec [1] 0 m hv
    (by intro g _ h; unfold ctxSpec at h; split at h <;> simp_all)
    (by decide) (by intro g hg; simp at hg; omega)
  rw [(ent_uvar hv (f := 1) rfl).1.symm]
  simpa [List.flatMap_cons] using hc

theorem result_canon {m : Msg} (hv : validMsg resultSpec 0 m = true) :
    m = optNum 1 (if getNum m 1 == 1 then 1 else 0) ++ optBytes 2 (getBytes m 2) ++ optList 3 (getList m 3) ++
      optFixed 4 (getFixed m 4 40) ++ optFixed 5 (getFixed m 5 8) := by
  have hc := canon resultSpec [1, 2, 3, 4, 5] 0 m hv
    (by intro g _ h; unfold resultSpec at h; split at h <;> simp_all)
    (by decide) (by intro g hg; omega)
  rw [(ent_bool hv (f := 1) rfl).symm, (ent_bytes hv (f := 2) rfl).1.symm,
    (ent_list hv (f := 3) rfl).1.symm, (ent_fixed hv (f := 4) (n := 40) rfl).1.symm,
    (ent_fixed64 hv (f := 5) rfl).1.symm]
  simpa [List.flatMap_cons] using hc

theorem execResults_canon {m : Msg} (hv : validMsg execResultsSpec 0 m = true) :
    m = optList 1 (getList m 1) ++ optFixed 2 (getFixed m 2 40) ++ optFixed 3 (getFixed m 3 40) := by
  have hc := canon execResultsSpec [1, 2, 3] 0 m hv
    (by intro g _ h; unfold execResultsSpec at h; split at h <;> simp_all)
    (by decide) (by intro g hg; omega)
  rw [(ent_list hv (f := 1) rfl).1.symm, (ent_fixed hv (f := 2) (n := 40) rfl).1.symm,
    (ent_fixed hv (f := 3) (n := 40) rfl).1.symm]
  simpa [List.flatMap_cons] using hc

theorem executedBlock_canon {m : Msg} (hv : validMsg executedBlockSpec 0 m = true) :
    m = optBytes 1 (getBytes m 1) ++ optBytes 2 (getBytes m 2) := by
  have hc := canon executedBlockSpec [1, 2] 0 m hv
    (by intro g _ h; unfold executedBlockSpec at h; split at h <;> simp_all)
    (by decide) (by intro g hg; omega)
  rw [(ent_bytes hv (f := 1) rfl).1.symm, (ent_bytes hv (f := 2) rfl).1.symm]
  simpa [List.flatMap_cons] using hc

theorem batch_canon {m : Msg} (hv : validMsg batchSpec 0 m = true) : m = optList 1 (getList m 1) := by
  have hc := canon batchSpec [1] 0 m hv
    (by intro g _ h; unfold batchSpec at h; split at h <;> simp_all)
    (by decide) (by intro g hg; simp at hg; omega)
  rw [(ent_list hv (f := 1) rfl).1.symm]
  simpa [List.flatMap_cons] using hc

end HyperModel.Canoto
