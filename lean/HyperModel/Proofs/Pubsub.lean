import HyperModel.Model.Pubsub
/-! Lemmas about the canoto `BatchMessage` wire format (C32). -/
namespace HyperModel.Proofs.Pubsub
open HyperModel.Pubsub

/-! ### varint length = `canoto.SizeUint` -/

theorem log2_div_128 (n : Nat) (h : 128 ≤ n) : Nat.log2 n = Nat.log2 (n / 128) + 7 := by
  have hn : n ≠ 0 := by omega
  have hq : n / 128 ≠ 0 := by omega
  rw [Nat.log2_eq_iff hn]
  obtain ⟨h1, h2⟩ := (Nat.log2_eq_iff hq).mp rfl
  have e1 : 2 ^ (Nat.log2 (n / 128) + 7) = 2 ^ Nat.log2 (n / 128) * 128 := by
    rw [Nat.pow_add]
  have e2 : 2 ^ (Nat.log2 (n / 128) + 7 + 1) = 2 ^ (Nat.log2 (n / 128) + 1) * 128 := by
    rw [Nat.add_right_comm, Nat.pow_add]
  rw [e1, e2]
  generalize 2 ^ Nat.log2 (n / 128) = a at *
  generalize 2 ^ (Nat.log2 (n / 128) + 1) = b at *
  omega

theorem encVarint_length (n : Nat) : (encVarint n).length = sizeUint n := by
  induction n using encVarint.induct with
  | case1 n h =>
    rw [encVarint, if_pos h]
    unfold sizeUint
    by_cases h0 : n = 0
    · simp [h0]
    · rw [if_neg h0]
      have : Nat.log2 n < 7 := (Nat.log2_lt h0).mpr (by simpa using h)
      simp only [List.length_singleton]
      omega
  | case2 n h ih =>
    rw [encVarint, if_neg h]
    simp only [List.length_cons, ih]
    unfold sizeUint
    have h0 : n ≠ 0 := by omega
    have hq : n / 128 ≠ 0 := by omega
    rw [if_neg h0, if_neg hq, log2_div_128 n (by omega)]
    omega

theorem encodeBatch_length_cons (m : Bytes) (r : List Bytes) :
    (encodeBatch (m :: r)).length = entrySize m + (encodeBatch r).length := by
  simp only [encodeBatch, List.length_cons, List.length_append, encVarint_length, entrySize]
  omega

theorem encodeBatch_append (a b : List Bytes) :
    encodeBatch (a ++ b) = encodeBatch a ++ encodeBatch b := by
  induction a with
  | nil => rfl
  | cons m r ih => simp [encodeBatch, ih]

theorem encodeBatch_length_append_single (ms : List Bytes) (m : Bytes) :
    (encodeBatch (ms ++ [m])).length = (encodeBatch ms).length + entrySize m := by
  rw [encodeBatch_append, List.length_append, encodeBatch_length_cons]
  simp [encodeBatch]

theorem length_le_encodeBatch (ms : List Bytes) : ms.length ≤ (encodeBatch ms).length := by
  induction ms with
  | nil => simp [encodeBatch]
  | cons m r ih => rw [encodeBatch_length_cons]; simp only [List.length_cons, entrySize]; omega

theorem mem_length_le_encodeBatch (ms : List Bytes) (m : Bytes) (h : m ∈ ms) :
    m.length ≤ (encodeBatch ms).length := by
  induction ms with
  | nil => cases h
  | cons x r ih =>
    rw [encodeBatch_length_cons]
    rcases List.mem_cons.mp h with h | h
    · subst h; simp only [entrySize]; omega
    · have := ih h; omega

/-! ### reading back a varint -/

theorem pow_lt_64 {a : Nat} (h : 2 ^ a < 2 ^ 64) : a < 64 :=
  (Nat.pow_lt_pow_iff_right (by decide)).mp h

theorem readUvarint_encVarint (x : Nat) : ∀ (i acc : Nat) (rest : Bytes),
    x * 2 ^ (7 * i) < 2 ^ 64 → (0 < i → x ≠ 0) →
    readUvarint i acc (encVarint x ++ rest) = some (acc + x * 2 ^ (7 * i), rest) := by
  induction x using encVarint.induct with
  | case1 x hx =>
    intro i acc rest hfit hnz
    rw [encVarint, if_pos hx]
    simp only [List.singleton_append, readUvarint]
    have hi : i ≤ 9 := by
      by_cases h0 : i = 0
      · omega
      · have hx1 : 1 ≤ x := by have := hnz (by omega); omega
        have : 2 ^ (7 * i) ≤ x * 2 ^ (7 * i) := Nat.le_mul_of_pos_left _ hx1
        have := pow_lt_64 (Nat.lt_of_le_of_lt this hfit)
        omega
    have h10 : i ≠ 10 := by omega
    have h9 : ¬ (i = 9 ∧ x > 1) := by
      rintro ⟨rfl, hgt⟩
      simp at hfit
      omega
    have hz : ¬ (i > 0 ∧ x = 0) := by
      rintro ⟨hpos, hzero⟩
      exact hnz hpos hzero
    simp [h10, hx, h9, hz]
  | case2 x hx ih =>
    intro i acc rest hfit _
    rw [encVarint, if_neg hx]
    simp only [List.cons_append, readUvarint]
    have hP : 0 < 2 ^ (7 * i) := Nat.pow_pos (by decide)
    have hi : i ≤ 8 := by
      have h1 : 128 * 2 ^ (7 * i) ≤ x * 2 ^ (7 * i) := Nat.mul_le_mul_right _ (by omega)
      have h2 : 2 ^ (7 + 7 * i) = 128 * 2 ^ (7 * i) := by rw [Nat.pow_add]
      have := pow_lt_64 (a := 7 + 7 * i) (by rw [h2]; exact Nat.lt_of_le_of_lt h1 hfit)
      omega
    have h10 : i ≠ 10 := by omega
    have hb : ¬ (x % 128 + 128 < 128) := by omega
    have hmod : (x % 128 + 128) % 128 = x % 128 := by omega
    have e7 : 2 ^ (7 * (i + 1)) = 2 ^ (7 * i) * 128 := by
      rw [Nat.mul_add, Nat.pow_add]
    have hfit' : x / 128 * 2 ^ (7 * (i + 1)) < 2 ^ 64 := by
      rw [e7, Nat.mul_comm (2 ^ (7 * i)) 128, ← Nat.mul_assoc]
      exact Nat.lt_of_le_of_lt (Nat.mul_le_mul_right _ (Nat.div_mul_le_self x 128)) hfit
    have hq : x / 128 ≠ 0 := by omega
    simp only [h10, hb, if_false, hmod]
    rw [ih (i + 1) _ rest hfit' (fun _ => hq)]
    congr 2
    rw [e7, Nat.add_assoc]
    congr 1
    -- (x % 128) * P + (x / 128) * (P * 128) = x * P
    have hx' : x = 128 * (x / 128) + x % 128 := (Nat.div_add_mod x 128).symm
    generalize 2 ^ (7 * i) = P
    generalize x / 128 = q at hx'
    generalize x % 128 = r at hx'
    subst hx'
    rw [Nat.add_mul, Nat.mul_comm P 128, ← Nat.mul_assoc, Nat.mul_comm q 128, Nat.add_comm]

/-! ### `ParseBatchMessage ∘ CreateBatchMessage = id` -/

theorem decodeFuel_encodeBatch (ms : List Bytes) (hlen : ∀ m ∈ ms, m.length < 2 ^ 64) :
    ∀ fuel, ms.length ≤ fuel → decodeFuel fuel (encodeBatch ms) = some ms := by
  induction ms with
  | nil => intro fuel _; cases fuel <;> rfl
  | cons m r ih =>
    intro fuel hf
    cases fuel with
    | zero => simp at hf
    | succ fuel =>
      have hm : m.length < 2 ^ 64 := hlen m (List.mem_cons_self ..)
      have hr : ∀ x ∈ r, x.length < 2 ^ 64 := fun x hx => hlen x (List.mem_cons_of_mem _ hx)
      simp only [encodeBatch, decodeFuel]
      rw [readUvarint_encVarint m.length 0 0 _ (by simpa using hm) (by omega)]
      have hnot : ¬ (0 + m.length * 2 ^ (7 * 0) > (m ++ encodeBatch r).length) := by
        simp
      simp only [ne_eq, not_true_eq_false, if_false, hnot]
      have e : 0 + m.length * 2 ^ (7 * 0) = m.length := by simp
      rw [e, List.drop_left' rfl, List.take_left' rfl, ih hr fuel (by simpa using hf)]

theorem decodeBatch_encodeBatch (ms : List Bytes) (hlen : ∀ m ∈ ms, m.length < 2 ^ 64) :
    decodeBatch (encodeBatch ms) = some ms :=
  decodeFuel_encodeBatch ms hlen _ (length_le_encodeBatch ms)

end HyperModel.Proofs.Pubsub
