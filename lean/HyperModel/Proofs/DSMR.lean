import HyperModel.Model.DSMR
/-! Lemmas about the DSMR model shared by the C35, C36 and C37 property files. -/
namespace HyperModel.DSMR

/-- ids of the pending map -/
def pids (s : Storage) : List Nat := s.pending.map (·.1)

theorem hasPending_iff (s : Storage) (i : Nat) : hasPending s i = true ↔ i ∈ pids s := by
  simp only [hasPending, pids, List.any_eq_true, List.mem_map]
  constructor
  · rintro ⟨e, he, h⟩; exact ⟨e, he, by simpa using h⟩
  · rintro ⟨e, he, h⟩; exact ⟨e, he, by simpa using h⟩

theorem hasPending_false_iff (s : Storage) (i : Nat) : hasPending s i = false ↔ i ∉ pids s := by
  rw [← hasPending_iff]; simp

theorem find_none_of_not_pending (s : Storage) (i : Nat) (h : hasPending s i = false) :
    s.pending.find? (fun e => e.1 == i) = none := by
  rw [List.find?_eq_none]
  intro e he
  simp only [hasPending, List.any_eq_false] at h
  exact h e he

theorem pids_discard (cfg : Cfg) (s : Storage) (i : Nat) :
    pids (discard cfg s i) = (pids s).filter (fun j => j != i) := by
  unfold discard
  split
  · simp only [pids, List.filter_map]; rfl
  · rename_i h
    have h' : i ∉ pids s := by rw [← hasPending_iff]; simpa using h
    symm
    rw [List.filter_eq_self]
    intro j hj
    have : j ≠ i := fun e => h' (e ▸ hj)
    simpa using this

theorem pids_putVerified (cfg : Cfg) (s : Storage) (i : Nat) (c : Option Cert) :
    pids (putVerified cfg s i c) = if hasPending s i then pids s else pids s ++ [i] := by
  unfold putVerified
  split
  · cases c with
    | none => rfl
    | some c =>
      simp only [pids, List.map_map]
      apply List.map_congr_left
      intro e _
      by_cases h : e.1 = i
      · simp [h]
      · simp [h]
  · simp [pids]

theorem hasPending_putVerified (cfg : Cfg) (s : Storage) (i j : Nat) (c : Option Cert) :
    hasPending (putVerified cfg s i c) j = (hasPending s j || j == i) := by
  rw [Bool.eq_iff_iff]
  simp only [hasPending_iff, Bool.or_eq_true, pids_putVerified, beq_iff_eq]
  split
  · rename_i h
    constructor
    · intro h'; exact Or.inl h'
    · rintro (h' | rfl); exact h'; exact h
  · simp

theorem hasPending_discard (cfg : Cfg) (s : Storage) (i j : Nat) :
    hasPending (discard cfg s i) j = (hasPending s j && j != i) := by
  rw [Bool.eq_iff_iff]
  simp [hasPending_iff, pids_discard]

end HyperModel.DSMR
