import HyperModel.Model.BlockCtx
import HyperModel.Proofs.Genesis
/-! Lemmas about the block-context model (used by `Props/C11.lean`). -/
namespace HyperModel.Proofs.BlockCtx
open HyperModel.BlockCtx HyperModel.Genesis HyperModel.Proofs.Genesis
open HyperModel.Generated.C11

theorem wrapI64_id (x : Int) (h : InI64 x) : wrapI64 x = x := by
  simp only [InI64, wrapI64, two63, two64] at *
  omega

theorem wrapI64_in (x : Int) : InI64 (wrapI64 x) := by
  simp only [InI64, wrapI64, two63, two64] at *
  omega

theorem toU64_le (x : Int) : toU64 x ≤ maxU64 := by
  simp only [toU64, two64, maxU64]
  omega

theorem toI64_toU64 (x : Int) (h : InI64 x) : toI64 (toU64 x) = x := by
  simp only [InI64, toI64, toU64, wrapI64, two63, two64] at *
  omega

theorem toI64_zero : toI64 0 = 0 := by
  simp [toI64, wrapI64, two63, two64]

/-- the exact conjunction under which `Processor.Execute` accepts a block -/
def Verifies (env : Env) (p : View) (b : Block) : Prop :=
  ∃ ph pt, p.heightRaw.bind parseU64 = some ph ∧ p.tsRaw.bind parseU64 = some pt ∧
    (∃ raw, p.feeRaw = some raw ∧ FeeOk raw) ∧
    b.height = (ph + 1) % 18446744073709551616 ∧
    ¬ (b.ts > env.now + (futureBoundMs : Int)) ∧
    ¬ (b.ts < addI64 (toI64 pt) (env.rules b.ts).minBlockGap) ∧
    (b.numTxs = 0 → ¬ (b.ts < addI64 (toI64 pt) (env.rules b.ts).minEmptyBlockGap)) ∧
    b.stateRoot = p.root ∧ env.replayOk = true ∧ env.txsOk = true ∧ env.sigsOk = true

theorem execute_ok_iff (env : Env) (p : View) (b : Block) :
    execute env p b = .ok (postView env b) ↔ Verifies env p b := by
  unfold Verifies execute createBlockContext
  by_cases hlate : b.ts > env.now + (futureBoundMs : Int)
  · simp only [hlate, if_true]
    constructor
    · intro h; cases h
    · rintro ⟨_, _, _, _, _, _, h, _⟩; exact absurd trivial h
  simp only [hlate, if_false]
  rcases hH : p.heightRaw with _ | hraw
  · simp
  rcases hPH : parseU64 hraw with _ | ph
  · simp [hPH]
  by_cases hh : b.height ≠ (ph + 1) % 18446744073709551616
  · simp [hPH, hh]
  have hh : b.height = (ph + 1) % 18446744073709551616 := by omega
  rcases hT : p.tsRaw with _ | traw
  · simp [hPH, hh]
  rcases hPT : parseU64 traw with _ | pt
  · simp [hPH, hh, hPT]
  by_cases he : b.ts < addI64 (toI64 pt) (env.rules b.ts).minBlockGap
  · simp [hPH, hh, hPT, he]
    intro _ h; omega
  by_cases hee : b.numTxs = 0 ∧ b.ts < addI64 (toI64 pt) (env.rules b.ts).minEmptyBlockGap
  · simp [hPH, hh, hPT, he, hee]
    intro _ h; omega
  rcases hF : p.feeRaw with _ | fraw
  · simp [hPH, hh, hPT, he, hee]
  by_cases hfo : ¬ FeeOk fraw
  · simp only [hPH, hPT, he, hee, hfo, if_false, ne_eq, hh, not_true_eq_false, Option.bind_some]
    constructor
    · intro h; cases h
    · rintro ⟨_, _, _, _, ⟨raw, hraw, hok⟩, _⟩
      injection hraw with hraw
      subst hraw
      exact absurd hok hfo
  have hfo : FeeOk fraw := Classical.not_not.mp hfo
  have hee' : ¬ (b.numTxs = 0 ∧ b.ts < addI64 (toI64 pt) (env.rules b.ts).minEmptyBlockGap) := hee
  simp only [hPH, hPT, he, hee', hfo, if_true, if_false, ne_eq, hh, not_true_eq_false,
    Option.bind_some]
  have hemp : b.numTxs = 0 → ¬ b.ts < addI64 (toI64 pt) (env.rules b.ts).minEmptyBlockGap :=
    fun h0 hlt => hee ⟨h0, hlt⟩
  constructor
  · intro h
    cases hr : env.replayOk
    · simp [hr] at h
    cases ht : env.txsOk
    · simp [hr, ht] at h
    by_cases hroot : b.stateRoot = p.root
    · cases hs : env.sigsOk
      · simp [hr, ht, hs, hroot] at h
      · exact ⟨ph, pt, rfl, rfl, ⟨fraw, rfl, hfo⟩, rfl, not_false, he, hemp, hroot, rfl, rfl, rfl⟩
    · simp [hr, ht, hroot] at h
  · rintro ⟨ph', pt', h1, h2, _, _, _, _, _, hroot, hr, ht, hs⟩
    simp [hr, ht, hs, hroot]

theorem execute_ok_view (env : Env) (p : View) (b : Block) (v : View)
    (h : execute env p b = .ok v) : v = postView env b := by
  simp only [execute] at h
  repeat' split at h
  all_goals first | (cases h; done) | (injection h with h; exact h.symm)

theorem parse_postView_height (env : Env) (b : Block) (h : b.WF) :
    (postView env b).heightRaw.bind parseU64 = some b.height := by
  simp only [postView, Option.bind_some]
  exact parseU64_be64 _ (by have := h.1; simp only [maxU64]; omega)

theorem parse_postView_ts (env : Env) (b : Block) :
    (postView env b).tsRaw.bind parseU64 = some (toU64 b.ts) := by
  simp only [postView, Option.bind_some]
  exact parseU64_be64 _ (toU64_le _)

end HyperModel.Proofs.BlockCtx
