import HyperModel.Proofs.BlockExecInv
/-!
Progress (no deadlock) and termination of the parallel step relation `Step` (C01).
-/
namespace HyperModel.BlockExecProofs
open HyperModel.BlockExec

/-! ## a measure that every step decreases -/

def sumTo (f : Nat → Nat) : Nat → Nat
  | 0 => 0
  | n + 1 => sumTo f n + f n

theorem sumTo_congr {f g : Nat → Nat} : ∀ n, (∀ j, j < n → g j = f j) → sumTo g n = sumTo f n
  | 0, _ => rfl
  | n + 1, h => by
    unfold sumTo
    rw [sumTo_congr n (fun j hj => h j (by omega)), h n (by omega)]

theorem sumTo_lt {f g : Nat → Nat} {i : Nat} : ∀ n, i < n → (∀ j, j ≠ i → g j = f j) → g i < f i →
    sumTo g n < sumTo f n
  | 0, hi, _, _ => absurd hi (Nat.not_lt_zero _)
  | n + 1, hi, hne, hlt => by
    unfold sumTo
    by_cases e : i = n
    · subst e
      rw [sumTo_congr i (fun j hj => hne j (by omega))]
      omega
    · have := sumTo_lt n (by omega) hne hlt
      rw [hne n (fun h => e h.symm)]
      omega

/-- work left for task `i`: an idle task still has to be started and to run its whole program -/
def wt (c : Ctx) (i : Nat) : TxSt → Nat
  | .idle => (match c.txs[i]? with | some t => (compile t).length | none => 0) + 3
  | .running _ rem => rem.length + 2
  | .committed => 1
  | .done => 0

/-- main-loop iterations left + work left in all tasks -/
def mu (c : Ctx) (s : PState) : Nat :=
  (if s.stopped then 0 else c.txs.length + 1 - s.enq) +
    sumTo (fun i => wt c i (s.st i)) c.txs.length

theorem mu_task {c : Ctx} {s s' : PState} {i : Nat} {x : TxSt} (hi : i < c.txs.length)
    (hst : s'.st = setAt s.st i x) (hstop : s'.stopped = s.stopped) (henq : s'.enq = s.enq)
    (hw : wt c i x < wt c i (s.st i)) : mu c s' < mu c s := by
  unfold mu
  rw [hstop, henq]
  have : sumTo (fun j => wt c j (s'.st j)) c.txs.length < sumTo (fun j => wt c j (s.st j)) c.txs.length := by
    apply sumTo_lt (i := i) _ hi
    · intro j hj
      show wt c j (s'.st j) = wt c j (s.st j)
      rw [hst, setAt_ne _ _ hj]
    · show wt c i (s'.st i) < wt c i (s.st i)
      rw [hst, setAt_same]; exact hw
  omega

theorem step_decreases {c : Ctx} {s s' : PState} (hinv : Inv c s) (hs : Step c s s') :
    mu c s' < mu c s := by
  cases hs with
  | @enqueueOk t u' hst ht hc =>
    have hlt : s.enq < c.txs.length := (List.getElem?_eq_some_iff.mp ht).1
    unfold mu
    simp only [hst, Bool.false_eq_true, if_false]
    omega
  | @enqueueFail t hst ht hc =>
    unfold mu
    simp only [hst, Bool.false_eq_true, if_false, if_true]
    have := hinv.enq_le
    omega
  | @start i t hi hidle ht hdeps herr =>
    have hiN : i < c.txs.length := (List.getElem?_eq_some_iff.mp ht).1
    refine mu_task hiN rfl rfl rfl ?_
    rw [hidle]; simp only [wt, ht]; omega
  | @skip i hi hidle hdeps herr =>
    have hiN : i < c.txs.length := Nat.lt_of_lt_of_le hi hinv.enq_le
    refine mu_task hiN rfl rfl rfl ?_
    rw [hidle]; simp only [wt]; omega
  | @stepCont i t ls ins rem ls' hr ht hstep =>
    have hiN : i < c.txs.length := (List.getElem?_eq_some_iff.mp ht).1
    refine mu_task hiN rfl rfl rfl ?_
    rw [hr]; simp [wt]
  | @stepFail i t ls ins rem ls' hr ht hstep =>
    have hiN : i < c.txs.length := (List.getElem?_eq_some_iff.mp ht).1
    refine mu_task hiN rfl rfl rfl ?_
    rw [hr]; simp [wt]
  | @stepAbort i t ls ins rem a hr ht hstep =>
    have hiN : i < c.txs.length := (List.getElem?_eq_some_iff.mp ht).1
    refine mu_task hiN rfl rfl rfl ?_
    rw [hr]; simp [wt]
  | @commit i t ls hr ht =>
    have hiN : i < c.txs.length := (List.getElem?_eq_some_iff.mp ht).1
    refine mu_task hiN rfl rfl rfl ?_
    rw [hr]; simp [wt]
  | @finish i hcm =>
    have hiN : i < c.txs.length :=
      Nat.lt_of_lt_of_le (hinv.started i (by rw [hcm]; intro h; cases h)) hinv.enq_le
    refine mu_task hiN rfl rfl rfl ?_
    rw [hcm]; simp [wt]

/-! ## runs -/

inductive Steps (c : Ctx) : PState → PState → Prop
  | refl {s} : Steps c s s
  | tail {s s1 s2} : Steps c s s1 → Step c s1 s2 → Steps c s s2

theorem Steps.head {c : Ctx} {s s1 s2 : PState} (h1 : Step c s s1) (h2 : Steps c s1 s2) : Steps c s s2 := by
  induction h2 with
  | refl => exact Steps.tail Steps.refl h1
  | tail _ hs ih => exact Steps.tail ih hs

theorem reachable_of_steps {c : Ctx} {s s' : PState} (hr : Reachable c s) (h : Steps c s s') :
    Reachable c s' := by
  induction h with
  | refl => exact hr
  | tail _ hs ih => exact Reachable.step ih hs

/-- from every reachable state the processor can run to completion (there is a maximal run) -/
theorem reach_terminal (c : Ctx) : ∀ (n : Nat) (s : PState), mu c s ≤ n → Reachable c s →
    ∃ s', Steps c s s' ∧ Terminal c s'
  | n, s, hn, hr => by
    by_cases ht : Terminal c s
    · exact ⟨s, Steps.refl, ht⟩
    · obtain ⟨s1, h1⟩ := Classical.not_not.mp ht
      have hd := step_decreases (inv_reachable hr) h1
      match n with
      | 0 => omega
      | n + 1 =>
        obtain ⟨s', h2, h3⟩ := reach_terminal c n s1 (by omega) (Reachable.step hr h1)
        exact ⟨s', Steps.head h1 h2, h3⟩

/-- there is no infinite run -/
theorem no_infinite_run (c : Ctx) (f : Nat → PState) (h0 : Reachable c (f 0))
    (h : ∀ n, Step c (f n) (f (n + 1))) : False := by
  have key : ∀ n, Reachable c (f n) ∧ mu c (f n) + n ≤ mu c (f 0) := by
    intro n
    induction n with
    | zero => exact ⟨h0, Nat.le_refl _⟩
    | succ n ih =>
      have := step_decreases (inv_reachable ih.1) (h n)
      exact ⟨Reachable.step ih.1 (h n), by omega⟩
  have := (key (mu c (f 0) + 1)).2
  omega

/-! ## progress -/

/-- the states in which `executeTxs` returns: main loop through (or stopped), every enqueued task done -/
def Final (c : Ctx) (s : PState) : Prop :=
  (s.enq = c.txs.length ∨ s.stopped = true) ∧ ∀ i, i < s.enq → s.st i = .done

theorem exists_least (P : Nat → Prop) : ∀ n, P n → ∃ m, P m ∧ ∀ k, k < m → ¬ P k := by
  intro n
  induction n using Nat.strongRecOn with
  | _ n ih =>
    intro hn
    by_cases h : ∃ k, k < n ∧ P k
    · obtain ⟨k, hk, hp⟩ := h
      exact ih k hk hp
    · exact ⟨n, hn, fun k hk hp => h ⟨k, hk, hp⟩⟩

/-- no deadlock: a reachable state that is not final has an enabled step — the main loop can
consume/enqueue or stop, or the least unfinished enqueued task (all earlier tasks are done, so in
particular its conflicting ones) can start / be skipped / perform its next view operation / commit /
finish -/
theorem progress_of_inv {c : Ctx} {s : PState} (hinv : Inv c s) (hnf : ¬ Final c s) :
    ∃ s', Step c s s' := by
  by_cases hq : s.enq = c.txs.length ∨ s.stopped = true
  · have hex : ∃ i, i < s.enq ∧ s.st i ≠ .done := by
      apply Classical.byContradiction
      intro h
      apply hnf
      refine ⟨hq, fun i hi => ?_⟩
      apply Classical.byContradiction
      intro hd
      exact h ⟨i, hi, hd⟩
    obtain ⟨i0, hi0⟩ := hex
    obtain ⟨i, ⟨hi, hnd⟩, hmin⟩ := exists_least (fun i => i < s.enq ∧ s.st i ≠ .done) i0 hi0
    have hearlier : ∀ j, j < i → s.st j = .done := by
      intro j hj
      apply Classical.byContradiction
      intro hd
      exact hmin j hj ⟨by omega, hd⟩
    have hiN : i < c.txs.length := Nat.lt_of_lt_of_le hi hinv.enq_le
    have ht : c.txs[i]? = some c.txs[i] := List.getElem?_eq_getElem hiN
    cases hsi : s.st i with
    | done => exact absurd hsi hnd
    | idle =>
      cases he : s.err with
      | false => exact ⟨_, Step.start hi hsi ht (fun j hj _ => hearlier j hj) he⟩
      | true => exact ⟨_, Step.skip hi hsi (fun j hj _ => hearlier j hj) he⟩
    | committed => exact ⟨_, Step.finish hsi⟩
    | running ls rem =>
      cases rem with
      | nil => exact ⟨_, Step.commit hsi ht⟩
      | cons ins rem =>
        cases hstep : stepInstr c.txs[i] c.prices (baseGet c.parent s.diff) ls ins with
        | cont l2 => exact ⟨_, Step.stepCont hsi ht hstep⟩
        | failTx l2 => exact ⟨_, Step.stepFail hsi ht hstep⟩
        | abort a => exact ⟨_, Step.stepAbort hsi ht hstep⟩
  · have hst : s.stopped = false := by
      cases h : s.stopped with
      | false => rfl
      | true => exact absurd (Or.inr h) hq
    have hlt : s.enq < c.txs.length := by
      have := hinv.enq_le
      have : s.enq ≠ c.txs.length := fun h => hq (Or.inl h)
      omega
    have ht : c.txs[s.enq]? = some c.txs[s.enq] := List.getElem?_eq_getElem hlt
    cases hc : consume s.consumed (c.txs[s.enq]).units c.maxUnits with
    | none => exact ⟨_, Step.enqueueFail hst ht hc⟩
    | some u => exact ⟨_, Step.enqueueOk hst ht hc⟩

end HyperModel.BlockExecProofs
