import HyperModel.Proofs.SnowSync
/-! The whole `verifyProcessingBlocks` loop (C21 processing_reverified). -/
namespace HyperModel.Snow

/-- the loop order lists parents before children: the parent object of an entry is neither the entry
itself nor a later entry -/
def ParentsFirst (s : State) : List Nat → Prop
  | [] => True
  | h :: r => (∀ j ∈ h :: r, s.getBlock (s.obj h).blk.parent ≠ .obj j) ∧ ParentsFirst s r

/-- `reverifyOne` touches only objects and the log: lookups resolve to the same place -/
theorem reverifyOne_getBlock (acc : State × List Nat × Bool) (h : Nat) (id : Nat) :
    (reverifyOne acc h).1.getBlock id = acc.1.getBlock id := by
  obtain ⟨s, bad, failed⟩ := acc
  unfold reverifyOne
  dsimp only
  split
  · rfl
  · split
    · rfl
    · split
      · rfl
      · split <;> rfl

theorem reverify_fold_getBlock (l : List Nat) (acc : State × List Nat × Bool) (id : Nat) :
    (l.foldl reverifyOne acc).1.getBlock id = acc.1.getBlock id := by
  induction l generalizing acc with
  | nil => rfl
  | cons h r ih => rw [List.foldl_cons, ih, reverifyOne_getBlock]

theorem reverifyOne_blk (acc : State × List Nat × Bool) (h j : Nat) :
    ((reverifyOne acc h).1.obj j).blk = (acc.1.obj j).blk := by
  obtain ⟨s, bad, failed⟩ := acc
  unfold reverifyOne
  dsimp only
  split
  · rfl
  · split
    · rfl
    · split
      · rfl
      · split
        · rfl
        · simp only [obj_emit, obj_setObj]
          split
          · rename_i e; subst e; rfl
          · rfl

theorem view_congr (s s' : State) (f : Found) (h : ∀ j, f = .obj j → s'.obj j = s.obj j) :
    s'.view f = s.view f := by
  cases f with
  | obj j => simp [State.view, h j rfl]
  | bare b => rfl
  | missing => rfl

/-- one iteration, spelled out with the parent lookup -/
theorem reverifyOne_verified_iff (s : State) (bad : List Nat) (h : Nat) (hu : (s.obj h).verified = false)
    (hf : (reverifyOne (s, bad, false) h).2.2 = false) :
    ((reverifyOne (s, bad, false) h).1.obj h).verified = true ↔
      ((s.obj h).blk.invalid = false ∧
        ∃ p, s.view (s.getBlock (s.obj h).blk.parent) = some p ∧ p.verified = true) := by
  revert hf
  unfold reverifyOne
  simp only [Bool.false_eq_true, if_false]
  split
  · simp
  · rename_i p hp
    intro _
    cases hv : p.verified <;> cases hi : (s.obj h).blk.invalid <;> simp [chainVerify, hv, hi, hu, hp]

theorem ParentsFirst.congr {s s' : State} (hg : ∀ id, s'.getBlock id = s.getBlock id)
    (hb : ∀ j, (s'.obj j).blk = (s.obj j).blk) : ∀ l, ParentsFirst s l → ParentsFirst s' l := by
  intro l
  induction l with
  | nil => intro _; trivial
  | cons h r ih =>
    intro hp
    exact ⟨by intro j hj; rw [hg, hb]; exact hp.1 j hj, ih hp.2⟩

/-- **the whole loop**: every entry ends verified iff it is valid and its parent (as `GetBlock`
resolves it after the loop) is verified -/
theorem reverify_fold_verified_iff (l : List Nat) :
    ∀ (s : State) (bad : List Nat) (s' : State) (bad' : List Nat), l.Nodup →
      (∀ h ∈ l, (s.obj h).verified = false) → ParentsFirst s l →
      l.foldl reverifyOne (s, bad, false) = (s', bad', false) →
      ∀ h ∈ l, ((s'.obj h).verified = true ↔
        ((s.obj h).blk.invalid = false ∧
          ∃ p, s'.view (s'.getBlock (s.obj h).blk.parent) = some p ∧ p.verified = true)) := by
  induction l with
  | nil => intro _ _ _ _ _ _ _ _ h hh; simp at hh
  | cons a r ih =>
    intro s bad s' bad' hnd hu hpf hf h hh
    rw [List.foldl_cons] at hf
    have hnd' := List.nodup_cons.mp hnd
    have hua := hu a List.mem_cons_self
    cases hfail : (reverifyOne (s, bad, false) a).2.2 with
    | true =>
      have : reverifyOne (s, bad, false) a = ((reverifyOne (s, bad, false) a).1, (reverifyOne (s, bad, false) a).2.1, true) := by
        apply Prod.ext; rfl; apply Prod.ext; rfl; exact hfail
      rw [this, reverify_fold_failed] at hf
      simp at hf
    | false =>
      obtain ⟨k1, k2, _⟩ := reverifyOne_spec s bad a hua hfail
      have hdec : reverifyOne (s, bad, false) a = ((reverifyOne (s, bad, false) a).1, (reverifyOne (s, bad, false) a).2.1, false) := by
        apply Prod.ext; rfl; apply Prod.ext; rfl; exact hfail
      rw [hdec] at hf
      have hne : ∀ j ∈ r, j ≠ a := fun j hj hc => hnd'.1 (hc ▸ hj)
      have hg1 : ∀ id, (reverifyOne (s, bad, false) a).1.getBlock id = s.getBlock id :=
        fun id => reverifyOne_getBlock (s, bad, false) a id
      have hb1 : ∀ j, ((reverifyOne (s, bad, false) a).1.obj j).blk = (s.obj j).blk :=
        fun j => reverifyOne_blk (s, bad, false) a j
      have hgf : ∀ id, s'.getBlock id = s.getBlock id := by
        intro id
        have := reverify_fold_getBlock r ((reverifyOne (s, bad, false) a).1, (reverifyOne (s, bad, false) a).2.1, false) id
        rw [hf] at this
        rw [this, hg1]
      rcases List.mem_cons.mp hh with rfl | hh'
      · -- the head: its parent is not in the list, hence untouched by the whole loop
        have hkeep := reverify_fold_keep h r (fun j hj hc => hnd'.1 (hc ▸ hj))
          ((reverifyOne (s, bad, false) h).1, (reverifyOne (s, bad, false) h).2.1, false)
        rw [hf] at hkeep
        rw [hkeep.obj, reverifyOne_verified_iff s bad h hua hfail, hgf]
        have hview : s'.view (s.getBlock (s.obj h).blk.parent) = s.view (s.getBlock (s.obj h).blk.parent) := by
          apply view_congr
          intro j hj
          have hnotin : j ∉ h :: r := fun hm => hpf.1 j hm hj
          have hjh : j ≠ h := fun e => hnotin (e ▸ List.mem_cons_self)
          have hjr : ∀ x ∈ r, j ≠ x := fun x hx e => hnotin (e ▸ List.mem_cons_of_mem _ hx)
          have hk := reverify_fold_keep j r hjr
            ((reverifyOne (s, bad, false) h).1, (reverifyOne (s, bad, false) h).2.1, false)
          rw [hf] at hk
          rw [hk.obj, k1 j hjh]
        rw [hview]
      · have hpf' : ParentsFirst (reverifyOne (s, bad, false) a).1 r := ParentsFirst.congr hg1 hb1 r hpf.2
        have := ih _ _ s' bad' hnd'.2
          (fun j hj => by rw [k1 j (hne j hj)]; exact hu j (List.mem_cons_of_mem _ hj)) hpf' hf h hh'
        rw [hb1] at this
        exact this

end HyperModel.Snow

namespace HyperModel.Snow

/-- the sort key order of `insertByHeight` -/
def keyLe (s : State) (a b : Nat) : Prop :=
  (s.obj a).blk.height < (s.obj b).blk.height ∨
    ((s.obj a).blk.height = (s.obj b).blk.height ∧ (s.obj a).blk.id ≤ (s.obj b).blk.id)

theorem keyLe_total (s : State) (a b : Nat) (h : ¬ keyLe s a b) : keyLe s b a := by
  unfold keyLe at h ⊢; omega

theorem keyLe_trans (s : State) {a b c : Nat} (h1 : keyLe s a b) (h2 : keyLe s b c) : keyLe s a c := by
  unfold keyLe at h1 h2 ⊢; omega

theorem insertByHeight_sorted (s : State) (h : Nat) (l : List Nat) (hl : l.Pairwise (keyLe s)) :
    (insertByHeight s h l).Pairwise (keyLe s) := by
  induction l with
  | nil => simp [insertByHeight]
  | cons x r ih =>
    obtain ⟨hx, hr⟩ := List.pairwise_cons.mp hl
    unfold insertByHeight
    dsimp only
    split
    · rename_i hle
      have hle' : keyLe s h x := hle
      refine List.pairwise_cons.mpr ⟨?_, hl⟩
      intro y hy
      rcases List.mem_cons.mp hy with rfl | hy
      · exact hle'
      · exact keyLe_trans s hle' (hx y hy)
    · rename_i hnle
      have hxh : keyLe s x h := keyLe_total s h x hnle
      refine List.pairwise_cons.mpr ⟨?_, ih hr⟩
      intro y hy
      rcases (mem_insertByHeight s h y r).mp hy with rfl | hy
      · exact hxh
      · exact hx y hy

theorem processingSorted_sorted (s : State) : s.processingSorted.Pairwise (keyLe s) := by
  unfold State.processingSorted
  generalize s.vbKeys.filterMap s.vb = l
  induction l with
  | nil => simp
  | cons a r ih => simp only [List.foldr_cons]; exact insertByHeight_sorted s a _ ih

/-- the height-sorted order lists parents first as soon as a processing parent is lower than its child -/
theorem parentsFirst_of_sorted (s : State) (l : List Nat) (hs : l.Pairwise (keyLe s))
    (hp : ∀ h ∈ l, ∀ j ∈ l, s.getBlock (s.obj h).blk.parent = .obj j → (s.obj j).blk.height < (s.obj h).blk.height) :
    ParentsFirst s l := by
  induction l with
  | nil => trivial
  | cons h r ih =>
    obtain ⟨hx, hr⟩ := List.pairwise_cons.mp hs
    refine ⟨?_, ih hr (fun a ha b hb => hp a (List.mem_cons_of_mem _ ha) b (List.mem_cons_of_mem _ hb))⟩
    intro j hj hg
    have hlt := hp h List.mem_cons_self j hj hg
    rcases List.mem_cons.mp hj with rfl | hj'
    · omega
    · have := hx j hj'
      unfold keyLe at this; omega

end HyperModel.Snow

namespace HyperModel.Snow

/-- the whole `verifyProcessingBlocks` loop inside `finishTail` -/
theorem finishTail_reverified (s : State) (hnd : s.processingSorted.Nodup)
    (hu : ∀ h ∈ s.processingSorted, (s.obj h).verified = false)
    (hph : ∀ h ∈ s.processingSorted, ∀ j ∈ s.processingSorted,
      s.getBlock (s.obj h).blk.parent = .obj j → (s.obj j).blk.height < (s.obj h).blk.height)
    (hok : (finishTail s).2 = .ok) :
    ∀ h ∈ s.processingSorted, (((finishTail s).1.obj h).verified = true ↔
      ((s.obj h).blk.invalid = false ∧
        ∃ p, (finishTail s).1.view ((finishTail s).1.getBlock (s.obj h).blk.parent) = some p ∧ p.verified = true)) := by
  have hps : ({ s with lastProcessed := some s.lastAccepted } : State).processingSorted = s.processingSorted := by
    unfold State.processingSorted
    rw [insertByHeight_congr s { s with lastProcessed := some s.lastAccepted } rfl]
  have hpf : ParentsFirst { s with lastProcessed := some s.lastAccepted } s.processingSorted :=
    ParentsFirst.congr (s := s) (s' := { s with lastProcessed := some s.lastAccepted }) (fun _ => rfl) (fun _ => rfl) _
      (parentsFirst_of_sorted s _ (processingSorted_sorted s) hph)
  have key := reverify_fold_verified_iff s.processingSorted { s with lastProcessed := some s.lastAccepted } []
  revert hok key
  unfold finishTail
  dsimp only
  rw [hps]
  generalize (List.foldl reverifyOne ({ s with lastProcessed := some s.lastAccepted }, [], false) s.processingSorted) = res
  obtain ⟨s', bad, failed⟩ := res
  intro hok key
  cases failed with
  | true => simp at hok
  | false =>
    dsimp only at hok ⊢
    split at hok
    · simp at hok
    · exact key s' bad hnd hu hpf rfl

end HyperModel.Snow
