import HyperModel.Model.Fetcher
/-! Inductive invariant of the fetcher model (C24) and its preservation by every atomic step. -/
namespace HyperModel.Fetcher

/-- what a cached entry says about the parent -/
def rdOf : Option Val → Rd
  | some v => .val v
  | none => .absent

/-- number of registrations of record `r` in the blocked lists -/
def cnt (r : Nat) (l : List (Key × Nat)) : Nat := (l.filter (fun e => e.2 == r)).length

/-- waiter bookkeeping of one record is consistent -/
def RecOk (rc : Rec) : Prop :=
  (rc.closed = true ↔ (rc.waiter = true ∧ rc.blockers = 0)) ∧ (rc.waiter = false → rc.blockers = 0)

/-- `k` was passed to some successful `Fetch` call -/
def Declared (s : St) (k : Key) : Prop := ∃ r rc, s.recs r = some rc ∧ k ∈ rc.keys

structure Inv (parent : Key → Rd) (s : St) : Prop where
  decl : ∀ k, s.cache k ≠ none ↔ Declared s k
  qr1 : ∀ k, (k ∈ s.sending ∨ k ∈ s.queue ∨ k ∈ s.requested) → s.cache k ≠ none
  qr2 : s.err = none → ∀ k, s.cache k ≠ none → (k ∈ s.sending ∨ k ∈ s.queue ∨ k ∈ s.requested)
  nodup : (s.sending ++ s.queue ++ s.requested).Nodup
  vals : ∀ k d, s.cache k = some (some d) → parent k = rdOf d
  recok : ∀ r rc, s.recs r = some rc →
    RecOk rc ∧ rc.blockers = (cnt r s.blocked : Int) ∧
    (∀ k ∈ rc.keys, s.cache k = some none → (k, r) ∈ s.blocked)
  inflReq : ∀ k ∈ s.inflight, k ∈ s.requested
  fresh : ∀ r, s.nrecs ≤ r → s.recs r = none
  blkIdx : ∀ e ∈ s.blocked, e.2 < s.nrecs

theorem cnt_append (r : Nat) (l : List (Key × Nat)) (e : Key × Nat) :
    cnt r (l ++ [e]) = cnt r l + (if e.2 = r then 1 else 0) := by
  unfold cnt
  by_cases h : e.2 = r <;> simp [List.filter_append, List.filter_cons, h]

theorem inv_init (parent : Key → Rd) (c cap : Nat) : Inv parent (init c cap) := by
  constructor <;> simp [init, Declared]

/-- one loop iteration of `Fetch` on the fresh (not yet closed) record `r` -/
theorem inv_fetchKey {parent : Key → Rd} {s : St} {r : Nat} (k : Key)
    (h : Inv parent s) (hr : ∃ rc, s.recs r = some rc ∧ rc.closed = false) :
    Inv parent (fetchKey r s k) ∧ (∃ rc, (fetchKey r s k).recs r = some rc ∧ rc.closed = false) := by
  obtain ⟨rc0, hrc0, hcl⟩ := hr
  have hdeclStep : ∀ (inc : Bool) k', (∃ r' rc, bump s.recs r k inc r' = some rc ∧ k' ∈ rc.keys) ↔
      (Declared s k' ∨ k' = k) := by
    intro inc k'
    constructor
    · rintro ⟨r', rc, h1, h2⟩
      unfold bump upd at h1
      by_cases e : r' = r
      · subst e; simp [hrc0] at h1; subst h1; simp at h2
        rcases h2 with h2 | h2
        · exact Or.inl ⟨r', rc0, hrc0, h2⟩
        · exact Or.inr h2
      · simp [e] at h1; exact Or.inl ⟨r', rc, h1, h2⟩
    · rintro (⟨r', rc, h1, h2⟩ | rfl)
      · by_cases e : r' = r
        · subst e
          refine ⟨r', _, by simp [bump, upd, hrc0]; rfl, ?_⟩
          rw [hrc0] at h1; cases h1; simp [h2]
        · exact ⟨r', rc, by simp [bump, upd, e, h1], h2⟩
      · exact ⟨r, _, by simp [bump, upd, hrc0]; rfl, by simp⟩
  have hb0 : (0 : Int) ≤ rc0.blockers := by
    have := (h.recok r rc0 hrc0).2.1; omega
  have hrecs : ∀ (inc : Bool) r' rc, bump s.recs r k inc r' = some rc →
      (r' ≠ r ∧ s.recs r' = some rc) ∨
      (r' = r ∧ rc = { rc0 with keys := rc0.keys ++ [k],
                                blockers := if inc then rc0.blockers + 1 else rc0.blockers,
                                waiter := rc0.waiter || inc }) := by
    intro inc r' rc h1
    unfold bump upd at h1
    by_cases e : r' = r
    · subst e; simp [hrc0] at h1; exact Or.inr ⟨rfl, h1.symm⟩
    · simp [e] at h1; exact Or.inl ⟨e, h1⟩
  have hfresh : ∃ rc, (fetchKey r s k).recs r = some rc ∧ rc.closed = false := by
    unfold fetchKey
    split <;> exact ⟨_, by simp [bump, upd, hrc0]; rfl, by simpa using hcl⟩
  refine ⟨?_, hfresh⟩
  have hok0 := (h.recok r rc0 hrc0)
  have hrlt : r < s.nrecs := by
    rcases Nat.lt_or_ge r s.nrecs with h1 | h1
    · exact h1
    · have := h.fresh r h1; rw [hrc0] at this; cases this
  have hfr : ∀ (inc : Bool) r', s.nrecs ≤ r' → bump s.recs r k inc r' = none := by
    intro inc r' h1
    have e : r' ≠ r := by omega
    simp [bump, upd, e, h.fresh r' h1]
  have hbi : ∀ e ∈ s.blocked ++ [(k, r)], e.2 < s.nrecs := by
    intro e he
    simp at he
    rcases he with he | rfl
    · exact h.blkIdx e he
    · exact hrlt
  unfold fetchKey
  split
  next hc =>
    -- new entry
    have hknot : k ∉ s.sending ∧ k ∉ s.queue ∧ k ∉ s.requested := by
      refine ⟨fun hx => h.qr1 k (Or.inl hx) hc, fun hx => h.qr1 k (Or.inr (Or.inl hx)) hc,
        fun hx => h.qr1 k (Or.inr (Or.inr hx)) hc⟩
    refine ⟨?_, ?_, ?_, ?_, ?_, ?_, ?_, ?_, ?_⟩
    · intro k'
      show upd s.cache k (some none) k' ≠ none ↔ _
      unfold Declared; simp only []
      rw [hdeclStep true k', ← h.decl k']
      unfold upd; by_cases e : k' = k <;> simp [e]
    · intro k' hk'
      show upd s.cache k (some none) k' ≠ none
      unfold upd; by_cases e : k' = k
      · simp [e]
      · simp only [e, if_false]
        apply h.qr1 k'
        simp only [List.mem_append, List.mem_singleton] at hk'
        grind
    · intro he k' hk'
      have hk'' : upd s.cache k (some none) k' ≠ none := hk'
      unfold upd at hk''
      by_cases e : k' = k
      · subst e; exact Or.inl (by simp)
      · simp only [e, if_false] at hk''
        have := h.qr2 he k' hk''
        simp only [List.mem_append, List.mem_singleton]
        grind
    · have := h.nodup
      simp only [List.append_assoc, List.nodup_append, List.nodup_cons, List.mem_append,
        List.mem_singleton, List.mem_cons] at *
      grind
    · intro k' d hk'
      have : s.cache k' = some (some d) := by
        unfold upd at hk'; by_cases e : k' = k <;> simp [e] at hk'; exact hk'
      exact h.vals k' d this
    · intro r' rc h1
      rcases hrecs true r' rc h1 with ⟨hne, h2⟩ | ⟨rfl, rfl⟩
      · obtain ⟨a, b, c⟩ := h.recok r' rc h2
        refine ⟨a, ?_, ?_⟩
        · simp [cnt_append, Ne.symm hne, b]
        · intro j hj hcj
          have hjk : j ≠ k := by
            rintro rfl
            have := (h.decl j).2 ⟨r', rc, h2, hj⟩
            exact this hc
          have : s.cache j = some none := by simpa [upd, hjk] using hcj
          simp [c j hj this]
      · refine ⟨?_, ?_, ?_⟩
        · unfold RecOk at *; simp at *
          constructor
          · intro hx; simp [hcl] at hx
          · omega
        · simp [cnt_append, hok0.2.1]
        · intro j hj hcj
          simp at hj
          rcases hj with hj | rfl
          · by_cases hjk : j = k
            · subst hjk; simp
            · have : s.cache j = some none := by simpa [upd, hjk] using hcj
              simp [hok0.2.2 j hj this]
          · simp
    · exact h.inflReq
    · exact hfr true
    · exact hbi
  next d hc =>
    -- already cached
    refine ⟨?_, h.qr1, h.qr2, h.nodup, h.vals, ?_, h.inflReq, hfr false, h.blkIdx⟩
    · intro k'
      show s.cache k' ≠ none ↔ _
      unfold Declared; simp only []
      rw [hdeclStep false k', ← h.decl k']
      by_cases e : k' = k <;> simp [e, hc]
    · intro r' rc h1
      rcases hrecs false r' rc h1 with ⟨hne, h2⟩ | ⟨rfl, rfl⟩
      · exact h.recok r' rc h2
      · refine ⟨?_, ?_, ?_⟩
        · unfold RecOk at *; simpa using hok0.1
        · simpa using hok0.2.1
        · intro j hj hcj
          simp at hj
          rcases hj with hj | rfl
          · exact hok0.2.2 j hj hcj
          · simp [hc] at hcj
  next hc =>
    -- being fetched
    refine ⟨?_, h.qr1, h.qr2, h.nodup, h.vals, ?_, h.inflReq, hfr true, hbi⟩
    · intro k'
      show s.cache k' ≠ none ↔ _
      unfold Declared; simp only []
      rw [hdeclStep true k', ← h.decl k']
      by_cases e : k' = k <;> simp [e, hc]
    · intro r' rc h1
      rcases hrecs true r' rc h1 with ⟨hne, h2⟩ | ⟨rfl, rfl⟩
      · obtain ⟨a, b, c⟩ := h.recok r' rc h2
        refine ⟨a, ?_, ?_⟩
        · simp [cnt_append, Ne.symm hne, b]
        · intro j hj hcj
          simp [c j hj hcj]
      · refine ⟨?_, ?_, ?_⟩
        · unfold RecOk at *; simp at *
          constructor
          · intro hx; simp [hcl] at hx
          · omega
        · simp [cnt_append, hok0.2.1]
        · intro j hj hcj
          simp at hj
          rcases hj with hj | rfl
          · simp [hok0.2.2 j hj hcj]
          · simp

theorem inv_foldl_fetchKey {parent : Key → Rd} (r : Nat) (ks : List Key) :
    ∀ {s : St}, Inv parent s → (∃ rc, s.recs r = some rc ∧ rc.closed = false) →
      Inv parent (ks.foldl (fetchKey r) s) := by
  induction ks with
  | nil => intro s h _; exact h
  | cons k ks ih =>
    intro s h hr
    obtain ⟨h1, h2⟩ := inv_fetchKey k h hr
    exact ih h1 h2


/-- `Inv` only reads these fields -/
theorem inv_of_eq {parent : Key → Rd} {s s' : St} (h : Inv parent s)
    (h1 : s'.cache = s.cache) (h2 : s'.blocked = s.blocked) (h3 : s'.recs = s.recs)
    (h4 : s'.nrecs = s.nrecs) (h5 : s'.queue = s.queue) (h6 : s'.inflight = s.inflight)
    (h7 : s'.requested = s.requested) (h8 : s'.sending = s.sending)
    (h9 : s'.err = none → s.err = none) : Inv parent s' := by
  cases s; cases s'
  simp only at h1 h2 h3 h4 h5 h6 h7 h8 h9
  subst h1 h2 h3 h4 h5 h6 h7 h8
  obtain ⟨a, b1, b2, c, d, e, f, g, i⟩ := h
  exact ⟨a, b1, fun he => b2 (h9 he), c, d, e, f, g, i⟩

theorem inv_fetch {parent : Key → Rd} {s : St} (tx : TxId) (ks : List Key) (h : Inv parent s) :
    Inv parent (fetch s tx ks).1 := by
  unfold fetch
  split
  · exact h
  · have hn : s.recs s.nrecs = none := h.fresh _ (Nat.le_refl _)
    have h0 : Inv parent (newRec s) := by
      obtain ⟨a, b1, b2, c, d, e, f, g, i⟩ := h
      have hD : ∀ k, Declared (newRec s) k ↔ Declared s k := by
        intro k
        constructor
        · rintro ⟨r, rc, h1, h2⟩
          simp only [newRec, upd] at h1
          by_cases er : r = s.nrecs
          · simp [er] at h1; subst h1; simp at h2
          · simp [er] at h1; exact ⟨r, rc, h1, h2⟩
        · rintro ⟨r, rc, h1, h2⟩
          have er : r ≠ s.nrecs := by rintro rfl; rw [hn] at h1; cases h1
          exact ⟨r, rc, by simp [newRec, upd, er, h1], h2⟩
      refine ⟨?_, b1, b2, c, d, ?_, f, ?_, ?_⟩
      · intro k; rw [hD]; exact a k
      · intro r rc h1
        simp only [newRec, upd] at h1
        by_cases er : r = s.nrecs
        · simp [er] at h1; subst h1
          refine ⟨by simp [RecOk], ?_, by simp⟩
          have : cnt r s.blocked = 0 := by
            unfold cnt
            simp only [List.length_eq_zero_iff, List.filter_eq_nil_iff]
            intro x hx
            have := i x hx
            simp; omega
          simp [newRec, this]
        · simp [er] at h1; exact e r rc h1
      · intro r hr
        simp only [newRec] at hr ⊢
        have er : r ≠ s.nrecs := by omega
        simp [upd, er]; exact g r (by omega)
      · intro x hx
        have := i x hx
        simp only [newRec] at hx ⊢; omega
    have h1 := inv_foldl_fetchKey (parent := parent) s.nrecs ks h0
      ⟨{ blockers := 0, waiter := false, closed := false, keys := [] }, by simp [newRec, upd], rfl⟩
    exact inv_of_eq h1 rfl rfl rfl rfl rfl rfl rfl rfl id

theorem inv_take {parent : Key → Rd} {s s' : St} (h : Inv parent s) (ht : take s = some s') :
    Inv parent s' := by
  unfold take at ht
  split at ht
  · cases ht
  next k q hq =>
    split at ht
    · cases ht
      obtain ⟨a, b1, b2, c, d, e, f, g, i⟩ := h
      refine ⟨a, ?_, ?_, ?_, d, e, ?_, g, i⟩
      · intro k' hk'
        apply b1 k'
        simp only [hq, List.mem_cons, List.mem_append, List.mem_singleton] at hk' ⊢
        grind
      · intro he k' hk'
        have := b2 he k' hk'
        simp only [hq, List.mem_cons, List.mem_append, List.mem_singleton] at this ⊢
        grind
      · simp only [hq] at c
        simp only [List.append_assoc, List.nodup_append, List.nodup_cons, List.mem_cons, List.mem_append,
          List.mem_singleton] at *
        grind
      · intro k' hk'
        simp only [List.mem_append, List.mem_singleton] at hk' ⊢
        rcases hk' with hk' | hk'
        · exact Or.inl (f k' hk')
        · exact Or.inr hk'
    · cases ht

theorem cnt_split (r : Nat) (p : Key × Nat → Bool) (l : List (Key × Nat)) :
    cnt r l = cnt r (l.filter p) + cnt r (l.filter (fun e => !p e)) := by
  unfold cnt
  induction l with
  | nil => rfl
  | cons x l ih =>
    by_cases hp : p x = true <;> by_cases hx : (x.2 == r) = true <;>
      simp [List.filter_cons, hp, hx] at ih ⊢ <;> omega

theorem cnt_cons (r : Nat) (e : Key × Nat) (l : List (Key × Nat)) :
    cnt r (e :: l) = cnt r l + (if e.2 = r then 1 else 0) := by
  unfold cnt
  by_cases h : e.2 = r <;> simp [List.filter_cons, h]

/-- effect of the `blocked` loop of `set` on every record -/
theorem decrAll_spec (L : List (Key × Nat)) :
    ∀ (recs : Nat → Option Rec) (p : Bool),
      (∀ r rc, recs r = some rc → RecOk rc ∧ (cnt r L : Int) ≤ rc.blockers) →
      ∀ r, ((decrAll L (recs, p)).1 r = none ↔ recs r = none) ∧
        ∀ rc, recs r = some rc → ∃ rc', (decrAll L (recs, p)).1 r = some rc' ∧
          rc'.blockers = rc.blockers - (cnt r L : Int) ∧ rc'.keys = rc.keys ∧ RecOk rc' := by
  induction L with
  | nil =>
    intro recs p h r
    refine ⟨by simp [decrAll], ?_⟩
    intro rc hrc
    exact ⟨rc, by simp [decrAll, hrc], by simp [cnt], rfl, (h r rc hrc).1⟩
  | cons e rest ih =>
    intro recs p h r
    simp only [decrAll]
    -- the records after the first decrement
    have key : ∀ r1, ((decr recs e.2).1 r1 = none ↔ recs r1 = none) ∧
        ∀ rc, recs r1 = some rc → ∃ rc1, (decr recs e.2).1 r1 = some rc1 ∧
          rc1.blockers = rc.blockers - (if e.2 = r1 then 1 else 0) ∧ rc1.keys = rc.keys ∧
          RecOk rc1 := by
      intro r1
      unfold decr
      cases hre : recs e.2 with
      | none =>
        simp only []
        refine ⟨by first | trivial | exact Iff.rfl, ?_⟩
        intro rc hrc
        have : e.2 ≠ r1 := by rintro rfl; rw [hre] at hrc; cases hrc
        exact ⟨rc, hrc, by simp [this], rfl, (h r1 rc hrc).1⟩
      | some rce =>
        simp only []
        have hb := h e.2 rce hre
        have hc1 : (1 : Int) ≤ rce.blockers := by
          have := hb.2; rw [cnt_cons] at this; simp at this; omega
        by_cases e1 : e.2 = r1
        · subst e1
          split
          next hz =>
            refine ⟨by simp [upd, hre], ?_⟩
            intro rc hrc; rw [hre] at hrc; cases hrc
            refine ⟨{ rce with blockers := rce.blockers - 1, closed := true }, by simp [upd], by simp, rfl, ?_⟩
            obtain ⟨⟨ha, hb2⟩, _⟩ := hb
            unfold RecOk; simp
            refine ⟨?_, fun hw => hz⟩
            refine ⟨?_, hz⟩
            cases hw : rce.waiter with
            | true => rfl
            | false => have := hb2 hw; omega
          next hz =>
            refine ⟨by simp [upd, hre], ?_⟩
            intro rc hrc; rw [hre] at hrc; cases hrc
            refine ⟨{ rce with blockers := rce.blockers - 1 }, by simp [upd], by simp, rfl, ?_⟩
            obtain ⟨⟨ha, hb2⟩, _⟩ := hb
            unfold RecOk; simp
            constructor
            · constructor
              · intro hcl; have := (ha.1 hcl).2; omega
              · intro hx; exact absurd hx.2 hz
            · intro hw; have := hb2 hw; omega
        · have hne : r1 ≠ e.2 := Ne.symm e1
          split <;>
          · refine ⟨by simp [upd, hne], ?_⟩
            intro rc hrc
            exact ⟨rc, by simp [upd, hne, hrc], by simp [e1], rfl, (h r1 rc hrc).1⟩
    have hpre : ∀ r1 rc1, (decr recs e.2).1 r1 = some rc1 →
        RecOk rc1 ∧ (cnt r1 rest : Int) ≤ rc1.blockers := by
      intro r1 rc1 h1
      cases hr1 : recs r1 with
      | none => have := (key r1).1.2 hr1; rw [this] at h1; cases h1
      | some rc =>
        obtain ⟨rc1', h2, h3, _, h5⟩ := (key r1).2 rc hr1
        rw [h2] at h1; cases h1
        refine ⟨h5, ?_⟩
        have := (h r1 rc hr1).2
        rw [cnt_cons] at this
        rw [h3]; split <;> simp_all <;> omega
    have IH := ih (decr recs e.2).1 (p || (decr recs e.2).2) hpre r
    refine ⟨IH.1.trans (key r).1, ?_⟩
    intro rc hrc
    obtain ⟨rc1, h2, h3, h4, _⟩ := (key r).2 rc hrc
    obtain ⟨rc', g1, g2, g3, g4⟩ := IH.2 rc1 h2
    refine ⟨rc', g1, ?_, by rw [g3, h4], g4⟩
    rw [g2, h3, cnt_cons]; split <;> simp <;> omega

theorem inv_setKey {parent : Key → Rd} {s : St} (k : Key) (d : Option Val) (h : Inv parent s)
    (hk : k ∈ s.requested) (hp : parent k = rdOf d) : Inv parent (setKey s k d) := by
  have hck : s.cache k ≠ none := h.qr1 k (Or.inr (Or.inr hk))
  let L := s.blocked.filter (fun e => e.1 == k)
  have hpre : ∀ r rc, s.recs r = some rc → RecOk rc ∧ (cnt r L : Int) ≤ rc.blockers := by
    intro r rc hrc
    obtain ⟨a, b, _⟩ := h.recok r rc hrc
    refine ⟨a, ?_⟩
    have := cnt_split r (fun e => e.1 == k) s.blocked
    rw [b]; show (cnt r (s.blocked.filter fun e => e.1 == k) : Int) ≤ _; omega
  have spec := decrAll_spec L s.recs false hpre
  have hD : ∀ k', Declared (setKey s k d) k' ↔ Declared s k' := by
    intro k'
    constructor
    · rintro ⟨r, rc', h1, h2⟩
      cases hr : s.recs r with
      | none => have := (spec r).1.2 hr; simp only [setKey] at h1; rw [this] at h1; cases h1
      | some rc =>
        obtain ⟨rc'', g1, _, g3, _⟩ := (spec r).2 rc hr
        simp only [setKey] at h1; rw [g1] at h1; cases h1
        exact ⟨r, rc, hr, g3 ▸ h2⟩
    · rintro ⟨r, rc, h1, h2⟩
      obtain ⟨rc', g1, _, g3, _⟩ := (spec r).2 rc h1
      exact ⟨r, rc', by simp only [setKey]; exact g1, g3 ▸ h2⟩
  have hcache : ∀ k', (setKey s k d).cache k' ≠ none ↔ s.cache k' ≠ none := by
    intro k'
    simp only [setKey, upd]
    by_cases e : k' = k <;> simp [e, hck]
  refine ⟨?_, ?_, ?_, h.nodup, ?_, ?_, h.inflReq, ?_, ?_⟩
  · intro k'; rw [hcache, hD]; exact h.decl k'
  · intro k' hk'; rw [hcache]; exact h.qr1 k' hk'
  · intro he k' hk'; rw [hcache] at hk'; exact h.qr2 he k' hk'
  · intro k' d' hk'
    simp only [setKey, upd] at hk'
    by_cases e : k' = k
    · subst e; simp at hk'; subst hk'; exact hp
    · simp [e] at hk'; exact h.vals k' d' hk'
  · intro r rc' h1
    cases hr : s.recs r with
    | none => have := (spec r).1.2 hr; simp only [setKey] at h1; rw [this] at h1; cases h1
    | some rc =>
      obtain ⟨rc'', g1, g2, g3, g4⟩ := (spec r).2 rc hr
      simp only [setKey] at h1; rw [g1] at h1; cases h1
      obtain ⟨_, b, c⟩ := h.recok r rc hr
      refine ⟨g4, ?_, ?_⟩
      · have := cnt_split r (fun e => e.1 == k) s.blocked
        simp only [setKey]
        rw [g2, b]; show _ = (cnt r (s.blocked.filter fun e => !(e.1 == k)) : Int)
        show ((cnt r s.blocked : Nat) : Int) - (cnt r (s.blocked.filter fun e => e.1 == k) : Int) = _
        omega
      · intro j hj hcj
        rw [g3] at hj
        simp only [setKey, upd] at hcj ⊢
        by_cases e : j = k
        · simp [e] at hcj
        · simp [e] at hcj
          simp [c j hj hcj, e]
  · intro r hr
    simp only [setKey] at hr ⊢
    exact (spec r).1.2 (h.fresh r hr)
  · intro x hx
    simp only [setKey, List.mem_filter] at hx ⊢
    exact h.blkIdx x hx.1

theorem inv_complete {parent : Key → Rd} {s s' : St} (k : Key) (h : Inv parent s)
    (hc : complete parent s k = some s') : Inv parent s' := by
  unfold complete at hc
  split at hc
  next hin =>
    have hreq : k ∈ s.requested := h.inflReq k hin
    have h1 : Inv parent { s with inflight := s.inflight.erase k } := by
      obtain ⟨a, b1, b2, c, d, e, f, g, i⟩ := h
      exact ⟨a, b1, b2, c, d, e, fun j hj => f j (List.mem_of_mem_erase hj), g, i⟩
    split at hc
    next v hv => cases hc; exact inv_setKey k (some v) h1 hreq (by simp [hv, rdOf])
    next hv => cases hc; exact inv_setKey k none h1 hreq (by simp [hv, rdOf])
    next hv =>
      cases hc
      exact inv_of_eq h1 (by simp only [handleErr]; split <;> rfl) (by simp only [handleErr]; split <;> rfl)
        (by simp only [handleErr]; split <;> rfl) (by simp only [handleErr]; split <;> rfl)
        (by simp only [handleErr]; split <;> rfl) (by simp only [handleErr]; split <;> rfl)
        (by simp only [handleErr]; split <;> rfl) (by simp only [handleErr]; split <;> rfl)
        (by simp only [handleErr]; split <;> simp)
    next hv =>
      cases hc
      exact inv_of_eq h1 (by simp only [handleErr]; split <;> rfl) (by simp only [handleErr]; split <;> rfl)
        (by simp only [handleErr]; split <;> rfl) (by simp only [handleErr]; split <;> rfl)
        (by simp only [handleErr]; split <;> rfl) (by simp only [handleErr]; split <;> rfl)
        (by simp only [handleErr]; split <;> rfl) (by simp only [handleErr]; split <;> rfl)
        (by simp only [handleErr]; split <;> simp)
  · cases hc

theorem inv_send {parent : Key → Rd} {s s' : St} (h : Inv parent s) (hs : send s = some s') :
    Inv parent s' := by
  unfold send at hs
  split at hs
  · cases hs
  next k rest hq =>
    split at hs
    · cases hs
      obtain ⟨a, b1, b2, c, d, e, f, g, i⟩ := h
      refine ⟨a, ?_, ?_, ?_, d, e, f, g, i⟩
      · intro k' hk'
        apply b1 k'
        simp only [hq, List.mem_cons, List.mem_append, List.mem_singleton] at hk' ⊢
        grind
      · intro he k' hk'
        have := b2 he k' hk'
        simp only [hq, List.mem_cons, List.mem_append, List.mem_singleton] at this ⊢
        grind
      · simp only [hq] at c
        simp only [List.append_assoc, List.nodup_append, List.nodup_cons, List.mem_cons, List.mem_append,
          List.mem_singleton] at *
        grind
    · cases hs

theorem inv_abort {parent : Key → Rd} {s s' : St} (h : Inv parent s) (hs : abort s = some s') :
    Inv parent s' := by
  unfold abort at hs
  split at hs
  next hcond =>
    cases hs
    obtain ⟨a, b1, b2, c, d, e, f, g, i⟩ := h
    refine ⟨a, ?_, ?_, ?_, d, e, f, g, i⟩
    · intro k' hk'
      apply b1 k'
      simp only [List.not_mem_nil, false_or] at hk'
      exact Or.inr hk'
    · intro he
      have := hcond.2
      simp only [] at he
      rw [he] at this; cases this
    · simp only [List.nil_append]
      exact (List.nodup_append.1 (by simpa [List.append_assoc] using c)).2.1
  · cases hs

theorem inv_step {parent : Key → Rd} {s s' : St} (h : Inv parent s) (st : Step parent s s') :
    Inv parent s' := by
  match st with
  | .fetch _ tx ks _ _ => exact inv_fetch tx ks h
  | .send _ _ hs => exact inv_send h hs
  | .abort _ _ hs => exact inv_abort h hs
  | .take _ _ ht => exact inv_take h ht
  | .complete _ k _ hc => exact inv_complete k h hc
  | .exit _ _ he =>
    unfold exit at he; split at he
    · cases he; exact inv_of_eq h rfl rfl rfl rfl rfl rfl rfl rfl id
    · cases he
  | .stop _ =>
    exact inv_of_eq h (by simp only [stop, handleErr]; split <;> rfl) (by simp only [stop, handleErr]; split <;> rfl)
      (by simp only [stop, handleErr]; split <;> rfl) (by simp only [stop, handleErr]; split <;> rfl)
      (by simp only [stop, handleErr]; split <;> rfl) (by simp only [stop, handleErr]; split <;> rfl)
      (by simp only [stop, handleErr]; split <;> rfl) (by simp only [stop, handleErr]; split <;> rfl)
      (by simp only [stop, handleErr]; split <;> simp)
  | .waitCall _ _ => exact inv_of_eq h rfl rfl rfl rfl rfl rfl rfl rfl id
  | .waitRet _ _ e hw =>
    unfold waitRet at hw; split at hw
    · cases hw; exact inv_of_eq h rfl rfl rfl rfl rfl rfl rfl rfl id
    · cases hw

theorem inv_reach {parent : Key → Rd} {c cap : Nat} {s : St} (h : Reach parent c cap s) : Inv parent s := by
  induction h with
  | init => exact inv_init parent c cap
  | step s s' _ st ih => exact inv_step ih st

end HyperModel.Fetcher
