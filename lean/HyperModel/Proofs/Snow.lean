import HyperModel.Model.Snow
/-! Lemmas about the `snow.VM` model (C20, C21): log checkers, heap frame, invariants. -/
namespace HyperModel.Snow

/-! ### What the log says -/

/-- outputs an event hands back to the wrapper (successful `VerifyBlock` / `BuildBlock`) -/
def gain : Event → List Out
  | .cVerify _ _ (some o) => [o]
  | .cBuild _ (some o) => [o]
  | _ => []

/-- outputs produced by the inner chain up to the end of log `l`, starting from `P` -/
def prodFrom (P : List Out) (l : List Event) : List Out := l.foldl (fun P e => gain e ++ P) P

/-- check every event against the outputs produced strictly before it -/
def checkLog (f : List Out → Event → Bool) : List Out → List Event → Bool
  | _, [] => true
  | P, e :: es => f P e && checkLog f (gain e ++ P) es

theorem prodFrom_append (P l1 l2) : prodFrom P (l1 ++ l2) = prodFrom (prodFrom P l1) l2 := by
  simp [prodFrom, List.foldl_append]

theorem checkLog_append (f P l1 l2) :
    checkLog f P (l1 ++ l2) = (checkLog f P l1 && checkLog f (prodFrom P l1) l2) := by
  induction l1 generalizing P with
  | nil => simp [checkLog, prodFrom]
  | cons e es ih => simp [checkLog, prodFrom, ih, Bool.and_assoc]

theorem mem_prodFrom_of_mem {P : List Out} {o : Out} (l : List Event) (h : o ∈ P) : o ∈ prodFrom P l := by
  induction l generalizing P with
  | nil => simpa [prodFrom]
  | cons e es ih => exact ih (List.mem_append_right _ h)

theorem mem_prodFrom_append {P : List Out} {o : Out} {l1 : List Event} (l2 : List Event)
    (h : o ∈ prodFrom P l1) : o ∈ prodFrom P (l1 ++ l2) := by
  rw [prodFrom_append]; exact mem_prodFrom_of_mem _ h

/-- `VerifyBlock(parent, b)`: the parent output is present, is the output of block `b.parent`,
and was produced earlier -/
def parentOKEv (P : List Out) : Event → Bool
  | .cVerify po b _ =>
    match po with
    | some o => o.blk.id == b.parent && P.contains o
    | none => false
  | _ => true

/-- `AcceptBlock(_, o)`: the output is present and was produced earlier -/
def acceptOKEv (P : List Out) : Event → Bool
  | .cAccept _ o _ =>
    match o with
    | some o => P.contains o
    | none => false
  | _ => true

/-- blocks handed to `AcceptBlock`, in order -/
def acceptLog (l : List Event) : List Blk :=
  l.filterMap fun | .cAccept _ (some o) _ => some o.blk | .cAccept _ none _ => some nilBlk | _ => none
/-- results of `AcceptBlock` -/
def acceptRes (l : List Event) : List Acc := l.filterMap fun | .cAccept _ _ a => some a | _ => none
def nAcc (l : List Event) : List Acc := l.filterMap fun | .nAccepted a => some a | _ => none
/-- results of successful `VerifyBlock` -/
def verifyRes (l : List Event) : List Out := l.filterMap fun | .cVerify _ _ (some o) => some o | _ => none
def nVer (l : List Event) : List Out := l.filterMap fun | .nVerified o => some o | _ => none
/-- blocks of rejected notifications (verified: `rejectedSubs`, unverified: `preRejectedSubs`) -/
def nRej (l : List Event) : List Blk :=
  l.filterMap fun | .nRejected (some o) => some o.blk | .nRejected none => some nilBlk | _ => none
def nPre (l : List Event) : List Blk :=
  l.filterMap fun | .nPreRejected b => some b | .nPreAccepted b => some b | _ => none

def out0 (g : Blk) : Out := ⟨g, [g.id]⟩
def acc0 (g : Blk) : Acc := ⟨g, [g.id]⟩

/-! ### Heap helpers -/

@[simp] theorem obj_setObj (s : State) (h : Nat) (o : Obj) (j : Nat) :
    (s.setObj h o).obj j = if j = h then o else s.obj j := by
  unfold State.obj State.setObj; by_cases e : j = h <;> simp [Map.set, e]

@[simp] theorem obj_alloc (s : State) (o : Obj) (j : Nat) :
    (s.alloc o).1.obj j = if j = s.nobj then o else s.obj j := by
  unfold State.obj State.alloc; by_cases e : j = s.nobj <;> simp [Map.set, e]

@[simp] theorem obj_emit (s : State) (e : Event) (j : Nat) : (s.emit e).obj j = s.obj j := rfl
@[simp] theorem obj_vbSet (s : State) (a b j : Nat) : (s.vbSet a b).obj j = s.obj j := rfl
@[simp] theorem obj_vbDel (s : State) (a j : Nat) : (s.vbDel a).obj j = s.obj j := rfl
@[simp] theorem obj_setLastAccepted (s : State) (a j : Nat) : (s.setLastAccepted a).obj j = s.obj j := rfl


/-! ### Heap invariant (normal operation) -/

structure Heap (g : Blk) (s : State) : Prop where
  ver : ∀ h, (s.obj h).verified = true →
    ∃ o, (s.obj h).out = some o ∧ o.blk = (s.obj h).blk ∧ o ∈ prodFrom [out0 g] s.log
  vb : ∀ id h, s.vb id = some h → h < s.nobj ∧ (s.obj h).blk.id = id
  acc : ∀ id h, s.accByID.m id = some h → h < s.nobj ∧ (s.obj h).blk.id = id
  parents : checkLog parentOKEv [out0 g] s.log = true
  accepts : checkLog acceptOKEv [out0 g] s.log = true
  queue : ∀ h, (h ∈ s.queue ∨ ∃ pa, s.inflight = some (h, pa)) → h < s.nobj ∧ (s.obj h).verified = true
  ready : s.ready = true

def neutral : Event → Bool
  | .cParse _ | .nVerified _ | .nAccepted _ | .nRejected _ | .nPreAccepted _ | .nPreRejected _ => true
  | .cBuild _ none => true
  | _ => false

theorem Heap.emit_neutral {g s} (hs : Heap g s) (e : Event) (hn : neutral e = true) : Heap g (s.emit e) := by
  have hg : gain e = [] := by cases e <;> simp_all [neutral, gain] <;> (rename_i r; cases r <;> simp_all [neutral, gain])
  have hp : ∀ P, parentOKEv P e = true := by intro P; cases e <;> simp_all [neutral, parentOKEv]
  have ha : ∀ P, acceptOKEv P e = true := by intro P; cases e <;> simp_all [neutral, acceptOKEv]
  refine ⟨?_, hs.vb, hs.acc, ?_, ?_, hs.queue, hs.ready⟩
  · intro h hv
    obtain ⟨o, h1, h2, h3⟩ := hs.ver h hv
    exact ⟨o, h1, h2, by simpa [State.emit] using mem_prodFrom_append [e] h3⟩
  · simp [State.emit, checkLog_append, hs.parents, checkLog, hp]
  · simp [State.emit, checkLog_append, hs.accepts, checkLog, ha]

theorem Heap.alloc_unverified {g s} (hs : Heap g s) (b : Blk) : Heap g (s.alloc { blk := b }).1 := by
  refine ⟨?_, ?_, ?_, hs.parents, hs.accepts, ?_, hs.ready⟩
  · intro h hv
    simp only [obj_alloc] at hv ⊢
    by_cases e : h = s.nobj
    · simp [e] at hv
    · simp only [e, if_false] at hv ⊢; exact hs.ver h hv
  · intro id h hh
    obtain ⟨h1, h2⟩ := hs.vb id h hh
    have : h ≠ s.nobj := by omega
    simp only [obj_alloc, this, if_false]
    exact ⟨by simp [State.alloc]; omega, h2⟩
  · intro id h hh
    obtain ⟨h1, h2⟩ := hs.acc id h hh
    have : h ≠ s.nobj := by omega
    simp only [obj_alloc, this, if_false]
    exact ⟨by simp [State.alloc]; omega, h2⟩
  · intro h hh
    obtain ⟨h1, h2⟩ := hs.queue h hh
    have : h ≠ s.nobj := by omega
    simp only [obj_alloc, this, if_false]
    exact ⟨by simp [State.alloc]; omega, h2⟩

theorem Heap.materialize {g s} (hs : Heap g s) (f : Found) : Heap g (s.materialize f).1 := by
  cases f with
  | obj h => exact hs
  | bare b => exact hs.alloc_unverified b
  | missing => exact hs

/-- a state that differs only in fields the heap invariant does not mention -/
theorem Heap.congr {g s s'} (hs : Heap g s) (h1 : s'.objs = s.objs) (h2 : s'.nobj = s.nobj) (h3 : s'.vb = s.vb)
    (h4 : s'.accByID = s.accByID) (h5 : s'.log = s.log) (h6 : s'.queue = s.queue) (h7 : s'.inflight = s.inflight)
    (h8 : s'.ready = s.ready) : Heap g s' := by
  have ho : ∀ h, s'.obj h = s.obj h := by intro h; simp [State.obj, h1]
  refine ⟨?_, ?_, ?_, ?_, ?_, ?_, ?_⟩
  · intro h hv; rw [ho] at hv ⊢; rw [h5]; exact hs.ver h hv
  · intro id h hh; rw [h3] at hh; rw [ho, h2]; exact hs.vb id h hh
  · intro id h hh; rw [h4] at hh; rw [ho, h2]; exact hs.acc id h hh
  · rw [h5]; exact hs.parents
  · rw [h5]; exact hs.accepts
  · intro h hh; rw [h6, h7] at hh; rw [ho, h2]; exact hs.queue h hh
  · rw [h8]; exact hs.ready


theorem Fifo.put_m (f : Fifo) (k v j h : Nat) (hh : (f.put k v).m j = some h) :
    (j = k ∧ h = v) ∨ f.m j = some h := by
  unfold Fifo.put at hh
  split at hh
  · simp only [Map.set_apply] at hh; split at hh <;> simp_all
  · split at hh
    · split at hh
      · simp only [Map.set_apply] at hh; split at hh <;> simp_all
      · simp only [Map.set_apply] at hh
        split at hh
        · simp_all
        · split at hh <;> simp_all
    · simp only [Map.set_apply] at hh; split at hh <;> simp_all

theorem Heap.get {g s} (hs : Heap g s) (id : Nat) : Heap g (get s id).1 := by
  unfold HyperModel.Snow.get
  have := hs.materialize (s.getBlock id)
  split <;> simp_all

theorem Heap.getH {g s} (hs : Heap g s) (ht : Nat) : Heap g (getH s ht).1 := by
  unfold HyperModel.Snow.getH
  split
  · exact hs
  · split
    · exact hs
    · split
      · exact hs
      · exact hs.get _

theorem Heap.parseNew {g s} (hs : Heap g s) (b : Blk) : Heap g (parseNew s b).1 := by
  unfold HyperModel.Snow.parseNew
  have h2 := (hs.emit_neutral (.cParse b) rfl).alloc_unverified b
  exact h2.congr rfl rfl rfl rfl rfl rfl rfl rfl

theorem Heap.parse {g s} (hs : Heap g s) (b : Blk) : Heap g (parse s b).1 := by
  unfold HyperModel.Snow.parse
  have h1 : Heap g { s with parsed := (s.parsed.get b.id).1 } := hs.congr rfl rfl rfl rfl rfl rfl rfl rfl
  split
  · split
    · exact h1
    · exact h1.parseNew b
  · have := hs.materialize (s.getBlock b.id)
    split <;> simp_all

theorem Heap.build {g s} (hs : Heap g s) (n : Nat) (c : Option Nat) : Heap g (build s n c).1 := by
  unfold HyperModel.Snow.build
  dsimp only
  split
  · exact hs
  · rename_i p hp
    split
    · exact hs.emit_neutral _ rfl
    · rename_i b o hb
      have hob : o.blk = b := by
        unfold chainBuild at hb; split at hb <;> simp at hb; obtain ⟨rfl, rfl⟩ := hb; rfl
      let s1 := s.emit (.cBuild p.out (some o))
      have hlog : s1.log = s.log ++ [.cBuild p.out (some o)] := rfl
      have hmem : o ∈ prodFrom [out0 g] s1.log := by
        rw [hlog, prodFrom_append]; simp [prodFrom, gain]
      have h1 : Heap g (s1.alloc ⟨b, true, some o, false, none⟩).1 := by
        refine ⟨?_, ?_, ?_, ?_, ?_, ?_, hs.ready⟩
        · intro h hv
          simp only [obj_alloc] at hv ⊢
          by_cases e : h = s1.nobj
          · simp only [e, if_true]; exact ⟨o, rfl, hob, hmem⟩
          · simp only [e, if_false] at hv ⊢
            obtain ⟨o', a1, a2, a3⟩ := hs.ver h hv
            exact ⟨o', a1, a2, by show o' ∈ prodFrom [out0 g] (s.log ++ [.cBuild p.out (some o)]); exact mem_prodFrom_append _ a3⟩
        · intro id h hh
          obtain ⟨a1, a2⟩ := hs.vb id h hh
          have : h ≠ s1.nobj := by show h ≠ s.nobj; omega
          simp only [obj_alloc, this, if_false]
          exact ⟨by show h < s.nobj + 1; omega, a2⟩
        · intro id h hh
          obtain ⟨a1, a2⟩ := hs.acc id h hh
          have : h ≠ s1.nobj := by show h ≠ s.nobj; omega
          simp only [obj_alloc, this, if_false]
          exact ⟨by show h < s.nobj + 1; omega, a2⟩
        · show checkLog parentOKEv [out0 g] (s.log ++ [.cBuild p.out (some o)]) = true
          simp [checkLog_append, hs.parents, checkLog, parentOKEv]
        · show checkLog acceptOKEv [out0 g] (s.log ++ [.cBuild p.out (some o)]) = true
          simp [checkLog_append, hs.accepts, checkLog, acceptOKEv]
        · intro h hh
          obtain ⟨a1, a2⟩ := hs.queue h hh
          have : h ≠ s1.nobj := by show h ≠ s.nobj; omega
          simp only [obj_alloc, this, if_false]
          exact ⟨by show h < s.nobj + 1; omega, a2⟩
      exact h1.congr rfl rfl rfl rfl rfl rfl rfl rfl


theorem Heap.parent_lookup {g s} (hs : Heap g s) (id : Nat) (p : Obj)
    (hp : s.view (s.getBlock id) = some p) (hv : p.verified = true) :
    ∃ po, p.out = some po ∧ po.blk.id = id ∧ po ∈ prodFrom [out0 g] s.log := by
  unfold State.getBlock at hp
  split at hp
  · rename_i h hh
    simp only [State.view, Option.some.injEq] at hp; subst hp
    obtain ⟨o, a1, a2, a3⟩ := hs.ver h hv
    exact ⟨o, a1, by rw [a2]; exact (hs.vb id h hh).2, a3⟩
  · split at hp
    · rename_i h hh
      simp only [State.view, Option.some.injEq] at hp; subst hp
      obtain ⟨o, a1, a2, a3⟩ := hs.ver h hv
      exact ⟨o, a1, by rw [a2]; exact (hs.acc id h hh).2, a3⟩
    · split at hp
      · simp only [State.view, Option.some.injEq] at hp; subst hp; simp at hv
      · simp [State.view] at hp

theorem Heap.vbSet {g s} (hs : Heap g s) (id h : Nat) (hh : h < s.nobj) (hid : (s.obj h).blk.id = id) :
    Heap g (s.vbSet id h) := by
  refine ⟨hs.ver, ?_, hs.acc, hs.parents, hs.accepts, hs.queue, hs.ready⟩
  intro j k hk
  simp only [State.vbSet, Map.set_apply] at hk
  split at hk
  · simp only [Option.some.injEq] at hk; subst hk; rename_i e; subst e; exact ⟨hh, hid⟩
  · exact hs.vb j k hk

theorem Heap.vbDel {g s} (hs : Heap g s) (id : Nat) : Heap g (s.vbDel id) := by
  refine ⟨hs.ver, ?_, hs.acc, hs.parents, hs.accepts, hs.queue, hs.ready⟩
  intro j k hk
  simp only [State.vbDel, Map.set_apply] at hk
  split at hk
  · simp at hk
  · exact hs.vb j k hk

theorem Heap.emit_cVerify {g s} (hs : Heap g s) (po : Out) (b : Blk) (r : Option Out)
    (h1 : po ∈ prodFrom [out0 g] s.log) (h2 : po.blk.id = b.parent) :
    Heap g (s.emit (.cVerify (some po) b r)) := by
  refine ⟨?_, hs.vb, hs.acc, ?_, ?_, hs.queue, hs.ready⟩
  · intro h hv
    obtain ⟨o, a1, a2, a3⟩ := hs.ver h hv
    exact ⟨o, a1, a2, mem_prodFrom_append _ a3⟩
  · show checkLog parentOKEv [out0 g] (s.log ++ [_]) = true
    simp [checkLog_append, hs.parents, checkLog, parentOKEv, h1, h2]
  · show checkLog acceptOKEv [out0 g] (s.log ++ [_]) = true
    simp [checkLog_append, hs.accepts, checkLog, acceptOKEv]

theorem Heap.setVerified {g s} (hs : Heap g s) (h : Nat) (out : Out)
    (h1 : out ∈ prodFrom [out0 g] s.log) (h2 : out.blk = (s.obj h).blk) :
    Heap g (s.setObj h { s.obj h with out := some out, verified := true }) := by
  refine ⟨?_, ?_, ?_, hs.parents, hs.accepts, ?_, hs.ready⟩
  · intro j hv
    simp only [obj_setObj] at hv ⊢
    by_cases e : j = h
    · simp only [e, if_true]; exact ⟨out, rfl, h2, h1⟩
    · simp only [e, if_false] at hv ⊢; exact hs.ver j hv
  · intro id j hj
    obtain ⟨a1, a2⟩ := hs.vb id j hj
    refine ⟨a1, ?_⟩
    simp only [obj_setObj]; split
    · rename_i e; subst e; exact a2
    · exact a2
  · intro id j hj
    obtain ⟨a1, a2⟩ := hs.acc id j hj
    refine ⟨a1, ?_⟩
    simp only [obj_setObj]; split
    · rename_i e; subst e; exact a2
    · exact a2
  · intro j hj
    obtain ⟨a1, a2⟩ := hs.queue j hj
    refine ⟨a1, ?_⟩
    simp only [obj_setObj]; split
    · rfl
    · exact a2

theorem chainVerify_blk {po b o} (h : chainVerify po b = some o) : o.blk = b := by
  unfold chainVerify at h; split at h <;> simp at h; subst h; rfl

theorem Heap.verify {g s} (hs : Heap g s) (h : Nat) (c : Option Nat) (hh : h < s.nobj) :
    Heap g (verify s h c).1 := by
  unfold HyperModel.Snow.verify
  dsimp only
  simp only [hs.ready, Bool.not_true, Bool.false_eq_true, if_false]
  split
  · split
    · exact hs.vbSet _ _ hh rfl
    · exact hs
  · split
    · exact hs
    next p hp =>
      split
      · exact hs
      next hv =>
      split
      · exact hs
      next =>
        simp only [Bool.not_eq_true', Bool.not_eq_false] at hv
        have hv' : p.verified = true := by simpa using hv
        obtain ⟨po, a1, a2, a3⟩ := hs.parent_lookup _ p hp hv'
        rw [a1]
        have h1 := hs.emit_cVerify po (s.obj h).blk (chainVerify (some po) (s.obj h).blk) a3 a2
        split
        · exact h1
        · rename_i out hout
          have hmem : out ∈ prodFrom [out0 g] (s.emit (.cVerify (some po) (s.obj h).blk (chainVerify (some po) (s.obj h).blk))).log := by
            show out ∈ prodFrom [out0 g] (s.log ++ [_])
            rw [prodFrom_append, hout]; simp [prodFrom, gain]
          have h2 := h1.setVerified h out hmem (chainVerify_blk hout)
          have h3 := h2.emit_neutral (.nVerified out) rfl
          exact h3.vbSet _ _ hh (by simp)

theorem Heap.setLastAccepted {g s} (hs : Heap g s) (h : Nat) (hh : h < s.nobj) : Heap g (s.setLastAccepted h) := by
  refine ⟨hs.ver, hs.vb, ?_, hs.parents, hs.accepts, hs.queue, hs.ready⟩
  intro id j hj
  rcases Fifo.put_m _ _ _ _ _ hj with ⟨rfl, rfl⟩ | h'
  · exact ⟨hh, rfl⟩
  · exact hs.acc id j h'

theorem Heap.accept {g s} (hs : Heap g s) (h : Nat) (hh : h < s.nobj) : Heap g (accept s h).1 := by
  unfold HyperModel.Snow.accept
  dsimp only
  simp only [hs.ready, Bool.true_and, if_true]
  split
  · exact hs
  · split
    · exact hs
    · rename_i hv
      have hv' : (s.obj h).verified = true := by simpa using hv
      split
      · exact hs
      · rename_i ix hix
        have h1 : Heap g { s with idx := ix, queue := s.queue ++ [h], ready := true } := by
          refine ⟨hs.ver, hs.vb, hs.acc, hs.parents, hs.accepts, ?_, rfl⟩
          intro j hj
          rcases hj with hj | hj
          · simp only [List.mem_append, List.mem_singleton] at hj
            rcases hj with hj | rfl
            · exact hs.queue j (Or.inl hj)
            · exact ⟨hh, hv'⟩
          · exact hs.queue j (Or.inr hj)
        exact (h1.vbDel _).setLastAccepted h hh

theorem Heap.reject {g s} (hs : Heap g s) (h : Nat) : Heap g (reject s h).1 := by
  unfold HyperModel.Snow.reject
  dsimp only
  split
  · exact ((hs.vbDel _).emit_neutral _ rfl).congr rfl rfl rfl rfl rfl rfl rfl rfl
  · exact (hs.vbDel _).emit_neutral _ rfl

theorem Heap.deq {g s} (hs : Heap g s) : Heap g (deq s).1 := by
  unfold HyperModel.Snow.deq
  split
  · rename_i h rest hi hq
    have hsub : ∀ j, j ∈ rest → j ∈ s.queue := by intro j hj; rw [hq]; exact List.mem_cons_of_mem _ hj
    have hhq : h ∈ s.queue := by rw [hq]; exact List.mem_cons_self
    split
    · exact hs.congr rfl rfl rfl rfl rfl rfl rfl rfl
    · refine ⟨hs.ver, hs.vb, hs.acc, hs.parents, hs.accepts, ?_, hs.ready⟩
      intro j hj
      rcases hj with hj | ⟨pa, hj⟩
      · exact hs.queue j (Or.inl (hsub j hj))
      · simp only [Option.some.injEq, Prod.mk.injEq] at hj
        obtain ⟨rfl, _⟩ := hj
        exact hs.queue _ (Or.inl hhq)
  · exact hs

theorem Heap.fin {g s} (hs : Heap g s) : Heap g (fin s).1 := by
  unfold HyperModel.Snow.fin
  split
  · exact hs
  · rename_i h pa hi
    dsimp only
    obtain ⟨hh, hv⟩ := hs.queue h (Or.inr ⟨pa, hi⟩)
    obtain ⟨o, a1, a2, a3⟩ := hs.ver h hv
    -- emit cAccept
    have h1 : Heap g (s.emit (.cAccept pa (s.obj h).out (chainAccept pa (s.obj h).out))) := by
      refine ⟨?_, hs.vb, hs.acc, ?_, ?_, hs.queue, hs.ready⟩
      · intro j hj
        obtain ⟨o', b1, b2, b3⟩ := hs.ver j hj
        exact ⟨o', b1, b2, mem_prodFrom_append _ b3⟩
      · show checkLog parentOKEv [out0 g] (s.log ++ [_]) = true
        simp [checkLog_append, hs.parents, checkLog, parentOKEv]
      · show checkLog acceptOKEv [out0 g] (s.log ++ [_]) = true
        simp [checkLog_append, hs.accepts, checkLog, acceptOKEv, a1, a3]
    -- setObj keeps blk / verified / out
    have h2 : Heap g ((s.emit (.cAccept pa (s.obj h).out (chainAccept pa (s.obj h).out))).setObj h
        { s.obj h with acc := some (chainAccept pa (s.obj h).out), accepted := true }) := by
      refine ⟨?_, ?_, ?_, h1.parents, h1.accepts, ?_, hs.ready⟩
      · intro j hj
        simp only [obj_setObj] at hj ⊢
        by_cases e : j = h
        · subst e; simp only [if_true] at hj ⊢; exact h1.ver j hv
        · simp only [e, if_false] at hj ⊢; exact h1.ver j hj
      · intro id j hj
        obtain ⟨b1, b2⟩ := hs.vb id j hj
        refine ⟨b1, ?_⟩
        simp only [obj_setObj]; split
        · rename_i e; subst e; exact b2
        · exact b2
      · intro id j hj
        obtain ⟨b1, b2⟩ := hs.acc id j hj
        refine ⟨b1, ?_⟩
        simp only [obj_setObj]; split
        · rename_i e; subst e; exact b2
        · exact b2
      · intro j hj
        obtain ⟨b1, b2⟩ := hs.queue j hj
        refine ⟨b1, ?_⟩
        simp only [obj_setObj]; split
        · rename_i e; subst e; exact b2
        · exact b2
    have h3 := h2.emit_neutral (.nAccepted (chainAccept pa (s.obj h).out)) rfl
    refine ⟨h3.ver, h3.vb, h3.acc, h3.parents, h3.accepts, ?_, hs.ready⟩
    intro j hj
    rcases hj with hj | ⟨pa', hj⟩
    · exact h3.queue j (Or.inl hj)
    · simp at hj

end HyperModel.Snow
