import HyperModel.Model.Address
/-! Lemmas about the hex codec used by the address text encoding (C28). -/
namespace HyperModel.Proofs.Address
open HyperModel.Address

theorem fromHexChar_hexDigit (n : Nat) (h : n < 16) : fromHexChar (hexDigit n) = some n := by
  unfold hexDigit fromHexChar
  by_cases h10 : n < 10
  · have : 48 ≤ 48 + n ∧ 48 + n ≤ 57 := by omega
    simp [h10, this]
  · have h1 : ¬ (48 ≤ 87 + n ∧ 87 + n ≤ 57) := by omega
    have h2 : 97 ≤ 87 + n ∧ 87 + n ≤ 102 := by omega
    simp [h10, h1, h2]

/-- a character accepted by `hex.DecodeString` denotes a nibble, and the canonical
(lower-case) digit of that nibble is the lower-cased character. -/
theorem fromHexChar_some {c v : Nat} (h : fromHexChar c = some v) :
    v < 16 ∧ hexDigit v = lowerHex c := by
  unfold fromHexChar at h
  unfold hexDigit lowerHex
  by_cases h1 : 48 ≤ c ∧ c ≤ 57
  · rw [if_pos h1] at h
    have hv : v = c - 48 := by injection h with h; exact h.symm
    subst hv
    have : ¬ (65 ≤ c ∧ c ≤ 70) := by omega
    rw [if_neg this]
    have : c - 48 < 10 := by omega
    rw [if_pos this]
    omega
  · rw [if_neg h1] at h
    by_cases h2 : 97 ≤ c ∧ c ≤ 102
    · rw [if_pos h2] at h
      have hv : v = c - 87 := by injection h with h; exact h.symm
      subst hv
      have : ¬ (65 ≤ c ∧ c ≤ 70) := by omega
      rw [if_neg this]
      have : ¬ (c - 87 < 10) := by omega
      rw [if_neg this]
      omega
    · rw [if_neg h2] at h
      by_cases h3 : 65 ≤ c ∧ c ≤ 70
      · rw [if_pos h3] at h
        have hv : v = c - 55 := by injection h with h; exact h.symm
        subst hv
        rw [if_pos h3]
        have : ¬ (c - 55 < 10) := by omega
        rw [if_neg this]
        omega
      · rw [if_neg h3] at h
        cases h

theorem hexDecode_hexEncode (b : Bytes) (hb : ∀ x ∈ b, x < 256) :
    hexDecode (hexEncode b) = some b := by
  induction b with
  | nil => rfl
  | cons x r ih =>
    have hx : x < 256 := hb x (List.mem_cons_self ..)
    have hr : ∀ y ∈ r, y < 256 := fun y hy => hb y (List.mem_cons_of_mem _ hy)
    have h1 : fromHexChar (hexDigit (x / 16)) = some (x / 16) :=
      fromHexChar_hexDigit _ (by omega)
    have h2 : fromHexChar (hexDigit (x % 16)) = some (x % 16) :=
      fromHexChar_hexDigit _ (by omega)
    simp only [hexEncode, hexDecode, h1, h2, ih hr]
    have : x / 16 * 16 + x % 16 = x := by omega
    rw [this]

/-- Whatever `hex.DecodeString` accepts is, after lower-casing `A`–`F`, the canonical hex
encoding of the decoded bytes (which are real bytes). -/
theorem hexDecode_some : ∀ (t : Bytes) (b : Bytes), hexDecode t = some b →
    hexEncode b = t.map lowerHex ∧ (∀ x ∈ b, x < 256) ∧ t.length = 2 * b.length
  | [], b, h => by
    simp only [hexDecode, Option.some.injEq] at h
    subst h
    simp [hexEncode]
  | [_], b, h => by simp [hexDecode] at h
  | p :: q :: r, b, h => by
    simp only [hexDecode] at h
    cases hp : fromHexChar p with
    | none => simp [hp] at h
    | some a =>
      cases hq : fromHexChar q with
      | none => simp [hp, hq] at h
      | some c =>
        cases hr : hexDecode r with
        | none => simp [hp, hq, hr] at h
        | some d =>
          simp only [hp, hq, hr, Option.some.injEq] at h
          subst h
          obtain ⟨ha, hla⟩ := fromHexChar_some hp
          obtain ⟨hc, hlc⟩ := fromHexChar_some hq
          obtain ⟨ih1, ih2, ih3⟩ := hexDecode_some r d hr
          have e1 : (a * 16 + c) / 16 = a := by omega
          have e2 : (a * 16 + c) % 16 = c := by omega
          refine ⟨?_, ?_, ?_⟩
          · simp only [hexEncode, e1, e2, hla, hlc, ih1, List.map_cons]
          · intro x hx
            rcases List.mem_cons.mp hx with hx | hx
            · subst hx; omega
            · exact ih2 x hx
          · simp only [List.length_cons, ih3]; omega

end HyperModel.Proofs.Address
