import HyperModel.Model.Bond
/-! Lemmas for C38 (fee bonds). Core Lean only. -/
namespace HyperModel.Bond

theorem getRec_none_iff (recs : Recs) (t : Tx) : getRec recs t = none ↔ t ∉ recs.map (·.1) := by
  induction recs with
  | nil => simp [getRec]
  | cons p rest ih =>
    obtain ⟨k, v⟩ := p
    by_cases h : k = t
    · simp [getRec, h]
    · have h' : ¬ t = k := fun e => h e.symm
      simp [getRec, h, h', ih]

theorem getRec_some_mem {recs : Recs} {t : Tx} {f : Nat} (h : getRec recs t = some f) : (t, f) ∈ recs := by
  induction recs with
  | nil => simp [getRec] at h
  | cons p rest ih =>
    obtain ⟨k, v⟩ := p
    by_cases hk : k = t
    · simp [getRec, hk] at h; simp [hk, h]
    · simp [getRec, hk] at h; simp [ih h]

theorem delRec_eq_filter (recs : Recs) (t : Tx) :
    delRec recs t = recs.filter (fun p => !decide (p.1 = t)) := by
  induction recs with
  | nil => simp [delRec]
  | cons p rest ih =>
    obtain ⟨k, v⟩ := p
    by_cases h : k = t <;> simp [delRec, h, ih]

theorem delRec_of_none {recs : Recs} {t : Tx} (h : getRec recs t = none) : delRec recs t = recs := by
  induction recs with
  | nil => simp [delRec]
  | cons p rest ih =>
    obtain ⟨k, v⟩ := p
    by_cases hk : k = t
    · simp [getRec, hk] at h
    · simp [getRec, hk] at h; simp [delRec, hk, ih h]

theorem mem_delRec {recs : Recs} {t : Tx} {p : Tx × Nat} : p ∈ delRec recs t ↔ p ∈ recs ∧ p.1 ≠ t := by
  simp [delRec_eq_filter]

theorem nodup_delRec {recs : Recs} (t : Tx) (h : (recs.map (·.1)).Nodup) : ((delRec recs t).map (·.1)).Nodup := by
  rw [delRec_eq_filter]
  exact List.Nodup.sublist (List.Sublist.map _ List.filter_sublist) h

theorem sumFor_delRec {recs : Recs} {t : Tx} {fee : Nat} (a : Nat)
    (hn : (recs.map (·.1)).Nodup) (hg : getRec recs t = some fee) :
    sumFor recs a = sumFor (delRec recs t) a + (if t.sponsor = a then fee else 0) := by
  induction recs with
  | nil => simp [getRec] at hg
  | cons p rest ih =>
    obtain ⟨k, v⟩ := p
    simp only [List.map_cons, List.nodup_cons] at hn
    by_cases hk : k = t
    · subst hk
      simp [getRec] at hg
      subst hg
      have hnone : getRec rest k = none := (getRec_none_iff rest k).2 hn.1
      simp [delRec, sumFor, delRec_of_none hnone]; omega
    · simp [getRec, hk] at hg
      simp [delRec, sumFor, hk, ih hn.2 hg]; omega

/-- the db invariant: one record per bonded tx, `pending` is the sum of the recorded fees, no overflow -/
structure DbInv (db : Db) : Prop where
  nodup : (db.recs.map (·.1)).Nodup
  sum : ∀ a, db.pending a = sumFor db.recs a
  lt : ∀ a, db.pending a < U64

theorem DbInv.empty : DbInv Db.empty := ⟨by simp [Db.empty], by simp [Db.empty, sumFor], by simp [Db.empty, U64]⟩

theorem bond_inv {db : Db} (h : DbInv db) (m : Nat) (tx : Tx) (rate : Nat) : DbInv (bond db m tx rate).1 := by
  unfold bond
  split
  · exact h
  · rename_i hnone
    simp only
    split
    · exact h
    · split
      · exact h
      · split
        · exact h
        · rename_i h1 h2 h3
          refine ⟨?_, ?_, ?_⟩
          · simp only [List.map_cons, List.nodup_cons]
            exact ⟨(getRec_none_iff _ _).1 hnone, h.nodup⟩
          · intro a
            by_cases ha : a = tx.sponsor
            · subst ha; simp [setAt, sumFor, h.sum]; omega
            · have : ¬ tx.sponsor = a := fun e => ha e.symm
              simp [setAt, sumFor, ha, this, h.sum]
          · intro a
            by_cases ha : a = tx.sponsor
            · simp [setAt, ha]; omega
            · simp [setAt, ha, h.lt]

theorem unbond_recs (db : Db) (tx : Tx) : (unbond db tx).recs = delRec db.recs tx := by
  unfold unbond
  split
  · rename_i h; simp [delRec_of_none h]
  · rfl

theorem unbond_inv {db : Db} (h : DbInv db) (tx : Tx) : DbInv (unbond db tx) := by
  unfold unbond
  split
  · exact h
  · rename_i fee hg
    have hs := sumFor_delRec tx.sponsor h.nodup hg
    have hp := h.sum tx.sponsor
    have hl := h.lt tx.sponsor
    simp only [if_true] at hs
    have hmod : (db.pending tx.sponsor + U64 - fee) % U64 = db.pending tx.sponsor - fee := by
      have : db.pending tx.sponsor + U64 - fee = (db.pending tx.sponsor - fee) + U64 := by omega
      rw [this, Nat.add_mod_right, Nat.mod_eq_of_lt]; omega
    refine ⟨nodup_delRec tx h.nodup, ?_, ?_⟩
    · intro a
      by_cases ha : a = tx.sponsor
      · subst ha; simp only [setAt, if_true, hmod]; omega
      · have hs' := sumFor_delRec a h.nodup hg
        have : ¬ tx.sponsor = a := fun e => ha e.symm
        simp only [this, if_false] at hs'
        simp [setAt, ha, h.sum, hs']
    · intro a
      by_cases ha : a = tx.sponsor
      · subst ha; simp only [setAt, if_true, hmod]; omega
      · simp [setAt, ha, h.lt]

theorem unbond_pending_le {db : Db} (h : DbInv db) (tx : Tx) (a : Nat) : (unbond db tx).pending a ≤ db.pending a := by
  have h' := unbond_inv h tx
  rw [h'.sum, h.sum, unbond_recs]
  cases hg : getRec db.recs tx with
  | none => simp [delRec_of_none hg]
  | some fee => have := sumFor_delRec a h.nodup hg; omega

/-! folds of `unbond` -/

theorem foldl_unbond_inv {db : Db} (h : DbInv db) (l : List Tx) : DbInv (l.foldl unbond db) := by
  induction l generalizing db with
  | nil => exact h
  | cons t rest ih => exact ih (unbond_inv h t)

theorem foldl_unbond_recs (db : Db) (l : List Tx) :
    (l.foldl unbond db).recs = db.recs.filter (fun p => !decide (p.1 ∈ l)) := by
  induction l generalizing db with
  | nil => simp only [List.foldl_nil, List.not_mem_nil, decide_false, Bool.not_false]; exact (List.filter_eq_self.2 (fun _ _ => rfl)).symm
  | cons t rest ih =>
    simp only [List.foldl_cons, ih, unbond_recs, delRec_eq_filter, List.filter_filter]
    apply List.filter_congr
    intro p _
    by_cases h1 : p.1 = t <;> by_cases h2 : p.1 ∈ rest <;> simp [h1, h2]

theorem foldl_unbond_pending_le {db : Db} (h : DbInv db) (l : List Tx) (a : Nat) :
    (l.foldl unbond db).pending a ≤ db.pending a := by
  induction l generalizing db with
  | nil => simp
  | cons t rest ih => exact Nat.le_trans (ih (unbond_inv h t)) (unbond_pending_le h t a)

theorem foldl_cond_inv {db : Db} (h : DbInv db) (hp : List Tx) (l : List Tx) :
    DbInv (l.foldl (fun db tx => if tx ∈ hp then unbond db tx else db) db) := by
  induction l generalizing db with
  | nil => exact h
  | cons t rest ih =>
    simp only [List.foldl_cons]
    split
    · exact ih (unbond_inv h t)
    · exact ih h

theorem foldl_cond_recs (db : Db) (hp : List Tx) (l : List Tx) :
    (l.foldl (fun db tx => if tx ∈ hp then unbond db tx else db) db).recs
      = db.recs.filter (fun p => !(decide (p.1 ∈ l) && decide (p.1 ∈ hp))) := by
  induction l generalizing db with
  | nil => simp only [List.foldl_nil, List.not_mem_nil, decide_false, Bool.false_and, Bool.not_false]; exact (List.filter_eq_self.2 (fun _ _ => rfl)).symm
  | cons t rest ih =>
    simp only [List.foldl_cons, ih]
    by_cases ht : t ∈ hp
    · simp only [ht, if_true, unbond_recs, delRec_eq_filter, List.filter_filter]
      apply List.filter_congr
      intro p _
      by_cases h1 : p.1 = t <;> by_cases h2 : p.1 ∈ rest <;> by_cases h3 : p.1 ∈ hp <;> simp [h1, h2, h3, ht]
    · simp only [ht, if_false]
      apply List.filter_congr
      intro p _
      by_cases h1 : p.1 = t <;> by_cases h2 : p.1 ∈ rest <;> by_cases h3 : p.1 ∈ hp <;> simp [h1, h2, h3, ht]

theorem foldl_cond_pending_le {db : Db} (h : DbInv db) (hp : List Tx) (l : List Tx) (a : Nat) :
    (l.foldl (fun db tx => if tx ∈ hp then unbond db tx else db) db).pending a ≤ db.pending a := by
  induction l generalizing db with
  | nil => simp
  | cons t rest ih =>
    simp only [List.foldl_cons]
    split
    · exact Nat.le_trans (ih (unbond_inv h t)) (unbond_pending_le h t a)
    · exact ih h

end HyperModel.Bond

namespace HyperModel.Bond

/-! ## Node-level invariant and refinement of the unsettled-set specification -/

/-- every recorded bond is tracked in the pending-expiry heap (so that it is released at its
expiry at the latest) -/
structure NodeInv (n : Node) : Prop where
  db : DbInv n.db
  tracked : ∀ p ∈ n.db.recs, p.1 ∈ n.heap

theorem NodeInv.init : NodeInv Node.init := ⟨DbInv.empty, by simp [Node.init, Db.empty]⟩

/-- the model node refines the specification state -/
def Refines (n : Node) (s : Spec) : Prop := n.maxBal = s.maxBal ∧ n.db.recs = s.unsettled

theorem mem_heapAdd {h : List Tx} {t x : Tx} : x ∈ heapAdd h t ↔ x ∈ h ∨ x = t := by
  unfold heapAdd
  split
  · rename_i ht
    constructor
    · exact Or.inl
    · rintro (hx | hx)
      · exact hx
      · exact hx ▸ ht
  · simp

theorem bond_recs_mem {db : Db} {m : Nat} {tx : Tx} {rate : Nat} {p : Tx × Nat}
    (hp : p ∈ (bond db m tx rate).1.recs) : p ∈ db.recs ∨ (p.1 = tx ∧ (bond db m tx rate).2 = true) := by
  unfold bond at hp ⊢
  split at hp
  · exact Or.inl hp
  · simp only at hp ⊢
    split at hp
    · exact Or.inl hp
    · split at hp
      · exact Or.inl hp
      · split at hp
        · exact Or.inl hp
        · rename_i h1 h2 h3
          simp only [List.mem_cons] at hp
          rcases hp with hp | hp
          · right; simp [hp, h1, h2, h3]
          · exact Or.inl hp

theorem bond_fail_eq {db : Db} {m : Nat} {tx : Tx} {rate : Nat}
    (h : (bond db m tx rate).2 = false) : (bond db m tx rate).1 = db := by
  unfold bond at h ⊢
  cases hg : getRec db.recs tx with
  | some f => rfl
  | none =>
    simp only [hg] at h ⊢
    by_cases h1 : U64 ≤ tx.size * rate
    · simp [h1]
    · by_cases h2 : U64 ≤ db.pending tx.sponsor + tx.size * rate
      · simp [h1, h2]
      · by_cases h3 : m < db.pending tx.sponsor + tx.size * rate
        · simp [h1, h2, h3]
        · simp [h1, h2, h3] at h

/-- a bond either leaves a sponsor's pending alone or raises the tx sponsor's pending to a value
within the max balance it read -/
theorem bond_pending (db : Db) (m : Nat) (tx : Tx) (rate : Nat) (a : Nat) :
    (bond db m tx rate).1.pending a = db.pending a ∨ (bond db m tx rate).1.pending a ≤ m := by
  unfold bond
  split
  · exact Or.inl rfl
  · simp only
    split
    · exact Or.inl rfl
    · split
      · exact Or.inl rfl
      · split
        · exact Or.inl rfl
        · by_cases ha : a = tx.sponsor
          · right; simp [setAt, ha]; omega
          · left; simp [setAt, ha]

theorem bond_offer {db : Db} {s : Spec} (h : DbInv db) (hr : db.recs = s.unsettled) (tx : Tx) (rate : Nat) :
    (bond db (s.maxBal tx.sponsor) tx rate).2 = (s.offer rate tx).2
    ∧ (bond db (s.maxBal tx.sponsor) tx rate).1.recs = (s.offer rate tx).1.unsettled
    ∧ (s.offer rate tx).1.maxBal = s.maxBal := by
  unfold bond Spec.offer
  rw [← hr]
  cases hg : getRec db.recs tx with
  | some f => simp [hr]
  | none =>
    simp only [Option.isSome_none, Bool.false_eq_true, if_false, Spec.pending, ← hr, ← h.sum]
    by_cases h1 : U64 ≤ tx.size * rate
    · have : ¬ tx.size * rate < U64 := by omega
      simp [h1, this, hr]
    · by_cases h2 : U64 ≤ db.pending tx.sponsor + tx.size * rate
      · have : ¬ db.pending tx.sponsor + tx.size * rate < U64 := by omega
        simp [h1, h2, this, hr]
      · by_cases h3 : s.maxBal tx.sponsor < db.pending tx.sponsor + tx.size * rate
        · have : ¬ db.pending tx.sponsor + tx.size * rate ≤ s.maxBal tx.sponsor := by omega
          simp [h1, h2, h3, this, hr]
        · have a1 : tx.size * rate < U64 := by omega
          have a2 : db.pending tx.sponsor + tx.size * rate < U64 := by omega
          have a3 : db.pending tx.sponsor + tx.size * rate ≤ s.maxBal tx.sponsor := by omega
          simp [h1, h2, h3, a1, a2, a3, hr]

theorem build_refines {n : Node} {s : Spec} (hi : NodeInv n) (hr : Refines n s) (rate : Nat) (txs : List Tx) :
    NodeInv (buildChunk bond n rate txs).1
    ∧ Refines (buildChunk bond n rate txs).1 (s.build rate txs).1
    ∧ (buildChunk bond n rate txs).2 = (s.build rate txs).2 := by
  induction txs generalizing n s with
  | nil => exact ⟨hi, hr, rfl⟩
  | cons tx rest ih =>
    obtain ⟨hm, hrec⟩ := hr
    have hb := bond_offer hi.db hrec tx rate
    rw [← hm] at hb
    obtain ⟨hb2, hb1, hbm⟩ := hb
    unfold buildChunk Spec.build
    simp only
    by_cases hok : (bond n.db (n.maxBal tx.sponsor) tx rate).2 = true
    · have hok' : (s.offer rate tx).2 = true := hb2 ▸ hok
      simp only [hok, hok', if_true]
      have hi' : NodeInv { n with db := (bond n.db (n.maxBal tx.sponsor) tx rate).1, heap := heapAdd n.heap tx } := by
        refine ⟨bond_inv hi.db _ _ _, ?_⟩
        intro p hp
        rcases bond_recs_mem hp with h | ⟨h, _⟩
        · exact mem_heapAdd.2 (Or.inl (hi.tracked p h))
        · exact mem_heapAdd.2 (Or.inr h)
      have hr' : Refines { n with db := (bond n.db (n.maxBal tx.sponsor) tx rate).1, heap := heapAdd n.heap tx } (s.offer rate tx).1 :=
        ⟨by simp [hm, hbm], hb1⟩
      obtain ⟨i1, i2, i3⟩ := ih hi' hr'
      exact ⟨i1, i2, by simp [i3]⟩
    · have hok' : (s.offer rate tx).2 = false := by rw [← hb2]; simpa using hok
      have hokf : (bond n.db (n.maxBal tx.sponsor) tx rate).2 = false := by simpa using hok
      simp only [hokf, hok', Bool.false_eq_true, if_false]
      have hi' : NodeInv { n with db := (bond n.db (n.maxBal tx.sponsor) tx rate).1 } := by
        rw [bond_fail_eq hokf]; exact hi
      have hr' : Refines { n with db := (bond n.db (n.maxBal tx.sponsor) tx rate).1 } (s.offer rate tx).1 :=
        ⟨by simp [hm, hbm], hb1⟩
      exact ih hi' hr'

theorem accept_refines {n : Node} {s : Spec} (hi : NodeInv n) (hr : Refines n s) (ts : Int) (txs : List Tx) :
    NodeInv (accept n ts txs) ∧ Refines (accept n ts txs) (s.accept ts txs) := by
  obtain ⟨hm, hrec⟩ := hr
  have hrecs : (accept n ts txs).db.recs
      = n.db.recs.filter (fun p => !decide (p.1.expiry < ts) && !decide (p.1 ∈ txs)) := by
    simp only [accept, foldl_cond_recs, foldl_unbond_recs, List.filter_filter]
    apply List.filter_congr
    intro p hp
    have hh := hi.tracked p hp
    by_cases h1 : p.1.expiry < ts <;> by_cases h2 : p.1 ∈ txs <;> simp [h1, h2, hh]
  refine ⟨⟨?_, ?_⟩, ?_, ?_⟩
  · exact foldl_cond_inv (foldl_unbond_inv hi.db _) _ _
  · intro p hp
    rw [hrecs] at hp
    simp only [List.mem_filter, Bool.and_eq_true, Bool.not_eq_true', decide_eq_false_iff_not] at hp
    simp only [accept, List.mem_filter, Bool.not_eq_true', decide_eq_false_iff_not]
    exact ⟨hi.tracked p hp.1, hp.2.1⟩
  · simp [accept, Spec.accept, hm]
  · rw [hrecs, hrec]; rfl

theorem step_refines {n : Node} {s : Spec} (hi : NodeInv n) (hr : Refines n s) (op : Op) :
    NodeInv (step n op) ∧ Refines (step n op) (s.step op) := by
  cases op with
  | setmax a m =>
    refine ⟨⟨hi.db, hi.tracked⟩, ?_, hr.2⟩
    simp [step, setMax, Spec.step, hr.1]
  | build rate txs =>
    obtain ⟨h1, h2, _⟩ := build_refines hi hr rate txs
    exact ⟨h1, h2⟩
  | buildFail rate txs =>
    obtain ⟨h1, h2, _⟩ := build_refines hi hr rate txs
    exact ⟨h1, h2⟩
  | accept ts txs => exact accept_refines hi hr ts txs

theorem run_refines {n : Node} {s : Spec} (hi : NodeInv n) (hr : Refines n s) (ops : List Op) :
    NodeInv (run n ops) ∧ Refines (run n ops) (s.run ops) := by
  induction ops generalizing n s with
  | nil => exact ⟨hi, hr⟩
  | cons op rest ih =>
    obtain ⟨h1, h2⟩ := step_refines hi hr op
    exact ih h1 h2

theorem build_maxBal (n : Node) (rate : Nat) (txs : List Tx) : (buildChunk bond n rate txs).1.maxBal = n.maxBal := by
  induction txs generalizing n with
  | nil => rfl
  | cons tx rest ih =>
    unfold buildChunk
    simp only
    split <;> simp [ih]

theorem build_pending (n : Node) (rate : Nat) (txs : List Tx) (a : Nat) :
    (buildChunk bond n rate txs).1.db.pending a = n.db.pending a
    ∨ (buildChunk bond n rate txs).1.db.pending a ≤ n.maxBal a := by
  induction txs generalizing n with
  | nil => exact Or.inl rfl
  | cons tx rest ih =>
    unfold buildChunk
    simp only
    have hb := bond_pending n.db (n.maxBal tx.sponsor) tx rate a
    have hb' : (bond n.db (n.maxBal tx.sponsor) tx rate).1.pending a = n.db.pending a
        ∨ (bond n.db (n.maxBal tx.sponsor) tx rate).1.pending a ≤ n.maxBal a := by
      rcases hb with h | h
      · exact Or.inl h
      · by_cases ha : a = tx.sponsor
        · right; rw [ha]; rw [ha] at h; exact h
        · left
          -- a bond never touches another sponsor's pending
          unfold bond
          split
          · rfl
          · simp only
            split
            · rfl
            · split
              · rfl
              · split
                · rfl
                · simp [setAt, ha]
    split
    · rcases ih { n with db := (bond n.db (n.maxBal tx.sponsor) tx rate).1, heap := heapAdd n.heap tx } with h | h
      · rw [h]; exact hb'
      · exact Or.inr h
    · rcases ih { n with db := (bond n.db (n.maxBal tx.sponsor) tx rate).1 } with h | h
      · rw [h]; exact hb'
      · exact Or.inr h

theorem accept_pending_le {n : Node} (hi : NodeInv n) (ts : Int) (txs : List Tx) (a : Nat) :
    (accept n ts txs).db.pending a ≤ n.db.pending a := by
  simp only [accept]
  exact Nat.le_trans (foldl_cond_pending_le (foldl_unbond_inv hi.db _) _ _ a) (foldl_unbond_pending_le hi.db _ a)

theorem sumFor_eq_zero {recs : Recs} {a : Nat} (h : ∀ p ∈ recs, p.1.sponsor ≠ a) : sumFor recs a = 0 := by
  induction recs with
  | nil => rfl
  | cons p rest ih =>
    obtain ⟨k, v⟩ := p
    have h1 : k.sponsor ≠ a := h (k, v) (by simp)
    simp [sumFor, h1, ih (fun p hp => h p (by simp [hp]))]

end HyperModel.Bond
