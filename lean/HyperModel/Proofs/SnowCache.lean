import HyperModel.Proofs.SnowLink
/-! Cache / index invariant of normal operation (C20: lookups, queue_drains). -/
namespace HyperModel.Snow

/-- steps that touch neither the index, nor the accepted caches, nor `verifiedBlocks` -/
structure Quiet (s s' : State) : Prop where
  idx : s'.idx = s.idx
  aid : s'.accByID = s.accByID
  ah : s'.accByHeight = s.accByHeight
  vb : s'.vb = s.vb

theorem Quiet.refl (s : State) : Quiet s s := ⟨rfl, rfl, rfl, rfl⟩

theorem Quiet.materialize (s : State) (f : Found) : Quiet s (s.materialize f).1 := by
  cases f <;> exact ⟨rfl, rfl, rfl, rfl⟩

theorem Quiet.get (s : State) (id : Nat) : Quiet s (get s id).1 := by
  unfold HyperModel.Snow.get
  have := Quiet.materialize s (s.getBlock id)
  split <;> simp_all

theorem Quiet.getH (s : State) (ht : Nat) : Quiet s (getH s ht).1 := by
  unfold HyperModel.Snow.getH
  split
  · exact Quiet.refl s
  · split
    · exact Quiet.refl s
    · split
      · exact Quiet.refl s
      · exact Quiet.get s _

theorem Quiet.parse (s : State) (b : Blk) : Quiet s (parse s b).1 := by
  unfold HyperModel.Snow.parse
  split
  · split <;> exact ⟨rfl, rfl, rfl, rfl⟩
  · have := Quiet.materialize s (s.getBlock b.id)
    split <;> simp_all

theorem Quiet.build (s : State) (n : Nat) (c : Option Nat) : Quiet s (build s n c).1 := by
  unfold HyperModel.Snow.build
  dsimp only
  split
  · exact Quiet.refl s
  · split <;> exact ⟨rfl, rfl, rfl, rfl⟩

theorem Quiet.deq (s : State) : Quiet s (deq s).1 := by
  unfold HyperModel.Snow.deq
  split
  · split <;> exact ⟨rfl, rfl, rfl, rfl⟩
  · exact Quiet.refl s

theorem Quiet.fin (s : State) : Quiet s (fin s).1 := by
  unfold HyperModel.Snow.fin
  split <;> exact ⟨rfl, rfl, rfl, rfl⟩

/-! ### chain facts -/

theorem linked_lt' (p : Blk) (l : List Blk) (h : linked p l = true) : ∀ b ∈ l, p.height < b.height := by
  induction l generalizing p with
  | nil => simp
  | cons b r ih =>
    simp only [linked, Bool.and_eq_true, beq_iff_eq] at h
    obtain ⟨⟨_, h2⟩, h3⟩ := h
    intro x hx
    rcases List.mem_cons.mp hx with rfl | hx
    · omega
    · have := ih b h3 x hx; omega

theorem linked_le_last (p : Blk) (l : List Blk) (h : linked p l = true) :
    ∀ b ∈ p :: l, b.height ≤ (lastOr p l).height := by
  induction l generalizing p with
  | nil => simp [lastOr]
  | cons b r ih =>
    simp only [linked, Bool.and_eq_true, beq_iff_eq] at h
    obtain ⟨⟨_, h2⟩, h3⟩ := h
    intro x hx
    simp only [lastOr]
    rcases List.mem_cons.mp hx with rfl | hx
    · have := ih b h3 b List.mem_cons_self; omega
    · exact ih b h3 x hx

theorem linked_split (p : Blk) (l1 l2 : List Blk) (h : linked p (l1 ++ l2) = true) :
    linked (lastOr p l1) l2 = true ∧ (lastOr p l1).height = p.height + l1.length := by
  induction l1 generalizing p with
  | nil => simpa [lastOr] using h
  | cons b r ih =>
    simp only [List.cons_append, linked, Bool.and_eq_true, beq_iff_eq] at h
    obtain ⟨⟨_, h2⟩, h3⟩ := h
    obtain ⟨i1, i2⟩ := ih b h3
    exact ⟨by simpa [lastOr] using i1, by simp only [lastOr, List.length_cons]; omega⟩

theorem linked_parent (p : Blk) (l : List Blk) (h : linked p l = true) :
    ∀ b ∈ l, ∃ P ∈ p :: l, b.parent = P.id ∧ b.height = P.height + 1 := by
  induction l generalizing p with
  | nil => simp
  | cons b r ih =>
    simp only [linked, Bool.and_eq_true, beq_iff_eq] at h
    obtain ⟨⟨h1, h2⟩, h3⟩ := h
    intro x hx
    rcases List.mem_cons.mp hx with rfl | hx
    · exact ⟨p, List.mem_cons_self, h1, h2⟩
    · obtain ⟨P, hP, a, b'⟩ := ih b h3 x hx
      exact ⟨P, List.mem_cons_of_mem _ hP, a, b'⟩

theorem id_inj_of_nodup {l : List Blk} (hn : (l.map (·.id)).Nodup) {a b : Blk} (ha : a ∈ l) (hb : b ∈ l)
    (hid : a.id = b.id) : a = b := by
  induction l with
  | nil => simp at ha
  | cons x r ih =>
    simp only [List.map_cons, List.nodup_cons] at hn
    rcases List.mem_cons.mp ha with rfl | ha' <;> rcases List.mem_cons.mp hb with rfl | hb'
    · rfl
    · exact absurd (List.mem_map_of_mem (f := (·.id)) hb') (by rw [← hid]; exact hn.1)
    · exact absurd (List.mem_map_of_mem (f := (·.id)) ha') (by rw [hid]; exact hn.1)
    · exact ih hn.2 ha' hb'

theorem pending_eq (s : State) : s.pending = s.pend.length := by
  unfold State.pending State.pend
  cases s.inflight with
  | none => simp
  | some x => obtain ⟨h, pa⟩ := x; simp <;> omega

/-! ### the invariant -/

structure Cache (g : Blk) (s : State) (e : Eng) : Prop where
  gDec : g.id ∈ e.decided
  ids : ((g :: e.accepts).map (·.id)).Nodup
  hts : ∀ b ∈ g :: e.accepts, b.height ≤ e.lastAcc.height
  ret : ∀ b ∈ g :: e.accepts, (s.idx.window = 0 ∨ e.lastAcc.height < b.height + s.idx.window) →
    s.idx.idh b.id = some b.height ∧ s.idx.byHeight b.height = some b ∧ s.idx.hid b.height = some b.id
  hidOK : ∀ k id, s.idx.hid k = some id → ∃ b ∈ g :: e.accepts, b.height = k ∧ b.id = id
  pendW : s.idx.window = 0 ∨ s.pend.length < s.idx.window
  accID : ∀ id h, s.accByID.m id = some h → (s.obj h).blk ∈ g :: e.accepts ∧ (s.obj h).blk.id = id ∧ h < s.nobj
  accH : ∀ k id, s.accByHeight.m k = some id → ∃ b ∈ g :: e.accepts, b.height = k ∧ b.id = id
  vbP : ∀ id h, s.vb id = some h → h ∈ e.processing

/-- steps that leave the engine state, the index, the caches and `verifiedBlocks` alone -/
theorem Cache.quiet {g s s' e} (hc : Cache g s e) (hq : Quiet s s') (hf : Frame s s')
    (hp : s'.pend.length ≤ s.pend.length) : Cache g s' e := by
  refine ⟨hc.gDec, hc.ids, hc.hts, ?_, ?_, ?_, ?_, ?_, ?_⟩
  · rw [hq.idx]; exact hc.ret
  · rw [hq.idx]; exact hc.hidOK
  · rw [hq.idx]; rcases hc.pendW with h | h
    · exact Or.inl h
    · exact Or.inr (by omega)
  · intro id h hh
    rw [hq.aid] at hh
    obtain ⟨a1, a2, a3⟩ := hc.accID id h hh
    rw [hf.blk h a3]
    exact ⟨a1, a2, Nat.lt_of_lt_of_le a3 hf.nobj⟩
  · rw [hq.ah]; exact hc.accH
  · rw [hq.vb]; exact hc.vbP

end HyperModel.Snow

namespace HyperModel.Snow

theorem verify_shape (s : State) (h : Nat) (c : Option Nat) :
    (verify s h c).1.idx = s.idx ∧ (verify s h c).1.accByID = s.accByID ∧
    (verify s h c).1.accByHeight = s.accByHeight ∧ (verify s h c).1.pend = s.pend ∧
    ((verify s h c).1.vb = s.vb ∨
      ((verify s h c).2 = .ok ∧ (verify s h c).1.vb = s.vb.set (s.obj h).blk.id (some h))) := by
  unfold HyperModel.Snow.verify
  dsimp only
  split
  · exact ⟨rfl, rfl, rfl, rfl, Or.inr ⟨rfl, rfl⟩⟩
  · split
    · split
      · exact ⟨rfl, rfl, rfl, rfl, Or.inr ⟨rfl, rfl⟩⟩
      · exact ⟨rfl, rfl, rfl, rfl, Or.inl rfl⟩
    · split
      · exact ⟨rfl, rfl, rfl, rfl, Or.inl rfl⟩
      · split
        · exact ⟨rfl, rfl, rfl, rfl, Or.inl rfl⟩
        · split
          · exact ⟨rfl, rfl, rfl, rfl, Or.inl rfl⟩
          · split
            · exact ⟨rfl, rfl, rfl, rfl, Or.inl rfl⟩
            · exact ⟨rfl, rfl, rfl, rfl, Or.inr ⟨rfl, rfl⟩⟩

theorem upd_verify_fields (e : Eng) (s : State) (h : Nat) (c : Option Nat) (r : Res) :
    (e.upd s (.verify h c) r).accepts = e.accepts ∧ (e.upd s (.verify h c) r).lastAcc = e.lastAcc ∧
    (e.upd s (.verify h c) r).decided = e.decided ∧
    (∀ x ∈ e.processing, x ∈ (e.upd s (.verify h c) r).processing) ∧
    (r = .ok → h ∈ (e.upd s (.verify h c) r).processing) := by
  cases r <;> simp [Eng.upd] <;> intro x hx <;> exact Or.inl hx

theorem Cache.verify {g s e} (hc : Cache g s e) (h : Nat) (c : Option Nat) :
    Cache g (HyperModel.Snow.verify s h c).1 (e.upd s (.verify h c) (HyperModel.Snow.verify s h c).2) := by
  obtain ⟨s1, s2, s3, s4, s5⟩ := verify_shape s h c
  obtain ⟨u1, u2, u3, u4, u5⟩ := upd_verify_fields e s h c (HyperModel.Snow.verify s h c).2
  have hf := Frame.verify s h c
  refine ⟨by rw [u3]; exact hc.gDec, by rw [u1]; exact hc.ids, by rw [u1, u2]; exact hc.hts, ?_, ?_, ?_, ?_, ?_, ?_⟩
  · rw [u1, u2, s1]; exact hc.ret
  · rw [u1, s1]; exact hc.hidOK
  · rw [s1, s4]; exact hc.pendW
  · intro id j hj
    rw [s2] at hj
    obtain ⟨a1, a2, a3⟩ := hc.accID id j hj
    rw [u1, hf.blk j a3]
    exact ⟨a1, a2, Nat.lt_of_lt_of_le a3 hf.nobj⟩
  · rw [u1, s3]; exact hc.accH
  · intro id j hj
    rcases s5 with hv | ⟨hok, hv⟩
    · rw [hv] at hj; exact u4 j (hc.vbP id j hj)
    · rw [hv, Map.set_apply] at hj
      split at hj
      · simp only [Option.some.injEq] at hj; subst hj; exact u5 hok
      · exact u4 j (hc.vbP id j hj)

theorem Cache.reject {g s e} (hc : Cache g s e) (hh : Heap g s) (h : Nat) :
    Cache g (HyperModel.Snow.reject s h).1 (e.upd s (.reject h) (HyperModel.Snow.reject s h).2) := by
  have hf := Frame.reject s h
  have hshape : (HyperModel.Snow.reject s h).1.idx = s.idx ∧ (HyperModel.Snow.reject s h).1.accByID = s.accByID ∧
      (HyperModel.Snow.reject s h).1.accByHeight = s.accByHeight ∧ (HyperModel.Snow.reject s h).1.pend = s.pend ∧
      (HyperModel.Snow.reject s h).1.vb = s.vb.set (s.obj h).blk.id none ∧ (HyperModel.Snow.reject s h).2 = .ok := by
    unfold HyperModel.Snow.reject
    dsimp only
    split <;> exact ⟨rfl, rfl, rfl, rfl, rfl, rfl⟩
  obtain ⟨s1, s2, s3, s4, s5, s6⟩ := hshape
  rw [s6]
  have hup : e.upd s (.reject h) .ok =
      { e with processing := e.processing.erase h, decided := e.decided ++ [(s.obj h).blk.id], rejects := e.rejects ++ [(s.obj h).blk] } := rfl
  rw [hup]
  refine ⟨List.mem_append_left _ hc.gDec, hc.ids, hc.hts, ?_, ?_, ?_, ?_, ?_, ?_⟩
  · rw [s1]; exact hc.ret
  · rw [s1]; exact hc.hidOK
  · rw [s1, s4]; exact hc.pendW
  · intro id j hj
    rw [s2] at hj
    obtain ⟨a1, a2, a3⟩ := hc.accID id j hj
    rw [hf.blk j a3]
    exact ⟨a1, a2, Nat.lt_of_lt_of_le a3 hf.nobj⟩
  · rw [s3]; exact hc.accH
  · intro id j hj
    rw [s5, Map.set_apply] at hj
    split at hj
    · simp at hj
    · rename_i hne
      have hp := hc.vbP id j hj
      have : j ≠ h := by
        intro e'; subst e'
        exact hne ((hh.vb id j hj).2).symm
      exact (List.mem_erase_of_ne this).mpr hp

end HyperModel.Snow

namespace HyperModel.Snow

theorem Index.update_facts (ix ix' : Index) (b : Blk) (h : ix.update b = some ix') :
    ix'.window = ix.window ∧
    (∀ k id, ix'.hid k = some id → (k = b.height ∧ id = b.id) ∨ ix.hid k = some id) ∧
    (∀ k, k ≠ b.height → (ix.window = 0 ∨ k + ix.window ≠ b.height) →
      ix'.byHeight k = ix.byHeight k ∧ ix'.hid k = ix.hid k) ∧
    (∀ i, i ≠ b.id → (ix.window ≠ 0 → ix.window < b.height →
        ∀ did, ix.hid (b.height - ix.window) = some did → did ≠ i) → ix'.idh i = ix.idh i) ∧
    ((ix.window ≠ 0 → ix.window < b.height →
        ∀ did, ix.hid (b.height - ix.window) = some did → did ≠ b.id) → ix'.idh b.id = some b.height) ∧
    ix'.byHeight b.height = some b ∧ ix'.hid b.height = some b.id := by
  unfold Index.update at h
  dsimp only at h
  split at h
  · -- no pruning
    simp only [Option.some.injEq] at h; subst h
    refine ⟨rfl, ?_, ?_, ?_, ?_, ?_, ?_⟩
    · intro k id hk
      simp only [Map.set_apply] at hk
      split at hk
      · rename_i e; simp only [Option.some.injEq] at hk; exact Or.inl ⟨e, hk.symm⟩
      · exact Or.inr hk
    · intro k hk _; simp [Map.set_apply, hk]
    · intro i hi _; simp [Map.set_apply, hi]
    · intro _; simp
    · simp
    · simp
  · rename_i hcond
    have hw : ix.window ≠ 0 ∧ ix.window < b.height := by omega
    split at h
    · simp only [Option.some.injEq] at h; subst h
      refine ⟨rfl, ?_, ?_, ?_, ?_, ?_, ?_⟩
      · intro k id hk
        simp only [Map.set_apply] at hk
        split at hk
        · rename_i e; simp only [Option.some.injEq] at hk; exact Or.inl ⟨e, hk.symm⟩
        · exact Or.inr hk
      · intro k hk _; simp [Map.set_apply, hk]
      · intro i hi _; simp [Map.set_apply, hi]
      · intro _; simp
      · simp
      · simp
    · rename_i did hdid
      simp only [Option.some.injEq] at h; subst h
      have hne : b.height - ix.window ≠ b.height := by omega
      refine ⟨rfl, ?_, ?_, ?_, ?_, ?_, ?_⟩
      · intro k id hk
        simp only [Map.set_apply] at hk
        split at hk
        · simp at hk
        · split at hk
          · rename_i e; simp only [Option.some.injEq] at hk; exact Or.inl ⟨e, hk.symm⟩
          · exact Or.inr hk
      · intro k hk hkw
        have : k ≠ b.height - ix.window := by
          rcases hkw with h0 | h0
          · exact absurd h0 hw.1
          · omega
        simp [Map.set_apply, hk, this]
      · intro i hi hd
        have : i ≠ did := fun e => hd hw.1 hw.2 did hdid e.symm
        simp [Map.set_apply, hi, this]
      · intro hd
        have : b.id ≠ did := fun e => hd hw.1 hw.2 did hdid e.symm
        simp [Map.set_apply, this]
      · simp [Map.set_apply, hne.symm]
      · simp [Map.set_apply, hne.symm]

end HyperModel.Snow

namespace HyperModel.Snow

theorem pre_accept_win {s : State} {e : Eng} {h : Nat} (hp : pre s e (.accept h) = true) :
    s.idx.window = 0 ∨ s.pend.length + 1 < s.idx.window := by
  simp only [pre, Bool.and_eq_true, Bool.or_eq_true, beq_iff_eq, decide_eq_true_eq] at hp
  rw [← pending_eq]
  exact hp.2

theorem Cache.accept {g s e} (hc : Cache g s e) (hl : Link g s e) (hh : Heap g s) (h : Nat)
    (hp : pre s e (.accept h) = true) :
    Cache g (HyperModel.Snow.accept s h).1 (e.upd s (.accept h) (HyperModel.Snow.accept s h).2) := by
  obtain ⟨hproc, hpar, hhei⟩ := pre_accept hp
  have hwin := pre_accept_win hp
  obtain ⟨hlt, hver⟩ := hl.proc h hproc
  have hbid : (s.obj h).blk.id ∈ e.procIds s := List.mem_map_of_mem (f := fun p => (s.obj p).blk.id) hproc
  have hfresh := hl.fresh _ hbid
  have hchainDec : ∀ c ∈ g :: e.accepts, c.id ∈ e.decided := by
    intro c hcm
    rcases List.mem_cons.mp hcm with rfl | hcm
    · exact hc.gDec
    · exact hl.accDec c hcm
  have hbne : ∀ c ∈ g :: e.accepts, c.id ≠ (s.obj h).blk.id := by
    intro c hcm hce; exact hfresh (hce ▸ hchainDec c hcm)
  unfold HyperModel.Snow.accept
  dsimp only
  simp only [hh.ready, Bool.true_and, if_true]
  split
  next => rw [upd_err]; exact hc
  next =>
    split
    next => rw [upd_err]; exact hc
    next =>
      split
      next => rw [upd_err]; exact hc
      next ix hix =>
        obtain ⟨f0, f1, f2, f3, f4, f5, f6⟩ := Index.update_facts s.idx ix (s.obj h).blk hix
        have hdid : ∀ c ∈ g :: e.accepts,
            (s.idx.window = 0 ∨ (s.obj h).blk.height < c.height + s.idx.window) →
            s.idx.window ≠ 0 → s.idx.window < (s.obj h).blk.height →
            ∀ did, s.idx.hid ((s.obj h).blk.height - s.idx.window) = some did → did ≠ c.id := by
          intro c hcm hret hw0 hwlt did hd hce
          obtain ⟨c', hc'm, hc'h, hc'id⟩ := hc.hidOK _ _ hd
          have : c' = c := id_inj_of_nodup hc.ids hc'm hcm (by rw [hc'id, hce])
          subst this
          rcases hret with h0 | h0
          · exact hw0 h0
          · omega
        have hdidb : s.idx.window ≠ 0 → s.idx.window < (s.obj h).blk.height →
            ∀ did, s.idx.hid ((s.obj h).blk.height - s.idx.window) = some did → did ≠ (s.obj h).blk.id := by
          intro _ _ did hd hce
          obtain ⟨c', hc'm, _, hc'id⟩ := hc.hidOK _ _ hd
          exact hbne c' hc'm (by rw [hc'id, hce])
        have hmem' : ∀ c, c ∈ g :: (e.accepts ++ [(s.obj h).blk]) ↔ (c ∈ g :: e.accepts ∨ c = (s.obj h).blk) := by
          intro c
          simp only [List.mem_cons, List.mem_append, List.mem_nil_iff, or_false]
          constructor
          · rintro (h1 | h1 | h1)
            · exact Or.inl (Or.inl h1)
            · exact Or.inl (Or.inr h1)
            · exact Or.inr h1
          · rintro ((h1 | h1) | h1)
            · exact Or.inl h1
            · exact Or.inr (Or.inl h1)
            · exact Or.inr (Or.inr h1)
        refine ⟨?_, ?_, ?_, ?_, ?_, ?_, ?_, ?_, ?_⟩
        · show g.id ∈ e.decided ++ [(s.obj h).blk.id]
          exact List.mem_append_left _ hc.gDec
        · show ((g :: (e.accepts ++ [(s.obj h).blk])).map (·.id)).Nodup
          have : (g :: (e.accepts ++ [(s.obj h).blk])).map (·.id) = (g :: e.accepts).map (·.id) ++ [(s.obj h).blk.id] := by
            simp
          rw [this, List.nodup_append]
          refine ⟨hc.ids, by simp, ?_⟩
          intro a ha b' hb'
          simp only [List.mem_singleton] at hb'; subst hb'
          obtain ⟨c, hcm, rfl⟩ := List.mem_map.mp ha
          exact hbne c hcm
        · show ∀ c ∈ g :: (e.accepts ++ [(s.obj h).blk]), c.height ≤ (s.obj h).blk.height
          intro c hcm
          rcases (hmem' c).mp hcm with h1 | h1
          · have := hc.hts c h1; omega
          · subst h1; exact Nat.le_refl _
        · show ∀ c ∈ g :: (e.accepts ++ [(s.obj h).blk]),
            (ix.window = 0 ∨ (s.obj h).blk.height < c.height + ix.window) →
            ix.idh c.id = some c.height ∧ ix.byHeight c.height = some c ∧ ix.hid c.height = some c.id
          intro c hcm hret
          rw [f0] at hret
          rcases (hmem' c).mp hcm with h1 | h1
          · have hle := hc.hts c h1
            have hold := hc.ret c h1 (by rcases hret with h0 | h0; exact Or.inl h0; exact Or.inr (by omega))
            have hk := f2 c.height (by omega) (by rcases hret with h0 | h0; exact Or.inl h0; exact Or.inr (by omega))
            rw [f3 c.id (hbne c h1) (hdid c h1 hret), hk.1, hk.2]
            exact hold
          · subst h1
            exact ⟨f4 hdidb, f5, f6⟩
        · show ∀ k id, ix.hid k = some id → ∃ c ∈ g :: (e.accepts ++ [(s.obj h).blk]), c.height = k ∧ c.id = id
          intro k id hk
          rcases f1 k id hk with ⟨rfl, rfl⟩ | hold
          · exact ⟨_, (hmem' _).mpr (Or.inr rfl), rfl, rfl⟩
          · obtain ⟨c, hcm, a, b'⟩ := hc.hidOK k id hold
            exact ⟨c, (hmem' c).mpr (Or.inl hcm), a, b'⟩
        · show ix.window = 0 ∨ ((match s.inflight with | some (h, _) => [h] | none => []) ++ (s.queue ++ [h])).length < ix.window
          rw [f0]
          rcases hwin with h0 | h0
          · exact Or.inl h0
          · right
            have : ((match s.inflight with | some (h, _) => [h] | none => []) ++ (s.queue ++ [h])).length = s.pend.length + 1 := by
              unfold State.pend
              cases s.inflight with
              | none => simp
              | some x => simp <;> omega
            omega
        · intro id j hj
          rcases Fifo.put_m _ _ _ _ _ hj with ⟨rfl, rfl⟩ | hold
          · exact ⟨(hmem' _).mpr (Or.inr rfl), rfl, hlt⟩
          · obtain ⟨a1, a2, a3⟩ := hc.accID id j hold
            exact ⟨(hmem' _).mpr (Or.inl a1), a2, a3⟩
        · intro k id hj
          rcases Fifo.put_m _ _ _ _ _ hj with ⟨rfl, rfl⟩ | hold
          · exact ⟨_, (hmem' _).mpr (Or.inr rfl), rfl, rfl⟩
          · obtain ⟨c, hcm, a, b'⟩ := hc.accH k id hold
            exact ⟨c, (hmem' c).mpr (Or.inl hcm), a, b'⟩
        · intro id j hj
          have hj' : (s.vb.set (s.obj h).blk.id none) id = some j := hj
          rw [Map.set_apply] at hj'
          split at hj'
          · simp at hj'
          · rename_i hne
            have hpj := hc.vbP id j hj'
            have : j ≠ h := by
              intro e'; subst e'
              exact hne ((hh.vb id j hj').2).symm
            exact (List.mem_erase_of_ne this).mpr hpj

end HyperModel.Snow

namespace HyperModel.Snow

theorem pend_deq (s : State) : (deq s).1.pend = s.pend := by
  unfold HyperModel.Snow.deq
  split
  next h rest hi hq =>
    split
    · rfl
    · simp [State.pend, hi, hq]
  next => rfl

theorem pend_fin (s : State) : (fin s).1.pend.length ≤ s.pend.length := by
  unfold HyperModel.Snow.fin
  split
  · exact Nat.le_refl _
  next h pa hi =>
    show (([] : List Nat) ++ s.queue).length ≤ _
    simp [State.pend, hi]

theorem pend_passive {s s' : State} (hp : Passive s s') : s'.pend = s.pend := by
  simp [State.pend, hp.q, hp.i]

theorem Cache.step {g : Blk} {y : Sys} (hc : Cache g y.s y.e) (hl : Link g y.s y.e) (hh : Heap g y.s) (op : Op)
    (hn : (match op with | .start _ | .finish _ _ => false | _ => true) = true)
    (hp : pre y.s y.e op = true) : Cache g (y.step op).s (y.step op).e := by
  rw [Sys.step_eq]
  show Cache g (HyperModel.Snow.step y.s op).1 (y.e.upd y.s op (HyperModel.Snow.step y.s op).2)
  unfold HyperModel.Snow.step
  split
  · rw [upd_err]; exact hc
  · cases op with
    | build n c =>
      rw [upd_passive _ _ _ _ rfl]
      exact hc.quiet (Quiet.build _ n c) (Frame.build _ n c) (by rw [pend_passive (Passive.build _ n c)]; exact Nat.le_refl _)
    | parse b =>
      rw [upd_passive _ _ _ _ rfl]
      exact hc.quiet (Quiet.parse _ b) (Frame.parse _ b) (by rw [pend_passive (Passive.parse _ b)]; exact Nat.le_refl _)
    | verify h c =>
      dsimp only
      split
      · exact hc.verify h c
      · rw [upd_err]; exact hc
    | accept h =>
      dsimp only
      split
      · exact hc.accept hl hh h hp
      · rw [upd_err]; exact hc
    | reject h =>
      dsimp only
      split
      · exact hc.reject hh h
      · rw [upd_err]; exact hc
    | pref id =>
      rw [upd_passive _ _ _ _ rfl]
      exact hc.quiet ⟨rfl, rfl, rfl, rfl⟩ (Frame.of_eq rfl rfl) (Nat.le_refl _)
    | get id =>
      rw [upd_passive _ _ _ _ rfl]
      exact hc.quiet (Quiet.get _ id) (Frame.get _ id) (by rw [pend_passive (Passive.get _ id)]; exact Nat.le_refl _)
    | getH ht =>
      rw [upd_passive _ _ _ _ rfl]
      exact hc.quiet (Quiet.getH _ ht) (Frame.getH _ ht) (by rw [pend_passive (Passive.getH _ ht)]; exact Nat.le_refl _)
    | last => rw [upd_passive _ _ _ _ rfl]; exact hc
    | deq =>
      rw [upd_passive _ _ _ _ rfl]
      exact hc.quiet (Quiet.deq _) (Frame.deq _) (by rw [pend_deq]; exact Nat.le_refl _)
    | fin =>
      rw [upd_passive _ _ _ _ rfl]
      exact hc.quiet (Quiet.fin _) (Frame.fin _) (pend_fin _)
    | start b => simp at hn
    | finish b st => simp at hn
    | health => rw [upd_passive _ _ _ _ rfl]; exact hc
    | ciLast => rw [upd_passive _ _ _ _ rfl]; exact hc
    | ciPref => rw [upd_passive _ _ _ _ rfl]; exact hc

theorem Cache.init (c p w : Nat) (g : Blk) : Cache g (HyperModel.Snow.init c p w g true) (Eng.init g true) := by
  have hobj0 : ((HyperModel.Snow.init c p w g true).obj 0).blk = g := by
    simp [HyperModel.Snow.init, State.obj, State.emit, State.setLastAccepted, Map.set, Map.empty]
  have hidx : (HyperModel.Snow.init c p w g true).idx =
      ⟨w, Map.empty.set g.height (some g), Map.empty.set g.height (some g.id), Map.empty.set g.id (some g.height)⟩ := by
    simp [HyperModel.Snow.init, State.emit, State.setLastAccepted]
  refine ⟨by simp [Eng.init], by simp [Eng.init], by simp [Eng.init], ?_, ?_, ?_, ?_, ?_, ?_⟩
  · intro b hb _
    have : b = g := by simpa [Eng.init] using hb
    subst this
    rw [hidx]; simp
  · intro k id hk
    rw [hidx] at hk
    simp only [Map.set_apply, Map.empty] at hk
    split at hk
    · rename_i e'; simp only [Option.some.injEq] at hk
      exact ⟨g, by simp [Eng.init], e'.symm, hk⟩
    · simp at hk
  · rw [hidx]
    have : (HyperModel.Snow.init c p w g true).pend = [] := by
      simp [HyperModel.Snow.init, State.emit, State.setLastAccepted, State.pend]
    rw [this]
    show w = 0 ∨ 0 < w
    omega
  · intro id h hh
    have hh' : (Fifo.put ⟨max c 1, [], Map.empty⟩ g.id 0).m id = some h := by
      simpa [HyperModel.Snow.init, State.emit, State.setLastAccepted, State.obj, Map.set, Map.empty] using hh
    rcases Fifo.put_m _ _ _ _ _ hh' with ⟨rfl, rfl⟩ | h'
    · rw [hobj0]; exact ⟨by simp [Eng.init], rfl, by simp [HyperModel.Snow.init, State.emit, State.setLastAccepted]⟩
    · simp [Map.empty] at h'
  · intro k id hh
    have hh' : (Fifo.put ⟨max c 1, [], Map.empty⟩ g.height g.id).m k = some id := by
      simpa [HyperModel.Snow.init, State.emit, State.setLastAccepted, State.obj, Map.set, Map.empty] using hh
    rcases Fifo.put_m _ _ _ _ _ hh' with ⟨rfl, rfl⟩ | h'
    · exact ⟨g, by simp [Eng.init], rfl, rfl⟩
    · simp [Map.empty] at h'
  · intro id h hh
    simp [HyperModel.Snow.init, State.emit, State.setLastAccepted, Map.empty] at hh

end HyperModel.Snow

namespace HyperModel.Snow

theorem view_getBlock_isSome_of_index (s : State) (id : Nat) (b : Blk) (hx : s.idx.getBlock id = some b) :
    (s.view (s.getBlock id)).isSome = true := by
  unfold State.getBlock
  split
  · rfl
  · split
    · rfl
    · rw [hx]; rfl

/-- the accepter's parent lookup cannot fail: the parent of the oldest queued block is an accepted
block within index retention, because fewer than `window` accepted blocks are unprocessed -/
theorem deq_parent_found {g s e} (hc : Cache g s e) (hl : Link g s e) (h : Nat) (rest : List Nat)
    (hi : s.inflight = none) (hq : s.queue = h :: rest) :
    (s.view (s.getBlock (s.obj h).blk.parent)).isSome = true := by
  have hpend : s.pend = h :: rest := by simp [State.pend, hi, hq]
  have hacc := hl.acc
  rw [hpend] at hacc
  have hbmem : (s.obj h).blk ∈ e.accepts := by
    rw [← hacc]; simp
  have hlk := hl.chain.1
  obtain ⟨P, hPm, hPid, hPh⟩ := linked_parent g e.accepts hlk _ hbmem
  -- heights
  have hlast : e.lastAcc.height = g.height + e.accepts.length := by
    have := (linked_split g e.accepts [] (by simpa using hlk)).2
    rw [hl.chain.2] at this; exact this
  have hlk2 := hlk
  rw [← hacc] at hlk2
  obtain ⟨s1, s2⟩ := linked_split g (acceptLog s.log) _ hlk2
  have hbgt := linked_lt' _ _ s1 (s.obj h).blk (by simp)
  have hlen : e.accepts.length = (acceptLog s.log).length + s.pend.length := by
    rw [← hacc, hpend]; simp
  have hret : s.idx.window = 0 ∨ e.lastAcc.height < P.height + s.idx.window := by
    rcases hc.pendW with h0 | h0
    · exact Or.inl h0
    · right; omega
  obtain ⟨r1, r2, _⟩ := hc.ret P hPm hret
  rw [hPid]
  exact view_getBlock_isSome_of_index s P.id P (by simp [Index.getBlock, r1, r2])

theorem deq_ok {g s e} (hc : Cache g s e) (hl : Link g s e) (h : Nat) (rest : List Nat)
    (hi : s.inflight = none) (hq : s.queue = h :: rest) :
    (deq s).2 = .ok ∧ (deq s).1.crashed = s.crashed := by
  have hf := deq_parent_found hc hl h rest hi hq
  cases hv : s.view (s.getBlock (s.obj h).blk.parent) with
  | none => simp [hv] at hf
  | some p => simp [deq, hi, hq, hv]

/-! ### `crashed` is only ever set by a failing `deq` -/

theorem cr_materialize (s : State) (f : Found) : (s.materialize f).1.crashed = s.crashed := by
  cases f <;> rfl
theorem cr_get (s : State) (id : Nat) : (get s id).1.crashed = s.crashed := by
  unfold HyperModel.Snow.get
  have := cr_materialize s (s.getBlock id)
  split <;> simp_all
theorem cr_getH (s : State) (ht : Nat) : (getH s ht).1.crashed = s.crashed := by
  unfold HyperModel.Snow.getH
  split
  · rfl
  · split
    · rfl
    · split
      · rfl
      · exact cr_get s _
theorem cr_parse (s : State) (b : Blk) : (parse s b).1.crashed = s.crashed := by
  unfold HyperModel.Snow.parse
  split
  · split <;> rfl
  · have := cr_materialize s (s.getBlock b.id)
    split <;> simp_all
theorem cr_build (s : State) (n : Nat) (c : Option Nat) : (build s n c).1.crashed = s.crashed := by
  unfold HyperModel.Snow.build
  dsimp only
  split
  · rfl
  · split <;> rfl
theorem cr_verify (s : State) (h : Nat) (c : Option Nat) : (verify s h c).1.crashed = s.crashed := by
  unfold HyperModel.Snow.verify
  dsimp only
  split
  · rfl
  · split
    · split <;> rfl
    · split
      · rfl
      · split
        · rfl
        · split
          · rfl
          · split <;> rfl
theorem cr_accept (s : State) (h : Nat) : (accept s h).1.crashed = s.crashed := by
  unfold HyperModel.Snow.accept
  dsimp only
  split
  · rfl
  · split
    · rfl
    · split
      · rfl
      · split <;> rfl
theorem cr_reject (s : State) (h : Nat) : (reject s h).1.crashed = s.crashed := by
  unfold HyperModel.Snow.reject
  dsimp only
  split <;> rfl
theorem cr_fin (s : State) : (fin s).1.crashed = s.crashed := by
  unfold HyperModel.Snow.fin
  split <;> rfl

/-- under the invariants no step of normal operation crashes the accepter -/
theorem no_crash_step {g : Blk} {y : Sys} (hc : Cache g y.s y.e) (hl : Link g y.s y.e) (op : Op)
    (hn : (match op with | .start _ | .finish _ _ => false | _ => true) = true)
    (hcr : y.s.crashed = false) : (y.step op).s.crashed = false := by
  show (HyperModel.Snow.step y.s op).1.crashed = false
  unfold HyperModel.Snow.step
  simp only [hcr, Bool.false_eq_true, if_false]
  cases op with
  | build n c => rw [cr_build]; exact hcr
  | parse b => rw [cr_parse]; exact hcr
  | verify h c => dsimp only; split; rw [cr_verify]; exact hcr; exact hcr
  | accept h => dsimp only; split; rw [cr_accept]; exact hcr; exact hcr
  | reject h => dsimp only; split; rw [cr_reject]; exact hcr; exact hcr
  | pref id => rfl
  | get id => rw [cr_get]; exact hcr
  | getH ht => rw [cr_getH]; exact hcr
  | last => exact hcr
  | deq =>
    show (deq y.s).1.crashed = false
    cases hi : y.s.inflight with
    | some x => simp [deq, hi, hcr]
    | none =>
      cases hq : y.s.queue with
      | nil => simp [deq, hi, hq, hcr]
      | cons h rest => rw [(deq_ok hc hl h rest hi hq).2]; exact hcr
  | fin => rw [cr_fin]; exact hcr
  | start b => simp at hn
  | finish b st => simp at hn
  | health => exact hcr
  | ciLast => exact hcr
  | ciPref => exact hcr

end HyperModel.Snow

namespace HyperModel.Snow

theorem height_inj (g : Blk) (l : List Blk) (h : linked g l = true) {a b : Blk}
    (ha : a ∈ g :: l) (hb : b ∈ g :: l) (he : a.height = b.height) : a = b := by
  induction l generalizing g with
  | nil =>
    simp only [List.mem_cons, List.mem_nil_iff, or_false] at ha hb
    rw [ha, hb]
  | cons x r ih =>
    have hlt := linked_lt' g (x :: r) h
    simp only [linked, Bool.and_eq_true, beq_iff_eq] at h
    obtain ⟨_, h3⟩ := h
    rcases List.mem_cons.mp ha with rfl | ha' <;> rcases List.mem_cons.mp hb with rfl | hb'
    · rfl
    · have := hlt b hb'; omega
    · have := hlt a ha'; omega
    · exact ih x h3 ha' hb'

theorem chain_decided {g s e} (hc : Cache g s e) (hl : Link g s e) : ∀ c ∈ g :: e.accepts, c.id ∈ e.decided := by
  intro c hcm
  rcases List.mem_cons.mp hcm with rfl | hcm
  · exact hc.gDec
  · exact hl.accDec c hcm

/-- `VM.GetBlock` of an accepted id within index retention: the accepted object itself (cache) or a
bare copy of exactly that block (index) — never a processing object, never another block -/
theorem getBlock_accepted {g s e} (hc : Cache g s e) (hl : Link g s e) (hh : Heap g s) (c : Blk) (hcm : c ∈ g :: e.accepts)
    (hret : s.idx.window = 0 ∨ e.lastAcc.height < c.height + s.idx.window) :
    (∃ h, s.getBlock c.id = .obj h ∧ (s.obj h).blk = c ∧ h < s.nobj) ∨ s.getBlock c.id = .bare c := by
  unfold State.getBlock
  split
  · rename_i h hv
    exfalso
    have hp := hc.vbP c.id h hv
    -- a processing object's id is never a decided id
    have hid : (s.obj h).blk.id ∈ e.procIds s := List.mem_map_of_mem (f := fun p => (s.obj p).blk.id) hp
    rw [(hh.vb c.id h hv).2] at hid
    exact hl.fresh _ hid (chain_decided hc hl c hcm)
  · split
    · rename_i h ha
      obtain ⟨a1, a2, a3⟩ := hc.accID c.id h ha
      exact Or.inl ⟨h, rfl, id_inj_of_nodup hc.ids a1 hcm a2, a3⟩
    · obtain ⟨r1, r2, _⟩ := hc.ret c hcm hret
      right
      simp [Index.getBlock, r1, r2]

end HyperModel.Snow

namespace HyperModel.Snow

/-- `VM.GetBlock` as the engine calls it -/
theorem get_accepted {g s e} (hc : Cache g s e) (hl : Link g s e) (hh : Heap g s) (c : Blk) (hcm : c ∈ g :: e.accepts)
    (hret : s.idx.window = 0 ∨ e.lastAcc.height < c.height + s.idx.window) :
    ∃ h, (get s c.id).2 = .handle h ∧ ((get s c.id).1.obj h).blk = c := by
  unfold HyperModel.Snow.get
  rcases getBlock_accepted hc hl hh c hcm hret with ⟨h, h1, h2, _⟩ | h1
  · rw [h1]; exact ⟨h, rfl, h2⟩
  · rw [h1]
    exact ⟨s.nobj, rfl, by simp [State.materialize]⟩

/-- `VM.GetBlockByHeight` at the height of an accepted block within index retention -/
theorem getH_accepted {g s e} (hc : Cache g s e) (hl : Link g s e) (hh : Heap g s) (c : Blk) (hcm : c ∈ g :: e.accepts)
    (hret : s.idx.window = 0 ∨ e.lastAcc.height < c.height + s.idx.window) :
    ∃ h, (getH s c.height).2 = .handle h ∧ ((getH s c.height).1.obj h).blk = c := by
  have hlastmem : e.lastAcc ∈ g :: e.accepts := by
    rw [← hl.chain.2]
    have : ∀ (p : Blk) (l : List Blk), lastOr p l ∈ p :: l := by
      intro p l
      induction l generalizing p with
      | nil => simp [lastOr]
      | cons x r ih => simp only [lastOr]; exact List.mem_cons_of_mem _ (ih x)
    exact this g e.accepts
  unfold HyperModel.Snow.getH
  split
  · rename_i heq
    refine ⟨s.lastAccepted, rfl, ?_⟩
    rw [hl.la.1] at heq ⊢
    exact height_inj g e.accepts hl.chain.1 hlastmem hcm heq
  · -- resolve the id
    have hid : s.idAtHeight c.height = some c.id := by
      unfold State.idAtHeight
      split
      · rename_i id ha
        obtain ⟨c', hc'm, h1, h2⟩ := hc.accH _ _ ha
        have : c' = c := height_inj g e.accepts hl.chain.1 hc'm hcm h1
        subst this; rw [h2]
      · exact (hc.ret c hcm hret).2.2
    rw [hid]
    dsimp only
    split
    · rename_i h ha
      obtain ⟨a1, a2, _⟩ := hc.accID c.id h ha
      exact ⟨h, rfl, id_inj_of_nodup hc.ids a1 hcm a2⟩
    · exact get_accepted hc hl hh c hcm hret

end HyperModel.Snow
