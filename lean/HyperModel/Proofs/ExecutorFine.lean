import HyperModel.Proofs.Executor
import HyperModel.Model.ExecutorFine
/-! Invariant of the finer executor relation (`Run` interleaved with completions). -/
namespace HyperModel.Executor

/-- `LInv` only reads n, keys, deps below `t`, blocked, readers, reading, nodes and, of
`status`, which tasks are executed / waiting. -/
theorem linv_of_status {s s' : State} {t : Nat} {pre : List KeyReq} {ds : List Nat}
    (h : LInv s t pre ds) (e1 : s'.n = s.n) (e2 : s'.keys = s.keys)
    (e3 : ∀ x, executed s' x = executed s x)
    (e3' : ∀ x, s'.status x = .waiting ↔ s.status x = .waiting)
    (e4 : ∀ j, j < t → s'.deps j = s.deps j) (e5 : s'.blocked = s.blocked) (e6 : s'.readers = s.readers)
    (e7 : s'.reading = s.reading) (e8 : s'.nodes = s.nodes) : LInv s' t pre ds := by
  have hch : ∀ i j, Chain s i j → Chain s' i j :=
    fun i j c => Chain.mono (s := s) (s' := s') (fun _ _ hb => by rw [e5]; exact hb) c
  have hcnt : ∀ j, cnt s' j = cnt s j := by intro j; unfold cnt; rw [e1, e5]
  refine ⟨by rw [e1]; exact h.n_eq, (e3' t).mpr h.st_t, ?_, ?_, ?_, ?_, ?_, ?_, ?_, h.dsnd, ?_, ?_⟩
  · intro d j hb
    rw [e5] at hb
    obtain ⟨h1, h2, h3, h4⟩ := h.blk d j hb
    exact ⟨h1, by rw [e1]; exact h2, by rw [e3]; exact h3, (e3' j).mpr h4⟩
  · intro o r hr
    rw [e6] at hr
    obtain ⟨h1, h2, h3, h4⟩ := h.rdr o r hr
    exact ⟨h1, by rw [e1]; exact h2, by rw [e3]; exact h3, by rw [e7]; exact h4⟩
  · intro j hj hw
    rw [hcnt, e4 j hj]
    exact h.cntlt j hj ((e3' j).mp hw)
  · intro i j hij hj hc
    rw [e2] at hc; rw [e3]
    rcases h.safe i j hij hj hc with a | a
    · exact Or.inl a
    · exact Or.inr (hch _ _ a)
  · intro i hi x hx y hy hk hr
    rw [e2] at hx; rw [e3]
    rcases h.newsafe i hi x hx y hy hk hr with a | a
    · exact Or.inl a
    · exact Or.inr (hch _ _ a)
  · intro k o hk
    rw [e8] at hk
    obtain ⟨h1, h2, h3⟩ := h.own k o hk
    refine ⟨by rw [e1]; exact h1, h2, ?_⟩
    intro i rd hi hm hio
    rw [e2] at hm; rw [e1] at hi; rw [e3, e6]
    rcases h3 i rd hi hm hio with a | a | a | a
    · exact Or.inl a
    · exact Or.inr (Or.inl a)
    · exact Or.inr (Or.inr (Or.inl (hch _ _ a)))
    · exact Or.inr (Or.inr (Or.inr a))
  · intro k hk i rd hi hm
    rw [e8] at hk; rw [e2] at hm; rw [e1] at hi
    exact h.free k hk i rd hi hm
  · intro d hb; rw [e5] at hb; exact h.ds_sup d hb
  · intro d hd hne; rw [e5]; rw [e3] at hne; exact h.ds_live d hd hne

/-- the counter of the task being registered: `maxDependencies` minus the notifications it
has received so far (dependencies that have completed in the meantime) -/
def CtrOk (s : State) (t : Nat) (ds : List Nat) (maxDeps : Nat) : Prop :=
  s.deps t = (maxDeps : Int) - ((ds.countP (executed s) : Nat) : Int)

theorem countP_lt_of_mem {l : List Nat} {p : Nat → Bool} {d : Nat} (hd : d ∈ l) (hp : p d = false) :
    l.countP p < l.length := by
  have h1 := List.countP_le_length (p := p) (l := l)
  have h2 : l.countP p ≠ l.length := by
    intro e
    have := List.countP_eq_length.mp e d hd
    rw [hp] at this; cases this
  omega

/-- Completion of a task `d` while task `t` is being registered. -/
theorem linv_complete {s : State} {d : Nat} {st : Status} {order : List Nat} {t : Nat}
    {pre : List KeyReq} {ds : List Nat} {maxDeps : Nat} (h : LInv s t pre ds)
    (hctr : CtrOk s t ds maxDeps) (hbound : ds = [] ∨ ds.length < maxDeps)
    (hd : d < s.n) (hrun : s.status d = .running ∨ s.status d = .queued)
    (hex : st = .done ∨ st = .skipped) :
    LInv (complete s d st order) t pre ds ∧ CtrOk (complete s d st order) t ds maxDeps := by
  have hst : s.status d ≠ .waiting := by rcases hrun with a | a <;> rw [a] <;> simp
  have hdt : d ≠ t := by intro e; subst e; exact hst h.st_t
  have hfree : ∀ x, s.blocked x d = false := by
    intro x
    cases hb : s.blocked x d with
    | false => rfl
    | true => exact absurd (h.blk x d hb).2.2.2 hst
  have hexd0 : executed s d = false := by
    rw [executed_false_iff]; rcases hrun with a | a <;> rw [a] <;> simp
  have hexd : executed (complete s d st order) d = true := by
    rw [executed_iff, complete_status]; simpa using hex
  -- t is not sent early: its counter stays positive
  have ht_keep : ¬ ((s.blocked d t && decide (s.deps t - 1 ≤ 0)) = true) := by
    intro hc
    simp only [Bool.and_eq_true, decide_eq_true_eq] at hc
    have hmem := h.ds_sup d hc.1
    have hlt := countP_lt_of_mem (p := executed s) hmem hexd0
    have hb : ds.length < maxDeps := by
      rcases hbound with e | e
      · rw [e] at hmem; cases hmem
      · exact e
    unfold CtrOk at hctr
    omega
  have hstat_t : (complete s d st order).status t = .waiting := by
    rw [complete_status]; simp only [hdt.symm, if_false, ht_keep]; exact h.st_t
  have hexmono : ∀ i, executed s i = true → executed (complete s d st order) i = true := by
    intro i hi
    rw [executed_iff] at hi ⊢
    rw [complete_status]
    by_cases hid : i = d
    · simpa [hid] using hex
    · have : s.blocked d i = false := by
        cases hb : s.blocked d i with
        | false => rfl
        | true =>
          have := (h.blk d i hb).2.2.2
          rcases hi with hi | hi <;> rw [hi] at this <;> cases this
      simpa [hid, this] using hi
  have hexkeep : ∀ i, i ≠ d → executed s i = false → executed (complete s d st order) i = false := by
    intro i hid hi
    rw [executed_false_iff] at hi ⊢
    rw [complete_status]
    simp only [hid, if_false]
    split <;> simp [hi.1, hi.2]
  have hchain : ∀ i j, i ≠ d → Chain s i j → Chain (complete s d st order) i j := by
    intro i j hi c
    refine c.remove_row (d0 := d) ?_ hfree hi
    intro x j hx hb
    simp [complete_blocked, hx, hb]
  refine ⟨⟨h.n_eq, hstat_t, ?_, ?_, ?_, ?_, ?_, ?_, h.free, h.dsnd, ?_, ?_⟩, ?_⟩
  · -- blk
    intro x j hb
    rw [complete_blocked] at hb
    by_cases hx : x = d
    · simp [hx] at hb
    · simp only [hx, if_false] at hb
      obtain ⟨h1, h2, h3, h4⟩ := h.blk x j hb
      refine ⟨h1, h2, hexkeep x hx h3, ?_⟩
      by_cases hjt : j = t
      · subst hjt; exact hstat_t
      · rw [complete_status]
        have hjd : j ≠ d := by intro hjd; subst hjd; exact hst h4
        simp only [hjd, if_false]
        by_cases hbd : s.blocked d j = true
        · have hjlt : j < t := by have := h.n_eq; omega
          have hc := (h.cntlt j hjlt h4).1
          have h2' : 2 ≤ cnt s j := by
            have := countP_remove (l := List.range s.n) (p := fun y => s.blocked y j) (d := d)
              List.nodup_range (List.mem_range.mpr hd) hbd
            have hpos : 0 < (List.range s.n).countP (fun y => (y != d) && s.blocked y j) := by
              apply List.countP_pos_iff.mpr
              exact ⟨x, List.mem_range.mpr (by omega), by simp [hx, hb]⟩
            unfold cnt; omega
          have : ¬ (s.deps j - 1 ≤ 0) := by omega
          simp [hbd, this, h4]
        · simp [hbd, h4]
  · -- rdr
    intro o r hr
    have hr' : (if r = d ∧ o ∈ s.reading d then false else s.readers o r) = true := hr
    by_cases hrd : r = d
    · subst hrd
      by_cases ho : o ∈ s.reading r
      · simp [ho] at hr'
      · simp only [ho, and_false, if_false] at hr'
        exact absurd (h.rdr o r hr').2.2.2 ho
    · simp only [hrd, false_and, if_false] at hr'
      obtain ⟨h1, h2, h3, h4⟩ := h.rdr o r hr'
      refine ⟨h1, h2, hexkeep r hrd h3, ?_⟩
      show o ∈ (if r = d then [] else s.reading r)
      simpa [hrd] using h4
  · -- cntlt
    intro j hj hw
    rw [complete_status] at hw
    by_cases hjd : j = d
    · subst hjd; simp at hw; rcases hex with rfl | rfl <;> cases hw
    · simp only [hjd, if_false] at hw
      rw [cnt_complete]
      show (if s.blocked d j then s.deps j - 1 else s.deps j) = _ ∧ _
      by_cases hbd : s.blocked d j = true
      · have hw0 := (h.blk d j hbd).2.2.2
        have hc := h.cntlt j hj hw0
        have := countP_remove (l := List.range s.n) (p := fun y => s.blocked y j) (d := d)
          List.nodup_range (List.mem_range.mpr hd) hbd
        by_cases hle : s.deps j - 1 ≤ 0
        · simp [hbd, hle] at hw
        · simp only [hbd, if_true]
          unfold cnt at hc
          omega
      · have hbd' : s.blocked d j = false := by simpa using hbd
        simp only [hbd', Bool.false_and, Bool.false_eq_true, if_false] at hw
        have hc := h.cntlt j hj hw
        have := countP_same (l := List.range s.n) (p := fun y => s.blocked y j) (d := d) hbd'
        simp only [hbd', Bool.false_eq_true, if_false]
        unfold cnt at hc
        omega
  · -- safe
    intro i j hij hj hc
    by_cases hid : i = d
    · left; rw [hid]; exact hexd
    · rcases h.safe i j hij hj hc with he | hch
      · left; exact hexmono i he
      · right; exact hchain i j hid hch
  · -- newsafe
    intro i hi x hx y hy hk hr
    by_cases hid : i = d
    · left; rw [hid]; exact hexd
    · rcases h.newsafe i hi x hx y hy hk hr with he | hch
      · left; exact hexmono i he
      · right; exact hchain i t hid hch
  · -- own
    intro k o hk
    obtain ⟨ho, h2, hrest⟩ := h.own k o hk
    refine ⟨ho, h2, ?_⟩
    intro i rd hi hmem hio
    by_cases hid : i = d
    · right; left; rw [hid]; exact hexd
    · rcases hrest i rd hi hmem hio with a | he | hch | ⟨hrd, hr⟩
      · exact Or.inl a
      · right; left; exact hexmono i he
      · right; right; left; exact hchain i o hid hch
      · right; right; right
        refine ⟨hrd, ?_⟩
        show (if i = d ∧ o ∈ s.reading d then false else s.readers o i) = true
        simp [hid, hr]
  · -- ds_sup
    intro x hb
    rw [complete_blocked] at hb
    by_cases hx : x = d
    · simp [hx] at hb
    · simp only [hx, if_false] at hb; exact h.ds_sup x hb
  · -- ds_live
    intro x hx hne
    have hxd : x ≠ d := by intro e; subst e; rw [hexd] at hne; cases hne
    have hne0 : executed s x = false := by
      cases he : executed s x with
      | false => rfl
      | true => rw [hexmono x he] at hne; cases hne
    rw [complete_blocked]; simp only [hxd, if_false]
    exact h.ds_live x hx hne0
  · -- counter
    unfold CtrOk at hctr ⊢
    show (if s.blocked d t then s.deps t - 1 else s.deps t) = _
    have hcongr : ds.countP (fun x => (x != d) && executed (complete s d st order) x) =
        ds.countP (fun x => (x != d) && executed s x) := by
      apply List.countP_congr
      intro x _
      by_cases hx : x = d
      · simp [hx]
      · cases he : executed s x with
        | true => simp [hx, hexmono x he]
        | false => simp [hx, hexkeep x hx he]
    have hsame := countP_same (l := ds) (p := executed s) (d := d) hexd0
    by_cases hbd : s.blocked d t = true
    · have hmem := h.ds_sup d hbd
      have hrem := countP_remove (l := ds) (p := executed (complete s d st order)) (d := d)
        h.dsnd hmem hexd
      simp only [hbd, if_true]
      omega
    · have hbd' : s.blocked d t = false := by simpa using hbd
      simp only [hbd', Bool.false_eq_true, if_false]
      by_cases hmem : d ∈ ds
      · exact absurd (h.ds_live d hmem hexd0) hbd
      · have : ds.countP (executed (complete s d st order)) = ds.countP (executed s) := by
          apply List.countP_congr
          intro x hx
          have hxd : x ≠ d := fun e => hmem (e ▸ hx)
          cases he : executed s x with
          | true => simp [hexmono x he]
          | false => simp [hexkeep x hxd he]
        rw [this]; exact hctr

/-- end of `Run`, stated with the number of live blockers instead of `|dependencies|` -/
theorem LInv.finish' {s1 : State} {t : Nat} {ks : List KeyReq} {ds : List Nat}
    (h : LInv s1 t ks ds) (hkeys : s1.keys t = ks) (s2 : State)
    (e_n : s2.n = s1.n) (e_keys : s2.keys = s1.keys) (e_bl : s2.blocked = s1.blocked)
    (e_rd : s2.readers = s1.readers) (e_rg : s2.reading = s1.reading) (e_nd : s2.nodes = s1.nodes)
    (e_deps : ∀ j, j ≠ t → s2.deps j = s1.deps j) (e_dt : s2.deps t = (cnt s1 t : Int))
    (e_st : ∀ j, j ≠ t → s2.status j = s1.status j)
    (e_stt : (0 < cnt s1 t ∧ s2.status t = .waiting) ∨ (cnt s1 t = 0 ∧ s2.status t = .queued)) :
    Inv s2 := by
  have hexe : ∀ i, executed s2 i = executed s1 i := by
    intro i
    by_cases hi : i = t
    · subst hi
      have : executed s1 i = false := by rw [executed_false_iff, h.st_t]; simp
      rw [this, executed_false_iff]
      rcases e_stt with a | a <;> rw [a.2] <;> simp
    · simp [executed, e_st i hi]
  have hch : ∀ i j, Chain s1 i j → Chain s2 i j :=
    fun i j c => Chain.mono (s := s1) (s' := s2) (fun _ _ hb => by rw [e_bl]; exact hb) c
  have hcnt : ∀ j, cnt s2 j = cnt s1 j := by intro j; unfold cnt; rw [e_n, e_bl]
  constructor
  · intro d j hb
    rw [e_bl] at hb
    obtain ⟨h1, h2, h3, h4⟩ := h.blk d j hb
    refine ⟨h1, by rw [e_n]; exact h2, by rw [hexe]; exact h3, ?_⟩
    by_cases hj : j = t
    · subst hj
      rcases e_stt with a | a
      · exact a.2
      · have : 0 < cnt s1 j := by
          unfold cnt
          apply List.countP_pos_iff.mpr
          exact ⟨d, List.mem_range.mpr (by omega), hb⟩
        omega
    · rw [e_st j hj]; exact h4
  · intro j hj hw
    rw [hcnt]
    by_cases hjt : j = t
    · subst hjt
      rcases e_stt with a | a
      · exact ⟨e_dt, a.1⟩
      · rw [a.2] at hw; cases hw
    · rw [e_deps j hjt]
      rw [e_st j hjt] at hw
      exact h.cntlt j (by have := h.n_eq; rw [e_n] at hj; omega) hw
  · intro o r hr
    rw [e_rd] at hr
    obtain ⟨h1, h2, h3, h4⟩ := h.rdr o r hr
    exact ⟨h1, by rw [e_n]; exact h2, by rw [hexe]; exact h3, by rw [e_rg]; exact h4⟩
  · intro i j hij hj hc
    rw [e_keys] at hc
    rw [hexe]
    by_cases hjt : j = t
    · subst hjt
      rw [conflictKeys_iff] at hc
      obtain ⟨x, hx, y, hy, hk, hr⟩ := hc
      rw [hkeys] at hy
      rcases h.newsafe i hij x hx y hy hk hr with a | a
      · exact Or.inl a
      · exact Or.inr (hch _ _ a)
    · rcases h.safe i j hij (by have := h.n_eq; rw [e_n] at hj; omega) hc with a | a
      · exact Or.inl a
      · exact Or.inr (hch _ _ a)
  · intro k o hk
    rw [e_nd] at hk
    obtain ⟨h1, _, h3⟩ := h.own k o hk
    refine ⟨by rw [e_n]; exact h1, ?_⟩
    intro i rd hi hm hio
    rw [e_keys] at hm
    rw [e_n] at hi
    rw [hexe, e_rd]
    rcases h3 i rd hi hm hio with a | a | a | a
    · exfalso
      obtain ⟨rfl, a2⟩ := a
      rw [hkeys] at hm
      exact a2 ⟨_, hm, rfl⟩
    · exact Or.inl a
    · exact Or.inr (Or.inl (hch _ _ a))
    · exact Or.inr (Or.inr a)
  · intro k hk i rd hi hm
    rw [e_nd] at hk
    rw [e_keys] at hm
    rw [e_n] at hi
    obtain ⟨rfl, a2⟩ := h.free k hk i rd hi hm
    rw [hkeys] at hm
    exact a2 ⟨_, hm, rfl⟩

/-- the dependencies that have not completed yet are exactly the current blockers -/
theorem live_eq_cnt {s : State} {t : Nat} {pre : List KeyReq} {ds : List Nat}
    (h : LInv s t pre ds) : ds.length = ds.countP (executed s) + cnt s t := by
  rw [List.length_eq_countP_add_countP (executed s)]
  congr 1
  unfold cnt
  rw [List.countP_eq_length_filter, List.countP_eq_length_filter]
  apply List.Perm.length_eq
  rw [List.perm_ext_iff_of_nodup (h.dsnd.filter _) (List.nodup_range.filter _)]
  intro d
  simp only [List.mem_filter, List.mem_range, decide_eq_true_eq, Bool.not_eq_true]
  constructor
  · rintro ⟨hd, hne⟩
    have hb := h.ds_live d hd hne
    exact ⟨by have := (h.blk d t hb); omega, hb⟩
  · rintro ⟨_, hb⟩
    exact ⟨h.ds_sup d hb, (h.blk d t hb).2.2.1⟩

theorem regKey_ds_mono (t : Nat) (s : State) (ds : List Nat) (kr : KeyReq) :
    ∀ d ∈ ds, d ∈ (regKey t (s, ds) kr).2 := by
  intro d hd
  unfold regKey
  dsimp only
  split
  · exact hd
  · rename_i lt hn
    have hrs : ∀ rs : List Nat, d ∈ insAll rs ds := fun rs => mem_insAll.mpr (Or.inr hd)
    by_cases hr : kr.read = true
    · simp only [hr, if_true]
      split
      · exact hd
      · exact mem_ins.mpr (Or.inr hd)
    · have hr' : kr.read = false := by simpa using hr
      simp only [hr', Bool.false_eq_true, if_false]
      split
      · exact hrs _
      · exact mem_ins.mpr (Or.inr (hrs _))

theorem keysNodup_split {a : List KeyReq} {x : KeyReq} {b : List KeyReq}
    (h : keysNodup (a ++ x :: b) = true) : ∀ y ∈ a, y.key ≠ x.key := by
  induction a with
  | nil => intro y hy; cases hy
  | cons c a ih =>
    simp only [List.cons_append, keysNodup, Bool.and_eq_true, Bool.not_eq_true', List.any_eq_false,
      beq_iff_eq] at h
    intro y hy
    rcases List.mem_cons.mp hy with rfl | hy
    · exact fun e => h.1 x (by simp) e.symm
    · exact ih h.2 y hy

/-- state of the goroutine calling `Run`, between two of its critical sections -/
structure RegInv (fs : FState) (r : Reg) : Prop where
  linv : LInv fs.s r.t r.done r.ds
  keys_t : fs.s.keys r.t = r.done ++ r.pending
  nd : keysNodup (r.done ++ r.pending) = true
  ctr : CtrOk fs.s r.t r.ds fs.maxDeps
  bound : r.ds = [] ∨ r.ds.length < fs.maxDeps

def RInv (fs : FState) : Prop :=
  match fs.reg with
  | none => Inv fs.s
  | some r => RegInv fs r

structure FInv (fs : FState) : Prop where
  r : RInv fs
  q : QInv fs.s

theorem finv_init (w m : Nat) : FInv (fInit w m) :=
  ⟨inv_init w, (full_init w).q⟩

theorem beginRun_eq (s : State) (ks : List KeyReq) (m : Nat) :
    beginRun s ks m = { header s ks with deps := fun x => if x = s.n then (m : Int) else s.deps x } := rfl

/-- shared `blk` fact of both shapes of the invariant -/
theorem RInv.blk {fs : FState} (h : RInv fs) : ∀ d j, fs.s.blocked d j = true →
    d < j ∧ j < fs.s.n ∧ executed fs.s d = false ∧ fs.s.status j = .waiting := by
  unfold RInv at h
  split at h
  · exact h.blk
  · exact h.linv.blk

/-- dequeue of the head of the channel by a worker that sees no error -/
theorem qinv_start {s : State} {j : Nat} (hq0 : QInv s) (hhead : s.queue.head? = some j) :
    QInv (apply s (.start j)) ∧ j < s.n ∧ s.status j = .queued := by
  obtain ⟨rest, hq⟩ := head_mem hhead
  have hjq : j < s.n ∧ s.status j = .queued := (hq0.q_iff j).mp (by rw [hq]; simp)
  have hnd := hq0.q_nd
  rw [hq, List.nodup_cons] at hnd
  have hst : ∀ x, (apply s (.start j)).status x = if x = j then .running else s.status x := fun _ => rfl
  refine ⟨⟨?_, ?_, ?_⟩, hjq⟩
  · intro x
    show x ∈ s.queue.tail ↔ x < s.n ∧ (apply s (.start j)).status x = .queued
    rw [hst, hq, List.tail_cons]
    by_cases hx : x = j
    · subst hx; simp [hnd.1]
    · simp only [hx, if_false]
      rw [← hq0.q_iff x, hq]; simp [hx]
  · show s.queue.tail.Nodup
    rw [hq]; exact hnd.2
  · intro x hx
    rw [hst]
    have : x ≠ j := by have := hjq.1; have : s.n ≤ x := hx; omega
    simp only [this, if_false]
    exact hq0.hi x hx

theorem executed_start {s : State} {j : Nat} (hjq : s.status j = .queued) :
    (∀ x, executed (apply s (.start j)) x = executed s x) ∧
    (∀ x, (apply s (.start j)).status x = .waiting ↔ s.status x = .waiting) := by
  have hst : ∀ x, (apply s (.start j)).status x = if x = j then .running else s.status x := fun _ => rfl
  constructor
  · intro x
    simp only [executed, hst]
    by_cases hx : x = j
    · subst hx; simp [hjq]; decide
    · simp [hx]
  · intro x
    rw [hst]
    by_cases hx : x = j
    · subst hx; simp [hjq]
    · simp [hx]

theorem countP_exec_regKey {s : State} {t : Nat} {pre pre' : List KeyReq} {ds : List Nat} {kr : KeyReq}
    (h : LInv s t pre ds) (h' : LInv (regKey t (s, ds) kr).1 t pre' (regKey t (s, ds) kr).2) :
    (regKey t (s, ds) kr).2.countP (executed (regKey t (s, ds) kr).1) = ds.countP (executed s) := by
  have hsm := regKey_same t (s, ds) kr
  have hex : executed (regKey t (s, ds) kr).1 = executed s := by
    funext d; exact executed_same hsm d
  rw [hex, List.countP_eq_length_filter, List.countP_eq_length_filter]
  apply List.Perm.length_eq
  rw [List.perm_ext_iff_of_nodup (h'.dsnd.filter _) (h.dsnd.filter _)]
  intro d
  simp only [List.mem_filter]
  constructor
  · rintro ⟨hd, hp⟩
    rcases regKey_ds_sub h kr d hd with a | a
    · exact ⟨a, hp⟩
    · rw [a] at hp; cases hp
  · rintro ⟨hd, hp⟩
    exact ⟨regKey_ds_mono t s ds kr d hd, hp⟩

/-- transfer of `QInv` between states with the same n / status / queue -/
theorem QInv.of_eq {s s' : State} (h : QInv s) (e1 : s'.n = s.n) (e2 : s'.status = s.status)
    (e3 : s'.queue = s.queue) : QInv s' :=
  ⟨by intro j; rw [e1, e2, e3]; exact h.q_iff j, by rw [e3]; exact h.q_nd,
   by intro j hj; rw [e2]; rw [e1] at hj; exact h.hi j hj⟩

/-- a new task id `t = n` enters as waiting -/
theorem QInv.add_waiting {s s' : State} (h : QInv s) (e1 : s'.n = s.n + 1)
    (e2 : ∀ x, s'.status x = if x = s.n then .waiting else s.status x) (e3 : s'.queue = s.queue) :
    QInv s' := by
  have hnq : s.n ∉ s.queue := fun hm => by have := (h.q_iff s.n).mp hm; omega
  refine ⟨?_, by rw [e3]; exact h.q_nd, ?_⟩
  · intro j
    rw [e1, e2, e3]
    by_cases hj : j = s.n
    · subst hj; simp [hnq]
    · simp only [hj, if_false]
      rw [h.q_iff]
      constructor
      · rintro ⟨a, b⟩; exact ⟨by omega, b⟩
      · rintro ⟨a, b⟩; exact ⟨by omega, b⟩
  · intro j hj
    rw [e1] at hj
    rw [e2]
    have : j ≠ s.n := by omega
    simp only [this, if_false]
    exact h.hi j (by omega)

/-- the waiting task `t` (the last id) is sent to the channel -/
theorem QInv.push_last {s s' : State} {t : Nat} (h : QInv s) (hn : s.n = t + 1)
    (ht : s.status t = .waiting) (e1 : s'.n = s.n)
    (e2 : ∀ x, s'.status x = if x = t then .queued else s.status x)
    (e3 : s'.queue = s.queue ++ [t]) : QInv s' := by
  have hnq : t ∉ s.queue := fun hm => by have := ((h.q_iff t).mp hm).2; rw [ht] at this; cases this
  refine ⟨?_, ?_, ?_⟩
  · intro j
    rw [e1, e2, e3, List.mem_append, h.q_iff]
    by_cases hj : j = t
    · subst hj; simp; omega
    · simp [hj]
  · rw [e3, List.nodup_append]
    refine ⟨h.q_nd, by simp, ?_⟩
    intro a ha b hb
    simp only [List.mem_singleton] at hb
    subst hb; intro e; subst e; exact hnq ha
  · intro j hj
    rw [e1] at hj
    rw [e2]
    have : j ≠ t := by omega
    simp only [this, if_false]
    exact h.hi j hj

theorem finv_step {fs : FState} {st : FStep} (h : FInv fs) (hen : isEnabledF fs st = true) :
    FInv (applyF fs st) := by
  obtain ⟨hr, hq⟩ := h
  have hblk := hr.blk
  cases st with
  | runBegin ks =>
    simp only [isEnabledF, Bool.and_eq_true, Option.isNone_iff_eq_none] at hen
    have hreg := hen.1.1
    have hinv : Inv fs.s := by unfold RInv at hr; rw [hreg] at hr; exact hr
    have h0 := header_LInv hinv ks
    have hL : LInv (beginRun fs.s ks fs.maxDeps) fs.s.n [] [] := by
      refine linv_of_status (s := header fs.s ks) (s' := beginRun fs.s ks fs.maxDeps) h0
        rfl rfl (fun _ => rfl) (fun _ => Iff.rfl) ?_ rfl rfl rfl rfl
      intro j hj
      show (if j = fs.s.n then (fs.maxDeps : Int) else fs.s.deps j) = fs.s.deps j
      have : j ≠ fs.s.n := by omega
      simp [this]
    refine ⟨?_, ?_⟩
    · show RegInv _ _
      refine ⟨hL, ?_, by simpa using hen.2, ?_, Or.inl rfl⟩
      · show (if fs.s.n = fs.s.n then ks else fs.s.keys fs.s.n) = [] ++ ks
        simp
      · show (if fs.s.n = fs.s.n then (fs.maxDeps : Int) else fs.s.deps fs.s.n) = _
        simp
        rfl
    · exact hq.add_waiting (s' := beginRun fs.s ks fs.maxDeps) rfl (fun _ => rfl) rfl
  | runKey =>
    cases hreg : fs.reg with
    | none => simp [isEnabledF, hreg] at hen
    | some r =>
      have hR : RegInv fs r := by unfold RInv at hr; rw [hreg] at hr; exact hr
      cases hp : r.pending with
      | nil => simp [isEnabledF, hreg, hp] at hen
      | cons kr rest =>
        simp only [isEnabledF, hreg, hp, decide_eq_true_eq] at hen
        have hkeys := hR.keys_t
        rw [hp] at hkeys
        have hnd := hR.nd
        rw [hp] at hnd
        have hL := regKey_LInv (kr := kr) hR.linv (by rw [hkeys]; simp)
          (by rw [hkeys]; exact keyUnique_of_nodup hnd) (keysNodup_split hnd)
        have hsm := regKey_same r.t (fs.s, r.ds) kr
        simp only [applyF, hreg, hp]
        refine ⟨?_, ?_⟩
        · show RegInv _ _
          refine ⟨hL, ?_, ?_, ?_, Or.inr hen⟩
          · show (regKey r.t (fs.s, r.ds) kr).1.keys r.t = (r.done ++ [kr]) ++ rest
            rw [hsm.keys, hkeys]; simp
          · show keysNodup ((r.done ++ [kr]) ++ rest) = true
            simpa using hnd
          · show CtrOk (regKey r.t (fs.s, r.ds) kr).1 r.t (regKey r.t (fs.s, r.ds) kr).2 fs.maxDeps
            unfold CtrOk
            rw [countP_exec_regKey hR.linv hL, hsm.deps]
            exact hR.ctr
        · exact hq.of_eq hsm.n hsm.status hsm.queue
  | runEnd =>
    cases hreg : fs.reg with
    | none => simp [isEnabledF, hreg] at hen
    | some r =>
      have hR : RegInv fs r := by unfold RInv at hr; rw [hreg] at hr; exact hr
      simp only [isEnabledF, hreg, List.isEmpty_iff] at hen
      have hkeys := hR.keys_t
      rw [hen, List.append_nil] at hkeys
      have hlive := live_eq_cnt hR.linv
      have hctr := hR.ctr
      unfold CtrOk at hctr
      have hd : fs.s.deps r.t - ((fs.maxDeps : Int) - (r.ds.length : Int)) = (cnt fs.s r.t : Int) := by
        omega
      simp only [applyF, hreg]
      unfold endRun
      simp only [hd]
      split
      · rename_i hpos
        refine ⟨?_, ?_⟩
        · show Inv _
          apply hR.linv.finish' hkeys <;> try rfl
          · intro j hj; simp [hj]
          · simp
          · intro j hj; rfl
          · left; exact ⟨by omega, hR.linv.st_t⟩
        · exact hq.of_eq rfl rfl rfl
      · rename_i hpos
        refine ⟨?_, ?_⟩
        · show Inv _
          apply hR.linv.finish' hkeys <;> try rfl
          · intro j hj; simp [hj]
          · simp
          · intro j hj; simp [hj]
          · right; exact ⟨by omega, by simp⟩
        · exact hq.push_last hR.linv.n_eq hR.linv.st_t rfl (fun _ => rfl) rfl
  | start j =>
    have hen' : isEnabled fs.s (.start j) = true := hen
    simp only [isEnabled, Bool.and_eq_true, beq_iff_eq, decide_eq_true_eq, Option.isNone_iff_eq_none] at hen'
    obtain ⟨hq', hjn, hjq⟩ := qinv_start hq hen'.2.1.1
    obtain ⟨e3, e3'⟩ := executed_start hjq
    refine ⟨?_, hq'⟩
    cases hreg : fs.reg with
    | none =>
      have hr : Inv fs.s := by unfold RInv at hr; rw [hreg] at hr; exact hr
      unfold RInv; simp only [applyF, hreg]
      exact inv_of_status hr rfl rfl e3 e3' rfl rfl rfl rfl rfl
    | some r =>
      have hr : RegInv fs r := by unfold RInv at hr; rw [hreg] at hr; exact hr
      unfold RInv; simp only [applyF, hreg]
      refine ⟨linv_of_status hr.linv rfl rfl e3 e3' (fun _ _ => rfl) rfl rfl rfl rfl, hr.keys_t, hr.nd, ?_, hr.bound⟩
      unfold CtrOk
      have : r.ds.countP (executed (apply fs.s (.start j))) = r.ds.countP (executed fs.s) :=
        List.countP_congr (fun x _ => by rw [e3 x])
      rw [this]; exact hr.ctr
  | stop =>
    refine ⟨?_, hq.of_eq rfl rfl rfl⟩
    cases hreg : fs.reg with
    | none =>
      have hr : Inv fs.s := by unfold RInv at hr; rw [hreg] at hr; exact hr
      unfold RInv; simp only [applyF, hreg]
      exact inv_of_status hr rfl rfl (fun _ => rfl) (fun _ => Iff.rfl) rfl rfl rfl rfl rfl
    | some r =>
      have hr : RegInv fs r := by unfold RInv at hr; rw [hreg] at hr; exact hr
      unfold RInv; simp only [applyF, hreg]
      exact ⟨linv_of_status hr.linv rfl rfl (fun _ => rfl) (fun _ => Iff.rfl) (fun _ _ => rfl) rfl rfl rfl rfl,
        hr.keys_t, hr.nd, hr.ctr, hr.bound⟩
  | wait =>
    refine ⟨?_, hq.of_eq rfl rfl rfl⟩
    cases hreg : fs.reg with
    | none =>
      have hr : Inv fs.s := by unfold RInv at hr; rw [hreg] at hr; exact hr
      unfold RInv; simp only [applyF, hreg]
      exact inv_of_status hr rfl rfl (fun _ => rfl) (fun _ => Iff.rfl) rfl rfl rfl rfl rfl
    | some r =>
      have hr : RegInv fs r := by unfold RInv at hr; rw [hreg] at hr; exact hr
      unfold RInv; simp only [applyF, hreg]
      exact ⟨linv_of_status hr.linv rfl rfl (fun _ => rfl) (fun _ => Iff.rfl) (fun _ _ => rfl) rfl rfl rfl rfl,
        hr.keys_t, hr.nd, hr.ctr, hr.bound⟩
  | finish j fail order =>
    have hen' : isEnabled fs.s (.finish j fail order) = true := hen
    simp only [isEnabled, Bool.and_eq_true, beq_iff_eq, decide_eq_true_eq, isArrangement,
      List.isPerm_iff] at hen'
    obtain ⟨_, ⟨hjn, hrun⟩, hperm⟩ := hen'
    let s1 : State := { fs.s with err := if fail then cas fs.s.err (.task j) else fs.s.err,
                                  log := .fin j fail :: fs.s.log }
    have e : apply fs.s (.finish j fail order) = complete s1 j .done order := rfl
    have hst1 : s1.status j ≠ .waiting := by show fs.s.status j ≠ .waiting; rw [hrun]; simp
    have hq' : QInv (complete s1 j .done order) := by
      apply qinv_complete (s := s1) ?_ hq.q_nd hq.hi hblk hjn (by simp) hperm
      intro x
      show x ∈ fs.s.queue ↔ x < fs.s.n ∧ fs.s.status x = .queued ∧ x ≠ j
      rw [hq.q_iff]
      constructor
      · rintro ⟨a, b⟩
        exact ⟨a, b, by intro e; subst e; rw [hrun] at b; cases b⟩
      · rintro ⟨a, b, _⟩; exact ⟨a, b⟩
    refine ⟨?_, by simp only [applyF]; rw [e]; exact hq'⟩
    cases hreg : fs.reg with
    | none =>
      have hr : Inv fs.s := by unfold RInv at hr; rw [hreg] at hr; exact hr
      unfold RInv; simp only [applyF, hreg]
      rw [e]
      have hinv1 : Inv s1 := inv_of_status hr rfl rfl (fun _ => rfl) (fun _ => Iff.rfl) rfl rfl rfl rfl rfl
      exact inv_complete hinv1 hjn hst1 (Or.inl rfl)
    | some r =>
      have hr : RegInv fs r := by unfold RInv at hr; rw [hreg] at hr; exact hr
      unfold RInv; simp only [applyF, hreg]
      rw [e]
      have hL1 : LInv s1 r.t r.done r.ds :=
        linv_of_status hr.linv rfl rfl (fun _ => rfl) (fun _ => Iff.rfl) (fun _ _ => rfl) rfl rfl rfl rfl
      obtain ⟨hL, hC⟩ := linv_complete (s := s1) (d := j) (st := .done) (order := order)
        (maxDeps := fs.maxDeps) hL1 hr.ctr hr.bound hjn (Or.inl hrun) (Or.inl rfl)
      exact ⟨hL, hr.keys_t, hr.nd, hC, hr.bound⟩
  | skip j order =>
    have hen' : isEnabled fs.s (.skip j order) = true := hen
    simp only [isEnabled, Bool.and_eq_true, beq_iff_eq, decide_eq_true_eq, isArrangement,
      List.isPerm_iff] at hen'
    obtain ⟨_, ⟨⟨hhead, _⟩, _⟩, hperm⟩ := hen'
    obtain ⟨rest, hqq⟩ := head_mem hhead
    have hjq : j < fs.s.n ∧ fs.s.status j = .queued := (hq.q_iff j).mp (by rw [hqq]; simp)
    have hnd := hq.q_nd
    rw [hqq, List.nodup_cons] at hnd
    let s1 : State := { fs.s with queue := fs.s.queue.tail, log := .skip j :: fs.s.log }
    have e : apply fs.s (.skip j order) = complete s1 j .skipped order := rfl
    have hst1 : s1.status j ≠ .waiting := by show fs.s.status j ≠ .waiting; rw [hjq.2]; simp
    have hq' : QInv (complete s1 j .skipped order) := by
      apply qinv_complete (s := s1) ?_ ?_ hq.hi hblk hjq.1 (by simp) hperm
      · intro x
        show x ∈ fs.s.queue.tail ↔ x < fs.s.n ∧ fs.s.status x = .queued ∧ x ≠ j
        rw [← and_assoc, ← hq.q_iff, hqq, List.tail_cons]
        constructor
        · intro hx
          exact ⟨List.mem_cons_of_mem _ hx, by intro e; subst e; exact hnd.1 hx⟩
        · rintro ⟨a, b⟩
          rcases List.mem_cons.mp a with a | a
          · exact absurd a b
          · exact a
      · show fs.s.queue.tail.Nodup
        rw [hqq]; exact hnd.2
    refine ⟨?_, by simp only [applyF]; rw [e]; exact hq'⟩
    cases hreg : fs.reg with
    | none =>
      have hr : Inv fs.s := by unfold RInv at hr; rw [hreg] at hr; exact hr
      unfold RInv; simp only [applyF, hreg]
      rw [e]
      have hinv1 : Inv s1 := inv_of_status hr rfl rfl (fun _ => rfl) (fun _ => Iff.rfl) rfl rfl rfl rfl rfl
      exact inv_complete hinv1 hjq.1 hst1 (Or.inr rfl)
    | some r =>
      have hr : RegInv fs r := by unfold RInv at hr; rw [hreg] at hr; exact hr
      unfold RInv; simp only [applyF, hreg]
      rw [e]
      have hL1 : LInv s1 r.t r.done r.ds :=
        linv_of_status hr.linv rfl rfl (fun _ => rfl) (fun _ => Iff.rfl) (fun _ _ => rfl) rfl rfl rfl rfl
      obtain ⟨hL, hC⟩ := linv_complete (s := s1) (d := j) (st := .skipped) (order := order)
        (maxDeps := fs.maxDeps) hL1 hr.ctr hr.bound hjq.1 (Or.inr hjq.2) (Or.inr rfl)
      exact ⟨hL, hr.keys_t, hr.nd, hC, hr.bound⟩

theorem finv_reachable {w m : Nat} {fs : FState} (hr : ReachableF w m fs) : FInv fs := by
  induction hr with
  | init => exact finv_init w m
  | step st _ hen ih => exact finv_step ih hen

end HyperModel.Executor
