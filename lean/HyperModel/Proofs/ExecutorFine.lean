import HyperModel.Proofs.Executor
import HyperModel.Model.ExecutorFine
/-! Invariant of the finer executor relation (`Run` interleaved with completions). -/
namespace HyperModel.Executor

/-- `LInv` only reads n, keys, deps below `t`, blocked, readers, reading, nodes and, of
`status`, which tasks are executed / waiting. -/
theorem linv_of_status {s s' : State} {t : Nat} {pre : List KeyReq} {ds : List Nat}
    (h : LInv s t pre ds) (e1 : s'.n = s.n) (e2 : s'.keys = s.keys)
    (e3 : ∀ x, executed s' x = executed s x)
    (e3e : ∀ x, ended s x = true → ended s' x = true)
    (e3' : ∀ x, s'.status x = .waiting ↔ s.status x = .waiting)
    (e4 : ∀ j, j < t → s'.deps j = s.deps j) (e5 : s'.blocked = s.blocked) (e6 : s'.readers = s.readers)
    (e7 : s'.reading = s.reading) (e8 : s'.nodes = s.nodes) : LInv s' t pre ds := by
  have hch : ∀ i j, Chain s i j → Chain s' i j :=
    fun i j c => Chain.mono (s := s) (s' := s') (fun _ _ hb => by rw [e5]; exact hb) c
  have hcnt : ∀ j, cnt s' j = cnt s j := by intro j; unfold cnt; rw [e1, e5]
  refine ⟨by rw [e1]; exact h.n_eq, (e3' t).mpr h.st_t, ?_, ?_, ?_, ?_, ?_, ?_, ?_, h.dsnd, ?_, ?_⟩
  · intro d j hb
    rw [e5] at hb
    obtain ⟨h1, h2, h3, h4⟩ := h.blk d j hb
    exact ⟨h1, by rw [e1]; exact h2, by rw [e3]; exact h3, (e3' j).mpr h4⟩
  · intro o r hr
    rw [e6] at hr
    obtain ⟨h1, h2, h3, h4⟩ := h.rdr o r hr
    exact ⟨h1, by rw [e1]; exact h2, by rw [e3]; exact h3, by rw [e7]; exact h4⟩
  · intro j hj hw
    rw [hcnt, e4 j hj]
    exact h.cntlt j hj ((e3' j).mp hw)
  · intro i j hij hj hc
    rw [e2] at hc
    rcases h.safe i j hij hj hc with a | a
    · exact Or.inl (e3e _ a)
    · exact Or.inr (hch _ _ a)
  · intro i hi x hx y hy hk hr
    rw [e2] at hx
    rcases h.newsafe i hi x hx y hy hk hr with a | a
    · exact Or.inl (e3e _ a)
    · exact Or.inr (hch _ _ a)
  · intro k o hk
    rw [e8] at hk
    obtain ⟨h1, h2, h3⟩ := h.own k o hk
    refine ⟨by rw [e1]; exact h1, h2, ?_⟩
    intro i rd hi hm hio
    rw [e2] at hm; rw [e1] at hi; rw [e6]
    rcases h3 i rd hi hm hio with a | a | a | a
    · exact Or.inl a
    · exact Or.inr (Or.inl (e3e _ a))
    · exact Or.inr (Or.inr (Or.inl (hch _ _ a)))
    · exact Or.inr (Or.inr (Or.inr a))
  · intro k hk i rd hi hm
    rw [e8] at hk; rw [e2] at hm; rw [e1] at hi
    exact h.free k hk i rd hi hm
  · intro d hb; rw [e5] at hb; exact h.ds_sup d hb
  · intro d hd hne; rw [e5]; rw [e3] at hne; exact h.ds_live d hd hne

/-- the counter of the task being registered: `maxDependencies` minus the notifications it
has received so far (dependencies that have completed in the meantime) -/
def CtrOk (s : State) (t : Nat) (ds : List Nat) (maxDeps : Nat) : Prop :=
  s.deps t = (maxDeps : Int) - ((ds.countP (executed s) : Nat) : Int)

theorem countP_lt_of_mem {l : List Nat} {p : Nat → Bool} {d : Nat} (hd : d ∈ l) (hp : p d = false) :
    l.countP p < l.length := by
  have h1 := List.countP_le_length (p := p) (l := l)
  have h2 : l.countP p ≠ l.length := by
    intro e
    have := List.countP_eq_length.mp e d hd
    rw [hp] at this; cases this
  omega

/-- Completion of a task `d` while task `t` is being registered. -/
theorem linv_complete {s : State} {d : Nat} {st : Status} {order : List Nat} {t : Nat}
    {pre : List KeyReq} {ds : List Nat} {maxDeps : Nat} (h : LInv s t pre ds)
    (hctr : CtrOk s t ds maxDeps) (hbound : ds = [] ∨ ds.length < maxDeps)
    (hd : d < s.n) (hst : s.status d ≠ .waiting) (hexd0 : executed s d = false)
    (hex : st = .done ∨ st = .skipped) :
    LInv (complete s d st order) t pre ds ∧ CtrOk (complete s d st order) t ds maxDeps := by
  have hdt : d ≠ t := by intro e; subst e; exact hst h.st_t
  have hfree : ∀ x, s.blocked x d = false := by
    intro x
    cases hb : s.blocked x d with
    | false => rfl
    | true => exact absurd (h.blk x d hb).2.2.2 hst
  have hexd : executed (complete s d st order) d = true := by
    rw [executed_iff, complete_status]; simpa using hex
  -- t is not sent early: its counter stays positive
  have ht_keep : ¬ ((s.blocked d t && decide (s.deps t - 1 ≤ 0)) = true) := by
    intro hc
    simp only [Bool.and_eq_true, decide_eq_true_eq] at hc
    have hmem := h.ds_sup d hc.1
    have hlt := countP_lt_of_mem (p := executed s) hmem hexd0
    have hb : ds.length < maxDeps := by
      rcases hbound with e | e
      · rw [e] at hmem; cases hmem
      · exact e
    unfold CtrOk at hctr
    omega
  have hstat_t : (complete s d st order).status t = .waiting := by
    rw [complete_status]; simp only [hdt.symm, if_false, ht_keep]; exact h.st_t
  have hexmono : ∀ i, executed s i = true → executed (complete s d st order) i = true := by
    intro i hi
    rw [executed_iff] at hi ⊢
    rw [complete_status]
    by_cases hid : i = d
    · simpa [hid] using hex
    · have : s.blocked d i = false := by
        cases hb : s.blocked d i with
        | false => rfl
        | true =>
          have := (h.blk d i hb).2.2.2
          rcases hi with hi | hi <;> rw [hi] at this <;> cases this
      simpa [hid, this] using hi
  have hexkeep : ∀ i, i ≠ d → executed s i = false → executed (complete s d st order) i = false := by
    intro i hid hi
    rw [executed_false_iff] at hi ⊢
    rw [complete_status]
    simp only [hid, if_false]
    split <;> simp [hi.1, hi.2]
  have hendmono : ∀ i, ended s i = true → ended (complete s d st order) i = true := by
    intro i hi
    by_cases hid : i = d
    · rw [hid]; exact ended_of_executed hexd
    · have hnw : s.status i ≠ .waiting := by
        intro e; unfold ended at hi; rw [e] at hi; cases hi
      have : s.blocked d i = false := by
        cases hb : s.blocked d i with
        | false => rfl
        | true => exact absurd (h.blk d i hb).2.2.2 hnw
      unfold ended at hi ⊢
      rw [complete_status]
      simpa [hid, this] using hi
  have hchain : ∀ i j, i ≠ d → Chain s i j → Chain (complete s d st order) i j := by
    intro i j hi c
    refine c.remove_row (d0 := d) ?_ hfree hi
    intro x j hx hb
    simp [complete_blocked, hx, hb]
  refine ⟨⟨h.n_eq, hstat_t, ?_, ?_, ?_, ?_, ?_, ?_, h.free, h.dsnd, ?_, ?_⟩, ?_⟩
  · -- blk
    intro x j hb
    rw [complete_blocked] at hb
    by_cases hx : x = d
    · simp [hx] at hb
    · simp only [hx, if_false] at hb
      obtain ⟨h1, h2, h3, h4⟩ := h.blk x j hb
      refine ⟨h1, h2, hexkeep x hx h3, ?_⟩
      by_cases hjt : j = t
      · subst hjt; exact hstat_t
      · rw [complete_status]
        have hjd : j ≠ d := by intro hjd; subst hjd; exact hst h4
        simp only [hjd, if_false]
        by_cases hbd : s.blocked d j = true
        · have hjlt : j < t := by have := h.n_eq; omega
          have hc := (h.cntlt j hjlt h4).1
          have h2' : 2 ≤ cnt s j := by
            have := countP_remove (l := List.range s.n) (p := fun y => s.blocked y j) (d := d)
              List.nodup_range (List.mem_range.mpr hd) hbd
            have hpos : 0 < (List.range s.n).countP (fun y => (y != d) && s.blocked y j) := by
              apply List.countP_pos_iff.mpr
              exact ⟨x, List.mem_range.mpr (by omega), by simp [hx, hb]⟩
            unfold cnt; omega
          have : ¬ (s.deps j - 1 ≤ 0) := by omega
          simp [hbd, this, h4]
        · simp [hbd, h4]
  · -- rdr
    intro o r hr
    have hr' : (if r = d ∧ o ∈ s.reading d then false else s.readers o r) = true := hr
    by_cases hrd : r = d
    · subst hrd
      by_cases ho : o ∈ s.reading r
      · simp [ho] at hr'
      · simp only [ho, and_false, if_false] at hr'
        exact absurd (h.rdr o r hr').2.2.2 ho
    · simp only [hrd, false_and, if_false] at hr'
      obtain ⟨h1, h2, h3, h4⟩ := h.rdr o r hr'
      refine ⟨h1, h2, hexkeep r hrd h3, ?_⟩
      show o ∈ (if r = d then [] else s.reading r)
      simpa [hrd] using h4
  · -- cntlt
    intro j hj hw
    rw [complete_status] at hw
    by_cases hjd : j = d
    · subst hjd; simp at hw; rcases hex with rfl | rfl <;> cases hw
    · simp only [hjd, if_false] at hw
      rw [cnt_complete]
      show (if s.blocked d j then s.deps j - 1 else s.deps j) = _ ∧ _
      by_cases hbd : s.blocked d j = true
      · have hw0 := (h.blk d j hbd).2.2.2
        have hc := h.cntlt j hj hw0
        have := countP_remove (l := List.range s.n) (p := fun y => s.blocked y j) (d := d)
          List.nodup_range (List.mem_range.mpr hd) hbd
        by_cases hle : s.deps j - 1 ≤ 0
        · simp [hbd, hle] at hw
        · simp only [hbd, if_true]
          unfold cnt at hc
          omega
      · have hbd' : s.blocked d j = false := by simpa using hbd
        simp only [hbd', Bool.false_and, Bool.false_eq_true, if_false] at hw
        have hc := h.cntlt j hj hw
        have := countP_same (l := List.range s.n) (p := fun y => s.blocked y j) (d := d) hbd'
        simp only [hbd', Bool.false_eq_true, if_false]
        unfold cnt at hc
        omega
  · -- safe
    intro i j hij hj hc
    by_cases hid : i = d
    · left; rw [hid]; exact ended_of_executed hexd
    · rcases h.safe i j hij hj hc with he | hch
      · left; exact hendmono i he
      · right; exact hchain i j hid hch
  · -- newsafe
    intro i hi x hx y hy hk hr
    by_cases hid : i = d
    · left; rw [hid]; exact ended_of_executed hexd
    · rcases h.newsafe i hi x hx y hy hk hr with he | hch
      · left; exact hendmono i he
      · right; exact hchain i t hid hch
  · -- own
    intro k o hk
    obtain ⟨ho, h2, hrest⟩ := h.own k o hk
    refine ⟨ho, h2, ?_⟩
    intro i rd hi hmem hio
    by_cases hid : i = d
    · right; left; rw [hid]; exact ended_of_executed hexd
    · rcases hrest i rd hi hmem hio with a | he | hch | ⟨hrd, hr⟩
      · exact Or.inl a
      · right; left; exact hendmono i he
      · right; right; left; exact hchain i o hid hch
      · right; right; right
        refine ⟨hrd, ?_⟩
        show (if i = d ∧ o ∈ s.reading d then false else s.readers o i) = true
        simp [hid, hr]
  · -- ds_sup
    intro x hb
    rw [complete_blocked] at hb
    by_cases hx : x = d
    · simp [hx] at hb
    · simp only [hx, if_false] at hb; exact h.ds_sup x hb
  · -- ds_live
    intro x hx hne
    have hxd : x ≠ d := by intro e; subst e; rw [hexd] at hne; cases hne
    have hne0 : executed s x = false := by
      cases he : executed s x with
      | false => rfl
      | true => rw [hexmono x he] at hne; cases hne
    rw [complete_blocked]; simp only [hxd, if_false]
    exact h.ds_live x hx hne0
  · -- counter
    unfold CtrOk at hctr ⊢
    show (if s.blocked d t then s.deps t - 1 else s.deps t) = _
    have hcongr : ds.countP (fun x => (x != d) && executed (complete s d st order) x) =
        ds.countP (fun x => (x != d) && executed s x) := by
      apply List.countP_congr
      intro x _
      by_cases hx : x = d
      · simp [hx]
      · cases he : executed s x with
        | true => simp [hx, hexmono x he]
        | false => simp [hx, hexkeep x hx he]
    have hsame := countP_same (l := ds) (p := executed s) (d := d) hexd0
    by_cases hbd : s.blocked d t = true
    · have hmem := h.ds_sup d hbd
      have hrem := countP_remove (l := ds) (p := executed (complete s d st order)) (d := d)
        h.dsnd hmem hexd
      simp only [hbd, if_true]
      omega
    · have hbd' : s.blocked d t = false := by simpa using hbd
      simp only [hbd', Bool.false_eq_true, if_false]
      by_cases hmem : d ∈ ds
      · exact absurd (h.ds_live d hmem hexd0) hbd
      · have : ds.countP (executed (complete s d st order)) = ds.countP (executed s) := by
          apply List.countP_congr
          intro x hx
          have hxd : x ≠ d := fun e => hmem (e ▸ hx)
          cases he : executed s x with
          | true => simp [hexmono x he]
          | false => simp [hexkeep x hxd he]
        rw [this]; exact hctr

/-- end of `Run`, stated with the number of live blockers instead of `|dependencies|` -/
theorem LInv.finish' {s1 : State} {t : Nat} {ks : List KeyReq} {ds : List Nat}
    (h : LInv s1 t ks ds) (hkeys : s1.keys t = ks) (s2 : State)
    (e_n : s2.n = s1.n) (e_keys : s2.keys = s1.keys) (e_bl : s2.blocked = s1.blocked)
    (e_rd : s2.readers = s1.readers) (e_rg : s2.reading = s1.reading) (e_nd : s2.nodes = s1.nodes)
    (e_deps : ∀ j, j ≠ t → s2.deps j = s1.deps j) (e_dt : s2.deps t = (cnt s1 t : Int))
    (e_st : ∀ j, j ≠ t → s2.status j = s1.status j)
    (e_stt : (0 < cnt s1 t ∧ s2.status t = .waiting) ∨ (cnt s1 t = 0 ∧ s2.status t = .queued)) :
    Inv s2 := by
  have hexe : ∀ i, executed s2 i = executed s1 i := by
    intro i
    by_cases hi : i = t
    · subst hi
      have : executed s1 i = false := by rw [executed_false_iff, h.st_t]; simp
      rw [this, executed_false_iff]
      rcases e_stt with a | a <;> rw [a.2] <;> simp
    · simp [executed, e_st i hi]
  have hende : ∀ i, ended s2 i = ended s1 i := by
    intro i
    by_cases hi : i = t
    · subst hi
      unfold ended
      rw [h.st_t]
      rcases e_stt with a | a <;> rw [a.2]
    · simp [ended, e_st i hi]
  have hch : ∀ i j, Chain s1 i j → Chain s2 i j :=
    fun i j c => Chain.mono (s := s1) (s' := s2) (fun _ _ hb => by rw [e_bl]; exact hb) c
  have hcnt : ∀ j, cnt s2 j = cnt s1 j := by intro j; unfold cnt; rw [e_n, e_bl]
  constructor
  · intro d j hb
    rw [e_bl] at hb
    obtain ⟨h1, h2, h3, h4⟩ := h.blk d j hb
    refine ⟨h1, by rw [e_n]; exact h2, by rw [hexe]; exact h3, ?_⟩
    by_cases hj : j = t
    · subst hj
      rcases e_stt with a | a
      · exact a.2
      · have : 0 < cnt s1 j := by
          unfold cnt
          apply List.countP_pos_iff.mpr
          exact ⟨d, List.mem_range.mpr (by omega), hb⟩
        omega
    · rw [e_st j hj]; exact h4
  · intro j hj hw
    rw [hcnt]
    by_cases hjt : j = t
    · subst hjt
      rcases e_stt with a | a
      · exact ⟨e_dt, a.1⟩
      · rw [a.2] at hw; cases hw
    · rw [e_deps j hjt]
      rw [e_st j hjt] at hw
      exact h.cntlt j (by have := h.n_eq; rw [e_n] at hj; omega) hw
  · intro o r hr
    rw [e_rd] at hr
    obtain ⟨h1, h2, h3, h4⟩ := h.rdr o r hr
    exact ⟨h1, by rw [e_n]; exact h2, by rw [hexe]; exact h3, by rw [e_rg]; exact h4⟩
  · intro i j hij hj hc
    rw [e_keys] at hc
    rw [hende]
    by_cases hjt : j = t
    · subst hjt
      rw [conflictKeys_iff] at hc
      obtain ⟨x, hx, y, hy, hk, hr⟩ := hc
      rw [hkeys] at hy
      rcases h.newsafe i hij x hx y hy hk hr with a | a
      · exact Or.inl a
      · exact Or.inr (hch _ _ a)
    · rcases h.safe i j hij (by have := h.n_eq; rw [e_n] at hj; omega) hc with a | a
      · exact Or.inl a
      · exact Or.inr (hch _ _ a)
  · intro k o hk
    rw [e_nd] at hk
    obtain ⟨h1, _, h3⟩ := h.own k o hk
    refine ⟨by rw [e_n]; exact h1, ?_⟩
    intro i rd hi hm hio
    rw [e_keys] at hm
    rw [e_n] at hi
    rw [hende, e_rd]
    rcases h3 i rd hi hm hio with a | a | a | a
    · exfalso
      obtain ⟨rfl, a2⟩ := a
      rw [hkeys] at hm
      exact a2 ⟨_, hm, rfl⟩
    · exact Or.inl a
    · exact Or.inr (Or.inl (hch _ _ a))
    · exact Or.inr (Or.inr a)
  · intro k hk i rd hi hm
    rw [e_nd] at hk
    rw [e_keys] at hm
    rw [e_n] at hi
    obtain ⟨rfl, a2⟩ := h.free k hk i rd hi hm
    rw [hkeys] at hm
    exact a2 ⟨_, hm, rfl⟩

/-- the dependencies that have not completed yet are exactly the current blockers -/
theorem live_eq_cnt {s : State} {t : Nat} {pre : List KeyReq} {ds : List Nat}
    (h : LInv s t pre ds) : ds.length = ds.countP (executed s) + cnt s t := by
  rw [List.length_eq_countP_add_countP (executed s)]
  congr 1
  unfold cnt
  rw [List.countP_eq_length_filter, List.countP_eq_length_filter]
  apply List.Perm.length_eq
  rw [List.perm_ext_iff_of_nodup (h.dsnd.filter _) (List.nodup_range.filter _)]
  intro d
  simp only [List.mem_filter, List.mem_range, decide_eq_true_eq, Bool.not_eq_true]
  constructor
  · rintro ⟨hd, hne⟩
    have hb := h.ds_live d hd hne
    exact ⟨by have := (h.blk d t hb); omega, hb⟩
  · rintro ⟨_, hb⟩
    exact ⟨h.ds_sup d hb, (h.blk d t hb).2.2.1⟩

theorem regKey_ds_mono (t : Nat) (s : State) (ds : List Nat) (kr : KeyReq) :
    ∀ d ∈ ds, d ∈ (regKey t (s, ds) kr).2 := by
  intro d hd
  unfold regKey
  dsimp only
  split
  · exact hd
  · rename_i lt hn
    have hrs : ∀ rs : List Nat, d ∈ insAll rs ds := fun rs => mem_insAll.mpr (Or.inr hd)
    by_cases hr : kr.read = true
    · simp only [hr, if_true]
      split
      · exact hd
      · exact mem_ins.mpr (Or.inr hd)
    · have hr' : kr.read = false := by simpa using hr
      simp only [hr', Bool.false_eq_true, if_false]
      split
      · exact hrs _
      · exact mem_ins.mpr (Or.inr (hrs _))

theorem keysNodup_split {a : List KeyReq} {x : KeyReq} {b : List KeyReq}
    (h : keysNodup (a ++ x :: b) = true) : ∀ y ∈ a, y.key ≠ x.key := by
  induction a with
  | nil => intro y hy; cases hy
  | cons c a ih =>
    simp only [List.cons_append, keysNodup, Bool.and_eq_true, Bool.not_eq_true', List.any_eq_false,
      beq_iff_eq] at h
    intro y hy
    rcases List.mem_cons.mp hy with rfl | hy
    · exact fun e => h.1 x (by simp) e.symm
    · exact ih h.2 y hy

/-- state of the goroutine calling `Run`, between two of its critical sections -/
structure RegInv (fs : FState) (r : Reg) : Prop where
  linv : LInv fs.s r.t r.done r.ds
  keys_t : fs.s.keys r.t = r.done ++ r.pending
  nd : keysNodup (r.done ++ r.pending) = true
  ctr : CtrOk fs.s r.t r.ds fs.maxDeps
  bound : r.ds = [] ∨ r.ds.length < fs.maxDeps

def RInv (fs : FState) : Prop :=
  match fs.reg with
  | none => Inv fs.s
  | some r => RegInv fs r

structure FInv (fs : FState) : Prop where
  r : RInv fs
  q : QInv fs.s

theorem finv_init (w m : Nat) : FInv (fInit w m) :=
  ⟨inv_init w, (full_init w).q⟩

theorem beginRun_eq (s : State) (ks : List KeyReq) (m : Nat) :
    beginRun s ks m = { header s ks with deps := fun x => if x = s.n then (m : Int) else s.deps x } := rfl

/-- shared `blk` fact of both shapes of the invariant -/
theorem RInv.blk {fs : FState} (h : RInv fs) : ∀ d j, fs.s.blocked d j = true →
    d < j ∧ j < fs.s.n ∧ executed fs.s d = false ∧ fs.s.status j = .waiting := by
  unfold RInv at h
  split at h
  · exact h.blk
  · exact h.linv.blk

theorem countP_exec_regKey {s : State} {t : Nat} {pre pre' : List KeyReq} {ds : List Nat} {kr : KeyReq}
    (h : LInv s t pre ds) (h' : LInv (regKey t (s, ds) kr).1 t pre' (regKey t (s, ds) kr).2) :
    (regKey t (s, ds) kr).2.countP (executed (regKey t (s, ds) kr).1) = ds.countP (executed s) := by
  have hsm := regKey_same t (s, ds) kr
  have hex : executed (regKey t (s, ds) kr).1 = executed s := by
    funext d; exact executed_same hsm d
  rw [hex, List.countP_eq_length_filter, List.countP_eq_length_filter]
  apply List.Perm.length_eq
  rw [List.perm_ext_iff_of_nodup (h'.dsnd.filter _) (h.dsnd.filter _)]
  intro d
  simp only [List.mem_filter]
  constructor
  · rintro ⟨hd, hp⟩
    rcases regKey_ds_sub h kr d hd with a | a
    · exact ⟨a, hp⟩
    · rw [a] at hp; cases hp
  · rintro ⟨hd, hp⟩
    exact ⟨regKey_ds_mono t s ds kr d hd, hp⟩

/-- transfer of `QInv` between states with the same n / status / queue -/
theorem QInv.of_eq {s s' : State} (h : QInv s) (e1 : s'.n = s.n) (e2 : s'.status = s.status)
    (e3 : s'.queue = s.queue) : QInv s' :=
  ⟨by intro j; rw [e1, e2, e3]; exact h.q_iff j, by rw [e3]; exact h.q_nd,
   by intro j hj; rw [e2]; rw [e1] at hj; exact h.hi j hj⟩

/-- a new task id `t = n` enters as waiting -/
theorem QInv.add_waiting {s s' : State} (h : QInv s) (e1 : s'.n = s.n + 1)
    (e2 : ∀ x, s'.status x = if x = s.n then .waiting else s.status x) (e3 : s'.queue = s.queue) :
    QInv s' := by
  have hnq : s.n ∉ s.queue := fun hm => by have := (h.q_iff s.n).mp hm; omega
  refine ⟨?_, by rw [e3]; exact h.q_nd, ?_⟩
  · intro j
    rw [e1, e2, e3]
    by_cases hj : j = s.n
    · subst hj; simp [hnq]
    · simp only [hj, if_false]
      rw [h.q_iff]
      constructor
      · rintro ⟨a, b⟩; exact ⟨by omega, b⟩
      · rintro ⟨a, b⟩; exact ⟨by omega, b⟩
  · intro j hj
    rw [e1] at hj
    rw [e2]
    have : j ≠ s.n := by omega
    simp only [this, if_false]
    exact h.hi j (by omega)

/-- the waiting task `t` (the last id) is sent to the channel -/
theorem QInv.push_last {s s' : State} {t : Nat} (h : QInv s) (hn : s.n = t + 1)
    (ht : s.status t = .waiting) (e1 : s'.n = s.n)
    (e2 : ∀ x, s'.status x = if x = t then .queued else s.status x)
    (e3 : s'.queue = s.queue ++ [t]) : QInv s' := by
  have hnq : t ∉ s.queue := fun hm => by have := ((h.q_iff t).mp hm).2; rw [ht] at this; cases this
  refine ⟨?_, ?_, ?_⟩
  · intro j
    rw [e1, e2, e3, List.mem_append, h.q_iff]
    by_cases hj : j = t
    · subst hj; simp; omega
    · simp [hj]
  · rw [e3, List.nodup_append]
    refine ⟨h.q_nd, by simp, ?_⟩
    intro a ha b hb
    simp only [List.mem_singleton] at hb
    subst hb; intro e; subst e; exact hnq ha
  · intro j hj
    rw [e1] at hj
    rw [e2]
    have : j ≠ t := by omega
    simp only [this, if_false]
    exact h.hi j hj


/-! ## The steps of `runTask` -/

/-- changes of `status` (and of err / log / waited / queue) that keep `executed` and
"waiting" pointwise and can only make more tasks `ended` -/
theorem rinv_status {fs : FState} {s' : State} (h : RInv fs) (e1 : s'.n = fs.s.n)
    (e2 : s'.keys = fs.s.keys) (e3 : ∀ x, executed s' x = executed fs.s x)
    (e3e : ∀ x, ended fs.s x = true → ended s' x = true)
    (e3' : ∀ x, s'.status x = .waiting ↔ fs.s.status x = .waiting)
    (e4 : s'.deps = fs.s.deps) (e5 : s'.blocked = fs.s.blocked) (e6 : s'.readers = fs.s.readers)
    (e7 : s'.reading = fs.s.reading) (e8 : s'.nodes = fs.s.nodes) :
    RInv { fs with s := s' } := by
  unfold RInv at h ⊢
  cases hreg : fs.reg with
  | none =>
    rw [hreg] at h
    simp only [hreg]
    exact inv_of_status h e1 e2 e3 e3e e3' e4 e5 e6 e7 e8
  | some r =>
    rw [hreg] at h
    simp only [hreg]
    refine ⟨linv_of_status h.linv e1 e2 e3 e3e e3' (fun j _ => by rw [e4]) e5 e6 e7 e8,
      by show s'.keys r.t = _; rw [e2]; exact h.keys_t, h.nd, ?_, h.bound⟩
    show CtrOk s' r.t r.ds fs.maxDeps
    unfold CtrOk
    have : r.ds.countP (executed s') = r.ds.countP (executed fs.s) :=
      List.countP_congr (fun x _ => by rw [e3 x])
    rw [this, e4]; exact h.ctr

/-- `delete(o.readers, j)` under `o.l` -/
def deregS (s : State) (j o : Nat) : State :=
  { s with
    readers := fun o' r => if o' = o ∧ r = j then false else s.readers o' r
    reading := fun x => if x = j then (s.reading j).filter (· != o) else s.reading x }

theorem chain_dereg {s : State} {j o a b : Nat} (c : Chain s a b) : Chain (deregS s j o) a b :=
  Chain.mono (s := s) (s' := deregS s j o) (fun _ _ hb => hb) c

theorem rdr_dereg {s : State} {j o : Nat}
    (hr : ∀ o' r, s.readers o' r = true → o' < r ∧ r < s.n ∧ executed s r = false ∧ o' ∈ s.reading r) :
    ∀ o' r, (deregS s j o).readers o' r = true →
      o' < r ∧ r < (deregS s j o).n ∧ executed (deregS s j o) r = false ∧ o' ∈ (deregS s j o).reading r := by
  intro o' r h
  have h' : (if o' = o ∧ r = j then false else s.readers o' r) = true := h
  by_cases hc : o' = o ∧ r = j
  · simp [hc] at h'
  · simp only [hc, if_false] at h'
    obtain ⟨h1, h2, h3, h4⟩ := hr o' r h'
    refine ⟨h1, h2, h3, ?_⟩
    show o' ∈ (if r = j then (s.reading j).filter (· != o) else s.reading r)
    by_cases hrj : r = j
    · subst hrj
      have : o' ≠ o := fun e => hc ⟨e, rfl⟩
      simp [List.mem_filter, h4, this]
    · simp [hrj, h4]

theorem inv_dereg {s : State} {j o : Nat} (h : Inv s) (hend : ended s j = true) :
    Inv (deregS s j o) := by
  refine ⟨h.blk, h.cnt, rdr_dereg h.rdr, ?_, ?_, h.free⟩
  · intro a b hab hb hc
    rcases h.safe a b hab hb hc with x | x
    · exact Or.inl x
    · exact Or.inr (chain_dereg x)
  · intro k ow hk
    obtain ⟨h1, h3⟩ := h.own k ow hk
    refine ⟨h1, ?_⟩
    intro i rd hi hm hio
    rcases h3 i rd hi hm hio with x | x | x
    · exact Or.inl x
    · exact Or.inr (Or.inl (chain_dereg x))
    · by_cases hc : ow = o ∧ i = j
      · left; rw [hc.2]; exact hend
      · right; right
        refine ⟨x.1, ?_⟩
        show (if ow = o ∧ i = j then false else s.readers ow i) = true
        simp [hc, x.2]

theorem linv_dereg {s : State} {j o t : Nat} {pre : List KeyReq} {ds : List Nat}
    (h : LInv s t pre ds) (hend : ended s j = true) : LInv (deregS s j o) t pre ds := by
  refine ⟨h.n_eq, h.st_t, h.blk, rdr_dereg h.rdr, h.cntlt, ?_, ?_, ?_, h.free, h.dsnd, h.ds_sup, h.ds_live⟩
  · intro a b hab hb hc
    rcases h.safe a b hab hb hc with x | x
    · exact Or.inl x
    · exact Or.inr (chain_dereg x)
  · intro i hi x hx y hy hk hr
    rcases h.newsafe i hi x hx y hy hk hr with z | z
    · exact Or.inl z
    · exact Or.inr (chain_dereg z)
  · intro k ow hk
    obtain ⟨h1, h2, h3⟩ := h.own k ow hk
    refine ⟨h1, h2, ?_⟩
    intro i rd hi hm hio
    rcases h3 i rd hi hm hio with x | x | x | x
    · exact Or.inl x
    · exact Or.inr (Or.inl x)
    · exact Or.inr (Or.inr (Or.inl (chain_dereg x)))
    · by_cases hc : ow = o ∧ i = j
      · right; left; rw [hc.2]; exact hend
      · right; right; right
        refine ⟨x.1, ?_⟩
        show (if ow = o ∧ i = j then false else s.readers ow i) = true
        simp [hc, x.2]

/-- a status change at one registered, non-queued, non-waiting task to another non-queued,
non-waiting status -/
theorem QInv.set_status {s s' : State} {j : Nat} {v : Status} (h : QInv s) (hj : s.status j ≠ .queued)
    (hjw : s.status j ≠ .waiting) (hv : v ≠ .queued) (e1 : s'.n = s.n)
    (e2 : ∀ x, s'.status x = if x = j then v else s.status x) (e3 : s'.queue = s.queue) : QInv s' := by
  have hjn : j < s.n := by
    apply Classical.byContradiction
    intro hlt; exact hjw (h.hi j (by omega))
  refine ⟨?_, by rw [e3]; exact h.q_nd, ?_⟩
  · intro x
    rw [e1, e2, e3, h.q_iff]
    by_cases hx : x = j
    · subst hx; simp [hj, hv]
    · simp [hx]
  · intro x hx
    rw [e1] at hx
    rw [e2]
    have : x ≠ j := by omega
    simp only [this, if_false]; exact h.hi x hx

/-- `<-e.executable` -/
theorem QInv.pop {s s' : State} {j : Nat} {v : Status} (h : QInv s) (hhead : s.queue.head? = some j)
    (hv : v ≠ .queued) (e1 : s'.n = s.n)
    (e2 : ∀ x, s'.status x = if x = j then v else s.status x) (e3 : s'.queue = s.queue.tail) :
    QInv s' ∧ j < s.n ∧ s.status j = .queued := by
  obtain ⟨rest, hq⟩ := head_mem hhead
  have hjq : j < s.n ∧ s.status j = .queued := (h.q_iff j).mp (by rw [hq]; simp)
  have hnd := h.q_nd
  rw [hq, List.nodup_cons] at hnd
  refine ⟨⟨?_, ?_, ?_⟩, hjq⟩
  · intro x
    rw [e1, e2, e3, hq, List.tail_cons]
    by_cases hx : x = j
    · subst hx; simp [hnd.1, hv]
    · simp only [hx, if_false]
      rw [← h.q_iff x, hq]; simp [hx]
  · rw [e3, hq]; exact hnd.2
  · intro x hx
    rw [e1] at hx
    rw [e2]
    have : x ≠ j := by have := hjq.1; omega
    simp only [this, if_false]
    exact h.hi x hx

def isMid : Status → Bool
  | .queued => true
  | .dequeued => true
  | .running => true
  | .ending _ => true
  | _ => false

def isEnding : Status → Bool
  | .ending _ => true
  | _ => false

/-- facts about a status change at `j` from `a` to `b`, both between "queued" and "ending" -/
theorem status_change_facts {s s' : State} {j : Nat} {a b : Status} (hs : s.status j = a)
    (e2 : ∀ x, s'.status x = if x = j then b else s.status x)
    (ha : isMid a = true) (hb : isMid b = true) (hend : isEnding a = true → isEnding b = true) :
    (∀ x, executed s' x = executed s x) ∧ (∀ x, ended s x = true → ended s' x = true) ∧
    (∀ x, s'.status x = .waiting ↔ s.status x = .waiting) := by
  refine ⟨?_, ?_, ?_⟩
  · intro x
    rw [Bool.eq_iff_iff, executed_iff, executed_iff, e2]
    by_cases hx : x = j
    · subst hx; rw [hs]; simp only [if_true]
      cases a <;> cases b <;> simp_all [isMid]
    · simp [hx]
  · intro x hx
    unfold ended at hx ⊢
    rw [e2]
    by_cases hxj : x = j
    · subst hxj
      rw [hs] at hx
      simp only [if_true]
      cases a <;> cases b <;> simp_all [isMid, isEnding]
    · simpa [hxj] using hx
  · intro x
    rw [e2]
    by_cases hx : x = j
    · subst hx; rw [hs]; simp only [if_true]
      cases a <;> cases b <;> simp_all [isMid]
    · simp [hx]

theorem finv_step {fs : FState} {st : FStep} (h : FInv fs) (hen : isEnabledF fs st = true) :
    FInv (applyF fs st) := by
  obtain ⟨hr, hq⟩ := h
  have hblk := hr.blk
  cases st with
  | runBegin ks =>
    simp only [isEnabledF, Bool.and_eq_true, Option.isNone_iff_eq_none] at hen
    have hreg := hen.1.1
    have hinv : Inv fs.s := by unfold RInv at hr; rw [hreg] at hr; exact hr
    have h0 := header_LInv hinv ks
    have hL : LInv (beginRun fs.s ks fs.maxDeps) fs.s.n [] [] := by
      refine linv_of_status (s := header fs.s ks) (s' := beginRun fs.s ks fs.maxDeps) h0
        rfl rfl (fun _ => rfl) (fun _ hx => hx) (fun _ => Iff.rfl) ?_ rfl rfl rfl rfl
      intro j hj
      show (if j = fs.s.n then (fs.maxDeps : Int) else fs.s.deps j) = fs.s.deps j
      have : j ≠ fs.s.n := by omega
      simp [this]
    refine ⟨?_, ?_⟩
    · show RegInv _ _
      refine ⟨hL, ?_, by simpa using hen.2, ?_, Or.inl rfl⟩
      · show (if fs.s.n = fs.s.n then ks else fs.s.keys fs.s.n) = [] ++ ks
        simp
      · show (if fs.s.n = fs.s.n then (fs.maxDeps : Int) else fs.s.deps fs.s.n) = _
        simp
        rfl
    · exact hq.add_waiting (s' := beginRun fs.s ks fs.maxDeps) rfl (fun _ => rfl) rfl
  | runKey =>
    cases hreg : fs.reg with
    | none => simp [isEnabledF, hreg] at hen
    | some r =>
      have hR : RegInv fs r := by unfold RInv at hr; rw [hreg] at hr; exact hr
      cases hp : r.pending with
      | nil => simp [isEnabledF, hreg, hp] at hen
      | cons kr rest =>
        simp only [isEnabledF, hreg, hp, decide_eq_true_eq] at hen
        have hkeys := hR.keys_t
        rw [hp] at hkeys
        have hnd := hR.nd
        rw [hp] at hnd
        have hL := regKey_LInv (kr := kr) hR.linv (by rw [hkeys]; simp)
          (by rw [hkeys]; exact keyUnique_of_nodup hnd) (keysNodup_split hnd)
        have hsm := regKey_same r.t (fs.s, r.ds) kr
        simp only [applyF, hreg, hp]
        refine ⟨?_, ?_⟩
        · show RegInv _ _
          refine ⟨hL, ?_, ?_, ?_, Or.inr hen⟩
          · show (regKey r.t (fs.s, r.ds) kr).1.keys r.t = (r.done ++ [kr]) ++ rest
            rw [hsm.keys, hkeys]; simp
          · show keysNodup ((r.done ++ [kr]) ++ rest) = true
            simpa using hnd
          · show CtrOk (regKey r.t (fs.s, r.ds) kr).1 r.t (regKey r.t (fs.s, r.ds) kr).2 fs.maxDeps
            unfold CtrOk
            rw [countP_exec_regKey hR.linv hL, hsm.deps]
            exact hR.ctr
        · exact hq.of_eq hsm.n hsm.status hsm.queue
  | runEnd =>
    cases hreg : fs.reg with
    | none => simp [isEnabledF, hreg] at hen
    | some r =>
      have hR : RegInv fs r := by unfold RInv at hr; rw [hreg] at hr; exact hr
      simp only [isEnabledF, hreg, List.isEmpty_iff] at hen
      have hkeys := hR.keys_t
      rw [hen, List.append_nil] at hkeys
      have hlive := live_eq_cnt hR.linv
      have hctr := hR.ctr
      unfold CtrOk at hctr
      have hd : fs.s.deps r.t - ((fs.maxDeps : Int) - (r.ds.length : Int)) = (cnt fs.s r.t : Int) := by
        omega
      simp only [applyF, hreg]
      unfold endRun
      simp only [hd]
      split
      · rename_i hpos
        refine ⟨?_, ?_⟩
        · show Inv _
          apply hR.linv.finish' hkeys <;> try rfl
          · intro j hj; simp [hj]
          · simp
          · intro j hj; rfl
          · left; exact ⟨by omega, hR.linv.st_t⟩
        · exact hq.of_eq rfl rfl rfl
      · rename_i hpos
        refine ⟨?_, ?_⟩
        · show Inv _
          apply hR.linv.finish' hkeys <;> try rfl
          · intro j hj; simp [hj]
          · simp
          · intro j hj; simp [hj]
          · right; exact ⟨by omega, by simp⟩
        · exact hq.push_last hR.linv.n_eq hR.linv.st_t rfl (fun _ => rfl) rfl
  | dequeue j =>
    simp only [isEnabledF, Bool.and_eq_true, beq_iff_eq, decide_eq_true_eq] at hen
    obtain ⟨hq', hjn, hjq⟩ := hq.pop (s' := (applyF fs (.dequeue j)).s) (v := .dequeued) hen.1.2
      (by simp) rfl (fun _ => rfl) rfl
    obtain ⟨f1, f2, f3⟩ := status_change_facts (s' := (applyF fs (.dequeue j)).s) hjq (fun _ => rfl)
      (by rfl) (by rfl) (by intro e; cases e)
    exact ⟨rinv_status hr rfl rfl f1 f2 f3 rfl rfl rfl rfl rfl, hq'⟩
  | check j =>
    simp only [isEnabledF, Bool.and_eq_true, beq_iff_eq, decide_eq_true_eq] at hen
    have hjs := hen.2
    by_cases herr : fs.s.err.isNone = true
    · have e : applyF fs (.check j) = { fs with s := { fs.s with
          status := fun x => if x = j then .running else fs.s.status x,
          log := .start j :: fs.s.log } } := by simp [applyF, herr]
      rw [e]
      obtain ⟨f1, f2, f3⟩ := status_change_facts (s := fs.s) (s' := { fs.s with
          status := fun x => if x = j then .running else fs.s.status x,
          log := .start j :: fs.s.log }) hjs (fun _ => rfl) (by rfl) (by rfl) (by intro e; cases e)
      exact ⟨rinv_status hr rfl rfl f1 f2 f3 rfl rfl rfl rfl rfl,
        hq.set_status (by rw [hjs]; simp) (by rw [hjs]; simp) (by simp) rfl (fun _ => rfl) rfl⟩
    · have e : applyF fs (.check j) = { fs with s := { fs.s with
          status := fun x => if x = j then .ending false else fs.s.status x,
          log := .skip j :: fs.s.log } } := by simp [applyF, herr]
      rw [e]
      obtain ⟨f1, f2, f3⟩ := status_change_facts (s := fs.s) (s' := { fs.s with
          status := fun x => if x = j then .ending false else fs.s.status x,
          log := .skip j :: fs.s.log }) hjs (fun _ => rfl) (by rfl) (by rfl) (by intro e; cases e)
      exact ⟨rinv_status hr rfl rfl f1 f2 f3 rfl rfl rfl rfl rfl,
        hq.set_status (by rw [hjs]; simp) (by rw [hjs]; simp) (by simp) rfl (fun _ => rfl) rfl⟩
  | finish j fail =>
    simp only [isEnabledF, Bool.and_eq_true, beq_iff_eq, decide_eq_true_eq] at hen
    have hjs := hen.2
    obtain ⟨f1, f2, f3⟩ := status_change_facts (s := fs.s) (s' := (applyF fs (.finish j fail)).s) hjs
      (fun _ => rfl) (by rfl) (by rfl) (by intro e; cases e)
    exact ⟨rinv_status hr rfl rfl f1 f2 f3 rfl rfl rfl rfl rfl,
      hq.set_status (by rw [hjs]; simp) (by rw [hjs]; simp) (by simp) rfl (fun _ => rfl) rfl⟩
  | dereg j o =>
    simp only [isEnabledF, Bool.and_eq_true, decide_eq_true_eq] at hen
    have hend : ended fs.s j = true := by
      unfold ended
      cases hs : fs.s.status j <;> rw [hs] at hen <;> simp_all
    refine ⟨?_, hq.of_eq rfl rfl rfl⟩
    have e : (applyF fs (.dereg j o)) = { fs with s := deregS fs.s j o } := rfl
    rw [e]
    unfold RInv at hr ⊢
    cases hreg : fs.reg with
    | none =>
      rw [hreg] at hr; simp only [hreg]
      exact inv_dereg hr hend
    | some r =>
      rw [hreg] at hr; simp only [hreg]
      exact ⟨linv_dereg hr.linv hend, hr.keys_t, hr.nd, hr.ctr, hr.bound⟩
  | notify j order =>
    simp only [isEnabledF, Bool.and_eq_true, decide_eq_true_eq, isArrangement, List.isPerm_iff] at hen
    obtain ⟨⟨⟨hjn, hsj⟩, _⟩, hperm⟩ := hen
    cases hs : fs.s.status j with
    | ending ran =>
      have e : applyF fs (.notify j order) =
          { fs with s := complete fs.s j (if ran then .done else .skipped) order } := by
        simp [applyF, hs]
      rw [e]
      have hst : fs.s.status j ≠ .waiting := by rw [hs]; simp
      have hne : executed fs.s j = false := by rw [executed_false_iff, hs]; simp
      have hex : (if ran then Status.done else Status.skipped) = .done ∨
          (if ran then Status.done else Status.skipped) = .skipped := by cases ran <;> simp
      have hq' : QInv (complete fs.s j (if ran then .done else .skipped) order) := by
        apply qinv_complete ?_ hq.q_nd hq.hi hblk hjn (by cases ran <;> simp) hperm
        intro x
        rw [hq.q_iff]
        constructor
        · rintro ⟨a, b⟩
          exact ⟨a, b, by intro e; subst e; rw [hs] at b; cases b⟩
        · rintro ⟨a, b, _⟩; exact ⟨a, b⟩
      refine ⟨?_, hq'⟩
      unfold RInv at hr ⊢
      cases hreg : fs.reg with
      | none =>
        rw [hreg] at hr; simp only [hreg]
        exact inv_complete hr hjn hst hex
      | some r =>
        rw [hreg] at hr; simp only [hreg]
        obtain ⟨hL, hC⟩ := linv_complete (d := j) (order := order) (maxDeps := fs.maxDeps)
          hr.linv hr.ctr hr.bound hjn hst hne hex
        exact ⟨hL, hr.keys_t, hr.nd, hC, hr.bound⟩
    | _ => rw [hs] at hsj; simp at hsj
  | stop =>
    exact ⟨rinv_status hr rfl rfl (fun _ => rfl) (fun _ hx => hx) (fun _ => Iff.rfl) rfl rfl rfl rfl rfl,
      hq.of_eq rfl rfl rfl⟩
  | wait =>
    exact ⟨rinv_status hr rfl rfl (fun _ => rfl) (fun _ hx => hx) (fun _ => Iff.rfl) rfl rfl rfl rfl rfl,
      hq.of_eq rfl rfl rfl⟩

theorem finv_reachable {w m : Nat} {fs : FState} (hr : ReachableF w m fs) : FInv fs := by
  induction hr with
  | init => exact finv_init w m
  | step st _ hen ih => exact finv_step ih hen

/-! ## History (log) invariants of the finest relation -/

/-- the body of the task has started -/
def bodyStarted : Status → Bool
  | .running => true
  | .ending true => true
  | .done => true
  | _ => false

structure LogInvF (s : State) : Prop where
  f_cnt : ∀ j, s.log.count (.start j) = if bodyStarted (s.status j) then 1 else 0
  f_fin : ∀ j, (s.status j = .ending true ∨ s.status j = .done) → ∃ f, Event.fin j f ∈ s.log
  f_skip : ∀ j, (s.status j = .ending false ∨ s.status j = .skipped) → s.err.isSome = true
  f_err : s.err = firstErr s.log
  f_order : OrderedLog s.n s.keys s.log

structure WInvF (fs : FState) : Prop where
  w : ∀ e, fs.s.waited = some e → e = fs.s.err ∧ fs.reg = none ∧ allExecuted fs.s = true

structure FInv2 (fs : FState) : Prop where
  inv : FInv fs
  lg : LogInvF fs.s
  wt : WInvF fs

theorem loginvF_init (w : Nat) : LogInvF (init w) := by
  refine ⟨by simp [init, bodyStarted], by simp [init], by simp [init], by simp [init, firstErr], ?_⟩
  intro l1 l2 j hl
  have : ([] : List Event) = l1 ++ Event.start j :: l2 := hl
  simp at this

/-- steps that change neither log nor err, and whose status changes keep `bodyStarted`, the
"has a fin event" class and the "was skipped" class -/
theorem LogInvF.of_status {s s' : State} (h : LogInvF s) (e1 : s.n ≤ s'.n)
    (e2 : ∀ x, x < s.n → s'.keys x = s.keys x) (elog : s'.log = s.log) (eerr : s'.err = s.err)
    (hb : ∀ x, bodyStarted (s'.status x) = bodyStarted (s.status x))
    (hf : ∀ x, (s'.status x = .ending true ∨ s'.status x = .done) →
      (s.status x = .ending true ∨ s.status x = .done))
    (hk : ∀ x, (s'.status x = .ending false ∨ s'.status x = .skipped) →
      (s.status x = .ending false ∨ s.status x = .skipped)) : LogInvF s' := by
  refine ⟨?_, ?_, ?_, by rw [eerr, elog]; exact h.f_err, by rw [elog]; exact h.f_order.mono e1 e2⟩
  · intro j; rw [elog, hb]; exact h.f_cnt j
  · intro j hj; rw [elog]; exact h.f_fin j (hf j hj)
  · intro j hj; rw [eerr]; exact h.f_skip j (hk j hj)

theorem loginvF_complete {s : State} {d : Nat} {ran : Bool} {order : List Nat} (h : LogInvF s)
    (hblk : ∀ d j, s.blocked d j = true → d < j ∧ j < s.n ∧ executed s d = false ∧ s.status j = .waiting)
    (hs : s.status d = .ending ran) :
    LogInvF (complete s d (if ran then .done else .skipped) order) := by
  have hother : ∀ x, x ≠ d →
      (complete s d (if ran then .done else .skipped) order).status x = s.status x ∨
      (s.status x = .waiting ∧ (complete s d (if ran then .done else .skipped) order).status x = .queued) :=
    fun x hx => complete_status_other hblk hx
  have hd : (complete s d (if ran then .done else .skipped) order).status d =
      (if ran then .done else .skipped) := by rw [complete_status]; simp
  apply LogInvF.of_status (s' := complete s d (if ran then .done else .skipped) order) h
    (Nat.le_refl _) (fun _ _ => rfl) rfl rfl
  · intro x
    by_cases hx : x = d
    · subst hx; rw [hd, hs]; cases ran <;> rfl
    · rcases hother x hx with a | a
      · rw [a]
      · rw [a.1, a.2]; rfl
  · intro x hx'
    by_cases hx : x = d
    · subst hx; rw [hd] at hx'; rw [hs]; cases ran <;> simp_all
    · rcases hother x hx with a | a
      · rw [a] at hx'; exact hx'
      · rw [a.2] at hx'; rcases hx' with e | e <;> cases e
  · intro x hx'
    by_cases hx : x = d
    · subst hx; rw [hd] at hx'; rw [hs]; cases ran <;> simp_all
    · rcases hother x hx with a | a
      · rw [a] at hx'; exact hx'
      · rw [a.2] at hx'; rcases hx' with e | e <;> cases e

theorem allExecuted_iff (s : State) : allExecuted s = true ↔ ∀ j, j < s.n → executed s j = true := by
  simp [allExecuted, List.all_eq_true, List.mem_range]

/-- every step needs `Wait` not to have returned (explicitly, or because after `Wait` nothing
is being registered and every task is executed) -/
theorem waited_none_of_enabled {fs : FState} {st : FStep} (hw : WInvF fs)
    (hen : isEnabledF fs st = true) : fs.s.waited = none := by
  cases hwt : fs.s.waited with
  | none => rfl
  | some e =>
    exfalso
    obtain ⟨_, hreg, hall⟩ := hw.w e hwt
    rw [allExecuted_iff] at hall
    have hne : ∀ j, j < fs.s.n → fs.s.status j = .done ∨ fs.s.status j = .skipped :=
      fun j hj => (executed_iff _ _).mp (hall j hj)
    cases st with
    | runBegin ks => simp [isEnabledF, hwt] at hen
    | runKey => simp [isEnabledF, hreg] at hen
    | runEnd => simp [isEnabledF, hreg] at hen
    | dequeue j => simp [isEnabledF, hwt] at hen
    | check j =>
      simp only [isEnabledF, Bool.and_eq_true, beq_iff_eq, decide_eq_true_eq] at hen
      rcases hne j hen.1 with a | a <;> rw [a] at hen <;> simp at hen
    | finish j f =>
      simp only [isEnabledF, Bool.and_eq_true, beq_iff_eq, decide_eq_true_eq] at hen
      rcases hne j hen.1 with a | a <;> rw [a] at hen <;> simp at hen
    | dereg j o =>
      simp only [isEnabledF, Bool.and_eq_true, decide_eq_true_eq] at hen
      rcases hne j hen.1.1 with a | a <;> rw [a] at hen <;> simp at hen
    | notify j o =>
      simp only [isEnabledF, Bool.and_eq_true, decide_eq_true_eq] at hen
      rcases hne j hen.1.1.1 with a | a <;> rw [a] at hen <;> simp at hen
    | stop => simp [isEnabledF, hwt] at hen
    | wait => simp [isEnabledF, hwt] at hen

theorem waited_applyF {fs : FState} {st : FStep} (hst : st ≠ .wait) :
    (applyF fs st).s.waited = fs.s.waited := by
  cases st with
  | runBegin ks => rfl
  | runKey =>
    simp only [applyF]
    cases fs.reg with
    | none => rfl
    | some r =>
      cases hp : r.pending with
      | nil => simp only [hp]
      | cons kr rest => simp only [hp]; exact (regKey_same r.t (fs.s, r.ds) kr).waited
  | runEnd =>
    simp only [applyF]
    split
    · unfold endRun; dsimp only; split <;> rfl
    · rfl
  | dequeue j => rfl
  | check j => simp only [applyF]; split <;> rfl
  | finish j f => rfl
  | dereg j o => rfl
  | notify j o => simp only [applyF]; split <;> rfl
  | stop => rfl
  | wait => exact absurd rfl hst

theorem firstErr_cons_fin_true (j : Nat) (l : List Event) :
    firstErr (Event.fin j true :: l) = cas (firstErr l) (.task j) := by
  simp only [firstErr]; cases firstErr l <;> rfl

theorem firstErr_cons_stop (l : List Event) :
    firstErr (Event.stop :: l) = cas (firstErr l) .stopped := by
  simp only [firstErr]; cases firstErr l <;> rfl

theorem finv2_step {fs : FState} {st : FStep} (h : FInv2 fs) (hen : isEnabledF fs st = true) :
    FInv2 (applyF fs st) := by
  have hinv' := finv_step h.inv hen
  have hwn := waited_none_of_enabled h.wt hen
  have hr := h.inv.r
  have hq := h.inv.q
  have hblk := hr.blk
  have hl := h.lg
  -- Wait part
  have hW : WInvF (applyF fs st) := by
    by_cases hst : st = .wait
    · subst hst
      simp only [isEnabledF, Bool.and_eq_true, Option.isNone_iff_eq_none] at hen
      constructor
      intro e he
      have : (applyF fs .wait).s.waited = some fs.s.err := rfl
      rw [this] at he; cases he
      exact ⟨rfl, hen.1.1, hen.2⟩
    · constructor
      intro e he
      rw [waited_applyF hst, hwn] at he; cases he
  refine ⟨hinv', ?_, hW⟩
  cases st with
  | runBegin ks =>
    have hst : ∀ x, (beginRun fs.s ks fs.maxDeps).status x = fs.s.status x := by
      intro x
      show (if x = fs.s.n then Status.waiting else fs.s.status x) = _
      by_cases hx : x = fs.s.n
      · rw [hx, hq.hi fs.s.n (Nat.le_refl _)]; simp
      · simp [hx]
    apply LogInvF.of_status (s' := beginRun fs.s ks fs.maxDeps) hl (Nat.le_succ _) ?_ rfl rfl
    · intro x; rw [hst]
    · intro x hx; rw [hst] at hx; exact hx
    · intro x hx; rw [hst] at hx; exact hx
    · intro x hx
      show (if x = fs.s.n then ks else fs.s.keys x) = _
      have : x ≠ fs.s.n := by omega
      simp [this]
  | runKey =>
    cases hreg : fs.reg with
    | none => simp [isEnabledF, hreg] at hen
    | some r =>
      cases hp : r.pending with
      | nil => simp [isEnabledF, hreg, hp] at hen
      | cons kr rest =>
        have hsm := regKey_same r.t (fs.s, r.ds) kr
        simp only [applyF, hreg, hp]
        apply LogInvF.of_status (s' := (regKey r.t (fs.s, r.ds) kr).1) hl (by rw [hsm.n]; exact Nat.le_refl _)
          (fun x _ => by rw [hsm.keys]) hsm.log hsm.err
        · intro x; rw [hsm.status]
        · intro x hx; rw [hsm.status] at hx; exact hx
        · intro x hx; rw [hsm.status] at hx; exact hx
  | runEnd =>
    cases hreg : fs.reg with
    | none => simp [isEnabledF, hreg] at hen
    | some r =>
      have hR : RegInv fs r := by unfold RInv at hr; rw [hreg] at hr; exact hr
      have hwt := hR.linv.st_t
      simp only [applyF, hreg]
      unfold endRun
      dsimp only
      split
      · exact LogInvF.of_status hl (Nat.le_refl _) (fun _ _ => rfl) rfl rfl (fun _ => rfl)
          (fun _ hx => hx) (fun _ hx => hx)
      · refine LogInvF.of_status hl (Nat.le_refl _) (fun _ _ => rfl) rfl rfl ?_ ?_ ?_
        · intro x
          show bodyStarted (if x = r.t then Status.queued else fs.s.status x) = _
          by_cases hx : x = r.t
          · rw [hx, hwt]; simp [bodyStarted]
          · simp [hx]
        · intro x hx
          have hx' : (if x = r.t then Status.queued else fs.s.status x) = .ending true ∨
              (if x = r.t then Status.queued else fs.s.status x) = .done := hx
          by_cases hxt : x = r.t
          · simp [hxt] at hx'
          · simpa [hxt] using hx'
        · intro x hx
          have hx' : (if x = r.t then Status.queued else fs.s.status x) = .ending false ∨
              (if x = r.t then Status.queued else fs.s.status x) = .skipped := hx
          by_cases hxt : x = r.t
          · simp [hxt] at hx'
          · simpa [hxt] using hx'
  | dequeue j =>
    simp only [isEnabledF, Bool.and_eq_true, beq_iff_eq, decide_eq_true_eq] at hen
    obtain ⟨rest, hqq⟩ := head_mem hen.1.2
    have hjq : fs.s.status j = .queued := ((hq.q_iff j).mp (by rw [hqq]; simp)).2
    refine LogInvF.of_status (s' := (applyF fs (.dequeue j)).s) hl (Nat.le_refl _) (fun _ _ => rfl) rfl rfl ?_ ?_ ?_
    · intro x
      show bodyStarted (if x = j then Status.dequeued else fs.s.status x) = _
      by_cases hx : x = j
      · rw [hx, hjq]; simp [bodyStarted]
      · simp [hx]
    · intro x hx
      have hx' : (if x = j then Status.dequeued else fs.s.status x) = .ending true ∨
          (if x = j then Status.dequeued else fs.s.status x) = .done := hx
      by_cases hxt : x = j
      · simp [hxt] at hx'
      · simpa [hxt] using hx'
    · intro x hx
      have hx' : (if x = j then Status.dequeued else fs.s.status x) = .ending false ∨
          (if x = j then Status.dequeued else fs.s.status x) = .skipped := hx
      by_cases hxt : x = j
      · simp [hxt] at hx'
      · simpa [hxt] using hx'
  | check j =>
    simp only [isEnabledF, Bool.and_eq_true, beq_iff_eq, decide_eq_true_eq] at hen
    obtain ⟨hjn, hjs⟩ := hen
    by_cases herr : fs.s.err.isNone = true
    · have e : applyF fs (.check j) = { fs with s := { fs.s with
          status := fun x => if x = j then .running else fs.s.status x,
          log := .start j :: fs.s.log } } := by simp [applyF, herr]
      rw [e]
      have herr' : fs.s.err = none := by simpa using herr
      refine ⟨?_, ?_, ?_, ?_, ?_⟩
      · intro x
        show (Event.start j :: fs.s.log).count (.start x) =
          if bodyStarted (if x = j then Status.running else fs.s.status x) then 1 else 0
        rw [List.count_cons, hl.f_cnt x]
        by_cases hx : x = j
        · subst hx; simp [hjs, bodyStarted]
        · have : ¬ (j = x) := fun e => hx e.symm
          simp [hx, this]
      · intro x hx
        have hx' : (if x = j then Status.running else fs.s.status x) = .ending true ∨
            (if x = j then Status.running else fs.s.status x) = .done := hx
        by_cases hxt : x = j
        · simp [hxt] at hx'
        · simp only [hxt, if_false] at hx'
          obtain ⟨f, hf⟩ := hl.f_fin x hx'
          exact ⟨f, List.mem_cons_of_mem _ hf⟩
      · intro x hx
        have hx' : (if x = j then Status.running else fs.s.status x) = .ending false ∨
            (if x = j then Status.running else fs.s.status x) = .skipped := hx
        by_cases hxt : x = j
        · simp [hxt] at hx'
        · simp only [hxt, if_false] at hx'
          exact hl.f_skip x hx'
      · show fs.s.err = firstErr (Event.start j :: fs.s.log)
        rw [firstErr_cons_neutral (by simp)]; exact hl.f_err
      · show OrderedLog fs.s.n fs.s.keys (Event.start j :: fs.s.log)
        apply hl.f_order.cons_start hjn
        · rw [← hl.f_err]; exact herr'
        · intro i hi hc
          have hnw : fs.s.status j ≠ .waiting := by rw [hjs]; simp
          have hsafe : ended fs.s i = true ∨ Chain fs.s i j := by
            unfold RInv at hr
            split at hr
            · exact hr.safe i j hi hjn hc
            · rename_i r _
              have hjt : j ≠ r.t := by intro e; rw [e] at hnw; exact hnw hr.linv.st_t
              exact hr.linv.safe i j hi (by have := hr.linv.n_eq; omega) hc
          rcases hsafe with a | a
          · unfold ended at a
            cases hsi : fs.s.status i with
            | ending r =>
              cases r with
              | true => exact hl.f_fin i (Or.inl hsi)
              | false =>
                have := hl.f_skip i (Or.inl hsi)
                rw [herr'] at this; cases this
            | done => exact hl.f_fin i (Or.inr hsi)
            | skipped =>
              have := hl.f_skip i (Or.inr hsi)
              rw [herr'] at this; cases this
            | waiting => rw [hsi] at a; cases a
            | queued => rw [hsi] at a; cases a
            | dequeued => rw [hsi] at a; cases a
            | running => rw [hsi] at a; cases a
          · obtain ⟨x, hx⟩ := a.has_blocker
            exact absurd (hblk x j hx).2.2.2 hnw
    · have e : applyF fs (.check j) = { fs with s := { fs.s with
          status := fun x => if x = j then .ending false else fs.s.status x,
          log := .skip j :: fs.s.log } } := by simp [applyF, herr]
      rw [e]
      have herr' : fs.s.err.isSome = true := by
        cases he : fs.s.err with
        | none => rw [he] at herr; simp at herr
        | some x => rfl
      refine ⟨?_, ?_, ?_, ?_, ?_⟩
      · intro x
        show (Event.skip j :: fs.s.log).count (.start x) =
          if bodyStarted (if x = j then Status.ending false else fs.s.status x) then 1 else 0
        rw [List.count_cons, hl.f_cnt x]
        by_cases hx : x = j
        · subst hx; simp [hjs, bodyStarted]
        · simp [hx]
      · intro x hx
        have hx' : (if x = j then Status.ending false else fs.s.status x) = .ending true ∨
            (if x = j then Status.ending false else fs.s.status x) = .done := hx
        by_cases hxt : x = j
        · simp [hxt] at hx'
        · simp only [hxt, if_false] at hx'
          obtain ⟨f, hf⟩ := hl.f_fin x hx'
          exact ⟨f, List.mem_cons_of_mem _ hf⟩
      · intro x hx
        have hx' : (if x = j then Status.ending false else fs.s.status x) = .ending false ∨
            (if x = j then Status.ending false else fs.s.status x) = .skipped := hx
        by_cases hxt : x = j
        · exact herr'
        · simp only [hxt, if_false] at hx'
          exact hl.f_skip x hx'
      · show fs.s.err = firstErr (Event.skip j :: fs.s.log)
        rw [firstErr_cons_neutral (by simp)]; exact hl.f_err
      · show OrderedLog fs.s.n fs.s.keys (Event.skip j :: fs.s.log)
        exact hl.f_order.cons_other (by simp)
  | finish j fail =>
    simp only [isEnabledF, Bool.and_eq_true, beq_iff_eq, decide_eq_true_eq] at hen
    obtain ⟨hjn, hjs⟩ := hen
    refine ⟨?_, ?_, ?_, ?_, ?_⟩
    · intro x
      show (Event.fin j fail :: fs.s.log).count (.start x) =
        if bodyStarted (if x = j then Status.ending true else fs.s.status x) then 1 else 0
      rw [List.count_cons, hl.f_cnt x]
      by_cases hx : x = j
      · subst hx; simp [hjs, bodyStarted]
      · simp [hx]
    · intro x hx
      have hx' : (if x = j then Status.ending true else fs.s.status x) = .ending true ∨
          (if x = j then Status.ending true else fs.s.status x) = .done := hx
      by_cases hxt : x = j
      · subst hxt; exact ⟨fail, List.mem_cons_self⟩
      · simp only [hxt, if_false] at hx'
        obtain ⟨f, hf⟩ := hl.f_fin x hx'
        exact ⟨f, List.mem_cons_of_mem _ hf⟩
    · intro x hx
      have hx' : (if x = j then Status.ending true else fs.s.status x) = .ending false ∨
          (if x = j then Status.ending true else fs.s.status x) = .skipped := hx
      show (if fail then cas fs.s.err (.task j) else fs.s.err).isSome = true
      by_cases hxt : x = j
      · simp [hxt] at hx'
      · simp only [hxt, if_false] at hx'
        have := hl.f_skip x hx'
        cases fail
        · exact this
        · simp only [if_true]; exact isSome_cas _ _
    · show (if fail then cas fs.s.err (.task j) else fs.s.err) = firstErr (Event.fin j fail :: fs.s.log)
      cases fail
      · rw [firstErr_cons_neutral (by simp)]; exact hl.f_err
      · rw [firstErr_cons_fin_true, ← hl.f_err]; rfl
    · show OrderedLog fs.s.n fs.s.keys (Event.fin j fail :: fs.s.log)
      exact hl.f_order.cons_other (by simp)
  | dereg j o =>
    exact LogInvF.of_status (s' := (applyF fs (.dereg j o)).s) hl (Nat.le_refl _) (fun _ _ => rfl) rfl rfl
      (fun _ => rfl) (fun _ hx => hx) (fun _ hx => hx)
  | notify j order =>
    simp only [isEnabledF, Bool.and_eq_true, decide_eq_true_eq] at hen
    cases hs : fs.s.status j with
    | ending ran =>
      have e : applyF fs (.notify j order) =
          { fs with s := complete fs.s j (if ran then .done else .skipped) order } := by
        simp [applyF, hs]
      rw [e]
      exact loginvF_complete hl hblk hs
    | _ => rw [hs] at hen; simp at hen
  | stop =>
    refine ⟨?_, ?_, ?_, ?_, ?_⟩
    · intro x
      show (Event.stop :: fs.s.log).count (.start x) = _
      rw [List.count_cons, hl.f_cnt x]; simp; rfl
    · intro x hx
      obtain ⟨f, hf⟩ := hl.f_fin x hx
      exact ⟨f, List.mem_cons_of_mem _ hf⟩
    · intro x _; exact isSome_cas _ _
    · show cas fs.s.err .stopped = firstErr (Event.stop :: fs.s.log)
      rw [firstErr_cons_stop, ← hl.f_err]
    · show OrderedLog fs.s.n fs.s.keys (Event.stop :: fs.s.log)
      exact hl.f_order.cons_other (by simp)
  | wait =>
    exact ⟨hl.f_cnt, hl.f_fin, hl.f_skip, hl.f_err, hl.f_order⟩

theorem finv2_reachable {w m : Nat} {fs : FState} (hr : ReachableF w m fs) : FInv2 fs := by
  induction hr with
  | init => exact ⟨finv_init w m, loginvF_init w, ⟨by intro e he; cases he⟩⟩
  | step st _ hen ih => exact finv2_step ih hen

end HyperModel.Executor
