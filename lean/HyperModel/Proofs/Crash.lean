import HyperModel.Model.Crash
/-! Invariant of the accept pipeline model (C18). Core Lean only. -/
namespace HyperModel.Crash

/-- `s, s+1, …, s+l-1` -/
def consec : Nat → Nat → List Nat
  | _, 0 => []
  | s, l + 1 => s :: consec (s + 1) l

theorem consec_snoc (s l : Nat) : consec s (l + 1) = consec s l ++ [s + l] := by
  induction l generalizing s with
  | zero => simp [consec]
  | succ l ih =>
    rw [consec, ih (s + 1)]
    simp only [consec, List.cons_append, List.cons.injEq, true_and]
    congr 2; omega

theorem mem_consec {s l h : Nat} : h ∈ consec s l ↔ s ≤ h ∧ h < s + l := by
  induction l generalizing s with
  | zero => simp [consec]
  | succ l ih => simp only [consec, List.mem_cons, ih]; omega

/-- Invariant of every reachable node; `d` = number of blocks that completely left the pipeline
in this run. -/
def Inv (n : Node) : Prop := ∃ d,
  n.notifiedB = List.range (d + 1) ∧
  d ≤ n.p.idx ∧
  n.queue ++ n.toEnqueue.toList = consec (d + 1) (n.p.idx - d) ∧
  ((n.stage = 0 ∧ n.p.st = d ∧ n.p.res = (if d = 0 then none else some d) ∧ n.notifiedA = List.range (d + 1)) ∨
   (n.stage = 1 ∧ n.queue ≠ [] ∧ n.p.st = d ∧ n.p.res = some (d + 1) ∧ n.notifiedA = List.range (d + 1)) ∨
   (n.stage = 2 ∧ n.queue ≠ [] ∧ n.p.st = d + 1 ∧ n.p.res = some (d + 1) ∧ n.notifiedA = List.range (d + 1)) ∨
   (n.stage = 3 ∧ n.queue ≠ [] ∧ n.p.st = d + 1 ∧ n.p.res = some (d + 1) ∧ n.notifiedA = List.range (d + 2)))

theorem Inv.init : Inv Node.init := ⟨0, by simp [Node.init], by simp [Node.init], by simp [Node.init, consec], by simp [Node.init]⟩

/-- the head of a non-empty queue is block `d+1` and the index is ahead of `d` -/
theorem head_eq {q : List Nat} {te : List Nat} {h : Nat} {t : List Nat} {d i : Nat}
    (hq : q ++ te = consec (d + 1) (i - d)) (hh : q = h :: t) :
    h = d + 1 ∧ d + 1 ≤ i ∧ t ++ te = consec (d + 2) (i - (d + 1)) := by
  subst hh
  cases hl : i - d with
  | zero => rw [hl] at hq; simp [consec] at hq
  | succ l =>
    rw [hl] at hq
    simp only [consec, List.cons_append, List.cons.injEq] at hq
    refine ⟨hq.1, by omega, ?_⟩
    have : i - (d + 1) = l := by omega
    rw [this]; exact hq.2

theorem step_inv {n : Node} (h : Inv n) (e : Ev) : Inv (step n e) := by
  obtain ⟨d, hn, hd, hq, hs⟩ := h
  cases e with
  | indexUpdate =>
    unfold step
    cases hte : n.toEnqueue with
    | some x => exact ⟨d, hn, hd, hq, hs⟩
    | none =>
      refine ⟨d, hn, by simp; omega, ?_, hs⟩
      simp only [hte, Option.toList_none, List.append_nil] at hq
      simp only [Option.toList_some]
      have : n.p.idx + 1 - d = (n.p.idx - d) + 1 := by omega
      rw [this, consec_snoc, hq]
      congr 2; omega
  | enqueue =>
    unfold step
    cases hte : n.toEnqueue with
    | none => exact ⟨d, hn, hd, hq, hs⟩
    | some x =>
      refine ⟨d, hn, hd, ?_, ?_⟩
      · simpa [hte] using hq
      · rcases hs with hs | hs | hs | hs
        · exact Or.inl hs
        · exact Or.inr (Or.inl ⟨hs.1, by simp, hs.2.2⟩)
        · exact Or.inr (Or.inr (Or.inl ⟨hs.1, by simp, hs.2.2⟩))
        · exact Or.inr (Or.inr (Or.inr ⟨hs.1, by simp, hs.2.2⟩))
  | writeResults =>
    unfold step
    cases hqq : n.queue with
    | nil => exact ⟨d, hn, hd, hq, hs⟩
    | cons x t =>
      obtain ⟨hx, _, _⟩ := head_eq hq hqq
      rcases hs with hs | hs | hs | hs
      · simp only [hs.1]
        exact ⟨d, hn, hd, by simpa [hqq] using hq, Or.inr (Or.inl ⟨rfl, by simp, hs.2.1, by simp [hx], hs.2.2.2⟩)⟩
      · simp only [hs.1]; exact ⟨d, hn, hd, hq, Or.inr (Or.inl hs)⟩
      · simp only [hs.1]; exact ⟨d, hn, hd, hq, Or.inr (Or.inr (Or.inl hs))⟩
      · simp only [hs.1]; exact ⟨d, hn, hd, hq, Or.inr (Or.inr (Or.inr hs))⟩
  | commitState =>
    unfold step
    cases hqq : n.queue with
    | nil => exact ⟨d, hn, hd, hq, hs⟩
    | cons x t =>
      obtain ⟨hx, _, _⟩ := head_eq hq hqq
      rcases hs with hs | hs | hs | hs
      · simp only [hs.1]; exact ⟨d, hn, hd, hq, Or.inl hs⟩
      · simp only [hs.1]
        exact ⟨d, hn, hd, by simpa [hqq] using hq, Or.inr (Or.inr (Or.inl ⟨rfl, by simp, by simp [hx], hs.2.2.2⟩))⟩
      · simp only [hs.1]; exact ⟨d, hn, hd, hq, Or.inr (Or.inr (Or.inl hs))⟩
      · simp only [hs.1]; exact ⟨d, hn, hd, hq, Or.inr (Or.inr (Or.inr hs))⟩
  | notifyA =>
    unfold step
    cases hqq : n.queue with
    | nil => exact ⟨d, hn, hd, hq, hs⟩
    | cons x t =>
      obtain ⟨hx, _, _⟩ := head_eq hq hqq
      rcases hs with hs | hs | hs | hs
      · simp only [hs.1]; exact ⟨d, hn, hd, hq, Or.inl hs⟩
      · simp only [hs.1]; exact ⟨d, hn, hd, hq, Or.inr (Or.inl hs)⟩
      · simp only [hs.1]
        refine ⟨d, hn, hd, by simpa [hqq] using hq, Or.inr (Or.inr (Or.inr ⟨rfl, by simp, hs.2.2.1, hs.2.2.2.1, ?_⟩))⟩
        simp [hs.2.2.2.2, hx, List.range_succ]
      · simp only [hs.1]; exact ⟨d, hn, hd, hq, Or.inr (Or.inr (Or.inr hs))⟩
  | notifyB =>
    unfold step
    cases hqq : n.queue with
    | nil => exact ⟨d, hn, hd, hq, hs⟩
    | cons x t =>
      obtain ⟨hx, hle, ht⟩ := head_eq hq hqq
      rcases hs with hs | hs | hs | hs
      · simp only [hs.1]; exact ⟨d, hn, hd, hq, Or.inl hs⟩
      · simp only [hs.1]; exact ⟨d, hn, hd, hq, Or.inr (Or.inl hs)⟩
      · simp only [hs.1]; exact ⟨d, hn, hd, hq, Or.inr (Or.inr (Or.inl hs))⟩
      · simp only [hs.1]
        refine ⟨d + 1, ?_, hle, ht, Or.inl ⟨rfl, hs.2.2.1, ?_, hs.2.2.2.2⟩⟩
        · simp [hn, hx, List.range_succ]
        · simp [hs.2.2.2.1]

theorem run_inv {n : Node} (h : Inv n) (evs : List Ev) : Inv (run n evs) := by
  induction evs generalizing n with
  | nil => exact h
  | cons e rest ih => exact ih (step_inv h e)

theorem mem_reprocess {o i h : Nat} : h ∈ reprocess o i ↔ o < h ∧ h ≤ i := by
  simp only [reprocess, List.mem_map, List.mem_range]
  constructor
  · rintro ⟨a, ha, rfl⟩; omega
  · rintro ⟨h1, h2⟩; exact ⟨h - o - 1, by omega, by omega⟩

theorem reprocess_self (i : Nat) : reprocess i i = [] := by simp [reprocess]

theorem reprocess_sorted (o i : Nat) : (reprocess o i).Pairwise (· < ·) := by
  unfold reprocess
  rw [List.pairwise_map]
  have := List.pairwise_lt_range (n := i - o)
  exact this.imp (by intro a b h; omega)

end HyperModel.Crash
