import HyperModel.Proofs.MempoolHist
import HyperModel.Spec.MempoolQueue
/-!
Refinement of `Model/Mempool.lean` to the list spec `Spec/MempoolQueue.lean`: the abstraction
`abs` (queue + stream bookkeeping + limits) commutes with every operation, and the answers agree
(`OutRel`). Core Lean only.
-/
namespace HyperModel.Mempool
open HyperModel.Heap HyperModel.EHeap
set_option linter.unusedSectionVars false

def abs (m : State) : Spec :=
  ⟨m.maxSize, m.maxSponsor, m.queue, m.streamLocked, m.streamed, m.nextStream, m.nextStreamFetched⟩

theorem abs_of {m m' : State} (hL : L m m') (hF : F m m') : abs m' = { abs m with q := m'.queue } := by
  obtain ⟨l1, l2⟩ := hL
  obtain ⟨f1, f2, f3, f4⟩ := hF
  simp only [abs, l1, l2, f1, f2, f3, f4]

theorem has_eq_any {u m} (h : MInv u m) (id : ID) : m.eh.has id = m.queue.any (fun y => y.id == id) := by
  cases hb : m.queue.any (fun y => y.id == id) with
  | true =>
    rw [List.any_eq_true] at hb
    obtain ⟨y, hy, hyid⟩ := hb
    exact (h.has_iff id).2 ⟨y, hy, by simpa using hyid⟩
  | false =>
    cases hh : m.eh.has id with
    | false => rfl
    | true =>
      obtain ⟨y, hy, hyid⟩ := (h.has_iff id).1 hh
      rw [List.any_eq_false] at hb
      exact absurd (by simpa using hyid) (hb y hy)

theorem add1_abs {u m} (h : MInv u m) (front : Bool) (x : Item) : abs (m.add1 front x) = (abs m).add1 front x := by
  unfold State.add1 Spec.add1
  have e1 : (abs m).streamed = m.streamed := rfl
  have e2 : (abs m).q = m.queue := rfl
  have e3 : scount (abs m).q x.sponsor = m.owned x.sponsor := by rw [h.owned]; rfl
  have e4 : (abs m).maxSponsor = m.maxSponsor := rfl
  have e5 : (abs m).maxSize = m.maxSize := rfl
  rw [e1, e3, e4, e5, e2, ← has_eq_any h x.id]
  by_cases h1 : streamedHas m.streamed x.id = true
  · rw [if_pos h1, if_pos h1]
  rw [if_neg h1, if_neg h1]
  by_cases h2 : m.eh.has x.id = true
  · rw [if_pos h2, if_pos h2]
  rw [if_neg h2, if_neg h2]
  by_cases h3 : m.owned x.sponsor = m.maxSponsor
  · rw [if_pos h3, if_pos h3]
  rw [if_neg h3, if_neg h3]
  by_cases h4 : m.queue.length = m.maxSize
  · rw [if_pos h4, if_pos h4]
  rw [if_neg h4, if_neg h4]
  rfl

theorem addAll_abs {u m} (h : MInv u m) (front : Bool) (items : List Item) (hx : ∀ x, x ∈ items → Canon u x) :
    abs (m.addAll front items) = (abs m).addAll front items := by
  induction items generalizing m with
  | nil => rfl
  | cons x rest ih =>
    simp only [State.addAll, Spec.addAll, List.foldl_cons]
    have := ih (add1_inv h front x (hx x (by simp))) (fun y hy => hx y (by simp [hy]))
    simp only [State.addAll, Spec.addAll] at this
    rw [this, add1_abs h]

theorem remove1_queue {u m} (h : MInv u m) (x : Item) (hx : Canon u x) :
    (m.remove1 x).queue = qRemove m.queue x.id := by
  by_cases hhas : m.eh.has x.id = true
  · obtain ⟨y, hyq, hyid⟩ := (h.has_iff x.id).1 hhas
    have hyx : y = x := (h.canon y hyq).eq hx hyid
    subst hyx
    obtain ⟨hr, _, _⟩ := removeHeld h y hyq
    have : m.remove1 y = { dropQ m y with eh := (m.eh.remove y.id).1 } := by
      unfold State.remove1
      rcases hrem : m.eh.remove y.id with ⟨eh', _ | elem⟩
      · rw [hrem] at hr; cases hr
      · rw [hrem] at hr; cases hr; rfl
    rw [this]; rfl
  · have := (remove_spec m.eh h.eh x.id).1 (by simpa using hhas)
    have hq : qRemove m.queue x.id = m.queue := by
      apply qRemove_absent
      intro y hy hyid
      exact hhas ((h.has_iff x.id).2 ⟨y, hy, hyid⟩)
    unfold State.remove1
    rw [this, hq]

theorem remove_abs {u m} (h : MInv u m) (items : List Item) (hx : ∀ x, x ∈ items → Canon u x) :
    abs (m.remove items) = (abs m).remove items := by
  induction items generalizing m with
  | nil => rfl
  | cons x rest ih =>
    simp only [State.remove, Spec.remove, List.foldl_cons]
    have := ih (remove1_inv h x (hx x (by simp))) (fun y hy => hx y (by simp [hy]))
    simp only [State.remove, Spec.remove] at this
    rw [this]
    have hL : L m (m.remove1 x) := remove1_L m x
    have hF : F m (m.remove1 x) := by unfold State.remove1; split <;> exact F.refl _
    rw [abs_of hL hF, remove1_queue h x (hx x (by simp))]
    rfl

theorem streamItems_abs {u m} (h : MInv u m) (n : Nat) :
    abs (State.streamItems n m []).1 = ((abs m).take n).1 ∧ (State.streamItems n m []).2 = ((abs m).take n).2 := by
  obtain ⟨i1, i2, _, i4, i5, i6, i7, i8, i9⟩ := streamItems_spec (u := u) n m [] h
  refine ⟨?_, by simpa [Spec.take, abs] using i1⟩
  simp only [abs, Spec.take, i2, i4, i5, i6, i7, i8, i9]
  congr

theorem topLoop_abs {u} (fuel : Nat) : ∀ (m : State) (ans : List Answer) (vis res : List Item), MInv u m →
    m.queue.length ≤ fuel →
    (State.topLoop fuel m ans vis res).1.queue = (specTopLoop m.queue ans vis res).1 ∧
    (State.topLoop fuel m ans vis res).2 = (specTopLoop m.queue ans vis res).2 := by
  induction fuel with
  | zero =>
    intro m ans vis res h hf
    have : m.queue = [] := List.length_eq_zero_iff.1 (by omega)
    simp [State.topLoop, this, specTopLoop]
  | succ fuel ih =>
    intro m ans vis res h hf
    cases hq : m.queue with
    | nil =>
      have hlen : m.eh.len = 0 := by
        rw [len_eq, h.same.length_eq, hq]; rfl
      simp [State.topLoop, hlen, specTopLoop, hq]
    | cons v rest =>
      have hlen : ¬ m.eh.len = 0 := by
        rw [len_eq, h.same.length_eq, hq]; simp
      obtain ⟨p1, p2, p3, _⟩ := (popNext_spec h).2 v rest hq
      rcases hpop : m.popNext with ⟨m1, _ | item⟩
      · rw [hpop] at p1; cases p1
      · rw [hpop] at p1 p2 p3; cases p1
        simp only at p2 p3
        simp only [State.topLoop, hlen, if_false, hpop, specTopLoop]
        split
        · exact ⟨p2, rfl⟩
        · have := ih m1 ans.tail (vis ++ [v]) (if (ans.headD ⟨false, false, false⟩).restore then res ++ [v] else res)
            p3 (by rw [p2]; rw [hq] at hf; simp at hf; omega)
          rw [p2] at this
          exact this

theorem step_abs {u m} (h : MInv u m) (op : Op) (hw : op.WF u) :
    abs (m.step op).1 = ((abs m).step op).1 ∧ OutRel op (m.step op).2 ((abs m).step op).2 := by
  cases op with
  | add items => exact ⟨addAll_abs h false items hw, rfl⟩
  | remove items => exact ⟨remove_abs h items hw, rfl⟩
  | setMin t =>
    obtain ⟨_, s2, s3, _⟩ := setMinTimestamp_spec h t
    refine ⟨?_, ⟨_, _, rfl, rfl, s2⟩⟩
    have hL := step_limits m (.setMin t)
    have hF := step_F m (.setMin t) rfl
    simp only [State.step] at hL hF ⊢
    rw [abs_of hL hF, s3]; rfl
  | popNext =>
    obtain ⟨hp0, hp1⟩ := popNext_spec h
    cases hq : m.queue with
    | nil =>
      simp only [State.step, Spec.step, hp0 hq]
      have : (abs m).q = [] := hq
      simp [this, OutRel]
    | cons v rest =>
      obtain ⟨p1, p2, _⟩ := hp1 v rest hq
      have hL := popNext_L m
      have hF := popNext_F m
      have : (abs m).q = v :: rest := hq
      simp only [State.step, Spec.step, this, OutRel, p1]
      exact ⟨by rw [abs_of hL hF, p2], trivial⟩
  | peekNext => exact ⟨rfl, rfl⟩
  | has id => exact ⟨rfl, by simp only [State.step, Spec.step, OutRel, State.has]; rw [has_eq_any h id]; rfl⟩
  | len =>
    refine ⟨rfl, ?_⟩
    simp only [State.step, Spec.step, OutRel, State.len]
    rw [len_eq, h.same.length_eq]; rfl
  | size =>
    refine ⟨rfl, ?_⟩
    simp only [State.step, Spec.step, OutRel, State.size, h.size]; rfl
  | startStreaming =>
    simp only [State.step, Spec.step, State.startStreaming]
    have : (abs m).locked = m.streamLocked := rfl
    rw [this]
    cases m.streamLocked <;> exact ⟨rfl, rfl⟩
  | prepareStream n =>
    obtain ⟨a1, a2⟩ := streamItems_abs h n
    refine ⟨?_, rfl⟩
    simp only [State.step, Spec.step, State.prepareStream]
    rw [← a1, ← a2]; rfl
  | stream n =>
    simp only [State.step, Spec.step, State.stream]
    have : (abs m).fetched = m.nextStreamFetched := rfl
    rw [this]
    cases hfe : m.nextStreamFetched with
    | true => exact ⟨rfl, rfl⟩
    | false =>
      obtain ⟨a1, a2⟩ := streamItems_abs h n
      simp only [Bool.false_eq_true, if_false, OutRel]
      exact ⟨a1, by rw [a2]⟩
  | finishStreaming r =>
    have hsl : (abs m).locked = m.streamLocked := rfl
    simp only [State.step]
    cases hf : m.finishStreaming r with
    | none =>
      have hl : m.streamLocked = false := by
        unfold State.finishStreaming at hf
        split at hf
        · rename_i h; simpa using h
        · simp only at hf; split at hf <;> cases hf
      have hs : (abs m).step (.finishStreaming r) = (abs m, .blocked) := by
        simp only [Spec.step]; rw [if_pos (by rw [hsl, hl]; rfl)]
      rw [hs]; exact ⟨rfl, rfl⟩
    | some r' =>
      obtain ⟨m', k⟩ := r'
      obtain ⟨hl, _, _⟩ := finishStreaming_fields m r m' k hf
      have h0 : MInv u ({ m with streamed := none } : State) :=
        h.setStream m.streamLocked none m.nextStream m.nextStreamFetched (by simp) h.nextCanon
      have h1 := addAll_inv h0 true r hw
      have a1 : abs (({ m with streamed := none } : State).addAll true r) =
          ({ abs m with streamed := none } : Spec).addAll true r := addAll_abs h0 true r hw
      have a2 := addAll_abs h1 true _ h1.nextCanon
      simp only [Spec.step]
      rw [if_neg (by rw [hsl, hl]; simp)]
      rw [← a1]
      unfold State.finishStreaming at hf
      split at hf
      · cases hf
      · simp only at hf
        split at hf
        · rename_i hfe
          cases hf
          have hfe' : (abs (({ m with streamed := none } : State).addAll true r)).fetched = true := hfe
          rw [if_pos hfe']
          refine ⟨?_, rfl⟩
          show _ = ({ Spec.addAll _ true (abs _).next with next := [], fetched := false, locked := false } : Spec)
          have : (abs (({ m with streamed := none } : State).addAll true r)).next =
              (({ m with streamed := none } : State).addAll true r).nextStream := rfl
          rw [this, ← a2]
          rfl
        · rename_i hfe
          cases hf
          have hfe' : ¬ (abs (({ m with streamed := none } : State).addAll true r)).fetched = true := hfe
          rw [if_neg hfe']
          exact ⟨rfl, rfl⟩
  | top ans =>
    obtain ⟨i1, i2, _⟩ := topLoop_spec (u := u) m.eh.len m ans [] [] h (by simp)
    obtain ⟨t1, t2⟩ := topLoop_abs (u := u) m.eh.len m ans [] [] h
      (by rw [len_eq, h.same.length_eq]; exact Nat.le_refl _)
    have hL := topLoop_L m.eh.len m ans [] []
    have hF := topLoop_F m.eh.len m ans [] []
    have hq : (abs m).q = m.queue := rfl
    simp only [State.step, Spec.step, State.top, hq, OutRel]
    have a := addAll_abs i1 true _ i2
    rw [a, abs_of hL hF, t1]
    refine ⟨by rw [t2], ?_⟩
    show Out.topOut (Prod.snd (State.topLoop m.eh.len m ans [] [])).1 (Prod.snd (State.topLoop m.eh.len m ans [] [])).2.2 = _
    rw [t2]

theorem run_abs {u} (ops : List Op) : ∀ (m : State), MInv u m → (∀ op, op ∈ ops → op.WF u) →
    abs (m.run ops) = (abs m).run ops ∧ TraceRel ops (m.trace ops) ((abs m).trace ops) := by
  induction ops with
  | nil => intro m _ _; exact ⟨rfl, trivial⟩
  | cons op rest ih =>
    intro m h hw
    obtain ⟨s1, s2⟩ := step_abs h op (hw op (by simp))
    obtain ⟨i1, i2⟩ := ih (m.step op).1 (step_inv h op (hw op (by simp))) (fun o ho => hw o (by simp [ho]))
    rw [s1] at i1 i2
    exact ⟨i1, s2, i2⟩
end HyperModel.Mempool
