import HyperModel.Model.Heap
/-!
Lemmas about the array heap of `Model/Heap.lean` (`swap`, `up`, `downLoop`): every change is a
sequence of in-range swaps (`Reach`), which keeps sizes, `Index = slot`, the multiset of
entries (without their position field) and everything outside the range; and the classical
sift-up / sift-down order arguments. Core Lean only.
-/
namespace HyperModel.Heap
set_option linter.unusedSectionVars false
variable {α : Type} [Inhabited α]

theorem size_swap (a : Array (Entry α)) (i j : Nat) : (swap a i j).size = a.size := by
  simp [swap]

theorem get_swap (a : Array (Entry α)) {i j : Nat} (hi : i < a.size) (hj : j < a.size) (k : Nat) :
    (swap a i j)[k]! =
      if k = j then { a[i]! with index := j } else if k = i then { a[j]! with index := i } else a[k]! := by
  simp only [swap, Array.getElem!_eq_getD, Array.getD_eq_getD_getElem?, Array.getElem?_setIfInBounds,
    Array.size_setIfInBounds]
  grind

/-- an entry without its position field -/
def Entry.core (e : Entry α) : Entry α := { e with index := 0 }

@[simp] theorem Entry.core_id (e : Entry α) : e.core.id = e.id := rfl
@[simp] theorem Entry.core_val (e : Entry α) : e.core.val = e.val := rfl
@[simp] theorem Entry.core_item (e : Entry α) : e.core.item = e.item := rfl

def cores (a : Array (Entry α)) : List (Entry α) := a.toList.map Entry.core

theorem cores_swap (a : Array (Entry α)) {i j : Nat} (hi : i < a.size) (hj : j < a.size) :
    (cores (swap a i j)).Perm (cores a) := by
  have h : (swap a i j).map Entry.core = (a.map Entry.core).swap i j (by simpa) (by simpa) := by
    apply Array.ext
    · simp [size_swap]
    · intro k h1 h2
      have := get_swap a hi hj k
      simp only [Array.getElem_map, Array.getElem_swap]
      have hk : k < a.size := by simpa [size_swap] using h1
      rw [getElem!_pos _ k (by simpa [size_swap] using hk)] at this
      rw [this]
      simp only [getElem!_pos, hi, hj, hk]
      split
      · simp_all [Entry.core]
      · split <;> simp_all [Entry.core]
  have p := Array.swap_perm (xs := a.map Entry.core) (i := i) (j := j) (by simpa) (by simpa)
  rw [← h] at p
  have := p.toList
  simpa [cores] using this

/-- `b` is obtained from `a` by swaps of slots below `n`. -/
inductive Reach (n : Nat) : Array (Entry α) → Array (Entry α) → Prop
  | refl (a) : Reach n a a
  | step {a b} (i j : Nat) : Reach n a b → i < n → j < n → Reach n a (swap b i j)

theorem Reach.trans {n} {a b c : Array (Entry α)} (h1 : Reach n a b) (h2 : Reach n b c) : Reach n a c := by
  induction h2 with
  | refl => exact h1
  | step i j _ hi hj ih => exact .step i j ih hi hj

theorem Reach.of_swap {n} (a : Array (Entry α)) {i j} (hi : i < n) (hj : j < n) : Reach n a (swap a i j) :=
  .step i j (.refl a) hi hj

theorem Reach.head {n} {a c : Array (Entry α)} {i j} (hi : i < n) (hj : j < n)
    (h : Reach n (swap a i j) c) : Reach n a c := (Reach.of_swap a hi hj).trans h

theorem Reach.mono {n m} {a b : Array (Entry α)} (h : Reach n a b) (hnm : n ≤ m) : Reach m a b := by
  induction h with
  | refl => exact .refl _
  | step i j _ hi hj ih => exact .step i j ih (by omega) (by omega)

theorem Reach.size {n} {a b : Array (Entry α)} (h : Reach n a b) : b.size = a.size := by
  induction h with
  | refl => rfl
  | step i j _ _ _ ih => simp [size_swap, ih]

theorem Reach.cores {n} {a b : Array (Entry α)} (h : Reach n a b) (hn : n ≤ a.size) :
    (cores b).Perm (cores a) := by
  induction h with
  | refl => exact .refl _
  | step i j hr hi hj ih =>
    have := hr.size
    exact (cores_swap _ (by omega) (by omega)).trans ih

theorem Reach.above {n} {a b : Array (Entry α)} (h : Reach n a b) (hn : n ≤ a.size) (k : Nat) (hk : n ≤ k) :
    b[k]! = a[k]! := by
  induction h with
  | refl => rfl
  | step i j hr hi hj ih =>
    have := hr.size
    rw [get_swap _ (by omega) (by omega)]
    have : k ≠ j := by omega
    have : k ≠ i := by omega
    simp [*]

/-- `Index` = slot, for all slots -/
def IdxOK (a : Array (Entry α)) : Prop := ∀ k, k < a.size → a[k]!.index = k

theorem IdxOK.swap {a : Array (Entry α)} (h : IdxOK a) {i j} (hi : i < a.size) (hj : j < a.size) :
    IdxOK (swap a i j) := by
  intro k hk
  rw [size_swap] at hk
  rw [get_swap _ hi hj]
  have := h k hk
  split
  · simp_all
  · split <;> simp_all

theorem Reach.idxOK {n} {a b : Array (Entry α)} (h : Reach n a b) (hn : n ≤ a.size) (ha : IdxOK a) :
    IdxOK b := by
  induction h with
  | refl => exact ha
  | step i j hr hi hj ih =>
    have := hr.size
    exact ih.swap (by omega) (by omega)

theorem up_reach (isMin : Bool) (a : Array (Entry α)) (j n : Nat) (hj : j < n) :
    Reach n a (up isMin a j) := by
  fun_induction up isMin a j with
  | case1 a j i h => exact .refl _
  | case2 a j i h ih =>
    have : i < n := by omega
    exact Reach.head this hj (ih this)

theorem downLoop_reach (isMin : Bool) (a : Array (Entry α)) (i n : Nat) :
    Reach n a (downLoop isMin a i n).1 := by
  fun_induction downLoop isMin a i n with
  | case1 a i j1 h => exact .refl _
  | case2 a i j1 h j hl => exact .refl _
  | case3 a i j1 h j hl ih =>
    have hj : j < n := by simp only [j]; split <;> omega
    exact Reach.head (by omega) hj ih


/-- ordering key: `Less(i,j)` iff `key items[i] < key items[j]` -/
def key (isMin : Bool) (e : Entry α) : Int := if isMin then e.val else -e.val

/-- key of slot `k` -/
def K (isMin : Bool) (a : Array (Entry α)) (k : Nat) : Int := key isMin a[k]!

theorem less_iff (isMin : Bool) (a : Array (Entry α)) (i j : Nat) :
    less isMin a i j = true ↔ K isMin a i < K isMin a j := by
  cases isMin <;> simp [less, K, key] <;> omega

theorem less_false_iff (isMin : Bool) (a : Array (Entry α)) (i j : Nat) :
    less isMin a i j = false ↔ K isMin a j ≤ K isMin a i := by
  rw [← Bool.not_eq_true, less_iff]; omega

theorem K_swap (isMin : Bool) (a : Array (Entry α)) {i j : Nat} (hi : i < a.size) (hj : j < a.size) (k : Nat) :
    K isMin (swap a i j) k = if k = j then K isMin a i else if k = i then K isMin a j else K isMin a k := by
  unfold K
  rw [get_swap a hi hj]
  split
  · simp [key]
  · split <;> simp [key]

/-- heap order on the first `n` slots -/
def Ordered (isMin : Bool) (a : Array (Entry α)) (n : Nat) : Prop :=
  ∀ k, 0 < k → k < n → K isMin a ((k - 1) / 2) ≤ K isMin a k

theorem up_order (isMin : Bool) (a : Array (Entry α)) (j n : Nat) (hn : n ≤ a.size) (hj : j < n)
    (h1 : ∀ k, 0 < k → k < n → k ≠ j → K isMin a ((k - 1) / 2) ≤ K isMin a k)
    (h2 : ∀ k, 0 < k → k < n → (k - 1) / 2 = j → 0 < j → K isMin a ((j - 1) / 2) ≤ K isMin a k) :
    Ordered isMin (up isMin a j) n := by
  fun_induction up isMin a j with
  | case1 a j i h =>
    intro k hk0 hkn
    by_cases hkj : k = j
    · subst hkj
      rcases h with h | h
      · omega
      · rw [less_false_iff] at h; exact h
    · exact h1 k hk0 hkn hkj
  | case2 a j i h ih =>
    have hij : i ≠ j := fun e => h (Or.inl e)
    have hl : K isMin a j < K isMin a i := by
      have : ¬ less isMin a j i = false := fun e => h (Or.inr e)
      rw [Bool.not_eq_false, less_iff] at this; exact this
    have hi : i < j := by omega
    have hsz : (swap a i j).size = a.size := size_swap _ _ _
    apply ih (by omega) (by omega)
    · intro k hk0 hkn hki
      rw [K_swap _ _ (by omega) (by omega), K_swap _ _ (by omega) (by omega)]
      have e1 := h1 k hk0 hkn
      have e2 := h2 k hk0 hkn
      clear ih h1 h2
      grind
    · intro k hk0 hkn hpk hi0
      rw [K_swap _ _ (by omega) (by omega), K_swap _ _ (by omega) (by omega)]
      have e1 := h1 k hk0 hkn
      have e2 := h1 i hi0 (by omega) (by omega)
      clear ih h1 h2
      grind

theorem downLoop_order (isMin : Bool) (a : Array (Entry α)) (i n : Nat) (hn : n ≤ a.size) (hi : i < n)
    (h1 : ∀ k, 0 < k → k < n → (k - 1) / 2 ≠ i → K isMin a ((k - 1) / 2) ≤ K isMin a k)
    (h2 : ∀ k, 0 < k → k < n → (k - 1) / 2 = i → 0 < i → K isMin a ((i - 1) / 2) ≤ K isMin a k) :
    Ordered isMin (downLoop isMin a i n).1 n := by
  fun_induction downLoop isMin a i n with
  | case1 a i j1 h =>
    intro k hk0 hkn
    apply h1 k hk0 hkn
    omega
  | case2 a i j1 h j hl =>
    intro k hk0 hkn
    by_cases hp : (k - 1) / 2 = i
    · rw [less_false_iff] at hl
      have hk : k = j1 ∨ k = j1 + 1 := by omega
      have hc : j1 + 1 < n → less isMin a (j1 + 1) j1 = false → K isMin a j1 ≤ K isMin a (j1 + 1) := by
        intro _ h; rwa [less_false_iff] at h
      have hc2 := less_iff isMin a (j1 + 1) j1
      rw [hp]
      clear h1 h2
      grind
    · exact h1 k hk0 hkn hp
  | case3 a i j1 h j hl ih =>
    have hlt : K isMin a j < K isMin a i := by
      rw [Bool.not_eq_false, less_iff] at hl; exact hl
    have hj : j < n := by simp only [j]; split <;> omega
    have hjc : j = j1 ∨ j = j1 + 1 := by simp only [j]; split <;> omega
    have hsz : (swap a i j).size = a.size := size_swap _ _ _
    have hsib : ∀ s, s < n → (s = j1 ∨ s = j1 + 1) → K isMin a j ≤ K isMin a s := by
      intro s hs hs'
      have hc2 := less_iff isMin a (j1 + 1) j1
      have hc3 := less_false_iff isMin a (j1 + 1) j1
      clear ih h1 h2
      grind
    apply ih (by omega) hj
    · intro k hk0 hkn hpk
      rw [K_swap _ _ (by omega) (by omega), K_swap _ _ (by omega) (by omega)]
      have e1 := h1 k hk0 hkn
      have e2 := h2 i
      have e3 := h2 j (by omega) hj (by omega)
      have e4 := hsib k hkn
      have e5 : (k - 1) / 2 = i → k = j1 ∨ k = j1 + 1 := by omega
      have e6 : (j - 1) / 2 = i := by omega
      clear ih h1 h2 hsib
      grind
    · intro k hk0 hkn hpk hj0
      rw [K_swap _ _ (by omega) (by omega), K_swap _ _ (by omega) (by omega)]
      have e1 := h1 k hk0 hkn
      have e6 : (j - 1) / 2 = i := by omega
      clear ih h1 h2 hsib
      grind


theorem up_noop (isMin : Bool) (a : Array (Entry α)) (j n : Nat) (hj : j < n) (ho : Ordered isMin a n) :
    up isMin a j = a := by
  unfold up
  simp only
  split
  · rfl
  · rename_i h
    exfalso
    apply h
    by_cases h0 : j = 0
    · left; omega
    · right; rw [less_false_iff]; exact ho j (by omega) hj

theorem downLoop_idx_ge (isMin : Bool) (a : Array (Entry α)) (i n : Nat) : i ≤ (downLoop isMin a i n).2 := by
  fun_induction downLoop isMin a i n with
  | case1 => simp
  | case2 => simp
  | case3 a i j1 h j hl ih =>
    have : i < j := by simp only [j]; split <;> omega
    omega

/-- `down` reported "not moved": nothing changed and no child is smaller -/
theorem downLoop_stay (isMin : Bool) (a : Array (Entry α)) (i n : Nat) (h : (downLoop isMin a i n).2 ≤ i) :
    (downLoop isMin a i n).1 = a ∧ ∀ k, 0 < k → k < n → (k - 1) / 2 = i → K isMin a i ≤ K isMin a k := by
  have hge := downLoop_idx_ge isMin a i n
  revert h hge
  fun_cases downLoop isMin a i n with
  | case1 j1 hc =>
    intro _ _
    refine ⟨rfl, ?_⟩
    intro k hk0 hkn hp; omega
  | case2 j1 hc j hl =>
    intro _ _
    refine ⟨rfl, ?_⟩
    intro k hk0 hkn hp
    rw [less_false_iff] at hl
    have hk : k = j1 ∨ k = j1 + 1 := by omega
    have hc2 := less_iff isMin a (j1 + 1) j1
    have hc3 := less_false_iff isMin a (j1 + 1) j1
    grind
  | case3 j1 hc j hl =>
    intro h _
    exfalso
    have := downLoop_idx_ge isMin (swap a i j) j n
    have : i < j := by simp only [j]; split <;> omega
    omega

/-- `down` reported "moved": some child was smaller -/
theorem downLoop_move (isMin : Bool) (a : Array (Entry α)) (i n : Nat) (h : i < (downLoop isMin a i n).2) :
    ∃ k, 0 < k ∧ k < n ∧ (k - 1) / 2 = i ∧ K isMin a k < K isMin a i := by
  revert h
  fun_cases downLoop isMin a i n with
  | case1 j1 hc => intro h; simp at h
  | case2 j1 hc j hl => intro h; simp at h
  | case3 j1 hc j hl =>
    intro _
    rw [Bool.not_eq_false, less_iff] at hl
    refine ⟨j, ?_, ?_, ?_, hl⟩ <;> simp only [j] <;> split <;> omega

theorem root_min (isMin : Bool) (a : Array (Entry α)) (n : Nat) (ho : Ordered isMin a n) :
    ∀ k, k < n → K isMin a 0 ≤ K isMin a k := by
  intro k
  induction k using Nat.strongRecOn with
  | _ k ih =>
    intro hk
    by_cases h0 : k = 0
    · subst h0; exact Int.le_refl _
    · have := ho k (by omega) hk
      have := ih ((k - 1) / 2) (by omega) (by omega)
      omega

theorem Ordered.mono {isMin : Bool} {a : Array (Entry α)} {n m : Nat} (h : Ordered isMin a n) (hm : m ≤ n) :
    Ordered isMin a m := fun k h0 hk => h k h0 (by omega)


theorem get_pop (a : Array (Entry α)) (k : Nat) (hk : k < a.size - 1) : a.pop[k]! = a[k]! := by
  rw [getElem!_pos a.pop k (by simpa using hk), getElem!_pos a k (by omega)]
  simp

theorem cores_pop (a : Array (Entry α)) (h : 0 < a.size) :
    cores a = cores a.pop ++ [a[a.size - 1]!.core] := by
  have hne : a.toList ≠ [] := by
    intro e
    have : a.size = 0 := by rw [← Array.length_toList, e]; rfl
    omega
  have h1 := List.dropLast_concat_getLast hne
  have h2 : a.toList.getLast hne = a[a.size - 1]! := by
    rw [List.getLast_eq_getElem, getElem!_pos a _ (by omega)]
    simp
  unfold cores
  rw [Array.toList_pop, ← h2]
  conv => lhs; rw [← h1]
  simp

theorem cores_push (a : Array (Entry α)) (e : Entry α) : cores (a.push e) = cores a ++ [e.core] := by
  simp [cores]

theorem K_pop (isMin : Bool) (a : Array (Entry α)) (k : Nat) (hk : k < a.size - 1) :
    K isMin a.pop k = K isMin a k := by
  unfold K; rw [get_pop a k hk]

theorem K_push (isMin : Bool) (a : Array (Entry α)) (e : Entry α) (k : Nat) (hk : k < a.size) :
    K isMin (a.push e) k = K isMin a k := by
  unfold K
  rw [getElem!_pos (a.push e) k (by simp; omega), getElem!_pos a k hk]
  simp [Array.getElem_push, hk]

theorem Reach.K_above {n} {isMin : Bool} {a b : Array (Entry α)} (h : Reach n a b) (hn : n ≤ a.size) (k : Nat) (hk : n ≤ k) :
    K isMin b k = K isMin a k := by
  unfold K; rw [h.above hn k hk]

/-- the array part of `container/heap.Remove(h, i)` before `h.Pop()` -/
def removeArr (isMin : Bool) (a : Array (Entry α)) (i : Nat) : Array (Entry α) :=
  let n := a.size - 1
  if n ≠ i then
    let a0 := swap a i n
    let d := down isMin a0 i n
    if d.2 = false then up isMin d.1 i else d.1
  else a

theorem removeArr_spec (isMin : Bool) (a : Array (Entry α)) (i : Nat) (hi : i < a.size)
    (ho : Ordered isMin a a.size) :
    Reach a.size a (removeArr isMin a i) ∧
    (removeArr isMin a i)[a.size - 1]!.core = a[i]!.core ∧
    Ordered isMin (removeArr isMin a i) (a.size - 1) := by
  unfold removeArr
  simp only
  split
  · rename_i hne
    have hn : a.size - 1 < a.size := by omega
    have hin : i < a.size - 1 := by omega
    have hsz := size_swap a i (a.size - 1)
    have r0 : Reach a.size a (swap a i (a.size - 1)) := Reach.of_swap a hi hn
    have rd : Reach (a.size - 1) (swap a i (a.size - 1)) (downLoop isMin (swap a i (a.size - 1)) i (a.size - 1)).1 :=
      downLoop_reach _ _ _ _
    have hK : ∀ k, K isMin (swap a i (a.size - 1)) k =
        if k = a.size - 1 then K isMin a i else if k = i then K isMin a (a.size - 1) else K isMin a k :=
      fun k => K_swap isMin a hi hn k
    have hlast : (swap a i (a.size - 1))[a.size - 1]!.core = a[i]!.core := by
      rw [get_swap a hi hn]; simp [Entry.core]
    simp only [down]
    by_cases hmv : (downLoop isMin (swap a i (a.size - 1)) i (a.size - 1)).2 > i
    case neg =>
      -- not moved: `up`
      simp only [hmv, decide_false, if_true]
      have hnm : (downLoop isMin (swap a i (a.size - 1)) i (a.size - 1)).2 ≤ i := by omega
      obtain ⟨heq, hch⟩ := downLoop_stay _ _ _ _ hnm
      rw [heq]
      have ru : Reach (a.size - 1) (swap a i (a.size - 1)) (up isMin (swap a i (a.size - 1)) i) :=
        up_reach _ _ _ _ hin
      refine ⟨r0.trans (ru.mono (by omega)), ?_, ?_⟩
      · rw [ru.above (by omega) _ (Nat.le_refl _)]; exact hlast
      · apply up_order _ _ _ _ (by omega) hin
        · intro k hk0 hkn hki
          by_cases hp : (k - 1) / 2 = i
          · exact hp ▸ hch k hk0 hkn hp
          · rw [hK, hK]
            have := ho k hk0 (by omega)
            grind
        · intro k hk0 hkn hp hi0
          rw [hK, hK]
          have := ho k hk0 (by omega)
          have := ho i hi0 (by omega)
          grind
    case pos =>
      -- moved
      simp only [hmv, decide_true, Bool.true_eq_false, if_false]
      have hm : i < (downLoop isMin (swap a i (a.size - 1)) i (a.size - 1)).2 := hmv
      obtain ⟨c, hc0, hcn, hcp, hcl⟩ := downLoop_move _ _ _ _ hm
      refine ⟨r0.trans (rd.mono (by omega)), ?_, ?_⟩
      · rw [rd.above (by omega) _ (Nat.le_refl _)]; exact hlast
      · apply downLoop_order _ _ _ _ (by omega) hin
        · intro k hk0 hkn hp
          rw [hK, hK]
          rw [hK, hK] at hcl
          have := ho k hk0 (by omega)
          have := ho c hc0 (by omega)
          have := ho i
          grind
        · intro k hk0 hkn hp hi0
          rw [hK, hK]
          have := ho k hk0 (by omega)
          have := ho i hi0 (by omega)
          grind
  · rename_i he
    have he : a.size - 1 = i := by omega
    exact ⟨.refl _, by rw [he], ho.mono (by omega)⟩

/-- the array part of `container/heap.Pop(h)` before `h.Pop()` -/
theorem popArr_spec (isMin : Bool) (a : Array (Entry α)) (h0 : 0 < a.size) (ho : Ordered isMin a a.size) :
    Reach a.size a (down isMin (swap a 0 (a.size - 1)) 0 (a.size - 1)).1 ∧
    (down isMin (swap a 0 (a.size - 1)) 0 (a.size - 1)).1[a.size - 1]!.core = a[0]!.core ∧
    Ordered isMin (down isMin (swap a 0 (a.size - 1)) 0 (a.size - 1)).1 (a.size - 1) := by
  have hn : a.size - 1 < a.size := by omega
  have hsz := size_swap a 0 (a.size - 1)
  have r0 : Reach a.size a (swap a 0 (a.size - 1)) := Reach.of_swap a h0 hn
  have rd : Reach (a.size - 1) (swap a 0 (a.size - 1)) (downLoop isMin (swap a 0 (a.size - 1)) 0 (a.size - 1)).1 :=
    downLoop_reach _ _ _ _
  have hK : ∀ k, K isMin (swap a 0 (a.size - 1)) k =
      if k = a.size - 1 then K isMin a 0 else if k = 0 then K isMin a (a.size - 1) else K isMin a k :=
    fun k => K_swap isMin a h0 hn k
  have hlast : (swap a 0 (a.size - 1))[a.size - 1]!.core = a[0]!.core := by
    rw [get_swap a h0 hn]; simp [Entry.core]
  simp only [down]
  refine ⟨r0.trans (rd.mono (by omega)), ?_, ?_⟩
  · rw [rd.above (by omega) _ (Nat.le_refl _)]; exact hlast
  · by_cases h1 : a.size - 1 = 0
    · intro k hk0 hkn; omega
    · apply downLoop_order _ _ _ _ (by omega) (by omega)
      · intro k hk0 hkn hp
        rw [hK, hK]
        have := ho k hk0 (by omega)
        grind
      · intro k hk0 hkn hp hi0; omega


/-- IDs in slot order -/
def ids (a : Array (Entry α)) : List ID := (cores a).map (·.id)

/-- The representation invariant of `Heap`: `Index` = slot, IDs pairwise distinct, `lookup` keys =
IDs in the array, heap order. -/
structure Inv (h : Heap α) : Prop where
  idx : IdxOK h.items
  nodup : (ids h.items).Nodup
  lookup : ∀ id, h.lookup id = true ↔ id ∈ ids h.items
  order : Ordered h.isMin h.items h.items.size

theorem Inv.new (isMin : Bool) : Inv (Heap.new isMin : Heap α) where
  idx := by intro k hk; simp [Heap.new] at hk
  nodup := by simp [ids, cores, Heap.new]
  lookup := by simp [ids, cores, Heap.new]
  order := by intro k _ hk; simp [Heap.new] at hk

theorem mem_ids_iff (a : Array (Entry α)) (id : ID) : id ∈ ids a ↔ ∃ k, k < a.size ∧ a[k]!.id = id := by
  simp only [ids, cores, List.map_map, List.mem_map, Array.mem_toList_iff, Function.comp]
  constructor
  · rintro ⟨e, he, rfl⟩
    obtain ⟨k, hk, rfl⟩ := Array.getElem_of_mem he
    exact ⟨k, hk, by rw [getElem!_pos a k hk]; rfl⟩
  · rintro ⟨k, hk, rfl⟩
    exact ⟨a[k], Array.getElem_mem hk, by rw [getElem!_pos a k hk]; rfl⟩

theorem mem_cores_iff (a : Array (Entry α)) (c : Entry α) : c ∈ cores a ↔ ∃ k, k < a.size ∧ a[k]!.core = c := by
  simp only [cores, List.mem_map, Array.mem_toList_iff]
  constructor
  · rintro ⟨e, he, rfl⟩
    obtain ⟨k, hk, rfl⟩ := Array.getElem_of_mem he
    exact ⟨k, hk, by rw [getElem!_pos a k hk]⟩
  · rintro ⟨k, hk, rfl⟩
    exact ⟨a[k], Array.getElem_mem hk, by rw [getElem!_pos a k hk]⟩

/-- shared tail of `Pop`/`Remove`: after the array part, `innerPop`. -/
theorem innerPop_spec (h : Heap α) (hI : Inv h) (a1 : Array (Entry α)) (c : Entry α)
    (hr : Reach h.items.size h.items a1) (h0 : 0 < h.items.size)
    (hc : a1[h.items.size - 1]!.core = c)
    (ho : Ordered h.isMin a1 (h.items.size - 1)) :
    let r := ({ h with items := a1 } : Heap α).innerPop
    r.2.core = c ∧ Inv r.1 ∧ r.1.isMin = h.isMin ∧ (cores h.items).Perm (c :: cores r.1.items) := by
  have hsz := hr.size
  have hp := hr.cores (Nat.le_refl _)
  have hidx := hr.idxOK (Nat.le_refl _) hI.idx
  have hcp := cores_pop a1 (by omega)
  rw [hsz, hc] at hcp
  have hperm : (cores h.items).Perm (c :: cores a1.pop) := by
    refine hp.symm.trans ?_
    rw [hcp]
    exact List.perm_append_comm
  have hidp : (ids h.items).Perm (c.id :: ids a1.pop) := by
    have := hperm.map (·.id)
    simpa [ids] using this
  have hnd := (hidp.nodup_iff).1 hI.nodup
  rw [List.nodup_cons] at hnd
  simp only [Heap.innerPop, hsz]
  refine ⟨hc, ?_, trivial, hperm⟩
  constructor
  · intro k hk
    simp only [Array.size_pop] at hk
    rw [get_pop a1 k hk]
    exact hidx k (by omega)
  · exact hnd.2
  · intro id
    have hcid : a1[h.items.size - 1]!.id = c.id := by rw [← hc]; rfl
    simp only [hcid]
    have hl := hI.lookup id
    have hm := hidp.mem_iff (a := id)
    rw [List.mem_cons] at hm
    by_cases hid : id = c.id
    · simp only [hid, if_true]
      constructor
      · intro h; cases h
      · intro h; exact absurd h hnd.1
    · simp only [hid, if_false]
      rw [hl, hm]; simp [hid]
  · intro k hk0 hk
    simp only [Array.size_pop] at hk
    rw [K_pop _ _ _ (by omega), K_pop _ _ _ (by omega)]
    exact ho k hk0 (by omega)

theorem remove_spec (h : Heap α) (hI : Inv h) (i : Nat) (hi : i < h.items.size) :
    ∃ e, (h.remove i).2 = some e ∧ e.core = h.items[i]!.core ∧ Inv (h.remove i).1 ∧
      (h.remove i).1.isMin = h.isMin ∧ (cores h.items).Perm (h.items[i]!.core :: cores (h.remove i).1.items) := by
  obtain ⟨hr, hc, ho⟩ := removeArr_spec h.isMin h.items i hi hI.order
  have := innerPop_spec h hI (removeArr h.isMin h.items i) _ hr (by omega) hc ho
  have hrm : h.remove i = (({ h with items := removeArr h.isMin h.items i } : Heap α).innerPop.1,
      some ({ h with items := removeArr h.isMin h.items i } : Heap α).innerPop.2) := by
    simp only [Heap.remove, removeArr]
    rw [if_neg (by omega)]
  rw [hrm]
  exact ⟨_, rfl, this.1, this.2.1, this.2.2.1, this.2.2.2⟩

theorem remove_none (h : Heap α) (i : Nat) (hi : h.items.size ≤ i) : h.remove i = (h, none) := by
  simp [Heap.remove, hi]

theorem pop_spec (h : Heap α) (hI : Inv h) (h0 : 0 < h.items.size) :
    ∃ e, (h.pop).2 = some e ∧ e.core = h.items[0]!.core ∧ Inv (h.pop).1 ∧
      (h.pop).1.isMin = h.isMin ∧ (cores h.items).Perm (h.items[0]!.core :: cores (h.pop).1.items) := by
  obtain ⟨hr, hc, ho⟩ := popArr_spec h.isMin h.items h0 hI.order
  have := innerPop_spec h hI _ _ hr h0 hc ho
  have hrm : h.pop = (({ h with items := (down h.isMin (swap h.items 0 (h.items.size - 1)) 0 (h.items.size - 1)).1 } : Heap α).innerPop.1,
      some ({ h with items := (down h.isMin (swap h.items 0 (h.items.size - 1)) 0 (h.items.size - 1)).1 } : Heap α).innerPop.2) := by
    simp only [Heap.pop]
    rw [if_neg (by omega)]
  rw [hrm]
  exact ⟨_, rfl, this.1, this.2.1, this.2.2.1, this.2.2.2⟩

theorem pop_none (h : Heap α) (h0 : h.items.size = 0) : h.pop = (h, none) := by
  simp [Heap.pop, h0]

/-- `Push` of an entry whose ID is present changes nothing. -/
theorem push_dup (h : Heap α) (hI : Inv h) (e : Entry α) (hh : h.lookup e.id = true) : h.push e = h := by
  have hne : 0 < h.items.size := by
    have := (hI.lookup e.id).1 hh
    rw [mem_ids_iff] at this
    obtain ⟨k, hk, _⟩ := this; omega
  simp only [Heap.push, Heap.innerPush, Heap.has, hh, if_true]
  rw [up_noop h.isMin h.items _ _ (by omega) hI.order]

/-- `Push` of an entry with a new ID and `Index = Len()`. -/
theorem push_new (h : Heap α) (hI : Inv h) (e : Entry α) (hh : h.lookup e.id = false)
    (hix : e.index = h.items.size) :
    Inv (h.push e) ∧ (h.push e).isMin = h.isMin ∧ (cores (h.push e).items).Perm (e.core :: cores h.items) ∧
      ∀ id, (h.push e).lookup id = (if id = e.id then true else h.lookup id) := by
  simp only [Heap.push, Heap.innerPush, Heap.has, hh, Bool.false_eq_true, if_false, Array.size_push,
    Nat.add_sub_cancel]
  have hr : Reach (h.items.size + 1) (h.items.push e) (up h.isMin (h.items.push e) h.items.size) :=
    up_reach _ _ _ _ (by omega)
  have hsz := hr.size
  have hp := hr.cores (by simp)
  rw [cores_push] at hp
  have hp' : (cores (up h.isMin (h.items.push e) h.items.size)).Perm (e.core :: cores h.items) :=
    hp.trans List.perm_append_comm
  have hidx0 : IdxOK (h.items.push e) := by
    intro k hk
    simp only [Array.size_push] at hk
    rw [getElem!_pos _ k (by simp; omega)]
    simp only [Array.getElem_push]
    split
    · rename_i hk'; have := hI.idx k hk'; rwa [getElem!_pos _ k hk'] at this
    · rw [hix]; omega
  have hidp : (ids (up h.isMin (h.items.push e) h.items.size)).Perm (e.id :: ids h.items) := by
    have := hp'.map (·.id)
    simpa [ids] using this
  have hnotin : e.id ∉ ids h.items := by
    intro hm; have := (hI.lookup e.id).2 hm; simp [hh] at this
  refine ⟨?_, trivial, hp', fun id => trivial⟩
  constructor
  · exact hr.idxOK (by simp) hidx0
  · exact (hidp.nodup_iff).2 (List.nodup_cons.2 ⟨hnotin, hI.nodup⟩)
  · intro id
    simp only
    rw [hidp.mem_iff, List.mem_cons]
    by_cases hid : id = e.id
    · simp [hid]
    · simp [hid, hI.lookup id]
  · simp only [hsz, Array.size_push]
    apply up_order _ _ _ _ (by simp) (by omega)
    · intro k hk0 hkn hkj
      rw [K_push _ _ _ _ (by omega), K_push _ _ _ _ (by omega)]
      exact hI.order k hk0 (by omega)
    · intro k hk0 hkn hp hj0; omega

theorem first_spec (h : Heap α) (hI : Inv h) :
    (h.items.size = 0 → h.first = none) ∧
    (0 < h.items.size → h.first = some h.items[0]! ∧
      ∀ k, k < h.items.size → K h.isMin h.items 0 ≤ K h.isMin h.items k) := by
  constructor
  · intro h0; simp [Heap.first, h0]
  · intro h0
    refine ⟨by simp only [Heap.first]; rw [if_neg (by omega)], root_min _ _ _ hI.order⟩

theorem get_spec (h : Heap α) (hI : Inv h) (id : ID) :
    (h.lookup id = false → h.get id = none) ∧
    (h.lookup id = true → ∃ k, k < h.items.size ∧ h.get id = some h.items[k]! ∧ h.items[k]!.id = id ∧
      h.items[k]!.index = k) := by
  constructor
  · intro hl; simp [Heap.get, hl]
  · intro hl
    have hm := (hI.lookup id).1 hl
    rw [mem_ids_iff] at hm
    obtain ⟨k, hk, hkid⟩ := hm
    have hsome : (h.items.find? (fun e => e.id == id)).isSome := by
      rw [Array.find?_isSome]
      exact ⟨h.items[k], Array.getElem_mem hk, by rw [getElem!_pos _ k hk] at hkid; simp [hkid]⟩
    obtain ⟨e, he⟩ := Option.isSome_iff_exists.1 hsome
    have hmem := Array.mem_of_find?_eq_some he
    have hp := Array.find?_some he
    obtain ⟨k', hk', rfl⟩ := Array.getElem_of_mem hmem
    refine ⟨k', hk', ?_, ?_, ?_⟩
    · simp only [Heap.get, hl, if_true]; rw [he, getElem!_pos _ k' hk']
    · rw [getElem!_pos _ k' hk']; simpa using hp
    · exact hI.idx k' hk'
end HyperModel.Heap
