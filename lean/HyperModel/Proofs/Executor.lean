import HyperModel.Model.Executor
/-! Lemmas for C08: the inductive invariant of the coarse executor relation. -/
namespace HyperModel.Executor

/-- `j` transitively waits for `i` through `blocked` edges -/
inductive Chain (s : State) : Nat → Nat → Prop where
  | direct {i j : Nat} : s.blocked i j = true → Chain s i j
  | trans {i d j : Nat} : s.blocked d j = true → Chain s i d → Chain s i j

theorem Chain.has_blocker {s : State} {i j : Nat} (h : Chain s i j) : ∃ d, s.blocked d j = true := by
  cases h with
  | direct h => exact ⟨_, h⟩
  | trans h _ => exact ⟨_, h⟩

theorem Chain.mono {s s' : State} (h : ∀ d j, s.blocked d j = true → s'.blocked d j = true)
    {i j : Nat} (c : Chain s i j) : Chain s' i j := by
  induction c with
  | direct hb => exact .direct (h _ _ hb)
  | trans hb _ ih => exact .trans (h _ _ hb) ih

/-- removing the row of a task that nobody blocks keeps every chain that does not start at it -/
theorem Chain.remove_row {s s' : State} {d0 : Nat}
    (hrow : ∀ d j, d ≠ d0 → s.blocked d j = true → s'.blocked d j = true)
    (hfree : ∀ x, s.blocked x d0 = false)
    {i j : Nat} (c : Chain s i j) (hi : i ≠ d0) : Chain s' i j := by
  induction c with
  | direct hb => exact .direct (hrow _ _ hi hb)
  | @trans d j hb c ih =>
    by_cases hd : d = d0
    · subst hd
      obtain ⟨x, hx⟩ := c.has_blocker
      rw [hfree x] at hx; cases hx
    · exact .trans (hrow _ _ hd hb) ih

theorem executed_iff (s : State) (j : Nat) :
    executed s j = true ↔ (s.status j = .done ∨ s.status j = .skipped) := by
  simp [executed]

theorem ended_of_executed {s : State} {j : Nat} (h : executed s j = true) : ended s j = true := by
  rw [executed_iff] at h
  unfold ended
  rcases h with h | h <;> rw [h]

theorem executed_false_iff (s : State) (j : Nat) :
    executed s j = false ↔ (s.status j ≠ .done ∧ s.status j ≠ .skipped) := by
  simp [executed]

/-- number of tasks that block `j` -/
def cnt (s : State) (j : Nat) : Nat := (List.range s.n).countP (fun d => s.blocked d j)

theorem countP_remove {l : List Nat} {p : Nat → Bool} {d : Nat} (hn : l.Nodup) (hd : d ∈ l)
    (hp : p d = true) : l.countP (fun x => (x != d) && p x) + 1 = l.countP p := by
  induction l with
  | nil => cases hd
  | cons a l ih =>
    rw [List.nodup_cons] at hn
    rw [List.countP_cons, List.countP_cons]
    rcases List.mem_cons.mp hd with rfl | hd'
    · have h1 : l.countP (fun x => (x != d) && p x) = l.countP p := by
        apply List.countP_congr
        intro x hx
        have : x ≠ d := fun h => hn.1 (h ▸ hx)
        simp [this]
      rw [h1]
      simp [hp]
    · have h2 := ih hn.2 hd'
      have hne : a ≠ d := fun h => hn.1 (h ▸ hd')
      have h3 : ((a != d) && p a) = p a := by simp [hne]
      rw [h3]
      omega

theorem countP_same {l : List Nat} {p : Nat → Bool} {d : Nat} (hp : p d = false) :
    l.countP (fun x => (x != d) && p x) = l.countP p := by
  apply List.countP_congr
  intro x _
  by_cases h : x = d
  · subst h; simp [hp]
  · simp [h]

/-- The order-relevant part of the invariant. -/
structure Inv (s : State) : Prop where
  blk : ∀ d j, s.blocked d j = true → d < j ∧ j < s.n ∧ executed s d = false ∧ s.status j = .waiting
  cnt : ∀ j, j < s.n → s.status j = .waiting → s.deps j = (cnt s j : Int) ∧ 0 < cnt s j
  rdr : ∀ o r, s.readers o r = true → o < r ∧ r < s.n ∧ executed s r = false ∧ o ∈ s.reading r
  safe : ∀ i j, i < j → j < s.n → conflictKeys (s.keys i) (s.keys j) = true →
    ended s i = true ∨ Chain s i j
  own : ∀ k o, s.nodes k = some o → o < s.n ∧
    ∀ i rd, i < s.n → (⟨k, rd⟩ : KeyReq) ∈ s.keys i → i ≠ o →
      ended s i = true ∨ Chain s i o ∨ (rd = true ∧ s.readers o i = true)
  free : ∀ k, s.nodes k = none → ∀ i rd, i < s.n → (⟨k, rd⟩ : KeyReq) ∉ s.keys i

theorem inv_init (w : Nat) : Inv (init w) := by
  constructor <;> simp [init]

/-- a task that is not waiting is blocked by nobody (I3) -/
theorem Inv.no_blocker {s : State} (h : Inv s) {j : Nat} (hj : s.status j ≠ .waiting) (x : Nat) :
    s.blocked x j = false := by
  cases hb : s.blocked x j with
  | false => rfl
  | true => exact absurd (h.blk x j hb).2.2.2 hj

section complete
variable {s : State} {d : Nat} {st : Status} {order : List Nat}

theorem complete_blocked (x j : Nat) :
    (complete s d st order).blocked x j = if x = d then false else s.blocked x j := rfl

theorem complete_status (j : Nat) :
    (complete s d st order).status j =
      if j = d then st else if s.blocked d j && decide (s.deps j - 1 ≤ 0) then .queued else s.status j := rfl

theorem cnt_complete (j : Nat) :
    cnt (complete s d st order) j = (List.range s.n).countP (fun x => (x != d) && s.blocked x j) := by
  unfold cnt
  apply List.countP_congr
  intro x _
  simp only [complete_blocked]
  by_cases h : x = d <;> simp [h]

/-- completion of a task `d` that is not waiting (running, or queued and being skipped) into
an executed status preserves the invariant -/
theorem inv_complete (h : Inv s) (hd : d < s.n) (hst : s.status d ≠ .waiting)
    (hex : st = .done ∨ st = .skipped) : Inv (complete s d st order) := by
  have hfree : ∀ x, s.blocked x d = false := h.no_blocker hst
  have hexd : executed (complete s d st order) d = true := by
    rw [executed_iff, complete_status]; simpa using hex
  -- executed tasks stay executed, non-executed other than d stay non-executed
  have hexmono : ∀ i, executed s i = true → executed (complete s d st order) i = true := by
    intro i hi
    rw [executed_iff] at hi ⊢
    rw [complete_status]
    by_cases hid : i = d
    · simpa [hid] using hex
    · have : s.blocked d i = false := by
        apply h.no_blocker
        rcases hi with hi | hi <;> simp [hi]
      simpa [hid, this] using hi
  have hexkeep : ∀ i, i ≠ d → executed s i = false → executed (complete s d st order) i = false := by
    intro i hid hi
    rw [executed_false_iff] at hi ⊢
    rw [complete_status]
    simp only [hid, if_false]
    split <;> simp [hi.1, hi.2]
  have hendmono : ∀ i, ended s i = true → ended (complete s d st order) i = true := by
    intro i hi
    by_cases hid : i = d
    · rw [hid]; exact ended_of_executed hexd
    · have hnw : s.status i ≠ .waiting := by
        intro e; unfold ended at hi; rw [e] at hi; cases hi
      have : s.blocked d i = false := h.no_blocker hnw d
      unfold ended at hi ⊢
      rw [complete_status]
      simpa [hid, this] using hi
  have hchain : ∀ i j, i ≠ d → Chain s i j → Chain (complete s d st order) i j := by
    intro i j hi c
    refine c.remove_row (d0 := d) ?_ hfree hi
    intro x j hx hb
    simp [complete_blocked, hx, hb]
  constructor
  · intro x j hb
    rw [complete_blocked] at hb
    by_cases hx : x = d
    · simp [hx] at hb
    · simp only [hx, if_false] at hb
      obtain ⟨h1, h2, h3, h4⟩ := h.blk x j hb
      refine ⟨h1, h2, hexkeep x hx h3, ?_⟩
      rw [complete_status]
      have hjd : j ≠ d := by
        intro hjd; subst hjd; exact hst h4
      simp only [hjd, if_false]
      by_cases hbd : s.blocked d j = true
      · -- both x and d block j: the counter is at least 2
        have hc := (h.cnt j h2 h4).1
        have h2' : 2 ≤ cnt s j := by
          have := countP_remove (l := List.range s.n) (p := fun y => s.blocked y j) (d := d)
            List.nodup_range (List.mem_range.mpr hd) hbd
          have hpos : 0 < (List.range s.n).countP (fun y => (y != d) && s.blocked y j) := by
            apply List.countP_pos_iff.mpr
            exact ⟨x, List.mem_range.mpr (by omega), by simp [hx, hb]⟩
          unfold cnt; omega
        have : ¬ (s.deps j - 1 ≤ 0) := by omega
        simp [hbd, this, h4]
      · simp [hbd, h4]
  · intro j hj hw
    rw [complete_status] at hw
    have hj' : j < s.n := hj
    by_cases hjd : j = d
    · subst hjd; simp at hw; rcases hex with rfl | rfl <;> cases hw
    · simp only [hjd, if_false] at hw
      rw [cnt_complete]
      show (if s.blocked d j then s.deps j - 1 else s.deps j) = _ ∧ _
      by_cases hbd : s.blocked d j = true
      · have hw0 := (h.blk d j hbd).2.2.2
        have hc := h.cnt j hj' hw0
        have := countP_remove (l := List.range s.n) (p := fun y => s.blocked y j) (d := d)
          List.nodup_range (List.mem_range.mpr hd) hbd
        by_cases hle : s.deps j - 1 ≤ 0
        · simp [hbd, hle] at hw
        · simp only [hbd, if_true]
          unfold cnt at hc
          omega
      · have hbd' : s.blocked d j = false := by simpa using hbd
        simp only [hbd', Bool.false_and, Bool.false_eq_true, if_false] at hw
        have hc := h.cnt j hj' hw
        have := countP_same (l := List.range s.n) (p := fun y => s.blocked y j) (d := d) hbd'
        simp only [hbd', Bool.false_eq_true, if_false]
        unfold cnt at hc
        omega
  · intro o r hr
    have hr' : (if r = d ∧ o ∈ s.reading d then false else s.readers o r) = true := hr
    by_cases hrd : r = d
    · subst hrd
      by_cases ho : o ∈ s.reading r
      · simp [ho] at hr'
      · simp only [ho, and_false, if_false] at hr'
        exact absurd (h.rdr o r hr').2.2.2 ho
    · simp only [hrd, false_and, if_false] at hr'
      obtain ⟨h1, h2, h3, h4⟩ := h.rdr o r hr'
      refine ⟨h1, h2, hexkeep r hrd h3, ?_⟩
      show o ∈ (if r = d then [] else s.reading r)
      simpa [hrd] using h4
  · intro i j hij hj hc
    by_cases hid : i = d
    · left; rw [hid]; exact ended_of_executed hexd
    · rcases h.safe i j hij hj hc with he | hch
      · left; exact hendmono i he
      · right; exact hchain i j hid hch
  · intro k o hk
    obtain ⟨ho, hrest⟩ := h.own k o hk
    refine ⟨ho, ?_⟩
    intro i rd hi hmem hio
    by_cases hid : i = d
    · left; rw [hid]; exact ended_of_executed hexd
    · rcases hrest i rd hi hmem hio with he | hch | ⟨hrd, hr⟩
      · left; exact hendmono i he
      · right; left; exact hchain i o hid hch
      · right; right
        refine ⟨hrd, ?_⟩
        show (if i = d ∧ o ∈ s.reading d then false else s.readers o i) = true
        simp [hid, hr]
  · intro k hk i rd hi
    exact h.free k hk i rd hi

end complete

/-! ## Registration (`Run`) -/

def setNode (s : State) (k t : Nat) : State :=
  { s with nodes := fun k' => if k' = k then some t else s.nodes k' }

def addReader (s : State) (lt t : Nat) : State :=
  { s with
    reading := fun x => if x = t then ins lt (s.reading t) else s.reading x
    readers := fun o r => if o = lt ∧ r = t then true else s.readers o r }

def blockAll (s : State) (t : Nat) (rs : List Nat) : State :=
  { s with blocked := fun d j => if j = t ∧ d ∈ rs then true else s.blocked d j }

def insAll (rs ds : List Nat) : List Nat := rs.foldl (fun a r => ins r a) ds

theorem mem_ins {x y : Nat} {l : List Nat} : x ∈ ins y l ↔ x = y ∨ x ∈ l := by
  unfold ins; split
  · constructor
    · exact Or.inr
    · rintro (rfl | h) <;> assumption
  · simp

theorem nodup_ins {y : Nat} {l : List Nat} (h : l.Nodup) : (ins y l).Nodup := by
  unfold ins; split
  · exact h
  · exact List.nodup_cons.mpr ⟨‹_›, h⟩

theorem mem_insAll {x : Nat} {rs ds : List Nat} : x ∈ insAll rs ds ↔ x ∈ rs ∨ x ∈ ds := by
  induction rs generalizing ds with
  | nil => simp [insAll]
  | cons r rs ih =>
    have : insAll (r :: rs) ds = insAll rs (ins r ds) := rfl
    rw [this, ih, mem_ins]; simp only [List.mem_cons]
    constructor
    · rintro (h | h | h) <;> simp [h]
    · rintro ((h | h) | h) <;> simp [h]

theorem nodup_insAll {rs ds : List Nat} (h : ds.Nodup) : (insAll rs ds).Nodup := by
  induction rs generalizing ds with
  | nil => exact h
  | cons r rs ih => exact ih (nodup_ins h)

/-- Loop invariant of `Run` for the new task `t`: `pre` = keys already processed,
`ds` = the local set `dependencies`. -/
structure LInv (s : State) (t : Nat) (pre : List KeyReq) (ds : List Nat) : Prop where
  n_eq : s.n = t + 1
  st_t : s.status t = .waiting
  blk : ∀ d j, s.blocked d j = true → d < j ∧ j < s.n ∧ executed s d = false ∧ s.status j = .waiting
  rdr : ∀ o r, s.readers o r = true → o < r ∧ r < s.n ∧ executed s r = false ∧ o ∈ s.reading r
  cntlt : ∀ j, j < t → s.status j = .waiting → s.deps j = (cnt s j : Int) ∧ 0 < cnt s j
  safe : ∀ i j, i < j → j < t → conflictKeys (s.keys i) (s.keys j) = true →
    ended s i = true ∨ Chain s i j
  newsafe : ∀ i, i < t → ∀ x ∈ s.keys i, ∀ y ∈ pre, x.key = y.key → (x.read && y.read) = false →
    ended s i = true ∨ Chain s i t
  own : ∀ k o, s.nodes k = some o → o < s.n ∧ (o = t → ∃ y ∈ pre, y.key = k) ∧
    ∀ i rd, i < s.n → (⟨k, rd⟩ : KeyReq) ∈ s.keys i → i ≠ o →
      (i = t ∧ ¬ ∃ y ∈ pre, y.key = k) ∨
      ended s i = true ∨ Chain s i o ∨ (rd = true ∧ s.readers o i = true)
  free : ∀ k, s.nodes k = none → ∀ i rd, i < s.n → (⟨k, rd⟩ : KeyReq) ∈ s.keys i →
    i = t ∧ ¬ ∃ y ∈ pre, y.key = k
  dsnd : ds.Nodup
  ds_sup : ∀ d, s.blocked d t = true → d ∈ ds
  ds_live : ∀ d, d ∈ ds → executed s d = false → s.blocked d t = true

theorem cnt_blockAll {s : State} {t : Nat} {rs : List Nat} {j : Nat} (hj : j ≠ t) :
    cnt (blockAll s t rs) j = cnt s j := by
  unfold cnt
  apply List.countP_congr
  intro x _
  simp [blockAll, hj]

theorem chain_blockAll {s : State} {t : Nat} {rs : List Nat} {i j : Nat} (c : Chain s i j) :
    Chain (blockAll s t rs) i j := by
  apply c.mono
  intro d j hb
  simp [blockAll, hb]

theorem LInv.block {s : State} {t : Nat} {pre : List KeyReq} {ds rs : List Nat}
    (h : LInv s t pre ds) (hrs : ∀ d ∈ rs, d < t ∧ executed s d = false) :
    LInv (blockAll s t rs) t pre (insAll rs ds) := by
  have hex : ∀ i, executed (blockAll s t rs) i = executed s i := fun _ => rfl
  refine ⟨h.n_eq, h.st_t, ?_, h.rdr, ?_, ?_, ?_, ?_, h.free, nodup_insAll h.dsnd, ?_, ?_⟩
  · intro d j hb
    have hb' : (if j = t ∧ d ∈ rs then true else s.blocked d j) = true := hb
    by_cases hc : j = t ∧ d ∈ rs
    · obtain ⟨rfl, hd⟩ := hc
      have := hrs d hd
      exact ⟨this.1, by have := h.n_eq; show j < s.n; omega, this.2, h.st_t⟩
    · simp only [hc, if_false] at hb'
      exact h.blk d j hb'
  · intro j hj hw
    rw [cnt_blockAll (by omega)]
    exact h.cntlt j hj hw
  · intro i j hij hj hc
    rcases h.safe i j hij hj hc with he | hch
    · exact Or.inl he
    · exact Or.inr (chain_blockAll hch)
  · intro i hi x hx y hy hk hr
    rcases h.newsafe i hi x hx y hy hk hr with he | hch
    · exact Or.inl he
    · exact Or.inr (chain_blockAll hch)
  · intro k o hk
    obtain ⟨h1, h2, h3⟩ := h.own k o hk
    refine ⟨h1, h2, ?_⟩
    intro i rd hi hm hio
    rcases h3 i rd hi hm hio with a | a | a | a
    · exact Or.inl a
    · exact Or.inr (Or.inl a)
    · exact Or.inr (Or.inr (Or.inl (chain_blockAll a)))
    · exact Or.inr (Or.inr (Or.inr a))
  · intro d hb
    have hb' : (if t = t ∧ d ∈ rs then true else s.blocked d t) = true := hb
    rw [mem_insAll]
    by_cases hd : d ∈ rs
    · exact Or.inl hd
    · simp only [hd, and_false, if_false] at hb'
      exact Or.inr (h.ds_sup d hb')
  · intro d hd hne
    show (if t = t ∧ d ∈ rs then true else s.blocked d t) = true
    rw [mem_insAll] at hd
    by_cases hdr : d ∈ rs
    · simp [hdr]
    · simp only [hdr, and_false, if_false]
      rcases hd with hd | hd
      · exact absurd hd hdr
      · exact h.ds_live d hd hne

theorem LInv.reader {s : State} {t lt : Nat} {pre : List KeyReq} {ds : List Nat}
    (h : LInv s t pre ds) (hlt : lt < t) : LInv (addReader s lt t) t pre ds := by
  have hch : ∀ i j, Chain s i j → Chain (addReader s lt t) i j := fun i j c => Chain.mono (s := s) (s' := addReader s lt t) (fun _ _ hb => hb) c
  refine ⟨h.n_eq, h.st_t, h.blk, ?_, h.cntlt, ?_, ?_, ?_, h.free, h.dsnd, h.ds_sup, h.ds_live⟩
  · intro o r hr
    have hr' : (if o = lt ∧ r = t then true else s.readers o r) = true := hr
    show _ ∧ _ ∧ _ ∧ o ∈ (if r = t then ins lt (s.reading t) else s.reading r)
    by_cases hc : o = lt ∧ r = t
    · obtain ⟨rfl, rfl⟩ := hc
      refine ⟨hlt, by have := h.n_eq; show r < s.n; omega, ?_, ?_⟩
      · show executed s r = false
        rw [executed_false_iff, h.st_t]; simp
      · simp [mem_ins]
    · simp only [hc, if_false] at hr'
      obtain ⟨h1, h2, h3, h4⟩ := h.rdr o r hr'
      refine ⟨h1, h2, h3, ?_⟩
      by_cases hrt : r = t
      · subst hrt; simp [mem_ins, h4]
      · simp [hrt, h4]
  · intro i j hij hj hc
    rcases h.safe i j hij hj hc with he | c
    · exact Or.inl he
    · exact Or.inr (hch _ _ c)
  · intro i hi x hx y hy hk hr
    rcases h.newsafe i hi x hx y hy hk hr with he | c
    · exact Or.inl he
    · exact Or.inr (hch _ _ c)
  · intro k o hk
    obtain ⟨h1, h2, h3⟩ := h.own k o hk
    refine ⟨h1, h2, ?_⟩
    intro i rd hi hm hio
    rcases h3 i rd hi hm hio with a | a | a | a
    · exact Or.inl a
    · exact Or.inr (Or.inl a)
    · exact Or.inr (Or.inr (Or.inl (hch _ _ a)))
    · refine Or.inr (Or.inr (Or.inr ⟨a.1, ?_⟩))
      show (if o = lt ∧ i = t then true else s.readers o i) = true
      simp [a.2]

/-- key names of one task are distinct (`state.Keys` is a map) -/
def KeyUnique (ks : List KeyReq) : Prop := ∀ x ∈ ks, ∀ y ∈ ks, x.key = y.key → x = y

theorem LInv.F1 {s : State} {t : Nat} {pre : List KeyReq} {ds : List Nat} (h : LInv s t pre ds)
    {k lt : Nat} (hnode : s.nodes k = some lt)
    (H1 : executed s lt = true ∨ s.blocked lt t = true)
    {i : Nat} (hi : i < t) {rd : Bool} (hm : (⟨k, rd⟩ : KeyReq) ∈ s.keys i)
    (H2 : rd = true → s.readers lt i = true → s.blocked i t = true) :
    ended s i = true ∨ Chain s i t := by
  obtain ⟨_, _, h3⟩ := h.own k lt hnode
  by_cases hil : i = lt
  · subst hil
    rcases H1 with a | a
    · exact Or.inl (ended_of_executed a)
    · exact Or.inr (.direct a)
  · have hin : i < s.n := by have := h.n_eq; omega
    rcases h3 i rd hin hm hil with a | a | a | a
    · omega
    · exact Or.inl a
    · rcases H1 with b | b
      · obtain ⟨x, hx⟩ := a.has_blocker
        have := (h.blk x lt hx).2.2.2
        rw [executed_iff] at b
        rcases b with b | b <;> rw [b] at this <;> cases this
      · exact Or.inr (.trans b a)
    · exact Or.inr (.direct (H2 a.1 a.2))

theorem LInv.commit_read {s : State} {t : Nat} {pre : List KeyReq} {ds : List Nat} {kr : KeyReq}
    {lt : Nat} (h : LInv s t pre ds) (hkr : kr ∈ s.keys t) (huniq : KeyUnique (s.keys t))
    (hnode : s.nodes kr.key = some lt) (hread : kr.read = true) (hrd : s.readers lt t = true)
    (hF1 : ∀ i, i < t → ∀ x ∈ s.keys i, x.key = kr.key → x.read = false →
      ended s i = true ∨ Chain s i t) :
    LInv s t (pre ++ [kr]) ds := by
  refine ⟨h.n_eq, h.st_t, h.blk, h.rdr, h.cntlt, h.safe, ?_, ?_, ?_, h.dsnd, h.ds_sup, h.ds_live⟩
  · intro i hi x hx y hy hk hr
    rcases List.mem_append.mp hy with hy | hy
    · exact h.newsafe i hi x hx y hy hk hr
    · simp only [List.mem_singleton] at hy
      subst hy
      apply hF1 i hi x hx hk
      simpa [hread] using hr
  · intro k o hk
    obtain ⟨h1, h2, h3⟩ := h.own k o hk
    refine ⟨h1, ?_, ?_⟩
    · intro hot
      obtain ⟨y, hy, hyk⟩ := h2 hot
      exact ⟨y, List.mem_append_left _ hy, hyk⟩
    · intro i rd hi hm hio
      rcases h3 i rd hi hm hio with a | a | a | a
      · by_cases hkk : k = kr.key
        · subst hkk
          rw [hnode] at hk
          cases hk
          obtain ⟨rfl, _⟩ := a
          have := huniq _ hm _ hkr rfl
          have hrd' : rd = kr.read := by rw [← this]
          exact Or.inr (Or.inr (Or.inr ⟨by rw [hrd', hread], hrd⟩))
        · left
          refine ⟨a.1, ?_⟩
          rintro ⟨y, hy, hyk⟩
          rcases List.mem_append.mp hy with hy | hy
          · exact a.2 ⟨y, hy, hyk⟩
          · simp only [List.mem_singleton] at hy
            subst hy; exact hkk hyk.symm
      · exact Or.inr (Or.inl a)
      · exact Or.inr (Or.inr (Or.inl a))
      · exact Or.inr (Or.inr (Or.inr a))
  · intro k hk i rd hi hm
    obtain ⟨a1, a2⟩ := h.free k hk i rd hi hm
    refine ⟨a1, ?_⟩
    rintro ⟨y, hy, hyk⟩
    rcases List.mem_append.mp hy with hy | hy
    · exact a2 ⟨y, hy, hyk⟩
    · simp only [List.mem_singleton] at hy
      subst hy
      rw [hyk, hk] at hnode; cases hnode

theorem LInv.commit_set {s : State} {t : Nat} {pre : List KeyReq} {ds : List Nat} {kr : KeyReq}
    (h : LInv s t pre ds)
    (hF1 : ∀ i, i < t → ∀ x ∈ s.keys i, x.key = kr.key → ended s i = true ∨ Chain s i t) :
    LInv (setNode s kr.key t) t (pre ++ [kr]) ds := by
  have hch : ∀ i j, Chain s i j → Chain (setNode s kr.key t) i j :=
    fun i j c => Chain.mono (s := s) (s' := setNode s kr.key t) (fun _ _ hb => hb) c
  refine ⟨h.n_eq, h.st_t, h.blk, h.rdr, h.cntlt, ?_, ?_, ?_, ?_, h.dsnd, h.ds_sup, h.ds_live⟩
  · intro i j hij hj hc
    rcases h.safe i j hij hj hc with a | a
    · exact Or.inl a
    · exact Or.inr (hch _ _ a)
  · intro i hi x hx y hy hk hr
    rcases List.mem_append.mp hy with hy | hy
    · rcases h.newsafe i hi x hx y hy hk hr with a | a
      · exact Or.inl a
      · exact Or.inr (hch _ _ a)
    · simp only [List.mem_singleton] at hy
      subst hy
      rcases hF1 i hi x hx hk with a | a
      · exact Or.inl a
      · exact Or.inr (hch _ _ a)
  · intro k o hk
    have hk' : (if k = kr.key then some t else s.nodes k) = some o := hk
    by_cases hkk : k = kr.key
    · simp only [hkk, if_true, Option.some.injEq] at hk'
      subst hk'
      refine ⟨by have := h.n_eq; show t < s.n; omega, fun _ => ⟨kr, by simp, hkk.symm⟩, ?_⟩
      intro i rd hi hm hio
      have hi' : i < s.n := hi
      have hit : i < t := by have := h.n_eq; omega
      rcases hF1 i hit ⟨k, rd⟩ hm hkk with a | a
      · exact Or.inr (Or.inl a)
      · exact Or.inr (Or.inr (Or.inl (hch _ _ a)))
    · simp only [hkk, if_false] at hk'
      obtain ⟨h1, h2, h3⟩ := h.own k o hk'
      refine ⟨h1, ?_, ?_⟩
      · intro hot
        obtain ⟨y, hy, hyk⟩ := h2 hot
        exact ⟨y, List.mem_append_left _ hy, hyk⟩
      · intro i rd hi hm hio
        rcases h3 i rd hi hm hio with a | a | a | a
        · left
          refine ⟨a.1, ?_⟩
          rintro ⟨y, hy, hyk⟩
          rcases List.mem_append.mp hy with hy | hy
          · exact a.2 ⟨y, hy, hyk⟩
          · simp only [List.mem_singleton] at hy
            subst hy; exact hkk hyk.symm
        · exact Or.inr (Or.inl a)
        · exact Or.inr (Or.inr (Or.inl (hch _ _ a)))
        · exact Or.inr (Or.inr (Or.inr a))
  · intro k hk i rd hi hm
    have hk' : (if k = kr.key then some t else s.nodes k) = none := hk
    by_cases hkk : k = kr.key
    · simp [hkk] at hk'
    · simp only [hkk, if_false] at hk'
      obtain ⟨a1, a2⟩ := h.free k hk' i rd hi hm
      refine ⟨a1, ?_⟩
      rintro ⟨y, hy, hyk⟩
      rcases List.mem_append.mp hy with hy | hy
      · exact a2 ⟨y, hy, hyk⟩
      · simp only [List.mem_singleton] at hy
        subst hy; exact hkk hyk.symm

theorem blockOne_eq (s1 : State) (t lt : Nat) :
    ({ s1 with blocked := fun d j => if j = t ∧ d = lt then true else s1.blocked d j } : State)
      = blockAll s1 t [lt] := by
  unfold blockAll
  congr
  funext d j
  simp

theorem setNode_block_eq (s : State) (t lt k : Nat) (rs : List Nat) :
    ({ s with
        blocked := fun d j => if j = t ∧ d = lt then true
          else (if j = t ∧ d ∈ rs then true else s.blocked d j)
        nodes := fun k' => if k' = k then some t else s.nodes k' } : State)
      = setNode (blockAll (blockAll s t rs) t [lt]) k t := by
  simp only [setNode, blockAll]
  congr
  funext d j
  simp

theorem regKey_LInv {s : State} {t : Nat} {pre : List KeyReq} {ds : List Nat} {kr : KeyReq}
    (h : LInv s t pre ds) (hkr : kr ∈ s.keys t) (huniq : KeyUnique (s.keys t))
    (hnew : ∀ y ∈ pre, y.key ≠ kr.key) :
    LInv (regKey t (s, ds) kr).1 t (pre ++ [kr]) (regKey t (s, ds) kr).2 := by
  cases hn : s.nodes kr.key with
  | none =>
    have e : regKey t (s, ds) kr = (setNode s kr.key t, ds) := by
      simp only [regKey, hn]; rfl
    rw [e]
    apply h.commit_set
    intro i hi x hx hk
    have := h.free kr.key hn i x.read (by have := h.n_eq; omega) (by rw [← hk]; exact hx)
    omega
  | some lt =>
    obtain ⟨hltn, hlt2, _⟩ := h.own kr.key lt hn
    have hltt : lt < t := by
      have := h.n_eq
      have : lt ≠ t := by
        intro e; obtain ⟨y, hy, hyk⟩ := hlt2 e; exact hnew y hy hyk
      omega
    by_cases hr : kr.read = true
    · have hA := h.reader hltt
      have hrd : (addReader s lt t).readers lt t = true := by simp [addReader]
      by_cases he : executed s lt = true
      · have e : regKey t (s, ds) kr = (addReader s lt t, ds) := by
          simp only [regKey, hn, hr, ↓reduceIte]
          split
          · rfl
          · rename_i hc; exact absurd he hc
        rw [e]
        refine hA.commit_read hkr huniq hn hr hrd ?_
        intro i hi x hx hk hxr
        refine hA.F1 (k := kr.key) (lt := lt) hn (Or.inl he) hi (rd := x.read) (by rw [← hk]; exact hx) ?_
        intro h1; rw [hxr] at h1; cases h1
      · have e : regKey t (s, ds) kr = (blockAll (addReader s lt t) t [lt], insAll [lt] ds) := by
          simp only [regKey, hn, hr, ↓reduceIte]
          split
          · rename_i hc; exact absurd hc he
          · exact Prod.ext (blockOne_eq (addReader s lt t) t lt) rfl
        rw [e]
        have hB := hA.block (rs := [lt]) (by
          intro d hd; simp only [List.mem_singleton] at hd; subst hd
          exact ⟨hltt, (by simpa using he : executed s _ = false)⟩)
        have hbl : (blockAll (addReader s lt t) t [lt]).blocked lt t = true := by simp [blockAll]
        refine hB.commit_read hkr huniq hn hr hrd ?_
        intro i hi x hx hk hxr
        refine hB.F1 (k := kr.key) (lt := lt) hn (Or.inr hbl) hi (rd := x.read) (by rw [← hk]; exact hx) ?_
        intro h1; rw [hxr] at h1; cases h1
    · have hr' : kr.read = false := by simpa using hr
      let rs := (List.range s.n).filter (fun r => s.readers lt r && r != t)
      have hrs : ∀ d ∈ rs, d < t ∧ executed s d = false := by
        intro d hd
        simp only [rs, List.mem_filter, List.mem_range, Bool.and_eq_true, bne_iff_ne] at hd
        have := h.rdr lt d hd.2.1
        have := h.n_eq
        exact ⟨by omega, (h.rdr lt d hd.2.1).2.2.1⟩
      have hA := h.block hrs
      have hH2 : ∀ s' : State, s'.readers = s.readers → s'.n = s.n →
          (∀ d, d ∈ rs → s'.blocked d t = true) →
          ∀ i, i < t → s'.readers lt i = true → s'.blocked i t = true := by
        intro s' e1 e2 hb i hi hri
        apply hb
        simp only [rs, List.mem_filter, List.mem_range, Bool.and_eq_true, bne_iff_ne]
        rw [e1] at hri
        have := h.n_eq
        exact ⟨by omega, hri, by omega⟩
      by_cases he : executed s lt = true
      · have e : regKey t (s, ds) kr = (setNode (blockAll s t rs) kr.key t, insAll rs ds) := by
          simp only [regKey, hn, hr', Bool.false_eq_true, ↓reduceIte]
          split
          · rfl
          · rename_i hc; exact absurd he hc
        rw [e]
        apply hA.commit_set
        intro i hi x hx hk
        refine hA.F1 (k := kr.key) (lt := lt) hn (Or.inl he) hi (rd := x.read) (by rw [← hk]; exact hx) ?_
        intro _ hri
        exact hH2 (blockAll s t rs) rfl rfl (by intro d hd; simp [blockAll, hd]) i hi hri
      · have e : regKey t (s, ds) kr =
            (setNode (blockAll (blockAll s t rs) t [lt]) kr.key t, insAll [lt] (insAll rs ds)) := by
          simp only [regKey, hn, hr', Bool.false_eq_true, ↓reduceIte]
          split
          · rename_i hc; exact absurd hc he
          refine Prod.ext ?_ rfl
          exact setNode_block_eq s t lt kr.key rs
        rw [e]
        have hB := hA.block (rs := [lt]) (by
          intro d hd; simp only [List.mem_singleton] at hd; subst hd
          exact ⟨hltt, (by simpa using he : executed s _ = false)⟩)
        apply hB.commit_set
        intro i hi x hx hk
        have hbl : (blockAll (blockAll s t rs) t [lt]).blocked lt t = true := by simp [blockAll]
        refine hB.F1 (k := kr.key) (lt := lt) hn (Or.inr hbl) hi (rd := x.read) (by rw [← hk]; exact hx) ?_
        intro _ hri
        exact hH2 (blockAll (blockAll s t rs) t [lt]) rfl rfl (by intro d hd; simp [blockAll, hd]) i hi hri

/-- fields that `regKey` never touches -/
structure SameRest (s s' : State) : Prop where
  keys : s'.keys = s.keys
  status : s'.status = s.status
  deps : s'.deps = s.deps
  n : s'.n = s.n
  queue : s'.queue = s.queue
  err : s'.err = s.err
  waited : s'.waited = s.waited
  log : s'.log = s.log
  workers : s'.workers = s.workers

theorem SameRest.refl (s : State) : SameRest s s := ⟨rfl, rfl, rfl, rfl, rfl, rfl, rfl, rfl, rfl⟩

theorem SameRest.trans {a b c : State} (h1 : SameRest a b) (h2 : SameRest b c) : SameRest a c :=
  ⟨h2.keys.trans h1.keys, h2.status.trans h1.status, h2.deps.trans h1.deps, h2.n.trans h1.n,
   h2.queue.trans h1.queue, h2.err.trans h1.err, h2.waited.trans h1.waited, h2.log.trans h1.log,
   h2.workers.trans h1.workers⟩

theorem regKey_same (t : Nat) (acc : State × List Nat) (kr : KeyReq) :
    SameRest acc.1 (regKey t acc kr).1 := by
  unfold regKey
  dsimp only
  repeat' split
  all_goals exact ⟨rfl, rfl, rfl, rfl, rfl, rfl, rfl, rfl, rfl⟩

theorem fold_same (t : Nat) (ks : List KeyReq) (acc : State × List Nat) :
    SameRest acc.1 (ks.foldl (regKey t) acc).1 := by
  induction ks generalizing acc with
  | nil => exact SameRest.refl _
  | cons kr ks ih => exact (regKey_same t acc kr).trans (ih _)

theorem keyUnique_of_nodup {ks : List KeyReq} (h : keysNodup ks = true) : KeyUnique ks := by
  induction ks with
  | nil => intro x hx; cases hx
  | cons k ks ih =>
    simp only [keysNodup, Bool.and_eq_true, Bool.not_eq_true', List.any_eq_false, beq_iff_eq] at h
    intro x hx y hy hxy
    rcases List.mem_cons.mp hx with rfl | hx' <;> rcases List.mem_cons.mp hy with rfl | hy'
    · rfl
    · exact absurd hxy.symm (h.1 y hy')
    · exact absurd hxy (h.1 x hx')
    · exact ih h.2 x hx' y hy' hxy

theorem fold_LInv {t : Nat} (post : List KeyReq) :
    ∀ {s : State} {pre : List KeyReq} {ds : List Nat}, LInv s t pre ds → KeyUnique (s.keys t) →
      (∀ x ∈ post, x ∈ s.keys t) → keysNodup post = true → (∀ y ∈ pre, ∀ x ∈ post, y.key ≠ x.key) →
      LInv (post.foldl (regKey t) (s, ds)).1 t (pre ++ post) (post.foldl (regKey t) (s, ds)).2 := by
  induction post with
  | nil => intro s pre ds h _ _ _ _; simpa using h
  | cons kr post ih =>
    intro s pre ds h hu hm hnd hdis
    simp only [keysNodup, Bool.and_eq_true, Bool.not_eq_true', List.any_eq_false, beq_iff_eq] at hnd
    have h1 := regKey_LInv h (hm kr (by simp)) hu (fun y hy => hdis y hy kr (by simp))
    have hk : (regKey t (s, ds) kr).1.keys = s.keys := (regKey_same t (s, ds) kr).keys
    have := ih (s := (regKey t (s, ds) kr).1) (pre := pre ++ [kr]) (ds := (regKey t (s, ds) kr).2) h1
      (by rw [hk]; exact hu) (by rw [hk]; intro x hx; exact hm x (List.mem_cons_of_mem _ hx)) hnd.2
      (by
        intro y hy x hx
        rcases List.mem_append.mp hy with hy | hy
        · exact hdis y hy x (List.mem_cons_of_mem _ hx)
        · simp only [List.mem_singleton] at hy
          subst hy
          exact fun e => hnd.1 x hx e.symm)
    simpa [List.foldl_cons, List.append_assoc] using this

theorem executed_same {s s' : State} (h : SameRest s s') (d : Nat) : executed s' d = executed s d := by
  simp [executed, h.status]

/-- `Run` only ever adds tasks that are not executed at that moment to `dependencies` -/
theorem regKey_ds_sub {s : State} {t : Nat} {pre : List KeyReq} {ds : List Nat}
    (h : LInv s t pre ds) (kr : KeyReq) :
    ∀ d ∈ (regKey t (s, ds) kr).2, d ∈ ds ∨ executed s d = false := by
  intro d hd
  unfold regKey at hd
  dsimp only at hd
  split at hd
  · exact Or.inl hd
  · rename_i lt hn
    have hrs : d ∈ insAll ((List.range s.n).filter (fun r => s.readers lt r && r != t)) ds →
        d ∈ ds ∨ executed s d = false := by
      intro hm
      rw [mem_insAll] at hm
      rcases hm with hm | hm
      · simp only [List.mem_filter, List.mem_range, Bool.and_eq_true] at hm
        exact Or.inr (h.rdr lt d hm.2.1).2.2.1
      · exact Or.inl hm
    by_cases hr : kr.read = true
    · simp only [hr, if_true] at hd
      split at hd
      · exact Or.inl hd
      · rename_i he
        rw [mem_ins] at hd
        rcases hd with rfl | hd
        · exact Or.inr (Bool.eq_false_iff.mpr he)
        · exact Or.inl hd
    · have hr' : kr.read = false := by simpa using hr
      simp only [hr', Bool.false_eq_true, if_false] at hd
      split at hd
      · exact hrs hd
      · rename_i he
        rw [mem_ins] at hd
        rcases hd with rfl | hd
        · exact Or.inr (Bool.eq_false_iff.mpr he)
        · exact hrs hd

theorem fold_noexec {t : Nat} (post : List KeyReq) :
    ∀ {s : State} {pre : List KeyReq} {ds : List Nat}, LInv s t pre ds → KeyUnique (s.keys t) →
      (∀ x ∈ post, x ∈ s.keys t) → keysNodup post = true → (∀ y ∈ pre, ∀ x ∈ post, y.key ≠ x.key) →
      (∀ d ∈ ds, executed s d = false) →
      ∀ d ∈ (post.foldl (regKey t) (s, ds)).2, executed (post.foldl (regKey t) (s, ds)).1 d = false := by
  induction post with
  | nil => intro s pre ds _ _ _ _ _ hne; simpa using hne
  | cons kr post ih =>
    intro s pre ds h hu hm hnd hdis hne
    simp only [keysNodup, Bool.and_eq_true, Bool.not_eq_true', List.any_eq_false, beq_iff_eq] at hnd
    have h1 := regKey_LInv h (hm kr (by simp)) hu (fun y hy => hdis y hy kr (by simp))
    have hsm := regKey_same t (s, ds) kr
    have hk : (regKey t (s, ds) kr).1.keys = s.keys := hsm.keys
    have := ih (s := (regKey t (s, ds) kr).1) (pre := pre ++ [kr]) (ds := (regKey t (s, ds) kr).2) h1
      (by rw [hk]; exact hu) (by rw [hk]; intro x hx; exact hm x (List.mem_cons_of_mem _ hx)) hnd.2
      (by
        intro y hy x hx
        rcases List.mem_append.mp hy with hy | hy
        · exact hdis y hy x (List.mem_cons_of_mem _ hx)
        · simp only [List.mem_singleton] at hy
          subst hy
          exact fun e => hnd.1 x hx e.symm)
      (by
        intro d hd
        rw [executed_same hsm]
        rcases regKey_ds_sub h kr d hd with a | a
        · exact hne d a
        · exact a)
    simpa [List.foldl_cons] using this

/-- state after the header of `Run` (id allocated, task record created) -/
def header (s : State) (ks : List KeyReq) : State :=
  { s with
    n := s.n + 1
    keys := fun x => if x = s.n then ks else s.keys x
    status := fun x => if x = s.n then .waiting else s.status x
    reading := fun x => if x = s.n then [] else s.reading x }

theorem header_LInv {s : State} (h : Inv s) (ks : List KeyReq) : LInv (header s ks) s.n [] [] := by
  have hexe : ∀ i, i ≠ s.n → executed (header s ks) i = executed s i := by
    intro i hi; simp [executed, header, hi]
  have hende : ∀ i, i ≠ s.n → ended (header s ks) i = ended s i := by
    intro i hi; simp [ended, header, hi]
  have hch : ∀ i j, Chain s i j → Chain (header s ks) i j :=
    fun i j c => Chain.mono (s := s) (s' := header s ks) (fun _ _ hb => hb) c
  refine ⟨rfl, by simp [header], ?_, ?_, ?_, ?_, ?_, ?_, ?_, List.nodup_nil, ?_, ?_⟩
  · intro d j hb
    obtain ⟨h1, h2, h3, h4⟩ := h.blk d j hb
    refine ⟨h1, by show j < s.n + 1; omega, ?_, ?_⟩
    · rw [hexe d (by omega)]; exact h3
    · show (if j = s.n then Status.waiting else s.status j) = .waiting
      simp [h4]
  · intro o r hr
    obtain ⟨h1, h2, h3, h4⟩ := h.rdr o r hr
    refine ⟨h1, by show r < s.n + 1; omega, ?_, ?_⟩
    · rw [hexe r (by omega)]; exact h3
    · show o ∈ (if r = s.n then [] else s.reading r)
      have : r ≠ s.n := by omega
      simpa [this] using h4
  · intro j hj hw
    have hjn : j ≠ s.n := by omega
    have hw' : s.status j = .waiting := by
      have : (if j = s.n then Status.waiting else s.status j) = .waiting := hw
      simpa [hjn] using this
    have hc := h.cnt j hj hw'
    have : cnt (header s ks) j = cnt s j := by
      unfold cnt
      show (List.range (s.n + 1)).countP _ = _
      rw [List.range_succ, List.countP_append]
      have : s.blocked s.n j = false := by
        cases hb : s.blocked s.n j with
        | false => rfl
        | true => have := (h.blk _ _ hb).1; omega
      simp [header, this]
    rw [this]
    exact hc
  · intro i j hij hj hc
    have e1 : (header s ks).keys i = s.keys i := by simp [header]; intro e; omega
    have e2 : (header s ks).keys j = s.keys j := by simp [header]; intro e; omega
    rw [e1, e2] at hc
    rcases h.safe i j hij hj hc with a | a
    · left; rw [hende i (by omega)]; exact a
    · exact Or.inr (hch _ _ a)
  · intro i _ x _ y hy; cases hy
  · intro k o hk
    obtain ⟨h1, h3⟩ := h.own k o hk
    refine ⟨by show o < s.n + 1; omega, fun e => by omega, ?_⟩
    intro i rd hi hm hio
    by_cases hit : i = s.n
    · left; exact ⟨hit, by simp⟩
    · have hi' : i < s.n := by have : i < s.n + 1 := hi; omega
      have e1 : (header s ks).keys i = s.keys i := by simp [header, hit]
      rw [e1] at hm
      rcases h3 i rd hi' hm hio with a | a | a
      · right; left; rw [hende i hit]; exact a
      · exact Or.inr (Or.inr (Or.inl (hch _ _ a)))
      · exact Or.inr (Or.inr (Or.inr a))
  · intro k hk i rd hi hm
    by_cases hit : i = s.n
    · exact ⟨hit, by simp⟩
    · have hi' : i < s.n := by have : i < s.n + 1 := hi; omega
      have e1 : (header s ks).keys i = s.keys i := by simp [header, hit]
      rw [e1] at hm
      exact absurd hm (h.free k hk i rd hi')
  · intro d hb
    have := (h.blk d s.n hb).2.1
    omega
  · intro d hd; cases hd

theorem length_eq_cnt {s : State} {t : Nat} {pre : List KeyReq} {ds : List Nat}
    (h : LInv s t pre ds) (hne : ∀ d ∈ ds, executed s d = false) : ds.length = cnt s t := by
  unfold cnt
  rw [List.countP_eq_length_filter]
  apply List.Perm.length_eq
  rw [List.perm_ext_iff_of_nodup h.dsnd (List.nodup_range.filter _)]
  intro d
  rw [List.mem_filter, List.mem_range]
  constructor
  · intro hd
    have hb := h.ds_live d hd (hne d hd)
    exact ⟨by have := (h.blk d t hb); omega, hb⟩
  · intro hb; exact h.ds_sup d hb.2

theorem conflictKeys_iff (a b : List KeyReq) : conflictKeys a b = true ↔
    ∃ x ∈ a, ∃ y ∈ b, x.key = y.key ∧ (x.read && y.read) = false := by
  simp only [conflictKeys, List.any_eq_true, Bool.and_eq_true, beq_iff_eq, Bool.or_eq_true,
    Bool.not_eq_true']
  constructor
  · rintro ⟨x, hx, y, hy, hk, hr⟩
    refine ⟨x, hx, y, hy, hk, ?_⟩
    rcases hr with hr | hr <;> simp [hr]
  · rintro ⟨x, hx, y, hy, hk, hr⟩
    refine ⟨x, hx, y, hy, hk, ?_⟩
    cases hx' : x.read <;> simp_all

theorem register_eq (s : State) (ks : List KeyReq) :
    register s ks =
      (let r := ks.foldl (regKey s.n) (header s ks, [])
       let s1 := r.1
       let d : Int := r.2.length
       if d > 0 then { s1 with deps := fun x => if x = s.n then d else s1.deps x }
       else { s1 with
               deps := fun x => if x = s.n then d else s1.deps x
               status := fun x => if x = s.n then .queued else s1.status x
               queue := s1.queue ++ [s.n] }) := rfl

/-- the end of `Run`: set the counter, push if there is no dependency -/
theorem LInv.finish {s1 : State} {t : Nat} {ks : List KeyReq} {ds : List Nat}
    (h : LInv s1 t ks ds) (hne : ∀ d ∈ ds, executed s1 d = false) (hkeys : s1.keys t = ks) (s2 : State)
    (e_n : s2.n = s1.n) (e_keys : s2.keys = s1.keys) (e_bl : s2.blocked = s1.blocked)
    (e_rd : s2.readers = s1.readers) (e_rg : s2.reading = s1.reading) (e_nd : s2.nodes = s1.nodes)
    (e_deps : ∀ j, j ≠ t → s2.deps j = s1.deps j) (e_dt : s2.deps t = (ds.length : Int))
    (e_st : ∀ j, j ≠ t → s2.status j = s1.status j)
    (e_stt : (ds.length > 0 ∧ s2.status t = .waiting) ∨ (ds.length = 0 ∧ s2.status t = .queued)) :
    Inv s2 := by
  have hexe : ∀ i, executed s2 i = executed s1 i := by
    intro i
    by_cases hi : i = t
    · subst hi
      have : executed s1 i = false := by rw [executed_false_iff, h.st_t]; simp
      rw [this, executed_false_iff]
      rcases e_stt with a | a <;> rw [a.2] <;> simp
    · simp [executed, e_st i hi]
  have hende : ∀ i, ended s2 i = ended s1 i := by
    intro i
    by_cases hi : i = t
    · subst hi
      unfold ended
      rw [h.st_t]
      rcases e_stt with a | a <;> rw [a.2]
    · simp [ended, e_st i hi]
  have hch : ∀ i j, Chain s1 i j → Chain s2 i j :=
    fun i j c => Chain.mono (s := s1) (s' := s2) (fun _ _ hb => by rw [e_bl]; exact hb) c
  have hcnt : ∀ j, cnt s2 j = cnt s1 j := by intro j; unfold cnt; rw [e_n, e_bl]
  constructor
  · intro d j hb
    rw [e_bl] at hb
    obtain ⟨h1, h2, h3, h4⟩ := h.blk d j hb
    refine ⟨h1, by rw [e_n]; exact h2, by rw [hexe]; exact h3, ?_⟩
    by_cases hj : j = t
    · subst hj
      rcases e_stt with a | a
      · exact a.2
      · have : d ∈ ds := h.ds_sup d hb
        have := List.length_pos_of_mem this
        omega
    · rw [e_st j hj]; exact h4
  · intro j hj hw
    rw [hcnt]
    by_cases hjt : j = t
    · subst hjt
      rw [e_dt, length_eq_cnt h hne]
      refine ⟨rfl, ?_⟩
      rcases e_stt with a | a
      · rw [← length_eq_cnt h hne]; exact a.1
      · rw [a.2] at hw; cases hw
    · rw [e_deps j hjt]
      rw [e_st j hjt] at hw
      exact h.cntlt j (by have := h.n_eq; rw [e_n] at hj; omega) hw
  · intro o r hr
    rw [e_rd] at hr
    obtain ⟨h1, h2, h3, h4⟩ := h.rdr o r hr
    exact ⟨h1, by rw [e_n]; exact h2, by rw [hexe]; exact h3, by rw [e_rg]; exact h4⟩
  · intro i j hij hj hc
    rw [e_keys] at hc
    rw [hende]
    by_cases hjt : j = t
    · subst hjt
      rw [conflictKeys_iff] at hc
      obtain ⟨x, hx, y, hy, hk, hr⟩ := hc
      rw [hkeys] at hy
      rcases h.newsafe i hij x hx y hy hk hr with a | a
      · exact Or.inl a
      · exact Or.inr (hch _ _ a)
    · rcases h.safe i j hij (by have := h.n_eq; rw [e_n] at hj; omega) hc with a | a
      · exact Or.inl a
      · exact Or.inr (hch _ _ a)
  · intro k o hk
    rw [e_nd] at hk
    obtain ⟨h1, _, h3⟩ := h.own k o hk
    refine ⟨by rw [e_n]; exact h1, ?_⟩
    intro i rd hi hm hio
    rw [e_keys] at hm
    rw [e_n] at hi
    rw [hende, e_rd]
    rcases h3 i rd hi hm hio with a | a | a | a
    · exfalso
      obtain ⟨rfl, a2⟩ := a
      rw [hkeys] at hm
      exact a2 ⟨_, hm, rfl⟩
    · exact Or.inl a
    · exact Or.inr (Or.inl (hch _ _ a))
    · exact Or.inr (Or.inr a)
  · intro k hk i rd hi hm
    rw [e_nd] at hk
    rw [e_keys] at hm
    rw [e_n] at hi
    obtain ⟨rfl, a2⟩ := h.free k hk i rd hi hm
    rw [hkeys] at hm
    exact a2 ⟨_, hm, rfl⟩

theorem inv_register {s : State} {ks : List KeyReq} (h : Inv s) (hk : keysNodup ks = true) :
    Inv (register s ks) := by
  have h0 := header_LInv h ks
  have hk0 : (header s ks).keys s.n = ks := by simp [header]
  have h1 := fold_LInv (t := s.n) ks h0 (by rw [hk0]; exact keyUnique_of_nodup hk)
    (by rw [hk0]; exact fun x hx => hx) hk (by intro y hy; cases hy)
  have hsame := fold_same s.n ks (header s ks, [])
  have hk1 : (ks.foldl (regKey s.n) (header s ks, [])).1.keys s.n = ks := by
    rw [hsame.keys]; exact hk0
  have hne := fold_noexec (t := s.n) ks h0 (by rw [hk0]; exact keyUnique_of_nodup hk)
    (by rw [hk0]; exact fun x hx => hx) hk (by intro y hy; cases hy) (by intro d hd; cases hd)
  simp only [List.nil_append] at h1
  rw [register_eq]
  dsimp only
  split
  · rename_i hpos
    apply h1.finish hne hk1 <;> try rfl
    · intro j hj; simp [hj]
    · simp
    · intro j hj; rfl
    · left
      refine ⟨by omega, h1.st_t⟩
  · rename_i hpos
    apply h1.finish hne hk1 <;> try rfl
    · intro j hj; simp [hj]
    · simp
    · intro j hj; simp [hj]
    · right
      refine ⟨by omega, by simp⟩

/-! ## The other steps -/

/-- `Inv` only reads n, keys, deps, blocked, readers, reading, nodes and, of `status`, which
tasks are executed / waiting. -/
theorem inv_of_status {s s' : State} (h : Inv s) (e1 : s'.n = s.n) (e2 : s'.keys = s.keys)
    (e3 : ∀ x, executed s' x = executed s x)
    (e3e : ∀ x, ended s x = true → ended s' x = true)
    (e3' : ∀ x, s'.status x = .waiting ↔ s.status x = .waiting)
    (e4 : s'.deps = s.deps) (e5 : s'.blocked = s.blocked) (e6 : s'.readers = s.readers)
    (e7 : s'.reading = s.reading) (e8 : s'.nodes = s.nodes) : Inv s' := by
  have hch : ∀ i j, Chain s i j → Chain s' i j :=
    fun i j c => Chain.mono (s := s) (s' := s') (fun _ _ hb => by rw [e5]; exact hb) c
  have hcnt : ∀ j, cnt s' j = cnt s j := by intro j; unfold cnt; rw [e1, e5]
  constructor
  · intro d j hb
    rw [e5] at hb
    obtain ⟨h1, h2, h3, h4⟩ := h.blk d j hb
    exact ⟨h1, by rw [e1]; exact h2, by rw [e3]; exact h3, (e3' j).mpr h4⟩
  · intro j hj hw
    rw [hcnt, e4]
    exact h.cnt j (by rw [e1] at hj; exact hj) ((e3' j).mp hw)
  · intro o r hr
    rw [e6] at hr
    obtain ⟨h1, h2, h3, h4⟩ := h.rdr o r hr
    exact ⟨h1, by rw [e1]; exact h2, by rw [e3]; exact h3, by rw [e7]; exact h4⟩
  · intro i j hij hj hc
    rw [e2] at hc; rw [e1] at hj
    rcases h.safe i j hij hj hc with a | a
    · exact Or.inl (e3e _ a)
    · exact Or.inr (hch _ _ a)
  · intro k o hk
    rw [e8] at hk
    obtain ⟨h1, h3⟩ := h.own k o hk
    refine ⟨by rw [e1]; exact h1, ?_⟩
    intro i rd hi hm hio
    rw [e2] at hm; rw [e1] at hi; rw [e6]
    rcases h3 i rd hi hm hio with a | a | a
    · exact Or.inl (e3e _ a)
    · exact Or.inr (Or.inl (hch _ _ a))
    · exact Or.inr (Or.inr a)
  · intro k hk i rd hi hm
    rw [e8] at hk; rw [e2] at hm; rw [e1] at hi
    exact h.free k hk i rd hi hm

/-- first error recorded in a log (newest event first): what the CAS on `e.err` keeps -/
def firstErr : List Event → Option Err
  | [] => none
  | e :: l =>
    match firstErr l with
    | some x => some x
    | none =>
      match e with
      | .fin j true => some (.task j)
      | .stop => some .stopped
      | _ => none

/-- every `start j` in the log is preceded (= followed, in the newest-first list) by the end
of every earlier conflicting task, and by no error event -/
def OrderedLog (n : Nat) (keys : Nat → List KeyReq) (log : List Event) : Prop :=
  ∀ l1 l2 j, log = l1 ++ Event.start j :: l2 →
    j < n ∧ firstErr l2 = none ∧
    ∀ i, i < j → conflictKeys (keys i) (keys j) = true → ∃ f, Event.fin i f ∈ l2

theorem OrderedLog.cons_other {n : Nat} {keys : Nat → List KeyReq} {log : List Event} {e : Event}
    (h : OrderedLog n keys log) (he : ∀ j, e ≠ .start j) : OrderedLog n keys (e :: log) := by
  intro l1 l2 j hl
  rcases List.cons_eq_append_iff.mp hl with ⟨rfl, h2⟩ | ⟨l1', rfl, h2⟩
  · simp only [List.cons.injEq] at h2
    exact absurd h2.1.symm (he j)
  · exact h l1' l2 j h2

theorem OrderedLog.cons_start {n : Nat} {keys : Nat → List KeyReq} {log : List Event} {j0 : Nat}
    (h : OrderedLog n keys log) (hj : j0 < n) (herr : firstErr log = none)
    (hfin : ∀ i, i < j0 → conflictKeys (keys i) (keys j0) = true → ∃ f, Event.fin i f ∈ log) :
    OrderedLog n keys (.start j0 :: log) := by
  intro l1 l2 j hl
  rcases List.cons_eq_append_iff.mp hl with ⟨rfl, h2⟩ | ⟨l1', rfl, h2⟩
  · simp only [List.cons.injEq, Event.start.injEq] at h2
    obtain ⟨rfl, rfl⟩ := h2
    exact ⟨hj, herr, hfin⟩
  · exact h l1' l2 j h2

theorem OrderedLog.mono {n n' : Nat} {keys keys' : Nat → List KeyReq} {log : List Event}
    (h : OrderedLog n keys log) (hn : n ≤ n') (hk : ∀ x, x < n → keys' x = keys x) :
    OrderedLog n' keys' log := by
  intro l1 l2 j hl
  obtain ⟨h1, h2, h3⟩ := h l1 l2 j hl
  refine ⟨by omega, h2, ?_⟩
  intro i hi hc
  rw [hk i (by omega), hk j h1] at hc
  exact h3 i hi hc

theorem firstErr_cons_neutral {e : Event} {l : List Event}
    (he : e ≠ .stop ∧ ∀ j, e ≠ .fin j true) : firstErr (e :: l) = firstErr l := by
  cases h : firstErr l with
  | some x => simp only [firstErr, h]
  | none =>
    cases e with
    | start j => simp only [firstErr, h]
    | skip j => simp only [firstErr, h]
    | stop => exact absurd rfl he.1
    | fin j f =>
      cases f with
      | false => simp only [firstErr, h]
      | true => exact absurd rfl (he.2 j)

structure QInv (s : State) : Prop where
  q_iff : ∀ j, j ∈ s.queue ↔ (j < s.n ∧ s.status j = .queued)
  q_nd : s.queue.Nodup
  hi : ∀ j, s.n ≤ j → s.status j = .waiting

structure LogInv (s : State) : Prop where
  l_cnt : ∀ j, s.log.count (.start j) =
    if (s.status j = .running ∨ s.status j = .done) then 1 else 0
  l_fin : ∀ j, s.status j = .done → ∃ f, Event.fin j f ∈ s.log
  l_skip : ∀ j, s.status j = .skipped → s.err.isSome = true
  l_err : s.err = firstErr s.log
  l_order : OrderedLog s.n s.keys s.log
  /-- the coarse relation never uses the intermediate statuses of the finest relation -/
  l_coarse : ∀ j, s.status j ≠ .dequeued ∧ ∀ r, s.status j ≠ .ending r

theorem LogInv.executed_of_ended {s : State} (h : LogInv s) {i : Nat} (he : ended s i = true) :
    executed s i = true := by
  have hc := h.l_coarse i
  rw [executed_iff]
  unfold ended at he
  cases hs : s.status i with
  | waiting => rw [hs] at he; cases he
  | queued => rw [hs] at he; cases he
  | dequeued => exact absurd hs hc.1
  | running => rw [hs] at he; cases he
  | ending r => exact absurd hs (hc.2 r)
  | done => exact Or.inl rfl
  | skipped => exact Or.inr rfl

structure Full (s : State) : Prop where
  inv : Inv s
  q : QInv s
  lg : LogInv s

theorem full_init (w : Nat) : Full (init w) := by
  refine ⟨inv_init w, ⟨by simp [init], by simp [init], by simp [init]⟩, ⟨?_, ?_, ?_, ?_, ?_, by simp [init]⟩⟩
  · simp [init]
  · simp [init]
  · simp [init]
  · simp [init, firstErr]
  · intro l1 l2 j hl
    have : ([] : List Event) = l1 ++ Event.start j :: l2 := hl
    simp at this

theorem register_frame (s : State) (ks : List KeyReq) :
    (register s ks).n = s.n + 1 ∧ (register s ks).log = s.log ∧ (register s ks).err = s.err ∧
    (register s ks).waited = s.waited ∧ (register s ks).workers = s.workers ∧
    (∀ x, x ≠ s.n → (register s ks).status x = s.status x) ∧
    (∀ x, x ≠ s.n → (register s ks).keys x = s.keys x) ∧
    (((register s ks).status s.n = .waiting ∧ (register s ks).queue = s.queue) ∨
     ((register s ks).status s.n = .queued ∧ (register s ks).queue = s.queue ++ [s.n])) := by
  have hs := fold_same s.n ks (header s ks, [])
  rw [register_eq]
  dsimp only
  split
  · refine ⟨hs.n, hs.log, hs.err, hs.waited, hs.workers, ?_, ?_, Or.inl ⟨?_, hs.queue⟩⟩
    · intro x hx; show (ks.foldl (regKey s.n) (header s ks, [])).1.status x = _
      rw [hs.status]; simp [header, hx]
    · intro x hx; show (ks.foldl (regKey s.n) (header s ks, [])).1.keys x = _
      rw [hs.keys]; simp [header, hx]
    · show (ks.foldl (regKey s.n) (header s ks, [])).1.status s.n = _
      rw [hs.status]; simp [header]
  · refine ⟨hs.n, hs.log, hs.err, hs.waited, hs.workers, ?_, ?_, Or.inr ⟨by simp, ?_⟩⟩
    · intro x hx
      show (if x = s.n then Status.queued else (ks.foldl (regKey s.n) (header s ks, [])).1.status x) = _
      rw [hs.status]; simp [header, hx]
    · intro x hx; show (ks.foldl (regKey s.n) (header s ks, [])).1.keys x = _
      rw [hs.keys]; simp [header, hx]
    · show (ks.foldl (regKey s.n) (header s ks, [])).1.queue ++ [s.n] = _
      rw [hs.queue]; rfl

theorem full_run {s : State} {ks : List KeyReq} (h : Full s) (hk : keysNodup ks = true) :
    Full (register s ks) := by
  obtain ⟨f_n, f_log, f_err, f_w, _, f_st, f_keys, f_q⟩ := register_frame s ks
  have hsn : s.status s.n = .waiting := h.q.hi s.n (Nat.le_refl _)
  have hnq : s.n ∉ s.queue := fun hm => by have := (h.q.q_iff s.n).mp hm; omega
  refine ⟨inv_register h.inv hk, ⟨?_, ?_, ?_⟩, ⟨?_, ?_, ?_, ?_, ?_, ?_⟩⟩
  rotate_right
  · intro j
    by_cases hj : j = s.n
    · subst hj
      rcases f_q with ⟨a, _⟩ | ⟨a, _⟩ <;> rw [a] <;> simp
    · rw [f_st j hj]; exact h.lg.l_coarse j
  · intro j
    rw [f_n]
    by_cases hj : j = s.n
    · subst hj
      rcases f_q with ⟨a, b⟩ | ⟨a, b⟩
      · rw [a, b]; simp [hnq]
      · rw [a, b]; simp
    · rw [f_st j hj]
      rcases f_q with ⟨_, b⟩ | ⟨_, b⟩
      · rw [b, h.q.q_iff]; constructor
        · rintro ⟨a, b⟩; exact ⟨by omega, b⟩
        · rintro ⟨a, b⟩; exact ⟨by omega, b⟩
      · rw [b, List.mem_append, h.q.q_iff]; simp only [List.mem_singleton, hj, or_false]; constructor
        · rintro ⟨a, b⟩; exact ⟨by omega, b⟩
        · rintro ⟨a, b⟩; exact ⟨by omega, b⟩
  · rcases f_q with ⟨_, b⟩ | ⟨_, b⟩
    · rw [b]; exact h.q.q_nd
    · rw [b, List.nodup_append]
      refine ⟨h.q.q_nd, by simp, ?_⟩
      intro a ha b hb
      simp only [List.mem_singleton] at hb
      subst hb; intro e; subst e; exact hnq ha
  · intro j hj
    rw [f_n] at hj
    rw [f_st j (by omega)]
    exact h.q.hi j (by omega)
  · intro j
    rw [f_log, h.lg.l_cnt j]
    by_cases hj : j = s.n
    · subst hj
      rw [hsn]
      rcases f_q with ⟨a, _⟩ | ⟨a, _⟩ <;> rw [a] <;> simp
    · rw [f_st j hj]
  · intro j hd
    rw [f_log]
    by_cases hj : j = s.n
    · subst hj
      rcases f_q with ⟨a, _⟩ | ⟨a, _⟩ <;> rw [a] at hd <;> cases hd
    · rw [f_st j hj] at hd; exact h.lg.l_fin j hd
  · intro j hd
    rw [f_err]
    by_cases hj : j = s.n
    · subst hj
      rcases f_q with ⟨a, _⟩ | ⟨a, _⟩ <;> rw [a] at hd <;> cases hd
    · rw [f_st j hj] at hd; exact h.lg.l_skip j hd
  · rw [f_err, f_log]; exact h.lg.l_err
  · rw [f_log, f_n]
    exact h.lg.l_order.mono (by omega) (fun x hx => f_keys x (by omega))

theorem head_mem {l : List Nat} {j : Nat} (h : l.head? = some j) : ∃ rest, l = j :: rest :=
  List.head?_eq_some_iff.mp h

theorem full_start {s : State} {j : Nat} (h : Full s) (hen : isEnabled s (.start j) = true) :
    Full (apply s (.start j)) := by
  simp only [isEnabled, Bool.and_eq_true, beq_iff_eq, decide_eq_true_eq, Option.isNone_iff_eq_none] at hen
  obtain ⟨hw, ⟨hhead, _⟩, herr⟩ := hen
  obtain ⟨rest, hq⟩ := head_mem hhead
  have hjq : j < s.n ∧ s.status j = .queued := (h.q.q_iff j).mp (by rw [hq]; simp)
  have hnd := h.q.q_nd
  rw [hq] at hnd
  rw [List.nodup_cons] at hnd
  have hst : ∀ x, (apply s (.start j)).status x = if x = j then .running else s.status x := fun _ => rfl
  refine ⟨?_, ⟨?_, ?_, ?_⟩, ⟨?_, ?_, ?_, ?_, ?_, ?_⟩⟩
  rotate_right
  · intro x
    rw [hst]
    by_cases hx : x = j
    · simp [hx]
    · simp only [hx, if_false]; exact h.lg.l_coarse x
  · refine inv_of_status (s' := apply s (.start j)) h.inv rfl rfl ?_ ?_ ?_ rfl rfl rfl rfl rfl
    · intro x
      simp only [executed, hst]
      by_cases hx : x = j
      · subst hx; simp [hjq.2]; decide
      · simp [hx]
    · intro x hx
      have hxj : x ≠ j := by
        intro e; subst e; unfold ended at hx; rw [hjq.2] at hx; cases hx
      unfold ended at hx ⊢
      rw [hst]; simpa [hxj] using hx
    · intro x
      rw [hst]
      by_cases hx : x = j
      · subst hx; simp [hjq.2]
      · simp [hx]
  · intro x
    show x ∈ s.queue.tail ↔ x < s.n ∧ (apply s (.start j)).status x = .queued
    rw [hst, hq, List.tail_cons]
    by_cases hx : x = j
    · subst hx; simp [hnd.1]
    · simp only [hx, if_false]
      rw [← h.q.q_iff x, hq]; simp [hx]
  · show s.queue.tail.Nodup
    rw [hq]; exact hnd.2
  · intro x hx
    rw [hst]
    have : x ≠ j := by have := hjq.1; have : s.n ≤ x := hx; omega
    simp only [this, if_false]
    exact h.q.hi x hx
  · intro x
    show (Event.start j :: s.log).count (.start x) = _
    rw [List.count_cons, h.lg.l_cnt x, hst]
    by_cases hx : x = j
    · subst hx; simp [hjq.2]
    · have : ¬ (j = x) := fun e => hx e.symm
      simp [hx, this]
  · intro x hd
    rw [hst] at hd
    by_cases hx : x = j
    · subst hx; simp at hd
    · simp only [hx, if_false] at hd
      obtain ⟨f, hf⟩ := h.lg.l_fin x hd
      exact ⟨f, List.mem_cons_of_mem _ hf⟩
  · intro x hd
    rw [hst] at hd
    by_cases hx : x = j
    · subst hx; simp at hd
    · simp only [hx, if_false] at hd
      exact h.lg.l_skip x hd
  · show s.err = firstErr (Event.start j :: s.log)
    rw [firstErr_cons_neutral (by simp)]
    exact h.lg.l_err
  · show OrderedLog s.n s.keys (Event.start j :: s.log)
    apply h.lg.l_order.cons_start hjq.1
    · rw [← h.lg.l_err]; exact herr
    · intro i hi hc
      rcases h.inv.safe i j hi hjq.1 hc with a | a
      · have a := h.lg.executed_of_ended a
        rw [executed_iff] at a
        rcases a with a | a
        · exact h.lg.l_fin i a
        · have := h.lg.l_skip i a
          rw [herr] at this; cases this
      · obtain ⟨x, hx⟩ := a.has_blocker
        have := (h.inv.blk x j hx).2.2.2
        rw [hjq.2] at this; cases this

theorem full_frame {s s' : State} (h : Full s) (e1 : s'.n = s.n) (e2 : s'.keys = s.keys)
    (e3 : s'.status = s.status) (e4 : s'.deps = s.deps) (e5 : s'.blocked = s.blocked)
    (e6 : s'.readers = s.readers) (e7 : s'.reading = s.reading) (e8 : s'.nodes = s.nodes) :
    Inv s' :=
  inv_of_status h.inv e1 e2 (fun x => by simp [executed, e3]) (fun x hx => by simpa [ended, e3] using hx)
    (fun x => by rw [e3]) e4 e5 e6 e7 e8

theorem isSome_cas (e : Option Err) (x : Err) : (cas e x).isSome = true := by
  cases e <;> rfl

theorem cas_of_some {e : Option Err} (x : Err) (h : e.isSome = true) : cas e x = e := by
  cases e with
  | none => cases h
  | some y => rfl

theorem full_stop {s : State} (h : Full s) : Full (apply s .stop) := by
  refine ⟨full_frame h rfl rfl rfl rfl rfl rfl rfl rfl, ⟨h.q.q_iff, h.q.q_nd, h.q.hi⟩,
    ⟨?_, ?_, ?_, ?_, ?_, h.lg.l_coarse⟩⟩
  · intro x
    show (Event.stop :: s.log).count (.start x) = _
    rw [List.count_cons, h.lg.l_cnt x]; simp; rfl
  · intro x hd
    obtain ⟨f, hf⟩ := h.lg.l_fin x hd
    exact ⟨f, List.mem_cons_of_mem _ hf⟩
  · intro x _
    exact isSome_cas _ _
  · show cas s.err .stopped = firstErr (Event.stop :: s.log)
    rw [h.lg.l_err]
    simp only [firstErr]
    cases firstErr s.log <;> rfl
  · show OrderedLog s.n s.keys (Event.stop :: s.log)
    exact h.lg.l_order.cons_other (by simp)

theorem full_wait {s : State} (h : Full s) : Full (apply s .wait) :=
  ⟨full_frame h rfl rfl rfl rfl rfl rfl rfl rfl, ⟨h.q.q_iff, h.q.q_nd, h.q.hi⟩,
    ⟨h.lg.l_cnt, h.lg.l_fin, h.lg.l_skip, h.lg.l_err, h.lg.l_order, h.lg.l_coarse⟩⟩

theorem complete_status_other {s : State} {d : Nat} {st : Status} {order : List Nat} {x : Nat}
    (hblk : ∀ d j, s.blocked d j = true → d < j ∧ j < s.n ∧ executed s d = false ∧ s.status j = .waiting) (hx : x ≠ d) :
    (complete s d st order).status x = s.status x ∨
      (s.status x = .waiting ∧ (complete s d st order).status x = .queued) := by
  rw [complete_status]
  simp only [hx, if_false]
  split
  · rename_i hc
    simp only [Bool.and_eq_true] at hc
    exact Or.inr ⟨(hblk d x hc.1).2.2.2, rfl⟩
  · exact Or.inl rfl

theorem mem_ready {s : State} {d x : Nat} :
    x ∈ ready s d ↔ x < s.n ∧ (s.blocked d x && decide (s.deps x - 1 ≤ 0)) = true := by
  simp [ready, List.mem_filter, List.mem_range]

theorem qinv_complete {s : State} {d : Nat} {st : Status} {order : List Nat}
    (hq : ∀ x, x ∈ s.queue ↔ (x < s.n ∧ s.status x = .queued ∧ x ≠ d))
    (hnd : s.queue.Nodup) (hhi : ∀ x, s.n ≤ x → s.status x = .waiting)
    (hblk : ∀ d j, s.blocked d j = true → d < j ∧ j < s.n ∧ executed s d = false ∧ s.status j = .waiting)
    (hd : d < s.n) (hstq : st ≠ .queued) (hperm : order.Perm (ready s d)) :
    QInv (complete s d st order) := by
  refine ⟨?_, ?_, ?_⟩
  · intro x
    show x ∈ s.queue ++ order ↔ x < s.n ∧ (complete s d st order).status x = .queued
    rw [List.mem_append, hperm.mem_iff, mem_ready, hq, complete_status]
    by_cases hx : x = d
    · subst hx
      have : s.blocked x x = false := by
        cases hb : s.blocked x x with
        | false => rfl
        | true => have := (hblk x x hb).1; omega
      simp [this, hstq]
    · simp only [hx, if_false, ne_eq, not_false_eq_true, and_true]
      by_cases hc : (s.blocked d x && decide (s.deps x - 1 ≤ 0)) = true
      · simp only [hc, if_true, and_true]
        have hb : s.blocked d x = true := by simp only [Bool.and_eq_true] at hc; exact hc.1
        have := (hblk d x hb).2.1
        constructor
        · intro _; exact this
        · intro _; exact Or.inr this
      · simp [hc]
  · show (s.queue ++ order).Nodup
    rw [List.nodup_append]
    refine ⟨hnd, ?_, ?_⟩
    · rw [hperm.nodup_iff]
      exact List.nodup_range.filter _
    · intro a ha b hb e
      subst e
      rw [hperm.mem_iff, mem_ready] at hb
      have hb' : s.blocked d a = true := by
        have := hb.2; simp only [Bool.and_eq_true] at this; exact this.1
      have h1 := (hblk d a hb').2.2.2
      have h2 := ((hq a).mp ha).2.1
      rw [h1] at h2; cases h2
  · intro x hx
    have hxn : s.n ≤ x := hx
    have hxd : x ≠ d := by omega
    rcases complete_status_other (st := st) (order := order) hblk hxd with a | a
    · rw [a]; exact hhi x hxn
    · have := hhi x hxn
      -- a waiting task ≥ n cannot be blocked by d
      rw [complete_status] at a
      simp only [hxd, if_false] at a
      split at a
      · rename_i hc
        simp only [Bool.and_eq_true] at hc
        have := (hblk d x hc.1).2.1
        omega
      · exact absurd a.2 (by rw [a.1]; simp)

/-- the log-related facts survive a completion (log and err are not touched by `complete`) -/
theorem loginv_complete {s : State} {d : Nat} {st : Status} {order : List Nat}
    (hinv : Inv s)
    (hcnt : ∀ x, x ≠ d → s.log.count (.start x) =
      if (s.status x = .running ∨ s.status x = .done) then 1 else 0)
    (hcntd : s.log.count (.start d) = if (st = .running ∨ st = .done) then 1 else 0)
    (hfin : ∀ x, x ≠ d → s.status x = .done → ∃ f, Event.fin x f ∈ s.log)
    (hfind : st = .done → ∃ f, Event.fin d f ∈ s.log)
    (hskip : ∀ x, x ≠ d → s.status x = .skipped → s.err.isSome = true)
    (hskipd : st = .skipped → s.err.isSome = true)
    (herr : s.err = firstErr s.log) (hord : OrderedLog s.n s.keys s.log)
    (hco : ∀ j, s.status j ≠ .dequeued ∧ ∀ r, s.status j ≠ .ending r)
    (hstc : st = .done ∨ st = .skipped) :
    LogInv (complete s d st order) := by
  have hother : ∀ x, x ≠ d → ∀ v : Status, v ≠ .waiting → v ≠ .queued →
      ((complete s d st order).status x = v ↔ s.status x = v) := by
    intro x hx v hv1 hv2
    rcases complete_status_other (st := st) (order := order) hinv.blk hx with a | a
    · rw [a]
    · rw [a.1, a.2]
      constructor <;> intro e
      · exact absurd e.symm hv2
      · exact absurd e.symm hv1
  refine ⟨?_, ?_, ?_, herr, hord, ?_⟩
  rotate_right
  · intro x
    by_cases hx : x = d
    · subst hx
      rw [complete_status]
      rcases hstc with e | e <;> simp [e]
    · rcases complete_status_other (st := st) (order := order) hinv.blk hx with a | a
      · rw [a]; exact hco x
      · rw [a.2]; simp
  · intro x
    show s.log.count (.start x) = _
    by_cases hx : x = d
    · subst hx
      rw [hcntd, complete_status]; simp
    · rw [hcnt x hx]
      simp only [hother x hx .running (by simp) (by simp), hother x hx .done (by simp) (by simp)]
  · intro x hdn
    by_cases hx : x = d
    · subst hx
      rw [complete_status] at hdn; simp at hdn
      exact hfind hdn
    · rw [hother x hx .done (by simp) (by simp)] at hdn
      exact hfin x hx hdn
  · intro x hsk
    by_cases hx : x = d
    · subst hx
      rw [complete_status] at hsk; simp at hsk
      exact hskipd hsk
    · rw [hother x hx .skipped (by simp) (by simp)] at hsk
      exact hskip x hx hsk

theorem full_finish {s : State} {j : Nat} {fail : Bool} {order : List Nat} (h : Full s)
    (hen : isEnabled s (.finish j fail order) = true) : Full (apply s (.finish j fail order)) := by
  simp only [isEnabled, Bool.and_eq_true, beq_iff_eq, decide_eq_true_eq, isArrangement,
    List.isPerm_iff] at hen
  obtain ⟨_, ⟨hjn, hrun⟩, hperm⟩ := hen
  let s1 : State := { s with err := if fail then cas s.err (.task j) else s.err,
                             log := .fin j fail :: s.log }
  have e : apply s (.finish j fail order) = complete s1 j .done order := rfl
  rw [e]
  have hinv1 : Inv s1 := full_frame h rfl rfl rfl rfl rfl rfl rfl rfl
  have hst1 : s1.status j ≠ .waiting := by show s.status j ≠ .waiting; rw [hrun]; simp
  refine ⟨inv_complete hinv1 hjn hst1 (Or.inl rfl), ?_, ?_⟩
  · apply qinv_complete (s := s1) ?_ h.q.q_nd h.q.hi hinv1.blk hjn (by simp) hperm
    intro x
    show x ∈ s.queue ↔ x < s.n ∧ s.status x = .queued ∧ x ≠ j
    rw [h.q.q_iff]
    constructor
    · rintro ⟨a, b⟩
      exact ⟨a, b, by intro e; subst e; rw [hrun] at b; cases b⟩
    · rintro ⟨a, b, _⟩; exact ⟨a, b⟩
  · apply loginv_complete (s := s1) hinv1
    · intro x hx
      show (Event.fin j fail :: s.log).count (.start x) = _
      rw [List.count_cons, h.lg.l_cnt x]; simp; rfl
    · show (Event.fin j fail :: s.log).count (.start j) = _
      rw [List.count_cons, h.lg.l_cnt j, hrun]; simp
    · intro x _ hd
      obtain ⟨f, hf⟩ := h.lg.l_fin x hd
      exact ⟨f, List.mem_cons_of_mem _ hf⟩
    · intro _; exact ⟨fail, List.mem_cons_self⟩
    · intro x _ hsk
      have := h.lg.l_skip x hsk
      show (if fail then cas s.err (.task j) else s.err).isSome = true
      cases fail
      · exact this
      · simp only [if_true]; exact isSome_cas _ _
    · intro e; cases e
    · show (if fail then cas s.err (.task j) else s.err) = firstErr (Event.fin j fail :: s.log)
      cases fail
      · rw [firstErr_cons_neutral (by simp)]; exact h.lg.l_err
      · rw [h.lg.l_err]
        simp only [if_true, firstErr]
        cases firstErr s.log <;> rfl
    · show OrderedLog s.n s.keys (Event.fin j fail :: s.log)
      exact h.lg.l_order.cons_other (by simp)
    · exact h.lg.l_coarse
    · exact Or.inl rfl

theorem full_skip {s : State} {j : Nat} {order : List Nat} (h : Full s)
    (hen : isEnabled s (.skip j order) = true) : Full (apply s (.skip j order)) := by
  simp only [isEnabled, Bool.and_eq_true, beq_iff_eq, decide_eq_true_eq, isArrangement,
    List.isPerm_iff] at hen
  obtain ⟨_, ⟨⟨hhead, _⟩, herr⟩, hperm⟩ := hen
  obtain ⟨rest, hq⟩ := head_mem hhead
  have hjq : j < s.n ∧ s.status j = .queued := (h.q.q_iff j).mp (by rw [hq]; simp)
  have hnd := h.q.q_nd
  rw [hq, List.nodup_cons] at hnd
  let s1 : State := { s with queue := s.queue.tail, log := .skip j :: s.log }
  have e : apply s (.skip j order) = complete s1 j .skipped order := rfl
  rw [e]
  have hinv1 : Inv s1 := full_frame h rfl rfl rfl rfl rfl rfl rfl rfl
  have hst1 : s1.status j ≠ .waiting := by show s.status j ≠ .waiting; rw [hjq.2]; simp
  refine ⟨inv_complete hinv1 hjq.1 hst1 (Or.inr rfl), ?_, ?_⟩
  · apply qinv_complete (s := s1) ?_ ?_ h.q.hi hinv1.blk hjq.1 (by simp) hperm
    · intro x
      show x ∈ s.queue.tail ↔ x < s.n ∧ s.status x = .queued ∧ x ≠ j
      rw [← and_assoc, ← h.q.q_iff, hq, List.tail_cons]
      constructor
      · intro hx
        exact ⟨List.mem_cons_of_mem _ hx, by intro e; subst e; exact hnd.1 hx⟩
      · rintro ⟨a, b⟩
        rcases List.mem_cons.mp a with a | a
        · exact absurd a b
        · exact a
    · show s.queue.tail.Nodup
      rw [hq]; exact hnd.2
  · apply loginv_complete (s := s1) hinv1
    · intro x hx
      show (Event.skip j :: s.log).count (.start x) = _
      rw [List.count_cons, h.lg.l_cnt x]; simp; rfl
    · show (Event.skip j :: s.log).count (.start j) = _
      rw [List.count_cons, h.lg.l_cnt j, hjq.2]; simp
    · intro x _ hd
      obtain ⟨f, hf⟩ := h.lg.l_fin x hd
      exact ⟨f, List.mem_cons_of_mem _ hf⟩
    · intro e; cases e
    · intro x _ hsk
      exact h.lg.l_skip x hsk
    · intro _; exact herr
    · show s.err = firstErr (Event.skip j :: s.log)
      rw [firstErr_cons_neutral (by simp)]; exact h.lg.l_err
    · show OrderedLog s.n s.keys (Event.skip j :: s.log)
      exact h.lg.l_order.cons_other (by simp)
    · exact h.lg.l_coarse
    · exact Or.inr rfl

theorem full_step {s : State} {st : Step} (h : Full s) (hen : isEnabled s st = true) :
    Full (apply s st) := by
  cases st with
  | run ks =>
    simp only [isEnabled, Bool.and_eq_true] at hen
    exact full_run h hen.2
  | start j => exact full_start h hen
  | skip j order => exact full_skip h hen
  | finish j fail order => exact full_finish h hen
  | stop => exact full_stop h
  | wait => exact full_wait h

theorem full_reachable {w : Nat} {s : State} (hr : Reachable w s) : Full s := by
  induction hr with
  | init => exact full_init w
  | step st _ hen ih => exact full_step ih hen

end HyperModel.Executor
