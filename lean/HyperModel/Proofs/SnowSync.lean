import HyperModel.Proofs.SnowLink
/-! Lemmas for C21: the unresolved-blocks health set and reprocessing after state sync. -/
namespace HyperModel.Snow

/-- ids announced to the pre-rejected subscribers -/
def npr (l : List Event) : List Nat := l.filterMap fun | .nPreRejected b => some b.id | _ => none

theorem npr_append (a b : List Event) : npr (a ++ b) = npr a ++ npr b := by simp [npr, List.filterMap_append]

theorem filter_true' (l : List Nat) : l.filter (fun _ => true) = l := by
  induction l <;> simp_all

/-- effect of a step on the unresolved set: it is filtered by exactly the pre-rejected ids logged -/
structure UStep (s s' : State) : Prop where
  log : ∃ ev, s'.log = s.log ++ ev ∧ s'.unresolved = s.unresolved.map (fun u => u.filter (fun id => id ∉ npr ev))

theorem UStep.refl (s : State) : UStep s s :=
  ⟨[], by simp, by simp [npr]; cases s.unresolved <;> simp [filter_true']⟩

theorem UStep.of_quiet {s s' : State} (ev : List Event) (h1 : s'.log = s.log ++ ev) (h2 : npr ev = [])
    (h3 : s'.unresolved = s.unresolved) : UStep s s' :=
  ⟨ev, h1, by rw [h3, h2]; cases s.unresolved <;> simp [filter_true']⟩

theorem UStep.trans {a b c : State} (h1 : UStep a b) (h2 : UStep b c) : UStep a c := by
  obtain ⟨e1, l1, u1⟩ := h1.log
  obtain ⟨e2, l2, u2⟩ := h2.log
  refine ⟨e1 ++ e2, by rw [l2, l1, List.append_assoc], ?_⟩
  rw [u2, u1]
  cases a.unresolved with
  | none => rfl
  | some u =>
    simp only [Option.map_some, List.filter_filter, npr_append, List.mem_append, not_or]
    congr 1
    apply List.filter_congr
    intro x _
    simp [Bool.and_comm]

theorem UStep.emit (s : State) (e : Event) (h : npr [e] = []) : UStep s (s.emit e) :=
  UStep.of_quiet [e] rfl h rfl

theorem UStep.same {s s' : State} (h1 : s'.log = s.log) (h2 : s'.unresolved = s.unresolved) : UStep s s' :=
  UStep.of_quiet [] (by simp [h1]) rfl h2

theorem npr_quiet (ev : List Event) (hq : ∀ x ∈ ev, quiet x = true) : npr ev = [] := by
  induction ev with
  | nil => rfl
  | cons x r ih =>
    have hx := hq x List.mem_cons_self
    have hr := ih (fun y hy => hq y (List.mem_cons_of_mem _ hy))
    cases x <;> simp_all [quiet, npr]

/-- unresolved is untouched by passive steps -/
structure UKeep (s s' : State) : Prop where
  u : s'.unresolved = s.unresolved

theorem ukeep_materialize (s : State) (f : Found) : (s.materialize f).1.unresolved = s.unresolved := by
  cases f <;> rfl

theorem ukeep_get (s : State) (id : Nat) : (get s id).1.unresolved = s.unresolved := by
  unfold HyperModel.Snow.get
  have := ukeep_materialize s (s.getBlock id)
  split <;> simp_all

theorem ukeep_getH (s : State) (ht : Nat) : (getH s ht).1.unresolved = s.unresolved := by
  unfold HyperModel.Snow.getH
  split
  · rfl
  · split
    · rfl
    · split
      · rfl
      · exact ukeep_get s _

theorem ukeep_parse (s : State) (b : Blk) : (parse s b).1.unresolved = s.unresolved := by
  unfold HyperModel.Snow.parse
  split
  · split
    · rfl
    · rfl
  · have := ukeep_materialize s (s.getBlock b.id)
    split <;> simp_all

theorem ukeep_build (s : State) (n : Nat) (c : Option Nat) : (build s n c).1.unresolved = s.unresolved := by
  unfold HyperModel.Snow.build
  dsimp only
  split
  · rfl
  · split <;> rfl

theorem ustep_passive {s s' : State} (hp : Passive s s') (hu : s'.unresolved = s.unresolved) : UStep s s' := by
  obtain ⟨ev, h1, h2⟩ := hp.log
  exact UStep.of_quiet ev h1 (npr_quiet ev h2) hu

theorem ustep_verify (s : State) (h : Nat) (c : Option Nat) : UStep s (verify s h c).1 := by
  unfold HyperModel.Snow.verify
  dsimp only
  split
  · exact UStep.same rfl rfl
  · split
    · split
      · exact UStep.same rfl rfl
      · exact UStep.refl s
    · split
      · exact UStep.refl s
      next p _ =>
        split
        · exact UStep.refl s
        · split
          · exact UStep.refl s
          · split
            · exact UStep.emit s _ rfl
            next out _ =>
              exact UStep.of_quiet [.cVerify p.out (s.obj h).blk (chainVerify p.out (s.obj h).blk), .nVerified out]
                (by simp [State.vbSet, State.emit, State.setObj]) rfl rfl

theorem ustep_accept (s : State) (h : Nat) : UStep s (accept s h).1 := by
  unfold HyperModel.Snow.accept
  dsimp only
  split
  · exact UStep.refl s
  · split
    · exact UStep.refl s
    · split
      · exact UStep.refl s
      · split
        · exact UStep.same rfl rfl
        · exact UStep.of_quiet [.nPreAccepted (s.obj h).blk] rfl rfl rfl

theorem ustep_reject (s : State) (h : Nat) : UStep s (reject s h).1 := by
  unfold HyperModel.Snow.reject
  dsimp only
  split
  · refine ⟨[.nPreRejected (s.obj h).blk], rfl, ?_⟩
    show (s.unresolved.map fun u => u.filter (· ≠ (s.obj h).blk.id)) = _
    cases s.unresolved with
    | none => rfl
    | some u => simp [npr]
  · exact UStep.of_quiet [_] rfl rfl rfl

theorem ustep_deq (s : State) : UStep s (deq s).1 := by
  unfold HyperModel.Snow.deq
  split
  · split <;> exact UStep.of_quiet [] (by simp) rfl rfl
  · exact UStep.refl s

theorem ustep_fin (s : State) : UStep s (fin s).1 := by
  unfold HyperModel.Snow.fin
  split
  · exact UStep.refl s
  next h pa _ =>
    exact UStep.of_quiet [.cAccept pa (s.obj h).out (chainAccept pa (s.obj h).out), .nAccepted (chainAccept pa (s.obj h).out)]
      (by simp [State.emit, State.setObj]) rfl rfl

/-- every normal-operation step filters the unresolved set by the pre-rejected ids it logs -/
theorem ustep_step (s : State) (op : Op)
    (hn : (match op with | .start _ | .finish _ _ => false | _ => true) = true) : UStep s (step s op).1 := by
  unfold HyperModel.Snow.step
  split
  · exact UStep.refl s
  · cases op with
    | build n c => exact ustep_passive (Passive.build s n c) (ukeep_build s n c)
    | parse b => exact ustep_passive (Passive.parse s b) (ukeep_parse s b)
    | verify h c => dsimp only; split; exact ustep_verify s h c; exact UStep.refl s
    | accept h => dsimp only; split; exact ustep_accept s h; exact UStep.refl s
    | reject h => dsimp only; split; exact ustep_reject s h; exact UStep.refl s
    | pref id => exact UStep.of_quiet [] (by simp) rfl rfl
    | get id => exact ustep_passive (Passive.get s id) (ukeep_get s id)
    | getH ht => exact ustep_passive (Passive.getH s ht) (ukeep_getH s ht)
    | last => exact UStep.refl s
    | deq => exact ustep_deq s
    | fin => exact ustep_fin s
    | start b => simp at hn
    | finish b st => simp at hn
    | health => exact UStep.refl s
    | ciLast => exact UStep.refl s
    | ciPref => exact UStep.refl s

end HyperModel.Snow

namespace HyperModel.Snow

/-! ### Reprocessing from the sync target to the accepted tip -/

theorem linked_last_height (p : Blk) (l : List Blk) (h : linked p l = true) :
    (lastOr p l).height = p.height + l.length := by
  induction l generalizing p with
  | nil => simp [lastOr]
  | cons b r ih =>
    simp only [linked, Bool.and_eq_true, beq_iff_eq] at h
    obtain ⟨⟨_, h2⟩, h3⟩ := h
    simp only [lastOr, List.length_cons]
    rw [ih b h3]; omega

/-- the loop of `reprocessFromOutputToInput` executes exactly the chain above the target: the final
output/accepted state is the fold of the inner chain's verify/accept over it -/
theorem reprocessLoop_chain (ix : Index) (chain : List Blk) :
    ∀ (out : Out) (acc : Acc) (ev : List Event) (fuel : Nat),
      linked out.blk chain = true → (∀ b ∈ chain, b.invalid = false) →
      (∀ b ∈ chain, ix.byHeight b.height = some b) → chain.length ≤ fuel → acc.st = out.st →
      ∃ ev', reprocessLoop ix (lastOr out.blk chain) fuel out acc ev =
        (some (⟨lastOr out.blk chain, out.st ++ chain.map (·.id)⟩,
               if chain = [] then acc else ⟨lastOr out.blk chain, out.st ++ chain.map (·.id)⟩), ev') := by
  induction chain with
  | nil =>
    intro out acc ev fuel _ _ _ _ _
    cases fuel <;> exact ⟨ev, by simp [reprocessLoop, lastOr]⟩
  | cons b r ih =>
    intro out acc ev fuel hl hv hi hf hacc
    simp only [linked, Bool.and_eq_true, beq_iff_eq] at hl
    obtain ⟨⟨hp, hh⟩, hr⟩ := hl
    cases fuel with
    | zero => simp at hf
    | succ f =>
      have hlast := linked_last_height b r hr
      have hgt : (lastOr out.blk (b :: r)).height > out.blk.height := by
        simp only [lastOr]; omega
      have hb := hi b List.mem_cons_self
      have hbv := hv b List.mem_cons_self
      have hcv : chainVerify (some out) b = some ⟨b, out.st ++ [b.id]⟩ := by simp [chainVerify, hbv]
      obtain ⟨ev', he⟩ := ih ⟨b, out.st ++ [b.id]⟩ ⟨b, out.st ++ [b.id]⟩
        (ev ++ [.cVerify (some out) b (some ⟨b, out.st ++ [b.id]⟩)] ++ [.nVerified ⟨b, out.st ++ [b.id]⟩] ++
          [.cAccept (some acc) (some ⟨b, out.st ++ [b.id]⟩) ⟨b, out.st ++ [b.id]⟩, .nAccepted ⟨b, out.st ++ [b.id]⟩])
        f hr (fun x hx => hv x (List.mem_cons_of_mem _ hx)) (fun x hx => hi x (List.mem_cons_of_mem _ hx))
        (by simpa using hf) rfl
      refine ⟨ev', ?_⟩
      rw [reprocessLoop]
      simp only [hgt, if_true, ← hh, hb, hcv, chainAccept]
      simp only [lastOr] at he ⊢
      rw [he]
      simp only [List.map_cons, List.append_assoc, List.singleton_append, reduceCtorEq, if_false]
      by_cases hre : r = []
      · subst hre; simp [lastOr]
      · simp [hre]

theorem reprocess_chain (ix : Index) (t : Blk) (st : List Nat) (chain : List Blk)
    (hl : linked t chain = true) (hv : ∀ b ∈ chain, b.invalid = false)
    (hi : ∀ b ∈ chain, ix.byHeight b.height = some b) (hne : chain ≠ []) :
    ∃ ev, reprocess ix (lastOr t chain) ⟨t, st⟩ ⟨t, st⟩ =
      (some (⟨lastOr t chain, st ++ chain.map (·.id)⟩, ⟨lastOr t chain, st ++ chain.map (·.id)⟩), ev) := by
  have hh := linked_last_height t chain hl
  unfold reprocess
  have : ¬ ((lastOr t chain).height < t.height ∨ t.id ≠ t.id) := by simp; omega
  simp only [this, if_false]
  obtain ⟨ev, he⟩ := reprocessLoop_chain ix chain ⟨t, st⟩ ⟨t, st⟩ [] ((lastOr t chain).height - t.height) hl hv hi
    (by show chain.length ≤ (lastOr t chain).height - t.height; omega) rfl
  exact ⟨ev, by simpa [hne] using he⟩

end HyperModel.Snow

namespace HyperModel.Snow

/-! ### `verifyProcessingBlocks` touches only processing objects -/

structure Keep (j : Nat) (a b : State) : Prop where
  obj : b.obj j = a.obj j
  la : b.lastAccepted = a.lastAccepted
  lp : b.lastProcessed = a.lastProcessed
  un : b.unresolved = a.unresolved

theorem reverifyOne_keep (j : Nat) (acc : State × List Nat × Bool) (h : Nat) (hne : j ≠ h) :
    Keep j acc.1 (reverifyOne acc h).1 := by
  obtain ⟨s, bad, failed⟩ := acc
  unfold reverifyOne
  dsimp only
  split
  · exact ⟨rfl, rfl, rfl, rfl⟩
  · split
    · exact ⟨rfl, rfl, rfl, rfl⟩
    · split
      · exact ⟨rfl, rfl, rfl, rfl⟩
      · split
        · exact ⟨rfl, rfl, rfl, rfl⟩
        · refine ⟨?_, rfl, rfl, rfl⟩
          simp [hne]

theorem reverify_fold_keep (j : Nat) (l : List Nat) (hl : ∀ h ∈ l, j ≠ h) (acc : State × List Nat × Bool) :
    Keep j acc.1 (l.foldl reverifyOne acc).1 := by
  induction l generalizing acc with
  | nil => exact ⟨rfl, rfl, rfl, rfl⟩
  | cons h r ih =>
    have k1 := reverifyOne_keep j acc h (hl h List.mem_cons_self)
    have k2 := ih (fun x hx => hl x (List.mem_cons_of_mem _ hx)) (reverifyOne acc h)
    exact ⟨by rw [List.foldl_cons, k2.obj, k1.obj], by rw [List.foldl_cons, k2.la, k1.la],
      by rw [List.foldl_cons, k2.lp, k1.lp], by rw [List.foldl_cons, k2.un, k1.un]⟩

theorem mem_insertByHeight (s : State) (h x : Nat) (l : List Nat) :
    x ∈ insertByHeight s h l ↔ x = h ∨ x ∈ l := by
  induction l with
  | nil => simp [insertByHeight]
  | cons a r ih =>
    unfold insertByHeight
    dsimp only
    split
    · simp
    · simp only [List.mem_cons, ih]
      constructor
      · rintro (h1 | h1 | h1) <;> simp [h1]
      · rintro (h1 | h1 | h1) <;> simp [h1]

theorem mem_processingSorted (s : State) (x : Nat) (hx : x ∈ s.processingSorted) : ∃ id, s.vb id = some x := by
  unfold State.processingSorted at hx
  have : ∀ l : List Nat, x ∈ l.foldr (insertByHeight s) [] → x ∈ l := by
    intro l
    induction l with
    | nil => simp
    | cons a r ih =>
      intro h
      simp only [List.foldr_cons] at h
      rcases (mem_insertByHeight s a x _).mp h with h1 | h1
      · subst h1; exact List.mem_cons_self
      · exact List.mem_cons_of_mem _ (ih h1)
  have hx' := this _ hx
  obtain ⟨id, _, hid⟩ := List.mem_filterMap.mp hx'
  exact ⟨id, hid⟩

/-- `finishTail` (set last processed, re-verify processing blocks, register the health check, mark
ready) leaves the last accepted object alone when it is not itself a processing block -/
theorem finishTail_ok (s : State) (hvb : ∀ id, s.vb id ≠ some s.lastAccepted) (hok : (finishTail s).2 = .ok) :
    (finishTail s).1.lastAccepted = s.lastAccepted ∧
    (finishTail s).1.obj s.lastAccepted = s.obj s.lastAccepted ∧
    (finishTail s).1.lastProcessed = some s.lastAccepted ∧
    (finishTail s).1.ready = true ∧ (∃ F, (finishTail s).1.unresolved = some F) := by
  have hk := reverify_fold_keep s.lastAccepted
    ({ s with lastProcessed := some s.lastAccepted } : State).processingSorted
    (by
      intro h hh hc
      obtain ⟨id, hid⟩ := mem_processingSorted _ h hh
      exact hvb id (by rw [hc]; exact hid))
    ({ s with lastProcessed := some s.lastAccepted }, [], false)
  revert hok hk
  unfold finishTail
  dsimp only
  generalize (List.foldl reverifyOne ({ s with lastProcessed := some s.lastAccepted }, [], false)
    ({ s with lastProcessed := some s.lastAccepted } : State).processingSorted) = res
  obtain ⟨s', bad, failed⟩ := res
  intro hok hk
  cases failed with
  | true => simp at hok
  | false =>
    dsimp only at hok ⊢
    split at hok
    · simp at hok
    · rename_i hun
      exact ⟨hk.la, hk.obj, hk.lp, rfl, bad, rfl⟩

end HyperModel.Snow

namespace HyperModel.Snow

/-! ### The registered unresolved set is exactly the processing blocks left unverified -/

theorem reverifyOne_failed (s : State) (bad : List Nat) (h : Nat) :
    reverifyOne (s, bad, true) h = (s, bad, true) := by
  simp [reverifyOne]

theorem reverify_fold_failed (l : List Nat) (s : State) (bad : List Nat) :
    l.foldl reverifyOne (s, bad, true) = (s, bad, true) := by
  induction l with
  | nil => rfl
  | cons h r ih => rw [List.foldl_cons, reverifyOne_failed, ih]

/-- one iteration on an unverified processing block: other objects untouched, the block keeps its
header, and either it is now verified and `bad` is unchanged, or it is untouched and joins `bad` -/
theorem reverifyOne_spec (s : State) (bad : List Nat) (h : Nat) (hu : (s.obj h).verified = false)
    (hf : (reverifyOne (s, bad, false) h).2.2 = false) :
    (∀ j, j ≠ h → (reverifyOne (s, bad, false) h).1.obj j = s.obj j) ∧
    ((reverifyOne (s, bad, false) h).1.obj h).blk = (s.obj h).blk ∧
    ((((reverifyOne (s, bad, false) h).1.obj h).verified = true ∧ (reverifyOne (s, bad, false) h).2.1 = bad) ∨
     (((reverifyOne (s, bad, false) h).1.obj h).verified = false ∧
       (reverifyOne (s, bad, false) h).2.1 = bad ++ [(s.obj h).blk.id])) := by
  revert hf
  unfold reverifyOne
  simp only [Bool.false_eq_true, if_false]
  split
  · simp
  · split
    · intro _; exact ⟨fun _ _ => rfl, rfl, Or.inr ⟨hu, rfl⟩⟩
    · split
      · intro _; exact ⟨fun _ _ => rfl, rfl, Or.inr ⟨hu, rfl⟩⟩
      · intro _
        refine ⟨fun j hj => by simp [hj], by simp, Or.inl ⟨by simp, rfl⟩⟩

theorem reverify_fold_bad (l : List Nat) :
    ∀ (s : State) (bad : List Nat) (s' : State) (bad' : List Nat), l.Nodup →
      (∀ h ∈ l, (s.obj h).verified = false) →
      l.foldl reverifyOne (s, bad, false) = (s', bad', false) →
      bad' = bad ++ (l.filter (fun h => !(s'.obj h).verified)).map (fun h => (s.obj h).blk.id) ∧
      (∀ h ∈ l, (s'.obj h).blk = (s.obj h).blk) := by
  induction l with
  | nil =>
    intro s bad s' bad' _ _ hf
    simp only [List.foldl_nil, Prod.mk.injEq] at hf
    obtain ⟨rfl, rfl, _⟩ := hf
    simp
  | cons h r ih =>
    intro s bad s' bad' hnd hu hf
    rw [List.foldl_cons] at hf
    have hnd' := List.nodup_cons.mp hnd
    have huh := hu h List.mem_cons_self
    cases hfail : (reverifyOne (s, bad, false) h).2.2 with
    | true =>
      have : reverifyOne (s, bad, false) h = ((reverifyOne (s, bad, false) h).1, (reverifyOne (s, bad, false) h).2.1, true) := by
        apply Prod.ext; rfl; apply Prod.ext; rfl; exact hfail
      rw [this, reverify_fold_failed] at hf
      simp at hf
    | false =>
      obtain ⟨k1, k2, k3⟩ := reverifyOne_spec s bad h huh hfail
      have hdec : reverifyOne (s, bad, false) h = ((reverifyOne (s, bad, false) h).1, (reverifyOne (s, bad, false) h).2.1, false) := by
        apply Prod.ext; rfl; apply Prod.ext; rfl; exact hfail
      rw [hdec] at hf
      have hne : ∀ j ∈ r, j ≠ h := fun j hj hc => hnd'.1 (hc ▸ hj)
      obtain ⟨i1, i2⟩ := ih _ _ s' bad' hnd'.2
        (fun j hj => by rw [k1 j (hne j hj)]; exact hu j (List.mem_cons_of_mem _ hj)) hf
      have hkeep := reverify_fold_keep h r (fun j hj hc => hnd'.1 (hc ▸ hj))
        ((reverifyOne (s, bad, false) h).1, (reverifyOne (s, bad, false) h).2.1, false)
      rw [hf] at hkeep
      have hobj : s'.obj h = (reverifyOne (s, bad, false) h).1.obj h := hkeep.obj
      have hmap : (r.filter (fun j => !(s'.obj j).verified)).map (fun j => ((reverifyOne (s, bad, false) h).1.obj j).blk.id) =
          (r.filter (fun j => !(s'.obj j).verified)).map (fun j => (s.obj j).blk.id) := by
        apply List.map_congr_left
        intro j hj
        rw [k1 j (hne j (List.mem_filter.mp hj).1)]
      refine ⟨?_, ?_⟩
      · rw [i1, hmap]
        rcases k3 with ⟨v, b⟩ | ⟨v, b⟩
        · simp [List.filter_cons, hobj, v, b]
        · simp [List.filter_cons, hobj, v, b]
      · intro j hj
        rcases List.mem_cons.mp hj with rfl | hj
        · rw [hobj, k2]
        · rw [i2 j hj, k1 j (hne j hj)]

theorem insertByHeight_congr (s s' : State) (h : s'.objs = s.objs) : insertByHeight s' = insertByHeight s := by
  have ho : ∀ j, s'.obj j = s.obj j := by intro j; simp [State.obj, h]
  funext a l
  induction l with
  | nil => rfl
  | cons x r ih =>
    unfold insertByHeight
    dsimp only
    rw [ho a, ho x, ih]

/-- `finishTail` registers exactly the ids of the processing blocks that are unverified afterwards -/
theorem finishTail_failed_set (s : State) (hnd : s.processingSorted.Nodup)
    (hu : ∀ h ∈ s.processingSorted, (s.obj h).verified = false) (hok : (finishTail s).2 = .ok) :
    (finishTail s).1.unresolved =
      some ((s.processingSorted.filter (fun h => !((finishTail s).1.obj h).verified)).map (fun h => (s.obj h).blk.id)) := by
  have hps : ({ s with lastProcessed := some s.lastAccepted } : State).processingSorted = s.processingSorted := by
    unfold State.processingSorted
    rw [insertByHeight_congr s { s with lastProcessed := some s.lastAccepted } rfl]
  have key := reverify_fold_bad s.processingSorted { s with lastProcessed := some s.lastAccepted } []
  revert hok key
  unfold finishTail
  dsimp only
  rw [hps]
  generalize (List.foldl reverifyOne ({ s with lastProcessed := some s.lastAccepted }, [], false) s.processingSorted) = res
  obtain ⟨s', bad, failed⟩ := res
  intro hok key
  cases failed with
  | true => simp at hok
  | false =>
    dsimp only at hok ⊢
    split at hok
    · simp at hok
    · obtain ⟨k1, _⟩ := key s' bad hnd hu rfl
      simp only [List.nil_append] at k1
      show some bad = _
      rw [k1]; rfl

/-! ### verified flags of objects other than the one being verified never change in normal operation -/

def ObjSame (s s' : State) : Prop := ∀ j, j < s.nobj → (s'.obj j).verified = (s.obj j).verified

theorem ObjSame.refl (s : State) : ObjSame s s := fun _ _ => rfl
theorem ObjSame.of_eq {s s' : State} (h : s'.objs = s.objs) : ObjSame s s' := by
  intro j _; simp [State.obj, h]
theorem ObjSame.alloc (s : State) (o : Obj) : ObjSame s (s.alloc o).1 := by
  intro j hj
  have : j ≠ s.nobj := by omega
  simp [obj_alloc, this]
theorem ObjSame.trans {a b c : State} (h1 : ObjSame a b) (hn : a.nobj ≤ b.nobj) (h2 : ObjSame b c) : ObjSame a c := by
  intro j hj; rw [h2 j (by omega), h1 j hj]

theorem ObjSame.materialize (s : State) (f : Found) : ObjSame s (s.materialize f).1 := by
  cases f with
  | obj h => exact ObjSame.refl s
  | bare b => exact ObjSame.alloc s _
  | missing => exact ObjSame.refl s

theorem ObjSame.get (s : State) (id : Nat) : ObjSame s (get s id).1 := by
  unfold HyperModel.Snow.get
  have := ObjSame.materialize s (s.getBlock id)
  split <;> simp_all

theorem ObjSame.getH (s : State) (ht : Nat) : ObjSame s (getH s ht).1 := by
  unfold HyperModel.Snow.getH
  split
  · exact ObjSame.refl s
  · split
    · exact ObjSame.refl s
    · split
      · exact ObjSame.refl s
      · exact ObjSame.get s _

theorem ObjSame.parseNew (s : State) (b : Blk) : ObjSame s (parseNew s b).1 := by
  unfold HyperModel.Snow.parseNew
  intro j hj
  have : j ≠ (s.emit (Event.cParse b)).nobj := by show j ≠ s.nobj; omega
  show ((State.alloc (s.emit (.cParse b)) { blk := b }).1.obj j).verified = _
  simp [obj_alloc, this]

theorem ObjSame.parse (s : State) (b : Blk) : ObjSame s (parse s b).1 := by
  unfold HyperModel.Snow.parse
  split
  · split
    · exact ObjSame.of_eq rfl
    · exact ObjSame.parseNew { s with parsed := (s.parsed.get b.id).1 } b
  · have := ObjSame.materialize s (s.getBlock b.id)
    split <;> simp_all

theorem ObjSame.build (s : State) (n : Nat) (c : Option Nat) : ObjSame s (build s n c).1 := by
  unfold HyperModel.Snow.build
  dsimp only
  split
  · exact ObjSame.refl s
  · split
    · exact ObjSame.of_eq rfl
    · intro j hj
      show ((State.alloc (State.emit s _) _).1.obj j).verified = _
      simp only [obj_alloc]
      split
      · rename_i e
        have e' : j = s.nobj := e
        omega
      · rfl

theorem vflag_verify (s : State) (h : Nat) (c : Option Nat) (j : Nat) (hne : j ≠ h) :
    ((verify s h c).1.obj j).verified = (s.obj j).verified := by
  unfold HyperModel.Snow.verify
  dsimp only
  split
  · rfl
  · split
    · split <;> rfl
    · split
      · rfl
      · split
        · rfl
        · split
          · rfl
          · split
            · rfl
            · simp [hne]

theorem vflag_accept (s : State) (h j : Nat) : ((accept s h).1.obj j).verified = (s.obj j).verified := by
  unfold HyperModel.Snow.accept
  dsimp only
  split
  · rfl
  · split
    · rfl
    · split
      · rfl
      · split <;> rfl

theorem vflag_reject (s : State) (h j : Nat) : ((reject s h).1.obj j).verified = (s.obj j).verified := by
  unfold HyperModel.Snow.reject
  dsimp only
  split <;> rfl

theorem vflag_deq (s : State) (j : Nat) : ((deq s).1.obj j).verified = (s.obj j).verified := by
  unfold HyperModel.Snow.deq
  split
  · split <;> rfl
  · rfl

theorem vflag_fin (s : State) (j : Nat) : ((fin s).1.obj j).verified = (s.obj j).verified := by
  unfold HyperModel.Snow.fin
  split
  · rfl
  next h pa _ =>
    show ((((s.emit (.cAccept pa (s.obj h).out (chainAccept pa (s.obj h).out))).setObj h
      { s.obj h with acc := some (chainAccept pa (s.obj h).out), accepted := true }).emit
      (.nAccepted (chainAccept pa (s.obj h).out))).obj j).verified = _
    simp only [obj_emit, obj_setObj]
    split
    · rename_i e; subst e; rfl
    · rfl

/-- in normal operation a step changes the `verified` flag of no allocated object except the one
named by a `verify` call -/
theorem verified_flag_stable (s : State) (op : Op)
    (hn : (match op with | .start _ | .finish _ _ => false | _ => true) = true) (j : Nat) (hj : j < s.nobj)
    (hv : ∀ c, op ≠ .verify j c) : ((step s op).1.obj j).verified = (s.obj j).verified := by
  unfold HyperModel.Snow.step
  split
  · rfl
  · cases op with
    | build n c => exact ObjSame.build s n c j hj
    | parse b => exact ObjSame.parse s b j hj
    | verify h c =>
      have hne : j ≠ h := by intro e; subst e; exact hv c rfl
      dsimp only; split; exact vflag_verify s h c j hne; rfl
    | accept h => dsimp only; split; exact vflag_accept s h j; rfl
    | reject h => dsimp only; split; exact vflag_reject s h j; rfl
    | pref id => rfl
    | get id => exact ObjSame.get s id j hj
    | getH ht => exact ObjSame.getH s ht j hj
    | last => rfl
    | deq => exact vflag_deq s j
    | fin => exact vflag_fin s j
    | start b => simp at hn
    | finish b st => simp at hn
    | health => rfl
    | ciLast => rfl
    | ciPref => rfl

end HyperModel.Snow
