import HyperModel.Model.LargestSet
/-! Lemmas for C33: the greedy loop of `LargestSet` refines a pure "kept list / final
accumulator" pair; facts about that pair by induction over the index list. -/
namespace HyperModel.LargestSetProofs
open HyperModel.LargestSet

/-- exact (unbounded) per-dimension sum of the vectors selected by an index list -/
def sumAt (dims : List Dims) (k : Nat) (idx : List Nat) : Nat :=
  (idx.map fun i => get (dimAt dims i) k).sum

@[simp] theorem sumAt_nil (dims : List Dims) (k : Nat) : sumAt dims k [] = 0 := rfl
@[simp] theorem sumAt_cons (dims : List Dims) (k i : Nat) (is : List Nat) :
    sumAt dims k (i :: is) = get (dimAt dims i) k + sumAt dims k is := by
  simp [sumAt]

/-- total component-wise addition (what `Add` returns when it does not fail) -/
def addD (a b : Dims) : Dims := (List.range feeDimensions).map fun k => get a k + get b k

theorem get_map_range (f : Nat → Nat) {k : Nat} (hk : k < feeDimensions) :
    get ((List.range feeDimensions).map f) k = f k := by
  unfold LargestSet.get
  simp [List.getD_eq_getElem?_getD, hk]

theorem get_addD (a b : Dims) {k : Nat} (hk : k < feeDimensions) :
    get (addD a b) k = get a k + get b k := get_map_range _ hk

theorem get_zero (k : Nat) : get zero k = 0 := by
  unfold LargestSet.get zero
  simp [List.getD_eq_getElem?_getD, List.getElem?_replicate]
  split <;> simp

theorem canAdd_iff (d a l : Dims) :
    canAdd d a l = true ↔
      ∀ k, k < feeDimensions → get d k + get a k < two64 ∧ get d k + get a k ≤ get l k := by
  unfold canAdd checkedAdd
  rw [List.all_eq_true]
  constructor
  · intro h k hk
    have := h k (List.mem_range.mpr hk)
    split at this
    · simp at this
    · rename_i c hc
      split at hc
      · simp at hc; subst hc
        simp at this
        exact ⟨by assumption, this⟩
      · simp at hc
  · intro h k hk
    have ⟨h1, h2⟩ := h k (List.mem_range.mp hk)
    simp [h1]
    omega

theorem add_of_canAdd {d a l : Dims} (h : canAdd d a l = true) : add d a = some (addD d a) := by
  rw [canAdd_iff] at h
  unfold add addD checkedAdd
  have : ((List.range feeDimensions).all fun k =>
      (if get d k + get a k < two64 then some (get d k + get a k) else none).isSome) = true := by
    rw [List.all_eq_true]
    intro k hk
    simp [(h k (List.mem_range.mp hk)).1]
  simp [this]

/-- indices kept by the greedy loop started with accumulator `acc` -/
def keepList (dims : List Dims) (limit : Dims) : List Nat → Dims → List Nat
  | [], _ => []
  | i :: rest, acc =>
    if canAdd acc (dimAt dims i) limit then i :: keepList dims limit rest (addD acc (dimAt dims i))
    else keepList dims limit rest acc

/-- accumulator after the greedy loop -/
def finalAcc (dims : List Dims) (limit : Dims) : List Nat → Dims → Dims
  | [], acc => acc
  | i :: rest, acc =>
    if canAdd acc (dimAt dims i) limit then finalAcc dims limit rest (addD acc (dimAt dims i))
    else finalAcc dims limit rest acc

/-- the marking loop never takes the `Add` error exit, its accumulator is `finalAcc`, and
after dropping the sentinels its index list is `keepList` -/
theorem mark_eq (dims : List Dims) (limit : Dims) (n : Nat) (is : List Nat) (acc : Dims)
    (hn : ∀ i ∈ is, i ≠ n) :
    ∃ ms, mark dims limit n is acc = some (ms, finalAcc dims limit is acc) ∧
      ms.length = is.length ∧ compact n ms = keepList dims limit is acc := by
  induction is generalizing acc with
  | nil => exact ⟨[], rfl, rfl, rfl⟩
  | cons i rest ih =>
    have hrest : ∀ j ∈ rest, j ≠ n := fun j hj => hn j (List.mem_cons_of_mem _ hj)
    have hi : i ≠ n := hn i (List.mem_cons_self ..)
    by_cases hc : canAdd acc (dimAt dims i) limit = true
    · obtain ⟨ms, h1, h2, h3⟩ := ih (addD acc (dimAt dims i)) hrest
      refine ⟨i :: ms, ?_, by simp [h2], ?_⟩
      · simp [mark, hc, add_of_canAdd hc, h1, finalAcc]
      · simp [keepList, hc, compact, hi] at h3 ⊢
        exact h3
    · obtain ⟨ms, h1, h2, h3⟩ := ih acc hrest
      refine ⟨n :: ms, ?_, by simp [h2], ?_⟩
      · simp [mark, hc, h1, finalAcc]
      · simp [keepList, hc, compact] at h3 ⊢
        exact h3

theorem keepList_sublist (dims : List Dims) (limit : Dims) (is : List Nat) (acc : Dims) :
    (keepList dims limit is acc).Sublist is := by
  induction is generalizing acc with
  | nil => exact List.Sublist.slnil
  | cons i rest ih =>
    unfold keepList
    split
    · exact (ih _).cons_cons _
    · exact (ih _).cons _

theorem finalAcc_eq (dims : List Dims) (limit : Dims) (is : List Nat) (acc : Dims)
    {k : Nat} (hk : k < feeDimensions) :
    get (finalAcc dims limit is acc) k = get acc k + sumAt dims k (keepList dims limit is acc) := by
  induction is generalizing acc with
  | nil => simp [finalAcc, keepList]
  | cons i rest ih =>
    unfold finalAcc keepList
    split
    · rw [ih, get_addD _ _ hk, sumAt_cons]; omega
    · exact ih _

theorem finalAcc_le (dims : List Dims) (limit : Dims) (is : List Nat) (acc : Dims)
    (hacc : ∀ k, k < feeDimensions → get acc k ≤ get limit k) :
    ∀ k, k < feeDimensions → get (finalAcc dims limit is acc) k ≤ get limit k := by
  induction is generalizing acc with
  | nil => simpa [finalAcc] using hacc
  | cons i rest ih =>
    unfold finalAcc
    split
    · rename_i hc
      apply ih
      intro k hk
      rw [get_addD _ _ hk]
      exact ((canAdd_iff _ _ _).mp hc k hk).2
    · exact ih _ hacc

theorem finalAcc_lt (dims : List Dims) (limit : Dims) (is : List Nat) (acc : Dims)
    (hacc : ∀ k, k < feeDimensions → get acc k < two64) :
    ∀ k, k < feeDimensions → get (finalAcc dims limit is acc) k < two64 := by
  induction is generalizing acc with
  | nil => simpa [finalAcc] using hacc
  | cons i rest ih =>
    unfold finalAcc
    split
    · rename_i hc
      apply ih
      intro k hk
      rw [get_addD _ _ hk]
      exact ((canAdd_iff _ _ _).mp hc k hk).1
    · exact ih _ hacc

/-- what "kept before position of `i`" sums to, and why a skipped index was skipped -/
theorem skipped_aux (dims : List Dims) (limit : Dims)
    (hl : ∀ k, k < feeDimensions → get limit k < two64)
    (is : List Nat) (acc : Dims) (hnd : is.Nodup)
    (pre : List Nat) (i : Nat) (post : List Nat) (hsplit : is = pre ++ i :: post)
    (hi : i ∉ keepList dims limit is acc) :
    ∃ k, k < feeDimensions ∧
      get limit k <
        get acc k + sumAt dims k (pre.filter (fun j => decide (j ∈ keepList dims limit is acc)))
          + get (dimAt dims i) k := by
  induction pre generalizing is acc with
  | nil =>
    subst hsplit
    simp only [List.nil_append] at hi ⊢
    by_cases hc : canAdd acc (dimAt dims i) limit = true
    · exfalso; apply hi; simp [keepList, hc]
    · have : ¬ ∀ k, k < feeDimensions →
          get acc k + get (dimAt dims i) k < two64 ∧ get acc k + get (dimAt dims i) k ≤ get limit k :=
        fun h => hc ((canAdd_iff _ _ _).mpr h)
      simp only [Classical.not_forall] at this
      obtain ⟨k, hk, hbad⟩ := this
      refine ⟨k, hk, ?_⟩
      have := hl k hk
      simp only [List.filter_nil, sumAt_nil]
      omega
  | cons p pre' ih =>
    subst hsplit
    have hnd' : (pre' ++ i :: post).Nodup := (List.nodup_cons.mp hnd).2
    have hp : p ∉ pre' ++ i :: post := (List.nodup_cons.mp hnd).1
    have hpi : i ≠ p := by
      intro h; apply hp; simp [h]
    by_cases hc : canAdd acc (dimAt dims p) limit = true
    · -- p kept
      have hk1 : keepList dims limit (p :: pre' ++ i :: post) acc =
          p :: keepList dims limit (pre' ++ i :: post) (addD acc (dimAt dims p)) := by
        simp [keepList, hc]
      rw [hk1] at hi ⊢
      have hi' : i ∉ keepList dims limit (pre' ++ i :: post) (addD acc (dimAt dims p)) :=
        fun h => hi (List.mem_cons_of_mem _ h)
      obtain ⟨k, hk, hlt⟩ := ih (pre' ++ i :: post) (addD acc (dimAt dims p)) hnd' rfl hi'
      refine ⟨k, hk, ?_⟩
      rw [get_addD _ _ hk] at hlt
      have hfil : (p :: pre').filter (fun j => decide (j ∈ p :: keepList dims limit (pre' ++ i :: post) (addD acc (dimAt dims p))))
          = p :: pre'.filter (fun j => decide (j ∈ keepList dims limit (pre' ++ i :: post) (addD acc (dimAt dims p)))) := by
        rw [List.filter_cons]
        simp only [List.mem_cons, true_or, decide_true, if_true]
        congr 1
        apply List.filter_congr
        intro j hj
        have : j ≠ p := by
          intro h; apply hp; subst h; simp [hj]
        simp [this]
      rw [hfil, sumAt_cons]
      omega
    · -- p skipped
      have hk1 : keepList dims limit (p :: pre' ++ i :: post) acc =
          keepList dims limit (pre' ++ i :: post) acc := by
        simp [keepList, hc]
      rw [hk1] at hi ⊢
      obtain ⟨k, hk, hlt⟩ := ih (pre' ++ i :: post) acc hnd' rfl hi
      refine ⟨k, hk, ?_⟩
      have hpn : p ∉ keepList dims limit (pre' ++ i :: post) acc :=
        fun h => hp ((keepList_sublist _ _ _ _).subset h)
      rw [List.filter_cons]
      simp only [hpn, decide_false, Bool.false_eq_true, if_false]
      exact hlt

theorem ins_perm (w : Nat → Nat) (x : Nat) (l : List Nat) : (ins w x l).Perm (x :: l) := by
  induction l with
  | nil => exact List.Perm.refl _
  | cons y ys ih =>
    unfold ins
    split
    · exact List.Perm.refl _
    · exact (ih.cons y).trans (List.Perm.swap x y ys)

theorem isort_perm (w : Nat → Nat) (l : List Nat) : (isort w l).Perm l := by
  induction l with
  | nil => exact List.Perm.refl _
  | cons x xs ih => exact (ins_perm w x _).trans (ih.cons x)

theorem ins_sorted (w : Nat → Nat) (x : Nat) (l : List Nat)
    (h : l.Pairwise (fun a b => w a ≤ w b)) : (ins w x l).Pairwise (fun a b => w a ≤ w b) := by
  induction l with
  | nil => simp [ins]
  | cons y ys ih =>
    unfold ins
    have hy := List.pairwise_cons.mp h
    split
    · rename_i hxy
      refine List.pairwise_cons.mpr ⟨?_, h⟩
      intro z hz
      rcases List.mem_cons.mp hz with rfl | hz
      · exact hxy
      · exact Nat.le_trans hxy (hy.1 z hz)
    · rename_i hxy
      refine List.pairwise_cons.mpr ⟨?_, ih hy.2⟩
      intro z hz
      rcases List.mem_cons.mp ((ins_perm w x ys).mem_iff.mp hz) with rfl | hz
      · omega
      · exact hy.1 z hz

theorem isort_sorted (w : Nat → Nat) (l : List Nat) :
    (isort w l).Pairwise (fun a b => w a ≤ w b) := by
  induction l with
  | nil => simp [isort]
  | cons x xs ih => exact ins_sorted w x _ ih

theorem sortedIdx_perm (dims : List Dims) (limit : Dims) :
    (sortedIdx dims limit).Perm (List.range dims.length) := isort_perm _ _

theorem sortedIdx_nodup (dims : List Dims) (limit : Dims) : (sortedIdx dims limit).Nodup :=
  (sortedIdx_perm dims limit).nodup_iff.mpr List.nodup_range

theorem mem_sortedIdx (dims : List Dims) (limit : Dims) (i : Nat) :
    i ∈ sortedIdx dims limit ↔ i < dims.length := by
  rw [(sortedIdx_perm dims limit).mem_iff, List.mem_range]

/-- the repaired `LargestSet` is the pure pair -/
theorem largestSet_eq (dims : List Dims) (limit : Dims) :
    largestSet dims limit =
      (keepList dims limit (sortedIdx dims limit) zero, finalAcc dims limit (sortedIdx dims limit) zero) := by
  have hn : ∀ i ∈ sortedIdx dims limit, i ≠ dims.length := by
    intro i hi
    have := (mem_sortedIdx dims limit i).mp hi
    omega
  obtain ⟨ms, h1, _, h3⟩ := mark_eq dims limit dims.length (sortedIdx dims limit) zero hn
  simp [largestSet, h1, h3]

end HyperModel.LargestSetProofs
