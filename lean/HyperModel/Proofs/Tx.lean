import HyperModel.Model.Tx
/-! Lemmas about `Model/Tx.lean` used by the property theorems of C03, C06 and C07. -/
namespace HyperModel.Proofs.Tx
open HyperModel.Tx

/-! ## frame: programs over `state.Mutable` never touch the scope or the checkpoints -/

theorem insert_frame (v : View) (k : Key) (x : Val) :
    (v.insert k x).1.scope = v.scope ∧ (v.insert k x).1.cps = v.cps := by
  unfold View.insert
  split
  · simp
  · split
    · simp
    · split
      · simp
      · split <;> simp

theorem remove_frame (v : View) (k : Key) :
    (v.remove k).1.scope = v.scope ∧ (v.remove k).1.cps = v.cps := by
  unfold View.remove
  split <;> simp

theorem run_frame (p : Prog) : ∀ v : View, (p.run v).1.scope = v.scope ∧ (p.run v).1.cps = v.cps := by
  induction p with
  | done o => intro v; simp [Prog.run]
  | fail e => intro v; simp [Prog.run]
  | get k c ih => intro v; simp only [Prog.run]; exact ih _ v
  | insert k x c ih =>
    intro v; simp only [Prog.run]
    have h1 := ih (v.insert k x).2 (v.insert k x).1
    have h2 := insert_frame v k x
    exact ⟨h1.1.trans h2.1, h1.2.trans h2.2⟩
  | remove k c ih =>
    intro v; simp only [Prog.run]
    have h1 := ih (v.remove k).2 (v.remove k).1
    have h2 := remove_frame v k
    exact ⟨h1.1.trans h2.1, h1.2.trans h2.2⟩

theorem insert_cases (v : View) (k : Key) (x : Val) :
    ((v.insert k x).2 = none ∧ (v.insert k x).1.cur = upd v.cur k (some x)) ∨
    (∃ e, (v.insert k x).2 = some e ∧ (v.insert k x).1 = v) := by
  unfold View.insert
  split
  · right; exact ⟨_, rfl, rfl⟩
  · split
    · right; exact ⟨_, rfl, rfl⟩
    · split
      · left; exact ⟨rfl, rfl⟩
      · split
        · right; exact ⟨_, rfl, rfl⟩
        · left; exact ⟨rfl, rfl⟩

theorem remove_cases (v : View) (k : Key) :
    ((v.remove k).2 = none ∧ (v.remove k).1.cur = upd v.cur k none) ∨
    (∃ e, (v.remove k).2 = some e ∧ (v.remove k).1 = v) := by
  unfold View.remove
  split
  · right; exact ⟨_, rfl, rfl⟩
  · left; exact ⟨rfl, rfl⟩

theorem get_ok (v : View) (k : Key) (x : Val) (h : v.get k = .ok x) : v.cur k = some x := by
  unfold View.get at h
  split at h
  · simp at h
  · split at h <;> simp_all

/-! ## checkpoint / rollback -/

theorem rollback_after_opIndex (v1 v' : View) (h : v'.cps = v1.opIndex.1.cps) :
    (v'.rollback v1.opIndex.2).cur = v1.cur ∧ (v'.rollback v1.opIndex.2).scope = v'.scope := by
  have hc : v'.cps = v1.cps ++ [v1.cur] := by simpa [View.opIndex] using h
  unfold View.rollback
  have : v'.cps[v1.opIndex.2]? = some v1.cur := by
    simp [View.opIndex, hc]
  rw [this]
  simp

/-! ## fee arithmetic -/

/-- Σ price_d · units_d -/
def dot : List Nat → List Nat → Nat
  | p :: ps, u :: us => p * u + dot ps us
  | _, _ => 0

theorem feeOf_spec : ∀ (ps us : List Nat) (acc f : Nat), feeOf ps us acc = some f →
    f = acc + dot ps us := by
  intro ps
  induction ps with
  | nil => intro us acc f h; simp [feeOf] at h; simp [dot, h]
  | cons p ps ih =>
    intro us acc f h
    cases us with
    | nil => simp [feeOf] at h; simp [dot, h]
    | cons u us =>
      simp only [feeOf, mulU64, addU64] at h
      split at h
      · simp at h
      · rename_i c hc
        split at hc
        · simp at hc; subst hc
          split at h
          · simp at h
          · rename_i f' hf'
            split at hf'
            · simp at hf'; subst hf'
              have := ih us _ f h
              simp [dot]; omega
            · simp at hf'
        · simp at hc

theorem feeOf_lt : ∀ (ps us : List Nat) (acc f : Nat), acc < u64 → feeOf ps us acc = some f → f < u64 := by
  intro ps
  induction ps with
  | nil => intro us acc f ha h; simp [feeOf] at h; omega
  | cons p ps ih =>
    intro us acc f ha h
    cases us with
    | nil => simp [feeOf] at h; omega
    | cons u us =>
      simp only [feeOf, mulU64, addU64] at h
      split at h
      · simp at h
      · rename_i c hc
        split at hc
        · simp at hc; subst hc
          split at h
          · simp at h
          · rename_i f' hf'
            split at hf'
            · simp at hf'; subst hf'
              exact ih us _ f (by assumption) h
            · simp at hf'
        · simp at hc

/-! ## uint64 codec -/

theorem decU64_encU64 (n : Nat) (h : n < u64) : decU64 (encU64 n) = some n := by
  unfold u64 at h
  simp only [encU64, decU64, UInt8.toNat_ofNat']
  congr 1
  omega

theorem decU64_lt (v : Val) (n : Nat) (h : decU64 v = some n) : n < u64 := by
  unfold decU64 at h
  split at h
  · rename_i a b c d e f g hh
    simp at h
    have := a.toNat_lt; have := b.toNat_lt; have := c.toNat_lt; have := d.toNat_lt
    have := e.toNat_lt; have := f.toNat_lt; have := g.toNat_lt; have := hh.toNat_lt
    unfold u64; omega
  · simp at h

/-! ## the fee step -/

/-- the sponsor's balance record as both handlers parse it (`none`: absent or malformed) -/
def readBal (h : Handler) (m : Store) (a : Addr) : Option Nat := (m (h.key a)).bind decU64

/-- the state right after the fee: only the sponsor's balance record changes
(prefix handler: rewritten, also to zero; morpheus: deleted at zero) -/
def charge (h : Handler) (m : Store) (a : Addr) (bal fee : Nat) : Store :=
  match h with
  | .pfx _ => upd m (h.key a) (some (encU64 (bal - fee)))
  | .morpheus =>
    if bal - fee = 0 then upd m (h.key a) none else upd m (h.key a) (some (encU64 (bal - fee)))

theorem charge_other (h : Handler) (m : Store) (a : Addr) (bal fee : Nat) (k : Key)
    (hk : k ≠ h.key a) : charge h m a bal fee k = m k := by
  unfold charge
  cases h <;> simp only [] <;> (try split) <;> simp [upd, hk]

/-- balance as `GetBalance` reports it: absent = 0 -/
def balance (h : Handler) (m : Store) (a : Addr) : Nat := (readBal h m a).getD 0

theorem balance_charge (h : Handler) (m : Store) (a : Addr) (bal fee : Nat)
    (hb : bal < u64) : balance h (charge h m a bal fee) a = bal - fee := by
  have hlt : bal - fee < u64 := by omega
  unfold balance readBal charge
  cases h with
  | pfx p => simp [upd, decU64_encU64 _ hlt]
  | morpheus =>
    simp only []
    split
    · rename_i h0; simp [upd, h0]
    · simp [upd, decU64_encU64 _ hlt]

theorem deduct_ok (h : Handler) (a : Addr) (fee : Nat) (v v1 : View) (o : Val)
    (hr : (h.deduct a fee).run v = (v1, .ok o)) :
    ∃ bal, readBal h v.cur a = some bal ∧ fee ≤ bal ∧ v1.cur = charge h v.cur a bal fee := by
  cases h with
  | pfx p =>
    simp only [Handler.deduct, pfxDeduct, Prog.run] at hr
    generalize hg : v.get ((Handler.pfx p).key a) = g at hr
    cases g with
    | error e => cases e <;> simp [Prog.run] at hr
    | ok x =>
      have hx := get_ok _ _ _ hg
      simp only [] at hr
      cases hd : decU64 x with
      | none => simp [hd, Prog.run] at hr
      | some bal =>
        simp only [hd] at hr
        by_cases hlt : bal < fee
        · simp [hlt, Prog.run] at hr
        · simp only [hlt, if_false, Prog.run] at hr
          refine ⟨bal, by simp [readBal, hx, hd], by omega, ?_⟩
          rcases insert_cases v ((Handler.pfx p).key a) (encU64 (bal - fee)) with ⟨h2, h1⟩ | ⟨e, h2, _⟩
          · simp only [h2, Prog.run] at hr
            simp at hr
            rw [← hr.1, h1]
            simp [charge]
          · simp [h2, Prog.run] at hr
  | morpheus =>
    simp only [Handler.deduct, mSub, Prog.run] at hr
    generalize hg : v.get (Handler.morpheus.key a) = g at hr
    cases g with
    | error e => cases e <;> simp [mInner, Prog.run] at hr
    | ok x =>
      have hx := get_ok _ _ _ hg
      simp only [mInner] at hr
      cases hd : decU64 x with
      | none => simp [hd, Prog.run] at hr
      | some bal =>
        simp only [hd, subU64] at hr
        by_cases hle : fee ≤ bal
        · simp only [hle, if_true] at hr
          refine ⟨bal, by simp [readBal, hx, hd], hle, ?_⟩
          by_cases h0 : bal - fee = 0
          · simp only [h0, if_true, Prog.run] at hr
            rcases remove_cases v (Handler.morpheus.key a) with ⟨h2, h1⟩ | ⟨e, h2, _⟩
            · simp only [h2, Prog.run] at hr
              simp at hr
              rw [← hr.1, h1]
              simp [charge, h0]
            · simp [h2, Prog.run] at hr
          · simp only [h0, if_false, Prog.run] at hr
            rcases insert_cases v (Handler.morpheus.key a) (encU64 (bal - fee)) with ⟨h2, h1⟩ | ⟨e, h2, _⟩
            · simp only [h2, Prog.run] at hr
              simp at hr
              rw [← hr.1, h1]
              simp [charge, h0]
            · simp [h2, Prog.run] at hr
        · simp [hle, Prog.run] at hr

/-! ## the fee step cannot fail for a funded sponsor -/

theorem getD_suffix (q : Bytes) : (q ++ [0, 1]).getD q.length 0 = 0 ∧ (q ++ [0, 1]).getD (q.length + 1) 0 = 1 := by
  induction q with
  | nil => simp
  | cons x xs ih => simp [ih]

theorem maxChunks_key (h : Handler) (a : Addr) : maxChunks (h.key a) = some 1 := by
  have key : ∀ (p : Bytes), maxChunks (p ++ (a ++ [0, 1])) = some 1 := by
    intro p
    have e : p ++ (a ++ [0, 1]) = (p ++ a) ++ [0, 1] := by simp
    have hl : ((p ++ a) ++ [0, 1]).length = (p ++ a).length + 2 := by simp only [List.length_append, List.length_cons, List.length_nil]
    rw [e]
    unfold maxChunks
    rw [if_neg (by omega), hl]
    have h1 := (getD_suffix (p ++ a)).1
    have h2 := (getD_suffix (p ++ a)).2
    simp only [Nat.add_sub_cancel] at *
    rw [show (p ++ a).length + 2 - 1 = (p ++ a).length + 1 by omega, h1, h2]; rfl
  cases h with
  | pfx p => exact key p
  | morpheus => exact key [3]

theorem verifyValue_key (h : Handler) (a : Addr) (n : Nat) : verifyValue (h.key a) (encU64 n) = true := by
  simp [verifyValue, maxChunks_key, numChunks, encU64]

/-- with read+write permission on the sponsor's record and a balance that covers the fee, the
fee deduction cannot fail -/
theorem deduct_succeeds (h : Handler) (a : Addr) (fee bal : Nat) (v : View)
    (hr : has (v.scope (h.key a)) permRead = true) (hw : has (v.scope (h.key a)) permWrite = true)
    (hb : readBal h v.cur a = some bal) (hle : fee ≤ bal) :
    ∃ v1 o, (h.deduct a fee).run v = (v1, .ok o) := by
  unfold readBal at hb
  cases hk : v.cur (h.key a) with
  | none => simp [hk] at hb
  | some x =>
    simp [hk] at hb
    have hget : v.get (h.key a) = .ok x := by simp [View.get, hr, hk]
    have hins : ∀ n, (v.insert (h.key a) (encU64 n)).2 = none := by
      intro n; simp [View.insert, hw, verifyValue_key, hk]
    have hrem : (v.remove (h.key a)).2 = none := by simp [View.remove, hw]
    cases h with
    | pfx p =>
      have hnlt : ¬ bal < fee := by omega
      simp [Handler.deduct, pfxDeduct, Prog.run, hget, hb, hnlt, hins]
    | morpheus =>
      by_cases h0 : bal - fee = 0
      · simp [Handler.deduct, mSub, Prog.run, hget, mInner, hb, subU64, hle, h0, hrem]
      · simp [Handler.deduct, mSub, Prog.run, hget, mInner, hb, subU64, hle, h0, hins]

/-! ## the per-transaction closure of processor / builder -/

theorem processTx_done (rules : Rules) (h : Handler) (prices : List Nat) (now : Int)
    (scope : Key → Nat) (tx : Tx) (cur cur' : Store) (r : Result)
    (hp : processTx rules h prices now scope tx cur = (cur', .done r)) :
    preExecute rules h prices tx { cur, scope } now = none ∧
    ∃ v', txExecute h prices tx { cur, scope } = (v', .ok r) ∧ cur' = v'.cur := by
  unfold processTx at hp
  dsimp only at hp
  split at hp
  · simp at hp
  · rename_i hpre
    split at hp
    · simp at hp
    · rename_i v' res hx
      simp at hp
      refine ⟨hpre, v', ?_, hp.1.symm⟩
      rw [hx, hp.2]

/-! ## block-level layer -/

theorem commit_visible (b : Block) (cur : Store) : (b.commit cur).visible = cur := by
  funext k
  by_cases h : cur k = b.visible k
  · have e : (b.commit cur).diff k = b.diff k := by simp [Block.commit, h]
    rw [h]; simp only [Block.visible, e]; rfl
  · have e : (b.commit cur).diff k = some (cur k) := by simp [Block.commit, h]
    have p : (b.commit cur).parent = b.parent := rfl
    simp only [Block.visible, e]

theorem commit_parent (b : Block) (cur : Store) : (b.commit cur).parent = b.parent := rfl

theorem processTxB_visible (rules : Rules) (h : Handler) (prices : List Nat) (now : Int)
    (scope : Key → Nat) (tx : Tx) (b : Block) :
    (processTxB rules h prices now scope tx b).1.visible = (processTx rules h prices now scope tx b.visible).1 ∧
    (processTxB rules h prices now scope tx b).2 = (processTx rules h prices now scope tx b.visible).2 ∧
    (processTxB rules h prices now scope tx b).1.parent = b.parent := by
  unfold processTxB
  rcases hp : processTx rules h prices now scope tx b.visible with ⟨cur', o⟩
  cases o with
  | done res => simp [commit_visible, commit_parent]
  | preErr e =>
    simp only
    unfold processTx at hp; dsimp only at hp
    split at hp
    · simp at hp; simp [hp.1]
    · split at hp <;> simp at hp
  | execErr e =>
    simp only
    unfold processTx at hp; dsimp only at hp
    split at hp
    · simp at hp
    · split at hp
      · simp at hp; simp [hp.1]
      · simp at hp

end HyperModel.Proofs.Tx
