import HyperModel.Model.Canoto
/-! Lemmas about `Model/Canoto.lean`: varints, field readers, the flat decode loop (C15, C14). -/
namespace HyperModel.Canoto

theorem toNat_ofNat_lt {n : Nat} (h : n < 256) : (UInt8.ofNat n).toNat = n := by
  simp [UInt8.toNat_ofNat']; omega

/-- bound for a varint whose first byte is at index `i` -/
def lim (i : Nat) : Nat := 2 ^ (64 - 7 * i)

theorem lim_succ {i : Nat} (h : i ≤ 8) : lim i = 128 * lim (i + 1) := by
  unfold lim
  have : 64 - 7 * i = (64 - 7 * (i + 1)) + 7 := by omega
  rw [this, Nat.pow_add]; omega

theorem lim_nine : lim 9 = 2 := by decide
theorem lim_pos (i : Nat) : 0 < lim i := Nat.two_pow_pos _

theorem uvarint_small {n : Nat} (h : n < 128) : uvarint n = [UInt8.ofNat n] := by
  rw [uvarint]; simp [h]
theorem uvarint_big {n : Nat} (h : ¬ n < 128) :
    uvarint n = UInt8.ofNat (n % 128 + 128) :: uvarint (n / 128) := by
  rw [uvarint]; simp [h]

/-- reading back what `AppendUvarint` wrote -/
theorem readUvarintAux_uvarint (n : Nat) : ∀ (i : Nat) (rest : Bytes), i ≤ 9 → n < lim i → (0 < i → 0 < n) →
    readUvarintAux i (uvarint n ++ rest) = some (n, rest) := by
  induction n using Nat.strongRecOn with
  | _ n ih =>
    intro i rest hi hn hpos
    by_cases hs : n < 128
    · rw [uvarint_small hs]
      simp only [List.cons_append, List.nil_append, readUvarintAux]
      have h1 : (UInt8.ofNat n).toNat = n := toNat_ofNat_lt (by omega)
      rw [h1]
      have h10 : ¬ i = 10 := by omega
      have h9 : ¬ (i = 9 ∧ n > 1) := by
        intro ⟨h, h'⟩; subst h; rw [lim_nine] at hn; omega
      have h0 : ¬ (i > 0 ∧ n = 0) := by
        intro ⟨h, h'⟩; have := hpos h; omega
      simp [h10, hs, h9, h0]
    · rw [uvarint_big hs]
      simp only [List.cons_append, readUvarintAux]
      have h1 : (UInt8.ofNat (n % 128 + 128)).toNat = n % 128 + 128 := toNat_ofNat_lt (by omega)
      rw [h1]
      have h10 : ¬ i = 10 := by omega
      have hi8 : i ≤ 8 := by
        by_cases h : i = 9
        · subst h; rw [lim_nine] at hn; omega
        · omega
      have hl := lim_succ hi8
      have hrec := ih (n / 128) (by omega) (i + 1) rest (by omega) (by omega) (by intro _; omega)
      have hb : ¬ (n % 128 + 128 < 128) := by omega
      simp only [h10, hb, if_false, hrec]
      congr 2
      omega

theorem readUint64_uvarint {n : Nat} (h : n < 2 ^ 64) (rest : Bytes) :
    readUint64 (uvarint n ++ rest) = some (n, rest) :=
  readUvarintAux_uvarint n 0 rest (by omega) (by simpa [lim] using h) (by omega)

/-- whatever `ReadUint` accepts is the minimal encoding of the value it returns -/
theorem readUvarintAux_sound : ∀ (b : Bytes) (i n : Nat) (rest : Bytes), i ≤ 10 →
    readUvarintAux i b = some (n, rest) →
    b = uvarint n ++ rest ∧ n < lim i ∧ (0 < i → 0 < n) := by
  intro b
  induction b with
  | nil => intro i n rest _ h; simp [readUvarintAux] at h
  | cons x xs ih =>
    intro i n rest hi h
    simp only [readUvarintAux] at h
    by_cases h10 : i = 10
    · simp [h10] at h
    · simp only [h10, if_false] at h
      have hx := UInt8.toNat_lt x
      by_cases hs : x.toNat < 128
      · simp only [hs, if_true] at h
        split at h
        · cases h
        · split at h
          · cases h
          · rename_i h9 h0
            simp only [Option.some.injEq, Prod.mk.injEq] at h
            obtain ⟨rfl, rfl⟩ := h
            refine ⟨?_, ?_, ?_⟩
            · rw [uvarint_small hs, UInt8.ofNat_toNat]; rfl
            · by_cases h9' : i = 9
              · subst h9'; rw [lim_nine]; omega
              · have := lim_succ (i := i) (by omega); have := lim_pos (i + 1); omega
            · intro hp; omega
      · simp only [hs, if_false] at h
        cases hrec : readUvarintAux (i + 1) xs with
        | none => simp [hrec] at h
        | some p =>
          obtain ⟨m, r⟩ := p
          simp only [hrec, Option.some.injEq, Prod.mk.injEq] at h
          obtain ⟨rfl, rfl⟩ := h
          obtain ⟨hxs, hm, hmpos⟩ := ih (i + 1) m r (by omega) hrec
          have hmp : 0 < m := hmpos (by omega)
          have hi8 : i ≤ 8 := by
            by_cases h9 : i = 9
            · subst h9
              -- index 10 always fails
              cases xs with
              | nil => simp [readUvarintAux] at hrec
              | cons y ys => simp [readUvarintAux] at hrec
            · omega
          have hl := lim_succ hi8
          refine ⟨?_, by omega, by intro _; omega⟩
          have hbig : ¬ (x.toNat % 128 + 128 * m < 128) := by omega
          rw [uvarint_big hbig]
          have e1 : (x.toNat % 128 + 128 * m) % 128 + 128 = x.toNat := by omega
          have e2 : (x.toNat % 128 + 128 * m) / 128 = m := by omega
          rw [e1, e2, UInt8.ofNat_toNat, hxs]; rfl

theorem readUint64_sound {b : Bytes} {n : Nat} {rest : Bytes} (h : readUint64 b = some (n, rest)) :
    b = uvarint n ++ rest ∧ n < 2 ^ 64 := by
  have := readUvarintAux_sound b 0 n rest (by omega) h
  exact ⟨this.1, by simpa [lim] using this.2.1⟩

theorem uvarint_length (n : Nat) : (uvarint n).length = sizeUint n := by
  induction n using Nat.strongRecOn with
  | _ n ih =>
    by_cases hs : n < 128
    · rw [uvarint_small hs, sizeUint]; simp [hs]
    · rw [uvarint_big hs, sizeUint]; simp [hs, ih (n / 128) (by omega)]; omega


/-! ## tags -/

theorem tagByte_toNat {f wt : Nat} (hf : f < 16) (hw : wt < 8) : (tagByte f wt).toNat = f * 8 + wt :=
  toNat_ofNat_lt (by omega)

theorem tagByte_eq_uvarint {f wt : Nat} (hf : f < 16) (hw : wt < 8) :
    [tagByte f wt] = uvarint (f * 8 + wt) := by
  rw [uvarint_small (by omega)]; rfl

theorem readTag_tagByte {f wt : Nat} (hf : f < 16) (hw : wt ≤ 2) (rest : Bytes) :
    readTag (tagByte f wt :: rest) = some (f, wt, rest) := by
  have e : tagByte f wt :: rest = uvarint (f * 8 + wt) ++ rest := by
    rw [← tagByte_eq_uvarint hf (by omega)]; rfl
  unfold readTag
  rw [e, readUint64_uvarint (by omega)]
  have h1 : ¬ (f * 8 + wt ≥ 2 ^ 32) := by omega
  have h2 : (f * 8 + wt) % 8 = wt := by omega
  have h3 : (f * 8 + wt) / 8 = f := by omega
  have h4 : validWire wt = true := by
    have : wt = 0 ∨ wt = 1 ∨ wt = 2 := by omega
    rcases this with h | h | h <;> subst h <;> rfl
  simp [h1, h2, h3, h4]

theorem readTag_sound {b : Bytes} {f wt : Nat} {rest : Bytes} (h : readTag b = some (f, wt, rest))
    (hf : f < 16) : b = tagByte f wt :: rest ∧ wt < 8 := by
  unfold readTag at h
  cases hr : readUint64 b with
  | none => simp [hr] at h
  | some p =>
    obtain ⟨v, r⟩ := p
    simp only [hr] at h
    split at h
    · cases h
    · split at h
      · cases h
      · simp only [Option.some.injEq, Prod.mk.injEq] at h
        obtain ⟨rfl, rfl, rfl⟩ := h
        obtain ⟨hb, _⟩ := readUint64_sound hr
        refine ⟨?_, by omega⟩
        have hv : v = v / 8 * 8 + v % 8 := by omega
        rw [hb]
        have : uvarint v = [tagByte (v / 8) (v % 8)] := by
          rw [tagByte_eq_uvarint hf (by omega), ← hv]
        rw [this]; rfl

theorem tagByte_ne {f f' wt wt' : Nat} (hf : f < 16) (hf' : f' < 16) (hw : wt < 8) (hw' : wt' < 8)
    (hne : f ≠ f') : tagByte f wt ≠ tagByte f' wt' := by
  intro h
  have := congrArg UInt8.toNat h
  rw [tagByte_toNat hf hw, tagByte_toNat hf' hw'] at this
  omega

/-! ## length-delimited bytes -/

theorem readBytes_lenPrefixed {e : Bytes} (h : e.length < 2 ^ 64) (rest : Bytes) :
    readBytes (lenPrefixed e ++ rest) = some (e, rest) := by
  unfold readBytes lenPrefixed
  rw [List.append_assoc, readUint64_uvarint h]
  simp

theorem readBytes_sound {b e rest : Bytes} (h : readBytes b = some (e, rest)) :
    b = lenPrefixed e ++ rest ∧ e.length < 2 ^ 64 := by
  unfold readBytes at h
  cases hr : readUint64 b with
  | none => simp [hr] at h
  | some p =>
    obtain ⟨len, r⟩ := p
    simp only [hr] at h
    split at h
    · cases h
    · rename_i hlen
      simp only [Option.some.injEq, Prod.mk.injEq] at h
      obtain ⟨rfl, rfl⟩ := h
      obtain ⟨hb, hlt⟩ := readUint64_sound hr
      have hl : (List.take len r).length = len := by rw [List.length_take]; omega
      refine ⟨?_, by omega⟩
      unfold lenPrefixed
      rw [hl, List.append_assoc, List.take_append_drop]; exact hb

/-- encoding of a repeated bytes field -/
def encRep (tag : UInt8) (l : List Bytes) : Bytes := l.flatMap fun e => tag :: lenPrefixed e

theorem encRep_cons (tag : UInt8) (e : Bytes) (es : List Bytes) :
    encRep tag (e :: es) = tag :: (lenPrefixed e ++ encRep tag es) := by
  simp [encRep]

theorem readRep_sound (tag : UInt8) : ∀ (fuel : Nat) (b : Bytes) (l : List Bytes) (rest : Bytes),
    readRep tag fuel b = some (l, rest) →
    tag :: b = encRep tag l ++ rest ∧ l ≠ [] ∧ (∀ e ∈ l, e.length < 2 ^ 64) := by
  intro fuel
  induction fuel with
  | zero => intro b l rest h; simp [readRep] at h
  | succ fuel ih =>
    intro b l rest h
    simp only [readRep] at h
    cases hr : readBytes b with
    | none => simp [hr] at h
    | some p =>
      obtain ⟨e, r⟩ := p
      obtain ⟨hb, he⟩ := readBytes_sound hr
      simp only [hr] at h
      cases r with
      | nil =>
        simp only [Option.some.injEq, Prod.mk.injEq] at h
        obtain ⟨rfl, rfl⟩ := h
        refine ⟨?_, by simp, by simpa using he⟩
        rw [hb]; simp [encRep]
      | cons t r1 =>
        simp only at h
        by_cases ht : t = tag
        · subst ht
          simp only [if_true] at h
          cases hrec : readRep t fuel r1 with
          | none => simp [hrec] at h
          | some q =>
            obtain ⟨es, r'⟩ := q
            simp only [hrec, Option.some.injEq, Prod.mk.injEq] at h
            obtain ⟨rfl, rfl⟩ := h
            obtain ⟨h1, _, h3⟩ := ih r1 es r' hrec
            refine ⟨?_, by simp, ?_⟩
            · rw [hb, encRep_cons, h1]; simp
            · intro x hx
              rcases List.mem_cons.mp hx with rfl | hx
              · exact he
              · exact h3 x hx
        · simp only [ht, if_false, Option.some.injEq, Prod.mk.injEq] at h
          obtain ⟨rfl, rfl⟩ := h
          refine ⟨?_, by simp, by simpa using he⟩
          rw [hb]; simp [encRep]

theorem readRep_complete (tag : UInt8) (rest : Bytes) (hrest : ∀ r', rest ≠ tag :: r') :
    ∀ (es : List Bytes) (e : Bytes) (fuel : Nat), (∀ x ∈ e :: es, x.length < 2 ^ 64) →
    (lenPrefixed e ++ (encRep tag es ++ rest)).length + 1 ≤ fuel →
    readRep tag fuel (lenPrefixed e ++ (encRep tag es ++ rest)) = some (e :: es, rest) := by
  intro es
  induction es with
  | nil =>
    intro e fuel hl hfuel
    obtain ⟨fuel, rfl⟩ : ∃ k, fuel = k + 1 := ⟨fuel - 1, by omega⟩
    have he := hl e (by simp)
    simp only [readRep, encRep, List.flatMap_nil, List.nil_append, readBytes_lenPrefixed he]
    cases rest with
    | nil => rfl
    | cons t r1 =>
      have : ¬ t = tag := by intro h; subst h; exact hrest r1 rfl
      simp [this]
  | cons e' es' ih =>
    intro e fuel hl hfuel
    obtain ⟨fuel, rfl⟩ : ∃ k, fuel = k + 1 := ⟨fuel - 1, by omega⟩
    have he := hl e (by simp)
    rw [encRep_cons]
    simp only [readRep, List.cons_append, readBytes_lenPrefixed he, if_true]
    have hl' : ∀ x ∈ e' :: es', x.length < 2 ^ 64 := fun x hx => hl x (List.mem_cons_of_mem _ hx)
    have hlen : (lenPrefixed e' ++ (encRep tag es' ++ rest)).length + 1 ≤ fuel := by
      rw [encRep_cons] at hfuel
      simp only [List.length_append, List.length_cons] at hfuel ⊢
      omega
    have := ih e' fuel hl' hlen
    rw [List.append_assoc] at *
    rw [this]

/-! ## field readers -/

theorem allZero_false_of_not {b : Bytes} (h : ¬ allZero b = true) : (!allZero b) = true := by
  simpa using h

theorem readField_sound {f : Nat} {k : Kind} {b : Bytes} {v : FVal} {rest : Bytes}
    (h : readField f k b = some (v, rest)) :
    tagByte f k.wire :: b = encEntry f k v ++ rest ∧ okVal k v = true := by
  cases k with
  | uvar =>
    simp only [readField] at h
    cases hr : readUint64 b with
    | none => simp [hr] at h
    | some p =>
      obtain ⟨n, r⟩ := p
      simp only [hr] at h
      split at h
      · cases h
      · simp only [Option.some.injEq, Prod.mk.injEq] at h
        obtain ⟨rfl, rfl⟩ := h
        obtain ⟨hb, hlt⟩ := readUint64_sound hr
        refine ⟨?_, ?_⟩
        · rw [hb]; rfl
        · simp [okVal]; omega
  | bool =>
    simp only [readField] at h
    cases b with
    | nil => simp at h
    | cons x xs =>
      simp only at h
      split at h
      · cases h
      · split at h
        · cases h
        · simp only [Option.some.injEq, Prod.mk.injEq] at h
          obtain ⟨rfl, rfl⟩ := h
          have hx : x.toNat = 1 := by omega
          have : x = 1 := UInt8.toNat_inj.mp (by simpa using hx)
          subst this
          exact ⟨rfl, rfl⟩
  | fixed64 =>
    simp only [readField] at h
    split at h
    · cases h
    · split at h
      · cases h
      · rename_i hlen hz
        simp only [Option.some.injEq, Prod.mk.injEq] at h
        obtain ⟨rfl, rfl⟩ := h
        refine ⟨?_, ?_⟩
        · simp [encEntry, Kind.wire]
        · have : (List.take 8 b).length = 8 := by rw [List.length_take]; omega
          simp [okVal, this, hz]
  | bytes =>
    simp only [readField] at h
    cases hr : readBytes b with
    | none => simp [hr] at h
    | some p =>
      obtain ⟨e, r⟩ := p
      simp only [hr] at h
      split at h
      · cases h
      · rename_i hne
        simp only [Option.some.injEq, Prod.mk.injEq] at h
        obtain ⟨rfl, rfl⟩ := h
        obtain ⟨hb, hlt⟩ := readBytes_sound hr
        refine ⟨?_, ?_⟩
        · rw [hb]; simp [encEntry, Kind.wire]
        · simp [okVal, hne, hlt]
  | fixedBytes n =>
    simp only [readField] at h
    cases hr : readUint64 b with
    | none => simp [hr] at h
    | some p =>
      obtain ⟨len, r⟩ := p
      simp only [hr] at h
      split at h
      · cases h
      · split at h
        · cases h
        · split at h
          · cases h
          · rename_i hlen hn hz
            simp only [Option.some.injEq, Prod.mk.injEq] at h
            obtain ⟨rfl, rfl⟩ := h
            obtain ⟨hb, hlt⟩ := readUint64_sound hr
            have hlen' : len = n := by simpa using hlen
            subst hlen'
            have hl : (List.take len r).length = len := by rw [List.length_take]; omega
            refine ⟨?_, ?_⟩
            · simp only [encEntry, Kind.wire, lenPrefixed, hl]
              rw [hb]; simp
            · simp [okVal, hl, hz, hlt]
  | repBytes =>
    simp only [readField] at h
    cases hr : readRep (tagByte f 2) (b.length + 1) b with
    | none => simp [hr] at h
    | some p =>
      obtain ⟨l, r⟩ := p
      simp only [hr, Option.some.injEq, Prod.mk.injEq] at h
      obtain ⟨rfl, rfl⟩ := h
      obtain ⟨h1, h2, h3⟩ := readRep_sound _ _ _ _ _ hr
      refine ⟨h1, ?_⟩
      simp only [okVal, Bool.and_eq_true, List.all_eq_true, decide_eq_true_eq]
      refine ⟨?_, h3⟩
      cases l with
      | nil => exact absurd rfl h2
      | cons _ _ => rfl

theorem readField_complete {f : Nat} {k : Kind} {v : FVal} (hok : okVal k v = true)
    (rest : Bytes) (hrest : ∀ r', rest ≠ tagByte f 2 :: r') :
    ∃ p, encEntry f k v = tagByte f k.wire :: p ∧ readField f k (p ++ rest) = some (v, rest) := by
  cases k with
  | uvar =>
    cases v with
    | num n =>
      simp only [okVal, Bool.and_eq_true, decide_eq_true_eq] at hok
      refine ⟨uvarint n, rfl, ?_⟩
      simp only [readField, readUint64_uvarint hok.2]
      have : ¬ n = 0 := by omega
      simp [this]
    | bytes _ => simp [okVal] at hok
    | list _ => simp [okVal] at hok
  | bool =>
    cases v with
    | num n =>
      simp only [okVal, beq_iff_eq] at hok
      subst hok
      exact ⟨[1], rfl, by simp [readField]⟩
    | bytes _ => simp [okVal] at hok
    | list _ => simp [okVal] at hok
  | fixed64 =>
    cases v with
    | bytes b =>
      simp only [okVal, Bool.and_eq_true, beq_iff_eq, Bool.not_eq_true'] at hok
      refine ⟨b, rfl, ?_⟩
      have h8 : ¬ (b ++ rest).length < 8 := by simp; omega
      have ht : List.take 8 (b ++ rest) = b := by rw [List.take_append_of_le_length (by omega), List.take_of_length_le (by omega)]
      have hd : List.drop 8 (b ++ rest) = rest := by rw [← hok.1]; simp
      simp only [readField, h8, if_false, ht, hd, hok.2]
      simp
    | num _ => simp [okVal] at hok
    | list _ => simp [okVal] at hok
  | bytes =>
    cases v with
    | bytes b =>
      simp only [okVal, Bool.and_eq_true, Bool.not_eq_true', decide_eq_true_eq] at hok
      refine ⟨lenPrefixed b, rfl, ?_⟩
      simp only [readField, readBytes_lenPrefixed hok.2, hok.1]
      simp
    | num _ => simp [okVal] at hok
    | list _ => simp [okVal] at hok
  | fixedBytes n =>
    cases v with
    | bytes b =>
      simp only [okVal, Bool.and_eq_true, beq_iff_eq, Bool.not_eq_true', decide_eq_true_eq] at hok
      obtain ⟨⟨hl, hz⟩, hn⟩ := hok
      refine ⟨lenPrefixed b, rfl, ?_⟩
      subst hl
      have ht : List.take b.length (b ++ rest) = b := by simp
      have hd : List.drop b.length (b ++ rest) = rest := by simp
      have hle : ¬ b.length > (b ++ rest).length := by simp
      simp only [readField, lenPrefixed, List.append_assoc, readUint64_uvarint hn, ht, hd, hz]
      simp
    | num _ => simp [okVal] at hok
    | list _ => simp [okVal] at hok
  | repBytes =>
    cases v with
    | list l =>
      simp only [okVal, Bool.and_eq_true, List.all_eq_true, decide_eq_true_eq] at hok
      cases l with
      | nil => simp at hok
      | cons e es =>
        refine ⟨lenPrefixed e ++ encRep (tagByte f 2) es, ?_, ?_⟩
        · show encRep (tagByte f 2) (e :: es) = _
          rw [encRep_cons]; rfl
        · have := readRep_complete (tagByte f 2) rest hrest es e
            ((lenPrefixed e ++ (encRep (tagByte f 2) es ++ rest)).length + 1) hok.2 (Nat.le_refl _)
          simp only [readField, List.append_assoc, this]
    | num _ => simp [okVal] at hok
    | bytes _ => simp [okVal] at hok


/-! ## the decode loop of one flat message -/

theorem encode_cons (spec : Spec) (f : Nat) (v : FVal) (m : Msg) :
    encode spec ((f, v) :: m) =
      (match spec f with | some k => encEntry f k v | none => []) ++ encode spec m := by
  cases h : spec f <;> simp [encode, h]

theorem Kind.wire_le (k : Kind) : k.wire ≤ 2 := by cases k <;> simp [Kind.wire]

/-- Accepted bytes are the encoding of the decoded message, which is valid. -/
theorem decodeLoop_sound (spec : Spec) (hs : SpecOK spec) : ∀ (fuel lo : Nat) (b : Bytes) (m : Msg),
    decodeLoop spec fuel lo b = some m → b = encode spec m ∧ validMsg spec lo m = true := by
  intro fuel
  induction fuel with
  | zero =>
    intro lo b m h
    cases b with
    | nil => simp only [decodeLoop, Option.some.injEq] at h; subst h; exact ⟨rfl, rfl⟩
    | cons x xs => simp [decodeLoop] at h
  | succ fuel ih =>
    intro lo b m h
    cases b with
    | nil => simp only [decodeLoop, Option.some.injEq] at h; subst h; exact ⟨rfl, rfl⟩
    | cons x xs =>
      simp only [decodeLoop] at h
      cases ht : readTag (x :: xs) with
      | none => simp [ht] at h
      | some p =>
        obtain ⟨field, wt, rest⟩ := p
        simp only [ht] at h
        split at h
        · cases h
        · rename_i hlo
          cases hk : spec field with
          | none => simp [hk] at h
          | some k =>
            simp only [hk] at h
            split at h
            · cases h
            · rename_i hwt
              have hwt' : wt = k.wire := by simpa using hwt
              cases hf : readField field k rest with
              | none => simp [hf] at h
              | some q =>
                obtain ⟨v, rest'⟩ := q
                simp only [hf] at h
                cases hrec : decodeLoop spec fuel (field + 1) rest' with
                | none => simp [hrec] at h
                | some m' =>
                  simp only [hrec, Option.some.injEq] at h
                  subst h
                  obtain ⟨h1, h2⟩ := ih (field + 1) rest' m' hrec
                  obtain ⟨hb, _⟩ := readTag_sound ht (hs field k hk).2
                  obtain ⟨he, hok⟩ := readField_sound hf
                  refine ⟨?_, ?_⟩
                  · simp only [encode_cons, hk]
                    rw [hb, hwt', he, h1]
                  · simp only [validMsg, hk, hok, h2, Bool.and_true, decide_eq_true_eq]
                    omega

theorem validMsg_mono (spec : Spec) {lo lo' : Nat} {m : Msg} (h : validMsg spec lo m = true)
    (hle : lo' ≤ lo) : validMsg spec lo' m = true := by
  cases m with
  | nil => rfl
  | cons fv m' =>
    obtain ⟨f, v⟩ := fv
    simp only [validMsg, Bool.and_eq_true, decide_eq_true_eq] at h ⊢
    exact ⟨⟨by omega, h.1.2⟩, h.2⟩

/-- the first byte of a valid message's encoding is the tag of a field ≥ lo -/
theorem encode_head (spec : Spec) (hs : SpecOK spec) {lo : Nat} {m : Msg}
    (hv : validMsg spec lo m = true) {t : UInt8} {r : Bytes} (he : encode spec m = t :: r) :
    ∃ f wt, lo ≤ f ∧ f < 16 ∧ wt ≤ 2 ∧ t = tagByte f wt := by
  cases m with
  | nil => simp [encode] at he
  | cons fv m' =>
    obtain ⟨f, v⟩ := fv
    simp only [validMsg, Bool.and_eq_true, decide_eq_true_eq] at hv
    cases hk : spec f with
    | none => simp [hk] at hv
    | some k =>
      simp only [hk] at hv
      obtain ⟨p, hp, _⟩ := readField_complete (f := f) hv.1.2 [] (by intro r' h; cases h)
      simp only [encode_cons, hk, hp, List.cons_append, List.cons.injEq] at he
      exact ⟨f, k.wire, hv.1.1, (hs f k hk).2, k.wire_le, he.1.symm⟩

/-- A valid message decodes from its encoding. -/
theorem decodeLoop_complete (spec : Spec) (hs : SpecOK spec) : ∀ (m : Msg) (lo fuel : Nat),
    validMsg spec lo m = true → (encode spec m).length ≤ fuel →
    decodeLoop spec fuel lo (encode spec m) = some m := by
  intro m
  induction m with
  | nil => intro lo fuel _ _; cases fuel <;> simp [encode, decodeLoop]
  | cons fv m' ih =>
    intro lo fuel hv hfuel
    obtain ⟨f, v⟩ := fv
    simp only [validMsg, Bool.and_eq_true, decide_eq_true_eq] at hv
    cases hk : spec f with
    | none => simp [hk] at hv
    | some k =>
      simp only [hk] at hv
      obtain ⟨⟨hlo, hok⟩, hv'⟩ := hv
      have hf16 := (hs f k hk).2
      have hrest : ∀ r', encode spec m' ≠ tagByte f 2 :: r' := by
        intro r' he
        obtain ⟨f', wt', h1, h2, h3, h4⟩ := encode_head spec hs hv' he
        exact tagByte_ne hf16 h2 (by omega) (by omega) (by omega) h4
      obtain ⟨p, hp, hread⟩ := readField_complete (f := f) hok (encode spec m') hrest
      simp only [encode_cons, hk, hp] at hfuel ⊢
      simp only [List.cons_append, List.length_cons, List.length_append] at hfuel
      obtain ⟨fuel, rfl⟩ : ∃ n, fuel = n + 1 := ⟨fuel - 1, by omega⟩
      have hrec := ih (f + 1) fuel hv' (by omega)
      have hnlo : ¬ f < lo := by omega
      simp only [List.cons_append, decodeLoop, readTag_tagByte hf16 k.wire_le, hnlo, if_false, hk,
        ne_eq, not_true_eq_false, hread, hrec]

theorem decode_sound {spec : Spec} (hs : SpecOK spec) {b : Bytes} {m : Msg} (h : decode spec b = some m) :
    b = encode spec m ∧ validMsg spec 0 m = true :=
  decodeLoop_sound spec hs _ _ _ _ h

theorem decode_complete {spec : Spec} (hs : SpecOK spec) {m : Msg} (h : validMsg spec 0 m = true) :
    decode spec (encode spec m) = some m :=
  decodeLoop_complete spec hs m 0 _ h (Nat.le_refl _)

/-! ## a valid message is determined by its lookups -/

theorem lookup_none_of_lt (spec : Spec) : ∀ (m : Msg) (lo f : Nat), validMsg spec lo m = true → f < lo →
    m.lookup f = none := by
  intro m
  induction m with
  | nil => intros; rfl
  | cons gv m' ih =>
    intro lo f hv hlt
    obtain ⟨g, v⟩ := gv
    simp only [validMsg, Bool.and_eq_true, decide_eq_true_eq] at hv
    have hne : (f == g) = false := by simp; omega
    simp only [List.lookup, hne]
    exact ih (g + 1) f hv.2 (by omega)

theorem lookup_okVal (spec : Spec) : ∀ (m : Msg) (lo f : Nat) (v : FVal), validMsg spec lo m = true →
    m.lookup f = some v → ∃ k, spec f = some k ∧ okVal k v = true := by
  intro m
  induction m with
  | nil => intro lo f v _ h; simp [List.lookup] at h
  | cons gv m' ih =>
    intro lo f v hv hl
    obtain ⟨g, w⟩ := gv
    simp only [validMsg, Bool.and_eq_true, decide_eq_true_eq] at hv
    by_cases hfg : f = g
    · subst hfg
      simp only [List.lookup, beq_self_eq_true, Option.some.injEq] at hl
      subst hl
      cases hk : spec f with
      | none => simp [hk] at hv
      | some k => simp only [hk] at hv; exact ⟨k, rfl, hv.1.2⟩
    · have hne : (f == g) = false := by simpa using hfg
      simp only [List.lookup, hne] at hl
      exact ih (g + 1) f v hv.2 hl

theorem flatMap_congr' {α β} {f g : α → List β} : ∀ (l : List α), (∀ x ∈ l, f x = g x) →
    l.flatMap f = l.flatMap g := by
  intro l
  induction l with
  | nil => intro _; rfl
  | cons a l ih =>
    intro h
    rw [List.flatMap_cons, List.flatMap_cons, h a (by simp), ih (fun x hx => h x (List.mem_cons_of_mem _ hx))]

/-- the entry of field `f` in `m`, as a 0- or 1-element message -/
def ent (m : Msg) (f : Nat) : Msg := match m.lookup f with | some v => [(f, v)] | none => []

theorem canon (spec : Spec) : ∀ (fields : List Nat) (lo : Nat) (m : Msg), validMsg spec lo m = true →
    (∀ g, lo ≤ g → spec g ≠ none → g ∈ fields) → fields.Pairwise (· < ·) → (∀ g ∈ fields, lo ≤ g) →
    m = fields.flatMap (ent m) := by
  intro fields
  induction fields with
  | nil =>
    intro lo m hv hcov _ _
    cases m with
    | nil => rfl
    | cons gv m' =>
      obtain ⟨g, v⟩ := gv
      simp only [validMsg, Bool.and_eq_true, decide_eq_true_eq] at hv
      cases hk : spec g with
      | none => simp [hk] at hv
      | some k => exact absurd (hcov g hv.1.1 (by simp [hk])) (by simp)
  | cons f fs ih =>
    intro lo m hv hcov hpw hlo
    have hpw' := List.pairwise_cons.mp hpw
    cases m with
    | nil =>
      have : ∀ l : List Nat, l.flatMap (ent ([] : Msg)) = [] := by
        intro l; induction l with
        | nil => rfl
        | cons a l ih => simp [List.flatMap_cons, ent, List.lookup, ih]
      exact (this _).symm
    | cons gv m' =>
      obtain ⟨g, v⟩ := gv
      have hv0 := hv
      simp only [validMsg, Bool.and_eq_true, decide_eq_true_eq] at hv
      have hgk : spec g ≠ none := by
        cases hk : spec g with
        | none => simp [hk] at hv
        | some k => simp
      have hgm := hcov g hv.1.1 hgk
      by_cases hgf : g = f
      · subst hgf
        have e1 : ent ((g, v) :: m') g = [(g, v)] := by simp [ent, List.lookup]
        have e2 : ∀ h ∈ fs, ent ((g, v) :: m') h = ent m' h := by
          intro h hh
          have : g < h := hpw'.1 h hh
          have hne : (h == g) = false := by simp; omega
          simp [ent, List.lookup, hne]
        have hrec := ih (g + 1) m' hv.2
          (by intro g' hg' hs'
              have := hcov g' (by omega) hs'
              rcases List.mem_cons.mp this with h | h
              · omega
              · exact h)
          hpw'.2 (by intro g' hg'; have := hpw'.1 g' hg'; omega)
        rw [List.flatMap_cons, e1, flatMap_congr' fs e2, ← hrec]; rfl
      · have hgfs : g ∈ fs := by
          rcases List.mem_cons.mp hgm with h | h
          · exact absurd h hgf
          · exact h
        have hfg : f < g := hpw'.1 g hgfs
        have hvg : validMsg spec g ((g, v) :: m') = true := by
          simp only [validMsg, Bool.and_eq_true, decide_eq_true_eq]
          exact ⟨⟨Nat.le_refl _, hv.1.2⟩, hv.2⟩
        have e1 : ent ((g, v) :: m') f = [] := by
          simp [ent, lookup_none_of_lt spec _ g f hvg hfg]
        have hrec := ih (f + 1) ((g, v) :: m') (validMsg_mono spec hvg (by omega))
          (by intro g' hg' hs'
              have := hcov g' (by have := hlo f (by simp); omega) hs'
              rcases List.mem_cons.mp this with h | h
              · omega
              · exact h)
          hpw'.2 (by intro g' hg'; have := hpw'.1 g' hg'; omega)
        rw [List.flatMap_cons, e1, List.nil_append, ← hrec]

end HyperModel.Canoto
