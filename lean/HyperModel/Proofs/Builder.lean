import HyperModel.Model.Builder
import HyperModel.Proofs.BlockExec
/-! Lemmas for C02: the builder's fold keeps "the block so far verifies to exactly my state";
the two metadata views give the same post-state. -/
namespace HyperModel.BuilderProofs
open HyperModel.BlockExec HyperModel.Builder HyperModel.BlockExecProofs

theorem seqAt_prefix (c : BCtx) (l l' : List Tx) : ∀ n, n ≤ l.length →
    seqAt (c.exec (l ++ l')) n = seqAt (c.exec l) n
  | 0, _ => rfl
  | n + 1, h => by
    unfold seqAt
    rw [seqAt_prefix c l l' n (by omega)]
    have : (c.exec (l ++ l')).txs[n]? = (c.exec l).txs[n]? := by
      show (l ++ l')[n]? = l[n]?
      exact List.getElem?_append_left (by omega)
    rw [this]; rfl

/-- verifying the block built so far reproduces the builder's diff, results and consumption -/
def BInv (c : BCtx) (s : BState) : Prop :=
  seqAt (c.exec s.block) s.block.length = some (s.diff, s.results, s.consumed)

theorem binv_init (c : BCtx) : BInv c (BState.init c) := rfl

theorem procTx_inv (c : BCtx) (s : BState) (x : Tx × Bool) (h : BInv c s) : BInv c (procTx c s x) := by
  obtain ⟨t, sk⟩ := x
  unfold procTx
  simp only
  split
  · exact h
  · split
    · exact h
    · exact h
    · rename_i ls hrun
      split
      · split <;> exact h
      · rename_i hfd
        show seqAt (c.exec (s.block ++ [t])) (s.block ++ [t]).length =
          some (merge s.diff ls.pend, s.results ++ [mkResult t ls], addDims s.consumed t.units)
        have hl : (s.block ++ [t]).length = s.block.length + 1 := by simp
        rw [hl]
        unfold seqAt
        rw [seqAt_prefix c s.block [t] _ (Nat.le_refl _), h]
        have e1 : (c.exec (s.block ++ [t])).txs[s.block.length]? = some t := by
          show (s.block ++ [t])[s.block.length]? = some t
          simp
        have e2 : consume s.consumed t.units (c.exec (s.block ++ [t])).maxUnits =
            some (addDims s.consumed t.units) := by
          show consume s.consumed t.units c.maxUnits = _
          unfold consume; rw [hfd]
        have e3 : runTx (c.exec (s.block ++ [t])) t s.diff = .ok ls := hrun
        simp only [e1, e2, e3]

theorem foldl_inv (c : BCtx) : ∀ (l : List (Tx × Bool)) (s : BState), BInv c s → BInv c (l.foldl (procTx c) s)
  | [], _, h => h
  | t :: l, s, h => foldl_inv c l _ (procTx_inv c s t h)

theorem buildLoop_inv (c : BCtx) (sched : List Tx → List (Tx × Bool)) :
    ∀ (bs : List (List Tx)) (s : BState), BInv c s → BInv c (buildLoop c sched s bs)
  | [], _, h => h
  | b :: bs, s, h => by
    unfold buildLoop
    split
    · exact h
    · exact buildLoop_inv c sched bs _ (foldl_inv c _ _ h)

/-! ## no duplicates -/

/-- a builder task either appends its tx to the block or leaves diff/consumption/results alone -/
theorem procTx_cases (c : BCtx) (s : BState) (x : Tx × Bool) :
    ((procTx c s x).block = s.block ∧ (procTx c s x).diff = s.diff ∧
      (procTx c s x).consumed = s.consumed ∧ (procTx c s x).results = s.results) ∨
    (procTx c s x).block = s.block ++ [x.1] := by
  obtain ⟨t, sk⟩ := x
  unfold procTx
  simp only
  split
  · exact Or.inl ⟨rfl, rfl, rfl, rfl⟩
  · split
    · exact Or.inl ⟨rfl, rfl, rfl, rfl⟩
    · exact Or.inl ⟨rfl, rfl, rfl, rfl⟩
    · split
      · split <;> exact Or.inl ⟨rfl, rfl, rfl, rfl⟩
      · exact Or.inr rfl

theorem foldl_sublist (c : BCtx) : ∀ (l : List (Tx × Bool)) (s : BState),
    ∃ l', (l.foldl (procTx c) s).block = s.block ++ l' ∧ l'.Sublist (l.map (·.1))
  | [], s => ⟨[], by simp, List.Sublist.refl _⟩
  | x :: l, s => by
    obtain ⟨l', h1, h2⟩ := foldl_sublist c l (procTx c s x)
    rcases procTx_cases c s x with ⟨hb, _⟩ | hb
    · exact ⟨l', by rw [List.foldl_cons, h1, hb], by
        rw [List.map_cons]; exact List.Sublist.cons _ h2⟩
    · refine ⟨x.1 :: l', by rw [List.foldl_cons, h1, hb]; simp, ?_⟩
      rw [List.map_cons]; exact List.Sublist.cons₂ _ h2

/-- every closure the executor ran, over all batches, in execution order -/
def allSched (c : BCtx) (sched : List Tx → List (Tx × Bool)) (bs : List (List Tx)) : List Tx :=
  bs.flatMap (fun b => (sched (admitBatch c 0 b).1).map (·.1))

theorem buildLoop_sublist (c : BCtx) (sched : List Tx → List (Tx × Bool)) :
    ∀ (bs : List (List Tx)) (s : BState),
      ∃ l', (buildLoop c sched s bs).block = s.block ++ l' ∧ l'.Sublist (allSched c sched bs)
  | [], s => ⟨[], by simp [buildLoop], List.Sublist.refl _⟩
  | b :: bs, s => by
    unfold buildLoop
    split
    · exact ⟨[], by simp, List.nil_sublist _⟩
    · simp only
      obtain ⟨l1, h1, h2⟩ := foldl_sublist c (sched (admitBatch c 0 b).1)
        { s with restorable := s.restorable ++ (admitBatch c 0 b).2 }
      obtain ⟨l2, h3, h4⟩ := buildLoop_sublist c sched bs
        ((sched (admitBatch c 0 b).1).foldl (procTx c) { s with restorable := s.restorable ++ (admitBatch c 0 b).2 })
      refine ⟨l1 ++ l2, by rw [h3, h1]; simp, ?_⟩
      unfold allSched
      rw [List.flatMap_cons]
      exact List.Sublist.append h2 h4

theorem admit_not_seen (c : BCtx) : ∀ (b : List Tx) (n : Nat) (t : Tx),
    t ∈ (admitBatch c n b).1 → c.seen t.id = false ∧ t.keysOk = true
  | [], _, _, h => by simp [admitBatch] at h
  | m :: rest, n, t, h => by
    unfold admitBatch at h
    simp only at h
    split at h
    · simp at h
    · split at h
      · exact admit_not_seen c rest _ t h
      · rename_i hs
        split at h
        · exact admit_not_seen c rest _ t h
        · rename_i hk
          rcases List.mem_cons.mp h with rfl | h
          · exact ⟨by simpa using hs, by simpa using hk⟩
          · exact admit_not_seen c rest _ t h

/-- what the theorem imports about the executor and the mempool: the executor only runs closures
it was handed (C08), and no tx id is run twice in one build (mempool streams each id once, C23;
executor runs each task once, C08) -/
structure SchedOK (c : BCtx) (sched : List Tx → List (Tx × Bool)) (bs : List (List Tx)) : Prop where
  mem : ∀ l x, x ∈ sched l → x.1 ∈ l
  nodup : ((allSched c sched bs).map (·.id)).Nodup

theorem block_no_duplicates (c : BCtx) (sched : List Tx → List (Tx × Bool)) (bs : List (List Tx))
    (ok : SchedOK c sched bs) :
    (((buildLoop c sched (BState.init c) bs).block).map (·.id)).Nodup ∧
      ∀ t, t ∈ (buildLoop c sched (BState.init c) bs).block → c.seen t.id = false ∧ t.keysOk = true := by
  obtain ⟨l', h1, h2⟩ := buildLoop_sublist c sched bs (BState.init c)
  have hb : (buildLoop c sched (BState.init c) bs).block = l' := by rw [h1]; rfl
  rw [hb]
  refine ⟨List.Nodup.sublist (List.Sublist.map _ h2) ok.nodup, ?_⟩
  intro t ht
  have hm : t ∈ allSched c sched bs := h2.subset ht
  unfold allSched at hm
  obtain ⟨b, _, hb2⟩ := List.mem_flatMap.mp hm
  obtain ⟨x, hx, rfl⟩ := List.mem_map.mp hb2
  exact admit_not_seen c b 0 x.1 (ok.mem _ x hx)

theorem replayFree_of (c : BCtx) (txs : List Tx) (h1 : (txs.map (·.id)).Nodup)
    (h2 : ∀ t, t ∈ txs → c.seen t.id = false) : replayFree c txs = true := by
  unfold replayFree
  simp only [Bool.and_eq_true, Bool.not_eq_true', decide_eq_true_eq]
  refine ⟨?_, h1⟩
  rw [List.any_eq_false]
  intro t ht
  simp [h2 t ht]

/-! ## metadata -/

theorem upd_same (d : Diff) (k : Key) (x : Option (Option Val)) : upd d k x k = x := by simp [upd]
theorem upd_ne (d : Diff) {k j : Key} (x : Option (Option Val)) (h : j ≠ k) : upd d k x j = d j := by
  simp [upd, h]

theorem vget_pend_congr {base : Key → Option Val} {p p' : Diff} {k : Key} (h : p k = p' k) :
    vget base p k = vget base p' k := by
  unfold vget; rw [h]

/-- after a successful Insert the view reads the inserted value, and no other key changed -/
theorem vInsert_spec {pf : Key → Perm} {base : Key → Option Val} {pend p : Diff} {k : Key} {v : Val}
    (h : vInsert pf base pend k v = some p) :
    (∀ j, j ≠ k → p j = pend j) ∧ vget base p k = some v := by
  unfold vInsert at h
  split at h
  · cases h
  · have fin : ∀ q : Diff, q = upd pend k (some (some v)) →
        p = (if (base k == some v) = true then upd q k none else q) →
        (∀ j, j ≠ k → p j = pend j) ∧ vget base p k = some v := by
      intro q hq hp
      by_cases hu : (base k == some v) = true
      · rw [if_pos hu] at hp
        subst hp; subst hq
        refine ⟨fun j hj => by rw [upd_ne _ _ hj, upd_ne _ _ hj], ?_⟩
        unfold vget; rw [upd_same]
        simpa using hu
      · rw [if_neg hu] at hp
        subst hp; subst hq
        refine ⟨fun j hj => by rw [upd_ne _ _ hj], ?_⟩
        unfold vget; rw [upd_same]
    split at h
    · rename_i past hpast
      split at h
      · rename_i heq
        cases h
        refine ⟨fun _ _ => rfl, ?_⟩
        rw [hpast]
        have : past = v := by simpa using heq
        rw [this]
      · cases h
        exact fin _ rfl rfl
    · split at h
      · cases h
      · cases h
        exact fin _ rfl rfl

theorem vInsert_all (base : Key → Option Val) (pend : Diff) (k : Key) (v : Val) :
    ∃ p, vInsert (fun _ => pAll) base pend k v = some p := by
  unfold vInsert
  have h1 : hasPerm pAll pWrite = true := by decide
  have h2 : hasPerm pAll pAllocate = true := by decide
  simp only [h1, h2, Bool.not_true, Bool.false_eq_true, if_false]
  split
  · split
    · exact ⟨_, rfl⟩
    · exact ⟨_, rfl⟩
  · exact ⟨_, rfl⟩

def Distinct3 (c : BCtx) : Prop := c.hk ≠ c.tk ∧ c.hk ≠ c.fk ∧ c.tk ≠ c.fk

theorem writeMeta_spec {pf : Key → Perm} {store : Store} {c : BCtx} {d d' : Diff} {h t f : Val}
    (hd : Distinct3 c) (e : writeMeta pf store c d h t f = some d') :
    ∃ p, d' = merge d p ∧ (∀ j, j ≠ c.hk → j ≠ c.tk → j ≠ c.fk → p j = none) ∧
      vget (baseGet store d) p c.hk = some h ∧ vget (baseGet store d) p c.tk = some t ∧
      vget (baseGet store d) p c.fk = some f := by
  obtain ⟨h1, h2, h3⟩ := hd
  unfold writeMeta at e
  simp only at e
  split at e
  · cases e
  · rename_i p1 e1
    split at e
    · cases e
    · rename_i p2 e2
      split at e
      · cases e
      · rename_i p3 e3
        cases e
        obtain ⟨a1, b1⟩ := vInsert_spec e1
        obtain ⟨a2, b2⟩ := vInsert_spec e2
        obtain ⟨a3, b3⟩ := vInsert_spec e3
        refine ⟨p3, rfl, ?_, ?_, ?_, b3⟩
        · intro j j1 j2 j3
          rw [a3 j j3, a2 j j2, a1 j j1]; rfl
        · rw [vget_pend_congr (a3 c.hk h2), vget_pend_congr (a2 c.hk h1)]; exact b1
        · rw [vget_pend_congr (a3 c.tk h3)]; exact b2

theorem post_of_vget {parent store : Store} {d p : Diff} {k : Key} {v : Val}
    (hv : vget (baseGet store d) p k = some v)
    (hs : p k = none → d k = none → store k = some v → parent k = some v) :
    applyDiff parent (merge d p) k = some v := by
  unfold applyDiff baseGet merge
  unfold vget baseGet at hv
  cases hp : p k with
  | some x => simp only [hp] at hv ⊢; exact hv
  | none =>
    simp only [hp] at hv ⊢
    cases hdk : d k with
    | some y => simp only [hdk] at hv ⊢; exact hv
    | none => simp only [hdk] at hv ⊢; exact hs hp hdk hv

theorem post_other {parent : Store} {d p : Diff} {k : Key} (h : p k = none) :
    applyDiff parent (merge d p) k = applyDiff parent d k := by
  unfold applyDiff baseGet merge; rw [h]

/-- the parent header the builder reads agrees with the parent state the verifier reads -/
def ParentConsistent (c : BCtx) : Prop :=
  c.parent c.hk = some c.parentHeight ∧ c.parent c.tk = some c.parentTs ∧
  c.parent c.fk = some c.parentFee ∧ Distinct3 c

/-- builder's metadata view (scope Write only, fake parent storage, no-op writes elided) and the
verifier's (complete permissions, empty storage, unconditional writes): same post-state, and the
verifier's never fails -/
theorem metadata_same_post {c : BCtx} (pc : ParentConsistent c) {d dB : Diff} {h t f : Val}
    (e : writeMeta (metaScopeB c) (fakeStore c) c d h t f = some dB) :
    ∃ dV, writeMeta (fun _ => pAll) (fun _ => none) c d h t f = some dV ∧
      applyDiff c.parent dV = applyDiff c.parent dB := by
  obtain ⟨ph, pt, pf, hd⟩ := pc
  obtain ⟨pB, rfl, oB, hB, tB, fB⟩ := writeMeta_spec hd e
  have hex : ∃ dV, writeMeta (fun _ => pAll) (fun _ => none) c d h t f = some dV := by
    unfold writeMeta
    simp only
    obtain ⟨p1, e1⟩ := vInsert_all (baseGet (fun _ => none) d) emptyDiff c.hk h
    obtain ⟨p2, e2⟩ := vInsert_all (baseGet (fun _ => none) d) p1 c.tk t
    obtain ⟨p3, e3⟩ := vInsert_all (baseGet (fun _ => none) d) p2 c.fk f
    rw [e1]; simp only; rw [e2]; simp only; rw [e3]
    exact ⟨_, rfl⟩
  obtain ⟨dV, eV⟩ := hex
  refine ⟨dV, eV, ?_⟩
  obtain ⟨pV, rfl, oV, hV, tV, fV⟩ := writeMeta_spec hd eV
  have fake_eq : ∀ k v, fakeStore c k = some v → (k = c.hk ∨ k = c.tk ∨ k = c.fk) → c.parent k = some v := by
    intro k v hk hor
    unfold fakeStore at hk
    rcases hor with rfl | rfl | rfl
    · simp only [if_true] at hk; rw [ph]; exact hk
    · rw [if_neg (Ne.symm hd.1), if_pos rfl] at hk; rw [pt]; exact hk
    · rw [if_neg (Ne.symm hd.2.1), if_neg (Ne.symm hd.2.2), if_pos rfl] at hk; rw [pf]; exact hk
  funext k
  by_cases k1 : k = c.hk
  · subst k1
    rw [post_of_vget hV (fun _ _ hh => by cases hh),
        post_of_vget hB (fun _ _ hh => fake_eq _ _ hh (Or.inl rfl))]
  · by_cases k2 : k = c.tk
    · subst k2
      rw [post_of_vget tV (fun _ _ hh => by cases hh),
          post_of_vget tB (fun _ _ hh => fake_eq _ _ hh (Or.inr (Or.inl rfl)))]
    · by_cases k3 : k = c.fk
      · subst k3
        rw [post_of_vget fV (fun _ _ hh => by cases hh),
            post_of_vget fB (fun _ _ hh => fake_eq _ _ hh (Or.inr (Or.inr rfl)))]
      · rw [post_other (oV k k1 k2 k3), post_other (oB k k1 k2 k3)]

end HyperModel.BuilderProofs
