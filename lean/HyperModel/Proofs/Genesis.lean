import HyperModel.Model.Genesis
/-! Lemmas about the genesis model (used by `Props/C27.lean` and `Props/C11.lean`). -/
namespace HyperModel.Proofs.Genesis
open HyperModel.Genesis
open HyperModel.Generated.C27

theorem be64_length (n : Nat) : (be64 n).length = 8 := rfl

theorem parseU64_be64 (n : Nat) (h : n ≤ maxU64) : parseU64 (be64 n) = some n := by
  simp only [be64, parseU64, UInt8.toNat_ofNat']
  simp only [maxU64] at h
  congr 1
  omega

theorem maxChunks_append2 (x : Bytes) (hi lo : UInt8) :
    maxChunks (x ++ [hi, lo]) = some (hi.toNat * 256 + lo.toNat) := by
  unfold maxChunks
  have h1 : ¬ (x ++ [hi, lo]).length < 2 := by simp
  have h2 : (x ++ [hi, lo]).length - 2 = x.length := by simp
  rw [if_neg h1, h2, List.drop_left]

theorem numChunks_be64 (n : Nat) : numChunks (be64 n) = some 1 := by
  simp [numChunks, be64_length, chunkSize]

theorem maxChunks_encodeChunks (p : Bytes) (c : Nat) (hc : c < 65536) :
    maxChunks (encodeChunks p c) = some c := by
  unfold encodeChunks be16
  rw [maxChunks_append2]
  simp only [UInt8.toNat_ofNat']
  congr 1
  omega

theorem verifyValue_balanceKey (p a : Bytes) (n : Nat) :
    verifyValue (balanceKey p a) (be64 n) = true := by
  have h : maxChunks (balanceKey p a) = some balanceChunks := by
    unfold balanceKey
    exact maxChunks_encodeChunks (p ++ a) balanceChunks (by decide)
  simp [verifyValue, numChunks_be64, h, balanceChunks]

theorem balanceKey_inj (p a b : Bytes) (h : balanceKey p a = balanceKey p b) : a = b := by
  unfold balanceKey at h
  have h1 := List.append_cancel_right h
  exact List.append_cancel_left h1

/-! ### sums -/

def total (as : List Alloc) : Nat := (as.map (·.bal)).sum

def sumFor (a : Bytes) (as : List Alloc) : Nat := ((as.filter (fun al => al.addr = a)).map (·.bal)).sum

theorem total_append (xs ys : List Alloc) : total (xs ++ ys) = total xs + total ys := by
  simp [total]

theorem total_cons (x : Alloc) (ys : List Alloc) : total (x :: ys) = x.bal + total ys := by
  simp [total]

theorem sumFor_le_total (a : Bytes) (as : List Alloc) : sumFor a as ≤ total as := by
  induction as with
  | nil => simp [sumFor, total]
  | cons x xs ih =>
    unfold sumFor total at *
    by_cases h : x.addr = a <;> simp [h] <;> omega

theorem sumFor_snoc (a : Bytes) (as : List Alloc) (al : Alloc) :
    sumFor a (as ++ [al]) = sumFor a as + (if al.addr = a then al.bal else 0) := by
  unfold sumFor
  by_cases h : al.addr = a <;> simp [List.filter_append, h]

theorem sumFor_not_mem (a : Bytes) (as : List Alloc) (h : ∀ al ∈ as, al.addr ≠ a) :
    sumFor a as = 0 := by
  unfold sumFor
  have : as.filter (fun al => al.addr = a) = [] := by
    rw [List.filter_eq_nil_iff]
    intro al hal
    simpa using h al hal
  simp [this]

/-! ### the loop invariant -/

/-- every processed address holds its running sum -/
def I1 (pfx : Bytes) (m : KV) (pre : List Alloc) : Prop :=
  ∀ al ∈ pre, get m (balanceKey pfx al.addr) = some (be64 (sumFor al.addr pre))

/-- and no other key is present -/
def I2 (pfx : Bytes) (m : KV) (pre : List Alloc) : Prop :=
  ∀ k, (∀ al ∈ pre, balanceKey pfx al.addr ≠ k) → get m k = none

theorem get_cons (m : KV) (k' v k : Bytes) :
    get ((k', v) :: m) k = if k' = k then some v else get m k := rfl

theorem addBalance_step (pfx : Bytes) (m : KV) (pre : List Alloc) (al : Alloc)
    (h1 : I1 pfx m pre) (h2 : I2 pfx m pre) (hfit : total pre + al.bal ≤ maxU64) :
    addBalance pfx m al.addr al.bal
      = .ok ((balanceKey pfx al.addr, be64 (sumFor al.addr pre + al.bal)) :: m) := by
  have hs : sumFor al.addr pre ≤ total pre := sumFor_le_total _ _
  have hbal : readBalance m (balanceKey pfx al.addr) = .ok (sumFor al.addr pre) := by
    unfold readBalance
    by_cases hmem : ∃ x ∈ pre, x.addr = al.addr
    · obtain ⟨x, hx, hxa⟩ := hmem
      have := h1 x hx
      rw [hxa] at this
      rw [this]
      simp only []
      rw [parseU64_be64 _ (by omega)]
    · have hno : ∀ x ∈ pre, x.addr ≠ al.addr := by
        intro x hx hxa; exact hmem ⟨x, hx, hxa⟩
      have hnone : get m (balanceKey pfx al.addr) = none := by
        apply h2
        intro x hx heq
        exact hno x hx (balanceKey_inj _ _ _ heq)
      rw [hnone, sumFor_not_mem _ _ hno]
  simp only [addBalance, hbal]
  have hnot : ¬ (sumFor al.addr pre > maxU64 - al.bal) := by omega
  rw [if_neg hnot]
  unfold viewInsert
  rw [verifyValue_balanceKey]
  rfl

theorem step_inv (pfx : Bytes) (m : KV) (pre : List Alloc) (al : Alloc)
    (h1 : I1 pfx m pre) (h2 : I2 pfx m pre) :
    let m' := (balanceKey pfx al.addr, be64 (sumFor al.addr pre + al.bal)) :: m
    I1 pfx m' (pre ++ [al]) ∧ I2 pfx m' (pre ++ [al]) := by
  intro m'
  constructor
  · intro x hx
    rw [get_cons, sumFor_snoc]
    by_cases hxa : x.addr = al.addr
    · rw [hxa]; simp
    · have hk : balanceKey pfx al.addr ≠ balanceKey pfx x.addr := by
        intro heq; exact hxa (balanceKey_inj _ _ _ heq).symm
      have hxpre : x ∈ pre := by
        rcases List.mem_append.mp hx with h | h
        · exact h
        · simp at h; subst h; exact absurd rfl hxa
      have hne : ¬ al.addr = x.addr := fun h => hxa h.symm
      rw [if_neg hk, if_neg hne, h1 x hxpre]
      simp
  · intro k hk
    rw [get_cons]
    have hk1 : balanceKey pfx al.addr ≠ k := hk al (by simp)
    rw [if_neg hk1]
    apply h2
    intro x hx
    exact hk x (by simp [hx])

theorem initLoop_spec (pfx : Bytes) :
    ∀ (rest pre : List Alloc) (supply : Nat) (m : KV),
      supply = total pre → supply ≤ maxU64 → I1 pfx m pre → I2 pfx m pre →
      (∀ al ∈ rest, al.bal ≤ maxU64) →
      (total (pre ++ rest) ≤ maxU64 →
        ∃ m', initLoop pfx rest supply m = .ok m' ∧ I1 pfx m' (pre ++ rest) ∧ I2 pfx m' (pre ++ rest))
      ∧ (total (pre ++ rest) > maxU64 → initLoop pfx rest supply m = .error .overflow) := by
  intro rest
  induction rest with
  | nil =>
    intro pre supply m hs hle h1 h2 _
    simp only [List.append_nil, initLoop]
    exact ⟨fun _ => ⟨m, rfl, h1, h2⟩, fun h => by omega⟩
  | cons al rest ih =>
    intro pre supply m hs hle h1 h2 hwf
    have hal : al.bal ≤ maxU64 := hwf al (by simp)
    have hrest : ∀ x ∈ rest, x.bal ≤ maxU64 := fun x hx => hwf x (by simp [hx])
    have happ : pre ++ al :: rest = (pre ++ [al]) ++ rest := by simp
    have htot : total (pre ++ al :: rest) = total pre + al.bal + total rest := by
      rw [total_append, total_cons]; omega
    unfold initLoop
    by_cases hov : supply > maxU64 - al.bal
    · rw [if_pos hov]
      constructor
      · intro h; exfalso; omega
      · intro _; rfl
    · rw [if_neg hov]
      have hfit : total pre + al.bal ≤ maxU64 := by omega
      rw [addBalance_step pfx m pre al h1 h2 hfit]
      simp only []
      have hinv := step_inv pfx m pre al h1 h2
      have := ih (pre ++ [al]) (supply + al.bal)
        ((balanceKey pfx al.addr, be64 (sumFor al.addr pre + al.bal)) :: m)
        (by rw [total_append, hs]; simp [total]) (by omega) hinv.1 hinv.2 hrest
      rw [happ]
      exact this

end HyperModel.Proofs.Genesis
