import HyperModel.Model.Workers
/-! Lemmas for C26: inductive invariants of the worker-pool relation. -/
namespace HyperModel.Workers

/-- worker state `x` carries task `t` -/
def has (x : WSt) (t : Nat) : Bool := x == .holding t || x == .running t

theorem has_iff (x : WSt) (t : Nat) : has x t = true ↔ (x = .holding t ∨ x = .running t) := by
  simp [has]

/-- Layer A: where a task can be, and how often its body started. -/
structure InvA (s : State) : Prop where
  chan_ok : ∀ j t, t ∈ s.chan j → t < s.ntasks ∧ s.jobOf t = j ∧ s.execs t = 0 ∧
    s.finished t = false ∧ ∀ i, has (s.w i) t = false
  chan_nd : ∀ j, (s.chan j).Nodup
  w_ok : ∀ i t, has (s.w i) t = true → t < s.ntasks ∧ s.finished t = false ∧
    (s.w i = .holding t → s.execs t = 0) ∧ (s.w i = .running t → s.execs t = 1) ∧
    ∀ i', has (s.w i') t = true → i' = i
  hi : ∀ t, s.ntasks ≤ t → s.execs t = 0 ∧ s.finished t = false
  ex_le : ∀ t, s.execs t ≤ 1 ∧ (s.finished t = true → s.execs t = 1)

theorem invA_init (r : Bool) (w m : Nat) : InvA (init r w m) := by
  constructor <;> simp [init, has]

theorem invA_step {s : State} {st : Step} (h : InvA s) (hen : isEnabled s st = true) :
    InvA (apply s st) := by
  obtain ⟨h1, h2, h3, h4, h5⟩ := h
  cases st with
  | newJob =>
    simp only [apply]
    split <;> exact ⟨h1, h2, h3, h4, h5⟩
  | go j fail =>
    simp only [isEnabled, Bool.and_eq_true, decide_eq_true_eq] at hen
    simp only [apply]
    constructor
    · intro j' t ht; simp only [upd] at ht ⊢; grind
    · intro j'; simp only [upd]; grind
    · intro i t ht; simp only [upd] at ht ⊢; grind
    · intro t ht; simp only [upd] at ht ⊢; grind
    · intro t; simp only [upd]; grind
  | done j => exact ⟨h1, h2, h3, h4, h5⟩
  | wait j => exact ⟨h1, h2, h3, h4, h5⟩
  | stopFlag => exact ⟨h1, h2, h3, h4, h5⟩
  | stopClose => exact ⟨h1, h2, h3, h4, h5⟩
  | stopAck => exact ⟨h1, h2, h3, h4, h5⟩
  | stopReturn => exact ⟨h1, h2, h3, h4, h5⟩
  | stopCollect i =>
    simp only [isEnabled, Bool.and_eq_true, decide_eq_true_eq, beq_iff_eq] at hen
    simp only [apply]
    split
    · constructor
      · intro j' t ht; simp only [upd, has] at *; grind
      · exact h2
      · intro i' t ht; simp only [upd, has] at *; grind
      · exact h4
      · exact h5
    · exact ⟨h1, h2, h3, h4, h5⟩
  | pqTake =>
    simp only [apply]
    split
    · exact ⟨h1, h2, h3, h4, h5⟩
    · split <;> exact ⟨h1, h2, h3, h4, h5⟩
  | feed i =>
    simp only [isEnabled, Bool.and_eq_true, decide_eq_true_eq, beq_iff_eq] at hen
    simp only [apply]
    split
    · rename_i j hpq
      split
      · exact ⟨h1, h2, h3, h4, h5⟩
      · rename_i t rest hch
        have hnd := h2 j
        rw [hch, List.nodup_cons] at hnd
        have ht := h1 j t (by rw [hch]; simp)
        constructor
        · intro j' t' ht'; simp only [upd, has] at *; grind
        · intro j'; simp only [upd]; grind
        · intro i' t' ht'; simp only [upd, has] at *; grind
        · exact h4
        · exact h5
    · exact ⟨h1, h2, h3, h4, h5⟩
  | endFeed =>
    simp only [apply]
    split <;> exact ⟨h1, h2, h3, h4, h5⟩
  | pqFinish =>
    simp only [apply]
    split <;> exact ⟨h1, h2, h3, h4, h5⟩
  | pqExit => exact ⟨h1, h2, h3, h4, h5⟩
  | wCheck i =>
    simp only [apply]
    split
    · rename_i t hw
      have ht := h3 i t (by simp [has, hw])
      split
      · constructor
        · intro j' t' ht'; simp only [upd, has] at *; grind
        · exact h2
        · intro i' t' ht'; simp only [upd, has] at *; grind
        · exact h4
        · exact h5
      · constructor
        · intro j' t' ht'; simp only [upd, has] at *; grind
        · exact h2
        · intro i' t' ht'; simp only [upd, has] at *; grind
        · intro t' ht'; simp only [upd] at *; grind
        · intro t'; simp only [upd] at *; grind
    · exact ⟨h1, h2, h3, h4, h5⟩
  | wFinish i =>
    simp only [apply]
    split
    · rename_i t hw
      have ht := h3 i t (by simp [has, hw])
      constructor
      · intro j' t' ht'; simp only [upd, has] at *; grind
      · exact h2
      · intro i' t' ht'; simp only [upd, has] at *; grind
      · intro t' ht'; simp only [upd] at *; grind
      · intro t'; simp only [upd] at *; grind
    · exact ⟨h1, h2, h3, h4, h5⟩

theorem invA_reachable {r : Bool} {w m : Nat} {s : State} (hr : Reachable r w m s) : InvA s := by
  induction hr with
  | init => exact invA_init r w m
  | step st _ hen ih => exact invA_step ih hen

/-! ## Layer B: the scheduler processes one job at a time -/

def busy (x : WSt) : Bool :=
  match x with
  | .holding _ => true
  | .running _ => true
  | _ => false

/-- the job the scheduler is working on -/
def cur (s : State) : Option Nat :=
  match s.pq with
  | .feeding j => some j
  | .waitSg j => some j
  | _ => none

@[simp] theorem busy_idle : busy .idle = false := rfl
@[simp] theorem busy_acked : busy .acked = false := rfl
@[simp] theorem busy_dead : busy .dead = false := rfl
@[simp] theorem busy_holding (t : Nat) : busy (.holding t) = true := rfl
@[simp] theorem busy_running (t : Nat) : busy (.running t) = true := rfl

theorem countP_split {l : List Nat} {p : Nat → Bool} {d : Nat} (hn : l.Nodup) (hd : d ∈ l) :
    l.countP p = l.countP (fun x => (x != d) && p x) + (if p d then 1 else 0) := by
  induction l with
  | nil => cases hd
  | cons a l ih =>
    rw [List.nodup_cons] at hn
    rw [List.countP_cons, List.countP_cons]
    rcases List.mem_cons.mp hd with rfl | hd'
    · have h1 : l.countP (fun x => (x != d) && p x) = l.countP p := by
        apply List.countP_congr
        intro x hx
        have : x ≠ d := fun h => hn.1 (h ▸ hx)
        simp [this]
      rw [h1]; simp
    · have h2 := ih hn.2 hd'
      have hne : a ≠ d := fun h => hn.1 (h ▸ hd')
      have h3 : ((a != d) && p a) = p a := by simp [hne]
      rw [h3]; omega

theorem countP_upd {n i : Nat} (f : Nat → WSt) (v : WSt) (p : WSt → Bool) (hi : i < n) :
    (List.range n).countP (fun x => p (upd f i v x)) + (if p (f i) then 1 else 0) =
      (List.range n).countP (fun x => p (f x)) + (if p v then 1 else 0) := by
  rw [countP_split (p := fun x => p (upd f i v x)) List.nodup_range (List.mem_range.mpr hi),
      countP_split (p := fun x => p (f x)) List.nodup_range (List.mem_range.mpr hi)]
  have : (List.range n).countP (fun x => (x != i) && p (upd f i v x)) =
      (List.range n).countP (fun x => (x != i) && p (f x)) := by
    apply List.countP_congr
    intro x _
    by_cases hx : x = i <;> simp [upd, hx]
  rw [this]
  simp [upd]
  omega

structure InvB (s : State) : Prop where
  w_cur : ∀ i t, has (s.w i) t = true → cur s = some (s.jobOf t)
  sg : s.sg = (List.range s.workers).countP (fun i => busy (s.w i))
  w_hi : ∀ i, s.workers ≤ i → s.w i = .idle
  idle_pq : cur s = none → s.sg = 0 ∧ s.err = none
  cur_ok : ∀ j, cur s = some j → j < s.njobs ∧ s.taken j = true ∧ s.delivered j = none ∧ j ∉ s.queue
  queue_nd : s.queue.Nodup
  queue_ok : ∀ j, j ∈ s.queue → j < s.njobs ∧ s.taken j = false
  job_hi : ∀ j, s.njobs ≤ j → s.taken j = false ∧ s.delivered j = none
  undeliv : ∀ j, s.taken j = false → s.delivered j = none

theorem invB_init (r : Bool) (w m : Nat) : InvB (init r w m) := by
  constructor <;> simp [init, has, cur, busy]

/-- no worker is busy when the wait-group counter is zero -/
theorem InvB.none_busy {s : State} (h : InvB s) (h0 : s.sg = 0) : ∀ i, busy (s.w i) = false := by
  intro i
  by_cases hi : i < s.workers
  · have := h.sg
    rw [h0] at this
    have h2 := List.countP_eq_zero.mp this.symm i (List.mem_range.mpr hi)
    simpa using h2
  · rw [h.w_hi i (by omega)]; rfl

theorem busy_of_has {x : WSt} {t : Nat} (h : has x t = true) : busy x = true := by
  rw [has_iff] at h
  rcases h with h | h <;> rw [h] <;> rfl

theorem invB_step {s : State} {st : Step} (hA : InvA s) (h : InvB s) (hen : isEnabled s st = true) :
    InvB (apply s st) := by
  obtain ⟨b1, b2, b3, b4, b5, b6, b7, b8, b9⟩ := h
  cases st with
  | newJob =>
    simp only [apply]
    split
    · exact ⟨b1, b2, b3, b4, b5, b6, b7, b8, b9⟩
    · refine ⟨b1, b2, b3, b4, ?_, ?_, ?_, ?_, b9⟩
      · intro j hj; have := b5 j hj; simp only [List.mem_append, List.mem_singleton]; grind
      · rw [List.nodup_append]; refine ⟨b6, by simp, ?_⟩
        intro a ha b hb; simp only [List.mem_singleton] at hb; have := b7 a ha; grind
      · intro j hj; simp only [List.mem_append, List.mem_singleton] at hj; grind
      · intro j hj; exact b8 j (by show s.njobs ≤ j; have : s.njobs + 1 ≤ j := hj; omega)
  | go j fail =>
    simp only [apply]
    refine ⟨?_, b2, b3, b4, b5, b6, b7, b8, b9⟩
    intro i t ht
    have := (hA.w_ok i t ht).1
    have := b1 i t ht
    simp only [upd, cur] at *
    grind
  | done j => exact ⟨b1, b2, b3, b4, b5, b6, b7, b8, b9⟩
  | wait j => exact ⟨b1, b2, b3, b4, b5, b6, b7, b8, b9⟩
  | stopFlag => exact ⟨b1, b2, b3, b4, b5, b6, b7, b8, b9⟩
  | stopClose => exact ⟨b1, b2, b3, b4, b5, b6, b7, b8, b9⟩
  | stopAck => exact ⟨b1, b2, b3, b4, b5, b6, b7, b8, b9⟩
  | stopReturn => exact ⟨b1, b2, b3, b4, b5, b6, b7, b8, b9⟩
  | stopCollect i =>
    simp only [isEnabled, Bool.and_eq_true, decide_eq_true_eq, beq_iff_eq] at hen
    simp only [apply]
    split
    · refine ⟨?_, ?_, ?_, b4, b5, b6, b7, b8, b9⟩
      · intro i' t ht; have := b1 i' t; simp only [upd, has, cur] at *; grind
      · show s.sg = (List.range s.workers).countP (fun x => busy (upd s.w i .acked x))
        have := countP_upd s.w .acked busy hen.1.1.2
        rw [hen.1.2] at this
        simp only [busy_idle, busy_acked, busy_dead, busy_holding, busy_running, Bool.false_eq_true, ↓reduceIte, Nat.add_zero] at this
        rw [b2]; exact this.symm
      · intro i' hi'; have := b3 i' hi'; simp only [upd]; grind
    · exact ⟨b1, b2, b3, b4, b5, b6, b7, b8, b9⟩
  | pqTake =>
    simp only [isEnabled, Bool.and_eq_true, beq_iff_eq] at hen
    simp only [apply]
    split
    · exact ⟨b1, b2, b3, b4, b5, b6, b7, b8, b9⟩
    · rename_i j rest hq
      have hnd := b6; rw [hq, List.nodup_cons] at hnd
      have hj := b7 j (by rw [hq]; simp)
      have hcur : cur s = none := by simp [cur, hen.1]
      have hnb := InvB.none_busy ⟨b1, b2, b3, b4, b5, b6, b7, b8, b9⟩ (b4 hcur).1
      split
      · refine ⟨b1, b2, b3, b4, ?_, hnd.2, ?_, ?_, ?_⟩
        · intro j' hj'
          have hj'' : cur s = some j' := hj'
          rw [hcur] at hj''; cases hj''
        · intro j' hj'; have := b7 j' (by rw [hq]; exact List.mem_cons_of_mem _ hj'); simp only [upd]; grind
        · intro j' hj'; have := b8 j' hj'; simp only [upd]; grind
        · intro j' hj'; have := b9 j'; simp only [upd] at *; grind
      · refine ⟨?_, b2, b3, ?_, ?_, hnd.2, ?_, ?_, ?_⟩
        · intro i t ht; have := busy_of_has ht; rw [hnb i] at this; cases this
        · intro hc; simp [cur] at hc
        · intro j' hj'
          simp only [cur, Option.some.injEq] at hj'
          subst hj'
          refine ⟨hj.1, by simp [upd], ?_, hnd.1⟩
          exact b9 j hj.2
        · intro j' hj'; have := b7 j' (by rw [hq]; exact List.mem_cons_of_mem _ hj'); simp only [upd]; grind
        · intro j' hj'; have := b8 j' hj'; simp only [upd]; grind
        · intro j' hj'; have := b9 j'; simp only [upd] at *; grind
  | feed i =>
    simp only [isEnabled, Bool.and_eq_true, decide_eq_true_eq, beq_iff_eq] at hen
    simp only [apply]
    split
    · rename_i j hpq
      split
      · exact ⟨b1, b2, b3, b4, b5, b6, b7, b8, b9⟩
      · rename_i t rest hch
        have ht := hA.chan_ok j t (by rw [hch]; simp)
        refine ⟨?_, ?_, ?_, ?_, ?_, b6, b7, b8, b9⟩
        · intro i' t' ht'; have := b1 i' t'; simp only [upd, has, cur] at *; grind
        · show s.sg + 1 = (List.range s.workers).countP (fun x => busy (upd s.w i (.holding t) x))
          have := countP_upd s.w (.holding t) busy hen.1.2
          rw [hen.2] at this
          simp only [busy_idle, busy_acked, busy_dead, busy_holding, busy_running, Bool.false_eq_true, ↓reduceIte, Nat.add_zero] at this
          rw [b2]; omega
        · intro i' hi'; have := b3 i' hi'; simp only [upd]; grind
        · intro hc; simp [cur, hpq] at hc
        · intro j' hj'; have := b5 j'; simp only [cur] at *; grind
    · exact ⟨b1, b2, b3, b4, b5, b6, b7, b8, b9⟩
  | endFeed =>
    simp only [apply]
    split
    · rename_i j hpq
      refine ⟨?_, b2, b3, ?_, ?_, b6, b7, b8, b9⟩
      · intro i t ht; have := b1 i t ht; simp only [cur] at *; grind
      · intro hc; simp [cur] at hc
      · intro j' hj'; have := b5 j'; simp only [cur] at *; grind
    · exact ⟨b1, b2, b3, b4, b5, b6, b7, b8, b9⟩
  | pqFinish =>
    simp only [isEnabled, beq_iff_eq] at hen
    simp only [apply]
    split
    · rename_i j hpq
      rw [hpq] at hen
      simp only [beq_iff_eq] at hen
      have hnb := InvB.none_busy ⟨b1, b2, b3, b4, b5, b6, b7, b8, b9⟩ hen
      have hc := b5 j (by simp [cur, hpq])
      refine ⟨?_, b2, b3, ?_, ?_, b6, b7, ?_, ?_⟩
      · intro i t ht; have := busy_of_has ht; rw [hnb i] at this; cases this
      · intro _; exact ⟨hen, rfl⟩
      · intro j' hj'; simp [cur] at hj'
      · intro j' hj'; have := b8 j' hj'; simp only [upd]; grind
      · intro j' hj'; have := b9 j'; simp only [upd] at *; grind
    · exact ⟨b1, b2, b3, b4, b5, b6, b7, b8, b9⟩
  | pqExit =>
    simp only [isEnabled, Bool.and_eq_true, beq_iff_eq] at hen
    simp only [apply]
    have hcur : cur s = none := by simp [cur, hen.1.1]
    have hnb := InvB.none_busy ⟨b1, b2, b3, b4, b5, b6, b7, b8, b9⟩ (b4 hcur).1
    refine ⟨?_, b2, b3, ?_, ?_, b6, b7, b8, b9⟩
    · intro i t ht; have := busy_of_has ht; rw [hnb i] at this; cases this
    · intro _; exact b4 hcur
    · intro j' hj'; simp [cur] at hj'
  | wCheck i =>
    simp only [isEnabled, Bool.and_eq_true, decide_eq_true_eq] at hen
    simp only [apply]
    split
    · rename_i t hw
      have hc := b1 i t (by simp [has, hw])
      split
      · refine ⟨?_, ?_, ?_, ?_, b5, b6, b7, b8, b9⟩
        · intro i' t' ht'; have := b1 i' t'; simp only [upd, has, cur] at *; grind
        · show s.sg - 1 = (List.range s.workers).countP
            (fun x => busy (upd s.w i (if s.repaired then WSt.idle else WSt.dead) x))
          have := countP_upd s.w (if s.repaired then WSt.idle else WSt.dead) busy hen.1
          rw [hw] at this
          have hb : busy (if s.repaired then WSt.idle else WSt.dead) = false := by
            cases s.repaired <;> rfl
          simp only [hb, busy_idle, busy_acked, busy_dead, busy_holding, busy_running, Bool.false_eq_true, ↓reduceIte, Nat.add_zero] at this
          rw [b2]; omega
        · intro i' hi'; have := b3 i' hi'; simp only [upd]; grind
        · intro hcn; have hcn' : cur s = none := hcn; rw [hcn'] at hc; cases hc
      · refine ⟨?_, ?_, ?_, b4, b5, b6, b7, b8, b9⟩
        · intro i' t' ht'; have := b1 i' t'; simp only [upd, has, cur] at *; grind
        · show s.sg = (List.range s.workers).countP (fun x => busy (upd s.w i (.running t) x))
          have := countP_upd s.w (.running t) busy hen.1
          rw [hw] at this
          simp only [busy_idle, busy_acked, busy_dead, busy_holding, busy_running, Bool.false_eq_true, ↓reduceIte, Nat.add_zero] at this
          rw [b2]; omega
        · intro i' hi'; have := b3 i' hi'; simp only [upd]; grind
    · exact ⟨b1, b2, b3, b4, b5, b6, b7, b8, b9⟩
  | wFinish i =>
    simp only [isEnabled, Bool.and_eq_true, decide_eq_true_eq] at hen
    simp only [apply]
    split
    · rename_i t hw
      have hc := b1 i t (by simp [has, hw])
      refine ⟨?_, ?_, ?_, ?_, b5, b6, b7, b8, b9⟩
      · intro i' t' ht'; have := b1 i' t'; simp only [upd, has, cur] at *; grind
      · show s.sg - 1 = (List.range s.workers).countP (fun x => busy (upd s.w i .idle x))
        have := countP_upd s.w .idle busy hen.1
        rw [hw] at this
        simp only [busy_idle, busy_acked, busy_dead, busy_holding, busy_running, Bool.false_eq_true, ↓reduceIte, Nat.add_zero] at this
        rw [b2]; omega
      · intro i' hi'; have := b3 i' hi'; simp only [upd]; grind
      · intro hcn; have hcn' : cur s = none := hcn; rw [hcn'] at hc; cases hc
    · exact ⟨b1, b2, b3, b4, b5, b6, b7, b8, b9⟩

theorem invB_reachable {r : Bool} {w m : Nat} {s : State} (hr : Reachable r w m s) : InvB s := by
  induction hr with
  | init => exact invB_init r w m
  | step st hr' hen ih => exact invB_step (invA_reachable hr') ih hen

/-! ## Layer C: what a job's result says about its tasks -/

/-- a failing task of job `j` has been executed to its end -/
def FailedIn (s : State) (j : Nat) : Prop :=
  ∃ t', t' < s.ntasks ∧ s.jobOf t' = j ∧ s.fails t' = true ∧ s.finished t' = true

structure InvC (s : State) : Prop where
  untaken : ∀ t, t < s.ntasks →
    (s.taken (s.jobOf t) = false ∨ s.delivered (s.jobOf t) = some .shutdown) → t ∈ s.chan (s.jobOf t)
  err_ok : ∀ t', s.err = some t' →
    t' < s.ntasks ∧ cur s = some (s.jobOf t') ∧ s.fails t' = true ∧ s.finished t' = true
  err_set : ∀ t', t' < s.ntasks → cur s = some (s.jobOf t') → s.fails t' = true →
    s.finished t' = true → s.err.isSome = true
  acct : ∀ t, t < s.ntasks → s.taken (s.jobOf t) = true → s.delivered (s.jobOf t) ≠ some .shutdown →
    t ∈ s.chan (s.jobOf t) ∨ (∃ i, has (s.w i) t = true) ∨ s.finished t = true ∨
      (s.execs t = 0 ∧ FailedIn s (s.jobOf t))
  deliv : ∀ j r, s.delivered j = some r → r ≠ .shutdown →
    s.closed j = true ∧ s.chan j = [] ∧
    (r = .ok → ∀ t', t' < s.ntasks → s.jobOf t' = j → s.fails t' = true → s.finished t' = false) ∧
    (∀ t', r = .err t' → t' < s.ntasks ∧ s.jobOf t' = j ∧ s.fails t' = true ∧ s.finished t' = true)
  res_ok : ∀ j r, s.result j = some r → s.delivered j = some r
  got_ok : ∀ j r, s.got j = some r → s.delivered j = some r
  compl_ok : ∀ j, s.completed j = true → ∃ r, s.delivered j = some r ∧ r ≠ .shutdown
  wait_ok : ∀ j, s.pq = .waitSg j → s.closed j = true ∧ s.chan j = []

theorem invC_init (r : Bool) (w m : Nat) : InvC (init r w m) := by
  constructor <;> simp [init, has, cur]

theorem FailedIn.mono {s s' : State} {j : Nat} (h : FailedIn s j) (hn : s.ntasks ≤ s'.ntasks)
    (hj : ∀ t, t < s.ntasks → s'.jobOf t = s.jobOf t) (hf : ∀ t, t < s.ntasks → s'.fails t = s.fails t)
    (hfin : ∀ t, s.finished t = true → s'.finished t = true) : FailedIn s' j := by
  obtain ⟨t', h1, h2, h3, h4⟩ := h
  exact ⟨t', by omega, by rw [hj t' h1]; exact h2, by rw [hf t' h1]; exact h3, hfin t' h4⟩

theorem invC_step {s : State} {st : Step} (hA : InvA s) (hB : InvB s) (h : InvC s)
    (hen : isEnabled s st = true) : InvC (apply s st) := by
  obtain ⟨c1, c2, c3, c4, c5, c6, c7, c8, c9⟩ := h
  cases st with
  | newJob =>
    simp only [apply]
    split <;> exact ⟨c1, c2, c3, c4, c5, c6, c7, c8, c9⟩
  | go j fail =>
    simp only [isEnabled, Bool.and_eq_true, decide_eq_true_eq, Bool.not_eq_true'] at hen
    have hfin0 := (hA.hi s.ntasks (Nat.le_refl _)).2
    simp only [apply]
    refine ⟨?_, ?_, ?_, ?_, ?_, c6, c7, c8, ?_⟩
    · intro t ht hp
      by_cases ht0 : t = s.ntasks
      · subst ht0; simp [upd]
      · have := c1 t (by have : t < s.ntasks + 1 := ht; omega)
        simp only [upd, ht0, if_false] at hp ⊢
        have := this hp
        split <;> simp_all
    · intro t' ht'
      obtain ⟨e1, e2, e3, e4⟩ := c2 t' ht'
      have hne : t' ≠ s.ntasks := by omega
      refine ⟨by show t' < s.ntasks + 1; omega, ?_, ?_, e4⟩
      · simp only [upd, hne, if_false]; exact e2
      · simp only [upd, hne, if_false]; exact e3
    · intro t' ht' hc hf hfin
      by_cases ht0 : t' = s.ntasks
      · subst ht0; rw [hfin0] at hfin; cases hfin
      · have ht'' : t' < s.ntasks := by have : t' < s.ntasks + 1 := ht'; omega
        simp only [upd, cur, ht0, if_false] at hc hf hfin
        exact c3 t' ht'' hc hf hfin
    · intro t ht htk hd
      by_cases ht0 : t = s.ntasks
      · subst ht0; left; simp [upd]
      · simp only [upd, ht0, if_false] at htk hd ⊢
        rcases c4 t (by have : t < s.ntasks + 1 := ht; omega) htk hd with a | a | a | a
        · left; split <;> simp_all
        · exact Or.inr (Or.inl a)
        · exact Or.inr (Or.inr (Or.inl a))
        · refine Or.inr (Or.inr (Or.inr ⟨a.1, ?_⟩))
          apply a.2.mono (Nat.le_succ _)
          · intro t2 h2; simp [upd]; omega
          · intro t2 h2; simp [upd]; omega
          · intro t2 h2; exact h2
    · intro j' r hd hr
      obtain ⟨d1, d2, d3, d4⟩ := c5 j' r hd hr
      have hjj : j' ≠ j := by intro e; subst e; rw [hen.2] at d1; cases d1
      refine ⟨d1, by simp [upd, hjj, d2], ?_, ?_⟩
      · intro hok t' ht' hj' hf
        by_cases ht0 : t' = s.ntasks
        · subst ht0; simp [upd] at hj'; exact absurd hj'.symm hjj
        · simp only [upd, ht0, if_false] at hj' hf
          exact d3 hok t' (by have : t' < s.ntasks + 1 := ht'; omega) hj' hf
      · intro t' ht'
        obtain ⟨e1, e2, e3, e4⟩ := d4 t' ht'
        have hne : t' ≠ s.ntasks := by omega
        simp only [upd, hne, if_false]
        exact ⟨by omega, e2, e3, e4⟩
    · intro j' hp
      obtain ⟨d1, d2⟩ := c9 j' hp
      have hjj : j' ≠ j := by intro e; subst e; rw [hen.2] at d1; cases d1
      exact ⟨d1, by simp [upd, hjj, d2]⟩
  | done j =>
    simp only [apply]
    refine ⟨c1, c2, c3, c4, ?_, c6, c7, c8, ?_⟩
    · intro j' r hd hr
      obtain ⟨d1, d2, d3, d4⟩ := c5 j' r hd hr
      refine ⟨by simp only [upd]; split <;> simp_all, d2, d3, d4⟩
    · intro j' hp
      obtain ⟨d1, d2⟩ := c9 j' hp
      exact ⟨by simp only [upd]; split <;> simp_all, d2⟩
  | wait j =>
    simp only [apply]
    refine ⟨c1, c2, c3, c4, c5, ?_, ?_, c8, c9⟩
    · intro j' r hr; have := c6 j' r; simp only [upd] at *; grind
    · intro j' r hr; have := c7 j' r; have := c6 j r; simp only [upd] at *; grind
  | stopFlag => exact ⟨c1, c2, c3, c4, c5, c6, c7, c8, c9⟩
  | stopClose => exact ⟨c1, c2, c3, c4, c5, c6, c7, c8, c9⟩
  | stopAck => exact ⟨c1, c2, c3, c4, c5, c6, c7, c8, c9⟩
  | stopReturn => exact ⟨c1, c2, c3, c4, c5, c6, c7, c8, c9⟩
  | stopCollect i =>
    simp only [isEnabled, Bool.and_eq_true, decide_eq_true_eq, beq_iff_eq] at hen
    simp only [apply]
    split
    · refine ⟨c1, c2, c3, ?_, c5, c6, c7, c8, c9⟩
      intro t ht htk hd
      rcases c4 t ht htk hd with a | ⟨i', hi'⟩ | a | a
      · exact Or.inl a
      · refine Or.inr (Or.inl ⟨i', ?_⟩)
        have : i' ≠ i := by intro e; subst e; rw [hen.1.2] at hi'; simp [has] at hi'
        simp [upd, this, hi']
      · exact Or.inr (Or.inr (Or.inl a))
      · exact Or.inr (Or.inr (Or.inr a))
    · exact ⟨c1, c2, c3, c4, c5, c6, c7, c8, c9⟩
  | pqTake =>
    simp only [isEnabled, Bool.and_eq_true, beq_iff_eq] at hen
    simp only [apply]
    split
    · exact ⟨c1, c2, c3, c4, c5, c6, c7, c8, c9⟩
    · rename_i j rest hq
      have hj := hB.queue_ok j (by rw [hq]; simp)
      have hdj := hB.undeliv j hj.2
      have hcur : cur s = none := by simp [cur, hen.1]
      have herr := (hB.idle_pq hcur).2
      split
      · refine ⟨?_, c2, c3, ?_, ?_, ?_, ?_, ?_, c9⟩
        · intro t ht hp
          by_cases hjt : s.jobOf t = j
          · exact c1 t ht (Or.inl (by rw [hjt]; exact hj.2))
          · apply c1 t ht; simp only [upd, hjt, if_false] at hp; exact hp
        · intro t ht htk hd
          by_cases hjt : s.jobOf t = j
          · simp [upd, hjt] at hd
          · simp only [upd, hjt, if_false] at htk hd; exact c4 t ht htk hd
        · intro j' r hd hr
          by_cases hjj : j' = j
          · subst hjj; simp [upd] at hd; exact absurd hd.symm hr
          · simp only [upd, hjj, if_false] at hd; exact c5 j' r hd hr
        · intro j' r hr; have := c6 j' r; simp only [upd] at *; grind
        · intro j' r hr; have := c7 j' r; simp only [upd] at *; grind
        · intro j' hc
          obtain ⟨r, h1, h2⟩ := c8 j' hc
          have hjj : j' ≠ j := by intro e; subst e; rw [hdj] at h1; cases h1
          exact ⟨r, by simp [upd, hjj, h1], h2⟩
      · refine ⟨?_, ?_, ?_, ?_, c5, c6, c7, c8, ?_⟩
        · intro t ht hp
          by_cases hjt : s.jobOf t = j
          · exact c1 t ht (Or.inl (by rw [hjt]; exact hj.2))
          · apply c1 t ht; simp only [upd, hjt, if_false] at hp; exact hp
        · intro t' ht'; rw [herr] at ht'; cases ht'
        · intro t' ht' hc hf hfin
          simp only [cur, Option.some.injEq] at hc
          have := c1 t' ht' (Or.inl (by rw [← hc]; exact hj.2))
          have := (hA.chan_ok _ t' this).2.2.2.1
          rw [hfin] at this; cases this
        · intro t ht htk hd
          by_cases hjt : s.jobOf t = j
          · left; exact c1 t ht (Or.inl (by rw [hjt]; exact hj.2))
          · simp only [upd, hjt, if_false] at htk; exact c4 t ht htk hd
        · intro j' hp; cases hp
  | feed i =>
    simp only [isEnabled, Bool.and_eq_true, decide_eq_true_eq, beq_iff_eq] at hen
    simp only [apply]
    split
    · rename_i j hpq
      have hcj := hB.cur_ok j (by simp [cur, hpq])
      split
      · exact ⟨c1, c2, c3, c4, c5, c6, c7, c8, c9⟩
      · rename_i t rest hch
        have hto := hA.chan_ok j t (by rw [hch]; simp)
        refine ⟨?_, c2, c3, ?_, ?_, c6, c7, c8, ?_⟩
        · intro t2 ht2 hp
          have := c1 t2 ht2 hp
          by_cases hjt : s.jobOf t2 = j
          · rw [hjt] at hp; rcases hp with hp | hp
            · rw [hcj.2.1] at hp; cases hp
            · rw [hcj.2.2.1] at hp; cases hp
          · simp only [upd, hjt, if_false]; exact this
        · intro t2 ht2 htk hd
          by_cases h2 : t2 = t
          · subst h2; exact Or.inr (Or.inl ⟨i, by simp [upd, has]⟩)
          · rcases c4 t2 ht2 htk hd with a | ⟨i', hi'⟩ | a | a
            · left
              simp only [upd]
              split
              · rename_i hjt; rw [hjt, hch] at a
                rcases List.mem_cons.mp a with a | a
                · exact absurd a h2
                · exact a
              · exact a
            · refine Or.inr (Or.inl ⟨i', ?_⟩)
              have : i' ≠ i := by intro e; subst e; rw [hen.2] at hi'; simp [has] at hi'
              simp [upd, this, hi']
            · exact Or.inr (Or.inr (Or.inl a))
            · exact Or.inr (Or.inr (Or.inr a))
        · intro j' r hd hr
          obtain ⟨d1, d2, d3, d4⟩ := c5 j' r hd hr
          have hjj : j' ≠ j := by intro e; subst e; rw [hcj.2.2.1] at hd; cases hd
          exact ⟨d1, by simp [upd, hjj, d2], d3, d4⟩
        · intro j' hp; rw [hpq] at hp; cases hp
    · exact ⟨c1, c2, c3, c4, c5, c6, c7, c8, c9⟩
  | endFeed =>
    simp only [isEnabled] at hen
    simp only [apply]
    split
    · rename_i j hpq
      rw [hpq] at hen
      simp only [Bool.and_eq_true, List.isEmpty_iff] at hen
      refine ⟨c1, ?_, ?_, c4, c5, c6, c7, c8, ?_⟩
      · intro t' ht'; have := c2 t' ht'; simp only [cur, hpq] at *; exact this
      · intro t' ht' hc; have := c3 t' ht'; simp only [cur, hpq] at *; exact this hc
      · intro j' hp; cases hp; exact ⟨hen.2, hen.1⟩
    · exact ⟨c1, c2, c3, c4, c5, c6, c7, c8, c9⟩
  | pqFinish =>
    simp only [apply]
    split
    · rename_i j hpq
      have hcj := hB.cur_ok j (by simp [cur, hpq])
      have hw := c9 j hpq
      refine ⟨?_, ?_, ?_, ?_, ?_, ?_, ?_, ?_, ?_⟩
      · intro t ht hp
        apply c1 t ht
        by_cases hjt : s.jobOf t = j
        · rw [hjt] at hp ⊢
          simp only [upd, if_true] at hp
          rcases hp with hp | hp
          · rw [hcj.2.1] at hp; cases hp
          · cases herr : s.err <;> rw [herr] at hp <;> simp at hp
        · simp only [upd, hjt, if_false] at hp; exact hp
      · intro t' ht'; cases ht'
      · intro t' _ hc; simp [cur] at hc
      · intro t ht htk hd
        apply c4 t ht htk
        by_cases hjt : s.jobOf t = j
        · rw [hjt, hcj.2.2.1]; simp
        · simp only [upd, hjt, if_false] at hd; exact hd
      · intro j' r hd hr
        by_cases hjj : j' = j
        · subst hjj
          simp only [upd, if_true, Option.some.injEq] at hd
          refine ⟨hw.1, hw.2, ?_, ?_⟩
          · intro hok t' ht' hj' hf
            cases hfin : s.finished t' with
            | false => rfl
            | true =>
              have := c3 t' ht' (by rw [hj']; simp [cur, hpq]) hf hfin
              cases herr : s.err with
              | none => rw [herr] at this; cases this
              | some x => rw [herr] at hd; rw [hok] at hd; cases hd
          · intro t' hr'
            subst hr'
            cases herr : s.err with
            | none => rw [herr] at hd; cases hd
            | some x =>
              rw [herr] at hd
              simp only [Res.err.injEq] at hd
              subst hd
              obtain ⟨e1, e2, e3, e4⟩ := c2 x herr
              simp only [cur, hpq, Option.some.injEq] at e2
              exact ⟨e1, e2.symm, e3, e4⟩
        · simp only [upd, hjj, if_false] at hd; exact c5 j' r hd hr
      · intro j' r hr; have := c6 j' r; simp only [upd] at *; grind
      · intro j' r hr
        have := c7 j' r hr
        have hjj : j' ≠ j := by intro e; subst e; rw [hcj.2.2.1] at this; cases this
        simp [upd, hjj, this]
      · intro j' hc
        by_cases hjj : j' = j
        · subst hjj
          cases herr : s.err with
          | none => exact ⟨.ok, by simp [upd], by simp⟩
          | some x => exact ⟨.err x, by simp [upd], by simp⟩
        · simp only [upd, hjj, if_false] at hc
          obtain ⟨r, h1, h2⟩ := c8 j' hc
          exact ⟨r, by simp [upd, hjj, h1], h2⟩
      · intro j' hp; cases hp
    · exact ⟨c1, c2, c3, c4, c5, c6, c7, c8, c9⟩
  | pqExit =>
    simp only [isEnabled, Bool.and_eq_true, beq_iff_eq] at hen
    simp only [apply]
    have hcur : cur s = none := by simp [cur, hen.1.1]
    refine ⟨c1, ?_, ?_, c4, c5, c6, c7, c8, ?_⟩
    · intro t' ht'; have := (c2 t' ht').2.1; rw [hcur] at this; cases this
    · intro t' _ hc; simp [cur] at hc
    · intro j' hp; cases hp
  | wCheck i =>
    simp only [apply]
    split
    · rename_i t hw
      have hwt := hA.w_ok i t (by simp [has, hw])
      have hct := hB.w_cur i t (by simp [has, hw])
      have hcj := hB.cur_ok _ hct
      split
      · rename_i herr
        refine ⟨c1, c2, c3, ?_, c5, c6, c7, c8, c9⟩
        intro t2 ht2 htk hd
        by_cases h2 : t2 = t
        · subst h2
          refine Or.inr (Or.inr (Or.inr ⟨hwt.2.2.1 hw, ?_⟩))
          cases he : s.err with
          | none => rw [he] at herr; cases herr
          | some x =>
            obtain ⟨e1, e2, e3, e4⟩ := c2 x he
            rw [hct] at e2
            simp only [Option.some.injEq] at e2
            exact ⟨x, e1, e2.symm, e3, e4⟩
        · rcases c4 t2 ht2 htk hd with a | ⟨i', hi'⟩ | a | a
          · exact Or.inl a
          · refine Or.inr (Or.inl ⟨i', ?_⟩)
            have : i' ≠ i := by
              intro e; subst e; rw [hw] at hi'; simp [has] at hi'; exact h2 hi'.symm
            simp [upd, this, hi']
          · exact Or.inr (Or.inr (Or.inl a))
          · exact Or.inr (Or.inr (Or.inr a))
      · refine ⟨c1, c2, c3, ?_, c5, c6, c7, c8, c9⟩
        intro t2 ht2 htk hd
        by_cases h2 : t2 = t
        · subst h2; exact Or.inr (Or.inl ⟨i, by simp [upd, has]⟩)
        · rcases c4 t2 ht2 htk hd with a | ⟨i', hi'⟩ | a | a
          · exact Or.inl a
          · refine Or.inr (Or.inl ⟨i', ?_⟩)
            have : i' ≠ i := by
              intro e; subst e; rw [hw] at hi'; simp [has] at hi'; exact h2 hi'.symm
            simp [upd, this, hi']
          · exact Or.inr (Or.inr (Or.inl a))
          · refine Or.inr (Or.inr (Or.inr ⟨by simp [upd, h2, a.1], ?_⟩))
            exact a.2
    · exact ⟨c1, c2, c3, c4, c5, c6, c7, c8, c9⟩
  | wFinish i =>
    simp only [apply]
    split
    · rename_i t hw
      have hwt := hA.w_ok i t (by simp [has, hw])
      have hct := hB.w_cur i t (by simp [has, hw])
      have hcj := hB.cur_ok _ hct
      have hfmono : ∀ j, FailedIn s j → FailedIn
          { s with finished := upd s.finished t true,
                   err := if (s.fails t && s.err.isNone) = true then some t else s.err,
                   sg := s.sg - 1, w := upd s.w i .idle } j := by
        intro j hf
        obtain ⟨t', h1, h2, h3, h4⟩ := hf
        refine ⟨t', h1, h2, h3, ?_⟩
        show upd s.finished t true t' = true
        simp only [upd]; split <;> simp_all
      refine ⟨c1, ?_, ?_, ?_, ?_, c6, c7, c8, c9⟩
      · intro t' ht'
        by_cases hc : (s.fails t && s.err.isNone) = true
        · simp only [hc, if_true, Option.some.injEq] at ht'
          subst ht'
          simp only [Bool.and_eq_true] at hc
          exact ⟨hwt.1, hct, hc.1, by simp [upd]⟩
        · simp only [hc, if_false] at ht'
          obtain ⟨e1, e2, e3, e4⟩ := c2 t' ht'
          refine ⟨e1, e2, e3, ?_⟩
          show upd s.finished t true t' = true
          unfold upd; split
          · rfl
          · exact e4
      · intro t' ht' hc hf hfin
        by_cases h2 : t' = t
        · subst h2
          show (if (s.fails t' && s.err.isNone) = true then some t' else s.err).isSome = true
          have hf' : s.fails t' = true := hf
          cases he : s.err with
          | none => simp [hf']
          | some x => simp
        · simp only [upd, h2, if_false] at hfin
          have := c3 t' ht' hc hf hfin
          show (if (s.fails t && s.err.isNone) = true then some t else s.err).isSome = true
          split
          · rfl
          · exact this
      · intro t2 ht2 htk hd
        by_cases h2 : t2 = t
        · subst h2; exact Or.inr (Or.inr (Or.inl (by simp [upd])))
        · rcases c4 t2 ht2 htk hd with a | ⟨i', hi'⟩ | a | a
          · exact Or.inl a
          · refine Or.inr (Or.inl ⟨i', ?_⟩)
            have : i' ≠ i := by
              intro e; subst e; rw [hw] at hi'; simp [has] at hi'; exact h2 hi'.symm
            simp [upd, this, hi']
          · exact Or.inr (Or.inr (Or.inl (by simp only [upd]; split <;> simp_all)))
          · exact Or.inr (Or.inr (Or.inr ⟨a.1, hfmono _ a.2⟩))
      · intro j' r hd hr
        obtain ⟨d1, d2, d3, d4⟩ := c5 j' r hd hr
        have hjj : s.jobOf t ≠ j' := by intro e; subst e; rw [hcj.2.2.1] at hd; cases hd
        refine ⟨d1, d2, ?_, ?_⟩
        · intro hok t' ht' hj' hf
          have h2 : t' ≠ t := by intro e; subst e; exact hjj hj'
          simp only [upd, h2, if_false]
          exact d3 hok t' ht' hj' hf
        · intro t' hr'
          obtain ⟨e1, e2, e3, e4⟩ := d4 t' hr'
          exact ⟨e1, e2, e3, by simp only [upd]; split <;> simp_all⟩
    · exact ⟨c1, c2, c3, c4, c5, c6, c7, c8, c9⟩

theorem invC_reachable {r : Bool} {w m : Nat} {s : State} (hr : Reachable r w m s) : InvC s := by
  induction hr with
  | init => exact invC_init r w m
  | step st hr' hen ih => exact invC_step (invA_reachable hr') (invB_reachable hr') ih hen

/-! ## Layer D: the stop protocol -/

def isAcked (x : WSt) : Bool := x == .acked

@[simp] theorem isAcked_idle : isAcked .idle = false := rfl
@[simp] theorem isAcked_acked : isAcked .acked = true := rfl
@[simp] theorem isAcked_dead : isAcked .dead = false := rfl
@[simp] theorem isAcked_holding (t : Nat) : isAcked (.holding t) = false := rfl
@[simp] theorem isAcked_running (t : Nat) : isAcked (.running t) = false := rfl

structure InvD (s : State) : Prop where
  flag : s.shouldShutdown = true ↔ s.stop ≠ .notCalled
  qclosed : s.queueClosed = true ↔ (s.stop ≠ .notCalled ∧ s.stop ≠ .flagged)
  exited : s.pq = .exited → s.queueClosed = true ∧ s.queue = []
  ack : s.ackShutdown = true ↔ s.pq = .exited
  sw : s.stopWorkers = true ↔ ((∃ k, s.stop = .collecting k) ∨ s.stop = .returned)
  sw_exited : s.stopWorkers = true → s.pq = .exited
  acked : ∀ i, s.w i = .acked → s.stopWorkers = true
  count : ∀ k, s.stop = .collecting k → k = (List.range s.workers).countP (fun i => isAcked (s.w i))
  nodead : s.repaired = true → ∀ i, s.w i ≠ .dead
  returned : s.stop = .returned → ∀ i, i < s.workers → s.w i = .acked

theorem invD_init (r : Bool) (w m : Nat) : InvD (init r w m) := by
  constructor <;> simp [init]

theorem invD_step {s : State} {st : Step} (hB : InvB s) (h : InvD s)
    (hen : isEnabled s st = true) : InvD (apply s st) := by
  obtain ⟨d1, d2, d3, d4, d5, d6, d7, d8, d9, d10⟩ := h
  cases st with
  | newJob =>
    simp only [isEnabled, Bool.or_eq_true, Bool.and_eq_true, beq_iff_eq, decide_eq_true_eq] at hen
    simp only [apply]
    split
    · exact ⟨d1, d2, d3, d4, d5, d6, d7, d8, d9, d10⟩
    · rename_i hns
      refine ⟨d1, d2, ?_, d4, d5, d6, d7, d8, d9, d10⟩
      intro hp
      have := (d2.mp (d3 hp).1).1
      have := d1.mpr this
      exact absurd this hns
  | go j fail => exact ⟨d1, d2, d3, d4, d5, d6, d7, d8, d9, d10⟩
  | done j => exact ⟨d1, d2, d3, d4, d5, d6, d7, d8, d9, d10⟩
  | wait j => exact ⟨d1, d2, d3, d4, d5, d6, d7, d8, d9, d10⟩
  | stopFlag =>
    simp only [isEnabled, beq_iff_eq] at hen
    simp only [apply]
    refine ⟨by simp, ?_, d3, d4, ?_, d6, d7, by simp, d9, by simp⟩
    · have := d2; rw [hen] at this; simp at this ⊢; exact this
    · have := d5; rw [hen] at this; simp at this ⊢; exact this
  | stopClose =>
    simp only [isEnabled, beq_iff_eq] at hen
    simp only [apply]
    refine ⟨?_, by simp, ?_, d4, ?_, d6, d7, by simp, d9, by simp⟩
    · have := d1; rw [hen] at this; simp at this ⊢; exact this
    · intro hp; exact ⟨rfl, (d3 hp).2⟩
    · have := d5; rw [hen] at this; simp at this ⊢; exact this
  | stopAck =>
    simp only [isEnabled, Bool.and_eq_true, beq_iff_eq] at hen
    simp only [apply]
    have hex := d4.mp hen.2
    refine ⟨?_, ?_, d3, d4, by simp, fun _ => hex, fun _ _ => rfl, ?_, d9, by simp⟩
    · have := d1; rw [hen.1] at this; simp at this ⊢; exact this
    · have := d2; rw [hen.1] at this; simp at this ⊢; exact this
    · intro k hk
      simp only [StopPc.collecting.injEq] at hk
      subst hk
      symm
      apply List.countP_eq_zero.mpr
      intro i _
      cases hw : s.w i with
      | acked =>
        have := d7 i hw
        have := d5.mp this
        rw [hen.1] at this; simp at this
      | _ => simp
  | stopCollect i =>
    simp only [isEnabled, Bool.and_eq_true, decide_eq_true_eq, beq_iff_eq] at hen
    simp only [apply]
    split
    · rename_i k hk
      refine ⟨?_, ?_, d3, d4, ?_, d6, ?_, ?_, ?_, by simp⟩
      · have := d1; rw [hk] at this; simp at this ⊢; exact this
      · have := d2; rw [hk] at this; simp at this ⊢; exact this
      · have := d5; rw [hk] at this; simp at this ⊢; exact this
      · intro i' hi'; exact hen.2
      · intro k' hk'
        simp only [StopPc.collecting.injEq] at hk'
        subst hk'
        have := countP_upd s.w .acked isAcked hen.1.1.2
        rw [hen.1.2] at this
        simp only [isAcked_idle, isAcked_acked, Bool.false_eq_true, ↓reduceIte, Nat.add_zero] at this
        rw [d8 k hk]; exact this.symm
      · intro hr i' hi'
        have := d9 hr i'
        simp only [upd] at hi'
        split at hi'
        · cases hi'
        · exact this hi'
    · exact ⟨d1, d2, d3, d4, d5, d6, d7, d8, d9, d10⟩
  | stopReturn =>
    simp only [isEnabled, beq_iff_eq] at hen
    simp only [apply]
    refine ⟨?_, ?_, d3, d4, ?_, d6, d7, by simp, d9, ?_⟩
    · have := d1; rw [hen] at this; simp at this ⊢; exact this
    · have := d2; rw [hen] at this; simp at this ⊢; exact this
    · have := d5; rw [hen] at this; simp at this ⊢; exact this
    · intro _ i hi
      have hc := d8 _ hen
      have hall := (List.countP_eq_length (p := fun i => isAcked (s.w i)) (l := List.range s.workers)).mp
        (by rw [← hc]; simp)
      have := hall i (List.mem_range.mpr hi)
      simpa [isAcked] using this
  | pqTake =>
    simp only [isEnabled, Bool.and_eq_true, beq_iff_eq] at hen
    simp only [apply]
    have hne : s.pq ≠ .exited := by rw [hen.1]; simp
    split
    · exact ⟨d1, d2, d3, d4, d5, d6, d7, d8, d9, d10⟩
    · split
      · refine ⟨d1, d2, fun hp => absurd hp hne, d4, d5, d6, d7, d8, d9, d10⟩
      · refine ⟨d1, d2, (fun hp => by cases hp), ?_, d5, ?_, d7, d8, d9, d10⟩
        · constructor
          · intro ha; exact absurd (d4.mp ha) hne
          · intro hp; cases hp
        · intro hsw; exact absurd (d6 hsw) hne
  | feed i =>
    simp only [isEnabled, Bool.and_eq_true, decide_eq_true_eq, beq_iff_eq] at hen
    simp only [apply]
    split
    · rename_i j hpq
      split
      · exact ⟨d1, d2, d3, d4, d5, d6, d7, d8, d9, d10⟩
      · rename_i t rest hch
        have hnsw : s.stopWorkers ≠ true := fun hsw => by have := d6 hsw; rw [hpq] at this; cases this
        refine ⟨d1, d2, d3, d4, d5, d6, ?_, ?_, ?_, ?_⟩
        · intro i' hi'; simp only [upd] at hi'; split at hi'
          · cases hi'
          · exact d7 i' hi'
        · intro k hk
          have := d5.mpr (Or.inl ⟨k, hk⟩)
          exact absurd this hnsw
        · intro hr i' hi'
          simp only [upd] at hi'
          split at hi'
          · cases hi'
          · exact d9 hr i' hi'
        · intro hr; exact absurd (d5.mpr (Or.inr hr)) hnsw
    · exact ⟨d1, d2, d3, d4, d5, d6, d7, d8, d9, d10⟩
  | endFeed =>
    simp only [apply]
    split
    · rename_i j hpq
      have hne : s.pq ≠ .exited := by rw [hpq]; simp
      refine ⟨d1, d2, (fun hp => by cases hp), ?_, d5, ?_, d7, d8, d9, d10⟩
      · constructor
        · intro ha; exact absurd (d4.mp ha) hne
        · intro hp; cases hp
      · intro hsw; exact absurd (d6 hsw) hne
    · exact ⟨d1, d2, d3, d4, d5, d6, d7, d8, d9, d10⟩
  | pqFinish =>
    simp only [apply]
    split
    · rename_i j hpq
      have hne : s.pq ≠ .exited := by rw [hpq]; simp
      refine ⟨d1, d2, (fun hp => by cases hp), ?_, d5, ?_, d7, d8, d9, d10⟩
      · constructor
        · intro ha; exact absurd (d4.mp ha) hne
        · intro hp; cases hp
      · intro hsw; exact absurd (d6 hsw) hne
    · exact ⟨d1, d2, d3, d4, d5, d6, d7, d8, d9, d10⟩
  | pqExit =>
    simp only [isEnabled, Bool.and_eq_true, beq_iff_eq, List.isEmpty_iff] at hen
    simp only [apply]
    have hfl : s.shouldShutdown = true := d1.mpr (d2.mp hen.2).1
    refine ⟨d1, d2, fun _ => ⟨hen.2, hen.1.2⟩, ?_, d5, fun _ => rfl, d7, d8, d9, d10⟩
    simp [hfl]
  | wCheck i =>
    simp only [isEnabled, Bool.and_eq_true, decide_eq_true_eq] at hen
    simp only [apply]
    split
    · rename_i t hw
      have hnsw : s.stopWorkers ≠ true := by
        intro hsw
        have hp := d6 hsw
        have := hB.w_cur i t (by simp [has, hw])
        simp [cur, hp] at this
      have hcnt : ∀ k, s.stop ≠ .collecting k := fun k hk => hnsw (d5.mpr (Or.inl ⟨k, hk⟩))
      have hret : s.stop ≠ .returned := fun hk => hnsw (d5.mpr (Or.inr hk))
      split
      · refine ⟨d1, d2, d3, d4, d5, d6, ?_, ?_, ?_, ?_⟩
        · intro i' hi'; simp only [upd] at hi'; split at hi'
          · cases hr : s.repaired <;> rw [hr] at hi' <;> simp at hi'
          · exact d7 i' hi'
        · intro k hk; exact absurd hk (hcnt k)
        · intro hr i' hi'
          simp only [upd] at hi'
          split at hi'
          · have hr' : s.repaired = true := hr
            simp [hr'] at hi'
          · exact d9 hr i' hi'
        · intro hr; exact absurd hr hret
      · refine ⟨d1, d2, d3, d4, d5, d6, ?_, ?_, ?_, ?_⟩
        · intro i' hi'; simp only [upd] at hi'; split at hi'
          · cases hi'
          · exact d7 i' hi'
        · intro k hk; exact absurd hk (hcnt k)
        · intro hr i' hi'
          simp only [upd] at hi'
          split at hi'
          · cases hi'
          · exact d9 hr i' hi'
        · intro hr; exact absurd hr hret
    · exact ⟨d1, d2, d3, d4, d5, d6, d7, d8, d9, d10⟩
  | wFinish i =>
    simp only [isEnabled, Bool.and_eq_true, decide_eq_true_eq] at hen
    simp only [apply]
    split
    · rename_i t hw
      have hnsw : s.stopWorkers ≠ true := by
        intro hsw
        have hp := d6 hsw
        have := hB.w_cur i t (by simp [has, hw])
        simp [cur, hp] at this
      have hcnt : ∀ k, s.stop ≠ .collecting k := fun k hk => hnsw (d5.mpr (Or.inl ⟨k, hk⟩))
      have hret : s.stop ≠ .returned := fun hk => hnsw (d5.mpr (Or.inr hk))
      refine ⟨d1, d2, d3, d4, d5, d6, ?_, ?_, ?_, ?_⟩
      · intro i' hi'; simp only [upd] at hi'; split at hi'
        · cases hi'
        · exact d7 i' hi'
      · intro k hk; exact absurd hk (hcnt k)
      · intro hr i' hi'
        simp only [upd] at hi'
        split at hi'
        · cases hi'
        · exact d9 hr i' hi'
      · intro hr; exact absurd hr hret
    · exact ⟨d1, d2, d3, d4, d5, d6, d7, d8, d9, d10⟩

theorem invD_reachable {r : Bool} {w m : Nat} {s : State} (hr : Reachable r w m s) : InvD s := by
  induction hr with
  | init => exact invD_init r w m
  | step st hr' hen ih => exact invD_step (invB_reachable hr') ih hen

theorem params_reachable {r : Bool} {w m : Nat} {s : State} (hr : Reachable r w m s) :
    s.repaired = r ∧ s.workers = w := by
  induction hr with
  | init => exact ⟨rfl, rfl⟩
  | @step s st _ _ ih =>
    cases st <;> simp only [apply] <;> (try exact ih) <;> (repeat' split) <;> exact ih

end HyperModel.Workers
