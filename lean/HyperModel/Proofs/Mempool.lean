import HyperModel.Proofs.EHeap
import HyperModel.Model.Mempool
namespace HyperModel.Mempool
open HyperModel.Heap HyperModel.EHeap
set_option linter.unusedSectionVars false

/-- total byte size of a list of items -/
def qsize (q : List Item) : Int := (q.map (fun x => (x.size : Int))).sum

/-- number of items of a sponsor -/
def qcount (q : List Item) (s : Sponsor) : Nat := q.countP (fun x => x.sponsor == s)

/-- "an ID identifies its content": `x` is the item the universe `u` assigns to its ID -/
def Canon (u : ID → Item) (x : Item) : Prop := x = u x.id

theorem Canon.eq {u : ID → Item} {x y : Item} (hx : Canon u x) (hy : Canon u y) (h : x.id = y.id) : x = y := by
  rw [hx, hy, h]

@[simp] theorem qsize_nil : qsize [] = 0 := rfl
@[simp] theorem qsize_cons (x : Item) (q : List Item) : qsize (x :: q) = x.size + qsize q := by simp [qsize]
@[simp] theorem qsize_append (a b : List Item) : qsize (a ++ b) = qsize a + qsize b := by simp [qsize]
@[simp] theorem qcount_nil (s : Sponsor) : qcount [] s = 0 := rfl
@[simp] theorem qcount_cons (x : Item) (q : List Item) (s : Sponsor) :
    qcount (x :: q) s = qcount q s + (if x.sponsor = s then 1 else 0) := by
  simp [qcount, List.countP_cons]
@[simp] theorem qcount_append (a b : List Item) (s : Sponsor) : qcount (a ++ b) s = qcount a s + qcount b s := by
  simp [qcount]

theorem qRemove_spec (q : List Item) (x : Item) (hx : x ∈ q) (hnd : (q.map (·.id)).Nodup) :
    ∃ l1 l2, q = l1 ++ x :: l2 ∧ qRemove q x.id = l1 ++ l2 := by
  obtain ⟨a, l1, l2, hl1, hpa, hq, he⟩ := List.exists_of_eraseP (p := fun y => y.id == x.id) hx (by simp)
  have ha : a ∈ q := by rw [hq]; simp
  have : a = x := nodup_map_inj (·.id) q hnd a ha x hx (by simpa using hpa)
  subst this
  exact ⟨l1, l2, hq, he⟩

theorem qRemove_absent (q : List Item) (id : ID) (h : ∀ x, x ∈ q → x.id ≠ id) : qRemove q id = q := by
  apply List.eraseP_of_forall_not
  intro a ha; simpa using h a ha

/-- The invariant of the mempool (relative to a universe `u` of items). -/
structure MInv (u : ID → Item) (m : State) : Prop where
  eh : EInv m.eh
  same : m.eh.items.Perm m.queue
  len : m.queue.length ≤ m.maxSize
  owned : ∀ s, m.owned s = qcount m.queue s
  sponsor : ∀ s, m.owned s ≤ m.maxSponsor
  size : m.pendingSize = qsize m.queue
  canon : ∀ x, x ∈ m.queue → Canon u x
  nextCanon : ∀ x, x ∈ m.nextStream → Canon u x
  sDisj : ∀ l, m.streamed = some l → ∀ x, x ∈ m.queue → x.id ∉ l
  sNodup : ∀ l, m.streamed = some l → l.Nodup

theorem MInv.init (u : ID → Item) (a b : Nat) : MInv u (State.init a b) where
  eh := EInv.new
  same := by simp [State.init, EHeap.items, EHeap.new, Heap.new]
  len := by simp [State.init]
  owned := by simp [State.init]
  sponsor := by simp [State.init]
  size := by simp [State.init]
  canon := by simp [State.init]
  nextCanon := by simp [State.init]
  sDisj := by simp [State.init]
  sNodup := by simp [State.init]

theorem MInv.nodup {u m} (h : MInv u m) : (m.queue.map (·.id)).Nodup := by
  have := h.eh.ids_nodup
  exact ((h.same.map _).nodup_iff).1 this

theorem MInv.has_iff {u m} (h : MInv u m) (id : ID) : m.eh.has id = true ↔ ∃ x, x ∈ m.queue ∧ x.id = id := by
  rw [h.eh.has_iff]
  constructor
  · rintro ⟨x, hx, rfl⟩; exact ⟨x, h.same.mem_iff.1 hx, rfl⟩
  · rintro ⟨x, hx, rfl⟩; exact ⟨x, h.same.mem_iff.2 hx, rfl⟩

/-- result shape of one `add` iteration -/
theorem add1_cases (m : State) (front : Bool) (x : Item) :
    m.add1 front x = m ∨
    (m.add1 front x = { m with
        queue := if front then x :: m.queue else m.queue ++ [x],
        eh := m.eh.add x,
        owned := fun j => if j = x.sponsor then m.owned x.sponsor + 1 else m.owned j,
        pendingSize := m.pendingSize + x.size } ∧
      (∀ l, m.streamed = some l → x.id ∉ l) ∧ m.eh.has x.id = false ∧
      m.owned x.sponsor ≠ m.maxSponsor ∧ m.queue.length ≠ m.maxSize) := by
  by_cases h1 : streamedHas m.streamed x.id = true
  · left; unfold State.add1; rw [if_pos h1]
  by_cases h2 : m.eh.has x.id = true
  · left; unfold State.add1; rw [if_neg h1, if_pos h2]
  by_cases h3 : m.owned x.sponsor = m.maxSponsor
  · left; unfold State.add1; rw [if_neg h1, if_neg h2, if_pos h3]
  by_cases h4 : m.queue.length = m.maxSize
  · left; unfold State.add1; rw [if_neg h1, if_neg h2, if_neg h3, if_pos h4]
  right
  refine ⟨by unfold State.add1; rw [if_neg h1, if_neg h2, if_neg h3, if_neg h4], ?_, by simpa using h2, h3, h4⟩
  intro l hl
  rw [hl] at h1
  simpa [streamedHas] using h1

theorem add1_inv {u m} (h : MInv u m) (front : Bool) (x : Item) (hx : Canon u x) : MInv u (m.add1 front x) := by
  rcases add1_cases m front x with he | ⟨he, hs, hh, ho, hl⟩
  · rw [he]; exact h
  · rw [he]
    obtain ⟨einv, _, eperm⟩ := add_spec m.eh h.eh x
    have eperm := eperm hh
    have hq : (if front then x :: m.queue else m.queue ++ [x]).Perm (x :: m.queue) := by
      cases front
      · simpa using List.perm_append_comm
      · simp
    constructor
    · exact einv
    · exact (eperm.trans (h.same.cons x)).trans hq.symm
    · have := hq.length_eq
      have := h.len
      simp only [List.length_cons] at *
      omega
    · intro s
      have e1 : qcount (if front then x :: m.queue else m.queue ++ [x]) s = qcount (x :: m.queue) s := by
        cases front <;> simp [qcount_cons] <;> omega
      simp only [e1, qcount_cons, h.owned]
      by_cases hsx : s = x.sponsor
      · subst hsx; simp
      · have : ¬ x.sponsor = s := fun e => hsx e.symm
        simp [hsx, this]
    · intro s
      have := h.sponsor s
      have := h.sponsor x.sponsor
      simp only
      split <;> omega
    · have e1 : qsize (if front then x :: m.queue else m.queue ++ [x]) = qsize (x :: m.queue) := by
        cases front <;> simp <;> omega
      simp only [e1, qsize_cons, h.size]; omega
    · intro y hy
      have := hq.mem_iff.1 hy
      rcases List.mem_cons.1 this with rfl | hy'
      · exact hx
      · exact h.canon y hy'
    · exact h.nextCanon
    · intro l hl y hy
      have := hq.mem_iff.1 hy
      rcases List.mem_cons.1 this with rfl | hy'
      · exact hs l hl
      · exact h.sDisj l hl y hy'
    · exact h.sNodup

theorem addAll_inv {u m} (h : MInv u m) (front : Bool) (items : List Item) (hx : ∀ x, x ∈ items → Canon u x) :
    MInv u (m.addAll front items) := by
  induction items generalizing m with
  | nil => exact h
  | cons x rest ih =>
    simp only [State.addAll, List.foldl_cons]
    exact ih (add1_inv h front x (hx x (by simp))) (fun y hy => hx y (by simp [hy]))


/-- state after dropping the held item `x` from queue, owned counts and size (not the heap) -/
def dropQ (m : State) (x : Item) : State :=
  { m with queue := qRemove m.queue x.id, owned := removeFromOwned m.owned x.sponsor,
           pendingSize := m.pendingSize - x.size }

/-- the part of the invariant that does not mention the heap -/
structure QInv (u : ID → Item) (m : State) : Prop where
  nodup : (m.queue.map (·.id)).Nodup
  len : m.queue.length ≤ m.maxSize
  owned : ∀ s, m.owned s = qcount m.queue s
  sponsor : ∀ s, m.owned s ≤ m.maxSponsor
  size : m.pendingSize = qsize m.queue
  canon : ∀ x, x ∈ m.queue → Canon u x
  nextCanon : ∀ x, x ∈ m.nextStream → Canon u x
  sDisj : ∀ l, m.streamed = some l → ∀ x, x ∈ m.queue → x.id ∉ l
  sNodup : ∀ l, m.streamed = some l → l.Nodup

theorem MInv.q {u m} (h : MInv u m) : QInv u m :=
  ⟨h.nodup, h.len, h.owned, h.sponsor, h.size, h.canon, h.nextCanon, h.sDisj, h.sNodup⟩

theorem MInv.mk' {u m} (q : QInv u m) (e : EInv m.eh) (s : m.eh.items.Perm m.queue) : MInv u m :=
  ⟨e, s, q.len, q.owned, q.sponsor, q.size, q.canon, q.nextCanon, q.sDisj, q.sNodup⟩

theorem dropQ_spec {u m} (h : QInv u m) (x : Item) (hx : x ∈ m.queue) :
    QInv u (dropQ m x) ∧ ∃ l1 l2, m.queue = l1 ++ x :: l2 ∧ (dropQ m x).queue = l1 ++ l2 := by
  obtain ⟨l1, l2, hq, hr⟩ := qRemove_spec m.queue x hx h.nodup
  refine ⟨?_, l1, l2, hq, hr⟩
  have hmem : ∀ y, y ∈ l1 ++ l2 → y ∈ m.queue := by
    intro y hy; rw [hq]; simp at hy ⊢; rcases hy with h | h <;> simp [h]
  constructor
  · simp only [dropQ, hr]
    have hsub : (l1 ++ l2).Sublist (l1 ++ x :: l2) :=
      List.Sublist.append (List.Sublist.refl l1) (List.sublist_cons_self x l2)
    have := h.nodup
    rw [hq] at this
    exact List.Nodup.sublist (hsub.map _) this
  · simp only [dropQ, hr]
    have := h.len; rw [hq] at this; simp at this ⊢; omega
  · intro s
    simp only [dropQ, hr, removeFromOwned]
    have e1 := h.owned s
    have e2 := h.owned x.sponsor
    rw [hq] at e1 e2
    simp only [qcount_append, qcount_cons] at e1 e2 ⊢
    by_cases hs : s = x.sponsor
    · subst hs; simp at e2 ⊢; omega
    · have : ¬ x.sponsor = s := fun e => hs e.symm
      simp [hs, this] at e1 ⊢; omega
  · intro s
    simp only [dropQ, removeFromOwned]
    have := h.sponsor s; have := h.sponsor x.sponsor
    split <;> omega
  · simp only [dropQ, hr]
    have := h.size; rw [hq] at this
    simp only [qsize_append, qsize_cons] at this ⊢; omega
  · intro y hy; simp only [dropQ, hr] at hy; exact h.canon y (hmem y hy)
  · exact h.nextCanon
  · intro l hl y hy; simp only [dropQ, hr] at hy; exact h.sDisj l hl y (hmem y hy)
  · exact h.sNodup

/-- removing the held item `x` from heap and queue -/
theorem removeHeld {u m} (h : MInv u m) (x : Item) (hx : x ∈ m.queue) :
    (m.eh.remove x.id).2 = some x ∧
    MInv u { dropQ m x with eh := (m.eh.remove x.id).1 } ∧
    ∃ l1 l2, m.queue = l1 ++ x :: l2 ∧ qRemove m.queue x.id = l1 ++ l2 := by
  have hhas : m.eh.has x.id = true := (h.has_iff x.id).2 ⟨x, hx, rfl⟩
  obtain ⟨y, hy, hyid, hymem, einv, eperm⟩ := (remove_spec m.eh h.eh x.id).2 hhas
  have hyq : y ∈ m.queue := h.same.mem_iff.1 hymem
  have hyx : y = x := nodup_map_inj (·.id) m.queue h.nodup y hyq x hx hyid
  subst hyx
  obtain ⟨qinv, l1, l2, hq, hr⟩ := dropQ_spec h.q y hx
  refine ⟨hy, ?_, l1, l2, hq, by simpa [dropQ] using hr⟩
  refine MInv.mk' (m := { dropQ m y with eh := (m.eh.remove y.id).1 }) ⟨qinv.nodup, qinv.len, qinv.owned, qinv.sponsor, qinv.size, qinv.canon,
    qinv.nextCanon, qinv.sDisj, qinv.sNodup⟩ einv ?_
  show (m.eh.remove y.id).1.items.Perm (dropQ m y).queue
  rw [hr]
  have p1 : (y :: (m.eh.remove y.id).1.items).Perm (y :: (l1 ++ l2)) := by
    refine eperm.symm.trans (h.same.trans ?_)
    rw [hq]; exact List.perm_middle
  exact p1.cons_inv

theorem popNext_spec {u m} (h : MInv u m) :
    (m.queue = [] → m.popNext = (m, none)) ∧
    (∀ v rest, m.queue = v :: rest → (m.popNext).2 = some v ∧ (m.popNext).1.queue = rest ∧
      MInv u (m.popNext).1 ∧ (m.popNext).1.streamed = m.streamed ∧ (m.popNext).1.nextStream = m.nextStream ∧
      (m.popNext).1.nextStreamFetched = m.nextStreamFetched ∧ (m.popNext).1.streamLocked = m.streamLocked ∧
      (m.popNext).1.maxSize = m.maxSize ∧ (m.popNext).1.maxSponsor = m.maxSponsor) := by
  constructor
  · intro he; simp [State.popNext, he]
  · intro v rest hq
    obtain ⟨_, hinv, _⟩ := removeHeld h v (by simp [hq])
    have hqr : qRemove m.queue v.id = rest := by simp [qRemove, hq]
    have hpop : m.popNext = ({ dropQ m v with eh := (m.eh.remove v.id).1 }, some v) := by
      simp only [State.popNext, hq, dropQ]
      rw [show qRemove (v :: rest) v.id = rest by simpa [hq] using hqr]
    rw [hpop]
    refine ⟨rfl, by simpa [dropQ] using hqr, hinv, rfl, rfl, rfl, rfl, rfl, rfl⟩

theorem remove1_inv {u m} (h : MInv u m) (x : Item) (hx : Canon u x) : MInv u (m.remove1 x) := by
  by_cases hhas : m.eh.has x.id = true
  · obtain ⟨y, hyq, hyid⟩ := (h.has_iff x.id).1 hhas
    have hyx : y = x := (h.canon y hyq).eq hx hyid
    subst hyx
    obtain ⟨hr, hinv, _⟩ := removeHeld h y hyq
    have : m.remove1 y = { dropQ m y with eh := (m.eh.remove y.id).1 } := by
      unfold State.remove1
      rcases hrem : m.eh.remove y.id with ⟨eh', _ | elem⟩
      · rw [hrem] at hr; cases hr
      · rw [hrem] at hr; cases hr; rfl
    rw [this]; exact hinv
  · have := (remove_spec m.eh h.eh x.id).1 (by simpa using hhas)
    unfold State.remove1
    rw [this]; exact h

theorem remove_inv {u m} (h : MInv u m) (items : List Item) (hx : ∀ x, x ∈ items → Canon u x) :
    MInv u (m.remove items) := by
  induction items generalizing m with
  | nil => exact h
  | cons x rest ih =>
    simp only [State.remove, List.foldl_cons]
    exact ih (remove1_inv h x (hx x (by simp))) (fun y hy => hx y (by simp [hy]))


/-- the queue part of `SetMinTimestamp`'s loop -/
def dropAll (m : State) (out : List Item) : State := out.foldl dropQ m

theorem setMinTimestamp_eq (m : State) (t : Int) :
    m.setMinTimestamp t = (dropAll { m with eh := (m.eh.setMin t).1 } (m.eh.setMin t).2, (m.eh.setMin t).2) := by
  simp only [State.setMinTimestamp, dropAll]
  rfl

theorem dropAll_spec {u} (out : List Item) : ∀ (m : State), QInv u m → (out.map (·.id)).Nodup →
    (∀ x, x ∈ out → x ∈ m.queue) →
    QInv u (dropAll m out) ∧ (dropAll m out).queue.Sublist m.queue ∧
    m.queue.Perm (out ++ (dropAll m out).queue) ∧ (dropAll m out).eh = m.eh ∧
    (dropAll m out).streamed = m.streamed ∧ (dropAll m out).maxSize = m.maxSize ∧
    (dropAll m out).maxSponsor = m.maxSponsor := by
  induction out with
  | nil => intro m h _ _; exact ⟨h, List.Sublist.refl _, by simp [dropAll], rfl, rfl, rfl, rfl⟩
  | cons x rest ih =>
    intro m h hnd hsub
    obtain ⟨qinv, l1, l2, hq, hr⟩ := dropQ_spec h x (hsub x (by simp))
    simp only [List.map_cons, List.nodup_cons] at hnd
    have hsub' : ∀ y, y ∈ rest → y ∈ (dropQ m x).queue := by
      intro y hy
      have hyq := hsub y (by simp [hy])
      have hne : y ≠ x := by
        intro e; subst e; exact hnd.1 (List.mem_map.2 ⟨y, hy, rfl⟩)
      rw [hq] at hyq; rw [hr]
      simp at hyq ⊢
      rcases hyq with h | h | h
      · exact Or.inl h
      · exact absurd h hne
      · exact Or.inr h
    obtain ⟨i1, i2, i3, i4, i5, i6, i7⟩ := ih (dropQ m x) qinv hnd.2 hsub'
    have hd : dropAll m (x :: rest) = dropAll (dropQ m x) rest := rfl
    rw [hd]
    refine ⟨i1, ?_, ?_, i4, i5, i6, i7⟩
    · refine i2.trans ?_
      rw [hr, hq]
      exact List.Sublist.append (List.Sublist.refl l1) (List.sublist_cons_self x l2)
    · rw [hq]
      have : (l1 ++ l2).Perm (rest ++ (dropAll (dropQ m x) rest).queue) := by rw [← hr]; exact i3
      exact List.perm_middle.trans (by simpa using this.cons x)

theorem filter_of_sublist_perm {α} (p : α → Bool) (q q' out : List α) (hs : q'.Sublist q)
    (hp : q.Perm (out ++ q')) (ho : ∀ x, x ∈ out → p x = true) (hq : ∀ y, y ∈ q' → p y = false) :
    q' = q.filter (fun x => !p x) := by
  have h1 : q'.filter (fun x => !p x) = q' := List.filter_eq_self.2 (by intro a ha; simp [hq a ha])
  have h2 : (q'.filter (fun x => !p x)).Sublist (q.filter (fun x => !p x)) := hs.filter _
  rw [h1] at h2
  have h3 : (q.filter (fun x => !p x)).Perm ((out ++ q').filter (fun x => !p x)) := hp.filter _
  have h4 : out.filter (fun x => !p x) = [] := List.filter_eq_nil_iff.2 (by intro a ha; simp [ho a ha])
  rw [List.filter_append, h4, h1, List.nil_append] at h3
  exact h2.eq_of_length h3.length_eq.symm

/-- `SetMinTimestamp t`: invariant kept; returns exactly the held items with expiry `< t`
(as a set: permutation), and the queue keeps the others in their order. -/
theorem setMinTimestamp_spec {u m} (h : MInv u m) (t : Int) :
    MInv u (m.setMinTimestamp t).1 ∧
    (m.setMinTimestamp t).2.Perm (m.queue.filter (fun x => decide (x.expiry < t))) ∧
    (m.setMinTimestamp t).1.queue = m.queue.filter (fun x => !decide (x.expiry < t)) ∧
    (m.setMinTimestamp t).1.streamed = m.streamed := by
  obtain ⟨einv, eperm, hlt, hge⟩ := setMin_spec m.eh h.eh t
  rw [setMinTimestamp_eq]
  simp only
  have hqp : m.queue.Perm ((m.eh.setMin t).2 ++ (m.eh.setMin t).1.items) := h.same.symm.trans eperm
  have hnd : ((m.eh.setMin t).2.map (·.id)).Nodup := by
    have := (hqp.map (·.id)).nodup_iff.1 h.nodup
    rw [List.map_append] at this
    exact (List.nodup_append.1 this).1
  have hsub : ∀ x, x ∈ (m.eh.setMin t).2 → x ∈ m.queue := by
    intro x hx; exact hqp.mem_iff.2 (by simp [hx])
  have hq0 : QInv u { m with eh := (m.eh.setMin t).1 } :=
    ⟨h.nodup, h.len, h.owned, h.sponsor, h.size, h.canon, h.nextCanon, h.sDisj, h.sNodup⟩
  obtain ⟨i1, i2, i3, i4, i5, i6, i7⟩ := dropAll_spec (u := u) (m.eh.setMin t).2 _ hq0 hnd hsub
  have i3' : m.queue.Perm ((m.eh.setMin t).2 ++ (dropAll { m with eh := (m.eh.setMin t).1 } (m.eh.setMin t).2).queue) := i3
  have hsame : (m.eh.setMin t).1.items.Perm (dropAll { m with eh := (m.eh.setMin t).1 } (m.eh.setMin t).2).queue :=
    (List.perm_append_left_iff _).1 (hqp.symm.trans i3')
  have hqf := filter_of_sublist_perm (fun x : Item => decide (x.expiry < t)) m.queue _ _ i2 i3'
    (by intro x hx; have := hlt x hx; simp only [ExpItem.expiry] at this; simpa using this)
    (by intro y hy; have := hge y (hsame.mem_iff.2 hy); simp only [ExpItem.expiry] at this; simpa using this)
  refine ⟨MInv.mk' i1 (by rw [i4]; exact einv) (by rw [i4]; exact hsame), ?_, hqf, i5⟩
  -- returned = filter (< t)
  have hpart : m.queue.Perm (m.queue.filter (fun x => decide (x.expiry < t)) ++ m.queue.filter (fun x => !decide (x.expiry < t))) :=
    (List.filter_append_perm _ _).symm
  rw [← hqf] at hpart
  exact (List.perm_append_right_iff _).1 (i3'.symm.trans hpart)


/-- changing only the stream bookkeeping fields -/
theorem MInv.setStream {u m} (h : MInv u m) (locked : Bool) (s : Option (List ID)) (ns : List Item) (f : Bool)
    (hs : ∀ l, s = some l → (∀ x, x ∈ m.queue → x.id ∉ l) ∧ l.Nodup)
    (hn : ∀ x, x ∈ ns → Canon u x) :
    MInv u { m with streamLocked := locked, streamed := s, nextStream := ns, nextStreamFetched := f } :=
  ⟨h.eh, h.same, h.len, h.owned, h.sponsor, h.size, h.canon, hn, fun l hl => (hs l hl).1, fun l hl => (hs l hl).2⟩

theorem streamItems_spec {u} (n : Nat) : ∀ (m : State) (txs : List Item), MInv u m →
    (State.streamItems n m txs).2 = txs ++ m.queue.take n ∧
    (State.streamItems n m txs).1.queue = m.queue.drop n ∧
    MInv u (State.streamItems n m txs).1 ∧
    (State.streamItems n m txs).1.streamed =
      (if m.queue.take n = [] then m.streamed
       else some (m.streamed.getD [] ++ (m.queue.take n).map (·.id))) ∧
    (State.streamItems n m txs).1.nextStream = m.nextStream ∧
    (State.streamItems n m txs).1.nextStreamFetched = m.nextStreamFetched ∧
    (State.streamItems n m txs).1.streamLocked = m.streamLocked ∧
    (State.streamItems n m txs).1.maxSize = m.maxSize ∧
    (State.streamItems n m txs).1.maxSponsor = m.maxSponsor := by
  induction n with
  | zero => intro m txs h; simp [State.streamItems, h]
  | succ n ih =>
    intro m txs h
    obtain ⟨hp0, hp1⟩ := popNext_spec h
    cases hq : m.queue with
    | nil =>
      have := hp0 hq
      simp [State.streamItems, this, hq, h]
    | cons v rest =>
      obtain ⟨p1, p2, p3, p4, p5, p6, p7, p8, p9⟩ := hp1 v rest hq
      have hvl : ∀ l, m.streamed = some l → v.id ∉ l := fun l hl => h.sDisj l hl v (by simp [hq])
      have hnd := h.nodup
      rw [hq] at hnd
      simp only [List.map_cons, List.nodup_cons, List.mem_map, not_exists, not_and] at hnd
      have hsadd : streamedAdd m.streamed v.id = some (m.streamed.getD [] ++ [v.id]) := by
        cases hs : m.streamed with
        | none => simp [streamedAdd]
        | some l => simp [streamedAdd, hvl l hs]
      let m2 : State := { (m.popNext).1 with streamed := streamedAdd (m.popNext).1.streamed v.id }
      have hm2 : MInv u m2 := by
        have := p3.setStream (m.popNext).1.streamLocked (streamedAdd (m.popNext).1.streamed v.id)
          (m.popNext).1.nextStream (m.popNext).1.nextStreamFetched ?_ p3.nextCanon
        · exact this
        · intro l hl
          rw [p4, hsadd] at hl
          cases hl
          constructor
          · intro x hx
            rw [p2] at hx
            intro hmem
            rcases List.mem_append.1 hmem with hm | hm
            · cases hs : m.streamed with
              | none => simp [hs] at hm
              | some l => simp [hs] at hm; exact h.sDisj l hs x (by simp [hq, hx]) hm
            · simp at hm; exact hnd.1 x hx hm
          · cases hs : m.streamed with
            | none => simp
            | some l =>
              simp only [Option.getD_some]
              exact List.nodup_append.2 ⟨h.sNodup l hs, by simp, by
                intro a ha b hb; simp at hb; subst hb; intro e; subst e; exact hvl l hs ha⟩
      have hstep : State.streamItems (n + 1) m txs = State.streamItems n m2 (txs ++ [v]) := by
        rcases hpop : m.popNext with ⟨m1, _ | item⟩
        · rw [hpop] at p1; cases p1
        · rw [hpop] at p1; cases p1
          simp only [State.streamItems, hpop, m2]
      obtain ⟨i1, i2, i3, i4, i5, i6, i7, i8, i9⟩ := ih m2 (txs ++ [v]) hm2
      have hm2q : m2.queue = rest := p2
      have hm2s : m2.streamed = some (m.streamed.getD [] ++ [v.id]) := by
        show streamedAdd (m.popNext).1.streamed v.id = _
        rw [p4, hsadd]
      rw [hstep]
      refine ⟨?_, ?_, i3, ?_, i5.trans p5, i6.trans p6, i7.trans p7, i8.trans p8, i9.trans p9⟩
      · rw [i1, hm2q]; simp
      · rw [i2, hm2q]; simp
      · rw [i4, hm2q, hm2s]
        simp only [List.take_succ_cons, List.map_cons, reduceCtorEq, if_false, Option.getD_some]
        split <;> simp_all

theorem topLoop_spec {u} (fuel : Nat) : ∀ (m : State) (ans : List Answer) (vis res : List Item), MInv u m →
    (∀ x, x ∈ res → Canon u x) →
    MInv u (State.topLoop fuel m ans vis res).1 ∧
    (∀ x, x ∈ (State.topLoop fuel m ans vis res).2.2.1 → Canon u x) ∧
    (∃ k, (State.topLoop fuel m ans vis res).2.1 = vis ++ m.queue.take k ∧
          (State.topLoop fuel m ans vis res).1.queue = m.queue.drop k) ∧
    (State.topLoop fuel m ans vis res).1.streamed = m.streamed ∧
    (State.topLoop fuel m ans vis res).1.nextStream = m.nextStream ∧
    (State.topLoop fuel m ans vis res).1.nextStreamFetched = m.nextStreamFetched ∧
    (State.topLoop fuel m ans vis res).1.streamLocked = m.streamLocked ∧
    (State.topLoop fuel m ans vis res).1.maxSize = m.maxSize ∧
    (State.topLoop fuel m ans vis res).1.maxSponsor = m.maxSponsor := by
  induction fuel with
  | zero => intro m ans vis res h hr; exact ⟨h, hr, ⟨0, by simp [State.topLoop]⟩, rfl, rfl, rfl, rfl, rfl, rfl⟩
  | succ fuel ih =>
    intro m ans vis res h hr
    by_cases hlen : m.eh.len = 0
    · have e : State.topLoop (fuel + 1) m ans vis res = (m, vis, res, false) := by
        simp only [State.topLoop, hlen, if_true]
      rw [e]
      exact ⟨h, hr, ⟨0, by simp⟩, rfl, rfl, rfl, rfl, rfl, rfl⟩
    · obtain ⟨hp0, hp1⟩ := popNext_spec h
      have hne : m.queue ≠ [] := by
        intro he
        have := h.same.length_eq
        rw [he, ← len_eq] at this
        exact hlen this
      obtain ⟨v, rest, hq⟩ := List.exists_cons_of_ne_nil hne
      obtain ⟨p1, p2, p3, p4, p5, p6, p7, p8, p9⟩ := hp1 v rest hq
      have hvc : Canon u v := h.canon v (by simp [hq])
      rcases hpop : m.popNext with ⟨m1, _ | item⟩
      · rw [hpop] at p1; cases p1
      · rw [hpop] at p1 p2 p3 p4 p5 p6 p7 p8 p9; cases p1
        simp only at p2 p3 p4 p5 p6 p7 p8 p9
        have hres' : ∀ x, x ∈ (if (ans.headD ⟨false, false, false⟩).restore then res ++ [v] else res) → Canon u x := by
          intro x hx
          split at hx
          · rcases List.mem_append.1 hx with h' | h'
            · exact hr x h'
            · simp at h'; subst h'; exact hvc
          · exact hr x hx
        simp only [State.topLoop, hlen, if_false, hpop]
        split
        · refine ⟨p3, hres', ⟨1, by simp [hq, p2]⟩, p4, p5, p6, p7, p8, p9⟩
        · obtain ⟨i1, i2, ⟨k, i3, i3'⟩, i4, i5, i6, i7, i8, i9⟩ := ih m1 ans.tail (vis ++ [v]) _ p3 hres'
          refine ⟨i1, i2, ⟨k + 1, ?_, ?_⟩, i4.trans p4, i5.trans p5, i6.trans p6, i7.trans p7, i8.trans p8, i9.trans p9⟩
          · rw [i3, p2, hq]; simp
          · rw [i3', p2, hq]; simp


/-- every item mentioned by the operation is the universe's item for its ID -/
def Op.WF (u : ID → Item) : Op → Prop
  | .add items => ∀ x, x ∈ items → Canon u x
  | .remove items => ∀ x, x ∈ items → Canon u x
  | .finishStreaming r => ∀ x, x ∈ r → Canon u x
  | _ => True

theorem MInv.stream_ok {u m} (h : MInv u m) :
    ∀ l, m.streamed = some l → (∀ x, x ∈ m.queue → x.id ∉ l) ∧ l.Nodup :=
  fun l hl => ⟨h.sDisj l hl, h.sNodup l hl⟩

theorem addAll_fields (m : State) (front : Bool) (items : List Item) :
    (m.addAll front items).streamed = m.streamed ∧ (m.addAll front items).nextStream = m.nextStream ∧
    (m.addAll front items).nextStreamFetched = m.nextStreamFetched ∧
    (m.addAll front items).streamLocked = m.streamLocked ∧
    (m.addAll front items).maxSize = m.maxSize ∧ (m.addAll front items).maxSponsor = m.maxSponsor := by
  induction items generalizing m with
  | nil => exact ⟨rfl, rfl, rfl, rfl, rfl, rfl⟩
  | cons x rest ih =>
    simp only [State.addAll, List.foldl_cons]
    have := ih (m.add1 front x)
    simp only [State.addAll] at this
    rcases add1_cases m front x with he | ⟨he, _⟩ <;> rw [he] at this ⊢ <;> exact this

theorem prepareStream_inv {u m} (h : MInv u m) (n : Nat) : MInv u (m.prepareStream n) := by
  obtain ⟨i1, i2, i3, i4, i5, i6, i7, i8, i9⟩ := streamItems_spec (u := u) n m [] h
  have hc : ∀ x, x ∈ (State.streamItems n m []).2 → Canon u x := by
    intro x hx; rw [i1] at hx
    exact h.canon x (List.mem_of_mem_take (by simpa using hx))
  exact i3.setStream _ _ _ true i3.stream_ok hc

theorem stream_inv {u m} (h : MInv u m) (n : Nat) : MInv u (m.stream n).1 := by
  unfold State.stream
  split
  · exact h.setStream _ _ [] false h.stream_ok (by simp)
  · exact (streamItems_spec (u := u) n m [] h).2.2.1

theorem finishStreaming_inv {u m} (h : MInv u m) (r : List Item) (hr : ∀ x, x ∈ r → Canon u x)
    (m' : State) (k : Nat) (hf : m.finishStreaming r = some (m', k)) : MInv u m' := by
  unfold State.finishStreaming at hf
  split at hf
  · cases hf
  · have h0 : MInv u ({ m with streamed := none } : State) :=
      h.setStream m.streamLocked none m.nextStream m.nextStreamFetched (by simp) h.nextCanon
    have h1 := addAll_inv h0 true r hr
    simp only at hf
    split at hf
    · cases hf
      have h2 := addAll_inv h1 true _ h1.nextCanon
      exact h2.setStream false _ [] false h2.stream_ok (by simp)
    · cases hf
      exact h1.setStream false _ _ _ h1.stream_ok h1.nextCanon

theorem top_inv {u m} (h : MInv u m) (ans : List Answer) : MInv u (m.top ans).1 := by
  obtain ⟨i1, i2, _⟩ := topLoop_spec (u := u) m.eh.len m ans [] [] h (by simp)
  exact addAll_inv i1 true _ i2

theorem step_inv {u m} (h : MInv u m) (op : Op) (hw : op.WF u) : MInv u (m.step op).1 := by
  cases op with
  | add items => exact addAll_inv h false items hw
  | remove items => exact remove_inv h items hw
  | setMin t => exact (setMinTimestamp_spec h t).1
  | popNext =>
    obtain ⟨hp0, hp1⟩ := popNext_spec h
    cases hq : m.queue with
    | nil => simp only [State.step, hp0 hq]; exact h
    | cons v rest => exact (hp1 v rest hq).2.2.1
  | peekNext => exact h
  | has id => exact h
  | len => exact h
  | size => exact h
  | startStreaming =>
    simp only [State.step, State.startStreaming]
    split
    · rename_i m' hm
      split at hm
      · cases hm
      · cases hm
        exact h.setStream true (some []) _ _ (by simp) h.nextCanon
    · exact h
  | prepareStream n => exact prepareStream_inv h n
  | stream n => exact stream_inv h n
  | finishStreaming r =>
    simp only [State.step]
    split
    · rename_i m' k hf; exact finishStreaming_inv h r hw m' k hf
    · exact h
  | top ans => exact top_inv h ans

theorem run_inv {u m} (h : MInv u m) (ops : List Op) (hw : ∀ op, op ∈ ops → op.WF u) : MInv u (m.run ops) := by
  induction ops generalizing m with
  | nil => exact h
  | cons op rest ih =>
    simp only [State.run, List.foldl_cons]
    exact ih (step_inv h op (hw op (by simp))) (fun o ho => hw o (by simp [ho]))

/-- `L m m'`: the limits are untouched -/
def L (m m' : State) : Prop := m'.maxSize = m.maxSize ∧ m'.maxSponsor = m.maxSponsor

theorem L.refl (m : State) : L m m := ⟨rfl, rfl⟩
theorem L.trans {a b c : State} (h1 : L a b) (h2 : L b c) : L a c := ⟨h2.1.trans h1.1, h2.2.trans h1.2⟩

theorem addAll_L (m : State) (front : Bool) (items : List Item) : L m (m.addAll front items) :=
  ⟨(addAll_fields m front items).2.2.2.2.1, (addAll_fields m front items).2.2.2.2.2⟩

theorem popNext_L (m : State) : L m (m.popNext).1 := by
  unfold State.popNext; split <;> exact ⟨rfl, rfl⟩

theorem remove1_L (m : State) (x : Item) : L m (m.remove1 x) := by
  unfold State.remove1; split <;> exact ⟨rfl, rfl⟩

theorem remove_L (m : State) (items : List Item) : L m (m.remove items) := by
  induction items generalizing m with
  | nil => exact L.refl m
  | cons x rest ih => exact (remove1_L m x).trans (ih (m.remove1 x))

theorem dropAll_L (m : State) (out : List Item) : L m (dropAll m out) := by
  induction out generalizing m with
  | nil => exact L.refl m
  | cons x rest ih => exact (show L m (dropQ m x) from ⟨rfl, rfl⟩).trans (ih (dropQ m x))

theorem streamItems_L (n : Nat) (m : State) (txs : List Item) : L m (State.streamItems n m txs).1 := by
  induction n generalizing m txs with
  | zero => exact L.refl m
  | succ n ih =>
    unfold State.streamItems
    have hp := popNext_L m
    split
    · exact L.refl m
    · rename_i m1 item heq
      rw [heq] at hp
      exact hp.trans ((show L m1 { m1 with streamed := streamedAdd m1.streamed item.id } from ⟨rfl, rfl⟩).trans (ih _ _))

theorem topLoop_L (fuel : Nat) (m : State) (ans : List Answer) (vis res : List Item) :
    L m (State.topLoop fuel m ans vis res).1 := by
  induction fuel generalizing m ans vis res with
  | zero => exact L.refl m
  | succ fuel ih =>
    unfold State.topLoop
    have hp := popNext_L m
    split
    · exact L.refl m
    · split
      · rename_i m1 heq; rw [heq] at hp; exact hp
      · rename_i m1 next heq
        rw [heq] at hp
        simp only
        split
        · exact hp
        · exact hp.trans (ih _ _ _ _)

theorem step_limits (m : State) (op : Op) : L m (m.step op).1 := by
  cases op with
  | add items => exact addAll_L m false items
  | remove items => exact remove_L m items
  | setMin t =>
    simp only [State.step, setMinTimestamp_eq]
    exact (show L m { m with eh := (m.eh.setMin t).1 } from ⟨rfl, rfl⟩).trans (dropAll_L _ _)
  | popNext => exact popNext_L m
  | peekNext => exact L.refl m
  | has id => exact L.refl m
  | len => exact L.refl m
  | size => exact L.refl m
  | startStreaming =>
    simp only [State.step, State.startStreaming]
    split
    · rename_i m' hm
      split at hm
      · cases hm
      · cases hm; exact ⟨rfl, rfl⟩
    · exact L.refl m
  | prepareStream n => exact (streamItems_L n m []).trans ⟨rfl, rfl⟩
  | stream n =>
    simp only [State.step, State.stream]
    split
    · exact ⟨rfl, rfl⟩
    · exact streamItems_L n m []
  | finishStreaming r =>
    simp only [State.step]
    split
    · rename_i m' k hf
      unfold State.finishStreaming at hf
      split at hf
      · cases hf
      · simp only at hf
        have l1 := addAll_L ({ m with streamed := none } : State) true r
        split at hf
        · cases hf
          exact (show L m { m with streamed := none } from ⟨rfl, rfl⟩).trans (l1.trans ((addAll_L _ true _).trans ⟨rfl, rfl⟩))
        · cases hf
          exact (show L m { m with streamed := none } from ⟨rfl, rfl⟩).trans (l1.trans ⟨rfl, rfl⟩)
    · exact L.refl m
  | top ans =>
    simp only [State.step, State.top]
    exact (topLoop_L _ m ans [] []).trans (addAll_L _ true _)

theorem run_limits (m : State) (ops : List Op) : L m (m.run ops) := by
  induction ops generalizing m with
  | nil => exact L.refl m
  | cons op rest ih => exact (step_limits m op).trans (ih _)

/-- FIFO part 1: `add` appends the accepted items (a sublist of the given ones, in order) at the back. -/
theorem addAll_back_shape (m : State) (items : List Item) :
    ∃ acc : List Item, acc.Sublist items ∧ (m.addAll false items).queue = m.queue ++ acc := by
  induction items generalizing m with
  | nil => exact ⟨[], List.Sublist.refl _, by simp [State.addAll]⟩
  | cons x rest ih =>
    simp only [State.addAll, List.foldl_cons]
    obtain ⟨acc, hs, hq⟩ := ih (m.add1 false x)
    simp only [State.addAll] at hq
    rcases add1_cases m false x with he | ⟨he, _⟩
    · rw [he] at hq; exact ⟨acc, hs.trans (List.sublist_cons_self x rest), by rw [he]; exact hq⟩
    · refine ⟨x :: acc, hs.cons_cons x, ?_⟩
      rw [hq, he]; simp

/-- FIFO part 2: give-backs (`finishStreaming`, `top`) go to the front; the accepted ones (a sublist
of the give-back list) end up in reverse give-back order, before everything else. -/
theorem addAll_front_shape (m : State) (items : List Item) :
    ∃ acc : List Item, acc.Sublist items ∧ (m.addAll true items).queue = acc.reverse ++ m.queue := by
  induction items generalizing m with
  | nil => exact ⟨[], List.Sublist.refl _, by simp [State.addAll]⟩
  | cons x rest ih =>
    simp only [State.addAll, List.foldl_cons]
    obtain ⟨acc, hs, hq⟩ := ih (m.add1 true x)
    simp only [State.addAll] at hq
    rcases add1_cases m true x with he | ⟨he, _⟩
    · rw [he] at hq; exact ⟨acc, hs.trans (List.sublist_cons_self x rest), by rw [he]; exact hq⟩
    · refine ⟨x :: acc, hs.cons_cons x, ?_⟩
      rw [hq, he]; simp
end HyperModel.Mempool
