import HyperModel.Model.Fees
/-! Lemmas for C13: 128-bit `mulDivDiv`, the exact-arithmetic price rule, window sums. -/
namespace HyperModel.FeesProofs
open HyperModel.Window HyperModel.Fees

theorem two64_pos : 0 < two64 := by decide
theorem maxU64_eq : maxU64 = two64 - 1 := rfl
theorem maxU64_lt : maxU64 < two64 := by decide

/-- `(c*k + m) / c = k + m / c` and the 128-by-64 long division used by `mulDivDiv` -/
theorem long_div (P c T : Nat) (hc : 0 < c) (hT : 0 < T) :
    let hi := P / T
    let lo := P % T
    P / c = (hi / c) * T + ((hi % c) * T + lo) / c ∧ ((hi % c) * T + lo) / c < T := by
  intro hi lo
  have h1 : P = T * hi + lo := (Nat.div_add_mod P T).symm
  have h2 : hi = c * (hi / c) + hi % c := (Nat.div_add_mod hi c).symm
  have hlo : lo < T := Nat.mod_lt _ hT
  have hr : hi % c < c := Nat.mod_lt _ hc
  have hm : (hi % c) * T + lo < c * T := by
    have : (hi % c + 1) * T ≤ c * T := Nat.mul_le_mul_right T hr
    rw [Nat.add_mul, Nat.one_mul] at this
    omega
  have hP : P = c * ((hi / c) * T) + ((hi % c) * T + lo) := by
    have : T * hi = c * ((hi / c) * T) + (hi % c) * T := by
      conv => lhs; rw [h2]
      rw [Nat.mul_add, Nat.mul_comm T (c * (hi / c)), Nat.mul_assoc, Nat.mul_comm T (hi % c)]
    omega
  constructor
  · conv => lhs; rw [hP]
    exact Nat.mul_add_div hc _ _
  · exact Nat.div_lt_of_lt_mul hm

/-- the repaired helper computes `⌊⌊a·b/c⌋/d⌋`, saturated at `MaxUint64`, for all naturals -/
theorem mulDivDiv_spec (a b c d : Nat) (hc : 0 < c) (hd : 0 < d) :
    mulDivDiv a b c d = some (min (a * b / c / d) maxU64) := by
  have hT := two64_pos
  obtain ⟨hQ, hqlo⟩ := long_div (a * b) c two64 hc hT
  unfold mulDivDiv mul64 div64
  simp only [Nat.ne_of_gt hc, if_false, Nat.ne_of_gt hd, ne_eq, not_false_eq_true, true_and]
  rw [Nat.mod_eq_of_lt hqlo, ← hQ]
  by_cases hge : a * b / two64 / c ≥ d
  · simp only [hge, if_true]
    have hle : two64 * d ≤ a * b / c := by
      rw [hQ]
      have : d * two64 ≤ (a * b / two64 / c) * two64 := Nat.mul_le_mul_right _ hge
      rw [Nat.mul_comm two64 d]
      exact Nat.le_trans this (Nat.le_add_right _ _)
    have : two64 ≤ a * b / c / d := (Nat.le_div_iff_mul_le hd).mpr hle
    have hm := maxU64_lt
    rw [Nat.min_def]
    split <;> first | rfl | omega
  · simp only [hge, if_false]
    have hlt : a * b / c < d * two64 := by
      rw [hQ]
      have : (a * b / two64 / c + 1) * two64 ≤ d * two64 := Nat.mul_le_mul_right _ (by omega)
      rw [Nat.add_mul, Nat.one_mul] at this
      omega
    have hq : a * b / c / d < two64 := Nat.div_lt_of_lt_mul hlt
    rw [Nat.mod_eq_of_lt hq]
    have hm := maxU64_eq
    rw [Nat.min_def]
    split <;> first | rfl | omega

theorem mulDivDiv_zero_target (a b d : Nat) : mulDivDiv a b 0 d = none := by
  simp [mulDivDiv]

theorem mulDivDiv_zero_denom (a b c : Nat) (hc : 0 < c) : mulDivDiv a b c 0 = none := by
  simp [mulDivDiv, Nat.ne_of_gt hc, mul64]

/-! ### exact rule -/

/-- the proportional change `max 1 ⌊⌊price·delta/target⌋/denom⌋` -/
def baseDelta (price delta target denom : Nat) : Nat := max 1 (price * delta / target / denom)

/-- the fee-market rule in exact (unbounded) arithmetic -/
def specNext (total price target denom minPrice since : Nat) : Nat :=
  let p :=
    if total > target then min (price + baseDelta price (total - target) target denom) maxU64
    else if total < target then
      price - baseDelta price (target - total) target denom *
        (if since > windowSize then since / windowSize else 1)
    else price
  max p minPrice

theorem baseDelta_pos (p dl t d : Nat) : 1 ≤ baseDelta p dl t d := Nat.le_max_left _ _

theorem baseDelta_mono {p t d dl1 dl2 : Nat} (h : dl1 ≤ dl2) :
    baseDelta p dl1 t d ≤ baseDelta p dl2 t d := by
  unfold baseDelta
  have : p * dl1 / t / d ≤ p * dl2 / t / d :=
    Nat.div_le_div_right (Nat.div_le_div_right (Nat.mul_le_mul_left p h))
  omega

/-- in the decreasing branch the proportional change never exceeds the price -/
theorem decrease_le_price {p dl t d : Nat} (ht : 0 < t) (hdl : dl ≤ t) :
    p * dl / t / d ≤ p := by
  have h1 : p * dl / t ≤ p := by
    have : p * dl ≤ p * t := Nat.mul_le_mul_left p hdl
    calc p * dl / t ≤ p * t / t := Nat.div_le_div_right this
      _ = p := Nat.mul_div_cancel _ ht
  exact Nat.le_trans (Nat.div_le_self _ _) h1

/-- increasing branch, the arithmetic after `mulDivDiv` (all linear) -/
theorem inc_arith (price X minPrice : Nat) (hp : price < two64) (hX0 : price = 0 → X = 0) :
    (if (if (if (min X maxU64) < 1 then 1 else min X maxU64) + price < two64 ∧ True then
          price + (if (min X maxU64) < 1 then 1 else min X maxU64) else maxU64) < minPrice
      then minPrice
      else (if (if (min X maxU64) < 1 then 1 else min X maxU64) + price < two64 ∧ True then
          price + (if (min X maxU64) < 1 then 1 else min X maxU64) else maxU64))
    = max (min (price + max 1 X) maxU64) minPrice := by
  have hm := maxU64_eq
  have hT := two64_pos
  simp only [Nat.min_def, Nat.max_def, and_true]
  by_cases hp0 : price = 0
  · have := hX0 hp0
    subst hp0; subst this
    repeat' split
    all_goals omega
  · repeat' split
    all_goals omega

/-- decreasing branch with elapsed-time scaling, the arithmetic after the 128-bit product -/
theorem dec_arith (price Y minPrice : Nat) (hp : price < two64) :
    (if (if price < (if Y / two64 ≠ 0 then maxU64 else Y % two64) then 0
          else price - (if Y / two64 ≠ 0 then maxU64 else Y % two64)) < minPrice
      then minPrice
      else (if price < (if Y / two64 ≠ 0 then maxU64 else Y % two64) then 0
          else price - (if Y / two64 ≠ 0 then maxU64 else Y % two64)))
    = max (price - Y) minPrice := by
  have h64 : two64 = 18446744073709551616 := by decide
  have hm : maxU64 = 18446744073709551615 := by decide
  simp only [Nat.max_def, h64, hm, ne_eq] at *
  repeat' split
  all_goals omega

theorem nextPrice_eq_spec (total price target denom minPrice since : Nat)
    (hp : price < two64) (ht : 0 < target) (hd : 0 < denom) :
    nextPrice total price target denom minPrice since
      = some (specNext total price target denom minPrice since) := by
  have hm := maxU64_eq
  have hT := two64_pos
  unfold nextPrice specNext
  by_cases h1 : total > target
  · simp only [h1, if_true, mulDivDiv_spec _ _ _ _ ht hd]
    congr 1
    unfold baseDelta
    have hX0 : price = 0 → price * (total - target) / target / denom = 0 := by
      intro h; subst h; simp
    generalize price * (total - target) / target / denom = X at hX0
    have := inc_arith price X minPrice hp hX0
    simp only [and_true] at this
    rw [← this]
    simp only [Nat.add_comm]
  · by_cases h2 : total < target
    · simp only [h1, h2, if_true, if_false, mulDivDiv_spec _ _ _ _ ht hd, mul64]
      congr 1
      unfold baseDelta
      have hX : price * (target - total) / target / denom ≤ price :=
        decrease_le_price ht (Nat.sub_le _ _)
      generalize price * (target - total) / target / denom = X at hX
      have hB : (if min X maxU64 < 1 then 1 else min X maxU64) = max 1 X := by
        simp only [Nat.min_def, Nat.max_def]
        repeat' split
        all_goals omega
      rw [hB]
      have hB1 : 1 ≤ max 1 X := Nat.le_max_left _ _
      have hB2 : max 1 X ≤ max 1 price := by omega
      generalize max 1 X = B at hB1 hB2
      have h64 : two64 = 18446744073709551616 := by decide
      by_cases hs : since > windowSize
      · simp only [hs, if_true]
        exact dec_arith price (B * (since / windowSize)) minPrice hp
      · simp only [hs, if_false, Nat.mul_one]
        simp only [Nat.max_def, h64, hm] at *
        repeat' split
        all_goals omega
    · simp only [h1, h2, if_false]
      congr 1
      rw [Nat.max_def]; split <;> split <;> omega

theorem clamp_ge (x m : Nat) : m ≤ (if x < m then m else x) := by split <;> omega

theorem nextPrice_ge_min (total price target denom minPrice since p : Nat)
    (h : nextPrice total price target denom minPrice since = some p) : minPrice ≤ p := by
  unfold nextPrice at h
  simp only at h
  split at h
  · split at h
    · cases h
    · injection h with h; subst h; exact clamp_ge _ _
  · split at h
    · split at h
      · cases h
      · injection h with h; subst h; exact clamp_ge _ _
    · injection h with h; subst h; exact clamp_ge _ _

theorem specNext_mono (t1 t2 price target denom minPrice since : Nat) (h : t1 ≤ t2)
    (hp : price ≤ maxU64) :
    specNext t1 price target denom minPrice since ≤ specNext t2 price target denom minPrice since := by
  unfold specNext
  have hI : baseDelta price (t1 - target) target denom ≤ baseDelta price (t2 - target) target denom :=
    baseDelta_mono (Nat.sub_le_sub_right h _)
  have hD : baseDelta price (target - t2) target denom * (if since > windowSize then since / windowSize else 1)
      ≤ baseDelta price (target - t1) target denom * (if since > windowSize then since / windowSize else 1) :=
    Nat.mul_le_mul_right _ (baseDelta_mono (Nat.sub_le_sub_left h _))
  generalize baseDelta price (t1 - target) target denom = I1 at hI
  generalize baseDelta price (t2 - target) target denom = I2 at hI
  generalize baseDelta price (target - t2) target denom * (if since > windowSize then since / windowSize else 1) = D2 at hD
  generalize baseDelta price (target - t1) target denom * (if since > windowSize then since / windowSize else 1) = D1 at hD
  simp only [Nat.max_def, Nat.min_def]
  repeat' split
  all_goals omega

theorem specNext_lt (total price target denom minPrice since : Nat)
    (hp : price < two64) (hmin : minPrice < two64) :
    specNext total price target denom minPrice since < two64 := by
  have hm := maxU64_eq
  have hT := two64_pos
  unfold specNext
  generalize baseDelta price (total - target) target denom = I
  generalize baseDelta price (target - total) target denom * (if since > windowSize then since / windowSize else 1) = D
  simp only [Nat.max_def, Nat.min_def]
  repeat' split
  all_goals omega

/-- above target the price rises by at least one (saturating), below it falls by at least
one (down to 0 / the minimum), at target it is unchanged -/
theorem specNext_direction (total price target denom minPrice since : Nat) (hp : price ≤ maxU64) :
    (total > target → specNext total price target denom minPrice since ≥ max (min (price + 1) maxU64) minPrice) ∧
    (total < target → specNext total price target denom minPrice since ≤ max (price - 1) minPrice) ∧
    (total = target → specNext total price target denom minPrice since = max price minPrice) := by
  unfold specNext
  have h1 := baseDelta_pos price (total - target) target denom
  have h2 : 1 ≤ baseDelta price (target - total) target denom * (if since > windowSize then since / windowSize else 1) := by
    have hb := baseDelta_pos price (target - total) target denom
    have hk : 1 ≤ (if since > windowSize then since / windowSize else 1) := by
      split
      · rename_i hs
        exact (Nat.le_div_iff_mul_le (by decide)).mpr (by simp only [windowSize] at *; omega)
      · exact Nat.le_refl _
    exact Nat.mul_le_mul hb hk
  generalize baseDelta price (total - target) target denom = I at h1
  generalize baseDelta price (target - total) target denom * (if since > windowSize then since / windowSize else 1) = D at h2
  refine ⟨?_, ?_, ?_⟩ <;> intro h <;> simp only [Nat.max_def, Nat.min_def] <;> repeat' split
  all_goals omega

/-! ### windows -/

theorem slot_map_range (f : Nat → Nat) {i : Nat} (hi : i < windowSize) :
    slot ((List.range windowSize).map f) i = f i := by
  unfold slot
  simp [List.getD_eq_getElem?_getD, hi]

theorem map_sum_le {l : List Nat} {f g : Nat → Nat} (h : ∀ i ∈ l, f i ≤ g i) :
    (l.map f).sum ≤ (l.map g).sum := by
  induction l with
  | nil => simp
  | cons x xs ih =>
    simp only [List.map_cons, List.sum_cons]
    have := h x (List.mem_cons_self ..)
    have := ih (fun i hi => h i (List.mem_cons_of_mem _ hi))
    omega

theorem sumLoop_eq (xs : List Nat) (s : Nat) (hs : s < two64) :
    sumLoop xs s = min (s + xs.sum) maxU64 := by
  have hm := maxU64_eq
  induction xs generalizing s with
  | nil => simp only [sumLoop, List.sum_nil, Nat.add_zero]; rw [Nat.min_def]; split <;> omega
  | cons x xs ih =>
    unfold sumLoop
    split
    · rename_i h
      rw [ih _ h, List.sum_cons, Nat.add_assoc]
    · rw [List.sum_cons, Nat.min_def]; split <;> omega

/-- exact (unbounded) sum of the slots -/
def exactSum (w : Window) : Nat := ((List.range windowSize).map (slot w)).sum

theorem sum_eq (w : Window) : sum w = min (exactSum w) maxU64 := by
  unfold sum exactSum
  rw [sumLoop_eq _ 0 two64_pos, Nat.zero_add]

theorem sum_mono {w1 w2 : Window} (h : ∀ i, i < windowSize → slot w1 i ≤ slot w2 i) :
    sum w1 ≤ sum w2 := by
  rw [sum_eq, sum_eq]
  have : exactSum w1 ≤ exactSum w2 := map_sum_le (fun i hi => h i (List.mem_range.mp hi))
  simp only [Nat.min_def]
  repeat' split
  all_goals omega

theorem slot_zeros (i : Nat) : slot zeros i = 0 := by
  unfold slot zeros
  simp [List.getD_eq_getElem?_getD, List.getElem?_replicate]
  split <;> simp

theorem slot_roll (w : Window) (r : Nat) {i : Nat} (hi : i < windowSize) :
    slot (roll w r) i = if r ≤ windowSize ∧ i + r < windowSize then slot w (i + r) else 0 := by
  unfold roll
  by_cases hr : r > windowSize
  · simp only [hr, if_true, slot_zeros]
    split
    · omega
    · rfl
  · simp only [hr, if_false, slot_map_range _ hi]
    have : r ≤ windowSize := by omega
    simp [this]

theorem slot_update (w : Window) (j v : Nat) {i : Nat} (hi : i < windowSize) :
    slot (update w j v) i = if i = j then min (slot w j + v) maxU64 else slot w i := by
  have hm := maxU64_eq
  unfold update
  rw [slot_map_range _ hi]
  split
  · rw [Nat.min_def]; split <;> split <;> omega
  · rfl

theorem nextWindow_mono {w1 w2 : Window} {c1 c2 : Nat} (since : Nat)
    (h : ∀ i, i < windowSize → slot w1 i ≤ slot w2 i) (hc : c1 ≤ c2) :
    ∀ i, i < windowSize → slot (nextWindow w1 c1 since) i ≤ slot (nextWindow w2 c2 since) i := by
  intro i hi
  have hroll : ∀ k, k < windowSize → slot (roll w1 since) k ≤ slot (roll w2 since) k := by
    intro k hk
    rw [slot_roll _ _ hk, slot_roll _ _ hk]
    split
    · rename_i hh; exact h _ hh.2
    · exact Nat.le_refl _
  unfold nextWindow
  simp only
  split
  · rw [slot_update _ _ _ hi, slot_update _ _ _ hi]
    split
    · have := hroll (windowSize - 1 - since) (by simp only [windowSize] at *; omega)
      simp only [Nat.min_def]
      repeat' split
      all_goals omega
    · exact hroll i hi
  · exact hroll i hi

/-! ### byte layout -/

theorem toNat_ofNat_mod (x : Nat) : (UInt8.ofNat (x % 256)).toNat = x % 256 := by
  simp [UInt8.toNat_ofNat']

theorem bytesToWords_be64 (n : Nat) (h : n < two64) (rest : List UInt8) :
    bytesToWords (be64 n ++ rest) = n :: bytesToWords rest := by
  have h64 : two64 = 18446744073709551616 := by decide
  rw [h64] at h
  simp only [be64, List.cons_append, List.nil_append, bytesToWords, readBE64, toNat_ofNat_mod]
  congr 1
  omega

theorem ofNat_toNat (b : UInt8) : UInt8.ofNat b.toNat = b := by simp

theorem be64_readBE64 (a b c d e f g h : UInt8) :
    be64 (readBE64 a b c d e f g h) = [a, b, c, d, e, f, g, h] := by
  have ha := a.toNat_lt; have hb := b.toNat_lt; have hc := c.toNat_lt; have hd := d.toNat_lt
  have he := e.toNat_lt; have hf := f.toNat_lt; have hg := g.toNat_lt; have hh := h.toNat_lt
  unfold be64 readBE64
  have e1 : (a.toNat * 2 ^ 56 + b.toNat * 2 ^ 48 + c.toNat * 2 ^ 40 + d.toNat * 2 ^ 32 + e.toNat * 2 ^ 24 + f.toNat * 2 ^ 16 + g.toNat * 2 ^ 8 + h.toNat) / 2 ^ 56 % 256 = a.toNat := by omega
  have e2 : (a.toNat * 2 ^ 56 + b.toNat * 2 ^ 48 + c.toNat * 2 ^ 40 + d.toNat * 2 ^ 32 + e.toNat * 2 ^ 24 + f.toNat * 2 ^ 16 + g.toNat * 2 ^ 8 + h.toNat) / 2 ^ 48 % 256 = b.toNat := by omega
  have e3 : (a.toNat * 2 ^ 56 + b.toNat * 2 ^ 48 + c.toNat * 2 ^ 40 + d.toNat * 2 ^ 32 + e.toNat * 2 ^ 24 + f.toNat * 2 ^ 16 + g.toNat * 2 ^ 8 + h.toNat) / 2 ^ 40 % 256 = c.toNat := by omega
  have e4 : (a.toNat * 2 ^ 56 + b.toNat * 2 ^ 48 + c.toNat * 2 ^ 40 + d.toNat * 2 ^ 32 + e.toNat * 2 ^ 24 + f.toNat * 2 ^ 16 + g.toNat * 2 ^ 8 + h.toNat) / 2 ^ 32 % 256 = d.toNat := by omega
  have e5 : (a.toNat * 2 ^ 56 + b.toNat * 2 ^ 48 + c.toNat * 2 ^ 40 + d.toNat * 2 ^ 32 + e.toNat * 2 ^ 24 + f.toNat * 2 ^ 16 + g.toNat * 2 ^ 8 + h.toNat) / 2 ^ 24 % 256 = e.toNat := by omega
  have e6 : (a.toNat * 2 ^ 56 + b.toNat * 2 ^ 48 + c.toNat * 2 ^ 40 + d.toNat * 2 ^ 32 + e.toNat * 2 ^ 24 + f.toNat * 2 ^ 16 + g.toNat * 2 ^ 8 + h.toNat) / 2 ^ 16 % 256 = f.toNat := by omega
  have e7 : (a.toNat * 2 ^ 56 + b.toNat * 2 ^ 48 + c.toNat * 2 ^ 40 + d.toNat * 2 ^ 32 + e.toNat * 2 ^ 24 + f.toNat * 2 ^ 16 + g.toNat * 2 ^ 8 + h.toNat) / 2 ^ 8 % 256 = g.toNat := by omega
  have e8 : (a.toNat * 2 ^ 56 + b.toNat * 2 ^ 48 + c.toNat * 2 ^ 40 + d.toNat * 2 ^ 32 + e.toNat * 2 ^ 24 + f.toNat * 2 ^ 16 + g.toNat * 2 ^ 8 + h.toNat) % 256 = h.toNat := by omega
  rw [e1, e2, e3, e4, e5, e6, e7, e8]
  simp

theorem bytesToWords_wordsToBytes (ws : Raw) (h : ∀ w ∈ ws, w < two64) :
    bytesToWords (wordsToBytes ws) = ws := by
  induction ws with
  | nil => rfl
  | cons w ws ih =>
    simp only [wordsToBytes]
    rw [bytesToWords_be64 w (h w (List.mem_cons_self ..)), ih (fun x hx => h x (List.mem_cons_of_mem _ hx))]

theorem wordsToBytes_bytesToWords : ∀ (bs : List UInt8), bs.length % 8 = 0 →
    wordsToBytes (bytesToWords bs) = bs
  | [], _ => rfl
  | [_], h => by simp at h
  | [_, _], h => by simp at h
  | [_, _, _], h => by simp at h
  | [_, _, _, _], h => by simp at h
  | [_, _, _, _, _], h => by simp at h
  | [_, _, _, _, _, _], h => by simp at h
  | [_, _, _, _, _, _, _], h => by simp at h
  | a :: b :: c :: d :: e :: f :: g :: h :: rest, hl => by
    have hr : rest.length % 8 = 0 := by
      simp only [List.length_cons] at hl; omega
    simp only [bytesToWords, wordsToBytes, be64_readBE64, wordsToBytes_bytesToWords rest hr]
    rfl

theorem bytesToWords_lt : ∀ (bs : List UInt8), ∀ w ∈ bytesToWords bs, w < two64
  | a :: b :: c :: d :: e :: f :: g :: h :: rest, w, hw => by
    simp only [bytesToWords, List.mem_cons] at hw
    rcases hw with rfl | hw
    · have ha := a.toNat_lt; have hb := b.toNat_lt; have hc := c.toNat_lt; have hd := d.toNat_lt
      have he := e.toNat_lt; have hf := f.toNat_lt; have hg := g.toNat_lt; have hh := h.toNat_lt
      have h64 : two64 = 18446744073709551616 := by decide
      rw [h64]; unfold readBE64; omega
    · exact bytesToWords_lt rest w hw
  | [], w, hw => by simp [bytesToWords] at hw
  | [_], w, hw => by simp [bytesToWords] at hw
  | [_, _], w, hw => by simp [bytesToWords] at hw
  | [_, _, _], w, hw => by simp [bytesToWords] at hw
  | [_, _, _, _], w, hw => by simp [bytesToWords] at hw
  | [_, _, _, _, _], w, hw => by simp [bytesToWords] at hw
  | [_, _, _, _, _, _], w, hw => by simp [bytesToWords] at hw
  | [_, _, _, _, _, _, _], w, hw => by simp [bytesToWords] at hw

theorem list10 (w : List Nat) (h : w.length = 10) :
    ∃ a0 a1 a2 a3 a4 a5 a6 a7 a8 a9, w = [a0, a1, a2, a3, a4, a5, a6, a7, a8, a9] := by
  match w, h with
  | [a0, a1, a2, a3, a4, a5, a6, a7, a8, a9], _ => exact ⟨a0, a1, a2, a3, a4, a5, a6, a7, a8, a9, rfl⟩

theorem dimState_ext (d : DimState) (h : d.window.length = windowSize) :
    ∃ p c a0 a1 a2 a3 a4 a5 a6 a7 a8 a9, d = ⟨p, [a0, a1, a2, a3, a4, a5, a6, a7, a8, a9], c⟩ := by
  obtain ⟨p, w, c⟩ := d
  obtain ⟨a0, a1, a2, a3, a4, a5, a6, a7, a8, a9, rfl⟩ := list10 w h
  exact ⟨p, c, a0, a1, a2, a3, a4, a5, a6, a7, a8, a9, rfl⟩

/-- the word layout: decoding the encoding of a well-formed state gives the state back -/
theorem decode_encode (s : FeeState) (h5 : s.dims.length = feeDimensions)
    (hw : ∀ d ∈ s.dims, d.window.length = windowSize) : decode (encode s) = s := by
  obtain ⟨ts, dims⟩ := s
  match dims, h5, hw with
  | [d0, d1, d2, d3, d4], _, hw =>
    obtain ⟨p0, c0, x0, x1, x2, x3, x4, x5, x6, x7, x8, x9, rfl⟩ := dimState_ext d0 (hw _ (by simp))
    obtain ⟨p1, c1, y0, y1, y2, y3, y4, y5, y6, y7, y8, y9, rfl⟩ := dimState_ext d1 (hw _ (by simp))
    obtain ⟨p2, c2, z0, z1, z2, z3, z4, z5, z6, z7, z8, z9, rfl⟩ := dimState_ext d2 (hw _ (by simp))
    obtain ⟨p3, c3, u0, u1, u2, u3, u4, u5, u6, u7, u8, u9, rfl⟩ := dimState_ext d3 (hw _ (by simp))
    obtain ⟨p4, c4, v0, v1, v2, v3, v4, v5, v6, v7, v8, v9, rfl⟩ := dimState_ext d4 (hw _ (by simp))
    rfl

theorem encode_length (s : FeeState) (h5 : s.dims.length = feeDimensions) :
    (encode s).length = rawWords := by
  obtain ⟨ts, dims⟩ := s
  match dims, h5 with
  | [d0, d1, d2, d3, d4], _ => simp [encode, encodeDims, encodeDim, rawWords, feeDimensions, dimWords, windowSize]

theorem getWord_set (r : Raw) (i j v : Nat) (hi : i < r.length) :
    getWord (r.set i v) j = if i = j then v else getWord r j := by
  unfold getWord
  simp only [List.getD_eq_getElem?_getD, List.getElem?_set]
  split
  · rename_i h; subst h; simp
  · rfl

end HyperModel.FeesProofs
