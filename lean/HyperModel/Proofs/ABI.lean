import HyperModel.Model.ABI
/-! Lemmas for C29: the general type-description round trip over nested structs. -/
namespace HyperModel.Proofs.ABI
open HyperModel.ABI

/-- names that `getReflectType` looks up as struct names (Go identifiers other than the
built-in spellings) -/
def goodName (n : Name) : Prop :=
  allPrims.find? (fun p => p.name == n) = none ∧ (n == boolName) = false ∧ (n == addressName) = false ∧
    slicePrefix? n = none ∧ arrayRegex n = none ∧ n ≠ []

def fieldOK (m : FieldMeta) : Prop :=
  m.serialize = true ∧ m.embedded = false ∧ m.jsonTag ≠ some [] ∧ descName m ≠ []

/-- the described field list of supported fields -/
def descF : Fields → List (Name × Name)
  | .nil => []
  | .cons m t r => (descName m, (typeName t).getD []) :: descF r

mutual
/-- the supported fragment: numeric/string primitives, `codec.Address`, slices, arrays and
named structs whose fields are serialised, not embedded, JSON-named by identifiers that stay
distinct after `Title`, and of supported type. -/
inductive SupTy : GoTy → Prop
  | prim (p : Prim) : SupTy (.prim p)
  | address : SupTy .address
  | bool : SupTy .bool
  | slice {t : GoTy} : SupTy t → SupTy (.slice t)
  | array (n : Nat) {t : GoTy} : SupTy t → SupTy (.array n t)
  | struct {n : Name} {fs : Fields} : goodName n →
      namesOK ((descF fs).map fun f => title f.1) = true → SupFields fs → SupTy (.struct n fs)
inductive SupFields : Fields → Prop
  | nil : SupFields .nil
  | cons {m : FieldMeta} {t : GoTy} {r : Fields} :
      fieldOK m → SupTy t → SupFields r → SupFields (.cons m t r)
end

def SupStruct (x : Name × Fields) : Prop :=
  goodName x.1 ∧ namesOK ((descF x.2).map fun f => title f.1) = true ∧ SupFields x.2

theorem structsOfFields_cons {m : FieldMeta} (t : GoTy) (r : Fields) (h : fieldOK m) :
    structsOfFields (.cons m t r) = structsOf t ++ structsOfFields r := by
  obtain ⟨h1, h2, _, _⟩ := h
  cases t <;> simp [structsOfFields, h1, h2]

theorem describeFields_cons {m : FieldMeta} (t : GoTy) (r : Fields) (h : fieldOK m)
    (tn : Name) (b : List (Name × Name)) (ht : typeName t = some tn) (hr : describeFields r = some b) :
    describeFields (.cons m t r) = some ((descName m, tn) :: b) := by
  obtain ⟨h1, h2, _, _⟩ := h
  cases t <;> simp [describeFields, h1, h2, ht, hr]

mutual
theorem supInfoTy : (t : GoTy) → SupTy t →
    (∃ nm, typeName t = some nm ∧ nm ≠ []) ∧ (∀ x ∈ structsOf t, SupStruct x)
  | .prim p, _ => ⟨⟨p.name, rfl, by cases p <;> decide⟩, by simp [structsOf]⟩
  | .address, _ => ⟨⟨addressName, rfl, by decide⟩, by simp [structsOf]⟩
  | .bool, _ => ⟨⟨boolName, rfl, by decide⟩, by simp [structsOf]⟩
  | .named _ _, h => by cases h
  | .ptr _, h => by cases h
  | .map _ _, h => by cases h
  | .slice t, h => by
    cases h with
    | slice ht =>
      obtain ⟨⟨nm, h1, _⟩, h2⟩ := supInfoTy t ht
      exact ⟨⟨'[' :: ']' :: nm, by simp [typeName, h1], by simp⟩, by simpa [structsOf] using h2⟩
  | .array n t, h => by
    cases h with
    | array _ ht =>
      obtain ⟨⟨nm, h1, _⟩, h2⟩ := supInfoTy t ht
      exact ⟨⟨'[' :: (natDigits n ++ ']' :: nm), by simp [typeName, h1], by simp⟩,
        by simpa [structsOf] using h2⟩
  | .struct n fs, h => by
    cases h with
    | struct hg hn hf =>
      obtain ⟨_, h2⟩ := supInfoFields fs hf
      refine ⟨⟨n, by simp [typeName, hg.2.2.2.2.2], hg.2.2.2.2.2⟩, ?_⟩
      intro x hx
      simp only [structsOf, List.mem_cons] at hx
      rcases hx with rfl | hx
      · exact ⟨hg, hn, hf⟩
      · exact h2 x hx
theorem supInfoFields : (fs : Fields) → SupFields fs →
    describeFields fs = some (descF fs) ∧ (∀ x ∈ structsOfFields fs, SupStruct x)
  | .nil, _ => ⟨rfl, by simp [structsOfFields]⟩
  | .cons m t r, h => by
    cases h with
    | cons hm ht hr =>
      obtain ⟨⟨nm, h1, _⟩, h2⟩ := supInfoTy t ht
      obtain ⟨h3, h4⟩ := supInfoFields r hr
      refine ⟨?_, ?_⟩
      · rw [describeFields_cons t r hm nm _ h1 h3]; simp [descF, h1]
      · intro x hx
        rw [structsOfFields_cons t r hm, List.mem_append] at hx
        rcases hx with hx | hx
        · exact h2 x hx
        · exact h4 x hx
end

/-- one ABI entry per struct occurrence -/
def entry (x : Name × Fields) : AType := { name := x.1, fields := descF x.2 }

theorem describeAll_eq : ∀ (U : List (Name × Fields)), (∀ x ∈ U, SupStruct x) →
    describeAll U = some (U.map entry)
  | [], _ => rfl
  | (n, fs) :: r, h => by
    have h1 := (supInfoFields fs (h (n, fs) (List.mem_cons_self ..)).2.2).1
    have h2 := describeAll_eq r (fun x hx => h x (List.mem_cons_of_mem _ hx))
    simp [describeAll, h1, h2, entry]

/-- same-named structs have the same definition -/
def Consistent (U : List (Name × Fields)) : Prop :=
  ∀ n fs fs', (n, fs) ∈ U → (n, fs') ∈ U → fs = fs'

theorem findType_entry (U : List (Name × Fields)) (hc : Consistent U) (n : Name) (fs : Fields) :
    ∀ (V : List (Name × Fields)), (∀ x ∈ V, x ∈ U) → (n, fs) ∈ V → (n, fs) ∈ U →
      findType (V.map entry) n = some (entry (n, fs))
  | [], _, h, _ => by cases h
  | (n0, fs0) :: r, hsub, hm, hu => by
    simp only [findType, List.map_cons, List.find?_cons]
    by_cases hn : n0 = n
    · subst hn
      have : fs0 = fs := hc n0 fs0 fs (hsub _ (List.mem_cons_self ..)) hu
      subst this
      simp [entry]
    · have hne : (entry (n0, fs0)).name ≠ n := by simpa [entry] using hn
      have hb : ((entry (n0, fs0)).name == n) = false := by simpa using hne
      rw [hb]
      have hm' : (n, fs) ∈ r := by
        rcases List.mem_cons.mp hm with h | h
        · cases h; exact absurd rfl hn
        · exact h
      exact findType_entry U hc n fs r (fun x hx => hsub x (List.mem_cons_of_mem _ hx)) hm' hu

theorem shapeFields_cons_plain (m : FieldMeta) (t : GoTy) (r : Fields) (h : m.embedded = false) :
    shapeFields (.cons m t r) =
      .cons { goName := [], jsonTag := some (jsonName m), serialize := m.serialize, embedded := false }
        (shape t) (shapeFields r) := by
  cases t <;> simp [shapeFields, h]

theorem jsonName_eq_descName (m : FieldMeta) (h : m.jsonTag ≠ some []) : jsonName m = descName m := by
  rcases m with ⟨g, tag, s, e⟩
  cases tag with
  | none => rfl
  | some n =>
    cases n with
    | nil => exact absurd rfl h
    | cons c cs => rfl

theorem jsonName_dynMeta (d : Name) (h : d ≠ []) : jsonName (dynMeta d) = d := by
  cases d with
  | nil => exact absurd rfl h
  | cons c cs => rfl

theorem reflect_struct (abi : ABI) (fuel : Nat) (n : Name) (hg : goodName n) (ty : AType)
    (hf : findType abi n = some ty) :
    reflectType abi (fuel + 1) n =
      match mapFields (reflectType abi fuel) ty.fields with
      | .error e => .error e
      | .ok fl =>
        if namesOK (ty.fields.map (fun f => title f.1)) then .ok (.struct [] (Fields.ofList fl))
        else .error .panic := by
  obtain ⟨h1, hb, h2, h3, h4, _⟩ := hg
  simp only [reflectType, h1, hb, h2, h3, h4, hf]
  rfl

/-! ### parsing of printed type names -/

theorem prim_roundtrip (abi : ABI) (fuel : Nat) (p : Prim) :
    reflectType abi (fuel + 1) p.name = .ok (.prim p) := by cases p <;> rfl

theorem address_roundtrip (abi : ABI) (fuel : Nat) :
    reflectType abi (fuel + 1) addressName = .ok .address := by rfl

theorem bool_roundtrip (abi : ABI) (fuel : Nat) :
    reflectType abi (fuel + 1) boolName = .ok .bool := by rfl

theorem slice_roundtrip (abi : ABI) (fuel : Nat) (nm : Name) :
    reflectType abi (fuel + 1) ('[' :: ']' :: nm) = (reflectType abi fuel nm).map .slice := by rfl

theorem takeWhile_digits (ds : List Char) (c : Char) (r : List Char)
    (hd : ∀ d ∈ ds, isDigit d = true) (hc : isDigit c = false) :
    (ds ++ c :: r).takeWhile isDigit = ds ∧ (ds ++ c :: r).dropWhile isDigit = c :: r := by
  induction ds with
  | nil => simp [List.takeWhile, List.dropWhile, hc]
  | cons d ds ih =>
    have h1 := hd d (List.mem_cons_self ..)
    have := ih (fun x hx => hd x (List.mem_cons_of_mem _ hx))
    simp [List.takeWhile, List.dropWhile, h1, this]

theorem natDigits_digits (n : Nat) : ∀ d ∈ natDigits n, isDigit d = true :=
  fun _ hd => Nat.isDigit_of_mem_toDigits (by decide) (by decide) hd

theorem arrayRegex_natDigits (n : Nat) (nm : Name) (hnm : nm ≠ []) :
    arrayRegex ('[' :: (natDigits n ++ ']' :: nm)) = some (n, nm) := by
  have h := takeWhile_digits (natDigits n) ']' nm (natDigits_digits n) (by decide)
  have hne : natDigits n ≠ [] := Nat.toDigits_ne_nil
  simp only [arrayRegex, h.1, h.2]
  simp [hne, hnm, parseNat, natDigits, Nat.ofDigitChars_ten_toDigits]

/-- a decimal number never starts with `]`, so `[n]T` is not mistaken for a slice -/
theorem slicePrefix_array (n : Nat) (nm : Name) :
    slicePrefix? ('[' :: (natDigits n ++ ']' :: nm)) = none := by
  have hne : natDigits n ≠ [] := Nat.toDigits_ne_nil
  cases hds : natDigits n with
  | nil => exact absurd hds hne
  | cons d ds =>
    have hd : isDigit d = true := natDigits_digits n d (by rw [hds]; exact List.mem_cons_self ..)
    have : d ≠ ']' := by intro h; rw [h] at hd; revert hd; decide
    simp [slicePrefix?, this]

theorem array_roundtrip (abi : ABI) (fuel : Nat) (n : Nat) (nm : Name) (hnm : nm ≠ []) :
    reflectType abi (fuel + 1) ('[' :: (natDigits n ++ ']' :: nm)) =
      (reflectType abi fuel nm).map (.array n) := by
  have h1 : allPrims.find? (fun p => p.name == '[' :: (natDigits n ++ ']' :: nm)) = none := by rfl
  have h2 : (('[' :: (natDigits n ++ ']' :: nm)) == addressName) = false := by rfl
  have hb : (('[' :: (natDigits n ++ ']' :: nm)) == boolName) = false := by rfl
  simp only [reflectType, h1, hb, h2, slicePrefix_array, arrayRegex_natDigits n nm hnm]
  rfl


theorem reflect_slice (abi : ABI) (fuel : Nat) (nm : Name) :
    reflectType abi (fuel + 1) ('[' :: ']' :: nm) = (reflectType abi fuel nm).map .slice := by rfl

theorem mem_structsOf_self (n : Name) (fs : Fields) : (n, fs) ∈ structsOf (.struct n fs) := by
  simp [structsOf]

/-! ### the round trip for the supported fragment -/

mutual
theorem rtTy (U : List (Name × Fields)) (hc : Consistent U) : (t : GoTy) → SupTy t →
    (∀ x ∈ structsOf t, x ∈ U) → (fuel : Nat) → depth t ≤ fuel →
    ∃ nm t', typeName t = some nm ∧ reflectType (U.map entry) fuel nm = .ok t' ∧ shape t' = shape t
  | .prim p, _, _, fuel, hf => by
    cases fuel with
    | zero => simp [depth] at hf
    | succ f => exact ⟨p.name, .prim p, rfl, prim_roundtrip _ f p, rfl⟩
  | .address, _, _, fuel, hf => by
    cases fuel with
    | zero => simp [depth] at hf
    | succ f => exact ⟨addressName, .address, rfl, address_roundtrip _ f, rfl⟩
  | .bool, _, _, fuel, hf => by
    cases fuel with
    | zero => simp [depth] at hf
    | succ f => exact ⟨boolName, .bool, rfl, bool_roundtrip _ f, rfl⟩
  | .named _ _, h, _, _, _ => by cases h
  | .ptr _, h, _, _, _ => by cases h
  | .map _ _, h, _, _, _ => by cases h
  | .slice t, h, hs, fuel, hf => by
    cases h with
    | slice ht =>
      cases fuel with
      | zero => simp [depth] at hf
      | succ f =>
        obtain ⟨nm, t', h1, h2, h3⟩ :=
          rtTy U hc t ht (by simpa [structsOf] using hs) f (by simp [depth] at hf; omega)
        exact ⟨'[' :: ']' :: nm, .slice t', by simp [typeName, h1],
          by rw [slice_roundtrip, h2]; rfl, by simp [shape, h3]⟩
  | .array n t, h, hs, fuel, hf => by
    cases h with
    | array _ ht =>
      cases fuel with
      | zero => simp [depth] at hf
      | succ f =>
        obtain ⟨nm, t', h1, h2, h3⟩ :=
          rtTy U hc t ht (by simpa [structsOf] using hs) f (by simp [depth] at hf; omega)
        obtain ⟨⟨nm', h1', hne⟩, _⟩ := supInfoTy t ht
        rw [h1] at h1'; cases h1'
        exact ⟨'[' :: (natDigits n ++ ']' :: nm), .array n t', by simp [typeName, h1],
          by rw [array_roundtrip _ f n nm hne, h2]; rfl, by simp [shape, h3]⟩
  | .struct n fs, h, hs, fuel, hf => by
    cases h with
    | struct hg hn hfs =>
      cases fuel with
      | zero => simp [depth] at hf
      | succ f =>
        have hmem : (n, fs) ∈ U := hs _ (mem_structsOf_self n fs)
        have hfind := findType_entry U hc n fs U (fun x hx => hx) hmem hmem
        obtain ⟨l, h1, h2⟩ := rtFields U hc fs hfs
          (fun x hx => hs x (by simp [structsOf, hx])) f (by simp [depth] at hf; omega)
        refine ⟨n, .struct [] (Fields.ofList l), by simp [typeName, hg.2.2.2.2.2], ?_, ?_⟩
        · rw [reflect_struct _ f n hg _ hfind]
          simp only [entry, h1, hn, if_true]
        · simp [shape, h2]
theorem rtFields (U : List (Name × Fields)) (hc : Consistent U) : (fs : Fields) → SupFields fs →
    (∀ x ∈ structsOfFields fs, x ∈ U) → (fuel : Nat) → depthFields fs ≤ fuel →
    ∃ l, mapFields (reflectType (U.map entry) fuel) (descF fs) = .ok l ∧
      shapeFields (Fields.ofList l) = shapeFields fs
  | .nil, _, _, _, _ => ⟨[], rfl, rfl⟩
  | .cons m t r, h, hs, fuel, hf => by
    cases h with
    | cons hm ht hr =>
      have hs1 : ∀ x ∈ structsOf t, x ∈ U := fun x hx =>
        hs x (by rw [structsOfFields_cons t r hm]; exact List.mem_append_left _ hx)
      have hs2 : ∀ x ∈ structsOfFields r, x ∈ U := fun x hx =>
        hs x (by rw [structsOfFields_cons t r hm]; exact List.mem_append_right _ hx)
      obtain ⟨nm, t', h1, h2, h3⟩ := rtTy U hc t ht hs1 fuel (by simp [depthFields] at hf; omega)
      obtain ⟨l, h4, h5⟩ := rtFields U hc r hr hs2 fuel (by simp [depthFields] at hf; omega)
      refine ⟨(dynMeta (descName m), t') :: l, ?_, ?_⟩
      · simp [descF, h1, mapFields, h2, h4]
      · simp only [Fields.ofList]
        rw [shapeFields_cons_plain _ _ _ rfl, shapeFields_cons_plain _ _ _ hm.2.1, h3, h5,
          jsonName_dynMeta _ hm.2.2.2, jsonName_eq_descName _ hm.2.2.1]
        simp [dynMeta, hm.1]
end

end HyperModel.Proofs.ABI
