import HyperModel.Model.TState
import HyperModel.Spec.CheckpointMap
/-! Lemmas for C04/C05/C40 about `Model/TState.lean` (refinement to `Spec/CheckpointMap.lean`). -/
set_option linter.unusedSimpArgs false
namespace HyperModel.TStateProofs
open HyperModel.TState HyperModel.Spec HyperModel.Perm

/-- parent storage that is a plain map (never fails) -/
def stoOf (parent : KV) : Key → StoRes := fun k =>
  match parent k with
  | some v => .val v
  | none => .notFound

def NoFail (s : View) : Prop := ∀ k, s.storage k ≠ .fail

/-- the parent map a storage function stands for -/
def parentOf (storage : Key → StoRes) : KV := fun k =>
  match storage k with
  | .val v => some v
  | _ => none

/-- underlying state of a view: block-level changes over the parent -/
def base (s : View) : KV := underlying s.ts.changedKeys (parentOf s.storage)

/-- what the view shows: its own pending changes over the underlying state -/
def vis (s : View) : KV := fun k =>
  match s.pendingChangedKeys k with
  | some x => x
  | none => base s k

theorem parentOf_stoOf (p : KV) : parentOf (stoOf p) = p := by
  funext k; simp only [parentOf, stoOf]; cases p k <;> rfl

theorem noFail_stoOf (p : KV) (ts : TS) (sc) : NoFail (ts.newView sc (stoOf p)) := by
  intro k; simp only [TS.newView, stoOf]; cases p k <;> simp

theorem getValue_eq (s : View) (h : NoFail s) (k : Key) :
    s.getValue k = (match vis s k with | some v => .found v | none => .notFound) := by
  have hk := h k
  simp only [View.getValue, vis, base, underlying, parentOf]
  cases hp : s.pendingChangedKeys k with
  | some x => cases x <;> simp
  | none =>
    cases hc : s.ts.changedKeys k with
    | some x => cases x <;> simp
    | none => cases hs : s.storage k <;> simp_all

theorem isUnchanged_eq (s : View) (h : NoFail s) (k : Key) (nval : Val) (nexists : Bool) :
    ∃ u, s.isUnchanged k nval nexists = some u ∧
      (u = true ↔ base s k = if nexists then some nval else none) := by
  have hk := h k
  simp only [View.isUnchanged, base, underlying, parentOf]
  cases hc : s.ts.changedKeys k with
  | some x => cases x <;> cases nexists <;> simp
  | none => cases hs : s.storage k <;> cases nexists <;> simp_all

theorem get_eq (s : View) (h : NoFail s) (k : Key) :
    s.get k = if !s.scope k Perm.read then .perm
      else match vis s k with | some v => .val v | none => .notFound := by
  simp only [View.get, View.checkScope, getValue_eq s h]
  cases vis s k <;> simp

/-! ### the part of a view that decides what is visible -/

structure Core where
  pending : GoMap (Option Val)
  writes : GoMap Nat

def core (s : View) : Core := ⟨s.pendingChangedKeys, s.writes⟩

def visC (b : KV) (c : Core) : KV := fun k =>
  match c.pending k with
  | some x => x
  | none => b k

theorem vis_eq (s : View) : vis s = visC (base s) (core s) := rfl

/-- `View.undo` on the core -/
def undoC (c : Core) (op : Op) : Core :=
  match op.t, op.pastWrites with
  | .createOp, some pw => ⟨c.pending.set op.k none, c.writes.set op.k pw⟩
  | .createOp, none => ⟨c.pending.del op.k, c.writes.del op.k⟩
  | _, some pw => ⟨c.pending.set op.k (some op.pastV), c.writes.set op.k pw⟩
  | _, none => ⟨c.pending.del op.k, c.writes.del op.k⟩

theorem undo_core (s : View) (op : Op) : core (s.undo op) = undoC (core s) op := by
  cases op with
  | mk t k pv pa pw => cases t <;> cases pw <;> simp [View.undo, undoC, core]

theorem undo_frame (s : View) (op : Op) :
    (s.undo op).ts = s.ts ∧ (s.undo op).storage = s.storage ∧ (s.undo op).scope = s.scope ∧
    (s.undo op).ops = s.ops := by
  cases op with
  | mk t k pv pa pw => cases t <;> cases pw <;> simp [View.undo]

/-- domain of `writes` = domain of `pendingChangedKeys`, and a pending entry always differs
from the underlying state. -/
structure GoodC (b : KV) (c : Core) : Prop where
  dom : ∀ k, (c.pending k).isSome = (c.writes k).isSome
  diff : ∀ k x, c.pending k = some x → x ≠ b k

/-- the undo log `ops` (newest first) replays to the snapshots `snaps` (newest first) -/
def LogC (b : KV) : Core → List Op → List KV → Prop
  | _, [], [] => True
  | c, op :: rest, m :: ms => visC b (undoC c op) = m ∧ GoodC b (undoC c op) ∧ LogC b (undoC c op) rest ms
  | _, _, _ => False

theorem LogC_length {b : KV} : ∀ {c : Core} {ops : List Op} {snaps : List KV},
    LogC b c ops snaps → ops.length = snaps.length
  | _, [], [], _ => rfl
  | _, [], _ :: _, h => by simp [LogC] at h
  | _, _ :: _, [], h => by simp [LogC] at h
  | c, op :: rest, m :: ms, h => by
    simp only [LogC] at h
    simp [LogC_length h.2.2]

def rollbackLoopC (n : Nat) : List Op → Core → Core
  | [], c => c
  | op :: rest, c => if n ≤ rest.length then rollbackLoopC n rest (undoC c op) else c

theorem rollbackLoop_core (n : Nat) : ∀ (ops : List Op) (s : View),
    core (View.rollbackLoop n ops s) = rollbackLoopC n ops (core s)
  | [], s => rfl
  | op :: rest, s => by
    simp only [View.rollbackLoop, rollbackLoopC]
    split
    · rw [rollbackLoop_core n rest, undo_core]
    · rfl

theorem rollbackLoop_frame (n : Nat) : ∀ (ops : List Op) (s : View),
    (View.rollbackLoop n ops s).ts = s.ts ∧ (View.rollbackLoop n ops s).storage = s.storage ∧
    (View.rollbackLoop n ops s).scope = s.scope
  | [], s => ⟨rfl, rfl, rfl⟩
  | op :: rest, s => by
    simp only [View.rollbackLoop]
    split
    · have := rollbackLoop_frame n rest (s.undo op)
      have u := undo_frame s op
      simp [this, u]
    · exact ⟨rfl, rfl, rfl⟩

theorem rollbackLoopC_spec (b : KV) (n : Nat) : ∀ (ops : List Op) (c : Core) (snaps : List KV) (cur : KV),
    LogC b c ops snaps → GoodC b c → visC b c = cur → n ≤ ops.length →
      visC b (rollbackLoopC n ops c) = (popTo n cur snaps).1 ∧
      GoodC b (rollbackLoopC n ops c) ∧
      LogC b (rollbackLoopC n ops c) (ops.drop (ops.length - n)) (popTo n cur snaps).2
  | [], c, [], cur, _, hg, hv, _ => by simp [rollbackLoopC, popTo, hv, hg, LogC]
  | [], _, _ :: _, _, hl, _, _, _ => by simp [LogC] at hl
  | _ :: _, _, [], _, hl, _, _, _ => by simp [LogC] at hl
  | op :: rest, c, m :: ms, cur, hl, hg, hv, hn => by
    have hlen := LogC_length hl
    simp only [List.length_cons] at hlen hn
    simp only [LogC] at hl
    simp only [rollbackLoopC, popTo]
    have hlen' : rest.length = ms.length := by omega
    by_cases hle : n ≤ rest.length
    · have hle' : n ≤ ms.length := by omega
      simp only [hle, hle', if_true]
      have ih := rollbackLoopC_spec b n rest (undoC c op) ms m hl.2.2 hl.2.1 hl.1 hle
      have hd : (op :: rest).length - n = (rest.length - n) + 1 := by simp; omega
      rw [hd, List.drop_succ_cons]
      exact ih
    · have hle' : ¬ n ≤ ms.length := by omega
      simp only [hle, hle', if_false]
      have hd : (op :: rest).length - n = 0 := by simp; omega
      rw [hd, List.drop_zero]
      exact ⟨hv, hg, by simp only [LogC]; exact hl⟩


/-! ### a mutating operation on the core -/

/-- what `Insert` (`x = some v`) and `Remove` (`x = none`) do to `pendingChangedKeys`/`writes`:
record the change, then drop the record when the value is back to the underlying one. -/
def newCore (c : Core) (k : Key) (x : Option Val) (u : Bool) (w : Nat) : Core :=
  if u then ⟨(c.pending.set k x).del k, (c.writes.set k w).del k⟩
  else ⟨c.pending.set k x, c.writes.set k w⟩

theorem newCore_vis (b : KV) (c : Core) (k : Key) (x : Option Val) (u : Bool) (w : Nat)
    (hu : u = true ↔ b k = x) : visC b (newCore c k x u w) = KV.put (visC b c) k x := by
  funext j
  cases u with
  | true =>
    have hb : b k = x := hu.mp rfl
    by_cases hj : j = k
    · subst hj; simp [newCore, visC, KV.put, GoMap.set, GoMap.del, hb]
    · simp [newCore, visC, KV.put, GoMap.set, GoMap.del, hj]
  | false =>
    by_cases hj : j = k
    · subst hj; simp [newCore, visC, KV.put, GoMap.set]
    · simp [newCore, visC, KV.put, GoMap.set, hj]

theorem newCore_good (b : KV) (c : Core) (k : Key) (x : Option Val) (u : Bool) (w : Nat)
    (hu : u = true ↔ b k = x) (g : GoodC b c) : GoodC b (newCore c k x u w) := by
  cases u with
  | true =>
    constructor
    · intro j
      by_cases hj : j = k
      · subst hj; simp [newCore, GoMap.set, GoMap.del]
      · simpa [newCore, GoMap.set, GoMap.del, hj] using g.dom j
    · intro j y hy
      by_cases hj : j = k
      · subst hj; simp [newCore, GoMap.set, GoMap.del] at hy
      · simp [newCore, GoMap.set, GoMap.del, hj] at hy; exact g.diff j y hy
  | false =>
    have hb : ¬ b k = x := fun h => by have := hu.mpr h; cases this
    constructor
    · intro j
      by_cases hj : j = k
      · subst hj; simp [newCore, GoMap.set]
      · simpa [newCore, GoMap.set, hj] using g.dom j
    · intro j y hy
      by_cases hj : j = k
      · subst hj
        simp [newCore, GoMap.set] at hy
        subst hy
        exact fun h => hb h.symm
      · simp [newCore, GoMap.set, hj] at hy; exact g.diff j y hy

theorem core_ext {c d : Core} (h1 : c.pending = d.pending) (h2 : c.writes = d.writes) : c = d := by
  cases c; cases d; simp_all

/-- undoing the op recorded by a mutating operation restores `pendingChangedKeys` and
`writes` exactly -/
theorem newCore_undo (b : KV) (c : Core) (op : Op) (x : Option Val) (u : Bool) (w : Nat)
    (g : GoodC b c) (hw : op.pastWrites = c.writes op.k)
    (hpast : ∀ y, c.pending op.k = some y →
      y = (match op.t with | .createOp => none | _ => some op.pastV)) :
    undoC (newCore c op.k x u w) op = c := by
  cases op with
  | mk t k pv pa pw =>
  simp only at hw hpast
  have hdom := g.dom k
  cases hcw : c.writes k with
  | none =>
    rw [hcw] at hw hdom
    have hpn : c.pending k = none := by simpa using hdom
    subst hw
    apply core_ext
    · funext j
      by_cases hj : j = k
      · subst hj; cases t <;> cases u <;> simp [undoC, newCore, GoMap.set, GoMap.del, hpn]
      · cases t <;> cases u <;> simp [undoC, newCore, GoMap.set, GoMap.del, hj]
    · funext j
      by_cases hj : j = k
      · subst hj; cases t <;> cases u <;> simp [undoC, newCore, GoMap.set, GoMap.del, hcw]
      · cases t <;> cases u <;> simp [undoC, newCore, GoMap.set, GoMap.del, hj]
  | some w0 =>
    rw [hcw] at hw hdom
    subst hw
    cases hp : c.pending k with
    | none => simp [hp] at hdom
    | some y =>
      have hy := hpast y hp
      apply core_ext
      · funext j
        by_cases hj : j = k
        · subst hj; rw [hp]
          cases t <;> simp at hy <;> subst hy <;> cases u <;> simp [undoC, newCore, GoMap.set, GoMap.del]
        · cases t <;> cases u <;> simp [undoC, newCore, GoMap.set, GoMap.del, hj]
      · funext j
        by_cases hj : j = k
        · subst hj; cases t <;> cases u <;> simp [undoC, newCore, GoMap.set, GoMap.del, hcw]
        · cases t <;> cases u <;> simp [undoC, newCore, GoMap.set, GoMap.del, hj]

/-! ### the refinement relation -/

structure Rel (s : View) (m : CM) : Prop where
  nofail : NoFail s
  hbase : m.base = base s
  hcur : m.cur = vis s
  good : GoodC (base s) (core s)
  log : LogC (base s) (core s) s.ops m.snaps

/-- same `TState`, storage and scope -/
def Frame (s s' : View) : Prop := s'.ts = s.ts ∧ s'.storage = s.storage ∧ s'.scope = s.scope

theorem Frame.refl (s : View) : Frame s s := ⟨rfl, rfl, rfl⟩

theorem Frame.trans {a b c : View} (h1 : Frame a b) (h2 : Frame b c) : Frame a c :=
  ⟨h2.1.trans h1.1, h2.2.1.trans h1.2.1, h2.2.2.trans h1.2.2⟩

theorem Frame.base {s s' : View} (h : Frame s s') : base s' = base s := by
  simp only [TStateProofs.base, h.1, h.2.1]

theorem Frame.nofail {s s' : View} (h : Frame s s') (n : NoFail s) : NoFail s' := by
  intro k; rw [h.2.1]; exact n k

/-- a mutating operation that logs `op` refines "take a checkpoint, then set the key" -/
theorem push_rel {s s' : View} {m : CM} (R : Rel s m) (op : Op) (x : Option Val) (u : Bool) (w : Nat)
    (hf : Frame s s') (hops : s'.ops = op :: s.ops)
    (hcore : core s' = newCore (core s) op.k x u w)
    (hu : u = true ↔ base s op.k = x)
    (hw : op.pastWrites = s.writes op.k)
    (hpast : ∀ y, s.pendingChangedKeys op.k = some y →
      y = (match op.t with | .createOp => none | _ => some op.pastV)) :
    Rel s' { m with cur := KV.put m.cur op.k x, snaps := m.cur :: m.snaps } := by
  have hb := hf.base
  have hundo : undoC (core s') op = core s := by
    rw [hcore]; exact newCore_undo (base s) (core s) op x u w R.good hw hpast
  constructor
  · exact hf.nofail R.nofail
  · simp [hb, R.hbase]
  · simp only [vis_eq, hb, hcore, newCore_vis (base s) (core s) op.k x u w hu, R.hcur]
  · rw [hb, hcore]; exact newCore_good (base s) (core s) op.k x u w hu R.good
  · rw [hb, hops]
    simp only [LogC, hundo]
    exact ⟨by rw [R.hcur, vis_eq], R.good, R.log⟩


/-! ### each operation refines the spec -/

theorem finishInsert_core (s : View) (op : Op) (al : GoMap Nat) (k : Key) (v : Val) (u : Bool) (w : Nat) :
    core (s.finishInsert op al (s.writes.set k w) k v u) = newCore (core s) k (some v) u w := by
  cases u <;> simp [View.finishInsert, core, newCore]

theorem finishInsert_frame (s : View) (op : Op) (al wr : GoMap Nat) (k : Key) (v : Val) (u : Bool) :
    Frame s (s.finishInsert op al wr k v u) ∧ (s.finishInsert op al wr k v u).ops = op :: s.ops := by
  cases u <;> simp [View.finishInsert, Frame]

theorem pending_vis {s : View} {k : Key} {y : Option Val} (h : s.pendingChangedKeys k = some y) :
    vis s k = y := by simp [vis, h]

theorem insert_refines {s : View} {m : CM} (R : Rel s m) (k : Key) (v : Val) :
    Rel (s.insert k v).1 (m.step s.scope (.insert k v)).1 ∧
    (s.insert k v).2 = (m.step s.scope (.insert k v)).2 ∧ Frame s (s.insert k v).1 := by
  obtain ⟨u, hu, hiff⟩ := isUnchanged_eq s R.nofail k v true
  have hg := getValue_eq s R.nofail k
  have hc : m.cur k = vis s k := by rw [R.hcur]
  simp only [View.insert, CM.step, View.checkScope]
  by_cases hw : s.scope k Perm.write = true
  case neg => simp [hw, R, Frame.refl]
  simp only [hw, Bool.not_true, Bool.false_eq_true, if_false]
  by_cases hvv : Keys.verifyValue k v = true
  case neg => simp [hvv, R, Frame.refl]
  simp only [hvv, Bool.not_true, Bool.false_eq_true, if_false, hu, hg, hc]
  cases hv : vis s k with
  | some past =>
    simp only
    by_cases hpv : past = v
    · subst hpv; simp [R, Frame.refl]
    · have hne : ¬ (some past = some v) := by simpa using hpv
      simp only [hpv, hne, if_false, reduceCtorEq, false_and]
      let op : Op := { t := .insertOp, k := k, pastV := past,
                       pastAllocates := s.allocates k, pastWrites := s.writes k }
      have hf := finishInsert_frame s op s.allocates (s.writes.set k ((Keys.numChunks v).getD 0)) k v u
      refine ⟨?_, trivial, hf.1⟩
      exact push_rel R op (some v) u _ hf.1 hf.2 (finishInsert_core s op _ k v u _)
        (by simpa using hiff) rfl
        (by intro y hy; have := pending_vis hy; rw [hv] at this; exact this.symm)
  | none =>
    simp only
    by_cases ha : s.scope k Perm.allocate = true
    · simp only [ha, Bool.not_true, Bool.false_eq_true, and_false, if_false, reduceCtorEq]
      let op : Op := { t := .createOp, k := k, pastV := [],
                       pastAllocates := s.allocates k, pastWrites := s.writes k }
      have hf := finishInsert_frame s op (s.allocates.set k ((Keys.maxChunks k).getD 0))
        (s.writes.set k ((Keys.numChunks v).getD 0)) k v u
      refine ⟨?_, trivial, hf.1⟩
      exact push_rel R op (some v) u _ hf.1 hf.2 (finishInsert_core s op _ k v u _)
        (by simpa using hiff) rfl
        (by intro y hy; have := pending_vis hy; rw [hv] at this; exact this.symm)
    · simp [ha, R, Frame.refl]

theorem remove_refines {s : View} {m : CM} (R : Rel s m) (k : Key) :
    Rel (s.remove k).1 (m.step s.scope (.remove k)).1 ∧
    (s.remove k).2 = (m.step s.scope (.remove k)).2 ∧ Frame s (s.remove k).1 := by
  obtain ⟨u, hu, hiff⟩ := isUnchanged_eq s R.nofail k [] false
  have hg := getValue_eq s R.nofail k
  have hc : m.cur k = vis s k := by rw [R.hcur]
  simp only [View.remove, CM.step, View.checkScope]
  by_cases hw : s.scope k Perm.write = true
  case neg => simp [hw, R, Frame.refl]
  simp only [hw, Bool.not_true, Bool.false_eq_true, if_false, hg, hc]
  cases hv : vis s k with
  | none => simp [R, Frame.refl]
  | some past =>
    simp only [hu, reduceCtorEq, if_false]
    let op : Op := { t := .removeOp, k := k, pastV := past,
                     pastAllocates := s.allocates k, pastWrites := s.writes k }
    have hpast : ∀ y, s.pendingChangedKeys op.k = some y →
        y = (match op.t with | .createOp => none | _ => some op.pastV) := by
      intro y hy; have := pending_vis hy; rw [hv] at this; exact this.symm
    cases u with
    | true =>
      simp only [if_true]
      refine ⟨?_, trivial, ⟨rfl, rfl, rfl⟩⟩
      exact push_rel R op none true 0 ⟨rfl, rfl, rfl⟩ rfl (by simp [core, newCore, op])
        (by simpa using hiff) rfl hpast
    | false =>
      simp only [Bool.false_eq_true, if_false]
      refine ⟨?_, trivial, ⟨rfl, rfl, rfl⟩⟩
      exact push_rel R op none false 0 ⟨rfl, rfl, rfl⟩ rfl (by simp [core, newCore, op])
        (by simpa using hiff) rfl hpast


theorem rollback_frame (s : View) (n : Nat) : Frame s (s.rollback n) := by
  have := rollbackLoop_frame n s.ops s
  exact ⟨this.1, this.2.1, this.2.2⟩

theorem rollback_refines {s : View} {m : CM} (R : Rel s m) (n : Nat) (hn : n ≤ s.ops.length) :
    Rel (s.rollback n) { m with cur := (popTo n m.cur m.snaps).1, snaps := (popTo n m.cur m.snaps).2 } := by
  have hf := rollback_frame s n
  have hb := hf.base
  have hcore : core (s.rollback n) = rollbackLoopC n s.ops (core s) := by
    rw [← rollbackLoop_core]; rfl
  have hspec := rollbackLoopC_spec (base s) n s.ops (core s) m.snaps m.cur R.log R.good
    (by rw [R.hcur, vis_eq]) hn
  constructor
  · exact hf.nofail R.nofail
  · simp [hb, R.hbase]
  · simp only [vis_eq, hb, hcore]; exact hspec.1.symm
  · rw [hb, hcore]; exact hspec.2.1
  · rw [hb, hcore]; exact hspec.2.2

theorem step_refines {s : View} {m : CM} (R : Rel s m) (o : VOp) :
    Rel (s.step o).1 (m.step s.scope o).1 ∧ (s.step o).2 = (m.step s.scope o).2 ∧
    Frame s (s.step o).1 := by
  cases o with
  | get k =>
    refine ⟨?_, ?_, Frame.refl s⟩
    · simp only [View.step, CM.step]; split <;> (try split) <;> exact R
    · simp only [View.step, CM.step, get_eq s R.nofail, R.hcur]
      split
      · rfl
      · cases vis s k <;> rfl
  | insert k v => exact insert_refines R k v
  | remove k => exact remove_refines R k
  | opIndex =>
    refine ⟨R, ?_, Frame.refl s⟩
    simp [View.step, CM.step, View.opIndex, LogC_length R.log]
  | rollback n =>
    have hl := LogC_length R.log
    simp only [View.step, CM.step, ← hl]
    by_cases hn : n ≤ s.ops.length
    · simp only [hn, if_true]
      exact ⟨rollback_refines R n hn, trivial, rollback_frame s n⟩
    · simp only [hn, if_false]
      exact ⟨R, trivial, Frame.refl s⟩

theorem run_refines : ∀ (p : List VOp) {s : View} {m : CM}, Rel s m →
    Rel (s.run p).1 (m.run s.scope p).1 ∧ (s.run p).2 = (m.run s.scope p).2 ∧ Frame s (s.run p).1
  | [], s, m, R => ⟨R, rfl, Frame.refl s⟩
  | o :: rest, s, m, R => by
    have h1 := step_refines R o
    have h2 := run_refines rest h1.1
    rw [h1.2.2.2.2] at h2
    simp only [View.run, CM.run]
    refine ⟨h2.1, ?_, h1.2.2.trans h2.2.2⟩
    rw [h1.2.1, h2.2.1]

theorem rel_init (ts : TS) (sc : Key → Perm → Bool) (parent : KV) :
    Rel (ts.newView sc (stoOf parent)) (CM.init (underlying ts.changedKeys parent)) := by
  constructor
  · exact noFail_stoOf parent ts sc
  · simp [CM.init, base, TS.newView, parentOf_stoOf]
  · funext k; simp [CM.init, vis, base, TS.newView, parentOf_stoOf]
  · constructor
    · intro k; simp [core, TS.newView]
    · intro k x h; simp [core, TS.newView] at h
  · simp [TS.newView, CM.init, LogC]


/-! ### checkpoints in the spec -/

theorem popTo_self (n : Nat) : ∀ (cur : KV) (snaps : List KV), snaps.length ≤ n → popTo n cur snaps = (cur, snaps)
  | _, [], _ => rfl
  | cur, m :: ms, h => by
    simp only [List.length_cons] at h
    have : ¬ n ≤ ms.length := by omega
    simp [popTo, this]

theorem popTo_length (n : Nat) : ∀ (cur : KV) (snaps : List KV), n ≤ snaps.length →
    (popTo n cur snaps).2.length = n
  | _, [], h => by simp at h; simp [popTo, h]
  | cur, m :: ms, h => by
    simp only [popTo]
    by_cases hle : n ≤ ms.length
    · simp only [hle, if_true]; exact popTo_length n m ms hle
    · simp only [hle, if_false]; simp only [List.length_cons] at h ⊢; omega

theorem popTo_comp (c n : Nat) (hcn : c ≤ n) : ∀ (cur : KV) (snaps : List KV),
    popTo c (popTo n cur snaps).1 (popTo n cur snaps).2 = popTo c cur snaps
  | _, [] => by simp [popTo]
  | cur, m :: ms => by
    simp only [popTo]
    by_cases hle : n ≤ ms.length
    · have hle' : c ≤ ms.length := by omega
      simp only [hle, hle', if_true]
      exact popTo_comp c n hcn m ms
    · simp only [hle, if_false]
      simp only [popTo]

/-- `Keep c a m`: returning to checkpoint `c` from `m` gives the map `a.cur` and the older
checkpoints `a.snaps` -/
def Keep (c : Nat) (a m : CM) : Prop := c ≤ m.snaps.length ∧ popTo c m.cur m.snaps = (a.cur, a.snaps)

theorem keep_refl (a : CM) : Keep a.snaps.length a a := ⟨Nat.le_refl _, popTo_self _ _ _ (Nat.le_refl _)⟩

theorem keep_push {c : Nat} {a m : CM} (h : Keep c a m) (cur' : KV) :
    Keep c a { m with cur := cur', snaps := m.cur :: m.snaps } := by
  refine ⟨by simp; exact Nat.le_succ_of_le h.1, ?_⟩
  simp only [popTo, h.1, if_true]
  exact h.2

theorem keep_step {c : Nat} {a m : CM} (sc : Key → Perm → Bool) (h : Keep c a m) (o : VOp)
    (ho : ∀ n, o = .rollback n → c ≤ n) : Keep c a (m.step sc o).1 := by
  cases o with
  | get k => simp only [CM.step]; split <;> (try split) <;> exact h
  | opIndex => exact h
  | insert k v =>
    simp only [CM.step]
    split; exact h
    split; exact h
    split; exact h
    split; exact h
    exact keep_push h _
  | remove k =>
    simp only [CM.step]
    split; exact h
    split; exact h
    exact keep_push h _
  | rollback n =>
    have hcn := ho n rfl
    simp only [CM.step]
    split
    · rename_i hn
      refine ⟨?_, ?_⟩
      · simp only [popTo_length n m.cur m.snaps hn]; exact hcn
      · simp only [popTo_comp c n hcn]; exact h.2
    · exact h

theorem keep_run {c : Nat} {a : CM} (sc : Key → Perm → Bool) : ∀ (p : List VOp) {m : CM}, Keep c a m →
    (∀ n, VOp.rollback n ∈ p → c ≤ n) → Keep c a (m.run sc p).1
  | [], _, h, _ => h
  | o :: rest, m, h, hp => by
    simp only [CM.run]
    exact keep_run sc rest (keep_step sc h o (fun n hn => hp n (by simp [hn])))
      (fun n hn => hp n (by simp [hn]))


/-! ### commit -/

theorem pending_eq_diff {s : View} {m : CM} (R : Rel s m) (k : Key) : s.pendingChangedKeys k = m.diff k := by
  simp only [CM.diff, R.hbase, R.hcur]
  cases hp : s.pendingChangedKeys k with
  | none => simp [vis, hp]
  | some x =>
    have hx : vis s k = x := pending_vis hp
    have hne := R.good.diff k x hp
    rw [hx]
    simp [hne]

theorem commit_of_rel {s : View} {m : CM} (R : Rel s m) (k : Key) :
    s.commit.ts.changedKeys k = if m.cur k = m.base k then s.ts.changedKeys k else some (m.cur k) := by
  have hk := pending_eq_diff R k
  show (match s.pendingChangedKeys k with | some v => some v | none => s.ts.changedKeys k) = _
  rw [hk]
  simp only [CM.diff]
  by_cases h : m.cur k = m.base k <;> simp [h]

theorem rel_base_init {ts : TS} {sc : Key → Perm → Bool} {parent : KV} {s : View} {m : CM}
    (R : Rel s m) (hf : Frame (ts.newView sc (stoOf parent)) s) :
    m.base = underlying ts.changedKeys parent := by
  rw [R.hbase, hf.base]; simp [base, TS.newView, parentOf_stoOf]

end HyperModel.TStateProofs
