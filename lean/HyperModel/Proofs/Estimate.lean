import HyperModel.Model.Estimate
import HyperModel.Proofs.CanotoTyped
/-! Lemmas for C14: sizes of encodings, monotonicity of the checked sums. -/
namespace HyperModel.Estimate
open HyperModel.Canoto

theorem sizeUint_mono : ∀ (b a : Nat), a ≤ b → sizeUint a ≤ sizeUint b := by
  intro b
  induction b using Nat.strongRecOn with
  | _ b ih =>
    intro a hab
    rw [sizeUint.eq_1 a, sizeUint.eq_1 b]
    by_cases hb : b < 128
    · have : a < 128 := by omega
      simp [hb, this]
    · by_cases ha : a < 128
      · simp [hb, ha]
      · simp only [hb, ha, if_false]
        have := ih (b / 128) (by omega) (a / 128) (Nat.div_le_div_right hab)
        omega

theorem sizeUint_le_of_lt_pow : ∀ (k n : Nat), n < 128 ^ (k + 1) → sizeUint n ≤ k + 1 := by
  intro k
  induction k with
  | zero => intro n h; rw [sizeUint]; simp at h; simp [h]
  | succ k ih =>
    intro n h
    rw [sizeUint]
    by_cases hn : n < 128
    · simp [hn]
    · simp only [hn, if_false]
      have : n / 128 < 128 ^ (k + 1) := by
        rw [Nat.pow_succ] at h
        exact Nat.div_lt_of_lt_mul (by rw [Nat.mul_comm]; exact h)
      have := ih (n / 128) this
      omega

theorem sizeUint_le_ten {n : Nat} (h : n < 2 ^ 64) : sizeUint n ≤ 10 :=
  sizeUint_le_of_lt_pow 9 n (by
    have h1 : (2:Nat) ^ 64 ≤ 128 ^ (9 + 1) := by decide
    omega)

theorem sizeUint_small {n : Nat} (h : n < 128) : sizeUint n = 1 := by rw [sizeUint]; simp [h]

theorem sum_append (a b : List Nat) : sum (a ++ b) = sum a + sum b := by
  induction a with
  | nil => simp [sum]
  | cons x xs ih => simp only [sum, List.cons_append, List.foldr_cons] at ih ⊢; omega

theorem sum_cons (x : Nat) (xs : List Nat) : sum (x :: xs) = x + sum xs := rfl

theorem mem_dedup {k : Bytes} : ∀ {l : List Bytes}, k ∈ dedup l → k ∈ l := by
  intro l
  induction l with
  | nil => intro h; exact h
  | cons x xs ih =>
    intro h
    simp only [dedup] at h
    split at h
    · exact List.mem_cons_of_mem _ (ih h)
    · rcases List.mem_cons.mp h with rfl | h
      · exact List.mem_cons_self
      · exact List.mem_cons_of_mem _ (ih h)

/-- summing a cost over the distinct keys costs no more than over all of them -/
theorem sum_dedup_le (f : Bytes → Nat) : ∀ l : List Bytes, sum ((dedup l).map f) ≤ sum (l.map f) := by
  intro l
  induction l with
  | nil => exact Nat.le_refl _
  | cons x xs ih =>
    simp only [dedup]
    split
    · simp only [List.map_cons, sum_cons]; omega
    · simp only [List.map_cons, sum_cons]; omega

theorem checked_mono {a b y : Nat} (hab : a ≤ b) (h : checked b = some y) :
    checked a = some a ∧ a ≤ y := by
  unfold checked at h ⊢
  split at h
  · simp only [Option.some.injEq] at h; subst h
    rename_i hb
    have : a ≤ maxU64 := by omega
    simp [this, hab]
  · cases h

/-! ### length of the encoded transaction -/

theorem length_enc_optBytes (spec : Spec) {f : Nat} (hk : spec f = some .bytes) (b : Bytes) :
    (encode spec (optBytes f b)).length = if b.isEmpty then 0 else 1 + (sizeUint b.length + b.length) := by
  unfold optBytes
  split
  · simp [encode]
  · simp [encode, hk, encEntry, lenPrefixed, uvarint_length]; omega

theorem length_enc_optList (spec : Spec) {f : Nat} (hk : spec f = some .repBytes) (l : List Bytes) :
    (encode spec (optList f l)).length = sum (l.map fun e => actionFrame e.length) := by
  unfold optList
  split
  · rename_i h
    cases l with
    | nil => simp [encode, sum]
    | cons _ _ => simp at h
  · simp only [encode, List.flatMap_cons, List.flatMap_nil, List.append_nil, hk, encEntry]
    rename_i hne; clear hne
    induction l with
    | nil => simp [sum]
    | cons e es ih =>
      rw [List.flatMap_cons, List.length_append, ih, List.map_cons, sum_cons]
      simp only [actionFrame, lenPrefixed, List.length_cons, List.length_append, uvarint_length]
      omega

theorem length_enc_optNum_uvar (spec : Spec) {f : Nat} (hk : spec f = some .uvar) (n : Nat) :
    (encode spec (optNum f n)).length ≤ 1 + sizeUint n := by
  unfold optNum
  split
  · simp [encode]
  · simp [encode, hk, encEntry, uvarint_length]; omega

theorem length_enc_optFixed (spec : Spec) {f n : Nat} (hk : spec f = some (.fixedBytes n)) (b : Bytes) :
    (encode spec (optFixed f b)).length ≤ 1 + (sizeUint b.length + b.length) := by
  unfold optFixed
  split
  · simp [encode]
  · simp [encode, hk, encEntry, lenPrefixed, uvarint_length]; omega

theorem length_enc_optFixed64 (spec : Spec) {f : Nat} (hk : spec f = some .fixed64) (b : Bytes) :
    (encode spec (optFixed f b)).length ≤ 1 + b.length := by
  unfold optFixed
  split
  · simp [encode]
  · simp [encode, hk, encEntry]; omega

/-- an encoded `Base` is at most 54 bytes (1+10, 1+1+32, 1+8) -/
theorem encodeBase_length_le (b : Base) (hts : -(2 ^ 63 : Int) ≤ b.timestamp ∧ b.timestamp < 2 ^ 63)
    (hc : b.chainID.length = 32) (hf : b.maxFee.length = 8) : (encodeBase b).length ≤ 54 := by
  unfold encodeBase Base.toMsg
  rw [encode_append, encode_append, List.length_append, List.length_append]
  have h1 := length_enc_optNum_uvar baseSpec (f := 1) rfl (zigzag b.timestamp)
  have h2 := length_enc_optFixed baseSpec (f := 2) (n := 32) rfl b.chainID
  have h3 := length_enc_optFixed64 baseSpec (f := 3) rfl b.maxFee
  have h4 := sizeUint_le_ten (zigzag_lt hts.1 hts.2)
  have h5 : sizeUint 32 = 1 := sizeUint_small (by omega)
  rw [hc, h5] at h2
  omega

/-- the exact size of the signed transaction -/
theorem encodeTx_length {A Au} (pa : Parser A) (pu : Parser Au) (t : Tx A Au) :
    (encodeTx pa pu t).length =
      (if (encodeBase t.base).isEmpty then 0 else 1 + (sizeUint (encodeBase t.base).length + (encodeBase t.base).length)) +
      sum ((t.actions.map fun a => (pa.bytes a).length).map actionFrame) +
      (if (pu.bytes t.auth).isEmpty then 0 else 1 + (sizeUint (pu.bytes t.auth).length + (pu.bytes t.auth).length)) := by
  unfold encodeTx serializeTxMsg
  rw [encode_append, encode_append, List.length_append, List.length_append,
    length_enc_optBytes txSpec (f := 1) rfl, length_enc_optList txSpec (f := 2) rfl,
    length_enc_optBytes txSpec (f := 3) rfl]
  simp [List.map_map, Function.comp_def]

/-! ### key chunk lookups with an error branch -/

theorem mapM?_spec {α β} {f : α → Option β} : ∀ (l : List α) (r : List β), mapM? f l = some r →
    l.map f = r.map some := by
  intro l
  induction l with
  | nil => intro r h; simp only [mapM?, Option.some.injEq] at h; subst h; rfl
  | cons a as ih =>
    intro r h
    simp only [mapM?] at h
    cases ha : f a with
    | none => simp [ha] at h
    | some b =>
      simp only [ha] at h
      cases hr : mapM? f as with
      | none => simp [hr] at h
      | some bs =>
        simp only [hr, Option.some.injEq] at h
        subst h
        simp [ha, ih bs hr]

theorem mapM?_of_forall {α β} {f : α → Option β} (g : α → β) : ∀ (l : List α),
    (∀ x ∈ l, f x = some (g x)) → mapM? f l = some (l.map g) := by
  intro l
  induction l with
  | nil => intro _; rfl
  | cons a as ih =>
    intro h
    simp only [mapM?, h a (by simp), ih (fun x hx => h x (List.mem_cons_of_mem _ hx)), List.map_cons]

theorem map_some_inj {β} : ∀ (a b : List β), a.map some = b.map some → a = b := by
  intro a
  induction a with
  | nil => intro b h; cases b with
    | nil => rfl
    | cons _ _ => simp at h
  | cons x xs ih =>
    intro b h
    cases b with
    | nil => simp at h
    | cons y ys =>
      simp only [List.map_cons, List.cons.injEq, Option.some.injEq] at h
      rw [h.1, ih ys h.2]

/-- the chunk lists of all actions, flattened -/
theorem flatMap_chunks {α} (chunks : Bytes → Option Nat) (ks : α → List Bytes) : ∀ (l : List α) (css : List (List Nat)),
    mapM? (fun a => mapM? chunks (ks a)) l = some css →
    (l.flatMap ks).map chunks = css.flatten.map some := by
  intro l
  induction l with
  | nil => intro css h; simp only [mapM?, Option.some.injEq] at h; subst h; rfl
  | cons a as ih =>
    intro css h
    simp only [mapM?] at h
    cases ha : mapM? chunks (ks a) with
    | none => simp [ha] at h
    | some cs =>
      simp only [ha] at h
      cases hr : mapM? (fun a => mapM? chunks (ks a)) as with
      | none => simp [hr] at h
      | some rest =>
        simp only [hr, Option.some.injEq] at h
        subst h
        rw [List.flatMap_cons, List.map_append, mapM?_spec _ _ ha, ih rest hr]
        simp

/-- if every key of `l` has chunks (`l.map chunks = X.map some`) then the chunks are `X` -/
theorem chunks_total {chunks : Bytes → Option Nat} {l : List Bytes} {X : List Nat}
    (h : l.map chunks = X.map some) :
    (∀ k ∈ l, chunks k = some ((chunks k).getD 0)) ∧ X = l.map fun k => (chunks k).getD 0 := by
  have h1 : ∀ k ∈ l, chunks k = some ((chunks k).getD 0) := by
    intro k hk
    have : chunks k ∈ X.map some := by rw [← h]; exact List.mem_map_of_mem hk
    obtain ⟨x, _, hx⟩ := List.mem_map.mp this
    rw [← hx]; rfl
  refine ⟨h1, ?_⟩
  apply map_some_inj
  rw [← h, List.map_map]
  apply List.map_congr_left
  intro k hk
  exact h1 k hk

/-! ### uint64 as 8 little-endian bytes -/

theorem ofLE64_le64 {n : Nat} (h : n < 2 ^ 64) : ofLE64 (le64 n) = n := by
  have hb : ∀ x : Nat, (UInt8.ofNat (x % 256)).toNat = x % 256 :=
    fun x => toNat_ofNat_lt (Nat.mod_lt _ (by decide))
  unfold le64 ofLE64
  simp only [List.foldr_cons, List.foldr_nil, hb]
  omega

end HyperModel.Estimate
