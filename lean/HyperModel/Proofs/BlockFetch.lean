import HyperModel.Model.BlockFetch
import HyperModel.Proofs.Fetcher
/-! Lemmas linking the block-level model (C24) to the fetcher invariants. -/
namespace HyperModel.Fetcher

/-- the declared keys stored in record `r` -/
def keysOf (recs : Nat → Option Rec) (r : Nat) : Option (List Key) := (recs r).map (·.keys)

theorem declared_iff_keysOf (s : St) (k : Key) :
    Declared s k ↔ ∃ r ks, keysOf s.recs r = some ks ∧ k ∈ ks := by
  unfold Declared keysOf
  constructor
  · rintro ⟨r, rc, h1, h2⟩; exact ⟨r, rc.keys, by simp [h1], h2⟩
  · rintro ⟨r, ks, h1, h2⟩
    cases h : s.recs r with
    | none => simp [h] at h1
    | some rc => simp [h] at h1; subst h1; exact ⟨r, rc, h, h2⟩

theorem decr_keys (recs : Nat → Option Rec) (r0 r : Nat) : keysOf (decr recs r0).1 r = keysOf recs r := by
  unfold decr keysOf
  cases h : recs r0 with
  | none => rfl
  | some rc =>
    simp only []
    split <;> (simp only [upd]; by_cases e : r = r0 <;> simp [e, h])

theorem decrAll_keys (L : List (Key × Nat)) : ∀ (recs : Nat → Option Rec) (p : Bool) (r : Nat),
    keysOf (decrAll L (recs, p)).1 r = keysOf recs r := by
  induction L with
  | nil => intro recs p r; rfl
  | cons e rest ih => intro recs p r; simp only [decrAll]; rw [ih, decr_keys]

theorem setKey_keys (s : St) (k : Key) (d : Option Val) (r : Nat) :
    keysOf (setKey s k d).recs r = keysOf s.recs r := by
  simp only [setKey]; exact decrAll_keys _ _ _ _

theorem handleErr_recs (s : St) (e : FErr) :
    (handleErr s e).recs = s.recs ∧ (handleErr s e).txs = s.txs ∧
    (handleErr s e).tasksClosed = s.tasksClosed ∧ (handleErr s e).requested = s.requested ∧
    (handleErr s e).inflight = s.inflight ∧ (handleErr s e).cache = s.cache := by
  unfold handleErr; split <;> simp

/-- worker / channel steps keep every record's key list, the tx table and `tasksClosed` -/
theorem inner_keeps {parent : Key → Rd} {s s' : St} (st : InnerStep parent s s') :
    (∀ r, keysOf s'.recs r = keysOf s.recs r) ∧ s'.txs = s.txs ∧ s'.tasksClosed = s.tasksClosed := by
  match st with
  | .send _ _ h =>
    unfold send at h; split at h
    · cases h
    · split at h <;> cases h; exact ⟨fun _ => rfl, rfl, rfl⟩
  | .abort _ _ h => unfold abort at h; split at h <;> cases h; exact ⟨fun _ => rfl, rfl, rfl⟩
  | .take _ _ h =>
    unfold take at h; split at h
    · cases h
    · split at h <;> cases h; exact ⟨fun _ => rfl, rfl, rfl⟩
  | .complete _ k _ h =>
    unfold complete at h; split at h
    · split at h <;> cases h
      · exact ⟨fun r => setKey_keys _ _ _ r, rfl, rfl⟩
      · exact ⟨fun r => setKey_keys _ _ _ r, rfl, rfl⟩
      · have f := handleErr_recs { s with inflight := s.inflight.erase k } .read
        exact ⟨fun r => by show keysOf (handleErr _ _).recs r = _; rw [f.1], f.2.1, f.2.2.1⟩
      · have f := handleErr_recs { s with inflight := s.inflight.erase k } .badValue
        exact ⟨fun r => by show keysOf (handleErr _ _).recs r = _; rw [f.1], f.2.1, f.2.2.1⟩
    · cases h
  | .exit _ _ h => unfold exit at h; split at h <;> cases h; exact ⟨fun _ => rfl, rfl, rfl⟩
  | .stop _ =>
    have f := handleErr_recs s .stopped
    exact ⟨fun r => by show keysOf (handleErr _ _).recs r = _; rw [f.1], f.2.1, f.2.2.1⟩
  | .waitRet _ _ e h => unfold waitRet at h; split at h <;> cases h; exact ⟨fun _ => rfl, rfl, rfl⟩

theorem inner_step {parent : Key → Rd} {s s' : St} (st : InnerStep parent s s') : Step parent s s' := by
  match st with
  | .send _ _ h => exact .send _ _ h
  | .abort _ _ h => exact .abort _ _ h
  | .take _ _ h => exact .take _ _ h
  | .complete _ k _ h => exact .complete _ k _ h
  | .exit _ _ h => exact .exit _ _ h
  | .stop _ => exact .stop _
  | .waitRet _ _ e h => exact .waitRet _ _ e h

/-! ### effect of a successful `Fetch` on the records -/

theorem fetchKey_keys (r : Nat) (s : St) (k : Key) (r' : Nat) :
    keysOf (fetchKey r s k).recs r' =
      if r' = r then (keysOf s.recs r).map (· ++ [k]) else keysOf s.recs r' := by
  unfold fetchKey keysOf
  split <;> (simp only [bump, upd]; by_cases e : r' = r <;> simp [e] <;> cases s.recs r <;> simp)

theorem fetchKey_txs (r : Nat) (s : St) (k : Key) :
    (fetchKey r s k).txs = s.txs ∧ (fetchKey r s k).tasksClosed = s.tasksClosed ∧
    (fetchKey r s k).requested = s.requested ∧ (fetchKey r s k).inflight = s.inflight ∧
    (fetchKey r s k).err = s.err := by
  unfold fetchKey; split <;> simp

theorem foldl_fetchKey_keys (r : Nat) (ks : List Key) : ∀ (s : St) (r' : Nat),
    keysOf (ks.foldl (fetchKey r) s).recs r' =
      if r' = r then (keysOf s.recs r).map (· ++ ks) else keysOf s.recs r' := by
  induction ks with
  | nil => intro s r'; by_cases e : r' = r <;> simp [e] <;> cases keysOf s.recs r <;> simp
  | cons k ks ih =>
    intro s r'
    simp only [List.foldl_cons]
    rw [ih (fetchKey r s k) r', fetchKey_keys]
    by_cases e : r' = r
    · simp only [e, if_true, fetchKey_keys]
      cases keysOf s.recs r <;> simp
    · simp [e, fetchKey_keys]

theorem foldl_fetchKey_txs (r : Nat) (ks : List Key) : ∀ (s : St),
    (ks.foldl (fetchKey r) s).txs = s.txs ∧ (ks.foldl (fetchKey r) s).tasksClosed = s.tasksClosed ∧
    (ks.foldl (fetchKey r) s).requested = s.requested ∧ (ks.foldl (fetchKey r) s).inflight = s.inflight ∧
    (ks.foldl (fetchKey r) s).err = s.err := by
  induction ks with
  | nil => intro s; simp
  | cons k ks ih =>
    intro s
    have a := ih (fetchKey r s k)
    have b := fetchKey_txs r s k
    simp only [List.foldl_cons]
    exact ⟨a.1.trans b.1, a.2.1.trans b.2.1, a.2.2.1.trans b.2.2.1, a.2.2.2.1.trans b.2.2.2.1,
      a.2.2.2.2.trans b.2.2.2.2⟩

/-- a `Fetch` that does not fail allocates record `s.nrecs` with exactly the passed keys, points
the tx id to it and leaves all other records alone -/
theorem fetch_ok_effect (s : St) (tx : TxId) (ks : List Key) (hok : (fetch s tx ks).2 = true)
    (hfresh : s.recs s.nrecs = none) :
    keysOf (fetch s tx ks).1.recs s.nrecs = some ks ∧
    (∀ r, r ≠ s.nrecs → keysOf (fetch s tx ks).1.recs r = keysOf s.recs r) ∧
    (fetch s tx ks).1.txs = upd s.txs tx (some s.nrecs) ∧
    (fetch s tx ks).1.tasksClosed = s.tasksClosed ∧ (fetch s tx ks).1.requested = s.requested := by
  unfold fetch at hok ⊢
  split
  next he => simp [he] at hok
  next he =>
    have hk := foldl_fetchKey_keys s.nrecs ks (newRec s)
    have ht := foldl_fetchKey_txs s.nrecs ks (newRec s)
    refine ⟨?_, ?_, ?_, ht.2.1, ht.2.2.1⟩
    · show keysOf (ks.foldl (fetchKey s.nrecs) (newRec s)).recs s.nrecs = some ks
      rw [hk]; simp [keysOf, newRec, upd]
    · intro r hr
      show keysOf (ks.foldl (fetchKey s.nrecs) (newRec s)).recs r = _
      rw [hk]; simp [hr, keysOf, newRec, upd]
    · show upd (ks.foldl (fetchKey s.nrecs) (newRec s)).txs tx (some s.nrecs) = _
      rw [ht.1]; rfl

theorem fetch_err_state (s : St) (tx : TxId) (ks : List Key) (h : (fetch s tx ks).2 = false) :
    (fetch s tx ks).1 = s := by
  unfold fetch at h ⊢
  split
  · rfl
  next he => simp [he] at h

/-! ### the block-level run projects to a fetcher run -/

theorem breach_reach {parent : Key → Rd} {blk : Block} {c cap : Nat} {b : BState}
    (h : BReach parent blk c cap b) : Reach parent c cap b.f := by
  induction h with
  | init => exact .init
  | step b b' _ st ih =>
    match st with
    | .metaOk _ k v _ _ _ => exact ih
    | .metaFail _ k _ _ _ => exact ih
    | .fetchOk _ tx _ _ _ hcl hs _ => exact .step _ _ ih (.fetch _ _ _ hcl hs)
    | .fetchErr _ tx _ _ _ _ => exact ih
    | .waitCall _ _ _ _ hs => exact .step _ _ ih (.waitCall _ hs)
    | .inner _ s' hi => exact .step _ _ ih (inner_step hi)

/-- invariant tying the fetcher's records to the block's transactions.
`hid`: transactions with equal ids declare equal keys (the id is the hash of the content). -/
structure BInv (parent : Key → Rd) (blk : Block) (b : BState) : Prop where
  pre : ∃ n, b.metaRead = blk.mkeys.take n
  fl : b.fetched ≤ blk.txs.length
  closed : b.f.tasksClosed = true → b.metaRead = blk.mkeys ∧ b.fetched = blk.txs.length
  decl : ∀ k, Declared b.f k ↔ ∃ tx ∈ blk.txs.take b.fetched, k ∈ tx.fetchKeys
  recsOk : ∀ tx ∈ blk.txs.take b.fetched, ∃ r rc, b.f.txs tx.id = some r ∧ b.f.recs r = some rc ∧
    rc.keys = tx.fetchKeys
  metaVals : b.failed = false → ∀ k ∈ b.metaRead, ∃ v, parent k = .val v

theorem take_succ_of_get {α} (l : List α) (n : Nat) (x : α) (h : l[n]? = some x) :
    l.take (n + 1) = l.take n ++ [x] := by
  rw [List.take_succ, h]; rfl

theorem binv_reach {parent : Key → Rd} {blk : Block} {c cap : Nat} {b : BState}
    (hid : ∀ t1 ∈ blk.txs, ∀ t2 ∈ blk.txs, t1.id = t2.id → t1.fetchKeys = t2.fetchKeys)
    (h : BReach parent blk c cap b) : BInv parent blk b := by
  induction h with
  | init =>
    refine ⟨⟨0, by simp [binit]⟩, by simp [binit], by simp [binit, init], ?_, by simp [binit], by simp [binit]⟩
    intro k; simp [binit, init, Declared]
  | step b b' hb st ih =>
    obtain ⟨pre, fl, closed, decl, recsOk, metaVals⟩ := ih
    have hreach := breach_reach hb
    match st with
    | .metaOk _ k v hf hk hv =>
      obtain ⟨n, hn⟩ := pre
      have hlen : b.metaRead.length < blk.mkeys.length := by
        rcases Nat.lt_or_ge b.metaRead.length blk.mkeys.length with h | h
        · exact h
        · rw [List.getElem?_eq_none h] at hk; cases hk
      have hn' : b.metaRead = blk.mkeys.take b.metaRead.length := by
        have : b.metaRead.length = min n blk.mkeys.length := by rw [hn]; simp
        rw [hn]; simp only [List.length_take]
        by_cases h : n ≤ blk.mkeys.length
        · simp [Nat.min_eq_left h]
        · have h' : blk.mkeys.length ≤ n := by omega
          simp [Nat.min_eq_right h', List.take_of_length_le h']
      refine ⟨⟨b.metaRead.length + 1, ?_⟩, fl, ?_, decl, recsOk, ?_⟩
      · show b.metaRead ++ [k] = _
        rw [take_succ_of_get _ _ _ hk, ← hn']
      · intro hc
        have := (closed hc).1
        rw [this] at hlen; omega
      · intro _ k' hk'
        simp only [List.mem_append, List.mem_singleton] at hk'
        rcases hk' with hk' | rfl
        · exact metaVals hf k' hk'
        · exact ⟨v, hv⟩
    | .metaFail _ k hf hk hv =>
      obtain ⟨n, hn⟩ := pre
      have hlen : b.metaRead.length < blk.mkeys.length := by
        rcases Nat.lt_or_ge b.metaRead.length blk.mkeys.length with h | h
        · exact h
        · rw [List.getElem?_eq_none h] at hk; cases hk
      have hn' : b.metaRead = blk.mkeys.take b.metaRead.length := by
        rw [hn]; simp only [List.length_take]
        by_cases h : n ≤ blk.mkeys.length
        · simp [Nat.min_eq_left h]
        · have h' : blk.mkeys.length ≤ n := by omega
          simp [Nat.min_eq_right h', List.take_of_length_le h']
      refine ⟨⟨b.metaRead.length + 1, ?_⟩, fl, ?_, decl, recsOk, ?_⟩
      · show b.metaRead ++ [k] = _
        rw [take_succ_of_get _ _ _ hk, ← hn']
      · intro hc
        have := (closed hc).1
        rw [this] at hlen; omega
      · intro h; cases h
    | .fetchOk _ tx hf hm hk hcl hs hok =>
      have hfresh : b.f.recs b.f.nrecs = none := (inv_reach hreach).fresh _ (Nat.le_refl _)
      obtain ⟨e1, e2, e3, e4, _⟩ := fetch_ok_effect b.f tx.id tx.fetchKeys hok hfresh
      have hlen : b.fetched < blk.txs.length := by
        rcases Nat.lt_or_ge b.fetched blk.txs.length with h | h
        · exact h
        · rw [List.getElem?_eq_none h] at hk; cases hk
      have htake := take_succ_of_get _ _ _ hk
      have htxmem : tx ∈ blk.txs := List.mem_of_getElem? hk
      refine ⟨pre, by show b.fetched + 1 ≤ _; omega, ?_, ?_, ?_, metaVals⟩
      · intro hc
        have : b.f.tasksClosed = true := by rw [← e4]; exact hc
        rw [hcl] at this; cases this
      · intro k
        show Declared (fetch b.f tx.id tx.fetchKeys).1 k ↔ ∃ t ∈ blk.txs.take (b.fetched + 1), k ∈ t.fetchKeys
        rw [declared_iff_keysOf, htake]
        constructor
        · rintro ⟨r, ks, h1, h2⟩
          by_cases er : r = b.f.nrecs
          · subst er; rw [e1] at h1; cases h1
            exact ⟨tx, by simp, h2⟩
          · rw [e2 r er] at h1
            obtain ⟨t, ht, hkt⟩ := (decl k).1 ((declared_iff_keysOf _ _).2 ⟨r, ks, h1, h2⟩)
            exact ⟨t, by simp [ht], hkt⟩
        · rintro ⟨t, ht, hkt⟩
          simp only [List.mem_append, List.mem_singleton] at ht
          rcases ht with ht | rfl
          · obtain ⟨r, ks, h1, h2⟩ := (declared_iff_keysOf _ _).1 ((decl k).2 ⟨t, ht, hkt⟩)
            have er : r ≠ b.f.nrecs := by
              rintro rfl; simp [keysOf, hfresh] at h1
            exact ⟨r, ks, by rw [e2 r er]; exact h1, h2⟩
          · exact ⟨b.f.nrecs, _, e1, hkt⟩
      · intro t ht
        show ∃ r rc, (fetch b.f tx.id tx.fetchKeys).1.txs t.id = some r ∧
          (fetch b.f tx.id tx.fetchKeys).1.recs r = some rc ∧ rc.keys = t.fetchKeys
        rw [htake] at ht
        simp only [List.mem_append, List.mem_singleton] at ht
        have hnew : ∃ rc, (fetch b.f tx.id tx.fetchKeys).1.recs b.f.nrecs = some rc ∧ rc.keys = tx.fetchKeys := by
          unfold keysOf at e1
          cases hr : (fetch b.f tx.id tx.fetchKeys).1.recs b.f.nrecs with
          | none => rw [hr] at e1; cases e1
          | some rc => rw [hr] at e1; simp at e1; exact ⟨rc, rfl, e1⟩
        by_cases eid : t.id = tx.id
        · obtain ⟨rc, h1, h2⟩ := hnew
          have htm : t ∈ blk.txs := by
            rcases ht with ht | rfl
            · exact List.mem_of_mem_take ht
            · exact htxmem
          exact ⟨b.f.nrecs, rc, by rw [e3]; simp [upd, eid], h1, by rw [h2]; exact (hid t htm tx htxmem eid).symm⟩
        · rcases ht with ht | rfl
          · obtain ⟨r, rc, h1, h2, h3⟩ := recsOk t ht
            have er : r ≠ b.f.nrecs := by rintro rfl; rw [hfresh] at h2; cases h2
            have hk2 := e2 r er
            unfold keysOf at hk2
            rw [h2] at hk2
            cases hr : (fetch b.f tx.id tx.fetchKeys).1.recs r with
            | none => rw [hr] at hk2; cases hk2
            | some rc' =>
              rw [hr] at hk2; simp at hk2
              exact ⟨r, rc', by rw [e3]; simp [upd, eid, h1], hr, by rw [hk2]; exact h3⟩
          · exact absurd rfl eid
    | .fetchErr _ tx hf hm hk herr =>
      exact ⟨pre, fl, closed, decl, recsOk, fun h => by cases h⟩
    | .waitCall _ hf hm hfe hs =>
      refine ⟨pre, fl, fun _ => ⟨hm, hfe⟩, ?_, recsOk, metaVals⟩
      intro k; exact decl k
    | .inner _ s' hi =>
      obtain ⟨k1, k2, k3⟩ := inner_keeps hi
      refine ⟨pre, fl, ?_, ?_, ?_, metaVals⟩
      · intro hc; exact closed (by rw [← k3]; exact hc)
      · intro k
        show Declared s' k ↔ _
        rw [declared_iff_keysOf, ← decl k, declared_iff_keysOf]
        constructor <;> (rintro ⟨r, ks, h1, h2⟩; exact ⟨r, ks, by simpa [k1 r] using h1, h2⟩)
      · intro t ht
        obtain ⟨r, rc, h1, h2, h3⟩ := recsOk t ht
        have hk := k1 r
        unfold keysOf at hk
        rw [h2] at hk
        show ∃ r rc, s'.txs t.id = some r ∧ s'.recs r = some rc ∧ rc.keys = t.fetchKeys
        cases hr : s'.recs r with
        | none => rw [hr] at hk; cases hk
        | some rc' =>
          rw [hr] at hk; simp at hk
          exact ⟨r, rc', by rw [k2]; exact h1, hr, by rw [hk]; exact h3⟩

end HyperModel.Fetcher
