import HyperModel.Proofs.Snow
/-! Frame lemmas: what every normal-operation step preserves about already allocated objects. -/
namespace HyperModel.Snow

structure Frame (s s' : State) : Prop where
  nobj : s.nobj ≤ s'.nobj
  blk : ∀ h, h < s.nobj → (s'.obj h).blk = (s.obj h).blk
  ver : ∀ h, h < s.nobj → (s.obj h).verified = true →
    (s'.obj h).verified = true ∧ (s'.obj h).out = (s.obj h).out

theorem Frame.refl (s : State) : Frame s s := ⟨Nat.le_refl _, fun _ _ => rfl, fun _ _ hv => ⟨hv, rfl⟩⟩

theorem Frame.trans {a b c : State} (h1 : Frame a b) (h2 : Frame b c) : Frame a c := by
  refine ⟨Nat.le_trans h1.nobj h2.nobj, ?_, ?_⟩
  · intro h hh
    rw [h2.blk h (Nat.lt_of_lt_of_le hh h1.nobj), h1.blk h hh]
  · intro h hh hv
    obtain ⟨a1, a2⟩ := h1.ver h hh hv
    obtain ⟨b1, b2⟩ := h2.ver h (Nat.lt_of_lt_of_le hh h1.nobj) a1
    exact ⟨b1, by rw [b2, a2]⟩

theorem Frame.of_eq {s s' : State} (h1 : s'.objs = s.objs) (h2 : s'.nobj = s.nobj) : Frame s s' := by
  have ho : ∀ h, s'.obj h = s.obj h := by intro h; simp [State.obj, h1]
  exact ⟨by omega, fun h _ => by rw [ho], fun h _ hv => by rw [ho]; exact ⟨hv, rfl⟩⟩

theorem Frame.alloc (s : State) (o : Obj) : Frame s (s.alloc o).1 := by
  refine ⟨by simp [State.alloc], ?_, ?_⟩
  · intro h hh
    have : h ≠ s.nobj := by omega
    simp [obj_alloc, this]
  · intro h hh hv
    have : h ≠ s.nobj := by omega
    simp [obj_alloc, this, hv]

theorem Frame.setObj {s : State} (h : Nat) (o : Obj) (hb : o.blk = (s.obj h).blk)
    (hv : (s.obj h).verified = true → o.verified = true ∧ o.out = (s.obj h).out) : Frame s (s.setObj h o) := by
  refine ⟨Nat.le_refl _, ?_, ?_⟩
  · intro j _
    simp only [obj_setObj]; split
    · rename_i e; subst e; exact hb
    · rfl
  · intro j _ hj
    simp only [obj_setObj]; split
    · rename_i e; subst e; exact hv hj
    · exact ⟨hj, rfl⟩

theorem Frame.of_objs {s s' : State} (h : Nat) (hn : s'.nobj = s.nobj)
    (ho : ∀ j, j ≠ h → s'.obj j = s.obj j) (hb : (s'.obj h).blk = (s.obj h).blk)
    (hv : (s.obj h).verified = true → (s'.obj h).verified = true ∧ (s'.obj h).out = (s.obj h).out) :
    Frame s s' := by
  refine ⟨by omega, ?_, ?_⟩
  · intro j _
    by_cases e : j = h
    · subst e; exact hb
    · rw [ho j e]
  · intro j _ hj
    by_cases e : j = h
    · subst e; exact hv hj
    · rw [ho j e]; exact ⟨hj, rfl⟩

theorem Frame.materialize (s : State) (f : Found) : Frame s (s.materialize f).1 := by
  cases f with
  | obj h => exact Frame.refl s
  | bare b => exact Frame.alloc s _
  | missing => exact Frame.refl s

theorem Frame.get (s : State) (id : Nat) : Frame s (get s id).1 := by
  unfold HyperModel.Snow.get
  have := Frame.materialize s (s.getBlock id)
  split <;> simp_all

theorem Frame.getH (s : State) (ht : Nat) : Frame s (getH s ht).1 := by
  unfold HyperModel.Snow.getH
  split
  · exact Frame.refl s
  · split
    · exact Frame.refl s
    · split
      · exact Frame.refl s
      · exact Frame.get s _

theorem Frame.parseNew (s : State) (b : Blk) : Frame s (parseNew s b).1 := by
  unfold HyperModel.Snow.parseNew
  exact (Frame.alloc (s.emit (.cParse b)) _).trans (Frame.of_eq rfl rfl) |> fun h =>
    (Frame.of_eq (s := s) (s' := s.emit (.cParse b)) rfl rfl).trans h

theorem Frame.parse (s : State) (b : Blk) : Frame s (parse s b).1 := by
  unfold HyperModel.Snow.parse
  have h1 : Frame s { s with parsed := (s.parsed.get b.id).1 } := Frame.of_eq rfl rfl
  split
  · split
    · exact h1
    · exact h1.trans (Frame.parseNew _ b)
  · have := Frame.materialize s (s.getBlock b.id)
    split <;> simp_all

theorem Frame.build (s : State) (n : Nat) (c : Option Nat) : Frame s (build s n c).1 := by
  unfold HyperModel.Snow.build
  dsimp only
  split
  · exact Frame.refl s
  · split
    · exact Frame.of_eq rfl rfl
    · exact ((Frame.of_eq (s := s) (s' := State.emit s _) rfl rfl).trans
        (Frame.alloc _ _)).trans (Frame.of_eq rfl rfl)

theorem Frame.verify (s : State) (h : Nat) (c : Option Nat) : Frame s (verify s h c).1 := by
  unfold HyperModel.Snow.verify
  dsimp only
  split
  · exact Frame.of_eq rfl rfl
  · split
    · split
      · exact Frame.of_eq rfl rfl
      · exact Frame.refl s
    · rename_i hnv
      split
      · exact Frame.refl s
      · split
        · exact Frame.refl s
        · split
          · exact Frame.refl s
          · split
            · exact Frame.of_eq rfl rfl
            · refine Frame.of_objs h rfl ?_ ?_ ?_
              · intro j hj; simp [hj]
              · simp
              · intro hv; simp_all

theorem Frame.accept (s : State) (h : Nat) : Frame s (accept s h).1 := by
  unfold HyperModel.Snow.accept
  dsimp only
  split
  · exact Frame.refl s
  · split
    · exact Frame.refl s
    · split
      · exact Frame.refl s
      · split <;> exact Frame.of_eq rfl rfl

theorem Frame.reject (s : State) (h : Nat) : Frame s (reject s h).1 := by
  unfold HyperModel.Snow.reject
  dsimp only
  split <;> exact Frame.of_eq rfl rfl

theorem Frame.deq (s : State) : Frame s (deq s).1 := by
  unfold HyperModel.Snow.deq
  split
  · split <;> exact Frame.of_eq rfl rfl
  · exact Frame.refl s

theorem Frame.fin (s : State) : Frame s (fin s).1 := by
  unfold HyperModel.Snow.fin
  split
  · exact Frame.refl s
  · rename_i h pa _
    dsimp only
    refine Frame.of_objs h rfl ?_ ?_ ?_
    · intro j hj
      show ((s.emit _).setObj h _).obj j = s.obj j
      simp [hj]
    · show (((s.emit _).setObj h _).obj h).blk = _
      simp
    · intro hv
      show (((s.emit _).setObj h _).obj h).verified = true ∧ (((s.emit _).setObj h _).obj h).out = _
      simp [hv]

end HyperModel.Snow

namespace HyperModel.Snow

/-! ### The engine's decisions versus the log -/

/-- accepted blocks the accepter has not finished: the one in flight, then the channel -/
def State.pend (s : State) : List Nat :=
  (match s.inflight with | some (h, _) => [h] | none => []) ++ s.queue

/-- `l` is a chain hanging off `p`: parent links and consecutive heights -/
def linked : Blk → List Blk → Bool
  | _, [] => true
  | p, b :: r => b.parent == p.id && b.height == p.height + 1 && linked b r

def lastOr (p : Blk) : List Blk → Blk
  | [] => p
  | b :: r => lastOr b r

theorem linked_append (p : Blk) (l : List Blk) (b : Blk) :
    linked p (l ++ [b]) = (linked p l && (b.parent == (lastOr p l).id && b.height == (lastOr p l).height + 1)) := by
  induction l generalizing p with
  | nil => simp [linked, lastOr]
  | cons a r ih => simp [linked, lastOr, ih, Bool.and_assoc]

theorem lastOr_append (p : Blk) (l : List Blk) (b : Blk) : lastOr p (l ++ [b]) = b := by
  induction l generalizing p with
  | nil => rfl
  | cons a r ih => simp [lastOr, ih]

structure Link (g : Blk) (s : State) (e : Eng) : Prop where
  proc : ∀ h ∈ e.processing, h < s.nobj ∧ (s.obj h).verified = true
  acc : acceptLog s.log ++ s.pend.map (fun h => (s.obj h).blk) = e.accepts
  nacc : nAcc s.log = acc0 g :: acceptRes s.log
  nver : nVer s.log = verifyRes s.log
  verifs : (verifyRes s.log).map (·.blk) = e.verifs
  nrej : nRej s.log = e.rejects
  npre : nPre s.log = []
  chain : linked g e.accepts = true ∧ lastOr g e.accepts = e.lastAcc
  la : (s.obj s.lastAccepted).blk = e.lastAcc ∧ s.lastAccepted < s.nobj
  nodup : (e.procIds s).Nodup
  fresh : ∀ id ∈ e.procIds s, id ∉ e.decided
  accDec : ∀ b ∈ e.accepts, b.id ∈ e.decided
  rejDec : ∀ b ∈ e.rejects, b.id ∈ e.decided
  disj : ∀ a ∈ e.accepts, ∀ r ∈ e.rejects, a.id ≠ r.id

def quiet : Event → Bool
  | .cParse _ | .cBuild _ _ | .cVerify _ _ none => true
  | _ => false

theorem quiet_filters (ev : List Event) (hq : ∀ x ∈ ev, quiet x = true) :
    acceptLog ev = [] ∧ acceptRes ev = [] ∧ nAcc ev = [] ∧ verifyRes ev = [] ∧ nVer ev = [] ∧
    nRej ev = [] ∧ nPre ev = [] := by
  induction ev with
  | nil => simp [acceptLog, acceptRes, nAcc, verifyRes, nVer, nRej, nPre]
  | cons x r ih =>
    have hx := hq x List.mem_cons_self
    have hr := ih (fun y hy => hq y (List.mem_cons_of_mem _ hy))
    obtain ⟨h1, h2, h3, h4, h5, h6, h7⟩ := hr
    cases x <;> simp_all [quiet, acceptLog, acceptRes, nAcc, verifyRes, nVer, nRej, nPre] <;>
      (rename_i r; cases r <;> simp_all [quiet])

theorem procIds_frame {s s' : State} {e : Eng} (hf : Frame s s')
    (hp : ∀ h ∈ e.processing, h < s.nobj) : e.procIds s' = e.procIds s := by
  unfold Eng.procIds
  apply List.map_congr_left
  intro h hh
  rw [hf.blk h (hp h hh)]

theorem pend_blk_frame {s s' : State} (hf : Frame s s') (l : List Nat) (hp : ∀ h ∈ l, h < s.nobj) :
    l.map (fun h => (s'.obj h).blk) = l.map (fun h => (s.obj h).blk) := by
  apply List.map_congr_left
  intro h hh
  rw [hf.blk h (hp h hh)]

theorem mem_pend {s : State} {h : Nat} (hh : h ∈ s.pend) : h ∈ s.queue ∨ ∃ pa, s.inflight = some (h, pa) := by
  unfold State.pend at hh
  rcases List.mem_append.mp hh with h1 | h1
  · split at h1
    · rename_i h' pa hi
      simp only [List.mem_singleton] at h1; subst h1
      exact Or.inr ⟨pa, hi⟩
    · simp at h1
  · exact Or.inl h1

/-- steps that decide nothing, leave the accept pipeline alone and log only quiet events -/
theorem Link.passive {g s s' e} (hl : Link g s e) (hh : Heap g s) (hf : Frame s s')
    (hq : s'.queue = s.queue) (hi : s'.inflight = s.inflight) (hla : s'.lastAccepted = s.lastAccepted)
    (ev : List Event) (hlog : s'.log = s.log ++ ev) (hquiet : ∀ x ∈ ev, quiet x = true) : Link g s' e := by
  obtain ⟨q1, q2, q3, q4, q5, q6, q7⟩ := quiet_filters ev hquiet
  have hpend : s'.pend = s.pend := by simp [State.pend, hq, hi]
  have hpid := procIds_frame (e := e) hf (fun h hh' => (hl.proc h hh').1)
  refine ⟨?_, ?_, ?_, ?_, ?_, ?_, ?_, hl.chain, ?_, ?_, ?_, hl.accDec, hl.rejDec, hl.disj⟩
  · intro h hh'
    obtain ⟨a1, a2⟩ := hl.proc h hh'
    exact ⟨Nat.lt_of_lt_of_le a1 hf.nobj, (hf.ver h a1 a2).1⟩
  · rw [hlog, hpend, pend_blk_frame hf _ (fun h hh' => (hh.queue h (mem_pend hh')).1)]
    have : acceptLog (s.log ++ ev) = acceptLog s.log := by simp [acceptLog, List.filterMap_append] at q1 ⊢; exact q1
    rw [this]; exact hl.acc
  · rw [hlog]
    have a : nAcc (s.log ++ ev) = nAcc s.log := by simp [nAcc, List.filterMap_append] at q3 ⊢; exact q3
    have b : acceptRes (s.log ++ ev) = acceptRes s.log := by simp [acceptRes, List.filterMap_append] at q2 ⊢; exact q2
    rw [a, b]; exact hl.nacc
  · rw [hlog]
    have a : nVer (s.log ++ ev) = nVer s.log := by simp [nVer, List.filterMap_append] at q5 ⊢; exact q5
    have b : verifyRes (s.log ++ ev) = verifyRes s.log := by simp [verifyRes, List.filterMap_append] at q4 ⊢; exact q4
    rw [a, b]; exact hl.nver
  · rw [hlog]
    have b : verifyRes (s.log ++ ev) = verifyRes s.log := by simp [verifyRes, List.filterMap_append] at q4 ⊢; exact q4
    rw [b]; exact hl.verifs
  · rw [hlog]
    have a : nRej (s.log ++ ev) = nRej s.log := by simp [nRej, List.filterMap_append] at q6 ⊢; exact q6
    rw [a]; exact hl.nrej
  · rw [hlog]
    have a : nPre (s.log ++ ev) = nPre s.log := by simp [nPre, List.filterMap_append] at q7 ⊢; exact q7
    rw [a]; exact hl.npre
  · rw [hla, hf.blk _ hl.la.2]; exact ⟨hl.la.1, Nat.lt_of_lt_of_le hl.la.2 hf.nobj⟩
  · rw [hpid]; exact hl.nodup
  · rw [hpid]; exact hl.fresh

end HyperModel.Snow

namespace HyperModel.Snow

theorem proc_frame {s s' : State} {P : List Nat} (hf : Frame s s')
    (hp : ∀ h ∈ P, h < s.nobj ∧ (s.obj h).verified = true) :
    ∀ h ∈ P, h < s'.nobj ∧ (s'.obj h).verified = true := by
  intro h hh
  obtain ⟨a1, a2⟩ := hp h hh
  exact ⟨Nat.lt_of_lt_of_le a1 hf.nobj, (hf.ver h a1 a2).1⟩

theorem upd_err (e : Eng) (s : State) (op : Op) (w : String) : e.upd s op (.err w) = e := by
  cases op <;> rfl

/-- `pre` for `verify` spelled out -/
theorem pre_verify {s : State} {e : Eng} {h : Nat} {c : Option Nat} (hp : pre s e (.verify h c) = true) :
    h < s.nobj ∧ h ∉ e.processing ∧ (s.obj h).blk.id ∉ e.decided ∧ (s.obj h).blk.id ∉ e.procIds s := by
  simp only [pre, Bool.and_eq_true, Bool.not_eq_true', decide_eq_true_eq] at hp
  obtain ⟨⟨⟨⟨a, b⟩, c⟩, d⟩, _⟩ := hp
  refine ⟨a, ?_, ?_, ?_⟩
  · intro hc; simp [List.contains_iff_mem, hc] at b
  · intro hc; simp [List.contains_iff_mem, hc] at c
  · intro hc; simp [List.contains_iff_mem, hc] at d

theorem Link.verify {g s e} (hl : Link g s e) (hh : Heap g s) (h : Nat) (c : Option Nat)
    (hp : pre s e (.verify h c) = true) :
    Link g (verify s h c).1 (e.upd s (.verify h c) (verify s h c).2) := by
  obtain ⟨hlt, hnp, hnd, hnpi⟩ := pre_verify hp
  have hfr := Frame.verify s h c
  have hpid := procIds_frame (e := e) hfr (fun j hj => (hl.proc j hj).1)
  have hblk := hfr.blk h hlt
  have hpendblk := pend_blk_frame hfr s.pend (fun j hj => (hh.queue j (mem_pend hj)).1)
  have hlablk := hfr.blk _ hl.la.2
  have hprocf := proc_frame hfr hl.proc
  revert hfr hpid hblk hpendblk hlablk hprocf
  unfold HyperModel.Snow.verify
  dsimp only
  simp only [hh.ready, Bool.not_true, Bool.false_eq_true, if_false]
  split
  next hv =>
    split
    next =>
      -- already verified (built block / second object): vacuous
      intro hfr hpid hblk hpendblk hlablk hprocf
      have hup : e.upd s (.verify h c) .ok = { e with processing := e.processing ++ [h] } := by
        simp [Eng.upd, hh.ready, hv]
      rw [hup]
      refine ⟨?_, hl.acc, hl.nacc, hl.nver, hl.verifs, hl.nrej, hl.npre, hl.chain, hl.la, ?_, ?_,
        hl.accDec, hl.rejDec, hl.disj⟩
      · intro j hj
        rcases List.mem_append.mp hj with hj | hj
        · exact hl.proc j hj
        · simp only [List.mem_singleton] at hj; subst hj; exact ⟨hlt, hv⟩
      · show ((e.processing ++ [h]).map _).Nodup
        rw [List.map_append, List.nodup_append]
        refine ⟨hl.nodup, by simp, ?_⟩
        intro a ha b hb
        simp only [List.map_cons, List.map_nil, List.mem_singleton] at hb
        subst hb
        intro hc; subst hc; exact hnpi ha
      · intro id hid
        have : id ∈ e.procIds s ∨ id = (s.obj h).blk.id := by
          simpa [Eng.procIds, List.map_append] using hid
        rcases this with h1 | h1
        · exact hl.fresh id h1
        · subst h1; exact hnd
    next => intro _ _ _ _ _ _; rw [upd_err]; exact hl
  next hnv =>
    split
    next => intro _ _ _ _ _ _; rw [upd_err]; exact hl
    next p hview =>
      split
      next => intro _ _ _ _ _ _; rw [upd_err]; exact hl
      next hpv =>
        split
        next => intro _ _ _ _ _ _; rw [upd_err]; exact hl
        next =>
          split
          next hnone =>
            -- inner verification failed
            intro hfr _ _ _ _ _
            rw [upd_err]
            exact hl.passive hh hfr rfl rfl rfl [_] rfl (by
              intro x hx; simp only [List.mem_singleton] at hx; subst hx; rw [hnone]; rfl)
          next out hout =>
            intro hfr hpid hblk hpendblk hlablk hprocf
            have hv : (s.obj h).verified = false := by simpa using hnv
            have hup : e.upd s (.verify h c) .ok =
                { e with processing := e.processing ++ [h], verifs := e.verifs ++ [(s.obj h).blk] } := by
              simp [Eng.upd, hh.ready, hv]
            rw [hup]
            refine ⟨?_, ?_, ?_, ?_, ?_, ?_, ?_, hl.chain, ?_, ?_, ?_, hl.accDec, hl.rejDec, hl.disj⟩
            · intro j hj
              rcases List.mem_append.mp hj with hj | hj
              · exact hprocf j hj
              · simp only [List.mem_singleton] at hj; subst hj
                exact ⟨hlt, by simp⟩
            · show acceptLog (s.log ++ [_] ++ [_]) ++ _ = _
              have : State.pend (((s.emit (.cVerify p.out (s.obj h).blk (chainVerify p.out (s.obj h).blk))).setObj h
                  { s.obj h with out := some out, verified := true }).emit (.nVerified out) |>.vbSet (s.obj h).blk.id h) = s.pend := rfl
              rw [this, hpendblk]
              simp only [acceptLog, List.filterMap_append, hout]
              simpa [acceptLog] using hl.acc
            · show nAcc (s.log ++ [_] ++ [_]) = acc0 g :: acceptRes (s.log ++ [_] ++ [_])
              simp only [nAcc, acceptRes, List.filterMap_append, hout]
              simpa [nAcc, acceptRes] using hl.nacc
            · show nVer (s.log ++ [_] ++ [_]) = verifyRes (s.log ++ [_] ++ [_])
              simp only [nVer, verifyRes, List.filterMap_append, hout]
              simpa [nVer, verifyRes] using hl.nver
            · show (verifyRes (s.log ++ [_] ++ [_])).map (·.blk) = _
              simp only [verifyRes, List.filterMap_append, hout]
              have := hl.verifs
              simp only [verifyRes] at this
              simp [this, chainVerify_blk hout]
            · show nRej (s.log ++ [_] ++ [_]) = _
              simp only [nRej, List.filterMap_append, hout]
              simpa [nRej] using hl.nrej
            · show nPre (s.log ++ [_] ++ [_]) = _
              simp only [nPre, List.filterMap_append, hout]
              simpa [nPre] using hl.npre
            · exact ⟨by rw [← hl.la.1]; exact hlablk, hl.la.2⟩
            · show ((e.processing ++ [h]).map _).Nodup
              rw [List.map_append, List.nodup_append]
              refine ⟨by rw [show e.processing.map _ = e.procIds _ from rfl, hpid]; exact hl.nodup, by simp, ?_⟩
              intro a ha b hb
              simp only [List.map_cons, List.map_nil, List.mem_singleton] at hb
              subst hb
              rw [show e.processing.map _ = e.procIds _ from rfl, hpid] at ha
              rw [hblk]
              intro hc; subst hc; exact hnpi ha
            · intro id hid
              have hid' : id ∈ e.processing.map (fun q => ((((s.emit (.cVerify p.out (s.obj h).blk (chainVerify p.out (s.obj h).blk))).setObj h
                  { s.obj h with out := some out, verified := true }).emit (.nVerified out) |>.vbSet (s.obj h).blk.id h).obj q).blk.id) ∨
                  id = (s.obj h).blk.id := by
                have : id ∈ (e.processing ++ [h]).map _ := hid
                rw [List.map_append, List.mem_append] at this
                rcases this with t | t
                · exact Or.inl t
                · right; simp only [List.map_cons, List.map_nil, List.mem_singleton] at t; rw [t, hblk]
              rcases hid' with h1 | h1
              · rw [show e.processing.map _ = e.procIds _ from rfl, hpid] at h1
                exact hl.fresh id h1
              · subst h1; exact hnd

end HyperModel.Snow

namespace HyperModel.Snow

theorem erase_facts (f : Nat → Nat) (l : List Nat) (h : Nat) (hn : (l.map f).Nodup) (hh : h ∈ l) :
    ((l.erase h).map f).Nodup ∧ (∀ x ∈ (l.erase h).map f, x ∈ l.map f ∧ x ≠ f h) := by
  induction l with
  | nil => simp at hh
  | cons a r ih =>
    simp only [List.map_cons, List.nodup_cons] at hn
    obtain ⟨hna, hnr⟩ := hn
    by_cases e : a = h
    · subst e
      simp only [List.erase_cons_head]
      refine ⟨hnr, ?_⟩
      intro x hx
      exact ⟨List.mem_cons_of_mem _ hx, by intro hc; subst hc; exact hna hx⟩
    · have hh' : h ∈ r := by
        rcases List.mem_cons.mp hh with h1 | h1
        · exact absurd h1.symm e
        · exact h1
      obtain ⟨i1, i2⟩ := ih hnr hh'
      have hbe : (a == h) = false := by simp [e]
      rw [List.erase_cons_tail (by simp [e])]
      simp only [List.map_cons, List.nodup_cons]
      refine ⟨⟨?_, i1⟩, ?_⟩
      · intro hc; exact hna (i2 _ hc).1
      · intro x hx
        rcases List.mem_cons.mp hx with h1 | h1
        · subst h1
          refine ⟨List.mem_cons_self, ?_⟩
          intro hc
          exact hna (by rw [hc]; exact List.mem_map_of_mem hh')
        · exact ⟨List.mem_cons_of_mem _ (i2 x h1).1, (i2 x h1).2⟩

theorem pre_accept {s : State} {e : Eng} {h : Nat} (hp : pre s e (.accept h) = true) :
    h ∈ e.processing ∧ (s.obj h).blk.parent = e.lastAcc.id ∧ (s.obj h).blk.height = e.lastAcc.height + 1 := by
  simp only [pre, Bool.and_eq_true, beq_iff_eq] at hp
  obtain ⟨⟨⟨⟨a, b⟩, c⟩, _⟩, _⟩ := hp
  exact ⟨by simpa [List.contains_iff_mem] using a, b, c⟩

theorem pre_reject {s : State} {e : Eng} {h : Nat} (hp : pre s e (.reject h) = true) : h ∈ e.processing := by
  simp only [pre, Bool.and_eq_true] at hp
  obtain ⟨⟨a, _⟩, _⟩ := hp
  simpa [List.contains_iff_mem] using a

theorem Link.accept {g s e} (hl : Link g s e) (hh : Heap g s) (h : Nat)
    (hp : pre s e (.accept h) = true) :
    Link g (accept s h).1 (e.upd s (.accept h) (accept s h).2) := by
  obtain ⟨hproc, hpar, hhei⟩ := pre_accept hp
  obtain ⟨hlt, hver⟩ := hl.proc h hproc
  obtain ⟨en, ef⟩ := erase_facts (fun p => (s.obj p).blk.id) e.processing h hl.nodup hproc
  unfold HyperModel.Snow.accept
  dsimp only
  simp only [hh.ready, Bool.true_and, if_true]
  split
  next => rw [upd_err]; exact hl
  next =>
    split
    next => rw [upd_err]; exact hl
    next =>
      split
      next => rw [upd_err]; exact hl
      next ix hix =>
        have hbid : (s.obj h).blk.id ∈ e.procIds s := List.mem_map_of_mem (f := fun p => (s.obj p).blk.id) hproc
        refine ⟨?_, ?_, hl.nacc, hl.nver, hl.verifs, hl.nrej, hl.npre, ?_, ⟨rfl, hlt⟩, en, ?_, ?_, ?_, ?_⟩
        · intro j hj
          exact hl.proc j (List.mem_of_mem_erase hj)
        · show acceptLog s.log ++ ((match s.inflight with | some (h, _) => [h] | none => []) ++ (s.queue ++ [h])).map
            (fun j => (s.obj j).blk) = e.accepts ++ [(s.obj h).blk]
          rw [← hl.acc]
          simp [State.pend, List.map_append]
        · show linked g (e.accepts ++ [(s.obj h).blk]) = true ∧ lastOr g (e.accepts ++ [(s.obj h).blk]) = (s.obj h).blk
          rw [linked_append, lastOr_append, hl.chain.1, hl.chain.2]
          simp [hpar, hhei]
        · intro id hid
          obtain ⟨a1, a2⟩ := ef id hid
          show id ∉ e.decided ++ [(s.obj h).blk.id]
          simp only [List.mem_append, List.mem_singleton, not_or]
          exact ⟨hl.fresh id a1, a2⟩
        · intro b hb
          show b.id ∈ e.decided ++ [(s.obj h).blk.id]
          have hb' : b ∈ e.accepts ++ [(s.obj h).blk] := hb
          rcases List.mem_append.mp hb' with h1 | h1
          · exact List.mem_append_left _ (hl.accDec b h1)
          · simp only [List.mem_singleton] at h1; subst h1; simp
        · intro b hb
          show b.id ∈ e.decided ++ [(s.obj h).blk.id]
          exact List.mem_append_left _ (hl.rejDec b hb)
        · intro a ha r hr
          have ha' : a ∈ e.accepts ++ [(s.obj h).blk] := ha
          rcases List.mem_append.mp ha' with h1 | h1
          · exact hl.disj a h1 r hr
          · simp only [List.mem_singleton] at h1; subst h1
            intro hc
            exact hl.fresh _ hbid (by rw [hc]; exact hl.rejDec r hr)

theorem Link.reject {g s e} (hl : Link g s e) (hh : Heap g s) (h : Nat)
    (hp : pre s e (.reject h) = true) :
    Link g (reject s h).1 (e.upd s (.reject h) (reject s h).2) := by
  have hproc := pre_reject hp
  obtain ⟨hlt, hver⟩ := hl.proc h hproc
  obtain ⟨o, ho1, ho2, _⟩ := hh.ver h hver
  obtain ⟨en, ef⟩ := erase_facts (fun p => (s.obj p).blk.id) e.processing h hl.nodup hproc
  have hbid : (s.obj h).blk.id ∈ e.procIds s := List.mem_map_of_mem (f := fun p => (s.obj p).blk.id) hproc
  unfold HyperModel.Snow.reject
  dsimp only
  simp only [hver, Bool.not_true, Bool.false_eq_true, if_false]
  have hup : e.upd s (.reject h) .ok =
      { e with processing := e.processing.erase h, decided := e.decided ++ [(s.obj h).blk.id], rejects := e.rejects ++ [(s.obj h).blk] } := rfl
  rw [hup]
  refine ⟨?_, ?_, ?_, ?_, ?_, ?_, ?_, hl.chain, hl.la, en, ?_, ?_, ?_, ?_⟩
  · intro j hj
    exact hl.proc j (List.mem_of_mem_erase hj)
  · show acceptLog (s.log ++ [_]) ++ s.pend.map (fun j => (s.obj j).blk) = e.accepts
    simp only [acceptLog, List.filterMap_append]
    simpa [acceptLog] using hl.acc
  · show nAcc (s.log ++ [_]) = acc0 g :: acceptRes (s.log ++ [_])
    simp only [nAcc, acceptRes, List.filterMap_append]
    simpa [nAcc, acceptRes] using hl.nacc
  · show nVer (s.log ++ [_]) = verifyRes (s.log ++ [_])
    simp only [nVer, verifyRes, List.filterMap_append]
    simpa [nVer, verifyRes] using hl.nver
  · show (verifyRes (s.log ++ [_])).map (·.blk) = _
    have := hl.verifs
    simp only [verifyRes] at this
    simp [verifyRes, List.filterMap_append, this]
  · show nRej (s.log ++ [.nRejected (s.obj h).out]) = e.rejects ++ [(s.obj h).blk]
    rw [ho1, ← hl.nrej]
    simp [nRej, List.filterMap_append, ho2]
  · show nPre (s.log ++ [_]) = []
    simp only [nPre, List.filterMap_append]
    simpa [nPre] using hl.npre
  · intro id hid
    obtain ⟨a1, a2⟩ := ef id hid
    show id ∉ e.decided ++ [(s.obj h).blk.id]
    simp only [List.mem_append, List.mem_singleton, not_or]
    exact ⟨hl.fresh id a1, a2⟩
  · intro b hb
    show b.id ∈ e.decided ++ [(s.obj h).blk.id]
    exact List.mem_append_left _ (hl.accDec b hb)
  · intro b hb
    show b.id ∈ e.decided ++ [(s.obj h).blk.id]
    have hb' : b ∈ e.rejects ++ [(s.obj h).blk] := hb
    rcases List.mem_append.mp hb' with h1 | h1
    · exact List.mem_append_left _ (hl.rejDec b h1)
    · simp only [List.mem_singleton] at h1; subst h1; simp
  · intro a ha r hr
    have hr' : r ∈ e.rejects ++ [(s.obj h).blk] := hr
    rcases List.mem_append.mp hr' with h1 | h1
    · exact hl.disj a ha r h1
    · simp only [List.mem_singleton] at h1; subst h1
      intro hc
      exact hl.fresh _ hbid (by rw [← hc]; exact hl.accDec a ha)

end HyperModel.Snow

namespace HyperModel.Snow

/-- a step that leaves the accept pipeline alone and logs only quiet events -/
structure Passive (s s' : State) : Prop where
  q : s'.queue = s.queue
  i : s'.inflight = s.inflight
  la : s'.lastAccepted = s.lastAccepted
  log : ∃ ev, s'.log = s.log ++ ev ∧ ∀ x ∈ ev, quiet x = true

theorem Passive.refl (s : State) : Passive s s := ⟨rfl, rfl, rfl, [], by simp, by simp⟩

theorem Passive.trans {a b c : State} (h1 : Passive a b) (h2 : Passive b c) : Passive a c := by
  obtain ⟨e1, l1, q1⟩ := h1.log
  obtain ⟨e2, l2, q2⟩ := h2.log
  refine ⟨by rw [h2.q, h1.q], by rw [h2.i, h1.i], by rw [h2.la, h1.la], e1 ++ e2, by rw [l2, l1, List.append_assoc], ?_⟩
  intro x hx
  rcases List.mem_append.mp hx with h | h
  · exact q1 x h
  · exact q2 x h

theorem Passive.of_eq {s s' : State} (h1 : s'.queue = s.queue) (h2 : s'.inflight = s.inflight)
    (h3 : s'.lastAccepted = s.lastAccepted) (h4 : s'.log = s.log) : Passive s s' :=
  ⟨h1, h2, h3, [], by simp [h4], by simp⟩

theorem Passive.emit (s : State) (e : Event) (hq : quiet e = true) : Passive s (s.emit e) :=
  ⟨rfl, rfl, rfl, [e], rfl, by intro x hx; simp only [List.mem_singleton] at hx; subst hx; exact hq⟩

theorem Passive.alloc (s : State) (o : Obj) : Passive s (s.alloc o).1 := Passive.of_eq rfl rfl rfl rfl

theorem Passive.materialize (s : State) (f : Found) : Passive s (s.materialize f).1 := by
  cases f with
  | obj h => exact Passive.refl s
  | bare b => exact Passive.alloc s _
  | missing => exact Passive.refl s

theorem Passive.get (s : State) (id : Nat) : Passive s (get s id).1 := by
  unfold HyperModel.Snow.get
  have := Passive.materialize s (s.getBlock id)
  split <;> simp_all

theorem Passive.getH (s : State) (ht : Nat) : Passive s (getH s ht).1 := by
  unfold HyperModel.Snow.getH
  split
  · exact Passive.refl s
  · split
    · exact Passive.refl s
    · split
      · exact Passive.refl s
      · exact Passive.get s _

theorem Passive.parseNew (s : State) (b : Blk) : Passive s (parseNew s b).1 := by
  unfold HyperModel.Snow.parseNew
  exact ⟨rfl, rfl, rfl, [.cParse b], rfl, by intro x hx; simp only [List.mem_singleton] at hx; subst hx; rfl⟩

theorem Passive.parse (s : State) (b : Blk) : Passive s (parse s b).1 := by
  unfold HyperModel.Snow.parse
  have h1 : Passive s { s with parsed := (s.parsed.get b.id).1 } := Passive.of_eq rfl rfl rfl rfl
  split
  · split
    · exact h1
    · exact h1.trans (Passive.parseNew _ b)
  · have := Passive.materialize s (s.getBlock b.id)
    split <;> simp_all

theorem Passive.build (s : State) (n : Nat) (c : Option Nat) : Passive s (build s n c).1 := by
  unfold HyperModel.Snow.build
  dsimp only
  split
  · exact Passive.refl s
  · split
    · exact Passive.emit s _ rfl
    · exact ⟨rfl, rfl, rfl, [_], rfl, by intro x hx; simp only [List.mem_singleton] at hx; subst hx; rfl⟩

theorem Link.of_passive {g s s' e} (hl : Link g s e) (hh : Heap g s) (hf : Frame s s') (hp : Passive s s') :
    Link g s' e := by
  obtain ⟨ev, h1, h2⟩ := hp.log
  exact hl.passive hh hf hp.q hp.i hp.la ev h1 h2

theorem Link.deq {g s e} (hl : Link g s e) : Link g (deq s).1 e := by
  unfold HyperModel.Snow.deq
  split
  next h rest hi hq =>
    have hpend : s.pend = h :: rest := by simp [State.pend, hi, hq]
    split
    · exact ⟨hl.proc, hl.acc, hl.nacc, hl.nver, hl.verifs, hl.nrej, hl.npre, hl.chain, hl.la, hl.nodup, hl.fresh,
        hl.accDec, hl.rejDec, hl.disj⟩
    · refine ⟨hl.proc, ?_, hl.nacc, hl.nver, hl.verifs, hl.nrej, hl.npre, hl.chain, hl.la, hl.nodup, hl.fresh,
        hl.accDec, hl.rejDec, hl.disj⟩
      have := hl.acc
      rw [hpend] at this
      show acceptLog s.log ++ (h :: rest).map (fun j => (s.obj j).blk) = e.accepts
      exact this
  next => exact hl

theorem Link.fin {g s e} (hl : Link g s e) (hh : Heap g s) : Link g (fin s).1 e := by
  have hfr := Frame.fin s
  have hpid := procIds_frame (e := e) hfr (fun j hj => (hl.proc j hj).1)
  have hqblk := pend_blk_frame hfr s.queue (fun j hj => (hh.queue j (Or.inl hj)).1)
  have hlablk := hfr.blk _ hl.la.2
  have hprocf := proc_frame hfr hl.proc
  revert hfr hpid hqblk hlablk hprocf
  unfold HyperModel.Snow.fin
  split
  next => intro _ _ _ _ _; exact hl
  next h pa hi =>
    dsimp only
    intro hfr hpid hqblk hlablk hprocf
    obtain ⟨hlt, hv⟩ := hh.queue h (Or.inr ⟨pa, hi⟩)
    obtain ⟨o, ho1, ho2, _⟩ := hh.ver h hv
    have hpend : s.pend = h :: s.queue := by simp [State.pend, hi]
    refine ⟨hprocf, ?_, ?_, ?_, ?_, ?_, ?_, hl.chain, ?_, ?_, ?_, hl.accDec, hl.rejDec, hl.disj⟩
    · show acceptLog (s.log ++ [_] ++ [_]) ++ (([] : List Nat) ++ s.queue).map _ = e.accepts
      rw [List.nil_append, hqblk, ← hl.acc, hpend, ho1]
      simp [acceptLog, List.filterMap_append, ho2]
    · show nAcc (s.log ++ [_] ++ [_]) = acc0 g :: acceptRes (s.log ++ [_] ++ [_])
      simp only [nAcc, acceptRes, List.filterMap_append]
      have := hl.nacc
      simp only [nAcc, acceptRes] at this
      simp [this]
    · show nVer (s.log ++ [_] ++ [_]) = verifyRes (s.log ++ [_] ++ [_])
      simp only [nVer, verifyRes, List.filterMap_append]
      simpa [nVer, verifyRes] using hl.nver
    · show (verifyRes (s.log ++ [_] ++ [_])).map (·.blk) = _
      have := hl.verifs
      simp only [verifyRes] at this
      simp [verifyRes, List.filterMap_append, this]
    · show nRej (s.log ++ [_] ++ [_]) = _
      simp only [nRej, List.filterMap_append]
      simpa [nRej] using hl.nrej
    · show nPre (s.log ++ [_] ++ [_]) = _
      simp only [nPre, List.filterMap_append]
      simpa [nPre] using hl.npre
    · exact ⟨by rw [← hl.la.1]; exact hlablk, hl.la.2⟩
    · rw [hpid]; exact hl.nodup
    · rw [hpid]; exact hl.fresh

end HyperModel.Snow

namespace HyperModel.Snow

theorem upd_passive (e : Eng) (s : State) (op : Op) (r : Res)
    (h : (match op with | .verify _ _ | .accept _ | .reject _ | .start _ | .finish _ _ => false | _ => true) = true) :
    e.upd s op r = e := by
  cases op <;> simp at h <;> cases r <;> rfl

theorem Sys.step_eq (y : Sys) (op : Op) :
    y.step op = ⟨(HyperModel.Snow.step y.s op).1, y.e.upd y.s op (HyperModel.Snow.step y.s op).2⟩ := rfl

/-- the engine/log invariant is preserved by every `EngineOK` call of normal operation and by the
accepter's steps -/
theorem Link.step {g : Blk} {y : Sys} (hl : Link g y.s y.e) (hh : Heap g y.s) (op : Op)
    (hn : (match op with | .start _ | .finish _ _ => false | _ => true) = true)
    (hp : pre y.s y.e op = true) : Link g (y.step op).s (y.step op).e := by
  rw [Sys.step_eq]
  show Link g (HyperModel.Snow.step y.s op).1 (y.e.upd y.s op (HyperModel.Snow.step y.s op).2)
  unfold HyperModel.Snow.step
  split
  · rw [upd_err]; exact hl
  · cases op with
    | build n c => rw [upd_passive _ _ _ _ rfl]; exact hl.of_passive hh (Frame.build _ n c) (Passive.build _ n c)
    | parse b => rw [upd_passive _ _ _ _ rfl]; exact hl.of_passive hh (Frame.parse _ b) (Passive.parse _ b)
    | verify h c =>
      dsimp only
      split
      · exact hl.verify hh h c hp
      · rw [upd_err]; exact hl
    | accept h =>
      dsimp only
      split
      · exact hl.accept hh h hp
      · rw [upd_err]; exact hl
    | reject h =>
      dsimp only
      split
      · exact hl.reject hh h hp
      · rw [upd_err]; exact hl
    | pref id =>
      rw [upd_passive _ _ _ _ rfl]
      exact hl.of_passive hh (Frame.of_eq rfl rfl) (Passive.of_eq rfl rfl rfl rfl)
    | get id => rw [upd_passive _ _ _ _ rfl]; exact hl.of_passive hh (Frame.get _ id) (Passive.get _ id)
    | getH ht => rw [upd_passive _ _ _ _ rfl]; exact hl.of_passive hh (Frame.getH _ ht) (Passive.getH _ ht)
    | last => rw [upd_passive _ _ _ _ rfl]; exact hl
    | deq => rw [upd_passive _ _ _ _ rfl]; exact hl.deq
    | fin => rw [upd_passive _ _ _ _ rfl]; exact hl.fin hh
    | start b => simp at hn
    | finish b st => simp at hn
    | health => rw [upd_passive _ _ _ _ rfl]; exact hl
    | ciLast => rw [upd_passive _ _ _ _ rfl]; exact hl
    | ciPref => rw [upd_passive _ _ _ _ rfl]; exact hl

theorem Link.init (c p w : Nat) (g : Blk) : Link g (HyperModel.Snow.init c p w g true) (Eng.init g true) := by
  have hobj0 : ((HyperModel.Snow.init c p w g true).obj 0).blk = g := by
    simp [HyperModel.Snow.init, State.obj, State.emit, State.setLastAccepted, Map.set, Map.empty]
  refine ⟨?_, ?_, ?_, ?_, ?_, ?_, ?_, ?_, ?_, ?_, ?_, ?_, ?_, ?_⟩
  · intro h hh; simp [Eng.init] at hh
  · simp [HyperModel.Snow.init, Eng.init, State.emit, State.setLastAccepted, State.pend, acceptLog]
  · simp [HyperModel.Snow.init, State.emit, State.setLastAccepted, nAcc, acceptRes, acc0]
  · simp [HyperModel.Snow.init, State.emit, State.setLastAccepted, nVer, verifyRes]
  · simp [HyperModel.Snow.init, Eng.init, State.emit, State.setLastAccepted, verifyRes]
  · simp [HyperModel.Snow.init, Eng.init, State.emit, State.setLastAccepted, nRej]
  · simp [HyperModel.Snow.init, State.emit, State.setLastAccepted, nPre]
  · simp [Eng.init, linked, lastOr]
  · refine ⟨?_, by simp [HyperModel.Snow.init, State.emit, State.setLastAccepted]⟩
    have : (HyperModel.Snow.init c p w g true).lastAccepted = 0 := by
      simp [HyperModel.Snow.init, State.emit, State.setLastAccepted]
    rw [this, hobj0]; rfl
  · simp [Eng.init, Eng.procIds]
  · intro id hid; simp [Eng.init, Eng.procIds] at hid
  · intro b hb; simp [Eng.init] at hb
  · intro b hb; simp [Eng.init] at hb
  · intro a ha; simp [Eng.init] at ha

end HyperModel.Snow

namespace HyperModel.Snow

/-! ### Only `SetPreference` changes the VM's preference (normal operation) -/

theorem pref_materialize (s : State) (f : Found) : (s.materialize f).1.preferred = s.preferred := by
  cases f <;> rfl

theorem pref_get (s : State) (id : Nat) : (get s id).1.preferred = s.preferred := by
  unfold HyperModel.Snow.get
  have := pref_materialize s (s.getBlock id)
  split <;> simp_all

theorem pref_getH (s : State) (ht : Nat) : (getH s ht).1.preferred = s.preferred := by
  unfold HyperModel.Snow.getH
  split
  · rfl
  · split
    · rfl
    · split
      · rfl
      · exact pref_get s _

theorem pref_parse (s : State) (b : Blk) : (parse s b).1.preferred = s.preferred := by
  unfold HyperModel.Snow.parse
  split
  · split <;> rfl
  · have := pref_materialize s (s.getBlock b.id)
    split <;> simp_all

theorem pref_build (s : State) (n : Nat) (c : Option Nat) : (build s n c).1.preferred = s.preferred := by
  unfold HyperModel.Snow.build
  dsimp only
  split
  · rfl
  · split <;> rfl

theorem pref_verify (s : State) (h : Nat) (c : Option Nat) : (verify s h c).1.preferred = s.preferred := by
  unfold HyperModel.Snow.verify
  dsimp only
  split
  · rfl
  · split
    · split <;> rfl
    · split
      · rfl
      · split
        · rfl
        · split
          · rfl
          · split <;> rfl

theorem pref_accept (s : State) (h : Nat) : (accept s h).1.preferred = s.preferred := by
  unfold HyperModel.Snow.accept
  dsimp only
  split
  · rfl
  · split
    · rfl
    · split
      · rfl
      · split <;> rfl

theorem pref_reject (s : State) (h : Nat) : (reject s h).1.preferred = s.preferred := by
  unfold HyperModel.Snow.reject
  dsimp only
  split <;> rfl

theorem pref_deq (s : State) : (deq s).1.preferred = s.preferred := by
  unfold HyperModel.Snow.deq
  split
  · split <;> rfl
  · rfl

theorem pref_fin (s : State) : (fin s).1.preferred = s.preferred := by
  unfold HyperModel.Snow.fin
  split <;> rfl

/-- every normal-operation step other than `SetPreference` leaves the preference alone; in
particular `Accept` (`setLastAccepted`) does not reset it -/
theorem preferred_stable (s : State) (op : Op)
    (hn : (match op with | .start _ | .finish _ _ | .pref _ => false | _ => true) = true) :
    (step s op).1.preferred = s.preferred := by
  unfold HyperModel.Snow.step
  split
  · rfl
  · cases op with
    | build n c => exact pref_build s n c
    | parse b => exact pref_parse s b
    | verify h c => dsimp only; split; exact pref_verify s h c; rfl
    | accept h => dsimp only; split; exact pref_accept s h; rfl
    | reject h => dsimp only; split; exact pref_reject s h; rfl
    | pref id => simp at hn
    | get id => exact pref_get s id
    | getH ht => exact pref_getH s ht
    | last => rfl
    | deq => exact pref_deq s
    | fin => exact pref_fin s
    | start b => simp at hn
    | finish b st => simp at hn
    | health => rfl
    | ciLast => rfl
    | ciPref => rfl

end HyperModel.Snow
