import HyperModel.Model.Fetcher
/-!
Block level of property C24: how `Processor.Execute` (chain/processor.go) reads the parent state.

* `createBlockContext` reads the height, timestamp and fee keys from the parent view, in this
  order, once each; any error (including not-found) makes `Execute` return an error.
* `executeTxs` creates one fetcher and, for every transaction in block order, calls
  `f.Fetch(ctx, txID, stateKeys.WithoutPermissions())` (a failing `Fetch` makes `executeTxs`
  return its error at once), then `f.Wait()`. The transaction's closure calls `f.Get(txID)` and
  hands the returned storage map to `ts.NewView(stateKeys, state.ImmutableStorage(storage), …)`.
* `visible`: what such a view shows for a key — the block-level tstate change if an earlier
  transaction of the block changed the key, else the storage map. This is the layering assumption
  on `tstate.TStateView.GetValue` (own pending writes, then the block's `TState`, then the
  immutable storage), which is property C04 (`view_refines`); it is not re-proved here.

The fetcher's worker / channel steps interleave arbitrarily with the processor's steps.
Core Lean only.
-/
namespace HyperModel.Fetcher

/-- a transaction as the fetcher sees it: id and declared state keys with permissions
(`tx.StateKeys`) -/
structure BTx where
  id : TxId
  keys : List (Key × Nat)

/-- `stateKeys.WithoutPermissions()` (repaired) -/
def BTx.fetchKeys (t : BTx) : List Key := withoutPermissions t.keys

structure Block where
  /-- `HeightKey`, `TimestampKey`, `FeeKey` of the metadata manager, in the order read -/
  mkeys : List Key
  txs : List BTx

structure BState where
  /-- parent reads done by `createBlockContext` so far -/
  metaRead : List Key
  /-- `Execute` has returned an error to its caller (metadata read or `Fetch` failed) -/
  failed : Bool
  /-- the fetcher of `executeTxs` -/
  f : St
  /-- number of transactions whose `Fetch` succeeded -/
  fetched : Nat

def binit (c cap : Nat) : BState := { metaRead := [], failed := false, f := init c cap, fetched := 0 }

/-- fetcher steps that are not taken by the processor goroutine itself -/
inductive InnerStep (parent : Key → Rd) : St → St → Prop where
  | send (s s') : send s = some s' → InnerStep parent s s'
  | abort (s s') : abort s = some s' → InnerStep parent s s'
  | take (s s') : take s = some s' → InnerStep parent s s'
  | complete (s k s') : complete parent s k = some s' → InnerStep parent s s'
  | exit (s s') : exit s = some s' → InnerStep parent s s'
  | stop (s) : InnerStep parent s (stop s)
  | waitRet (s s' e) : waitRet s = some (s', e) → InnerStep parent s s'

inductive BStep (parent : Key → Rd) (blk : Block) : BState → BState → Prop where
  /-- `createBlockContext`: the next metadata key is read and has a value -/
  | metaOk (b k v) : b.failed = false → blk.mkeys[b.metaRead.length]? = some k → parent k = .val v →
      BStep parent blk b { b with metaRead := b.metaRead ++ [k] }
  /-- … or the read fails / finds nothing: `Execute` returns an error -/
  | metaFail (b k) : b.failed = false → blk.mkeys[b.metaRead.length]? = some k →
      (∀ v, parent k ≠ .val v) →
      BStep parent blk b { b with metaRead := b.metaRead ++ [k], failed := true }
  /-- `executeTxs`: `Fetch` of the next transaction succeeds (its lock part; sends follow) -/
  | fetchOk (b tx) : b.failed = false → b.metaRead = blk.mkeys → blk.txs[b.fetched]? = some tx →
      b.f.tasksClosed = false → b.f.sending = [] → (fetch b.f tx.id tx.fetchKeys).2 = true →
      BStep parent blk b { b with f := (fetch b.f tx.id tx.fetchKeys).1, fetched := b.fetched + 1 }
  /-- … or returns the fetcher's error: `executeTxs` returns it -/
  | fetchErr (b tx) : b.failed = false → b.metaRead = blk.mkeys → blk.txs[b.fetched]? = some tx →
      (fetch b.f tx.id tx.fetchKeys).2 = false →
      BStep parent blk b { b with failed := true }
  /-- `f.Wait()` after the loop -/
  | waitCall (b) : b.failed = false → b.metaRead = blk.mkeys → b.fetched = blk.txs.length →
      b.f.sending = [] → BStep parent blk b { b with f := waitCall b.f }
  | inner (b s') : InnerStep parent b.f s' → BStep parent blk b { b with f := s' }

inductive BReach (parent : Key → Rd) (blk : Block) (c cap : Nat) : BState → Prop where
  | init : BReach parent blk c cap (binit c cap)
  | step (b b') : BReach parent blk c cap b → BStep parent blk b b' → BReach parent blk c cap b'

/-- all reads of the parent state made while executing the block, in order per source -/
def BState.parentReads (b : BState) : List Key := b.metaRead ++ b.f.requested

/-- what a transaction's view shows for key `k`: the change made by an earlier transaction of the
block if there is one (`diff k = some x`, `x = none`: deleted), else the storage map from `Get`
(layering of `TStateView` over `TState` over `ImmutableStorage`: property C04, `view_refines`) -/
def visible (diff : Key → Option (Option Val)) (storageMap : Key → Option Val) (k : Key) : Option Val :=
  match diff k with
  | some x => x
  | none => storageMap k

/-- `Execute` got through: no error was returned and `Wait` returned nil -/
def Succeeded (b : BState) : Prop := b.failed = false ∧ ∃ s', waitRet b.f = some (s', none)

end HyperModel.Fetcher
