/-
Model of `state/metadata/state_manager.go: HasConflictingPrefixes` (property C39).
Core Lean only (linked into the driver executable).
-/
namespace HyperModel.Prefix

abbrev Bytes := List UInt8

/-- `bytes.HasPrefix(p, vp) || bytes.HasPrefix(vp, p)` -/
def clash (p vp : Bytes) : Bool := vp.isPrefixOf p || p.isPrefixOf vp

/-- the `for _, p := range prefixes` loop with the growing `verifiedPrefixes` slice -/
def loop (verified : List Bytes) : List Bytes → Bool
  | [] => false
  | p :: rest => if verified.any (clash p) then true else loop (verified ++ [p]) rest

/-- `HasConflictingPrefixes(m, vmPrefixes)`: height, fee, timestamp, then the VM prefixes -/
def hasConflict (height fee timestamp : Bytes) (vm : List Bytes) : Bool :=
  loop [] ([height, fee, timestamp] ++ vm)

end HyperModel.Prefix
