/-!
# Model of `internal/workers/parallel_workers.go` and `serial_workers.go` (C26)

Atomic-step relation of the worker pool, one step per channel operation / lock-protected
region. `repaired = true` is the code with `/verif/fixes/C26-worker-exits-on-error.patch`
applied — the code of /repo since commit 8459107 — (a worker that sees the shared error does `sg.Done(); continue`); `repaired = false`
is the original `sg.Done(); return` (the worker goroutine exits for good).

Goroutines: the scheduler started by `processQueue` (`pq`), `workers` worker goroutines
(`w i`), the caller of `Stop` (`stop`), and clients (`NewJob`, `Go`, `Done`, `Wait`).
`Go` never blocks: jobs are created with a backlog that is not exceeded (the documented
no-block condition), so `for t := range j.tasks { sg.Add(1); w.tasks <- t }` is modelled
as one rendezvous step per task (`feed`) with an idle worker's `case j := <-w.tasks`.
`NewJob`'s flag check and its send on `queue` are one step (NewJob is not called
concurrently with Stop; the real code would panic with send-on-closed-channel there).
-/
namespace HyperModel.Workers

inductive Res where
  | ok
  | err (t : Nat)   -- error of task t
  | shutdown        -- ErrShutdown
deriving DecidableEq, Repr

inductive PQ where
  | idle                -- blocked in `for j := range w.queue`
  | feeding (j : Nat)   -- in `for t := range j.tasks`
  | waitSg (j : Nat)    -- in `w.sg.Wait()`
  | exited
deriving DecidableEq, Repr

inductive WSt where
  | idle                -- in `select`
  | holding (t : Nat)   -- received t, before reading `w.err`
  | running (t : Nat)   -- body in progress
  | acked               -- sent on stoppedWorkers, returned
  | dead                -- unrepaired code only: returned after seeing the error
deriving DecidableEq, Repr

inductive StopPc where
  | notCalled
  | flagged          -- shouldShutdown = true set
  | queueClosed      -- close(w.queue) done, blocked on <-ackShutdown
  | collecting (k : Nat)  -- close(stopWorkers) done, k acks received
  | returned
deriving DecidableEq, Repr

structure State where
  repaired : Bool
  workers : Nat
  maxJobs : Nat
  njobs : Nat
  ntasks : Nat
  /-- contents of `j.tasks` -/
  chan : Nat → List Nat
  /-- `close(j.tasks)` happened (`Done`) -/
  closed : Nat → Bool
  /-- contents of `j.result` (capacity 1) -/
  result : Nat → Option Res
  /-- `close(j.completed)` happened -/
  completed : Nat → Bool
  /-- value returned by `Wait` (history) -/
  got : Nat → Option Res
  /-- job was taken from the queue by the scheduler (history) -/
  taken : Nat → Bool
  /-- what the scheduler sent on `j.result` (history; never cleared) -/
  delivered : Nat → Option Res
  jobOf : Nat → Nat
  fails : Nat → Bool
  /-- number of times the body of the task was started (history) -/
  execs : Nat → Nat
  /-- body returned (history) -/
  finished : Nat → Bool
  queue : List Nat
  queueClosed : Bool
  pq : PQ
  sg : Nat
  err : Option Nat
  w : Nat → WSt
  shouldShutdown : Bool
  ackShutdown : Bool
  stopWorkers : Bool
  stop : StopPc
  /-- NewJob calls that returned ErrShutdown (history) -/
  refused : Nat

def init (repaired : Bool) (workers maxJobs : Nat) : State :=
  { repaired, workers, maxJobs, njobs := 0, ntasks := 0, chan := fun _ => [], closed := fun _ => false,
    result := fun _ => none, completed := fun _ => false, got := fun _ => none,
    taken := fun _ => false, delivered := fun _ => none, jobOf := fun _ => 0,
    fails := fun _ => false, execs := fun _ => 0, finished := fun _ => false, queue := [],
    queueClosed := false, pq := .idle, sg := 0, err := none, w := fun _ => .idle,
    shouldShutdown := false, ackShutdown := false, stopWorkers := false, stop := .notCalled,
    refused := 0 }

inductive Step where
  | newJob                       -- NewJob: returns a job, or ErrShutdown
  | go (j : Nat) (fail : Bool)   -- j.Go(f)
  | done (j : Nat)               -- j.Done(cb)
  | wait (j : Nat)               -- j.Wait() returns
  | stopFlag                     -- Stop: shouldShutdown = true
  | stopClose                    -- Stop: close(w.queue)
  | stopAck                      -- Stop: <-ackShutdown; close(stopWorkers)
  | stopCollect (i : Nat)        -- Stop: <-stoppedWorkers  ‖ worker i: stoppedWorkers <- {} ; return
  | stopReturn
  | pqTake                       -- scheduler: receive job from queue (+ shutdown check)
  | feed (i : Nat)               -- scheduler: sg.Add(1); w.tasks <- t ‖ worker i receives
  | endFeed                      -- scheduler: j.tasks closed and drained
  | pqFinish                     -- scheduler: sg.Wait returned; publish result, reset err
  | pqExit                       -- scheduler: queue closed and drained; close(ackShutdown)
  | wCheck (i : Nat)             -- worker i: read w.err under RLock
  | wFinish (i : Nat)            -- worker i: body returned; record error; sg.Done
deriving DecidableEq, Repr

def upd {α} (f : Nat → α) (i : Nat) (v : α) : Nat → α := fun x => if x = i then v else f x

def isEnabled (s : State) : Step → Bool
  | .newJob => s.stop == .notCalled && decide (s.queue.length < s.maxJobs)
      || (s.shouldShutdown && s.stop != .notCalled)
  | .go j _ => decide (j < s.njobs) && !s.closed j
  | .done j => decide (j < s.njobs) && !s.closed j
  | .wait j => decide (j < s.njobs) && (s.result j).isSome
  | .stopFlag => s.stop == .notCalled
  | .stopClose => s.stop == .flagged
  | .stopAck => s.stop == .queueClosed && s.ackShutdown
  | .stopCollect i =>
      (match s.stop with | .collecting k => decide (k < s.workers) | _ => false)
        && decide (i < s.workers) && s.w i == .idle && s.stopWorkers
  | .stopReturn => s.stop == .collecting s.workers
  | .pqTake => s.pq == .idle && !s.queue.isEmpty
  | .feed i =>
      (match s.pq with | .feeding j => !(s.chan j).isEmpty | _ => false)
        && decide (i < s.workers) && s.w i == .idle
  | .endFeed => (match s.pq with | .feeding j => (s.chan j).isEmpty && s.closed j | _ => false)
  | .pqFinish => (match s.pq with | .waitSg _ => s.sg == 0 | _ => false)
  | .pqExit => s.pq == .idle && s.queue.isEmpty && s.queueClosed
  | .wCheck i => decide (i < s.workers) && (match s.w i with | .holding _ => true | _ => false)
  | .wFinish i => decide (i < s.workers) && (match s.w i with | .running _ => true | _ => false)

def apply (s : State) : Step → State
  | .newJob =>
      if s.shouldShutdown then { s with refused := s.refused + 1 }
      else { s with njobs := s.njobs + 1, queue := s.queue ++ [s.njobs] }
  | .go j fail =>
      { s with ntasks := s.ntasks + 1, chan := upd s.chan j (s.chan j ++ [s.ntasks]),
               jobOf := upd s.jobOf s.ntasks j, fails := upd s.fails s.ntasks fail }
  | .done j => { s with closed := upd s.closed j true }
  | .wait j => { s with got := upd s.got j (s.result j), result := upd s.result j none }
  | .stopFlag => { s with shouldShutdown := true, stop := .flagged }
  | .stopClose => { s with queueClosed := true, stop := .queueClosed }
  | .stopAck => { s with stopWorkers := true, stop := .collecting 0 }
  | .stopCollect i =>
      match s.stop with
      | .collecting k => { s with stop := .collecting (k + 1), w := upd s.w i .acked }
      | _ => s
  | .stopReturn => { s with stop := .returned }
  | .pqTake =>
      match s.queue with
      | [] => s
      | j :: rest =>
        if s.shouldShutdown then
          { s with queue := rest, taken := upd s.taken j true, result := upd s.result j (some .shutdown),
                   delivered := upd s.delivered j (some .shutdown) }
        else { s with queue := rest, taken := upd s.taken j true, pq := .feeding j }
  | .feed i =>
      match s.pq with
      | .feeding j =>
        match s.chan j with
        | [] => s
        | t :: rest => { s with chan := upd s.chan j rest, sg := s.sg + 1, w := upd s.w i (.holding t) }
      | _ => s
  | .endFeed =>
      match s.pq with
      | .feeding j => { s with pq := .waitSg j }
      | _ => s
  | .pqFinish =>
      match s.pq with
      | .waitSg j =>
        { s with completed := upd s.completed j true,
                 result := upd s.result j (some (match s.err with | none => .ok | some t => .err t)),
                 delivered := upd s.delivered j (some (match s.err with | none => .ok | some t => .err t)),
                 err := none, pq := .idle }
      | _ => s
  | .pqExit =>
      { s with pq := .exited, ackShutdown := s.ackShutdown || s.shouldShutdown }
  | .wCheck i =>
      match s.w i with
      | .holding t =>
        if s.err.isSome then
          { s with sg := s.sg - 1, w := upd s.w i (if s.repaired then .idle else .dead) }
        else { s with execs := upd s.execs t (s.execs t + 1), w := upd s.w i (.running t) }
      | _ => s
  | .wFinish i =>
      -- ONE atomic step, in the order of the code: the error is stored into `w.err` (under
      -- `w.lock`) BEFORE `w.sg.Done()`. The scheduler can pass `sg.Wait()` only after the
      -- `Done`, hence only after the error is visible; so "record error" and "decrement the
      -- completion count" may be merged into one step. The reverse order (`Done` first) is NOT
      -- equivalent: see `applyLate` below and `Props.C26.c26_counterexample_error_after_done`.
      match s.w i with
      | .running t =>
        { s with finished := upd s.finished t true,
                 err := if s.fails t && s.err.isNone then some t else s.err,
                 sg := s.sg - 1, w := upd s.w i .idle }
      | _ => s

/-- steps of the pool's own goroutines and of the `Stop` caller after its first step
(everything except the client calls NewJob/Go/Done/Wait/Stop-entry) -/
def internalSteps (s : State) : List Step :=
  [.stopClose, .stopAck, .stopReturn, .pqTake, .endFeed, .pqFinish, .pqExit] ++
  (List.range s.workers).flatMap (fun i => [.stopCollect i, .feed i, .wCheck i, .wFinish i])

/-- all enabled internal steps -/
def enabled (s : State) : List Step := (internalSteps s).filter (isEnabled s)

inductive Reachable (repaired : Bool) (workers maxJobs : Nat) : State → Prop where
  | init : Reachable repaired workers maxJobs (init repaired workers maxJobs)
  | step {s : State} (st : Step) :
      Reachable repaired workers maxJobs s → isEnabled s st = true →
      Reachable repaired workers maxJobs (apply s st)

/-! ## The wrong order: `sg.Done()` before the error is recorded

A variant of the worker's last step, split in two: `lateDone i` (body returned:
`w.sg.Done()`; the worker still has to record the error) and `lateRecord i` (`w.err = err` if
none is set; back to `select`). `pend i` = worker `i` is between the two. All other steps are
those of the relation above. Used only to show that this order violates the property. -/

inductive LStep where
  | base (st : Step)        -- any step of the relation except `wFinish`
  | lateDone (i : Nat)
  | lateRecord (i : Nat)
deriving DecidableEq, Repr

structure LState where
  s : State
  pend : Nat → Option Nat    -- task whose result worker i has not recorded yet

def isEnabledLate (l : LState) : LStep → Bool
  | .base st =>
      (match st with
       | .wFinish _ => false
       | .wCheck i => (l.pend i).isNone && isEnabled l.s st
       | _ => isEnabled l.s st)
  | .lateDone i =>
      decide (i < l.s.workers) && (l.pend i).isNone &&
        (match l.s.w i with | .running _ => true | _ => false)
  | .lateRecord i => (l.pend i).isSome

def applyLate (l : LState) : LStep → LState
  | .base st => { l with s := apply l.s st }
  | .lateDone i =>
      match l.s.w i with
      | .running t =>
        -- the worker is not back in `select` yet: it keeps its slot (`holding` a task that is
        -- finished cannot be fed, and `wCheck` is disabled while `pend i` is set)
        { s := { l.s with finished := upd l.s.finished t true, sg := l.s.sg - 1,
                          w := upd l.s.w i (.holding t) },
          pend := upd l.pend i (some t) }
      | _ => l
  | .lateRecord i =>
      match l.pend i with
      | some t =>
        { s := { l.s with err := if l.s.fails t && l.s.err.isNone then some t else l.s.err,
                          w := upd l.s.w i .idle },
          pend := upd l.pend i none }
      | none => l

inductive LateReachable (workers maxJobs : Nat) : LState → Prop where
  | init : LateReachable workers maxJobs { s := init true workers maxJobs, pend := fun _ => none }
  | step {l : LState} (st : LStep) : LateReachable workers maxJobs l → isEnabledLate l st = true →
      LateReachable workers maxJobs (applyLate l st)

/-! ## serial_workers.go -/

structure SerialJob where
  /-- `j.err` (id of the failing task) -/
  err : Option Nat := none
  /-- ids of the tasks whose body ran, newest first (history) -/
  ran : List Nat := []

/-- `SerialJob.Go(f)` for task `t` whose body fails iff `fail` -/
def SerialJob.go (j : SerialJob) (t : Nat) (fail : Bool) : SerialJob :=
  if j.err.isSome then j
  else { err := if fail then some t else none, ran := t :: j.ran }

/-- a whole job: `Go` for each task in order; `Wait` returns `err` -/
def serialRun (ts : List (Nat × Bool)) : SerialJob :=
  ts.foldl (fun j t => j.go t.1 t.2) {}

end HyperModel.Workers
