/-
Model of `api/indexer/indexer.go` (property C31). Core Lean only.

State = the pebble store (`0x02 ++ be64 height -> executed block`, a finite map kept as an
association list in iterator order, i.e. ascending height) plus the three in-memory caches
and `lastHeight`. The code is transcribed as it is at the pinned commit, including the
single-height eviction (`height - window`, uint64 arithmetic).
-/
namespace HyperModel.Indexer

/-- An executed block as far as the indexer looks at it. `id` stands for the block hash
(injective in the content); `txs` are transaction ids, `results` the per-transaction results. -/
structure Block where
  id : List Nat
  height : Nat
  ts : Int
  txs : List Nat
  results : List Nat
deriving DecidableEq, Repr

def two64 : Nat := 18446744073709551616
def maxU64 : Nat := two64 - 1
def maxBlockWindow : Nat := 1000000

/-- uint64 subtraction (wraps) -/
def sub64 (a b : Nat) : Nat := (a + two64 - b) % two64

/-! ## the store: association list sorted by height -/

abbrev Store := List (Nat × Block)

def dbGet (h : Nat) : Store → Option Block
  | [] => none
  | (k, v) :: r => if k = h then some v else dbGet h r

/-- `Put(blockEntryKey h, …)`: replace or insert in key order -/
def dbPut (h : Nat) (b : Block) : Store → Store
  | [] => [(h, b)]
  | (k, v) :: r =>
    if h < k then (h, b) :: (k, v) :: r
    else if h = k then (h, b) :: r
    else (k, v) :: dbPut h b r

def dbDel (h : Nat) : Store → Store
  | [] => []
  | (k, v) :: r => if k = h then dbDel h r else (k, v) :: dbDel h r

/-- `DeleteRange(blockEntryKey lo, blockEntryKey hi)`: keys in `[lo, hi)` -/
def dbDeleteRange (lo hi : Nat) (s : Store) : Store :=
  s.filter fun (k, _) => ¬ (lo ≤ k ∧ k < hi)

/-- big-endian uint64 -/
def be64 (n : Nat) : List UInt8 :=
  [56, 48, 40, 32, 24, 16, 8, 0].map fun s => UInt8.ofNat ((n >>> s) % 256)

/-- `blockEntryKey(height)`: `0x02 ++ be64 height` (`blockEntryByte = iota + 1` is the second constant of its block, so 2); byte-wise order of these keys = numeric order of
the heights, which is what `Store` (sorted by height) relies on -/
def blockEntryKey (h : Nat) : List UInt8 := 2 :: be64 h

/-! ## the indexer -/

structure St where
  w : Nat
  db : Store
  idToHeight : List Nat → Option Nat
  heightToBlock : Nat → Option Block
  txCache : Nat → Option (Nat × Nat)
  lastHeight : Nat

def setFn {α β} [DecidableEq α] (f : α → Option β) (k : α) (v : Option β) : α → Option β :=
  fun j => if j = k then v else f j

/-- the `for idx, tx := range blk.Block.Txs { i.txCache[tx.GetID()] = … }` loop -/
def cacheTxs (h : Nat) : List Nat → Nat → (Nat → Option (Nat × Nat)) → (Nat → Option (Nat × Nat))
  | [], _, c => c
  | tx :: r, idx, c => cacheTxs h r (idx + 1) (setFn c tx (some (h, idx)))

/-- the `for _, tx := range evictedBlk.Block.Txs { delete(i.txCache, tx.GetID()) }` loop -/
def uncacheTxs : List Nat → (Nat → Option (Nat × Nat)) → (Nat → Option (Nat × Nat))
  | [], c => c
  | tx :: r, c => uncacheTxs r (setFn c tx none)

/-- `insertBlockIntoCache` -/
def insertBlockIntoCache (s : St) (b : Block) : St :=
  let s1 : St :=
    match s.heightToBlock (sub64 b.height s.w) with
    | some ev =>
      { s with
        idToHeight := setFn s.idToHeight ev.id none
        heightToBlock := setFn s.heightToBlock ev.height none
        txCache := uncacheTxs ev.txs s.txCache }
    | none => s
  { s1 with
    idToHeight := setFn s1.idToHeight b.id (some b.height)
    heightToBlock := setFn s1.heightToBlock b.height (some b)
    txCache := cacheTxs b.height b.txs 0 s1.txCache
    lastHeight := b.height }

/-- `storeBlock`: one batch, `Put(height)` then `Delete(height - window)` -/
def storeBlock (s : St) (b : Block) : St :=
  { s with db := dbDel (sub64 b.height s.w) (dbPut b.height b s.db) }

/-- `Notify` -/
def notify (s : St) (b : Block) : St := storeBlock (insertBlockIntoCache s b) b

/-- `initBlocks`: reload the caches in iterator order, then trim the store -/
def initBlocks (s : St) : St :=
  let s1 := s.db.foldl (fun acc kv => insertBlockIntoCache acc kv.2) s
  if s1.lastHeight > s1.w then
    { s1 with db := dbDeleteRange 0 (s1.lastHeight - s1.w) s1.db }
  else s1

/-- `NewIndexer(path, parser, window)` on the store found under `path`;
`none` = configuration error -/
def newIndexer (w : Nat) (db : Store) : Option St :=
  if w > maxBlockWindow then none
  else if w = 0 then none
  else some (initBlocks
    { w := w, db := db, idToHeight := fun _ => none, heightToBlock := fun _ => none,
      txCache := fun _ => none, lastHeight := maxU64 })

/-! ## queries -/

/-- `GetBlockByHeight` -/
def getBlockByHeight (s : St) (h : Nat) : Option Block := s.heightToBlock h

/-- `GetLatestBlock` -/
def getLatestBlock (s : St) : Option Block :=
  if s.lastHeight = maxU64 then none else getBlockByHeight s s.lastHeight

/-- `GetBlock` -/
def getBlock (s : St) (id : List Nat) : Option Block :=
  match s.idToHeight id with
  | none => none
  | some h => getBlockByHeight s h

inductive TxAnswer
  | notFound
  | found (tx : Nat) (ts : Int) (result : Nat)
  | errMismatch
  | errNoResult
deriving DecidableEq, Repr

/-- `GetTransaction` -/
def getTransaction (s : St) (tx : Nat) : TxAnswer :=
  match s.txCache tx with
  | none => .notFound
  | some (h, idx) =>
    match s.heightToBlock h with
    | none => .notFound
    | some b =>
      if b.txs.length ≤ idx then .errMismatch
      else if b.results.length ≤ idx then .errNoResult
      else .found (b.txs.getD idx 0) b.ts (b.results.getD idx 0)

end HyperModel.Indexer
