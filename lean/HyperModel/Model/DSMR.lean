/-
Model of `x/dsmr` (properties C35, C36, C37): chunk storage (`storage.go`), the node's
`BuildBlock` / `Verify` / `Accept` (`node.go`, `block.go`) and the part of
`internal/validitywindow` + `internal/emap` they use.  Core Lean only.

The model transcribes the code *with the three repairs of /verif/fixes/C35-*, C36-*, C37-*
applied* (see the `[fix C3x]` marks).

Chunks are identified by their id; the content behind an id (`producer`, `expiry`, `size`,
whether its signature verifies and its producer is a validator) is given by the universe
`Cfg.U`, so "the id is injective in the content" holds by construction.  Certificate
(warp/BLS quorum) validity is the boolean `Cert.sigOk` (trusted: avalanchego warp, blst).
Timestamps are natural numbers (the code uses non-negative int64 values).
-/
namespace HyperModel.DSMR

/-- content of a chunk: `UnsignedChunk.Producer/Expiry`, `len(chunk.bytes)`, and
`valid` = "`IsNodeValidator(producer)` and `chunk.Verify` (BLS) succeed". -/
structure Info where
  producer : Nat
  expiry : Nat
  size : Nat
  valid : Bool
  deriving Repr, DecidableEq, Inhabited

/-- `ChunkCertificate`: the reference (`ChunkID`, `Expiry`) and whether the aggregate
signature verifies against the canonical validator set. -/
structure Cert where
  chunkID : Nat
  expiry : Nat
  sigOk : Bool
  deriving Repr, DecidableEq, Inhabited

structure Cfg where
  /-- the chunk universe: id ↦ content -/
  U : Nat → Info
  /-- `Rules.GetValidityWindow()` = the validity window's `getTimeValidityWindow` -/
  window : Nat
  /-- `Rules.GetMaxAccumulatedProducerChunkWeight()` -/
  limit : Nat
  /-- `maxTimeSkew.Nanoseconds()` -/
  maxSkew : Nat
  /-- does `VerifyRemoteChunk` guard the `Cert == nil` case of an already pending chunk
  (repaired in /repo b8e022c, `fixes/C36-verify-remote-chunk-nil-cert.patch`)? The harness probes
  it from the running code and tells the driver; the default is the repaired code. -/
  nilCertGuard : Bool := true
  /-- does `ChunkSignatureRequestVerifier.Verify` compare the message to be signed with the
  justification chunk (`fixes/C37-verify-signed-message-matches-chunk.*.patch`)? Probed. -/
  checksMessage : Bool := false
  /-- does the peer node's real `GetChunkHandler` serve the chunk with this id when asked with
  the expiry of the certificate being fetched (`GetChunkBytes` on the peer's storage succeeds)?
  Set by the driver from the peer's modelled storage for each `accept`. -/
  peerServes : Nat → Bool := fun _ => false

/-! ## `internal/emap` as a set with expiry -/

/-- `EMap`: the `seen` set together with the bucket time of every id, in insertion order. -/
abbrev EMap := List (Nat × Nat)

/-- `e.seen.Contains(id)` -/
def EMap.has (m : EMap) (id : Nat) : Bool := m.any (fun x => x.1 == id)

/-- `EMap.add`: genesis time 0 and already-seen ids are ignored -/
def EMap.add (m : EMap) (id t : Nat) : EMap :=
  if t = 0 then m else if m.has id then m else m ++ [(id, t)]

/-- `EMap.SetMin t`: drops every bucket with time `< t`; returns the evicted ids -/
def EMap.setMin (m : EMap) (t : Nat) : EMap × List Nat :=
  (m.filter (fun x => decide (t ≤ x.2)), (m.filter (fun x => decide (x.2 < t))).map (·.1))

/-! ## `ChunkStorage` -/

structure Storage where
  /-- `pendingChunkMap` (chunk id ↦ optional certificate), insertion order -/
  pending : List (Nat × Option Cert)
  /-- `chunkEMap` -/
  emap : EMap
  /-- db key `metadata|min` -/
  dbMin : Option Nat
  /-- db keys `pending|slot|id` (slot = the chunk's expiry, determined by the id) -/
  dbPending : List Nat
  /-- db keys `accepted|slot|id` -/
  dbAccepted : List Nat
  /-- `minimumExpiry` -/
  min : Nat
  /-- `pendingChunksSizes` (absent = 0) -/
  sizes : Nat → Nat
  /-- `ChunkVerifier.min` (the verifier object outlives a reopen of the storage) -/
  vmin : Nat

/-- `NewChunkStorage` on an empty db -/
def Storage.empty : Storage :=
  { pending := [], emap := [], dbMin := none, dbPending := [], dbAccepted := [], min := 0,
    sizes := fun _ => 0, vmin := 0 }

def hasPending (s : Storage) (i : Nat) : Bool := s.pending.any (fun e => e.1 == i)

def insertNew (l : List Nat) (i : Nat) : List Nat := if l.contains i then l else l ++ [i]

/-- `discardPendingChunk` -/
def discard (cfg : Cfg) (s : Storage) (i : Nat) : Storage :=
  if hasPending s i then
    { s with
      pending := s.pending.filter (fun e => e.1 != i)
      sizes := fun p => if p = (cfg.U i).producer then s.sizes p - (cfg.U i).size else s.sizes p }
  else s

/-- `putVerifiedChunk` -/
def putVerified (cfg : Cfg) (s : Storage) (i : Nat) (cert : Option Cert) : Storage :=
  let s1 := { s with dbPending := insertNew s.dbPending i, emap := s.emap.add i (cfg.U i).expiry }
  if hasPending s i then
    match cert with
    | none => s1
    | some c => { s1 with pending := s.pending.map (fun e => if e.1 == i then (i, some c) else e) }
  else
    { s1 with
      pending := s.pending ++ [(i, cert)]
      sizes := fun p => if p = (cfg.U i).producer then s.sizes p + (cfg.U i).size else s.sizes p }

inductive VErr where
  | expired | future | invalid
  deriving Repr, DecidableEq

/-- `ChunkVerifier.Verify`: `VerifyTimestamp(expiry, min, 1, window)`, validator, signature -/
def verifyChunk (cfg : Cfg) (vmin : Nat) (i : Nat) : Option VErr :=
  if (cfg.U i).expiry < vmin then some .expired
  else if (cfg.U i).expiry > vmin + cfg.window then some .future
  else if !(cfg.U i).valid then some .invalid
  else none

inductive VR where
  | stored        -- verified and stored as pending (`nil, nil`)
  | known         -- already pending with a certificate: its signature is returned
  | panic         -- already pending without certificate: nil dereference of `Cert.Signature`
  | err (e : VErr)
  deriving Repr, DecidableEq

/-- `VerifyRemoteChunk` -/
def verifyRemote (cfg : Cfg) (s : Storage) (i : Nat) : Storage × VR :=
  match s.pending.find? (fun e => e.1 == i) with
  | some (_, some _) => (s, .known)
  | some (_, none) => if cfg.nilCertGuard then (s, .known) else (s, .panic)
  | none =>
    match verifyChunk cfg s.vmin i with
    | some e => (s, .err e)
    | none => (putVerified cfg s i none, .stored)

inductive SC where
  | ok | nochunk | badcert
  deriving Repr, DecidableEq

/-- `SetChunkCert(cert.ChunkID, cert)` as called by the gossip handler -/
def setCert (s : Storage) (c : Cert) : Storage × SC :=
  if !hasPending s c.chunkID then (s, .nochunk)
  else if !c.sigOk then (s, .badcert)
  else ({ s with pending := s.pending.map (fun e => if e.1 == c.chunkID then (e.1, some c) else e) }, .ok)

/-- the `for _, saveChunkID := range saveChunks` loop of `SetMin`; `false` = "failed to save
chunk" (the pending entries discarded so far stay discarded, the batch is dropped) -/
def saveLoop (cfg : Cfg) : Storage → List Nat → List Nat → Storage × List Nat × Bool
  | s, [], acc => (s, acc, true)
  | s, i :: rest, acc =>
    if hasPending s i then saveLoop cfg (discard cfg s i) rest (acc ++ [i]) else (s, acc, false)

/-- `SetMin(updatedMin, saveChunks)`; `[fix C36]` the batch also deletes the pending key of
every saved chunk. -/
def setMin (cfg : Cfg) (s : Storage) (m : Nat) (ids : List Nat) : Storage × Bool :=
  let r := saveLoop cfg { s with min := m } ids []
  if !r.2.2 then (r.1, false) else
  let s1 := r.1
  let saved := r.2.1
  let ev := s1.emap.setMin m
  let exp := ev.2.filter (hasPending s1)
  let s2 := exp.foldl (discard cfg) { s1 with emap := ev.1 }
  ({ s2 with
      dbMin := some m
      dbAccepted := saved.foldl insertNew s2.dbAccepted
      dbPending := s2.dbPending.filter (fun i => !(saved.contains i) && !(exp.contains i))
      vmin := m }, true)

/-- `GatherChunkCerts` (map order; callers sort) -/
def gather (s : Storage) : List Cert := s.pending.filterMap (·.2)

/-- `GetChunkBytes(expiry, id)` succeeds (the bytes are those of chunk `id`) -/
def getBytes (cfg : Cfg) (s : Storage) (expiry i : Nat) : Bool :=
  hasPending s i || (s.dbAccepted.contains i && expiry == (cfg.U i).expiry)

/-- `CheckRateLimit` passes -/
def rateOk (cfg : Cfg) (s : Storage) (i : Nat) : Bool :=
  !((cfg.U i).size + s.sizes (cfg.U i).producer > cfg.limit)

inductive SigOut where
  | signed | refused | panic
  deriving Repr, DecidableEq

/-- the acp118 signature-request handler with `ChunkSignatureRequestVerifier.Verify`: a request
to sign the reference `(refId, refExpiry)` with chunk `j` as justification. The unrepaired
verifier ignores the message (`_ *warp.UnsignedMessage`): it verifies, rate-limits and stores
the justification chunk and the handler then signs whatever message it was given. -/
def signReq (cfg : Cfg) (s : Storage) (refId refExpiry j : Nat) : Storage × SigOut :=
  if cfg.checksMessage && !(refId == j && refExpiry == (cfg.U j).expiry) then (s, .refused)
  else match verifyChunk cfg s.vmin j with
    | some _ => (s, .refused)
    | none =>
      if !rateOk cfg s j then (s, .refused)
      else match verifyRemote cfg s j with
        | (s', .stored) => (s', .signed)
        | (s', .known) => (s', .signed)
        | (s', .panic) => (s', .panic)
        | (s', .err _) => (s', .refused)

/-- `NewChunkStorage` on the same db (`init` scans the pending prefix); the verifier object
is the caller's and keeps its `min`. Certificates are not persisted. -/
def reopen (cfg : Cfg) (s : Storage) : Storage :=
  s.dbPending.foldl
    (fun acc i =>
      { acc with
        emap := acc.emap.add i (cfg.U i).expiry
        pending := acc.pending.filter (fun e => e.1 != i) ++ [(i, none)]
        sizes := fun p => if p = (cfg.U i).producer then acc.sizes p + (cfg.U i).size else acc.sizes p })
    { s with pending := [], emap := [], min := s.dbMin.getD 0, sizes := fun _ => 0 }

/-- what C36 calls "the same storage": pending set, accepted set, minimum, weights -/
structure Abs where
  pending : Nat → Bool
  accepted : Nat → Bool
  min : Nat
  weight : Nat → Nat

def abs (s : Storage) : Abs :=
  { pending := hasPending s, accepted := fun i => s.dbAccepted.contains i, min := s.min, weight := s.sizes }

/-- storage histories of C36 -/
inductive Op where
  | addLocal (i : Nat) (cert : Option Cert)
  | verifyRemote (i : Nat)
  | setCert (c : Cert)
  | setMin (m : Nat) (ids : List Nat)
  | reopen

/-- one storage operation; `none` when a `SetMin` fails (fatal for the caller: `Accept`
returns the error and the VM stops) -/
def stepOp (cfg : Cfg) (s : Storage) : Op → Option Storage
  | .addLocal i c => some (putVerified cfg s i c)
  | .verifyRemote i => some (verifyRemote cfg s i).1
  | .setCert c => some (setCert s c).1
  | .setMin m ids => let r := setMin cfg s m ids; if r.2 then some r.1 else none
  | .reopen => some (reopen cfg s)

def runOps (cfg : Cfg) : Storage → List Op → Option Storage
  | s, [] => some s
  | s, op :: rest => match stepOp cfg s op with
    | none => none
    | some s' => runOps cfg s' rest

/-! ## Blocks, validity window, node -/

structure Block where
  id : Nat
  parent : Nat
  height : Nat
  ts : Nat
  certs : List Cert
  deriving Repr, Inhabited

def Block.ids (b : Block) : List Nat := b.certs.map (·.chunkID)

/-- genesis `Block{}` -/
def genesis : Block := { id := 0, parent := 0, height := 0, ts := 0, certs := [] }

structure Node where
  st : Storage
  /-- `TimeValidityWindow.seen` -/
  seen : EMap
  /-- `TimeValidityWindow.lastAcceptedBlockHeight` -/
  lah : Nat
  /-- `Node.LastAccepted` -/
  last : Block
  /-- the chain index (`GetExecutionBlock`): verified and accepted blocks -/
  index : List Block

def Node.init : Node := { st := Storage.empty, seen := [], lah := 0, last := genesis, index := [genesis] }

def findBlock (idx : List Block) (id : Nat) : Option Block := idx.find? (fun b => b.id == id)

/-- "make sure we have no repeats within the block itself" -/
def dupLoop : List Nat → List Nat → Bool
  | _, [] => false
  | seen, i :: r => if seen.contains i then true else dupLoop (i :: seen) r

/-- `isRepeat(..., stop = true)` reduced to "is the marker non-empty"; `none` = the chain
index failed to return an ancestor. The loop runs at most `fuel` times; callers pass the
height of the first ancestor + 1 (every step of the walk goes to a block one lower, since
only verified blocks are indexed and `Verify` checks `height = parent.height + 1`). -/
def hasRepeat (idx : List Block) (lah : Nat) (seen : EMap) (oldest : Nat) (ids : List Nat) :
    Nat → Block → Option Bool
  | 0, _ => none
  | fuel + 1, anc =>
    if anc.ts < oldest then some false
    else if anc.height ≤ lah || anc.height == 0 then some (ids.any seen.has)
    else if ids.any (fun i => anc.ids.contains i) then some true
    else match findBlock idx anc.parent with
      | none => none
      | some p => hasRepeat idx lah seen oldest ids fuel p

/-- `isRepeat(..., stop = false)`: the full marker -/
def repeats (idx : List Block) (lah : Nat) (seen : EMap) (oldest : Nat) (ids : List Nat) :
    Nat → Block → List Bool → Option (List Bool)
  | 0, _, _ => none
  | fuel + 1, anc, marker =>
    if anc.ts < oldest then some marker
    else if anc.height ≤ lah || anc.height == 0 then
      some (List.zipWith (fun i m => m || seen.has i) ids marker)
    else
      let marker' := List.zipWith (fun i m => m || anc.ids.contains i) ids marker
      match findBlock idx anc.parent with
      | none => none
      | some p => repeats idx lah seen oldest ids fuel p marker'

inductive VerifyOut where
  | ok | parent | height | timestamp | empty | dup | index | sig | expired | future
  deriving Repr, DecidableEq

/-- the certificate loop of `Verify`: warp signature, then `[fix C37]`
`VerifyTimestamp(cert.Expiry, block.Timestamp, 1, window)` -/
def certCheck (cfg : Cfg) (ts : Nat) : List Cert → VerifyOut
  | [] => .ok
  | c :: rest =>
    if !c.sigOk then .sig
    else if c.expiry < ts then .expired
    else if c.expiry > ts + cfg.window then .future
    else certCheck cfg ts rest

/-- `VerifyExpiryReplayProtection` -/
def replayCheck (cfg : Cfg) (n : Node) (b : Block) : VerifyOut :=
  if b.height ≤ n.lah then .ok
  else if dupLoop [] b.ids then .dup
  else match findBlock n.index b.parent with
    | none => .index
    | some p =>
      match hasRepeat n.index n.lah n.seen (b.ts - cfg.window) b.ids (p.height + 1) p with
      | none => .index
      | some true => .dup
      | some false => .ok

/-- `Node.Verify(parent, block)` -/
def verify (cfg : Cfg) (n : Node) (parent b : Block) : VerifyOut :=
  if b.parent ≠ parent.id then .parent
  else if b.height ≠ parent.height + 1 then .height
  else if b.ts ≤ parent.ts || b.ts > parent.ts + cfg.maxSkew then .timestamp
  else if b.certs.isEmpty then .empty
  else match replayCheck cfg n b with
    | .ok => certCheck cfg b.ts b.certs
    | e => e

inductive BuildOut where
  | ok (certs : List Cert) | timestamp | index | none
  deriving Repr

/-- `Node.BuildBlock(parent, timestamp)`; `[fix C37]` also skips certificates whose expiry
is beyond `timestamp + window` -/
def buildBlock (cfg : Cfg) (n : Node) (parent : Block) (ts : Nat) : BuildOut :=
  if ts ≤ parent.ts then .timestamp else
  let gathered := gather n.st
  let ids := gathered.map (·.chunkID)
  match repeats n.index n.lah n.seen (ts - cfg.window) ids (parent.height + 1) parent (ids.map fun _ => false) with
  | none => .index
  | some marker =>
    let avail := ((gathered.zip marker).filter
      (fun cm => !(cm.1.expiry < ts || cm.1.expiry > ts + cfg.window || cm.2))).map (·.1)
    if avail.isEmpty then .none else .ok avail

/-- one scripted answer of a peer to a get-chunk request -/
inductive Resp where
  | appErr            -- AppError / unparsable response
  | chunk (j : Nat)   -- a well-formed chunk with id `j`
  | sendFail          -- `AppRequest` itself fails (also: script exhausted)
  | peer              -- the request is answered by the peer node's real `GetChunkHandler`
  deriving Repr, DecidableEq

/-- the `for { … }` request loop of `Accept` for one missing chunk: returns the id of the
chunk appended to `chunks` (`none` = `Accept` returns an error). `[fix C35]` a response whose
id differs from the certificate's is rejected before it is stored. -/
def fetch (cfg : Cfg) (want : Nat) : Storage → List Resp → Storage × List Resp × Option Nat
  | s, [] => (s, [], none)
  | s, .sendFail :: r => (s, r, none)
  | s, .appErr :: r => fetch cfg want s r
  | s, .chunk j :: r =>
    if j ≠ want then fetch cfg want s r
    else match verifyRemote cfg s j with
      | (s', .stored) => (s', r, some j)
      | (s', .known) => (s', r, some j)
      | (s', .panic) => (s', r, none)
      | (_, .err _) => fetch cfg want s r
  | s, .peer :: r =>
    if !cfg.peerServes want then fetch cfg want s r   -- `ErrChunkNotAvailable`
    else match verifyRemote cfg s want with
      | (s', .stored) => (s', r, some want)
      | (s', .known) => (s', r, some want)
      | (s', .panic) => (s', r, none)
      | (_, .err _) => fetch cfg want s r

/-- the `for _, chunkCert := range block.ChunkCerts` loop of `Accept` -/
def acceptLoop (cfg : Cfg) : Storage → List Cert → List Resp → List Nat → Storage × Option (List Nat)
  | s, [], _, acc => (s, some acc)
  | s, c :: rest, sc, acc =>
    if getBytes cfg s c.expiry c.chunkID then acceptLoop cfg s rest sc (acc ++ [c.chunkID])
    else match fetch cfg c.chunkID s sc with
      | (s', sc', some j) => acceptLoop cfg s' rest sc' (acc ++ [j])   -- `[fix C35] continue`
      | (s', _, none) => (s', none)

inductive AcceptOut where
  | ok (chunks : List Nat) | fetch | prune
  deriving Repr, DecidableEq

/-- `validityWindow.Accept(block)` -/
def seenAccept (seen : EMap) (b : Block) : EMap :=
  b.certs.foldl (fun m c => m.add c.chunkID c.expiry) (seen.setMin b.ts).1

/-- `Node.Accept(block)` with a scripted peer -/
def accept (cfg : Cfg) (n : Node) (b : Block) (script : List Resp) : Node × AcceptOut :=
  match acceptLoop cfg n.st b.certs script [] with
  | (st1, none) => ({ n with st := st1 }, .fetch)
  | (st1, some chunks) =>
    let n1 := { n with seen := seenAccept n.seen b, lah := b.height }
    match setMin cfg st1 b.ts b.ids with
    | (st2, false) => ({ n1 with st := st2 }, .prune)
    | (st2, true) => ({ n1 with st := st2, last := b }, .ok chunks)

end HyperModel.DSMR
