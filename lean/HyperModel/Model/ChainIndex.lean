/-
Model of `chainindex/chain_index.go` (property C19). Core Lean only.

The database is a finite map with the key layout of the Go code:
  `0x00 ++ be64 height -> block bytes`       (table `blk`)
  `0x01 ++ id          -> be64 height`       (table `idH`)
  `0x02 ++ be64 height -> id`                (table `hId`)
  `0x03                -> be64 lastAccepted` (field `last`)
Each prefix is one typed association list; `dump` re-encodes the tables into the raw
key/value bytes, sorted like a memdb iterator, and the tie compares that with the real
database after every operation.

`updateLastAccepted` takes a flag `fixed`: `false` is the code before /repo 6de9247, `true`
is the code after `/verif/fixes/C19-prune-target-missing.patch` (a missing prune target is
ignored instead of being returned as `not found`).
-/
namespace HyperModel.ChainIndex

abbrev Bytes := List UInt8

/-! ## association lists -/

abbrev AList (α β : Type) := List (α × β)

def aget {α β} [DecidableEq α] (k : α) : AList α β → Option β
  | [] => none
  | (k', v) :: r => if k' = k then some v else aget k r

def adel {α β} [DecidableEq α] (k : α) : AList α β → AList α β
  | [] => []
  | (k', v) :: r => if k' = k then adel k r else (k', v) :: adel k r

def aput {α β} [DecidableEq α] (k : α) (v : β) (m : AList α β) : AList α β :=
  (k, v) :: adel k m

def akeys {α β} (m : AList α β) : List α := m.map (·.1)

/-! ## blocks, database, batches -/

structure Block where
  id : Bytes
  height : Nat
  bytes : Bytes
deriving DecidableEq, Repr

structure DB where
  blk : AList Nat Bytes := []
  idH : AList Bytes Nat := []
  hId : AList Nat Bytes := []
  last : Option Nat := none

/-- one `batch.Put` / `batch.Delete` -/
inductive BOp
  | putLast (h : Nat)
  | putBlk (h : Nat) (b : Bytes)
  | putIdH (id : Bytes) (h : Nat)
  | putHId (h : Nat) (id : Bytes)
  | delBlk (h : Nat)
  | delIdH (id : Bytes)
  | delHId (h : Nat)

def applyOp (db : DB) : BOp → DB
  | .putLast h => { db with last := some h }
  | .putBlk h b => { db with blk := aput h b db.blk }
  | .putIdH id h => { db with idH := aput id h db.idH }
  | .putHId h id => { db with hId := aput h id db.hId }
  | .delBlk h => { db with blk := adel h db.blk }
  | .delIdH id => { db with idH := adel id db.idH }
  | .delHId h => { db with hId := adel h db.hId }

/-- `batch.Write()`: the operations are applied in order, atomically -/
def applyBatch (db : DB) (ops : List BOp) : DB := ops.foldl applyOp db

/-- `writeBlock(batch, blk)` -/
def writeBlock (b : Block) : List BOp :=
  [.putIdH b.id b.height, .putHId b.height b.id, .putBlk b.height b.bytes]

/-- the three deletions of one expired block -/
def delBlock (h : Nat) (id : Bytes) : List BOp :=
  [.delBlk h, .delIdH id, .delHId h]

inductive Res | ok | notfound
deriving DecidableEq, Repr

/-- `ChainIndex`: the configured window and the database handle -/
structure CI where
  w : Nat
  db : DB

def two64 : Nat := 18446744073709551616

/-- uint64 subtraction (wraps) -/
def sub64 (a b : Nat) : Nat := (a + two64 - b) % two64

/-! ## getters -/

/-- `GetLastAcceptedHeight` -/
def getLast (c : CI) : Option Nat := c.db.last
/-- `GetBlockIDAtHeight` -/
def getBlockIDAtHeight (c : CI) (h : Nat) : Option Bytes := aget h c.db.hId
/-- `GetBlockIDHeight` -/
def getBlockIDHeight (c : CI) (id : Bytes) : Option Nat := aget id c.db.idH
/-- `GetBlockByHeight` (the parser is the inverse of `GetBytes`; the bytes are returned) -/
def getBlockByHeight (c : CI) (h : Nat) : Option Bytes := aget h c.db.blk
/-- `GetBlock` -/
def getBlock (c : CI) (id : Bytes) : Option Bytes :=
  match getBlockIDHeight c id with
  | none => none
  | some h => getBlockByHeight c h

/-! ## mutators -/

/-- `UpdateLastAccepted`. `fixed = false`: before /repo 6de9247; `fixed = true`: with the patch (= /repo since 6de9247). -/
def updateLastAccepted (fixed : Bool) (c : CI) (b : Block) : CI × Res :=
  let batch := BOp.putLast b.height :: writeBlock b
  let expiry := sub64 b.height c.w
  if c.w = 0 ∨ expiry = 0 ∨ expiry ≥ b.height then
    ({ c with db := applyBatch c.db batch }, .ok)
  else
    match getBlockIDAtHeight c expiry with
    | none =>
      if fixed then ({ c with db := applyBatch c.db batch }, .ok)
      else (c, .notfound)
    | some did =>
      ({ c with db := applyBatch c.db (batch ++ delBlock expiry did) }, .ok)

/-- `SaveHistorical` -/
def saveHistorical (c : CI) (b : Block) : CI × Res :=
  ({ c with db := applyBatch c.db (writeBlock b) }, .ok)

/-- insertion sort (the iterator of the database yields keys in ascending order) -/
def insertSorted (a : Nat) : List Nat → List Nat
  | [] => [a]
  | b :: r => if a ≤ b then a :: b :: r else b :: insertSorted a r

def sortNat : List Nat → List Nat
  | [] => []
  | a :: r => insertSorted a (sortNat r)

/-- the `for it.Next()` loop of `cleanupOnStartup` over the (ascending) heights under
prefix 0x02; `none` = `GetBlockIDAtHeight` failed -/
def cleanupLoop (db : DB) (thr : Nat) : List Nat → List BOp → Option (List BOp)
  | [], acc => some acc
  | h :: rest, acc =>
    if h ≥ thr then some acc                       -- break
    else if h = 0 then cleanupLoop db thr rest acc  -- continue (genesis)
    else match aget h db.hId with
      | none => none
      | some did => cleanupLoop db thr rest (acc ++ delBlock h did)

/-- `cleanupOnStartup` -/
def cleanupOnStartup (c : CI) : CI × Res :=
  let lastAccepted := (getLast c).getD 0           -- ErrNotFound leaves the zero value
  if c.w = 0 ∨ lastAccepted ≤ c.w then (c, .ok)
  else
    let thr := lastAccepted - c.w
    match cleanupLoop c.db thr (sortNat (akeys c.db.hId)) [] with
    | none => (c, .notfound)
    | some batch => ({ c with db := applyBatch c.db batch }, .ok)

/-- `New(...)` on an existing database (compaction frequency non-zero) -/
def new (w : Nat) (db : DB) : CI × Res := cleanupOnStartup { w := w, db := db }

/-! ## raw key/value encoding (for the dump compared with the real database) -/

def be64 (n : Nat) : Bytes :=
  [56, 48, 40, 32, 24, 16, 8, 0].map fun s => UInt8.ofNat ((n >>> s) % 256)

def bytesLe : Bytes → Bytes → Bool
  | [], _ => true
  | _ :: _, [] => false
  | a :: r, b :: s => if a < b then true else if b < a then false else bytesLe r s

def insertKV (x : Bytes × Bytes) : List (Bytes × Bytes) → List (Bytes × Bytes)
  | [] => [x]
  | y :: r => if bytesLe x.1 y.1 then x :: y :: r else y :: insertKV x r

def sortKV : List (Bytes × Bytes) → List (Bytes × Bytes)
  | [] => []
  | a :: r => insertKV a (sortKV r)

/-- all raw entries of the database in iterator order -/
def dump (db : DB) : List (Bytes × Bytes) :=
  sortKV (
    db.blk.map (fun (h, b) => ((0 : UInt8) :: be64 h, b)) ++
    db.idH.map (fun (id, h) => ((1 : UInt8) :: id, be64 h)) ++
    db.hId.map (fun (h, id) => ((2 : UInt8) :: be64 h, id)) ++
    (match db.last with | none => [] | some h => [([(3 : UInt8)], be64 h)]))

end HyperModel.ChainIndex
