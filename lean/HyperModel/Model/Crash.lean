/-!
# Crash recovery of the accept pipeline (C18)

Transcribes, at the level of the persisted progress markers,
* `snow/block.go` `StatefulBlock.Accept` (index update, then enqueue) and `processAccept`,
* `vm/vm.go` `VM.AcceptBlock` (execution-results write, then `chain.AcceptBlock` = state commit),
* `snow/block.go` `accept` (subscriber notification after the commit),
* the start-up path `vm/vm.go` `initLastAccepted` / `extractLatestOutputBlock`, followed by
  `snow/chain_index.go` `makeConsensusIndex` / `reprocessFromOutputToInput` and the
  `notifyAccepted` of the last accepted block in `snow/vm.go` `Initialize`.

Persistent (survives a crash): the chain index' last accepted height `idx` (blocks `0..idx` are
stored; one atomic batch per block, `chainindex.UpdateLastAccepted`), the height suffix of the
single `lastResultKey` record `res`, and the height key inside the state db `st` (committed
atomically with the state). Volatile: the accepted queue, the stage of the block being processed,
caches. Blocks of a linear chain are identified with their heights (execution is deterministic,
so ids / roots / results of the never-crashed node are functions of the height).

`restart` transcribes the start-up *after* `/verif/fixes/C18-restart-index-ahead.patch`
(`extractLatestOutputBlock` returns the block at the state height whenever the index is not behind
the state; snow re-processes the rest); `restartOrig` is the start-up before that repair and is
kept for the counterexample theorems. Both assume the (committed) pebble `Compact(nil, nil)` fix.

`event.NotifyAll` delivers to the subscribers one after the other; two subscribers `A`, `B`
(registered in this order) are modelled, so that a crash between two deliveries is a state.
-/
namespace HyperModel.Crash

structure Persist where
  idx : Nat
  st : Nat
  res : Option Nat
deriving DecidableEq, Repr

/-- A running node: persistent markers + volatile pipeline + the subscriber's log of this run. -/
structure Node where
  p : Persist
  /-- index updated for this block, `queueAccept` not yet executed -/
  toEnqueue : Option Nat
  /-- `acceptedQueue` (heights), head = block being processed -/
  queue : List Nat
  /-- progress of the head of the queue: 0 nothing, 1 results written, 2 state committed,
  3 subscriber A notified -/
  stage : Nat
  /-- heights delivered to subscriber A / B in this run, oldest first -/
  notifiedA : List Nat
  notifiedB : List Nat
deriving Repr

/-- fresh node: genesis committed and indexed, genesis notified by `Initialize` -/
def Node.init : Node :=
  { p := { idx := 0, st := 0, res := none }, toEnqueue := none, queue := [], stage := 0, notifiedA := [0], notifiedB := [0] }

inductive Ev where
  | indexUpdate   -- P1  `inputChainIndex.UpdateLastAccepted`
  | enqueue       -- P2  `queueAccept`
  | writeResults  -- P3  `executionResultsDB.Put(lastResultKey, results ‖ height)`
  | commitState   -- P4  `View.CommitToDB`
  | notifyA       -- P5a `event.NotifyAll(acceptedSubs)`: first subscriber
  | notifyB       -- P5b second subscriber; the block leaves the pipeline
deriving DecidableEq, Repr

/-- one atomic step of the pipeline (a disabled event leaves the node unchanged) -/
def step (n : Node) : Ev → Node
  | .indexUpdate =>
    match n.toEnqueue with
    | some _ => n                       -- `Accept` holds the chain lock: one block at a time
    | none => { n with p := { n.p with idx := n.p.idx + 1 }, toEnqueue := some (n.p.idx + 1) }
  | .enqueue =>
    match n.toEnqueue with
    | some h => { n with toEnqueue := none, queue := n.queue ++ [h] }
    | none => n
  | .writeResults =>
    match n.queue, n.stage with
    | h :: _, 0 => { n with p := { n.p with res := some h }, stage := 1 }
    | _, _ => n
  | .commitState =>
    match n.queue, n.stage with
    | h :: _, 1 => { n with p := { n.p with st := h }, stage := 2 }
    | _, _ => n
  | .notifyA =>
    match n.queue, n.stage with
    | h :: _, 2 => { n with stage := 3, notifiedA := n.notifiedA ++ [h] }
    | _, _ => n
  | .notifyB =>
    match n.queue, n.stage with
    | h :: rest, 3 => { n with queue := rest, stage := 0, notifiedB := n.notifiedB ++ [h] }
    | _, _ => n

def run (n : Node) (evs : List Ev) : Node := evs.foldl step n

/-- what a start-up returns -/
inductive Outcome where
  | ok (la : Nat) (renotified : List Nat)
  | errIndexAhead          -- "cannot extract latest output block from invalid state …"
  | errResults             -- "execution results height … does not match state height …"
  | panicNil               -- `vm.chain.Execute` on the not yet constructed `vm.chain`
deriving DecidableEq, Repr

/-- `reprocessFromOutputToInput`: heights `out+1 .. idx`, each verified, accepted and notified -/
def reprocess (out idx : Nat) : List Nat := (List.range (idx - out)).map (· + out + 1)

/-- Start-up before `C18-restart-index-ahead.patch`. -/
def restartOrig (p : Persist) : Outcome :=
  if p.idx = 0 then .ok 0 [0]                                   -- initLastAccepted: genesis
  else if p.idx ≠ p.st ∧ p.idx ≠ p.st + 1 then .errIndexAhead   -- extractLatestOutputBlock
  else if p.idx = p.st then
    (if p.res = some p.st then .ok p.st (reprocess p.st p.idx ++ [p.idx]) else .errResults)
  else .panicNil                                                -- idx = st+1: vm.chain == nil

/-- Start-up of the repaired code. `extractLatestOutputBlock` returns the output block of the
state height (with the stored results if they are the results of that block); then
`reprocessFromOutputToInput` verifies, accepts and notifies `st+1 .. idx`, and `Initialize`
notifies the last accepted block once more. The notifications go to every subscriber. -/
def restart (p : Persist) : Outcome :=
  if p.idx = 0 then .ok 0 [0]                                   -- initLastAccepted: genesis
  else if p.idx < p.st then .errIndexAhead                      -- "invalid state"
  else
    match p.res with
    | none => if p.st = 0 then .ok p.idx (reprocess p.st p.idx ++ [p.idx]) else .errResults
    | some r =>
      if r = p.st then .ok p.idx (reprocess p.st p.idx ++ [p.idx])
      else if r = p.st + 1 ∧ p.st < p.idx then .ok p.idx (reprocess p.st p.idx ++ [p.idx])
      else .errResults

/-- persistent state after a successful start-up (everything up to `la` processed) -/
def afterRestart (p : Persist) : Persist :=
  match restart p with
  | .ok la _ => { idx := p.idx, st := la, res := if la = 0 then p.res else some la }
  | _ => p

/-- **Further repair design** (not applied to /repo): additionally deliver the block at the state
height again before re-processing, so that a crash between its commit and its (last)
notification loses nothing. -/
def restartRenotify (p : Persist) : Outcome :=
  if p.idx < p.st then .errIndexAhead
  else .ok p.idx ([p.st] ++ reprocess p.st p.idx ++ [p.idx])

/-- the never-crashed node after `a` accepted blocks: everything processed -/
def reference (a : Nat) : Persist := { idx := a, st := a, res := if a = 0 then none else some a }

end HyperModel.Crash
