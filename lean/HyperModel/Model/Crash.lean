/-!
# Crash recovery of the accept pipeline (C18)

Transcribes, at the level of the persisted progress markers,
* `snow/block.go` `StatefulBlock.Accept` (index update, then enqueue) and `processAccept`,
* `vm/vm.go` `VM.AcceptBlock` (execution-results write, then `chain.AcceptBlock` = state commit),
* `snow/block.go` `accept` (subscriber notification after the commit),
* the start-up path `vm/vm.go` `initLastAccepted` / `extractLatestOutputBlock`, followed by
  `snow/chain_index.go` `makeConsensusIndex` / `reprocessFromOutputToInput` and the
  `notifyAccepted` of the last accepted block in `snow/vm.go` `Initialize`.

Persistent (survives a crash): the chain index' last accepted height `idx` (blocks `0..idx` are
stored; one atomic batch per block, `chainindex.UpdateLastAccepted`), the height suffix of the
single `lastResultKey` record `res`, and the height key inside the state db `st` (committed
atomically with the state). Volatile: the accepted queue, the stage of the block being processed,
caches. Blocks of a linear chain are identified with their heights (execution is deterministic,
so ids / roots / results of the never-crashed node are functions of the height).

Assumes `/verif/fixes/C18-pebble-compact-nil-limit.patch` (without it *every* start after an
unclean shutdown fails inside `merkledb.New`, before any of the logic below runs).
-/
namespace HyperModel.Crash

structure Persist where
  idx : Nat
  st : Nat
  res : Option Nat
deriving DecidableEq, Repr

/-- A running node: persistent markers + volatile pipeline + the subscriber's log of this run. -/
structure Node where
  p : Persist
  /-- index updated for this block, `queueAccept` not yet executed -/
  toEnqueue : Option Nat
  /-- `acceptedQueue` (heights), head = block being processed -/
  queue : List Nat
  /-- progress of the head of the queue: 0 nothing, 1 results written, 2 state committed -/
  stage : Nat
  /-- heights delivered to the accepted-subscribers in this run, oldest first -/
  notified : List Nat
deriving Repr

/-- fresh node: genesis committed and indexed, genesis notified by `Initialize` -/
def Node.init : Node :=
  { p := { idx := 0, st := 0, res := none }, toEnqueue := none, queue := [], stage := 0, notified := [0] }

inductive Ev where
  | indexUpdate   -- P1  `inputChainIndex.UpdateLastAccepted`
  | enqueue       -- P2  `queueAccept`
  | writeResults  -- P3  `executionResultsDB.Put(lastResultKey, results ‖ height)`
  | commitState   -- P4  `View.CommitToDB`
  | notify        -- P5  `event.NotifyAll(acceptedSubs)`; the block leaves the pipeline
deriving DecidableEq, Repr

/-- one atomic step of the pipeline (a disabled event leaves the node unchanged) -/
def step (n : Node) : Ev → Node
  | .indexUpdate =>
    match n.toEnqueue with
    | some _ => n                       -- `Accept` holds the chain lock: one block at a time
    | none => { n with p := { n.p with idx := n.p.idx + 1 }, toEnqueue := some (n.p.idx + 1) }
  | .enqueue =>
    match n.toEnqueue with
    | some h => { n with toEnqueue := none, queue := n.queue ++ [h] }
    | none => n
  | .writeResults =>
    match n.queue, n.stage with
    | h :: _, 0 => { n with p := { n.p with res := some h }, stage := 1 }
    | _, _ => n
  | .commitState =>
    match n.queue, n.stage with
    | h :: _, 1 => { n with p := { n.p with st := h }, stage := 2 }
    | _, _ => n
  | .notify =>
    match n.queue, n.stage with
    | h :: rest, 2 => { n with queue := rest, stage := 0, notified := n.notified ++ [h] }
    | _, _ => n

def run (n : Node) (evs : List Ev) : Node := evs.foldl step n

/-- what a start-up returns -/
inductive Outcome where
  | ok (la : Nat) (renotified : List Nat)
  | errIndexAhead          -- "cannot extract latest output block from invalid state …"
  | errResults             -- "execution results height … does not match state height …"
  | panicNil               -- `vm.chain.Execute` on the not yet constructed `vm.chain`
deriving DecidableEq, Repr

/-- `reprocessFromOutputToInput`: heights `out+1 .. idx`, each verified, accepted and notified -/
def reprocess (out idx : Nat) : List Nat := (List.range (idx - out)).map (· + out + 1)

/-- Start-up of the code as it is. -/
def restart (p : Persist) : Outcome :=
  if p.idx = 0 then .ok 0 [0]                                   -- initLastAccepted: genesis
  else if p.idx ≠ p.st ∧ p.idx ≠ p.st + 1 then .errIndexAhead   -- extractLatestOutputBlock
  else if p.idx = p.st then
    (if p.res = some p.st then .ok p.st (reprocess p.st p.idx ++ [p.idx]) else .errResults)
  else .panicNil                                                -- idx = st+1: vm.chain == nil

/-- persistent state after a successful start-up (everything up to `la` processed) -/
def afterRestart (p : Persist) : Persist :=
  match restart p with
  | .ok la _ => { p with st := la, res := if la = 0 then p.res else some la }
  | _ => p

/-- **Repair design** (not applied to /repo): return the output block of the *state* height
whenever `idx ≥ st`, notify it again, and let `reprocessFromOutputToInput` execute, accept and
notify `st+1 .. idx`. -/
def restartRepaired (p : Persist) : Outcome :=
  if p.idx < p.st then .errIndexAhead
  else .ok p.idx ([p.st] ++ reprocess p.st p.idx ++ [p.idx])

/-- the never-crashed node after `a` accepted blocks: everything processed -/
def reference (a : Nat) : Persist := { idx := a, st := a, res := if a = 0 then none else some a }

end HyperModel.Crash
