/-!
Model of `pubsub/message_buffer.go` + `pubsub/messages.go` (canoto `BatchMessage`), property
C32, **with the repair of `/verif/fixes/C32-batch-framing-overhead.patch`** (/repo ae6ebd9) (`Send` accounts
for the per-message framing: `l := batchEntrySize(msg)` instead of `len(msg)`) and of
`/verif/fixes/C32-close-deadlock-with-timer.patch` (/repo 9e4a691) (`Close` stops the timer after releasing
the mutex; before, `Close` could deadlock with a running timer callback, so that "each
locked region is one atomic step that always completes" was false).
Core Lean only.  Bytes are `Nat`s; messages and batches are byte lists.

Concurrency: every method body (`Send`, `Close`, the timer callback) runs under the mutex
`m.l`, and the consumer's channel receive is one atomic operation, so every interleaving of
goroutines is a sequence of the atomic steps `Op` below.  The flush timer is modelled by the
flag `timerArmed`, updated exactly where the code calls `pendingTimer.SetTimeoutIn` (armed)
and `pendingTimer.Cancel` (disarmed); the timer is one-shot: the callback step `fire` is
enabled only while armed and disarms.  Trusted (avalanchego `utils/timer`): an armed timer
eventually calls the callback, an unarmed one never does.  `Close` calls `Stop` only after
releasing the mutex, so a due callback may still run once after `Close` (and finds `closed`).
A callback already dispatched may also run *late*, after a `Cancel` (step `late`): when the
timer is unarmed this is a no-op (`Props.C32.callback_unarmed_noop`).
-/
namespace HyperModel.Pubsub

abbrev Bytes := List Nat

/-! ### canoto wire format of `BatchMessage{Messages [][]byte "repeated bytes,1"}` -/

/-- `canoto__BatchMessage__Messages__tag = "\x0a"` (field 1, wire type `Len`) -/
def tag : Nat := 0x0a

/-- `binary.AppendUvarint` -/
def encVarint (x : Nat) : Bytes :=
  if x < 128 then [x] else (x % 128 + 128) :: encVarint (x / 128)
termination_by x
decreasing_by omega

/-- `canoto.SizeUint`: `if v == 0 {1} else (bits.Len64(v)+6)/7` -/
def sizeUint (v : Nat) : Nat := if v = 0 then 1 else (Nat.log2 v + 1 + 6) / 7

/-- `batchEntrySize(msg)` = `len(tag) + canoto.SizeBytes(msg)` = `1 + SizeUint(len) + len` -/
def entrySize (msg : Bytes) : Nat := 1 + (sizeUint msg.length + msg.length)

/-- `MarshalCanoto`: for each message `Append(tag); AppendBytes(v)` -/
def encodeBatch : List Bytes → Bytes
  | [] => []
  | m :: r => tag :: (encVarint m.length ++ (m ++ encodeBatch r))

/-- `binary.Uvarint` + the checks of `canoto.ReadUint[uint64]` (unexpected EOF, overflow
past 10 bytes / 64 bits, padded zeroes): value and remaining bytes. -/
def readUvarint : (i : Nat) → (acc : Nat) → Bytes → Option (Nat × Bytes)
  | _, _, [] => none
  | i, acc, b :: r =>
    if i = 10 then none
    else if b < 128 then
      if i = 9 ∧ b > 1 then none
      else if i > 0 ∧ b = 0 then none
      else some (acc + b * 2 ^ (7 * i), r)
    else readUvarint (i + 1) (acc + (b % 128) * 2 ^ (7 * i)) r

/-- `UnmarshalCanoto` of `BatchMessage`: a sequence of `tag, length, payload` entries and
nothing else (any other tag / wire type / field order / truncation is an error). -/
def decodeFuel : Nat → Bytes → Option (List Bytes)
  | _, [] => some []
  | 0, _ :: _ => none
  | fuel + 1, t :: rest =>
    if t ≠ tag then none else
    match readUvarint 0 0 rest with
    | none => none
    | some (n, r) =>
      if n > r.length then none else
      match decodeFuel fuel (r.drop n) with
      | none => none
      | some ms => some (r.take n :: ms)

/-- `ParseBatchMessage` -/
def decodeBatch (b : Bytes) : Option (List Bytes) := decodeFuel b.length b

/-! ### `MessageBuffer` -/

structure Cfg where
  cap : Nat      -- `pending` argument: capacity of the `Queue` channel
  maxSize : Nat  -- `maxSize`

structure State where
  pending : List Bytes
  pendingSize : Nat
  queue : List Bytes   -- contents of the buffered channel `Queue`, oldest first
  closed : Bool
  timerArmed : Bool    -- `SetTimeoutIn` called and neither cancelled nor fired since

def init : State :=
  { pending := [], pendingSize := 0, queue := [], closed := false, timerArmed := false }

/-- one `clearPending` call, as observed from outside -/
structure Flush where
  msgs : List Bytes     -- `m.pending` at the time of the call
  bytes : Bytes         -- `CreateBatchMessage(m.pending)`
  delivered : Bool      -- `Queue <- bm` succeeded (`false`: "dropped pending message")
  deriving DecidableEq

inductive Res | ok | closed | tooLarge | batch (b : Bytes) | empty | eof | notArmed
  deriving DecidableEq

structure Out where
  res : Res
  flush : Option Flush

/-- `clearPending`: `select { case m.Queue <- bm: default: drop }`, then reset `pending` -/
def clearPending (c : Cfg) (s : State) : State × Flush :=
  let bm := encodeBatch s.pending
  if s.queue.length < c.cap then
    ({ s with queue := s.queue ++ [bm], pendingSize := 0, pending := [] },
     { msgs := s.pending, bytes := bm, delivered := true })
  else
    ({ s with pendingSize := 0, pending := [] },
     { msgs := s.pending, bytes := bm, delivered := false })

/-- `if len(m.pending) == 1 { m.pendingTimer.SetTimeoutIn(m.timeout) }` -/
def armIfFirst (s : State) : State :=
  if s.pending.length = 1 then { s with timerArmed := true } else s

/-- `Send` (repaired) -/
def send (c : Cfg) (s : State) (msg : Bytes) : State × Out :=
  if s.closed then (s, ⟨.closed, none⟩)
  else
    let l := entrySize msg
    if l > c.maxSize then (s, ⟨.tooLarge, none⟩)
    else if s.pendingSize + l > c.maxSize then
      -- `m.pendingTimer.Cancel(); m.clearPending()`
      let r := clearPending c { s with timerArmed := false }
      (armIfFirst { r.1 with pendingSize := r.1.pendingSize + l, pending := r.1.pending ++ [msg] },
        ⟨.ok, some r.2⟩)
    else
      (armIfFirst { s with pendingSize := s.pendingSize + l, pending := s.pending ++ [msg] },
        ⟨.ok, none⟩)

/-- the body of the `pendingTimer` callback -/
def callback (c : Cfg) (s : State) : State × Out :=
  if s.closed then (s, ⟨.closed, none⟩)
  else if s.pending.length = 0 then (s, ⟨.ok, none⟩)
  else ((clearPending c s).1, ⟨.ok, some (clearPending c s).2⟩)

/-- the timer fires: enabled only while the timer is armed, and one-shot -/
def fire (c : Cfg) (s : State) : State × Out :=
  if s.timerArmed then callback c { s with timerArmed := false }
  else (s, ⟨.notArmed, none⟩)

/-- `Close` -/
def close (c : Cfg) (s : State) : State × Out :=
  if s.closed then (s, ⟨.closed, none⟩)
  else
    let (s1, f) := clearPending c s
    ({ s1 with closed := true }, ⟨.ok, some f⟩)

/-- the consumer: non-blocking `msg, ok := <-Queue` (`eof`: channel closed and drained) -/
def recv (s : State) : State × Out :=
  match s.queue with
  | b :: q => ({ s with queue := q }, ⟨.batch b, none⟩)
  | [] => (s, ⟨if s.closed then .eof else .empty, none⟩)

/-- `late`: a callback that was dispatched by an earlier arming and was blocked on the mutex
runs now, whatever the flag says (e.g. after `Send` did `Cancel` [+ `SetTimeoutIn`]); it does
not consume the current arming. -/
inductive Op | send (msg : Bytes) | fire | close | recv | late

def step (c : Cfg) (s : State) : Op → State × Out
  | .send m => send c s m
  | .fire => fire c s
  | .close => close c s
  | .recv => recv s
  | .late => callback c s

/-- `Connection.writePump` / the ws client's write loop: each batch dequeued from `Queue`
(`recv`) is written as one websocket binary frame, `conn.WriteMessage(BinaryMessage, message)`,
unchanged. -/
def writeFrame (batch : Bytes) : Bytes := batch

/-- run a sequence of atomic steps: final state and the outputs, one per step -/
def run (c : Cfg) : State → List Op → State × List Out
  | s, [] => (s, [])
  | s, op :: ops =>
    ((run c (step c s op).1 ops).1, (step c s op).2 :: (run c (step c s op).1 ops).2)

end HyperModel.Pubsub
