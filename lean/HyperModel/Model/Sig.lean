import HyperModel.Generated.FactsC17
/-
Model of the *logic* of the three auth schemes (property C17) — core Lean only.

  auth/ed25519.go, auth/secp256r1.go, auth/bls.go : `Bytes`, `Unmarshal<X>`, `Verify`, `Actor`
  codec/address.go                                : `CreateAddress`
  crypto/ed25519/ed25519.go  -> ed25519consensus.Verify (ZIP-215): `sig[63]&224 != 0` reject,
                                 `Scalar.SetCanonicalBytes(sig[32:])` (s < ℓ) reject
  crypto/secp256r1/secp256r1.go : `normalizedS` (s.Cmp(halfOrder) != 1) before `ecdsa.Verify`

Parameters (not modelled): the hash `utils.ToID`, the group equations of the three curves,
validity of compressed BLS points. They enter as arguments (`hash`, `groupOK`, `Group`).
-/
namespace HyperModel.Sig
open HyperModel.Generated.C17

abbrev Bytes := List UInt8

inductive Scheme | ed25519 | secp256r1 | bls
  deriving DecidableEq, Repr

/-- `auth/consts.go`: ED25519ID, SECP256R1ID, BLSID (read from the running code) -/
def typeID : Scheme → Nat
  | .ed25519 => ed25519ID | .secp256r1 => secp256r1ID | .bls => blsID

def pkLen : Scheme → Nat
  | .ed25519 => ed25519PkLen | .secp256r1 => secp256r1PkLen | .bls => blsPkLen

def sigLen : Scheme → Nat
  | .ed25519 => ed25519SigLen | .secp256r1 => secp256r1SigLen | .bls => blsSigLen

/-- the declared constants `ED25519Size`, `SECP256R1Size`, `BLSSize` -/
def authSize : Scheme → Nat
  | .ed25519 => ed25519Size | .secp256r1 => secp256r1Size | .bls => blsSize

def typeByte (s : Scheme) : UInt8 := UInt8.ofNat (typeID s)

/-- an auth value: the Go structs hold fixed-size arrays (BLS: decoded points, identified
with their compressed encoding — parameter: compress ∘ decompress = id on valid encodings). -/
structure Auth where
  scheme : Scheme
  pk : Bytes
  sig : Bytes
  deriving DecidableEq, Repr

/-- group membership of compressed BLS points — parameters of the model, but an explicit
precondition that the codec checks:
* `validPk b`: `b` decompresses to a point of the prime-order subgroup G1 that is not the
  point at infinity (`bls.PublicKeyFromBytes` = Uncompress + blst `KeyValidate`);
* `validSig b`: `b` decompresses to a point of G2 (`bls.SignatureFromBytes` = Uncompress +
  `SigValidate(false)`).
The tie evaluates both predicates on blst directly (not through crypto/bls), so an unmarshaler
that admits an on-curve point outside the subgroup diverges from the model. -/
structure Group where
  validPk : Bytes → Bool
  validSig : Bytes → Bool

/-- only `UnmarshalBLS` decodes points (public key first, then signature) -/
def pointsOK (G : Group) : Scheme → Bytes → Bytes → Bool
  | .bls, pk, sig => G.validPk pk && G.validSig sig
  | _, _, _ => true

def WF (G : Group) (a : Auth) : Prop :=
  a.pk.length = pkLen a.scheme ∧ a.sig.length = sigLen a.scheme ∧ pointsOK G a.scheme a.pk a.sig = true

/-- `(*ED25519).Bytes` etc.: `b[0] = id; copy(b[1:], Signer); copy(b[1+PkLen:], Signature)`.
For the fixed-size fields this is the concatenation. -/
def marshal (a : Auth) : Bytes := typeByte a.scheme :: (a.pk ++ a.sig)

inductive UErr | size | typ | point
  deriving DecidableEq, Repr

/-- `UnmarshalED25519 / UnmarshalSECP256R1 / UnmarshalBLS` -/
def unmarshal (G : Group) (s : Scheme) (b : Bytes) : Except UErr Auth :=
  if b.length ≠ authSize s then .error .size
  else if b.head? ≠ some (typeByte s) then .error .typ
  else
    let pk := (b.drop 1).take (pkLen s)
    let sig := (b.drop (1 + pkLen s)).take (sigLen s)
    if pointsOK G s pk sig then .ok ⟨s, pk, sig⟩ else .error .point

/-- `codec.CreateAddress(typeID, id)`; `id = utils.ToID(pk)` is supplied by the caller. -/
def address (s : Scheme) (id : Bytes) : Bytes := typeByte s :: id

/-! ### scalar range rules -/

/-- little-endian value (ed25519 scalars) -/
def leNat : Bytes → Nat
  | [] => 0
  | b :: r => b.toNat + 256 * leNat r

/-- big-endian value (`big.Int.SetBytes`) -/
def beNat (b : Bytes) : Nat := leNat b.reverse

/-- order of the prime-order subgroup of edwards25519 -/
def ell : Nat := 2 ^ 252 + 27742317777372353535851937790883648493

/-- `edwards25519.Scalar.SetCanonicalBytes`: accepted iff the little-endian value is < ℓ -/
def edCanonical (s : Nat) : Bool := decide (s < ell)

/-- ed25519consensus.Verify's checks on the signature that do not involve the group:
`len(sig) == 64`, `sig[63]&224 == 0`, `SetCanonicalBytes(sig[32:])`. -/
def edRangeOK (sig : Bytes) : Bool :=
  sig.length == 64 && ((sig.getD 63 0).toNat &&& 224) == 0 && edCanonical (leNat (sig.drop 32))

/-- `secp256r1HalfOrder = N / 2` -/
def halfOrder : Nat := p256N / 2

/-- `normalizedS(s)`: `s.Cmp(halfOrder) != 1` -/
def lowS (s : Nat) : Bool := decide (s ≤ halfOrder)

/-- the `normalizedS` test of `secp256r1.Verify` on `sig[32:]` -/
def secpRangeOK (sig : Bytes) : Bool := lowS (beNat (sig.drop 32))

def rangeOK : Scheme → Bytes → Bool
  | .ed25519, sig => edRangeOK sig
  | .secp256r1, sig => secpRangeOK sig
  | .bls, _ => true

/-- `Auth.Verify`: the range rule, then the group equation (`groupOK`, parameter; for
ed25519 it is a function of `s mod ℓ`, for P-256 it includes parsing the compressed key). -/
def verify (s : Scheme) (sig : Bytes) (groupOK : Bool) : Bool := rangeOK s sig && groupOK

end HyperModel.Sig
