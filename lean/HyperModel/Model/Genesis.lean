import HyperModel.Generated.FactsC27
/-!
Model of genesis initialisation (property C27). Core Lean only.

Transcribes
* `genesis/genesis.go: (*DefaultGenesis).InitializeState`
* `state/balance/balance.go: (*PrefixBalanceHandler).BalanceKey / AddBalance`
  (the reference VM's `examples/morpheusvm/storage: BalanceKey / AddBalance` is the same code
  with the fixed prefix `0x03`)
* `chain/genesis.go: NewGenesisCommit`
* the parts of `state/tstate/tstate_view.go: Insert / GetValue` that a view with
  `state.CompletePermissions` over an *empty* parent exercises
* `internal/fees/manager.go: NewManager(nil)`, `SetUnitPrice`, `Bytes`
* `keys/keys.go: EncodeChunks, MaxChunks, NumChunks, VerifyValue`

Constants come from the running Go code (`Generated/FactsC27.lean`).
merkledb is a parameter: `root` maps the *content* of a view (a finite map) to an ID.
-/
namespace HyperModel.Genesis
open HyperModel.Generated.C27

abbrev Bytes := List UInt8

def maxU64 : Nat := 18446744073709551615

/-- `binary.BigEndian.AppendUint64(nil, n)` / `database.PackUInt64(n)` -/
def be64 (n : Nat) : Bytes :=
  [UInt8.ofNat (n / 72057594037927936), UInt8.ofNat (n / 281474976710656),
   UInt8.ofNat (n / 1099511627776), UInt8.ofNat (n / 4294967296),
   UInt8.ofNat (n / 16777216), UInt8.ofNat (n / 65536), UInt8.ofNat (n / 256), UInt8.ofNat n]

/-- `binary.BigEndian.AppendUint16(nil, n)` -/
def be16 (n : Nat) : Bytes := [UInt8.ofNat (n / 256), UInt8.ofNat n]

/-- `database.ParseUInt64`: exactly 8 bytes, big endian; `none` is `errWrongSize` -/
def parseU64 : Bytes → Option Nat
  | [a, b, c, d, e, f, g, h] =>
    some (a.toNat * 72057594037927936 + b.toNat * 281474976710656 + c.toNat * 1099511627776
      + d.toNat * 4294967296 + e.toNat * 16777216 + f.toNat * 65536 + g.toNat * 256 + h.toNat)
  | _ => none

/-- `keys.EncodeChunks(prefix, chunks)` -/
def encodeChunks (pfx : Bytes) (chunks : Nat) : Bytes := pfx ++ be16 chunks

/-- `keys.MaxChunks(key)`: the last two bytes, big endian; `none` when shorter than 2 -/
def maxChunks (key : Bytes) : Option Nat :=
  if key.length < 2 then none
  else match key.drop (key.length - 2) with
    | [hi, lo] => some (hi.toNat * 256 + lo.toNat)
    | _ => none

/-- `keys.NumChunks(value)` -/
def numChunks (value : Bytes) : Option Nat :=
  if value.length = 0 then some 0
  else
    let raw := value.length / chunkSize + 1
    if raw > 65535 then none else some raw

/-- `keys.VerifyValue(key, value)` -/
def verifyValue (key value : Bytes) : Bool :=
  match numChunks value, maxChunks key with
  | some vc, some kc => decide (vc ≤ kc)
  | _, _ => false

/-! ## the tstate view (CompletePermissions, empty parent): newest binding first -/

abbrev KV := List (Bytes × Bytes)

/-- `TStateView.GetValue` (pending changes, then the empty parent: not found) -/
def get : KV → Bytes → Option Bytes
  | [], _ => none
  | (k', v) :: rest, k => if k' = k then some v else get rest k

inductive Err where
  | overflow      -- safemath.ErrOverflow
  | parse         -- database.errWrongSize
  | keyValue      -- tstate.ErrInvalidKeyValue
  deriving DecidableEq, Repr

/-- `TStateView.Insert` with complete permissions: the scope checks pass, `VerifyValue` may
fail; an insert of the value already held is a no-op (same content). -/
def viewInsert (m : KV) (key value : Bytes) : Except Err KV :=
  if verifyValue key value then .ok ((key, value) :: m) else .error .keyValue

/-- `PrefixBalanceHandler.BalanceKey(addr)`: prefix ‖ addr ‖ uint16(BalanceChunks) -/
def balanceKey (pfx addr : Bytes) : Bytes := pfx ++ addr ++ be16 balanceChunks

/-- the read half of `AddBalance`: `mu.GetValue` (not found = 0) and `database.ParseUInt64` -/
def readBalance (m : KV) (key : Bytes) : Except Err Nat :=
  match get m key with
  | none => .ok 0                       -- database.ErrNotFound
  | some raw => match parseU64 raw with
    | none => .error .parse
    | some b => .ok b

/-- `PrefixBalanceHandler.AddBalance` -/
def addBalance (pfx : Bytes) (m : KV) (addr : Bytes) (amount : Nat) : Except Err KV :=
  let key := balanceKey pfx addr
  match readBalance m key with
  | .error e => .error e
  | .ok balance =>
    if balance > maxU64 - amount then .error .overflow      -- math.Add(balance, amount)
    else viewInsert m key (be64 (balance + amount))

structure Alloc where
  addr : Bytes
  bal : Nat
  deriving DecidableEq, Repr

/-- the `for _, alloc := range g.CustomAllocation` loop of `InitializeState` -/
def initLoop (pfx : Bytes) : List Alloc → Nat → KV → Except Err KV
  | [], _, m => .ok m
  | al :: rest, supply, m =>
    if supply > maxU64 - al.bal then .error .overflow        -- safemath.Add(supply, alloc.Balance)
    else match addBalance pfx m al.addr al.bal with
      | .error e => .error e
      | .ok m' => initLoop pfx rest (supply + al.bal) m'

/-- `DefaultGenesis.InitializeState` on the fresh view -/
def initializeState (pfx : Bytes) (allocs : List Alloc) : Except Err KV :=
  initLoop pfx allocs 0 []

/-- one dimension of the fee manager: price ‖ window ‖ lastConsumed -/
def feeDim (price : Nat) : Bytes :=
  be64 price ++ List.replicate windowSliceSize 0 ++ be64 0

/-- `internalfees.NewManager(nil)` followed by `SetUnitPrice(i, minUnitPrice[i])` for every
dimension, then `Bytes()`: 8 zero bytes (last time) and one `feeDim` per dimension. -/
def feeBytes (prices : List Nat) : Bytes :=
  be64 0 ++ (prices.take feeDimensions).flatMap feeDim

structure Config where
  balancePrefix : Bytes
  heightPrefix : Bytes
  timestampPrefix : Bytes
  feePrefix : Bytes
  minUnitPrice : List Nat        -- `fees.Dimensions`: exactly `feeDimensions` entries

def heightKey (c : Config) : Bytes := encodeChunks c.heightPrefix heightKeyChunks
def timestampKey (c : Config) : Bytes := encodeChunks c.timestampPrefix timestampKeyChunks
def feeKey (c : Config) : Bytes := encodeChunks c.feePrefix feeKeyChunks

/-- the genesis block header built by `NewGenesisCommit` -/
structure Header where
  height : Nat
  timestamp : Nat
  numTxs : Nat
  stateRoot : Nat
  deriving DecidableEq, Repr

/-- content of a committed view as a finite map -/
def content (m : KV) : Bytes → Option Bytes := get m

/-- `NewGenesisCommit`: state initialisation, the three metadata inserts, commit, root,
header. `root` is merkledb's root as a function of the view's content. -/
def genesisCommit (root : (Bytes → Option Bytes) → Nat) (c : Config) (allocs : List Alloc) :
    Except Err (KV × Header) :=
  match initializeState c.balancePrefix allocs with
  | .error e => .error e
  | .ok m0 =>
    match viewInsert m0 (heightKey c) (be64 0) with
    | .error e => .error e
    | .ok m1 =>
      match viewInsert m1 (timestampKey c) (be64 0) with
      | .error e => .error e
      | .ok m2 =>
        match viewInsert m2 (feeKey c) (feeBytes c.minUnitPrice) with
        | .error e => .error e
        | .ok m3 =>
          .ok (m3, { height := genesisHeaderHeight, timestamp := genesisHeaderTimestamp,
                     numTxs := 0, stateRoot := root (content m3) })

/-- a `chain.RuleFactory` as far as genesis is concerned: `GetRules(t).GetMinUnitPrice()` -/
abbrev PriceRules := Int → List Nat

/-- `NewGenesisCommit` with its rule factory argument: `genesisRules := ruleFactory.GetRules(0)`
— the rules in force at the genesis *state* timestamp 0 (which is what the state records),
not those in force at the genesis *header's* timestamp (2023-01-01). -/
def genesisCommitRF (root : (Bytes → Option Bytes) → Nat) (balancePrefix heightPrefix
    timestampPrefix feePrefix : Bytes) (rf : PriceRules) (allocs : List Alloc) :
    Except Err (KV × Header) :=
  genesisCommit root { balancePrefix := balancePrefix, heightPrefix := heightPrefix,
                       timestampPrefix := timestampPrefix, feePrefix := feePrefix,
                       minUnitPrice := rf 0 } allocs

/-- distinct keys of a view, newest first (what iterating the committed state lists) -/
def keysOf : KV → List Bytes
  | [] => []
  | (k, _) :: rest => if (keysOf rest).contains k then keysOf rest else k :: keysOf rest

end HyperModel.Genesis
