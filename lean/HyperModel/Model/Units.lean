import HyperModel.Model.Fees
/-
Model of `chain/transaction.go: Transaction.Units` (with `StateKeys`, `state.Keys.Add`,
`keys.Valid`, `keys.MaxChunks`, `internal/math.Uint64Operator`) and of the per-block use of
`Manager.Consume` in `chain/builder.go` / `chain/processor.go` — property C12.
Core Lean only.
-/
namespace HyperModel.Units
open HyperModel.Window HyperModel.Fees

abbrev Key := List UInt8

/-- the unit costs `Units` reads from `chain.Rules` -/
structure UnitRules where
  baseCompute : Nat
  keyRead : Nat
  valRead : Nat
  keyAlloc : Nat
  valAlloc : Nat
  keyWrite : Nat
  valWrite : Nat

inductive UnitsErr where
  | overflow   -- avalanchego math.ErrOverflow
  | badKey     -- chain.ErrInvalidKeyValue
deriving Repr, DecidableEq

/-! `internal/math.Uint64Operator`: value + sticky error; `none` = error set -/

/-- `Uint64Operator.Add` -/
def opAdd (o : Option Nat) (n : Nat) : Option Nat :=
  match o with
  | none => none
  | some v => checkedAdd v n

/-- avalanchego `math.Mul[uint64]` -/
def checkedMul (a b : Nat) : Option Nat := if a * b < two64 then some (a * b) else none

/-- `Uint64Operator.MulAdd` -/
def opMulAdd (o : Option Nat) (a b : Nat) : Option Nat :=
  match o with
  | none => none
  | some v =>
    match checkedMul a b with
    | none => none
    | some p => checkedAdd v p

/-- `keys.Valid` -/
def keyValid (k : Key) : Bool := decide (k.length ≥ 2)

/-- `keys.MaxChunks`: the big-endian `uint16` suffix -/
def maxChunks (k : Key) : Option Nat :=
  if k.length < 2 then none
  else some ((k.getD (k.length - 2) 0).toNat * 256 + (k.getD (k.length - 1) 0).toNat)

/-- the key set built by `StateKeys` (a Go map: each distinct key once). Only the key set
matters for `Units`; permissions are unioned and not read here. First occurrences, in order. -/
def dedup : List Key → List Key
  | [] => []
  | k :: ks => k :: (dedup ks).filter (· != k)

/-- `Transaction.StateKeys`: `none` = `ErrInvalidKeyValue` (some declared key, of an action
or of the sponsor, is shorter than two bytes) -/
def stateKeys (actionKeys : List (List Key)) (sponsorKeys : List Key) : Option (List Key) :=
  let all := actionKeys.flatten ++ sponsorKeys
  if all.all keyValid then some (dedup all) else none

/-- compute units: `NewUint64Operator(base)`, `Add` each action, `Add` auth -/
def computeUnits (base : Nat) (actionCUs : List Nat) (authCU : Nat) : Option Nat :=
  opAdd (actionCUs.foldl opAdd (some base)) authCU

/-- one of the three storage accumulators over the key set (`storageStep` is the loop body):
`op.Add(keyCost); op.MulAdd(maxChunks, valueCost)` per key. A key whose `MaxChunks` fails
would return `ErrInvalidKeyValue`; all keys of `stateKeys` are valid, so the model folds
`0` chunks there (unreachable, `Props.C12.stateKeys_valid`). -/
def storageStep (keyCost valCost : Nat) (o : Option Nat) (k : Key) : Option Nat :=
  opMulAdd (opAdd o keyCost) ((maxChunks k).getD 0) valCost

def storageUnits (keyCost valCost : Nat) (ks : List Key) : Option Nat :=
  ks.foldl (storageStep keyCost valCost) (some 0)

/-- `Transaction.Units(bh, r)` with `t.Size() = size` -/
def units (size : Nat) (r : UnitRules) (actionCUs : List Nat) (authCU : Nat)
    (actionKeys : List (List Key)) (sponsorKeys : List Key) : Except UnitsErr Dims :=
  match computeUnits r.baseCompute actionCUs authCU with
  | none => .error .overflow
  | some compute =>
    match stateKeys actionKeys sponsorKeys with
    | none => .error .badKey
    | some ks =>
      match storageUnits r.keyRead r.valRead ks, storageUnits r.keyAlloc r.valAlloc ks,
            storageUnits r.keyWrite r.valWrite ks with
      | some reads, some allocs, some writes => .ok [size, compute, reads, allocs, writes]
      | _, _, _ => .error .overflow

/-! ## Block consumption

`chain/processor.go` and `chain/builder.go` start every block from
`parent.ComputeNext(...)` (`lastConsumed = 0`) and call `Consume(units, maxBlockUnits)` for
each transaction; the block's `UnitsConsumed` is `feeManager.UnitsConsumed()`. A failed
`Consume` makes the processor reject the block and the builder skip the transaction. -/

/-- the manager after offering the transactions' units one by one (builder semantics: a
transaction that does not fit is skipped), with the list of accepted/rejected flags -/
def consumeAll (l : Dims) : Raw → List Dims → Raw × List Bool
  | r, [] => (r, [])
  | r, d :: ds =>
    let ((ok, _), r') := consume r d l
    let (rf, oks) := consumeAll l r' ds
    (rf, ok :: oks)

/-- why `Processor.Execute` rejects a block in its `executeTxs` loop -/
inductive BlockErr where
  | units (e : UnitsErr)      -- `tx.Units` failed
  | tooLarge (dim : Nat)      -- `ErrInvalidUnitsConsumed: <dim> too large`
deriving Repr, DecidableEq

/-- the metering part of `Processor.executeTxs` (`chain/processor.go`): for each transaction
in block order `units, err := tx.Units(...)` (error → the block is rejected), then
`feeManager.Consume(units, r.GetMaxBlockUnits())` — the **first** failing `Consume` aborts
the block with `ErrInvalidUnitsConsumed`. `us` are the transactions' `Units` results. -/
def processTxs (l : Dims) : Raw → List (Except UnitsErr Dims) → Except BlockErr Raw
  | r, [] => .ok r
  | _, .error e :: _ => .error (.units e)
  | r, .ok d :: rest =>
    match consume r d l with
    | ((true, _), r') => processTxs l r' rest
    | ((false, i), _) => .error (.tooLarge i)

/-- the metering part of `Builder.BuildBlock` (`chain/builder.go`), for transactions offered
in the order the builder reaches `Consume`: a transaction that does not fit is skipped
(restored to the mempool); if the consumption in the dimension that failed has reached the
window target, building stops (`errBlockFull`) and nothing further is included. -/
def buildAll (l target : Dims) : Raw → List Dims → Raw × List Bool
  | r, [] => (r, [])
  | r, d :: ds =>
    match consume r d l with
    | ((true, _), r') => ((buildAll l target r' ds).1, true :: (buildAll l target r' ds).2)
    | ((false, i), r') =>
      if lastConsumed r' i ≥ dget target i then (r', false :: ds.map fun _ => false)
      else ((buildAll l target r' ds).1, false :: (buildAll l target r' ds).2)

end HyperModel.Units
