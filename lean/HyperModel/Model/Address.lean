import HyperModel.Generated.FactsC28
/-!
Model of `codec/address.go` (property C28) **with the repair of
`/verif/fixes/C28-address-length-check.patch`** (committed in /repo as 8bfec18) (`UnmarshalText` rejects a checksummed
payload whose length is not `AddressLen`).  Core Lean only.

Go strings and byte slices are lists of bytes; a byte is a `Nat` (theorems carry the
well-typedness hypothesis `< 256` where a byte is split into two hex digits).
`hashing.Checksum(·, checksumLen)` (last four bytes of SHA-256) is the uninterpreted
parameter `H`.
-/
namespace HyperModel.Address
open HyperModel.Generated.C28 (addressLen checksumLen)

abbrev Bytes := List Nat

/-- `encoding/hex` `hextable = "0123456789abcdef"` -/
def hexDigit (n : Nat) : Nat := if n < 10 then 48 + n else 87 + n

/-- `hex.EncodeToString` -/
def hexEncode : Bytes → Bytes
  | [] => []
  | b :: r => hexDigit (b / 16) :: hexDigit (b % 16) :: hexEncode r

/-- `encoding/hex` `reverseHexTable` (digits, `a`–`f`, `A`–`F`) -/
def fromHexChar (c : Nat) : Option Nat :=
  if 48 ≤ c ∧ c ≤ 57 then some (c - 48)
  else if 97 ≤ c ∧ c ≤ 102 then some (c - 87)
  else if 65 ≤ c ∧ c ≤ 70 then some (c - 55)
  else none

/-- `hex.DecodeString`: pairs of hex digits; an invalid character (`InvalidByteError`) or an
odd length (`ErrLength`) is an error (`none`). -/
def hexDecode : Bytes → Option Bytes
  | [] => some []
  | [_] => none
  | p :: q :: r =>
    match fromHexChar p, fromHexChar q with
    | some a, some b =>
      match hexDecode r with
      | some d => some ((a * 16 + b) :: d)
      | none => none
    | _, _ => none

inductive Err | hex | missing | badsum | size
  deriving DecidableEq, Repr

/-- `if len(s) >= 2 && s[0] == '0' && s[1] == 'x' { s = s[2:] }` -/
def stripPrefix : Bytes → Bytes
  | 48 :: 120 :: r => r
  | s => s

/-- `fromChecksum` -/
def fromChecksum (H : Bytes → Bytes) (s : Bytes) : Except Err Bytes :=
  match hexDecode (stripPrefix s) with
  | none => .error .hex
  | some decoded =>
    if decoded.length < checksumLen then .error .missing
    else
      let originalBytes := decoded.take (decoded.length - checksumLen)
      let checksum := decoded.drop (decoded.length - checksumLen)
      if checksum = H originalBytes then .ok originalBytes else .error .badsum

/-- `Address.UnmarshalText` / `StringToAddress` (repaired): the payload must be exactly
`AddressLen` bytes, then `copy(a[:], decoded)` is the identity. -/
def parse (H : Bytes → Bytes) (s : Bytes) : Except Err Bytes :=
  match fromChecksum H s with
  | .error e => .error e
  | .ok decoded => if decoded.length ≠ addressLen then .error .size else .ok decoded

/-- `encodeWithChecksum(a[:])` for an address (`len = AddressLen`): the two `copy` calls
produce `a ++ H a`; then `"0x" + hex.EncodeToString`. (`Address.String`, `MarshalText`) -/
def format (H : Bytes → Bytes) (a : Bytes) : Bytes :=
  48 :: 120 :: hexEncode (a ++ H a)

/-- ASCII lower-casing of `A`–`F` (what `hex.DecodeString` tolerates). -/
def lowerHex (c : Nat) : Nat := if 65 ≤ c ∧ c ≤ 70 then c + 32 else c

end HyperModel.Address
