import HyperModel.Model.Heap
/-!
# Model of `internal/eheap/eheap.go` (`ExpiryHeap[T]`)

Core Lean only; depends on `Model/Heap.lean` only. Reusable: instantiate `ExpItem` for the
item type (`id`, `expiry`), then use `EHeap.new/add/remove/setMin/peekMin/popMin/has/len`.
The facts proved about it (for every reachable state) are in `Proofs/EHeap.lean`
(`EHeap.Inv`, `*_spec` lemmas) and `Props/C25.lean`; the abstract reading is "a finite set of
items, at most one per ID, ordered by expiry".
-/
namespace HyperModel.EHeap
open HyperModel.Heap

/-- `eheap.Item` : `GetID() ids.ID`, `GetExpiry() int64`. -/
class ExpItem (α : Type) where
  id : α → ID
  expiry : α → Int

/-- `ExpiryHeap[T]` : a single min-heap `minHeap *heap.Heap[T, int64]`. -/
structure EHeap (α : Type) where
  minHeap : Heap α

variable {α : Type} [Inhabited α] [ExpItem α]

/-- `eheap.New(items)` -/
def EHeap.new : EHeap α := ⟨Heap.new true⟩

/-- `ExpiryHeap.Add`: pushes `{ID: item.GetID(), Val: item.GetExpiry(), Item: item, Index: Len()}`.
(`Heap.Push` ignores the entry when the ID is already present.) -/
def EHeap.add (eh : EHeap α) (item : α) : EHeap α :=
  let poolLen := eh.minHeap.len
  ⟨eh.minHeap.push { id := ExpItem.id item, val := ExpItem.expiry item, item := item, index := poolLen }⟩

/-- `ExpiryHeap.Remove(id)`: `Get(id)`, then `minHeap.Remove(entry.Index)`. -/
def EHeap.remove (eh : EHeap α) (id : ID) : EHeap α × Option α :=
  match eh.minHeap.get id with
  | none => (eh, none)
  | some e => (⟨(eh.minHeap.remove e.index).1⟩, some e.item)

/-- `ExpiryHeap.PeekMin` -/
def EHeap.peekMin (eh : EHeap α) : Option α :=
  match eh.minHeap.first with
  | none => none
  | some e => some e.item

/-- `ExpiryHeap.PopMin`: `first.Item`, then `eh.Remove(item.GetID())`. -/
def EHeap.popMin (eh : EHeap α) : EHeap α × Option α :=
  match eh.minHeap.first with
  | none => (eh, none)
  | some e => ((eh.remove (ExpItem.id e.item)).1, some e.item)

/-- loop of `ExpiryHeap.SetMin(val)`; `acc` is `removed` so far. The Go loop has no bound; it
terminates because every `PopMin` shrinks the heap (proved: `Proofs/EHeap.lean`), so
`fuel = Len()` iterations always suffice and the fuel is never what stops the loop. -/
def EHeap.setMinLoop (val : Int) : Nat → EHeap α → List α → EHeap α × List α
  | 0, eh, acc => (eh, acc)
  | fuel + 1, eh, acc =>
    match eh.peekMin with
    | none => (eh, acc)
    | some minItem =>
      if ExpItem.expiry minItem < val then
        EHeap.setMinLoop val fuel (eh.popMin).1 (acc ++ [minItem])
      else (eh, acc)

/-- `ExpiryHeap.SetMin(val)`: removes and returns all items with expiry `< val`, in pop order. -/
def EHeap.setMin (eh : EHeap α) (val : Int) : EHeap α × List α :=
  EHeap.setMinLoop val eh.minHeap.len eh []

/-- `ExpiryHeap.Has` -/
def EHeap.has (eh : EHeap α) (id : ID) : Bool := eh.minHeap.has id

/-- `ExpiryHeap.Len` -/
def EHeap.len (eh : EHeap α) : Nat := eh.minHeap.len

/-- The held items in array order (observable through `minHeap.Items()`). -/
def EHeap.items (eh : EHeap α) : List α := eh.minHeap.items.toList.map (·.item)

end HyperModel.EHeap
