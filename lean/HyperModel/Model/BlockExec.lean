/-
Model of block execution (property C01; reused by C02).

Go code transcribed (at the granularity "one step per view operation / lock-protected region"):
* `chain/processor.go: executeTxs`        — `Step.enqueueOk/enqueueFail` (main loop: Consume, then
                                             `e.Run`), the task closure (`start … commit`), `seqAt`
* `internal/executor/executor.go`         — only its *guarantee*: a task starts after every earlier
                                             conflicting task has finished (`depsDone`; proved for the
                                             executor by C08), `runTask`'s error flag (`err`, `skip`)
* `chain/transaction.go: PreExecute/Execute` — `Instr.pre`, `Instr.deduct`, `Instr.mark`, actions
* `state/tstate/tstate_view.go`           — `vget`, `vInsert`, `vRemove`, `merge` (= `Commit`),
                                             at the level of "map with one checkpoint" (C04 proves
                                             that the op-log implementation refines this), with the
                                             scope checks of `checkScope` transcribed exactly (C05)
* `internal/fees/manager.go: Consume/Fee` — `failDim`, `consume`, `feeOf`
* `state/balance/handler.go`              — `CanDeduct` / `Deduct` inside `pre` / `deduct`

Core Lean only (linked into the driver executables).
-/
namespace HyperModel.BlockExec

abbrev Key := Nat
abbrev Val := Nat
/-- `state.Permissions` (a byte) -/
abbrev Perm := Nat

/-- `Permissions.Has(require)`: `require &^ p == 0` -/
def hasPerm (p require : Perm) : Bool := (p &&& require) == require

def pRead : Perm := 1
def pAllocate : Perm := 3
def pWrite : Perm := 5
def pAll : Perm := 7

/-- `TState.changedKeys` / `TStateView.pendingChangedKeys`:
`none` = not in the map, `some none` = `maybe.Nothing` (deleted), `some (some v)` = value. -/
abbrev Diff := Key → Option (Option Val)
/-- the parent view (merkledb) as a finite map -/
abbrev Store := Key → Option Val

def emptyDiff : Diff := fun _ => none

def upd (d : Diff) (k : Key) (x : Option (Option Val)) : Diff :=
  fun j => if j = k then x else d j

/-- `TStateView.Commit`: `for k, v := range pendingChangedKeys { ts.changedKeys[k] = v }` -/
def merge (d p : Diff) : Diff := fun k =>
  match p k with
  | some x => some x
  | none => d k

/-- what a view sees below its own pending changes: `ts.getChangedValue` else `storage.GetValue`
(the storage of a tx view holds the parent's values of the declared keys — fetcher, C24). -/
def baseGet (parent : Store) (d : Diff) (k : Key) : Option Val :=
  match d k with
  | some x => x
  | none => parent k

/-- post-state of a key: parent view + diff (what `createView` builds) -/
def applyDiff (parent : Store) (d : Diff) : Store := baseGet parent d

/-! ## fee manager -/

abbrev Dims := List Nat

def u64max : Nat := 18446744073709551615

/-- first loop of `Manager.Consume`: index of the first dimension that overflows or exceeds the limit -/
def failDim : Dims → Dims → Dims → Option Nat
  | c :: cs, d :: ds, l :: ls =>
    if c + d > u64max ∨ c + d > l then some 0 else (failDim cs ds ls).map (· + 1)
  | _, _, _ => none

def addDims (c d : Dims) : Dims := List.zipWith (· + ·) c d

/-- `Manager.Consume(d, l)` on `lastConsumed = c`: `none` = `(false, dim)` -/
def consume (c d l : Dims) : Option Dims :=
  match failDim c d l with
  | none => some (addDims c d)
  | some _ => none

/-- `Manager.Fee`: `math.Mul` then `math.Add`, both overflow-checked -/
def feeLoop (acc : Nat) : Dims → Dims → Option Nat
  | p :: ps, u :: us =>
    if p * u > u64max then none
    else if p * u + acc > u64max then none
    else feeLoop (p * u + acc) ps us
  | _, _ => some acc

def feeOf (prices units : Dims) : Option Nat := feeLoop 0 prices units

/-! ## transactions -/

/-- scripted action ops (harness action type `scriptAction`) -/
inductive Op where
  | get (k : Key)
  | put (k : Key) (v : Val)
  | del (k : Key)
  | fail
  /-- Insert of a value with more chunks than the key's size suffix allows (`keys.VerifyValue`) -/
  | putBig (k : Key)
  deriving Repr, DecidableEq

structure Tx where
  id : Nat
  /-- `tx.StateKeys(bh)`: union of the actions' keys and the sponsor's balance key -/
  keys : List (Key × Perm)
  /-- `bh.BalanceKey(tx.Auth.Sponsor())` -/
  sponsor : Key
  /-- `tx.Units(bh, r)` -/
  units : Dims
  /-- the stateless part of `PreExecute` (Base.Execute, action count, ValidRange) passes -/
  preOk : Bool
  actions : List (List Op)
  /-- `tx.Size()` (builder only) -/
  size : Nat := 0
  /-- `tx.StateKeys(bh)` succeeds (every declared key is well-formed, `keys.Valid`). Used by the
  builder model only (drop path, builder.go:179-186); C01's model assumes it. -/
  keysOk : Bool := true

/-- `Keys.Has` looks up `k[string(key)]`; a missing key yields permission 0 -/
def Tx.perm (t : Tx) (k : Key) : Perm :=
  match t.keys.lookup k with
  | some p => p
  | none => 0

def Tx.declared (t : Tx) (k : Key) : Bool := (t.keys.lookup k).isSome

/-- executor: two tasks that both name key `k` are ordered unless both hold exactly `state.Read` -/
def conflict (a b : Tx) : Prop :=
  ∃ k, a.declared k = true ∧ b.declared k = true ∧ ¬ (a.perm k = pRead ∧ b.perm k = pRead)

/-! ## the view (map with one checkpoint + scope checks) -/

/-- `TStateView.getValue` -/
def vget (base : Key → Option Val) (pend : Diff) (k : Key) : Option Val :=
  match pend k with
  | some x => x
  | none => base k

/-- `TStateView.Insert` (`none` = `ErrInvalidKeyOrPermission`); `pf` is the scope -/
def vInsert (pf : Key → Perm) (base : Key → Option Val) (pend : Diff) (k : Key) (v : Val) :
    Option Diff :=
  if !hasPerm (pf k) pWrite then none
  else
    let unchanged := base k == some v
    match vget base pend k with
    | some past =>
      if past == v then some pend
      else
        let p := upd pend k (some (some v))
        some (if unchanged then upd p k none else p)
    | none =>
      if !hasPerm (pf k) pAllocate then none
      else
        let p := upd pend k (some (some v))
        some (if unchanged then upd p k none else p)

/-- `TStateView.Remove` -/
def vRemove (pf : Key → Perm) (base : Key → Option Val) (pend : Diff) (k : Key) : Option Diff :=
  if !hasPerm (pf k) pWrite then none
  else
    match vget base pend k with
    | none => some pend
    | some _ =>
      let unchanged := (base k).isNone
      let p := upd pend k (some none)
      some (if unchanged then upd p k none else p)

/-! ## one transaction, small-step -/

inductive AbortKind where
  | pre   -- PreExecute returned an error (builder: drop; processor: block invalid)
  | exec  -- Execute returned an error
  deriving Repr, DecidableEq

inductive FailKind where
  | scripted
  | perm
  /-- `ErrInvalidKeyValue` -/
  | invalid
  deriving Repr, DecidableEq

/-- per-task local state: the tx view and the result being assembled -/
structure Local where
  pend : Diff
  /-- pending changes at `actionStart` (target of `Rollback`) -/
  saved : Diff
  fee : Nat
  outs : List (List (Option Val))
  cur : List (Option Val)
  failed : Option FailKind

def Local.init : Local :=
  { pend := emptyDiff, saved := emptyDiff, fee := 0, outs := [], cur := [], failed := none }

inductive Instr where
  | pre
  | deduct
  | mark
  | op (o : Op)
  | endAct
  deriving Repr, DecidableEq

def compile (t : Tx) : List Instr :=
  [Instr.pre, Instr.deduct, Instr.mark] ++
    t.actions.flatMap (fun a => a.map Instr.op ++ [Instr.endAct])

inductive StepRes where
  | cont (ls : Local)
  | abort (a : AbortKind)
  /-- an action returned an error: `ts.Rollback(actionStart)`, `Result{Success:false}` -/
  | failTx (ls : Local)

def failWith (ls : Local) (f : FailKind) : StepRes :=
  .failTx { ls with pend := ls.saved, cur := [], failed := some f }

/-- one view-level operation of the task closure, against the shared diff as it is *now* -/
def stepInstr (t : Tx) (prices : Dims) (base : Key → Option Val) (ls : Local) : Instr → StepRes
  | .pre =>
    if !t.preOk then .abort .pre
    else
      match feeOf prices t.units with
      | none => .abort .pre
      | some fee =>
        -- bh.CanDeduct → GetBalance → tsv.GetValue(balanceKey)
        if !hasPerm (t.perm t.sponsor) pRead then .abort .pre
        else
          let bal := (vget base ls.pend t.sponsor).getD 0
          if bal < fee then .abort .pre else .cont { ls with fee := fee }
  | .deduct =>
    match feeOf prices t.units with
    | none => .abort .exec
    | some fee =>
      if !hasPerm (t.perm t.sponsor) pRead then .abort .exec
      else
        match vget base ls.pend t.sponsor with
        | none => .abort .exec
        | some bal =>
          if bal < fee then .abort .exec
          else
            match vInsert t.perm base ls.pend t.sponsor (bal - fee) with
            | none => .abort .exec
            | some p => .cont { ls with pend := p, fee := fee }
  | .mark => .cont { ls with saved := ls.pend }
  | .op (.get k) =>
    if !hasPerm (t.perm k) pRead then failWith ls .perm
    else .cont { ls with cur := ls.cur ++ [vget base ls.pend k] }
  | .op (.put k v) =>
    match vInsert t.perm base ls.pend k v with
    | none => failWith ls .perm
    | some p => .cont { ls with pend := p }
  | .op (.del k) =>
    match vRemove t.perm base ls.pend k with
    | none => failWith ls .perm
    | some p => .cont { ls with pend := p }
  | .op .fail => failWith ls .scripted
  | .op (.putBig k) =>
    -- `Insert`: checkScope(Write) first, then VerifyValue
    if !hasPerm (t.perm k) pWrite then failWith ls .perm else failWith ls .invalid
  | .endAct => .cont { ls with outs := ls.outs ++ [ls.cur], cur := [] }

inductive Outcome where
  | ok (ls : Local)
  | abort (a : AbortKind)

/-- run the remaining instructions against a *fixed* base (sequential execution) -/
def runFrom (t : Tx) (prices : Dims) (base : Key → Option Val) : Local → List Instr → Outcome
  | ls, [] => .ok ls
  | ls, i :: rest =>
    match stepInstr t prices base ls i with
    | .cont ls' => runFrom t prices base ls' rest
    | .abort a => .abort a
    | .failTx ls' => .ok ls'

def pendOf : Outcome → Diff
  | .ok ls => ls.pend
  | .abort _ => emptyDiff

/-- `chain.Result` (Error canonicalised to the failure class) -/
structure Result where
  id : Nat
  failed : Option FailKind
  outs : List (List (Option Val))
  units : Dims
  fee : Nat
  deriving Repr, DecidableEq

def mkResult (t : Tx) (ls : Local) : Result :=
  { id := t.id, failed := ls.failed, outs := ls.outs, units := t.units, fee := ls.fee }

/-! ## the block -/

structure Ctx where
  parent : Store
  /-- unit prices of the block's fee manager (`ComputeNext`, C13); never changed by `Consume` -/
  prices : Dims
  /-- `r.GetMaxBlockUnits()` -/
  maxUnits : Dims
  txs : List Tx

def zeros (l : Dims) : Dims := l.map (fun _ => 0)

/-- PreExecute + Execute of one tx against the block diff `d` -/
def runTx (c : Ctx) (t : Tx) (d : Diff) : Outcome :=
  runFrom t c.prices (baseGet c.parent d) Local.init (compile t)

/-- sequential execution of the first `n` transactions in block order: for each one
`Consume` (error if a limit is exceeded), PreExecute/Execute (error aborts the block), `Commit`.
Result: block diff, results, units consumed; `none` = `executeTxs` returns an error. -/
def seqAt (c : Ctx) : Nat → Option (Diff × List Result × Dims)
  | 0 => some (emptyDiff, [], zeros c.maxUnits)
  | n + 1 =>
    match seqAt c n with
    | none => none
    | some (d, rs, u) =>
      match c.txs[n]? with
      | none => none
      | some t =>
        match consume u t.units c.maxUnits with
        | none => none
        | some u' =>
          match runTx c t d with
          | .abort _ => none
          | .ok ls => some (merge d ls.pend, rs ++ [mkResult t ls], u')

def execSeq (c : Ctx) : Option (Diff × List Result × Dims) := seqAt c c.txs.length

/-! ## the parallel processor as a step relation -/

inductive TxSt where
  | idle
  | running (ls : Local) (rem : List Instr)
  | committed
  | done

def TxSt.isCommitted : TxSt → Bool
  | .committed => true
  | .done => true
  | _ => false

structure PState where
  /-- position of the main loop of `executeTxs` (number of tasks handed to `e.Run`) -/
  enq : Nat
  /-- the main loop returned early (`f.Stop(); e.Stop()`) -/
  stopped : Bool
  /-- `feeManager.lastConsumed` -/
  consumed : Dims
  /-- `e.err != nil` -/
  err : Bool
  st : Nat → TxSt
  /-- `ts.changedKeys` -/
  diff : Diff
  results : Nat → Option Result

def PState.init (c : Ctx) : PState :=
  { enq := 0, stopped := false, consumed := zeros c.maxUnits, err := false,
    st := fun _ => .idle, diff := emptyDiff, results := fun _ => none }

def setAt {α} (f : Nat → α) (i : Nat) (x : α) : Nat → α := fun j => if j = i then x else f j

def Conflict (c : Ctx) (i j : Nat) : Prop :=
  ∃ ti tj, c.txs[i]? = some ti ∧ c.txs[j]? = some tj ∧ conflict ti tj

/-- the executor's guarantee (C08): every earlier conflicting task has finished -/
def depsDone (c : Ctx) (s : PState) (i : Nat) : Prop :=
  ∀ j, j < i → Conflict c j i → s.st j = .done

inductive Step (c : Ctx) : PState → PState → Prop
  /-- main loop: `feeManager.Consume(units, max)` ok, `f.Fetch`, `e.Run` -/
  | enqueueOk {s t u'} : s.stopped = false → c.txs[s.enq]? = some t →
      consume s.consumed t.units c.maxUnits = some u' →
      Step c s { s with enq := s.enq + 1, consumed := u' }
  /-- main loop: Consume fails → `f.Stop(); e.Stop(); return err` -/
  | enqueueFail {s t} : s.stopped = false → c.txs[s.enq]? = some t →
      consume s.consumed t.units c.maxUnits = none →
      Step c s { s with stopped := true, err := true }
  /-- a worker takes task `i` (all dependencies cleared), `e.err == nil` -/
  | start {s i t} : i < s.enq → s.st i = .idle → c.txs[i]? = some t → depsDone c s i →
      s.err = false →
      Step c s { s with st := setAt s.st i (.running Local.init (compile t)) }
  /-- a worker takes task `i` but `e.err != nil`: the closure is skipped -/
  | skip {s i} : i < s.enq → s.st i = .idle → depsDone c s i → s.err = true →
      Step c s { s with st := setAt s.st i .done }
  | stepCont {s i t ls ins rem ls'} : s.st i = .running ls (ins :: rem) → c.txs[i]? = some t →
      stepInstr t c.prices (baseGet c.parent s.diff) ls ins = .cont ls' →
      Step c s { s with st := setAt s.st i (.running ls' rem) }
  | stepFail {s i t ls ins rem ls'} : s.st i = .running ls (ins :: rem) → c.txs[i]? = some t →
      stepInstr t c.prices (baseGet c.parent s.diff) ls ins = .failTx ls' →
      Step c s { s with st := setAt s.st i (.running ls' []) }
  /-- the closure returns an error: `e.err.CompareAndSwap(nil, err)`; the task counts as executed -/
  | stepAbort {s i t ls ins rem a} : s.st i = .running ls (ins :: rem) → c.txs[i]? = some t →
      stepInstr t c.prices (baseGet c.parent s.diff) ls ins = .abort a →
      Step c s { s with err := true, st := setAt s.st i .done }
  /-- `results[i] = result; tsv.Commit()` (under the TState lock) -/
  | commit {s i t ls} : s.st i = .running ls [] → c.txs[i]? = some t →
      Step c s { s with diff := merge s.diff ls.pend,
                        results := setAt s.results i (some (mkResult t ls)),
                        st := setAt s.st i .committed }
  /-- `runTask`'s deferred function: unblock dependants, `executed = true` -/
  | finish {s i} : s.st i = .committed →
      Step c s { s with st := setAt s.st i .done }

inductive Reachable (c : Ctx) : PState → Prop
  | init : Reachable c (PState.init c)
  | step {s s'} : Reachable c s → Step c s s' → Reachable c s'

/-- nothing left to do: `f.Wait()` and `e.Wait()` return -/
def Terminal (c : Ctx) (s : PState) : Prop := ¬ ∃ s', Step c s s'

/-- what `executeTxs` returns from a final state -/
def output (c : Ctx) (s : PState) : Option (Diff × List (Option Result) × Dims) :=
  if s.err then none
  else some (s.diff, (List.range c.txs.length).map s.results, s.consumed)

end HyperModel.BlockExec
