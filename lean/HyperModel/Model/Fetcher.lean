/-
Model of `internal/fetcher/fetcher.go` (property C24), with the repair of
`/verif/fixes/C24-fetcher-dup-txid-and-empty-key.patch` (blocked lists hold tx *records*, not
tx ids) and of `state.Keys.WithoutPermissions` (`state/keys.go`). Core Lean only.

Atomic steps: the lock-protected part of `Fetch` (`fetch`), each of its channel sends
`select { f.tasks <- t | <-f.stop }` on the bounded task channel (`send`, or `abort` when `stop`
is closed: `Fetch` returns `f.err` with its record already registered), a worker
receiving a task and calling `im.GetValue` (`take`), the return of `GetValue` followed by
`set` / `handleErr` (`complete`), a worker leaving its loop (`exit`), `Stop`, `Wait`
(`close(tasks)`; returns when all workers left), `Get`.
`handleErr` (store `f.err`, `close(f.stop)`) is one step; `f.stop` is closed iff `err ≠ none`.

`key.blocked` of the Go code is `blocked.filter (·.1 = k)`: one global list of
(key, record index) pairs in append order replaces the per-key slices.
The chunk count stored with a cached value is a function of the value and is not modelled.
-/
namespace HyperModel.Fetcher

abbrev Key := String
abbrev Val := String
abbrev TxId := String

/-- outcome of `im.GetValue(key)` on the parent view -/
inductive Rd where
  | val (v : Val)   -- value present, `keys.NumChunks` ok
  | absent          -- `database.ErrNotFound`
  | fail            -- any other error
  | bad             -- value present but `keys.NumChunks` fails (`ErrInvalidKeyValue`)
  deriving DecidableEq, Repr

inductive FErr where
  | read | badValue | stopped
  deriving DecidableEq, Repr

/-- `type tx struct { blockers int; waiter chan struct{}; keys []string }`, one per `Fetch` call -/
structure Rec where
  blockers : Int
  waiter : Bool          -- waiter != nil
  closed : Bool          -- waiter closed
  keys : List Key
  deriving Repr

structure St where
  /-- `f.keys`: `none` = no entry; `some none` = entry with `cache == nil`;
  `some (some d)` = cached (`d = none`: does not exist in the parent) -/
  cache : Key → Option (Option (Option Val))
  blocked : List (Key × Nat)
  /-- the tx records allocated so far (`&tx{}` of every `Fetch` call), by allocation index -/
  recs : Nat → Option Rec
  nrecs : Nat
  /-- `f.txs` (record index of the latest `Fetch` with that id) -/
  txs : TxId → Option Nat
  err : Option FErr
  /-- `setErr` (sync.Once) already used -/
  once : Bool
  /-- tasks of the `Fetch` call in progress that are not yet sent (`Fetch` is called by one
  goroutine at a time, as `Processor.executeTxs` does; concurrent `Fetch` calls are not modelled) -/
  sending : List Key
  /-- capacity of the `tasks` channel (`make(chan *task, txs)`) -/
  cap : Nat
  /-- buffered `tasks` channel -/
  queue : List Key
  /-- tasks received by a worker whose `GetValue` has not returned yet -/
  inflight : List Key
  /-- history: keys passed to `im.GetValue`, in call order -/
  requested : List Key
  /-- workers still in their loop -/
  workers : Nat
  tasksClosed : Bool
  /-- a Go panic (close of closed/nil channel, nil map entry) happened -/
  panicked : Bool

def upd {α β} [DecidableEq α] (m : α → β) (k : α) (v : β) : α → β := fun j => if j = k then v else m j

/-- `fetcher.New(im, txs, concurrency)` -/
def init (concurrency : Nat) (cap : Nat := 1000000) : St :=
  { cache := fun _ => none, blocked := [], recs := fun _ => none, nrecs := 0, txs := fun _ => none,
    err := none, once := false, sending := [], cap := cap, queue := [], inflight := [], requested := [], workers := concurrency,
    tasksClosed := false, panicked := false }

/-- record `r` learns key `k`; `inc`: the key is not cached yet (`blockers++`, a waiter will be made) -/
def bump (recs : Nat → Option Rec) (r : Nat) (k : Key) (inc : Bool) : Nat → Option Rec :=
  upd recs r ((recs r).map fun rc =>
    { rc with keys := rc.keys ++ [k], blockers := if inc then rc.blockers + 1 else rc.blockers,
              waiter := rc.waiter || inc })

/-- one iteration of the `for _, k := range keys` loop of `Fetch` for the new record `r`.
(The Go code keeps `blockers` in a local and fills the record after the loop, all under the
lock, so the result is the same; the new tasks are collected in `sending` and sent afterwards.) -/
def fetchKey (r : Nat) (s : St) (k : Key) : St :=
  match s.cache k with
  | none =>          -- `!ok`: new entry, new task
    { s with cache := upd s.cache k (some none), blocked := s.blocked ++ [(k, r)],
             sending := s.sending ++ [k], recs := bump s.recs r k true }
  | some (some _) => -- `d.cache != nil`
    { s with recs := bump s.recs r k false }
  | some none =>     -- being fetched: register
    { s with blocked := s.blocked ++ [(k, r)], recs := bump s.recs r k true }

/-- allocate the record of a `Fetch` call -/
def newRec (s : St) : St :=
  { s with recs := upd s.recs s.nrecs (some { blockers := 0, waiter := false, closed := false, keys := [] }),
           nrecs := s.nrecs + 1 }

/-- `Fetch(ctx, txID, keys)`, the part under `f.l`; the Boolean is `false` when `f.err != nil`
(`Fetch` returns the error at once). Otherwise the collected tasks are sent one by one. -/
def fetch (s : St) (tx : TxId) (ks : List Key) : St × Bool :=
  if s.err.isSome then (s, false) else
  let s1 := ks.foldl (fetchKey s.nrecs) (newRec s)
  ({ s1 with txs := upd s1.txs tx (some s.nrecs) }, true)

/-- `case f.tasks <- t`: the next task of the `Fetch` in progress enters the channel (room needed) -/
def send (s : St) : Option St :=
  match s.sending with
  | [] => none
  | k :: rest =>
    if s.queue.length < s.cap then some { s with sending := rest, queue := s.queue ++ [k] } else none

/-- `case <-f.stop: return f.err`: the `Fetch` in progress gives up; its remaining tasks are never
sent (their keys keep an entry without cache), its record stays registered -/
def abort (s : St) : Option St :=
  if s.sending ≠ [] ∧ s.err.isSome then some { s with sending := [] } else none

/-- `tx.blockers--; if tx.blockers == 0 { close(tx.waiter) }`; the Boolean reports a panic -/
def decr (recs : Nat → Option Rec) (r : Nat) : (Nat → Option Rec) × Bool :=
  match recs r with
  | none => (recs, true)
  | some rc =>
    let b := rc.blockers - 1
    if b = 0 then (upd recs r (some { rc with blockers := b, closed := true }), rc.closed || !rc.waiter)
    else (upd recs r (some { rc with blockers := b }), false)

/-- the `for _, tx := range key.blocked` loop of `set` -/
def decrAll : List (Key × Nat) → (Nat → Option Rec) × Bool → (Nat → Option Rec) × Bool
  | [], a => a
  | e :: rest, (recs, p) => decrAll rest ((decr recs e.2).1, p || (decr recs e.2).2)

/-- `set(k, v, exists, chunks)` -/
def setKey (s : St) (k : Key) (d : Option Val) : St :=
  let out := decrAll (s.blocked.filter (fun e => e.1 == k)) (s.recs, false)
  { s with cache := upd s.cache k (some (some d)), recs := out.1,
           blocked := s.blocked.filter (fun e => !(e.1 == k)),
           panicked := s.panicked || out.2 || (s.cache k).isNone }

/-- `handleErr(err)` -/
def handleErr (s : St) (e : FErr) : St :=
  if s.once then s else { s with once := true, err := some e }

/-- a worker receives the next task and calls `im.GetValue` -/
def take (s : St) : Option St :=
  match s.queue with
  | [] => none
  | k :: q =>
    if s.inflight.length < s.workers then
      some { s with queue := q, inflight := s.inflight ++ [k], requested := s.requested ++ [k] }
    else none

/-- `GetValue(k)` returns for an in-flight task; the worker calls `set` and loops, or
`handleErr` and returns -/
def complete (parent : Key → Rd) (s : St) (k : Key) : Option St :=
  if k ∈ s.inflight then
    let s1 := { s with inflight := s.inflight.erase k }
    match parent k with
    | .val v => some (setKey s1 k (some v))
    | .absent => some (setKey s1 k none)
    | .fail => some { handleErr s1 .read with workers := s1.workers - 1 }
    | .bad => some { handleErr s1 .badValue with workers := s1.workers - 1 }
  else none

/-- an idle worker leaves: `tasks` closed and drained, or `stop` closed -/
def exit (s : St) : Option St :=
  if s.inflight.length < s.workers ∧ (s.err.isSome ∨ (s.tasksClosed = true ∧ s.queue = [])) then
    some { s with workers := s.workers - 1 }
  else none

/-- `Stop()` -/
def stop (s : St) : St := handleErr s .stopped

/-- `Wait()`: first part, `close(f.tasks)` -/
def waitCall (s : St) : St := { s with tasksClosed := true }

/-- `Wait()`: `wg.Wait()` returned; `setErr.Do(func(){})`; result is `f.err` -/
def waitRet (s : St) : Option (St × Option FErr) :=
  if s.workers = 0 ∧ s.tasksClosed = true then some ({ s with once := true }, s.err) else none

inductive GetRes where
  | missing               -- `ErrMissingTx`
  | err (e : FErr)        -- `f.err`
  | vals (r : Nat)        -- the storage map built from record `r` (see `storage`)
  deriving DecidableEq, Repr

/-- content of the map returned by `Get` for record keys `ks`: `storage[k] = v.v` iff cached and exists -/
def storage (s : St) (ks : List Key) (k : Key) : Option Val :=
  if k ∈ ks then
    match s.cache k with
    | some (some (some v)) => some v
    | _ => none
  else none

/-- All possible results of `Get(txID)` in state `s`; `[]` = the call blocks.
(`select` between a closed waiter and a closed `stop` may take either branch.) -/
def getOutcomes (s : St) (tx : TxId) : List GetRes :=
  match s.txs tx with
  | none => [.missing]
  | some r =>
    match s.recs r with
    | none => [.missing]
    | some rc =>
      if !rc.waiter then [.vals r]
      else (if rc.closed then [.vals r] else []) ++
           (match s.err with | some e => [.err e] | none => [])

/-- One atomic step of any goroutine. `Fetch` must not be called after `Wait` (documented
invariant of the Go API; it would send on a closed channel); `Wait` is called after the last
`Fetch` returned. -/
inductive Step (parent : Key → Rd) : St → St → Prop where
  | fetch (s tx ks) : s.tasksClosed = false → s.sending = [] → Step parent s (fetch s tx ks).1
  | send (s s') : send s = some s' → Step parent s s'
  | abort (s s') : abort s = some s' → Step parent s s'
  | take (s s') : take s = some s' → Step parent s s'
  | complete (s k s') : complete parent s k = some s' → Step parent s s'
  | exit (s s') : exit s = some s' → Step parent s s'
  | stop (s) : Step parent s (stop s)
  | waitCall (s) : s.sending = [] → Step parent s (waitCall s)
  | waitRet (s s' e) : waitRet s = some (s', e) → Step parent s s'

inductive Reach (parent : Key → Rd) (c : Nat) (cap : Nat := 1000000) : St → Prop where
  | init : Reach parent c cap (init c cap)
  | step (s s') : Reach parent c cap s → Step parent s s' → Reach parent c cap s'

/-- `Keys.WithoutPermissions()` (repaired): the keys of the map, each once. Map iteration
order is unspecified in Go; the model fixes insertion order of first occurrence. -/
def withoutPermissions (ks : List (Key × Nat)) : List Key := (ks.map (·.1)).eraseDups

end HyperModel.Fetcher
