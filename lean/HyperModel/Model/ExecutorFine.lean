import HyperModel.Model.Executor
/-!
# Finer relation of the executor: `Run` interleaved with task completion (C08)

`Run(keys, f)` is split into its critical sections: the header (id, task record, counter set
to `maxDependencies`), one step per iteration of `for k, v := range keys` (the section under
`lt.l`, `Model.Executor.regKey`), and the final `dependencies.Add(-(maxDependencies - n))`
with the send to `executable`. Between those steps workers dequeue, task bodies end and
their completion sections run (still atomic: they run under the task's lock) — this is the
"reader finishing while a writer enqueues" hand-off. `maxDependencies` is what keeps a
partially registered task from being sent early; the relation carries the code's stated
precondition ("no single task has more than maxDependencies") as the enabling condition of
`runKey`.
-/
namespace HyperModel.Executor

/-- program counter of the goroutine that calls `Run` -/
structure Reg where
  t : Nat
  pending : List KeyReq
  done : List KeyReq
  /-- local set `dependencies` -/
  ds : List Nat

structure FState where
  s : State
  reg : Option Reg
  maxDeps : Nat

def fInit (w maxDeps : Nat) : FState := { s := init w, reg := none, maxDeps }

/-- header of `Run`: `t.dependencies.Add(e.maxDependencies)` -/
def beginRun (s : State) (ks : List KeyReq) (maxDeps : Nat) : State :=
  { s with
    n := s.n + 1
    keys := fun x => if x = s.n then ks else s.keys x
    status := fun x => if x = s.n then .waiting else s.status x
    reading := fun x => if x = s.n then [] else s.reading x
    deps := fun x => if x = s.n then (maxDeps : Int) else s.deps x }

/-- end of `Run`: `if t.dependencies.Add(-difference) > 0 { return }; e.executable <- t` -/
def endRun (s : State) (t : Nat) (ds : List Nat) (maxDeps : Nat) : State :=
  let d : Int := s.deps t - ((maxDeps : Int) - (ds.length : Int))
  if d > 0 then { s with deps := fun x => if x = t then d else s.deps x }
  else { s with
          deps := fun x => if x = t then d else s.deps x
          status := fun x => if x = t then .queued else s.status x
          queue := s.queue ++ [t] }

inductive FStep where
  | runBegin (keys : List KeyReq)
  | runKey
  | runEnd
  | start (j : Nat)
  | skip (j : Nat) (order : List Nat)
  | finish (j : Nat) (fail : Bool) (order : List Nat)
  | stop
  | wait
deriving DecidableEq, Repr

def isEnabledF (fs : FState) : FStep → Bool
  | .runBegin ks => fs.reg.isNone && fs.s.waited.isNone && keysNodup ks
  | .runKey =>
    match fs.reg with
    | some r =>
      match r.pending with
      | kr :: _ => decide ((regKey r.t (fs.s, r.ds) kr).2.length < fs.maxDeps)
      | [] => false
    | none => false
  | .runEnd =>
    match fs.reg with
    | some r => r.pending.isEmpty
    | none => false
  | .start j => isEnabled fs.s (.start j)
  | .skip j o => isEnabled fs.s (.skip j o)
  | .finish j f o => isEnabled fs.s (.finish j f o)
  | .stop => isEnabled fs.s .stop
  | .wait => fs.reg.isNone && isEnabled fs.s .wait

def applyF (fs : FState) : FStep → FState
  | .runBegin ks =>
    { fs with s := beginRun fs.s ks fs.maxDeps,
              reg := some { t := fs.s.n, pending := ks, done := [], ds := [] } }
  | .runKey =>
    match fs.reg with
    | some r =>
      match r.pending with
      | kr :: rest =>
        let p := regKey r.t (fs.s, r.ds) kr
        { fs with s := p.1, reg := some { r with pending := rest, done := r.done ++ [kr], ds := p.2 } }
      | [] => fs
    | none => fs
  | .runEnd =>
    match fs.reg with
    | some r => { fs with s := endRun fs.s r.t r.ds fs.maxDeps, reg := none }
    | none => fs
  | .start j => { fs with s := apply fs.s (.start j) }
  | .skip j o => { fs with s := apply fs.s (.skip j o) }
  | .finish j f o => { fs with s := apply fs.s (.finish j f o) }
  | .stop => { fs with s := apply fs.s .stop }
  | .wait => { fs with s := apply fs.s .wait }

/-- canonical enabled steps of the finer relation (client steps `runBegin`/`stop` excluded) -/
def enabledF (fs : FState) : List FStep :=
  (if isEnabledF fs .runKey then [FStep.runKey] else []) ++
  (if isEnabledF fs .runEnd then [FStep.runEnd] else []) ++
  (enabled fs.s).filterMap (fun st =>
    match st with
    | .start j => some (FStep.start j)
    | .skip j o => some (FStep.skip j o)
    | .finish j f o => some (FStep.finish j f o)
    | .wait => if fs.reg.isNone then some FStep.wait else none
    | _ => none)

inductive ReachableF (w maxDeps : Nat) : FState → Prop where
  | init : ReachableF w maxDeps (fInit w maxDeps)
  | step {fs : FState} (st : FStep) : ReachableF w maxDeps fs → isEnabledF fs st = true →
      ReachableF w maxDeps (applyF fs st)

end HyperModel.Executor
