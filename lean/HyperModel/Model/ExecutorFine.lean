import HyperModel.Model.Executor
/-!
# Finer relation of the executor: `Run` interleaved with task completion (C08)

One step per critical section / atomic operation of `executor.go`:

* `Run(keys, f)`: the header (id, task record, counter set to `maxDependencies`), one step per
  iteration of `for k, v := range keys` (the region under `lt.l`, with the nested `rt.l`
  regions for the readers of `lt`; `Model.Executor.regKey`), and the final
  `dependencies.Add(-(maxDependencies - n))` with the send to `executable`.
* `work`/`runTask` for task `t`: `dequeue` (`<-e.executable`, :62), `check` (`e.err.Load()`,
  :120; the ghost `start`/`skip` event is placed here), `finish` (the body has returned; the
  CAS on `e.err` if it failed, :125-126), one `dereg t o` per entry of `t.reading` (the region
  under `o.l` that deletes `t` from `o.readers`, :96-100, any order), and `notify` (the region
  under `t.l`, :104-113: decrement and send the blocked tasks, `blocked = nil`,
  `executed = true`).
* `Stop` (CAS), `Wait`.

Merged, and why: `outstanding.Done()` (:114) is merged into `notify` — it is the same
goroutine's next action and its only effect is to enable `Wait`'s return. `t.reading = nil`
(:102) is private to the goroutine. The sends inside `notify` happen under `t.l`; they cannot
block when the channel capacity is ≥ the number of tasks (precondition of `New`), which the
relation assumes (unbounded queue). The nested `rt.l` regions inside a `runKey` step are not
split (they are taken while `lt.l` is held; `rt` can only pass its own `dereg rt lt` after
`lt.l` is released, so `rt`'s `notify` cannot run in between — the argument of the code
comment, which here is an assumption of the granularity, not a theorem).

`maxDependencies` is what keeps a partially registered task from being sent early; the
relation carries the code's stated precondition ("no single task has more than
maxDependencies") as the enabling condition of `runKey`.
-/
namespace HyperModel.Executor

/-- program counter of the goroutine that calls `Run` -/
structure Reg where
  t : Nat
  pending : List KeyReq
  done : List KeyReq
  /-- local set `dependencies` -/
  ds : List Nat

structure FState where
  s : State
  reg : Option Reg
  maxDeps : Nat

def fInit (w maxDeps : Nat) : FState := { s := init w, reg := none, maxDeps }

/-- header of `Run`: `t.dependencies.Add(e.maxDependencies)` -/
def beginRun (s : State) (ks : List KeyReq) (maxDeps : Nat) : State :=
  { s with
    n := s.n + 1
    keys := fun x => if x = s.n then ks else s.keys x
    status := fun x => if x = s.n then .waiting else s.status x
    reading := fun x => if x = s.n then [] else s.reading x
    deps := fun x => if x = s.n then (maxDeps : Int) else s.deps x }

/-- end of `Run`: `if t.dependencies.Add(-difference) > 0 { return }; e.executable <- t` -/
def endRun (s : State) (t : Nat) (ds : List Nat) (maxDeps : Nat) : State :=
  let d : Int := s.deps t - ((maxDeps : Int) - (ds.length : Int))
  if d > 0 then { s with deps := fun x => if x = t then d else s.deps x }
  else { s with
          deps := fun x => if x = t then d else s.deps x
          status := fun x => if x = t then .queued else s.status x
          queue := s.queue ++ [t] }

inductive FStep where
  | runBegin (keys : List KeyReq)
  | runKey
  | runEnd
  | dequeue (j : Nat)
  | check (j : Nat)
  | finish (j : Nat) (fail : Bool)
  | dereg (j o : Nat)
  | notify (j : Nat) (order : List Nat)
  | stop
  | wait
deriving DecidableEq, Repr

/-- workers that hold a task (from `dequeue` to the end of `notify`) -/
def numBusy (s : State) : Nat :=
  ((List.range s.n).filter (fun j =>
    match s.status j with
    | .dequeued => true
    | .running => true
    | .ending _ => true
    | _ => false)).length

def isEnabledF (fs : FState) : FStep → Bool
  | .runBegin ks => fs.reg.isNone && fs.s.waited.isNone && keysNodup ks
  | .runKey =>
    match fs.reg with
    | some r =>
      match r.pending with
      | kr :: _ => decide ((regKey r.t (fs.s, r.ds) kr).2.length < fs.maxDeps)
      | [] => false
    | none => false
  | .runEnd =>
    match fs.reg with
    | some r => r.pending.isEmpty
    | none => false
  | .dequeue j => fs.s.waited.isNone && fs.s.queue.head? == some j && decide (numBusy fs.s < fs.s.workers)
  | .check j => decide (j < fs.s.n) && fs.s.status j == .dequeued
  | .finish j _ => decide (j < fs.s.n) && fs.s.status j == .running
  | .dereg j o =>
      decide (j < fs.s.n) && (match fs.s.status j with | .ending _ => true | _ => false) &&
        decide (o ∈ fs.s.reading j)
  | .notify j order =>
      decide (j < fs.s.n) && (match fs.s.status j with | .ending _ => true | _ => false) &&
        (fs.s.reading j).isEmpty && isArrangement order (ready fs.s j)
  | .stop => fs.s.waited.isNone
  | .wait => fs.reg.isNone && fs.s.waited.isNone && allExecuted fs.s

def applyF (fs : FState) : FStep → FState
  | .runBegin ks =>
    { fs with s := beginRun fs.s ks fs.maxDeps,
              reg := some { t := fs.s.n, pending := ks, done := [], ds := [] } }
  | .runKey =>
    match fs.reg with
    | some r =>
      match r.pending with
      | kr :: rest =>
        let p := regKey r.t (fs.s, r.ds) kr
        { fs with s := p.1, reg := some { r with pending := rest, done := r.done ++ [kr], ds := p.2 } }
      | [] => fs
    | none => fs
  | .runEnd =>
    match fs.reg with
    | some r => { fs with s := endRun fs.s r.t r.ds fs.maxDeps, reg := none }
    | none => fs
  | .dequeue j =>
    { fs with s := { fs.s with queue := fs.s.queue.tail,
                               status := fun x => if x = j then .dequeued else fs.s.status x } }
  | .check j =>
    if fs.s.err.isNone then
      { fs with s := { fs.s with status := fun x => if x = j then .running else fs.s.status x,
                                 log := .start j :: fs.s.log } }
    else
      { fs with s := { fs.s with status := fun x => if x = j then .ending false else fs.s.status x,
                                 log := .skip j :: fs.s.log } }
  | .finish j fail =>
    { fs with s := { fs.s with status := fun x => if x = j then .ending true else fs.s.status x,
                               err := if fail then cas fs.s.err (.task j) else fs.s.err,
                               log := .fin j fail :: fs.s.log } }
  | .dereg j o =>
    { fs with s := { fs.s with
        readers := fun o' r => if o' = o ∧ r = j then false else fs.s.readers o' r,
        reading := fun x => if x = j then (fs.s.reading j).filter (· != o) else fs.s.reading x } }
  | .notify j order =>
    match fs.s.status j with
    | .ending ran => { fs with s := complete fs.s j (if ran then .done else .skipped) order }
    | _ => fs
  | .stop => { fs with s := apply fs.s .stop }
  | .wait => { fs with s := apply fs.s .wait }

/-- canonical enabled steps of the finest relation (client steps `runBegin`/`stop` excluded;
`notify` with the sorted order, `finish` with both results) -/
def enabledF (fs : FState) : List FStep :=
  (if isEnabledF fs .runKey then [FStep.runKey] else []) ++
  (if isEnabledF fs .runEnd then [FStep.runEnd] else []) ++
  (match fs.s.queue.head? with
    | some j => if isEnabledF fs (.dequeue j) then [FStep.dequeue j] else []
    | none => []) ++
  (List.range fs.s.n).flatMap (fun j =>
    (if isEnabledF fs (.check j) then [FStep.check j] else []) ++
    (if isEnabledF fs (.finish j false) then [FStep.finish j false, FStep.finish j true] else []) ++
    ((fs.s.reading j).filter (fun o => isEnabledF fs (.dereg j o))).map (FStep.dereg j) ++
    (if isEnabledF fs (.notify j (ready fs.s j)) then [FStep.notify j (ready fs.s j)] else [])) ++
  (if isEnabledF fs .wait then [FStep.wait] else [])

inductive ReachableF (w maxDeps : Nat) : FState → Prop where
  | init : ReachableF w maxDeps (fInit w maxDeps)
  | step {fs : FState} (st : FStep) : ReachableF w maxDeps fs → isEnabledF fs st = true →
      ReachableF w maxDeps (applyF fs st)

end HyperModel.Executor
