import HyperModel.Generated.FactsC05
import HyperModel.Model.Keys
/-!
Model of `state/keys.go` (`Permissions`, `Keys.Add`, `Keys.Has`, `fullAccess`) and of the key
union loop of `chain/transaction.go: Transaction.StateKeys` (property C05). Core Lean only.
The permission constants are read from the running Go code (`Generated/FactsC05.lean`).
-/
namespace HyperModel.Perm
open HyperModel.Keys (Bytes)

/-- `type Permissions byte` -/
abbrev Perm := UInt8

def read : Perm := UInt8.ofNat HyperModel.Generated.C05.permRead
def allocate : Perm := UInt8.ofNat HyperModel.Generated.C05.permAllocate
def write : Perm := UInt8.ofNat HyperModel.Generated.C05.permWrite
def noPerm : Perm := UInt8.ofNat HyperModel.Generated.C05.permNone
def all : Perm := UInt8.ofNat HyperModel.Generated.C05.permAll

/-- `Permissions.Has`: `require &^ p == 0` -/
def has (p require : Perm) : Bool := (require &&& ~~~p) == 0

/-- `type Keys map[string]Permissions` as a total function; `none` = key not in the map. -/
abbrev KeySet := Bytes → Option Perm

def KeySet.empty : KeySet := fun _ => none

/-- `Keys.Add(key, permission)`: rejects malformed keys, otherwise ORs the permission into
the entry (a missing entry reads as 0, and is created). -/
def KeySet.add (m : KeySet) (key : Bytes) (p : Perm) : KeySet × Bool :=
  if !Keys.valid key then (m, false)
  else ((fun j => if j = key then some ((m key).getD 0 ||| p) else m j), true)

/-- `Keys.Has(key, permission)`: a missing key has permission byte 0. -/
def KeySet.has (m : KeySet) (key : Bytes) (p : Perm) : Bool := HyperModel.Perm.has ((m key).getD 0) p

/-- `fullAccess.Has` (`state.CompletePermissions`) -/
def fullAccess (_ : Bytes) (_ : Perm) : Bool := true

/-- `SimulatedKeys.Has(key, perm)`: records the access with `Keys.Add` — whose result it
ignores — and always answers true. -/
def simulatedHas (m : KeySet) (key : Bytes) (p : Perm) : KeySet × Bool := ((m.add key p).1, true)

/-- The inner loop of `Transaction.StateKeys`: `for k, v := range decl { if !stateKeys.Add(k, v)
{ return nil, ErrInvalidKeyValue } }`; `none` = the error return. -/
def addAll (m : KeySet) : List (Bytes × Perm) → Option KeySet
  | [] => some m
  | (k, p) :: rest =>
    match m.add k p with
    | (_, false) => none
    | (m', true) => addAll m' rest

/-- `Transaction.StateKeys`: the declarations of every action, then the sponsor's, all added
to one fresh `state.Keys` (the caller passes `actions ++ [sponsor]`). -/
def stateKeys (decls : List (List (Bytes × Perm))) : Option KeySet :=
  addAll KeySet.empty decls.flatten

end HyperModel.Perm
