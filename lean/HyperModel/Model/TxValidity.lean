/-!
# Model of the transaction validity checks (C10)

Transcribes, in Go's order of checks:
* `validitywindow.VerifyTimestamp(containerTimestamp, executionTimestamp, divisor, validityWindow)`
  (internal/validitywindow/validitywindow.go),
* `(*Base).Execute(r, timestamp)` (chain/base.go): chain id first, then `VerifyTimestamp` with
  `validityWindowTimestampDivisor = consts.MillisecondsPerSecond` (timestamps are in
  milliseconds; "whole second" = multiple of 1000 ms),
* the head of `(*Transaction).PreExecute` (chain/transaction.go): action count, activation
  range of every action in order, activation range of the auth (`-1`, in fact any negative
  bound, = unbounded),
* `PreExecutor.PreExecute` (chain/pre_executor.go): the same `tx.PreExecute` at `now`.

`int64` is modelled by `Int` with the two's-complement wrap of `executionTimestamp +
validityWindow` made explicit (`wrap64`). The fee / balance tail of `PreExecute` is outside C10.
Core Lean only.
-/
namespace HyperModel.TxValidity

/-- Two's-complement reduction of an integer into `[-2^63, 2^63)` (Go `int64` arithmetic). -/
def wrap64 (x : Int) : Int := (x + 2 ^ 63) % 2 ^ 64 - 2 ^ 63

inductive TsResult where
  | ok | misaligned | expired | future
deriving Repr, DecidableEq

/-- `VerifyTimestamp`. Go's `%` truncates, Lean's `Int.tmod` is the same operation; the test is
only whether the remainder is zero (`divisor ≠ 0`, otherwise Go panics — not modelled). -/
def verifyTimestamp (expiry ts divisor window : Int) : TsResult :=
  if expiry.tmod divisor ≠ 0 then .misaligned
  else if expiry < ts then .expired
  else if expiry > wrap64 (ts + window) then .future
  else .ok

/-- `validityWindowTimestampDivisor` (= `consts.MillisecondsPerSecond`; the harness checks the
running value). -/
def divisor : Int := 1000

inductive Err where
  | ok | chainId | misaligned | expired | future | tooManyActions
  | actionNotActivated | authNotActivated
deriving Repr, DecidableEq

def Err.str : Err → String
  | .ok => "ok" | .chainId => "chainid" | .misaligned => "misaligned" | .expired => "expired"
  | .future => "future" | .tooManyActions => "too-many-actions"
  | .actionNotActivated => "action-not-activated" | .authNotActivated => "auth-not-activated"

def TsResult.toErr : TsResult → Err
  | .ok => .ok | .misaligned => .misaligned | .expired => .expired | .future => .future

/-- `ValidRange` result of an action or auth: `(start, end)`, negative = no bound. -/
structure Range where
  start : Int
  stop : Int
deriving Repr, DecidableEq

/-- The part of `Rules` the checks read. `maxActions` is a `uint8` in Go. -/
structure Rules where
  chainId : Nat
  window : Int
  maxActions : Nat

structure Tx where
  expiry : Int
  chainId : Nat
  actions : List Range
  auth : Range

/-- `(*Base).Execute`. -/
def baseExecute (r : Rules) (tx : Tx) (ts : Int) : Err :=
  if tx.chainId ≠ r.chainId then .chainId
  else (verifyTimestamp tx.expiry ts divisor r.window).toErr

/-- `start >= 0 && timestamp < start` / `end >= 0 && timestamp > end`. -/
def notActivated (g : Range) (ts : Int) : Bool :=
  (decide (0 ≤ g.start) && decide (ts < g.start)) || (decide (0 ≤ g.stop) && decide (ts > g.stop))

/-- `(*Transaction).PreExecute` up to and including the auth range check. -/
def preExecute (r : Rules) (tx : Tx) (ts : Int) : Err :=
  match baseExecute r tx ts with
  | .ok =>
    if tx.actions.length > r.maxActions then .tooManyActions
    else if tx.actions.any (notActivated · ts) then .actionNotActivated
    else if notActivated tx.auth ts then .authNotActivated
    else .ok
  | e => e

/-- `PreExecutor.PreExecute`: `now := time.Now().UnixMilli()`, `r := GetRules(now)`, then
`tx.PreExecute(…, r, im, now)` (the repeat / state-key / auth-signature / fee checks around it
belong to C09, C05, C16, C07). -/
def admission (rulesAt : Int → Rules) (tx : Tx) (now : Int) : Err :=
  preExecute (rulesAt now) tx now

end HyperModel.TxValidity
