import HyperModel.Model.Heap
/-!
# Model of `internal/emap/emap.go` (`EMap[T]`)

Core Lean only. `EMap` keeps `seen` (set of IDs), `times : map[int64]*bucket` and a min-heap
`bh` of buckets keyed by timestamp. A `*bucket` is shared between `times[t]` and the heap
entry's `Item`; the two pointers are created together in `add` and dropped together in
`SetMin` (`delete(e.times, b.Val)`), and `b.t` never changes, so a live bucket pointer is
identified by its timestamp. The model therefore stores bucket *contents* once, in
`times : Int → Option (List ID)`, and the heap entry's `item` is the bucket's timestamp `t`
(the "address" of the bucket); `b.Item.items` is read as `times b.item`.

There is no rounding of expiries: one bucket per distinct `int64` timestamp. `t = 0` is never
tracked (`add` returns at once); negative timestamps are tracked like any other.
Every exported method holds `e.mu` for its whole body, so each is one atomic step.
-/
namespace HyperModel.EMap
open HyperModel.Heap

structure EMap where
  /-- `bh *heap.Heap[*bucket, int64]`; `item` = timestamp of the bucket pointed to -/
  bh : Heap Int
  /-- `seen set.Set[ids.ID]` -/
  seen : ID → Bool
  /-- `times map[int64]*bucket`, with the bucket's `items` as value -/
  times : Int → Option (List ID)

/-- `NewEMap` -/
def EMap.new : EMap := { bh := Heap.new true, seen := fun _ => false, times := fun _ => none }

/-- `EMap.add(id, t)` -/
def EMap.add1 (e : EMap) (id : ID) (t : Int) : EMap :=
  if t = 0 then e
  else if e.seen id then e
  else
    let seen := fun j => if j = id then true else e.seen j
    match e.times t with
    | some items =>
      { e with seen := seen, times := fun u => if u = t then some (items ++ [id]) else e.times u }
    | none =>
      { bh := e.bh.push { id := id, val := t, item := t, index := e.bh.len },
        seen := seen,
        times := fun u => if u = t then some [id] else e.times u }

/-- `EMap.Add(items)`; an item is `(GetID(), GetExpiry())`. -/
def EMap.add (e : EMap) (items : List (ID × Int)) : EMap :=
  items.foldl (fun e it => e.add1 it.1 it.2) e

/-- inner `for _, id := range b.Item.items { e.seen.Remove(id); evicted = append(evicted, id) }` -/
def removeSeen (seen : ID → Bool) (ids : List ID) : ID → Bool :=
  ids.foldl (fun s id => fun j => if j = id then false else s j) seen

/-- loop of `EMap.SetMin(t)`. Fuel = number of buckets; each iteration pops one, so the fuel is
never what stops the loop (proved in `Proofs/EMap.lean`). -/
def EMap.setMinLoop (t : Int) : Nat → EMap → List ID → EMap × List ID
  | 0, e, ev => (e, ev)
  | fuel + 1, e, ev =>
    match e.bh.first with
    | none => (e, ev)
    | some b =>
      if b.val ≥ t then (e, ev)
      else
        let bh := (e.bh.pop).1
        let ids := (e.times b.item).getD []
        EMap.setMinLoop t fuel
          { bh := bh, seen := removeSeen e.seen ids,
            times := fun u => if u = b.val then none else e.times u }
          (ev ++ ids)

/-- `EMap.SetMin(t)`: evicted IDs in eviction order. -/
def EMap.setMin (e : EMap) (t : Int) : EMap × List ID :=
  EMap.setMinLoop t e.bh.len e []

/-- `EMap.Any(items)` -/
def EMap.any (e : EMap) (ids : List ID) : Bool := ids.any e.seen

/-- loop of `EMap.Contains(items, marker, stop)`; `marker` is the list of set bit positions. -/
def containsLoop (seen : ID → Bool) (stop : Bool) : Nat → List ID → List Nat → List Nat
  | _, [], marker => marker
  | i, id :: rest, marker =>
    if marker.contains i then containsLoop seen stop (i + 1) rest marker
    else if seen id then
      let marker := marker ++ [i]
      if stop then marker else containsLoop seen stop (i + 1) rest marker
    else containsLoop seen stop (i + 1) rest marker

/-- `EMap.Contains(items, marker, stop)` -/
def EMap.contains (e : EMap) (ids : List ID) (marker : List Nat) (stop : Bool) : List Nat :=
  containsLoop e.seen stop 0 ids marker

end HyperModel.EMap
