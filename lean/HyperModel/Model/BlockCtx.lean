import HyperModel.Model.Genesis
import HyperModel.Generated.FactsC11
/-!
Model of the header checks of block verification (property C11). Core Lean only.

Transcribes
* `chain/processor.go: (*Processor).Execute` (order of checks and which error wins),
  `createBlockContext`, `writeBlockContext`, `verifyParentRoot`
* `chain/builder.go: BuildBlock` — only its timestamp logic
* `chain/genesis.go: NewGenesisCommit` — state timestamp `0`, header timestamp 2023-01-01

Go's machine integers: `uint64` is a `Nat` below `2^64` with explicit `% 2^64`; `int64` is an
`Int` in `[-2^63, 2^63)` with explicit wrap-around (`wrapI64`) where the Go code adds.
Everything `Execute` consults besides the parent view and the block (wall clock, rules,
outcome of transaction execution / replay protection / signature verification, the fee
bytes and merkle root of the resulting view) is the `Env` parameter.
-/
namespace HyperModel.BlockCtx
open HyperModel.Genesis (Bytes be64 parseU64)

def two63 : Int := 9223372036854775808
def two64 : Int := 18446744073709551616

/-- Go `int64` wrap-around: the representative of `x` mod `2^64` in `[-2^63, 2^63)` -/
def wrapI64 (x : Int) : Int := (x + two63) % two64 - two63

/-- `a + b` on `int64` -/
def addI64 (a b : Int) : Int := wrapI64 (a + b)

/-- `int64(u)` for a `uint64` -/
def toI64 (u : Nat) : Int := wrapI64 (u : Int)

/-- `uint64(i)` for an `int64` -/
def toU64 (i : Int) : Nat := (i % two64).toNat

def InI64 (x : Int) : Prop := -two63 ≤ x ∧ x < two63

instance (x : Int) : Decidable (InI64 x) := by unfold InI64; exact inferInstance

/-- what `createBlockContext` / `verifyParentRoot` read from the parent `merkledb.View` -/
structure View where
  heightRaw : Option Bytes      -- value under `HeightKey`, `none` = `database.ErrNotFound`
  tsRaw : Option Bytes          -- value under `TimestampKey`
  feeRaw : Option Bytes         -- value under `FeeKey`
  root : Nat                    -- `parentView.GetMerkleRoot`
  deriving DecidableEq, Repr

/-- the header fields of a `StatelessBlock` that `Execute` looks at -/
structure Block where
  height : Nat                  -- `Hght uint64`
  ts : Int                      -- `Tmstmp int64`
  numTxs : Nat                  -- `len(Txs)`
  stateRoot : Nat               -- `StateRoot`
  deriving DecidableEq, Repr

def Block.WF (b : Block) : Prop := b.height < 18446744073709551616 ∧ InI64 b.ts

structure Rules where
  minBlockGap : Int             -- `GetMinBlockGap() int64`
  minEmptyBlockGap : Int        -- `GetMinEmptyBlockGap() int64`
  deriving DecidableEq, Repr

structure Env where
  now : Int                     -- `time.Now().UnixMilli()` of the verifying node
  rules : Int → Rules           -- `ruleFactory.GetRules(b.Tmstmp)`
  replayOk : Bool               -- `!isNormalOp || VerifyExpiryReplayProtection(b) == nil`
  txsOk : Bool                  -- `executeTxs` returned no error
  sigsOk : Bool                 -- `waitSignatures` returned no error
  nextFee : Bytes               -- `blockContext.feeManager.Bytes()` after execution
  newRoot : Nat                 -- merkle root of the resulting view

inductive Err where
  | tooLate            -- ErrTimestampTooLate
  | fetchHeight        -- ErrFailedToFetchParentHeight
  | parseHeight        -- ErrFailedToParseParentHeight
  | height             -- ErrInvalidBlockHeight
  | fetchTimestamp     -- ErrFailedToFetchParentTimestamp
  | parseTimestamp     -- ErrFailedToParseParentTimestamp
  | tooEarly           -- ErrTimestampTooEarly
  | tooEarlyEmpty      -- ErrTimestampTooEarlyEmptyBlock
  | fetchFee           -- ErrFailedToFetchParentFee
  | replay             -- ErrDuplicateTx
  | txs                -- "failed to execute txs"
  | root               -- ErrStateRootMismatch
  | sigs               -- "signatures failed verification"
  | feePanic           -- Go run-time panic (slice bounds) decoding a truncated fee state
  deriving DecidableEq, Repr

open HyperModel.Generated.C11 (futureBoundMs genesisHeaderTimestamp)

/-- `len(raw)` of a complete `internal/fees.Manager` state:
`consts.Int64Len + FeeDimensions * dimensionStateLen` (constants read from the running code) -/
def feeStateLen : Nat :=
  8 + HyperModel.Generated.C27.feeDimensions * (8 + HyperModel.Generated.C27.windowSliceSize + 8)

/-- `fees.NewManager(raw).ComputeNext(..)` does not panic: an empty value stands for a fresh
manager, anything else is sliced up to `feeStateLen` (longer values: the tail is ignored) -/
def FeeOk (raw : Bytes) : Prop := raw.length = 0 ∨ feeStateLen ≤ raw.length

instance (raw : Bytes) : Decidable (FeeOk raw) := by unfold FeeOk; exact inferInstance

/-- `createBlockContext`: the checks against the parent *state*; returns nothing but success
(the fee manager is part of `Env`). -/
def createBlockContext (r : Rules) (p : View) (b : Block) : Except Err Unit :=
  match p.heightRaw with
  | none => .error .fetchHeight
  | some hraw =>
    match parseU64 hraw with
    | none => .error .parseHeight
    | some parentHeight =>
      if b.height ≠ (parentHeight + 1) % 18446744073709551616 then .error .height else
      match p.tsRaw with
      | none => .error .fetchTimestamp
      | some traw =>
        match parseU64 traw with
        | none => .error .parseTimestamp
        | some parsed =>
          let parentTimestamp := toI64 parsed
          if b.ts < addI64 parentTimestamp r.minBlockGap then .error .tooEarly else
          if b.numTxs = 0 ∧ b.ts < addI64 parentTimestamp r.minEmptyBlockGap then
            .error .tooEarlyEmpty else
          match p.feeRaw with
          | none => .error .fetchFee
          | some raw =>
            -- `fees.NewManager(parentFeeRaw).ComputeNext(block.Tmstmp, r)`: a non-empty value
            -- shorter than a complete state makes Go panic (slice bounds out of range); the
            -- state written by `writeBlockContext` / genesis is always complete
            if FeeOk raw then .ok () else .error .feePanic

/-- the view after `writeBlockContext` + `createView`: the metadata keys hold the block's
height / timestamp and the next fee bytes (inserted last, so nothing a transaction wrote
to those keys survives). -/
def postView (env : Env) (b : Block) : View :=
  { heightRaw := some (be64 b.height), tsRaw := some (be64 (toU64 b.ts)),
    feeRaw := some env.nextFee, root := env.newRoot }

/-- `Processor.Execute` -/
def execute (env : Env) (p : View) (b : Block) : Except Err View :=
  let r := env.rules b.ts
  if b.ts > env.now + (futureBoundMs : Int) then .error .tooLate else
  match createBlockContext r p b with
  | .error e => .error e
  | .ok () =>
    if !env.replayOk then .error .replay else
    if !env.txsOk then .error .txs else
    if b.stateRoot ≠ p.root then .error .root else          -- verifyParentRoot
    if !env.sigsOk then .error .sigs else
    .ok (postView env b)

/-- the state view produced by `NewGenesisCommit` as `Execute` sees it: height `0`,
timestamp `0`, the initial fee bytes, some root -/
def genesisView (fee : Bytes) (root : Nat) : View :=
  { heightRaw := some (be64 0), tsRaw := some (be64 0), feeRaw := some fee, root := root }

/-- the genesis *header* of `NewGenesisCommit` -/
def genesisBlock (root : Nat) : Block :=
  { height := 0, ts := (genesisHeaderTimestamp : Int), numTxs := 0, stateRoot := root }

/-! ## builder -/

inductive BuildErr where
  | tooEarly           -- ErrTimestampTooEarly
  | noTxs              -- ErrNoTxs
  deriving DecidableEq, Repr

/-- the timestamp logic of `Builder.BuildBlock`: `nextTime := time.Now()`, compared with the
parent *header's* timestamp; `numTxs` is the number of transactions that made it in. Returns
the (height, timestamp) of the built header. -/
def buildHeader (now : Int) (rules : Int → Rules) (parent : Block) (numTxs : Nat) :
    Except BuildErr (Nat × Int) :=
  let r := rules now
  if now < addI64 parent.ts r.minBlockGap then .error .tooEarly else
  if numTxs = 0 ∧ now < addI64 parent.ts r.minEmptyBlockGap then .error .noTxs else
  .ok ((parent.height + 1) % 18446744073709551616, now)

/-- what the builder does with one mempool transaction: it ends up in the block, or it is
dropped on the way (repeat within the validity window, `PreExecute` failure such as an
unfunded sponsor or a misaligned timestamp, …) -/
inductive MTx where
  | included
  | dropped
  deriving DecidableEq, Repr

/-- `Builder.BuildBlock` as far as the header is concerned: the early `MinBlockGap` test, the
streaming loop (only its outcome: which transactions made it in), the *trailing*
`len(blockTransactions) == 0` test against `MinEmptyBlockGap` — keyed on the finished block,
not on the mempool —, and the header with the parent view's root. -/
def buildBlock (now : Int) (rules : Int → Rules) (parent : Block) (parentRoot : Nat)
    (mempool : List MTx) : Except BuildErr Block :=
  let n := (mempool.filter (· = .included)).length
  match buildHeader now rules parent n with
  | .error e => .error e
  | .ok (h, t) => .ok { height := h, ts := t, numTxs := n, stateRoot := parentRoot }

end HyperModel.BlockCtx
